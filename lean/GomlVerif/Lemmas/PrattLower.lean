import GomlVerif.Lemmas.PrattSpine
/-!
Lowering the CST of a printed tree (its spine) gives the tree back: the postfix operations
that the parser attached outside a prefix operator are re-attached to its operand.
-/
namespace Goml.Pratt
open Goml.Gen.BindingPower

/-! ### tuple indices: `digitsNat (natDigits n) = n` -/

theorem digitVal_ofNat (d : Nat) (h : d < 10) : digitVal (Char.ofNat (48 + d)) = some d := by
  have : d = 0 ∨ d = 1 ∨ d = 2 ∨ d = 3 ∨ d = 4 ∨ d = 5 ∨ d = 6 ∨ d = 7 ∨ d = 8 ∨ d = 9 := by omega
  rcases this with h | h | h | h | h | h | h | h | h | h <;> subst h <;> decide

def digitStep (acc : Option Nat) (c : Char) : Option Nat :=
  match acc, digitVal c with
  | some a, some d => some (a * 10 + d)
  | _, _ => none

theorem digitsNat_eq (cs : List Char) (h : cs ≠ []) : digitsNat cs = cs.foldl digitStep (some 0) := by
  cases cs with
  | nil => exact absurd rfl h
  | cons c cs => rfl

theorem natDigits_ne_nil (n : Nat) : natDigits n ≠ [] := by
  rw [natDigits]; split <;> simp

theorem foldl_natDigits (n : Nat) : (natDigits n).foldl digitStep (some 0) = some n := by
  induction n using Nat.strongRecOn with
  | _ n ih =>
    rw [natDigits]
    split
    · rename_i h
      simp [digitStep, digitVal_ofNat n h]
    · rename_i h
      rw [List.foldl_append, ih (n / 10) (by omega)]
      simp [digitStep, digitVal_ofNat (n % 10) (by omega)]
      omega

theorem digitsNat_natDigits (n : Nat) : digitsNat (natDigits n) = some n := by
  rw [digitsNat_eq _ (natDigits_ne_nil n), foldl_natDigits]

/-! ### one postfix operation -/

def lowCPost : CPost → Option Trail
  | .call as => (lowerList as).map .call
  | .dot r => dotPost r

def PendLow (ps : List Pend) : Prop := ∀ p, p ∈ ps → lowCPost p.post = some p.trail

/-- pending operations handed to `h` are simply applied to what `h` lowers to -/
def Fwd (h : Cst) : Prop := ∀ trs, lower h trs = (lower h []).map (fun b => applyTrail b trs)

def Good (h : Cst) : Prop := prefixSpine h = true ∨ Fwd h

theorem prefixSpine_applyCPost (h : Cst) (q : CPost) : prefixSpine (applyCPost h q) = prefixSpine h := by
  cases q <;> simp [applyCPost, prefixSpine]

theorem lower_call_ident (s : String) (as : List Cst) (as' : List Ast) (tr : List Trail)
    (has : lowerList as = some as') :
    lower (.call (.ident s) as) tr = some (applyTrail (.call (.var s) as') tr) := by
  rw [lower]; simp [has]

theorem lower_call_fwd (f : Cst) (as : List Cst) (as' : List Ast) (tr : List Trail)
    (has : lowerList as = some as') (hid : ∀ s, f ≠ .ident s)
    (hc : (isPostfixNode f && !prefixSpine f) = false) :
    lower (.call f as) tr = lower f (.call as' :: tr) := by
  rw [lower]
  simp only [has]
  cases f with
  | ident s => exact absurd rfl (hid s)
  | _ => simp only [hc, Bool.false_eq_true, if_false]

theorem lower_call_wrap (f : Cst) (as : List Cst) (as' : List Ast) (tr : List Trail)
    (has : lowerList as = some as') (hid : ∀ s, f ≠ .ident s)
    (hc : (isPostfixNode f && !prefixSpine f) = true) :
    lower (.call f as) tr = (lower f []).map (fun fe => applyTrail (.call fe as') tr) := by
  rw [lower]
  simp only [has]
  cases f with
  | ident s => exact absurd rfl (hid s)
  | _ => simp only [hc, if_true]; split <;> simp_all

theorem lower_dot_fwd (l r : Cst) (post : Trail) (tr : List Trail) (hr : dotPost r = some post)
    (hs : prefixSpine l = true) : lower (.binary .Dot l r) tr = lower l (post :: tr) := by
  rw [lower]; simp [hs, hr]

theorem lower_dot_wrap (l r : Cst) (post : Trail) (tr : List Trail) (hr : dotPost r = some post)
    (hs : prefixSpine l = false) :
    lower (.binary .Dot l r) tr = (lower l []).map (fun le => applyTrail le (post :: tr)) := by
  rw [lower]; simp only [hs, hr, if_true, Bool.false_eq_true, if_false]
  cases lower l [] <;> simp

theorem lower_step {h : Cst} {q : CPost} {tr : Trail} (hg : Good h) (hq : lowCPost q = some tr) :
    ∀ trs, lower (applyCPost h q) trs = lower h (tr :: trs) := by
  intro trs
  have hfwd : prefixSpine h = false → Fwd h := by
    intro hsp
    rcases hg with hg | hg
    · rw [hg] at hsp; cases hsp
    · exact hg
  cases q with
  | call as =>
    simp only [lowCPost, Option.map_eq_some_iff] at hq
    obtain ⟨as', has, rfl⟩ := hq
    simp only [applyCPost]
    by_cases hid : ∃ s, h = .ident s
    · obtain ⟨s, rfl⟩ := hid
      rw [lower_call_ident s as as' trs has]
      simp [lower, applyTrail, applyPost]
    · have hid' : ∀ s, h ≠ .ident s := fun s hs => hid ⟨s, hs⟩
      cases hc : (isPostfixNode h && !prefixSpine h) with
      | false => exact lower_call_fwd h as as' trs has hid' hc
      | true =>
        rw [lower_call_wrap h as as' trs has hid' hc]
        have hsp : prefixSpine h = false := by
          cases hp : prefixSpine h <;> simp [hp] at hc ⊢
        rw [hfwd hsp (.call as' :: trs)]
        cases lower h [] <;> simp [applyTrail, applyPost]
  | dot r =>
    simp only [lowCPost] at hq
    simp only [applyCPost]
    cases hsp : prefixSpine h with
    | true => exact lower_dot_fwd h r tr trs hq hsp
    | false =>
      rw [lower_dot_wrap h r tr trs hq hsp, hfwd hsp (tr :: trs)]

theorem good_step {h : Cst} {q : CPost} {tr : Trail} (hg : Good h) (hq : lowCPost q = some tr) :
    Good (applyCPost h q) := by
  rcases hg with hs | hf
  · exact Or.inl (by rw [prefixSpine_applyCPost]; exact hs)
  · refine Or.inr ?_
    intro trs
    rw [lower_step (Or.inr hf) hq, lower_step (Or.inr hf) hq, hf (tr :: trs), hf [tr]]
    cases lower h [] <;> simp [applyTrail]

/-- lowering a head with postfix operations applied = handing the operations to the head -/
theorem lower_applyPend : ∀ (ps : List Pend) (h : Cst) (trs : List Trail), Good h → PendLow ps →
    lower (applyPend h ps) trs = lower h (pendTrails ps ++ trs) := by
  intro ps
  induction ps with
  | nil => intro h trs _ _; rfl
  | cons p ps ih =>
    intro h trs hg hp
    have hq := hp p (List.mem_cons_self ..)
    rw [applyPend, ih _ trs (good_step hg hq) (fun q hq => hp q (List.mem_cons_of_mem _ hq)),
      lower_step hg hq]
    rfl

/-! ### lowering the spine of a tree -/

def isUn : Ast → Bool
  | .un _ _ => true
  | _ => false

/-- can the bare spine of `t` absorb pending operations? (a literal cannot, a bare binary
operator would push them into its right operand — it is always parenthesised there) -/
def takes : Ast → Bool
  | .var _ => true
  | .lit _ => false
  | .bin _ _ _ => false
  | .un _ e => needsParen e unC || takes e
  | _ => true

/-- the tree obtained when pending operations reach the spine of `t`: they pass the prefix
operators and apply to the operand -/
def deep : Ast → List Trail → Ast
  | .un u e, trs => .un u (if needsParen e unC then applyTrail e trs else deep e trs)
  | .var x, trs => applyTrail (.var x) trs
  | .lit s, trs => applyTrail (.lit s) trs
  | .bin o l r, trs => applyTrail (.bin o l r) trs
  | .call f as, trs => applyTrail (.call f as) trs
  | .field e x, trs => applyTrail (.field e x) trs
  | .proj e n, trs => applyTrail (.proj e n) trs

theorem deep_of_not_un {t : Ast} (h : isUn t = false) (trs : List Trail) : deep t trs = applyTrail t trs := by
  cases t <;> simp [isUn, deep] at h ⊢

theorem deep_nil : ∀ t, deep t [] = t := by
  intro t
  induction t using Ast.ind with
  | un u e ih => simp [deep, ih, applyTrail]
  | _ => simp [deep, applyTrail]

structure LP (t : Ast) : Prop where
  pl : PendLow (bare t).pend
  sp : prefixSpine (bare t).head = isUn t
  fw : isUn t = false → takes t = true → Fwd (bare t).head
  c3 : ∀ trs, (trs = [] ∨ takes t = true) →
    lower (bare t).head (pendTrails (bare t).pend ++ trs) = some (deep t trs)

theorem LP.good_or {t} (lp : LP t) : Good (bare t).head ∨ (bare t).pend = [] := by
  cases hu : isUn t with
  | true => exact Or.inl (Or.inl (by rw [lp.sp, hu]))
  | false =>
    cases ht : takes t with
    | true => exact Or.inl (Or.inr (lp.fw hu ht))
    | false =>
      refine Or.inr ?_
      cases t <;> simp [isUn, takes, bare] at hu ht ⊢

/-- the full CST of a bare tree lowers to the tree -/
theorem LP.c0 {t} (lp : LP t) : lower (bare t).full [] = some t := by
  have h3 := lp.c3 [] (Or.inl rfl)
  rw [deep_nil, List.append_nil] at h3
  rcases lp.good_or with hg | hp
  · rw [Spine.full, lower_applyPend _ _ _ hg lp.pl, List.append_nil, h3]
  · rw [hp] at h3
    rw [Spine.full, hp]
    simpa [applyPend, pendTrails] using h3

theorem fwd_paren (e : Cst) : Fwd (.paren e) := by
  intro trs
  simp only [lower]
  cases lower e [] <;> simp [applyTrail]

theorem LP.c0w {t} (lp : LP t) (c : Nat) : lower (spineAt t c).full [] = some t := by
  cases hp : needsParen t c with
  | true =>
    rw [spineAt_paren' hp]
    have := lp.c0
    simp only [Spine.full] at this
    simp [Spine.full, applyPend, lower, this, applyTrail]
  | false => rw [spineAt_bare' hp]; exact lp.c0

theorem LP.plw {t} (lp : LP t) (c : Nat) : PendLow (spineAt t c).pend := by
  cases hp : needsParen t c with
  | true => rw [spineAt_paren' hp]; intro p hp; cases hp
  | false => rw [spineAt_bare' hp]; exact lp.pl

theorem LP.spw {t} (lp : LP t) (c : Nat) :
    prefixSpine (spineAt t c).head = (!needsParen t c && isUn t) := by
  cases hp : needsParen t c with
  | true => rw [spineAt_paren' hp]; simp [prefixSpine]
  | false => rw [spineAt_bare' hp]; simp [lp.sp]

theorem LP.fww {t} (lp : LP t) (c : Nat) (h : needsParen t c = true ∨ (isUn t = false ∧ takes t = true)) :
    Fwd (spineAt t c).head := by
  cases hp : needsParen t c with
  | true => rw [spineAt_paren' hp]; exact fwd_paren _
  | false =>
    rw [spineAt_bare' hp]
    rcases h with h | ⟨h1, h2⟩
    · rw [hp] at h; cases h
    · exact lp.fw h1 h2

theorem LP.c3w {t} (lp : LP t) (c : Nat) (trs : List Trail)
    (h : trs = [] ∨ needsParen t c = true ∨ takes t = true) :
    lower (spineAt t c).head (pendTrails (spineAt t c).pend ++ trs) =
      some (if needsParen t c then applyTrail t trs else deep t trs) := by
  cases hp : needsParen t c with
  | true =>
    rw [spineAt_paren' hp]
    have := lp.c0
    simp [pendTrails, lower, this]
  | false =>
    rw [spineAt_bare' hp]
    simp only [Bool.false_eq_true, if_false]
    refine lp.c3 trs ?_
    rcases h with h | h | h
    · exact Or.inl h
    · rw [hp] at h; cases h
    · exact Or.inr h

theorem lowerList_bareArgs : ∀ (as : List Ast), (∀ a, a ∈ as → LP a) → lowerList (bareArgs as) = some as := by
  intro as
  induction as with
  | nil => intro _; rfl
  | cons a as ih =>
    intro h
    simp [bareArgs, lowerList, (h a (List.mem_cons_self ..)).c0,
      ih (fun b hb => h b (List.mem_cons_of_mem _ hb))]

theorem pendTrails_append (a b : List Pend) : pendTrails (a ++ b) = pendTrails a ++ pendTrails b := by
  induction a with
  | nil => rfl
  | cons p ps ih => simp [pendTrails, ih]

/-- a receiver that is not a literal either gets parentheses or can take pending operations -/
theorem recv_takes {f : Ast} (h : isLit f = false) :
    needsParen f postC = true ∨ (isUn f = false ∧ takes f = true) := by
  cases f with
  | lit s => simp [isLit] at h
  | bin o l r => left; simp only [needsParen, decide_eq_true_eq]; cases o <;> decide
  | un u e => left; simp only [needsParen, decide_eq_true_eq]; decide
  | _ => right; simp [isUn, takes]

theorem needsParen_postC_of_un {f : Ast} (h : isUn f = true) : needsParen f postC = true := by
  cases f <;> simp [isUn] at h
  simp only [needsParen, decide_eq_true_eq]; decide

theorem wfList_mem : ∀ (as : List Ast), wfList as = true → ∀ a, a ∈ as → wf a = true := by
  intro as
  induction as with
  | nil => intro _ a h; cases h
  | cons b bs ih =>
    intro h a ha
    simp only [wfList, Bool.and_eq_true] at h
    cases ha with
    | head => exact h.1
    | tail _ h' => exact ih h.2 a h'

theorem pendTrails_single (p : Pend) : pendTrails [p] = [p.trail] := rfl

/-- shared proof of the `.field` / `.index` cases -/
theorem lp_access (e : Ast) (lpe : LP e) (t : Ast) (rt : Tok) (r : Cst)
    (tr : Trail) (hdot : dotPost r = some tr)
    (hbare : bare t =
      if (spineAt e postC).pend.isEmpty then
        ⟨.binary .Dot (spineAt e postC).head r, (spineAt e postC).htoks ++ [.op .Dot, rt], []⟩
      else ⟨(spineAt e postC).head, (spineAt e postC).htoks,
            (spineAt e postC).pend ++ [⟨.dot r, [.op .Dot, rt], tr⟩]⟩)
    (hun : isUn t = false) (hdeep : ∀ trs, deep t trs = applyTrail e (tr :: trs)) : LP t := by
  have hsp : prefixSpine (spineAt e postC).head = false := by
    rw [lpe.spw postC]
    cases hu : isUn e with
    | false => simp
    | true => simp [needsParen_postC_of_un hu]
  -- the receiver on its own lowers to `e` (also when `e` is a literal: `7 . f`, `(a, b) . 0`)
  have hc30 : lower (spineAt e postC).head (pendTrails (spineAt e postC).pend ++ []) = some e := by
    rw [lpe.c3w postC [] (Or.inl rfl)]
    cases hp : needsParen e postC <;> simp [applyTrail, deep_nil]
  cases hpe : (spineAt e postC).pend with
  | nil =>
    have hb : bare t = ⟨.binary .Dot (spineAt e postC).head r, (spineAt e postC).htoks ++ [.op .Dot, rt], []⟩ := by
      rw [hbare, hpe]; rfl
    have hlow : ∀ trs, lower (.binary .Dot (spineAt e postC).head r) trs = some (applyTrail e (tr :: trs)) := by
      intro trs
      have h0 := hc30
      rw [hpe] at h0
      simp only [pendTrails, List.append_nil] at h0
      rw [lower_dot_wrap _ _ tr trs hdot hsp, h0]
      rfl
    refine ⟨?_, ?_, ?_, ?_⟩
    · rw [hb]; intro p hp; cases hp
    · rw [hb, hun]; simp [prefixSpine, hsp]
    · intro _ _ trs
      rw [hb]
      simp only [hlow]
      simp [applyTrail]
    · intro trs _
      rw [hb]
      simp only [pendTrails, List.nil_append, hlow, hdeep]
  | cons p ps =>
    have hb : bare t = ⟨(spineAt e postC).head, (spineAt e postC).htoks,
        (spineAt e postC).pend ++ [⟨.dot r, [.op .Dot, rt], tr⟩]⟩ := by
      rw [hbare, hpe]; rfl
    -- something is pending, so the receiver is not a literal
    have hlit : isLit e = false := by
      cases e with
      | lit s => simp [spineAt, bare, needsParen, Spine.wrap] at hpe
      | _ => rfl
    have hrecv := recv_takes hlit
    have hc3' : ∀ trs, lower (spineAt e postC).head (pendTrails (spineAt e postC).pend ++ trs)
        = some (applyTrail e trs) := by
      intro trs
      rw [lpe.c3w postC trs (by rcases hrecv with h | ⟨_, h⟩ <;> simp [h])]
      rcases hrecv with h | ⟨h, _⟩
      · simp [h]
      · cases hp : needsParen e postC <;> simp [deep_of_not_un h]
    refine ⟨?_, ?_, ?_, ?_⟩
    · rw [hb]
      intro q hq
      rcases List.mem_append.mp hq with hq | hq
      · exact lpe.plw postC q hq
      · simp only [List.mem_singleton] at hq; subst hq; exact hdot
    · rw [hb, hun]; exact hsp
    · intro _ _
      rw [hb]
      exact lpe.fww postC hrecv
    · intro trs _
      rw [hb]
      simp only [pendTrails_append, pendTrails_single, List.append_assoc, List.cons_append,
        List.nil_append]
      rw [hc3', hdeep]

/-- lowering the spine of a well-formed tree gives the tree -/
theorem lp_all : ∀ t, wf t = true → LP t := by
  intro t
  induction t using Ast.ind with
  | var x =>
    intro _
    refine ⟨?_, ?_, ?_, ?_⟩
    · intro p hp; simp [bare] at hp
    · simp [bare, prefixSpine, isUn]
    · intro _ _ trs; simp [bare, lower, applyTrail]
    · intro trs _; simp [bare, pendTrails, lower, deep]
  | lit s =>
    intro _
    refine ⟨?_, ?_, ?_, ?_⟩
    · intro p hp; simp [bare] at hp
    · simp [bare, prefixSpine, isUn]
    · intro _ h; simp [takes] at h
    · intro trs h
      rcases h with h | h
      · subst h; simp [bare, pendTrails, lower, deep, applyTrail]
      · simp [takes] at h
  | bin o l r ihl ihr =>
    intro hw
    simp only [wf, Bool.and_eq_true] at hw
    have lpl := ihl hw.1
    have lpr := ihr hw.2
    have hb : bare (.bin o l r) = ⟨.binary o.tk (spineAt l (lbp o)).full (spineAt r (rbp o)).full,
        (spineAt l (lbp o)).toks ++ .op o.tk :: (spineAt r (rbp o)).toks, []⟩ := by
      simp [bare, spineAt]
    refine ⟨?_, ?_, ?_, ?_⟩
    · rw [hb]; intro p hp; cases hp
    · rw [hb]; simp [prefixSpine, isUn, tk_ne_dot]
    · intro _ h; simp [takes] at h
    · intro trs h
      rcases h with h | h
      · subst h
        rw [hb]
        simp only [pendTrails, List.append_nil]
        rw [lower]
        simp [tk_ne_dot, lpl.c0w, lpr.c0w, binOpOf_tk, deep, applyTrail]
      · simp [takes] at h
  | un u e ih =>
    intro hw
    simp only [wf] at hw
    have lpe := ih hw
    have hb : bare (.un u e) = ⟨.prefix u.tk (spineAt e unC).head, .op u.tk :: (spineAt e unC).htoks,
        (spineAt e unC).pend⟩ := by
      simp [bare, spineAt]
    refine ⟨?_, ?_, ?_, ?_⟩
    · rw [hb]; exact lpe.plw unC
    · rw [hb]; simp [prefixSpine, isUn]
    · intro h; simp [isUn] at h
    · intro trs h
      rw [hb]
      simp only []
      rw [lower, lpe.c3w unC trs (by
        rcases h with h | h
        · exact Or.inl h
        · simp only [takes, Bool.or_eq_true] at h; exact Or.inr h)]
      simp [unOpOf_tk, deep]
  | call f as ihf ihas =>
    intro hw
    simp only [wf, Bool.and_eq_true, Bool.not_eq_true'] at hw
    obtain ⟨⟨hlit, hwf⟩, hwas⟩ := hw
    have lpf := ihf hwf
    have lpas : ∀ a, a ∈ as → LP a := fun a ha => ihas a ha (wfList_mem as hwas a ha)
    have hrecv := recv_takes hlit
    have hb : bare (.call f as) = ⟨(spineAt f postC).head, (spineAt f postC).htoks,
        (spineAt f postC).pend ++ [⟨.call (bareArgs as), .op .LParen :: printArgs as, .call as⟩]⟩ := by
      simp [bare, spineAt]
    have hsp : prefixSpine (spineAt f postC).head = false := by
      rw [lpf.spw postC]
      cases hu : isUn f with
      | false => simp
      | true => simp [needsParen_postC_of_un hu]
    refine ⟨?_, ?_, ?_, ?_⟩
    · rw [hb]
      intro q hq
      rcases List.mem_append.mp hq with hq | hq
      · exact lpf.plw postC q hq
      · simp only [List.mem_singleton] at hq; subst hq
        simp [lowCPost, lowerList_bareArgs as lpas]
    · rw [hb]; simp [isUn, hsp]
    · intro _ _
      rw [hb]
      exact lpf.fww postC hrecv
    · intro trs _
      rw [hb]
      simp only [pendTrails_append, pendTrails_single, List.append_assoc, List.cons_append,
        List.nil_append]
      rw [lpf.c3w postC (.call as :: trs) (by rcases hrecv with h | ⟨_, h⟩ <;> simp [h])]
      rcases hrecv with h | ⟨h, _⟩
      · simp [h, deep, applyTrail, applyPost]
      · cases hp : needsParen f postC <;> simp [deep_of_not_un h, deep, applyTrail, applyPost]
  | field e x ih =>
    intro hw
    simp only [wf] at hw
    refine lp_access e (ih hw) _ (.ident x) (.ident x) (.field x) rfl ?_ rfl ?_
    · simp only [bare, spineAt]
      split <;> simp_all
    · intro trs; simp [deep, applyTrail, applyPost]
  | proj e n ih =>
    intro hw
    simp only [wf] at hw
    refine lp_access e (ih hw) _ (.int (natDigits n)) (.int (natDigits n)) (.proj n) ?_ ?_ rfl ?_
    · simp [dotPost, digitsNat_natDigits]
    · simp only [bare, spineAt]
      split <;> simp_all
    · intro trs; simp [deep, applyTrail, applyPost]

end Goml.Pratt
