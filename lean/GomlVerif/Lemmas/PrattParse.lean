import GomlVerif.Lemmas.PrattSpine
/-!
The Pratt model parses the tokens of a printed tree into the CST described by its spine.
-/
namespace Goml.Pratt
open Goml.Gen.BindingPower

theorem lbp_lt_unC (o : BinOp) : lbp o < unC := by cases o <;> decide
theorem unC_succ_le_pre (u : UnOp) : unC + 1 ≤ preBp u := by cases u <;> decide
theorem callBp_le_dotL : callBp ≤ dotL := by decide

theorem applyPend_append (h : Cst) (a b : List Pend) :
    applyPend h (a ++ b) = applyPend (applyPend h a) b := by
  induction a generalizing h with
  | nil => rfl
  | cons p ps ih => simp [applyPend, ih]

/-- what the surrounding tokens must satisfy for a bare (unparenthesised) `t` -/
def SideOK : Ast → Nat → List Tok → Prop
  | .bin o _ _, m, rest => m ≤ lbp o ∧ stops (lbp o + 1) rest = true
  | .un _ _, _, rest => stops (unC + 1) rest = true
  | _, _, _ => True

/-- the parsing facts proved by induction over trees -/
structure PP (t : Ast) : Prop where
  /-- a call of `exprBp` on the tokens of `t` parses the head of its spine and goes on with the loop -/
  b1 : ∀ m rest c R, m ≤ dotL → SideOK t m rest →
    EvL m (bare t).head (pendToks (bare t).pend ++ rest) c R →
    EvE m ((bare t).htoks ++ (pendToks (bare t).pend ++ rest)) c R
  /-- a loop at a power not above the call power consumes the pending postfix operations -/
  b2 : ∀ h m rest c R, m ≤ callBp →
    EvL m (applyPend h (bare t).pend) rest c R →
    EvL m h (pendToks (bare t).pend ++ rest) c R
  /-- pending operations start with a call, which stops every loop above the call power -/
  i1 : (bare t).pend ≠ [] → ∀ m rest, callBp < m → stops m (pendToks (bare t).pend ++ rest) = true

theorem spineAt_paren {t c} (h : needsParen t c = true) :
    spineAt t c = ⟨.paren (bare t).full, .op .LParen :: ((bare t).toks ++ [.rparen]), []⟩ := by
  simp [spineAt, Spine.wrap, h]

theorem spineAt_bare {t c} (h : needsParen t c = false) : spineAt t c = bare t := by
  simp [spineAt, Spine.wrap, h]

theorem stops_rparen (m : Nat) (ts : List Tok) : stops m (.rparen :: ts) = true := rfl
theorem stops_comma (m : Nat) (ts : List Tok) : stops m (.comma :: ts) = true := rfl

/-- bare `t` followed by `rest`, in a loop that may take calls -/
theorem PP.lbare {t} (pp : PP t) {m rest c R} (hm : m ≤ callBp) (hs : SideOK t m rest)
    (h : EvL m (bare t).full rest c R) : EvE m ((bare t).toks ++ rest) c R := by
  have := pp.b1 m rest c R (Nat.le_trans hm callBp_le_dotL) hs (pp.b2 _ m rest c R hm h)
  simpa [Spine.toks, List.append_assoc] using this

/-- `t` in numeric context `c`, followed by `rest` -/
theorem PP.l {t} (pp : PP t) {c m rest c' R} (hmc : m ≤ c) (hm : m ≤ callBp)
    (hs : stops (c + 1) rest = true)
    (h : EvL m (spineAt t c).full rest c' R) : EvE m ((spineAt t c).toks ++ rest) c' R := by
  cases hp : needsParen t c with
  | true =>
    rw [spineAt_paren hp] at h ⊢
    simp only [Spine.toks, pendToks, List.append_nil, List.cons_append, List.append_assoc]
    refine EvE_paren (e := (bare t).full) ?_ (by simpa [Spine.full, applyPend] using h)
    have hside : SideOK t 0 (.rparen :: rest) := by
      cases t <;> simp [SideOK, stops_rparen]
    have := pp.lbare (m := 0) (rest := .rparen :: rest) (Nat.zero_le _) hside
      (EvL_stop (stops_rparen 0 rest))
    simpa [Spine.toks, List.append_assoc] using this
  | false =>
    rw [spineAt_bare hp] at h ⊢
    refine pp.lbare hm ?_ h
    cases t with
    | bin o l r =>
      simp only [needsParen, decide_eq_false_iff_not, Nat.not_lt] at hp
      exact ⟨Nat.le_trans hmc hp, stops_mono hs (by omega)⟩
    | un u e =>
      simp only [needsParen, decide_eq_false_iff_not, Nat.not_lt] at hp
      exact stops_mono hs (by omega)
    | _ => trivial

/-- contexts in which a spine is split (operand of a prefix operator, receiver of a postfix one) -/
def SpineCtx (c : Nat) (rest : List Tok) : Prop :=
  c = postC ∨ (c = unC ∧ stops (unC + 1) rest = true)

theorem PP.b1w {t} (pp : PP t) {c m rest c' R} (hc : SpineCtx c rest) (hm : m ≤ dotL)
    (h : EvL m (spineAt t c).head (pendToks (spineAt t c).pend ++ rest) c' R) :
    EvE m ((spineAt t c).htoks ++ (pendToks (spineAt t c).pend ++ rest)) c' R := by
  have hcu : unC ≤ c := by
    rcases hc with h | ⟨h, _⟩
    · rw [h]; exact Nat.le_of_lt unC_lt_postC
    · rw [h]; exact Nat.le_refl _
  cases hp : needsParen t c with
  | true =>
    rw [spineAt_paren hp] at h ⊢
    simp only [pendToks, List.nil_append, List.cons_append, List.append_assoc] at h ⊢
    refine EvE_paren (e := (bare t).full) ?_ h
    have hside : SideOK t 0 (.rparen :: rest) := by
      cases t <;> simp [SideOK, stops_rparen]
    have := pp.lbare (m := 0) (rest := .rparen :: rest) (Nat.zero_le _) hside
      (EvL_stop (stops_rparen 0 rest))
    simpa [Spine.toks, List.append_assoc] using this
  | false =>
    rw [spineAt_bare hp] at h ⊢
    refine pp.b1 m rest c' R hm ?_ h
    cases t with
    | bin o l r =>
      simp only [needsParen, decide_eq_false_iff_not, Nat.not_lt] at hp
      have := lbp_lt_unC o
      omega
    | un u e =>
      simp only [needsParen, decide_eq_false_iff_not, Nat.not_lt] at hp
      rcases hc with h | ⟨_, h⟩
      · have := unC_lt_postC; omega
      · exact h
    | _ => trivial

theorem PP.b2w {t} (pp : PP t) (c : Nat) {h m rest c' R} (hm : m ≤ callBp)
    (hl : EvL m (applyPend h (spineAt t c).pend) rest c' R) :
    EvL m h (pendToks (spineAt t c).pend ++ rest) c' R := by
  cases hp : needsParen t c with
  | true => rw [spineAt_paren hp] at hl ⊢; simpa [applyPend, pendToks] using hl
  | false => rw [spineAt_bare hp] at hl ⊢; exact pp.b2 h m rest c' R hm hl

theorem PP.i1w {t} (pp : PP t) (c : Nat) (hne : (spineAt t c).pend ≠ []) {m} (rest : List Tok)
    (hm : callBp < m) : stops m (pendToks (spineAt t c).pend ++ rest) = true := by
  cases hp : needsParen t c with
  | true => rw [spineAt_paren hp] at hne; simp at hne
  | false => rw [spineAt_bare hp] at hne ⊢; exact pp.i1 hne m rest hm

theorem stops_printMore (m : Nat) (as : List Ast) (rest : List Tok) :
    stops m (printMore as ++ rest) = true := by
  cases as <;> rfl

/-- the argument list of a call -/
theorem evA_more (rest : List Tok) : ∀ (as : List Ast), (∀ a, a ∈ as → PP a) →
    ∀ e ts, EvE 0 ts e (printMore as ++ rest) → EvA ts (e :: bareArgs as) rest := by
  intro as
  induction as with
  | nil => intro _ e ts he; exact EvA_last (by simpa [printMore] using he)
  | cons a as ih =>
    intro hpp e ts he
    have ha := hpp a (List.mem_cons_self ..)
    refine EvA_cons (ts' := printMin a 0 ++ (printMore as ++ rest)) (by simpa [printMore] using he) ?_
    rw [bareArgs]
    refine ih (fun b hb => hpp b (List.mem_cons_of_mem _ hb)) _ _ ?_
    rw [printMin_toks a 0 0 compat_zero]
    have hb : spineAt a 0 = bare a := spineAt_bare (by cases a <;> simp [needsParen])
    refine ha.l (c := 0) (Nat.le_refl _) (Nat.zero_le _) (stops_printMore _ _ _) ?_
    rw [hb]
    exact EvL_stop (stops_printMore _ _ _)

theorem evA_args (rest : List Tok) (as : List Ast) (hpp : ∀ a, a ∈ as → PP a) :
    EvA (printArgs as ++ rest) (bareArgs as) rest := by
  cases as with
  | nil => exact EvA_nil
  | cons a as =>
    have ha := hpp a (List.mem_cons_self ..)
    rw [bareArgs]
    refine evA_more rest as (fun b hb => hpp b (List.mem_cons_of_mem _ hb)) _ _ ?_
    simp only [printArgs, List.append_assoc]
    rw [printMin_toks a 0 0 compat_zero]
    have hb : spineAt a 0 = bare a := spineAt_bare (by cases a <;> simp [needsParen])
    refine ha.l (c := 0) (Nat.le_refl _) (Nat.zero_le _) (stops_printMore _ _ _) ?_
    rw [hb]
    exact EvL_stop (stops_printMore _ _ _)

theorem pendToks_single (p : Pend) : pendToks [p] = p.toks := by simp [pendToks]

/-- a `.field` / `.index` step of a loop -/
theorem evL_dot {m h r rt rest c R} (hm : m ≤ dotL) (hr : EvE dotR (rt :: rest) r rest)
    (hl : EvL m (.binary .Dot h r) rest c R) : EvL m h (.op .Dot :: rt :: rest) c R :=
  EvL_infix postfix_dot infix_dot hm hr hl

theorem evE_dot_ident (x : String) (rest : List Tok) : EvE dotR (.ident x :: rest) (.ident x) rest :=
  EvE_ident (EvL_stop (stops_dotR rest))
theorem evE_dot_int (s : List Char) (rest : List Tok) : EvE dotR (.int s :: rest) (.int s) rest :=
  EvE_int (EvL_stop (stops_dotR rest))

/-- shared proof of the `.field` and `.index` cases: `rt` is the token after the dot, `r` its CST -/
theorem pp_access (e : Ast) (ppe : PP e) (t : Ast) (rt : Tok) (r : Cst) (tr : Trail)
    (hr : ∀ rest, EvE dotR (rt :: rest) r rest)
    (hbare : bare t =
      if (spineAt e postC).pend.isEmpty then
        ⟨.binary .Dot (spineAt e postC).head r, (spineAt e postC).htoks ++ [.op .Dot, rt], []⟩
      else ⟨(spineAt e postC).head, (spineAt e postC).htoks,
            (spineAt e postC).pend ++ [⟨.dot r, [.op .Dot, rt], tr⟩]⟩)
    (_hside : ∀ m rest, SideOK t m rest) : PP t := by
  cases hpe : (spineAt e postC).pend with
  | nil =>
    have hb : bare t = ⟨.binary .Dot (spineAt e postC).head r, (spineAt e postC).htoks ++ [.op .Dot, rt], []⟩ := by
      rw [hbare, hpe]; rfl
    refine ⟨?_, ?_, ?_⟩
    · intro m rest c R hm _ h
      rw [hb] at h ⊢
      simp only [pendToks, List.nil_append, List.append_assoc, List.cons_append] at h ⊢
      have := ppe.b1w (c := postC) (rest := .op .Dot :: rt :: rest) (Or.inl rfl) hm
        (by rw [hpe]; simpa [pendToks] using evL_dot hm (hr rest) h)
      simpa [hpe, pendToks] using this
    · intro h m rest c R _ hl
      rw [hb] at hl ⊢
      simpa [applyPend, pendToks] using hl
    · intro hne; rw [hb] at hne; simp at hne
  | cons p ps =>
    have hb : bare t = ⟨(spineAt e postC).head, (spineAt e postC).htoks,
        (spineAt e postC).pend ++ [⟨.dot r, [.op .Dot, rt], tr⟩]⟩ := by
      rw [hbare, hpe]; rfl
    have hne : (spineAt e postC).pend ≠ [] := by rw [hpe]; simp
    refine ⟨?_, ?_, ?_⟩
    · intro m rest c R hm _ h
      rw [hb] at h ⊢
      simp only [pendToks_append, pendToks_single, List.append_assoc] at h ⊢
      exact ppe.b1w (Or.inl rfl) hm h
    · intro h m rest c R hm hl
      rw [hb] at hl ⊢
      simp only [pendToks_append, pendToks_single, List.append_assoc, applyPend_append] at hl ⊢
      refine ppe.b2w postC hm ?_
      exact evL_dot (Nat.le_trans hm callBp_le_dotL) (hr rest) (by simpa [applyPend, applyCPost] using hl)
    · intro _ m rest hm
      rw [hb]
      simp only [pendToks_append, List.append_assoc]
      exact ppe.i1w postC hne _ hm

/-- every printed tree is parsed into its spine -/
theorem pp_all : ∀ t, PP t := by
  intro t
  induction t using Ast.ind with
  | var x =>
    refine ⟨?_, ?_, ?_⟩
    · intro m rest c R _ _ h; exact EvE_ident (by simpa [bare, pendToks] using h)
    · intro h m rest c R _ hl; simpa [bare, applyPend, pendToks] using hl
    · intro hne; simp [bare] at hne
  | lit s =>
    refine ⟨?_, ?_, ?_⟩
    · intro m rest c R _ _ h; exact EvE_int (by simpa [bare, pendToks] using h)
    · intro h m rest c R _ hl; simpa [bare, applyPend, pendToks] using hl
    · intro hne; simp [bare] at hne
  | bin o l r ihl ihr =>
    have hb : bare (.bin o l r) = ⟨.binary o.tk (spineAt l (lbp o)).full (spineAt r (rbp o)).full,
        (spineAt l (lbp o)).toks ++ .op o.tk :: (spineAt r (rbp o)).toks, []⟩ := by
      simp [bare, spineAt]
    refine ⟨?_, ?_, ?_⟩
    · intro m rest c R _ hs h
      obtain ⟨hml, hst⟩ := hs
      rw [hb] at h ⊢
      simp only [pendToks, List.nil_append, List.append_assoc, List.cons_append] at h ⊢
      have hmc : m ≤ callBp := Nat.le_trans hml (Nat.le_trans (Nat.le_of_lt (lbp_lt_rbp o)) (rbp_le_call o))
      refine ihl.l (c := lbp o) hml hmc ?_ ?_
      · simp [stops, postfix_tk, infix_tk]
      · refine EvL_infix (postfix_tk o) (infix_tk o) hml ?_ h
        refine ihr.l (c := rbp o) (Nat.le_refl _) (rbp_le_call o)
          (stops_mono hst (by have := lbp_lt_rbp o; omega)) ?_
        exact EvL_stop (stops_mono hst (by have := lbp_lt_rbp o; omega))
    · intro h m rest c R _ hl; rw [hb] at hl ⊢; simpa [applyPend, pendToks] using hl
    · intro hne; rw [hb] at hne; simp at hne
  | un u e ih =>
    have hb : bare (.un u e) = ⟨.prefix u.tk (spineAt e unC).head, .op u.tk :: (spineAt e unC).htoks,
        (spineAt e unC).pend⟩ := by
      simp [bare, spineAt]
    refine ⟨?_, ?_, ?_⟩
    · intro m rest c R _ hs h
      rw [hb] at h ⊢
      simp only [List.cons_append] at h ⊢
      refine EvE_prefix (prefix_tk u) ?_ h
      refine ih.b1w (c := unC) (Or.inr ⟨rfl, hs⟩) (pre_le_dot u) ?_
      refine EvL_stop ?_
      cases hpe : (spineAt e unC).pend with
      | nil => simpa [pendToks] using stops_mono hs (unC_succ_le_pre u)
      | cons p ps =>
        have := ih.i1w unC (by rw [hpe]; simp) rest (call_lt_pre u)
        rwa [hpe] at this
    · intro h m rest c R hm hl; rw [hb] at hl ⊢; exact ih.b2w unC hm hl
    · intro hne m rest hm; rw [hb] at hne ⊢; exact ih.i1w unC hne rest hm
  | call f as ihf ihas =>
    have hb : bare (.call f as) = ⟨(spineAt f postC).head, (spineAt f postC).htoks,
        (spineAt f postC).pend ++ [⟨.call (bareArgs as), .op .LParen :: printArgs as, .call as⟩]⟩ := by
      simp [bare, spineAt]
    refine ⟨?_, ?_, ?_⟩
    · intro m rest c R hm _ h
      rw [hb] at h ⊢
      simp only [pendToks_append, pendToks_single, List.append_assoc] at h ⊢
      exact ihf.b1w (Or.inl rfl) hm h
    · intro h m rest c R hm hl
      rw [hb] at hl ⊢
      simp only [pendToks_append, pendToks_single, List.append_assoc, applyPend_append,
        List.cons_append] at hl ⊢
      refine ihf.b2w postC hm ?_
      exact EvL_call postfix_lparen hm (evA_args rest as ihas) (by simpa [applyPend, applyCPost] using hl)
    · intro _ m rest hm
      rw [hb]
      simp only [pendToks_append, pendToks_single, List.append_assoc, List.cons_append]
      cases hpe : (spineAt f postC).pend with
      | nil => simpa [pendToks] using stops_lparen m _ hm
      | cons p ps =>
        have := ihf.i1w postC (by rw [hpe]; simp) (.op .LParen :: (printArgs as ++ rest)) hm
        rwa [hpe] at this
  | field e x ih =>
    refine pp_access e ih _ (.ident x) (.ident x) (.field x) (evE_dot_ident x) ?_ (fun _ _ => trivial)
    simp only [bare, spineAt]
    split <;> simp_all
  | proj e n ih =>
    refine pp_access e ih _ (.int (natDigits n)) (.int (natDigits n)) (.proj n) (evE_dot_int _) ?_
      (fun _ _ => trivial)
    simp only [bare, spineAt]
    split <;> simp_all

/-- the model parser turns the printed tokens of any tree into the full CST of its spine -/
theorem parseCst_printMin (t : Ast) : parseCst (printMin t 0) = some (bare t).full := by
  have hb : spineAt t 0 = bare t := spineAt_bare (by cases t <;> simp [needsParen])
  have h := (pp_all t).l (c := 0) (m := 0) (rest := []) (c' := (bare t).full) (R := [])
    (Nat.le_refl _) (Nat.zero_le _) rfl (by rw [hb]; exact EvL_stop rfl)
  rw [hb] at h
  have htoks : printMin t 0 = (bare t).toks := by rw [printMin_toks t 0 0 compat_zero, hb]
  simp only [List.append_nil] at h
  unfold parseCst
  rw [htoks, h.2 (fuelFor (bare t).toks) (by simp [fuelFor])]

end Goml.Pratt
