import GomlVerif.Model.Pratt
/-!
Fuel-free reading of the Pratt model: `EvE m ts c rest` says that `exprBp` with any
sufficient fuel parses `ts` at minimum binding power `m` into `c`, leaving `rest`
(and `rest` is no longer than `ts`). The lemmas below are the "rules" of that reading,
one per branch of `exprBp` / `loopBp` / `argList`.
-/
namespace Goml.Pratt
open Goml.Gen.BindingPower

def EvE (m : Nat) (ts : List Tok) (c : Cst) (rest : List Tok) : Prop :=
  rest.length ≤ ts.length ∧ ∀ f, 3 * ts.length + 2 ≤ f → exprBp f m ts = some (c, rest)

def EvL (m : Nat) (c0 : Cst) (ts : List Tok) (c : Cst) (rest : List Tok) : Prop :=
  rest.length ≤ ts.length ∧ ∀ f, 3 * ts.length + 1 ≤ f → loopBp f m c0 ts = some (c, rest)

def EvA (ts : List Tok) (cs : List Cst) (rest : List Tok) : Prop :=
  rest.length < ts.length ∧ ∀ f, 3 * ts.length + 3 ≤ f → argList f ts = some (cs, rest)

/-- the loop of `expr_bp` at minimum power `m` stops in front of `ts` -/
def stops (m : Nat) : List Tok → Bool
  | .op k :: _ =>
    match postfixBp k with
    | some l => decide (l < m)
    | none =>
      match infixBp k with
      | some (l, _) => decide (l < m)
      | none => true
  | _ => true

theorem EvL_stop {m c ts} (h : stops m ts = true) : EvL m c ts c ts := by
  refine ⟨Nat.le_refl _, ?_⟩
  intro f hf
  obtain ⟨f, rfl⟩ : ∃ f', f = f' + 1 := ⟨f - 1, by omega⟩
  unfold loopBp
  cases ts with
  | nil => rfl
  | cons t ts =>
    cases t with
    | op k =>
      simp only [stops] at h
      cases hp : postfixBp k with
      | some l => simp [hp] at h; simp only [hp]; simp [h]
      | none =>
        simp only [hp] at h
        cases hi : infixBp k with
        | some lr => obtain ⟨l, r⟩ := lr; simp [hi] at h; simp only [hp, hi]; simp [h]
        | none => simp only [hp, hi]
    | _ => rfl

theorem EvE_ident {m s ts c rest} (h : EvL m (.ident s) ts c rest) :
    EvE m (.ident s :: ts) c rest := by
  refine ⟨by have := h.1; simp; omega, ?_⟩
  intro f hf
  obtain ⟨f, rfl⟩ : ∃ f', f = f' + 1 := ⟨f - 1, by simp at hf; omega⟩
  unfold exprBp
  exact h.2 f (by simp at hf; omega)

theorem EvE_int {m s ts c rest} (h : EvL m (.int s) ts c rest) :
    EvE m (.int s :: ts) c rest := by
  refine ⟨by have := h.1; simp; omega, ?_⟩
  intro f hf
  obtain ⟨f, rfl⟩ : ∃ f', f = f' + 1 := ⟨f - 1, by simp at hf; omega⟩
  unfold exprBp
  exact h.2 f (by simp at hf; omega)

theorem EvE_prefix {m k r ts e ts' c rest} (hk : prefixBp k = some r)
    (he : EvE r ts e ts') (hl : EvL m (.prefix k e) ts' c rest) :
    EvE m (.op k :: ts) c rest := by
  refine ⟨by have := he.1; have := hl.1; simp; omega, ?_⟩
  intro f hf
  obtain ⟨f, rfl⟩ : ∃ f', f = f' + 1 := ⟨f - 1, by simp at hf; omega⟩
  unfold exprBp
  simp only [hk]
  rw [he.2 f (by simp at hf; omega)]
  exact hl.2 f (by have := he.1; simp at hf; omega)

theorem EvE_paren {m ts e ts' c rest}
    (he : EvE 0 ts e (.rparen :: ts')) (hl : EvL m (.paren e) ts' c rest) :
    EvE m (.op .LParen :: ts) c rest := by
  refine ⟨by have := he.1; have := hl.1; simp at *; omega, ?_⟩
  intro f hf
  obtain ⟨f, rfl⟩ : ∃ f', f = f' + 1 := ⟨f - 1, by simp at hf; omega⟩
  unfold exprBp
  have hp : prefixBp .LParen = none := by decide
  simp only [hp]
  rw [he.2 f (by simp at hf; omega)]
  exact hl.2 f (by have := he.1; simp at hf this; omega)

theorem EvL_call {m l c0 ts as ts' c rest} (hp : postfixBp .LParen = some l) (hm : m ≤ l)
    (ha : EvA ts as ts') (hl : EvL m (.call c0 as) ts' c rest) :
    EvL m c0 (.op .LParen :: ts) c rest := by
  refine ⟨by have := ha.1; have := hl.1; simp; omega, ?_⟩
  intro f hf
  obtain ⟨f, rfl⟩ : ∃ f', f = f' + 1 := ⟨f - 1, by simp at hf; omega⟩
  unfold loopBp
  simp only [hp]
  rw [if_neg (by omega)]
  rw [ha.2 f (by simp at hf; omega)]
  exact hl.2 f (by have := ha.1; simp at hf; omega)

theorem EvL_infix {m k l r c0 ts rhs ts' c rest} (hp : postfixBp k = none)
    (hi : infixBp k = some (l, r)) (hm : m ≤ l)
    (he : EvE r ts rhs ts') (hl : EvL m (.binary k c0 rhs) ts' c rest) :
    EvL m c0 (.op k :: ts) c rest := by
  refine ⟨by have := he.1; have := hl.1; simp; omega, ?_⟩
  intro f hf
  obtain ⟨f, rfl⟩ : ∃ f', f = f' + 1 := ⟨f - 1, by simp at hf; omega⟩
  unfold loopBp
  simp only [hp, hi]
  rw [if_neg (by omega)]
  rw [he.2 f (by simp at hf; omega)]
  exact hl.2 f (by have := he.1; simp at hf; omega)

theorem EvA_nil {ts} : EvA (.rparen :: ts) [] ts := by
  refine ⟨by simp, ?_⟩
  intro f hf
  obtain ⟨f, rfl⟩ : ∃ f', f = f' + 1 := ⟨f - 1, by simp at hf; omega⟩
  unfold argList
  rfl

theorem exprBp_rparen (f m : Nat) (ts : List Tok) : exprBp f m (.rparen :: ts) = none := by
  cases f <;> simp [exprBp]

theorem EvA_last {ts e rest} (he : EvE 0 ts e (.rparen :: rest)) : EvA ts [e] rest := by
  refine ⟨by have := he.1; simp at this; omega, ?_⟩
  intro f hf
  obtain ⟨f, rfl⟩ : ∃ f', f = f' + 1 := ⟨f - 1, by omega⟩
  have h2 := he.2 f (by omega)
  unfold argList
  cases ts with
  | nil => simp [h2]
  | cons t ts =>
    cases t with
    | rparen => rw [exprBp_rparen] at h2; cases h2
    | _ => simp [h2]

theorem EvA_cons {ts e ts' es rest} (he : EvE 0 ts e (.comma :: ts')) (ha : EvA ts' es rest) :
    EvA ts (e :: es) rest := by
  refine ⟨by have := he.1; have := ha.1; simp at *; omega, ?_⟩
  intro f hf
  obtain ⟨f, rfl⟩ : ∃ f', f = f' + 1 := ⟨f - 1, by omega⟩
  have h2 := he.2 f (by omega)
  have h3 := ha.2 f (by have := he.1; simp at this; omega)
  unfold argList
  cases ts with
  | nil => simp [h2, h3]
  | cons t ts =>
    cases t with
    | rparen => rw [exprBp_rparen] at h2; cases h2
    | _ => simp [h2, h3]

end Goml.Pratt
