import GomlVerif.Lemmas.PrattRules
/-!
The concrete syntax tree that the Pratt model produces for a printed tree, described as a
*spine*: the part `head` that a call of `exprBp` with a minimum power above the call power
parses (the operand of a prefix operator stops in front of the first `(`), plus the postfix
operations `pend` that the enclosing loop attaches afterwards.
-/
namespace Goml.Pratt
open Goml.Gen.BindingPower

/-! ### numbers read from the generated table -/
def lbp (o : BinOp) : Nat := match infixBp o.tk with | some (l, _) => l | none => 0
def rbp (o : BinOp) : Nat := match infixBp o.tk with | some (_, r) => r | none => 0
def callBp : Nat := (postfixBp .LParen).getD 0
def preBp (u : UnOp) : Nat := (prefixBp u.tk).getD 0
def dotL : Nat := match infixBp .Dot with | some (l, _) => l | none => 0
def dotR : Nat := match infixBp .Dot with | some (_, r) => r | none => 0
/-- numeric context of the operand of a prefix operator -/
def unC : Nat := callBp
/-- numeric context of the receiver of a postfix operation -/
def postC : Nat := dotL

theorem infix_tk (o : BinOp) : infixBp o.tk = some (lbp o, rbp o) := by cases o <;> rfl
theorem postfix_tk (o : BinOp) : postfixBp o.tk = none := by cases o <;> rfl
theorem prefix_tk (u : UnOp) : prefixBp u.tk = some (preBp u) := by cases u <;> rfl
theorem postfix_lparen : postfixBp .LParen = some callBp := rfl
theorem infix_dot : infixBp .Dot = some (dotL, dotR) := rfl
theorem postfix_dot : postfixBp .Dot = none := rfl
theorem lbp_lt_rbp (o : BinOp) : lbp o < rbp o := by cases o <;> decide
theorem rbp_le_call (o : BinOp) : rbp o ≤ callBp := by cases o <;> decide
theorem call_lt_pre (u : UnOp) : callBp < preBp u := by cases u <;> decide
theorem pre_le_dot (u : UnOp) : preBp u ≤ dotL := by cases u <;> decide
theorem dotL_lt_dotR : dotL < dotR := by decide
theorem unC_lt_postC : unC < postC := by decide
theorem tk_ne_dot (o : BinOp) : o.tk ≠ .Dot := by cases o <;> decide
theorem unOpOf_tk (u : UnOp) : unOpOf u.tk = some u := by cases u <;> rfl
theorem binOpOf_tk (o : BinOp) : binOpOf o.tk = some o := by cases o <;> rfl

theorem stops_mono {m m' ts} (h : stops m ts = true) (hm : m ≤ m') : stops m' ts = true := by
  cases ts with
  | nil => rfl
  | cons t ts =>
    cases t with
    | op k =>
      simp only [stops] at h ⊢
      cases hp : postfixBp k with
      | some l => simp [hp] at h ⊢; omega
      | none =>
        simp only [hp] at h ⊢
        cases hi : infixBp k with
        | some lr => obtain ⟨l, r⟩ := lr; simp [hi] at h ⊢; omega
        | none => rfl
    | _ => rfl

/-- nothing continues an expression parsed at the right power of `.` -/
theorem stops_dotR (ts : List Tok) : stops dotR ts = true := by
  cases ts with
  | nil => rfl
  | cons t ts =>
    cases t with
    | op k => cases k <;> rfl
    | _ => rfl

theorem stops_lparen (m : Nat) (ts : List Tok) (h : callBp < m) : stops m (.op .LParen :: ts) = true := by
  simp [stops, postfix_lparen, h]

/-! ### spines -/

inductive CPost where
  | call (args : List Cst)
  | dot (r : Cst)

def applyCPost (h : Cst) : CPost → Cst
  | .call as => .call h as
  | .dot r => .binary .Dot h r

/-- a postfix operation waiting for the enclosing loop: CST form, tokens, lowered form -/
structure Pend where
  post : CPost
  toks : List Tok
  trail : Trail

structure Spine where
  head : Cst
  htoks : List Tok
  pend : List Pend

def applyPend (h : Cst) : List Pend → Cst
  | [] => h
  | p :: ps => applyPend (applyCPost h p.post) ps

def pendToks : List Pend → List Tok
  | [] => []
  | p :: ps => p.toks ++ pendToks ps

def pendTrails : List Pend → List Trail
  | [] => []
  | p :: ps => p.trail :: pendTrails ps

def Spine.full (s : Spine) : Cst := applyPend s.head s.pend
def Spine.toks (s : Spine) : List Tok := s.htoks ++ pendToks s.pend

def Spine.wrap (s : Spine) (b : Bool) : Spine :=
  if b then ⟨.paren s.full, .op .LParen :: (s.toks ++ [.rparen]), []⟩ else s

/-- does `printMin` parenthesise `t` in numeric context `c`? -/
def needsParen : Ast → Nat → Bool
  | .bin o _ _, c => decide (lbp o < c)
  | .un _ _, c => decide (unC < c)
  | _, _ => false

mutual
/-- the spine of `t` printed without parentheses of its own -/
def bare : Ast → Spine
  | .var x => ⟨.ident x, [.ident x], []⟩
  | .lit s => ⟨.int s, [.int s], []⟩
  | .bin o l r =>
    let sl := (bare l).wrap (needsParen l (lbp o))
    let sr := (bare r).wrap (needsParen r (rbp o))
    ⟨.binary o.tk sl.full sr.full, sl.toks ++ .op o.tk :: sr.toks, []⟩
  | .un u e =>
    let se := (bare e).wrap (needsParen e unC)
    ⟨.prefix u.tk se.head, .op u.tk :: se.htoks, se.pend⟩
  | .call f as =>
    let sf := (bare f).wrap (needsParen f postC)
    ⟨sf.head, sf.htoks, sf.pend ++ [⟨.call (bareArgs as), .op .LParen :: printArgs as, .call as⟩]⟩
  | .field e x =>
    let se := (bare e).wrap (needsParen e postC)
    if se.pend.isEmpty then ⟨.binary .Dot se.head (.ident x), se.htoks ++ [.op .Dot, .ident x], []⟩
    else ⟨se.head, se.htoks, se.pend ++ [⟨.dot (.ident x), [.op .Dot, .ident x], .field x⟩]⟩
  | .proj e n =>
    let se := (bare e).wrap (needsParen e postC)
    if se.pend.isEmpty then
      ⟨.binary .Dot se.head (.int (natDigits n)), se.htoks ++ [.op .Dot, .int (natDigits n)], []⟩
    else ⟨se.head, se.htoks, se.pend ++ [⟨.dot (.int (natDigits n)), [.op .Dot, .int (natDigits n)], .proj n⟩]⟩
/-- the CSTs of call arguments (context 0: never parenthesised) -/
def bareArgs : List Ast → List Cst
  | [] => []
  | a :: as => (bare a).full :: bareArgs as
end

/-- the spine of `t` in numeric context `c` -/
def spineAt (t : Ast) (c : Nat) : Spine := (bare t).wrap (needsParen t c)

/-- `p` (documented level) and `c` (binding power) describe the same context -/
def Compat (p c : Nat) : Prop :=
  (∀ o : BinOp, decide (o.level < p) = decide (lbp o < c)) ∧ decide (prefixLevel < p) = decide (unC < c)

theorem compat_zero : Compat 0 0 := by
  refine ⟨fun o => ?_, ?_⟩ <;> simp [prefixLevel]
theorem compat_left (o : BinOp) : Compat o.level (lbp o) := by
  refine ⟨fun o' => ?_, ?_⟩
  · cases o <;> cases o' <;> decide
  · cases o <;> decide
theorem compat_right (o : BinOp) : Compat (o.level + 1) (rbp o) := by
  refine ⟨fun o' => ?_, ?_⟩
  · cases o <;> cases o' <;> decide
  · cases o <;> decide
theorem compat_prefix : Compat prefixLevel unC := by
  refine ⟨fun o => ?_, ?_⟩
  · cases o <;> decide
  · decide
theorem compat_postfix : Compat postfixLevel postC := by
  refine ⟨fun o => ?_, ?_⟩
  · cases o <;> decide
  · decide

/-- induction over trees with the arguments of calls as sub-trees -/
theorem Ast.ind {P : Ast → Prop} (var : ∀ x, P (.var x)) (lit : ∀ s, P (.lit s))
    (un : ∀ u e, P e → P (.un u e)) (bin : ∀ o l r, P l → P r → P (.bin o l r))
    (call : ∀ f as, P f → (∀ a, a ∈ as → P a) → P (.call f as))
    (field : ∀ e x, P e → P (.field e x)) (proj : ∀ e n, P e → P (.proj e n)) : ∀ t, P t := by
  intro t
  apply Ast.rec (motive_1 := P) (motive_2 := fun as => ∀ a, a ∈ as → P a)
  · exact var
  · exact lit
  · exact un
  · exact bin
  · exact call
  · exact field
  · exact proj
  · intro a h; cases h
  · intro a as ha has b hb
    cases hb with
    | head => exact ha
    | tail _ h => exact has b h

theorem spineAt_paren' {t c} (h : needsParen t c = true) :
    spineAt t c = ⟨.paren (bare t).full, .op .LParen :: ((bare t).toks ++ [.rparen]), []⟩ := by
  simp [spineAt, Spine.wrap, h]

theorem spineAt_bare' {t c} (h : needsParen t c = false) : spineAt t c = bare t := by
  simp [spineAt, Spine.wrap, h]

theorem pendToks_append (a b : List Pend) : pendToks (a ++ b) = pendToks a ++ pendToks b := by
  induction a with
  | nil => rfl
  | cons p ps ih => simp [pendToks, ih]

theorem parens_true (ts : List Tok) : parens true ts = .op .LParen :: ts ++ [.rparen] := rfl
theorem parens_false (ts : List Tok) : parens false ts = ts := rfl

theorem wrap_toks (s : Spine) (b : Bool) : (s.wrap b).toks = parens b s.toks := by
  cases b <;> simp [Spine.wrap, Spine.toks, pendToks, parens]

theorem bare_toks_un (u : UnOp) (e : Ast) :
    (bare (.un u e)).toks = .op u.tk :: (spineAt e unC).toks := by
  simp [bare, Spine.toks, spineAt]

theorem bare_toks_bin (o : BinOp) (l r : Ast) :
    (bare (.bin o l r)).toks = (spineAt l (lbp o)).toks ++ .op o.tk :: (spineAt r (rbp o)).toks := by
  simp [bare, Spine.toks, spineAt, pendToks]

theorem bare_toks_call (f : Ast) (as : List Ast) :
    (bare (.call f as)).toks = (spineAt f postC).toks ++ .op .LParen :: printArgs as := by
  simp [bare, Spine.toks, spineAt, pendToks_append, pendToks]

theorem bare_toks_field (e : Ast) (x : String) :
    (bare (.field e x)).toks = (spineAt e postC).toks ++ [.op .Dot, .ident x] := by
  simp only [bare]
  split
  · rename_i h
    have : ((bare e).wrap (needsParen e postC)).pend = [] := by simpa using h
    simp [Spine.toks, spineAt, pendToks, this]
  · simp [Spine.toks, spineAt, pendToks_append, pendToks]

theorem bare_toks_proj (e : Ast) (n : Nat) :
    (bare (.proj e n)).toks = (spineAt e postC).toks ++ [.op .Dot, .int (natDigits n)] := by
  simp only [bare]
  split
  · rename_i h
    have : ((bare e).wrap (needsParen e postC)).pend = [] := by simpa using h
    simp [Spine.toks, spineAt, pendToks, this]
  · simp [Spine.toks, spineAt, pendToks_append, pendToks]

/-- the printer with documented levels emits exactly the tokens of the spine -/
theorem printMin_toks : ∀ t p c, Compat p c → printMin t p = (spineAt t c).toks := by
  intro t
  induction t using Ast.ind with
  | var x => intro p c _; simp [printMin, spineAt, bare, needsParen, Spine.wrap, Spine.toks, pendToks]
  | lit s => intro p c _; simp [printMin, spineAt, bare, needsParen, Spine.wrap, Spine.toks, pendToks]
  | un u e ih =>
    intro p c hc
    rw [spineAt, wrap_toks, bare_toks_un, ← ih prefixLevel unC compat_prefix]
    simp only [printMin, needsParen, hc.2]
  | bin o l r ihl ihr =>
    intro p c hc
    rw [spineAt, wrap_toks, bare_toks_bin, ← ihl o.level (lbp o) (compat_left o),
      ← ihr (o.level + 1) (rbp o) (compat_right o)]
    simp only [printMin, needsParen, hc.1 o]
  | call f as ihf _ =>
    intro p c _
    rw [spineAt, wrap_toks, bare_toks_call, ← ihf postfixLevel postC compat_postfix]
    simp only [printMin, needsParen, parens_false]
  | field e x ih =>
    intro p c _
    rw [spineAt, wrap_toks, bare_toks_field, ← ih postfixLevel postC compat_postfix]
    simp only [printMin, needsParen, parens_false]
  | proj e n ih =>
    intro p c _
    rw [spineAt, wrap_toks, bare_toks_proj, ← ih postfixLevel postC compat_postfix]
    simp only [printMin, needsParen, parens_false]

end Goml.Pratt
