import GomlVerif.Lemmas.ProgSim
import GomlVerif.Lemmas.AnfFwdCases
import GomlVerif.Lemmas.AnfBwdCases
/-!
`anfProg P n` against `P`: every function body is replaced by its A-normal form, so the
expression-level simulations lift to the whole file.
-/
namespace Goml.Anf
open Goml Goml.Sem

/-- every function body of the file is in the fragment, at the counter `anf_file` reaches it with -/
def allInFragment (P : Prog) (n : Nat) : Bool := (anfFragFlags P.fns n).all (fun b => b)

theorem hyp_of_inFragment {e : Expr} {n : Nat} (h : inAnfFragment e n = true) : Hyp [] e n (anf e n ret).2 := by
  unfold inAnfFragment at h
  simp only [Bool.and_eq_true] at h
  refine ⟨h.1, fun _ _ => by simp, ?_, by rw [anf_ret]; exact Nat.le_refl _⟩
  intro m h1 h2 hm
  have := h.2
  unfold tmpFresh at this
  rw [List.all_eq_true] at this
  have hmem : m ∈ List.range' n ((anf e n ret).2 - n) := by
    rw [List.mem_range']; exact ⟨m - n, by omega, by omega⟩
  have := this m hmem
  simp only [Bool.not_eq_true', List.contains_eq_mem, decide_eq_false_iff_not] at this
  exact this hm

/-- what `anf_file` does to the function found under a name -/
theorem anfFns_find (name : String) : ∀ (fns : List Fn) (n : Nat), (anfFragFlags fns n).all (fun b => b) = true →
    (fns.find? (·.name == name) = none → (anfFns fns n).1.find? (·.name == name) = none) ∧
    (∀ f, fns.find? (·.name == name) = some f →
      ∃ m, inAnfFragment f.body m = true ∧
        (anfFns fns n).1.find? (·.name == name) = some { f with body := (anf f.body m ret).1 })
  | [], n, _ => by simp [anfFns]
  | g :: rest, n, hfl => by
    simp only [anfFragFlags, List.all_cons, Bool.and_eq_true] at hfl
    have ih := anfFns_find name rest (anf g.body n ret).2 hfl.2
    simp only [anfFns, List.find?_cons]
    cases hg : (g.name == name)
    · simp only
      exact ih
    · simp only
      constructor
      · intro h; cases h
      · intro f hf
        cases hf
        exact ⟨n, hfl.1, rfl⟩

theorem anfProg_findFn {P : Prog} {n : Nat} (h : allInFragment P n = true) (name : String) :
    (P.findFn name = none → (anfProg P n).findFn name = none) ∧
    (∀ f, P.findFn name = some f →
      ∃ m, inAnfFragment f.body m = true ∧
        (anfProg P n).findFn name = some { f with body := (anf f.body m ret).1 }) :=
  anfFns_find name P.fns n h

theorem progFw_anf {P : Prog} {n : Nat} (h : allInFragment P n = true) : ProgFw P (anfProg P n) := by
  refine ⟨rfl, ?_, fun name hn => (anfProg_findFn h name).1 hn⟩
  intro name f hf
  obtain ⟨m, hfr, hfind⟩ := (anfProg_findFn h name).2 f hf
  refine ⟨_, hfind, rfl, ?_⟩
  intro ρ w r he hs
  exact fw_top (anfProg P n) (fw (anfProg P n) f.body) m _ [] ρ ρ w r (hyp_of_inFragment hfr) (Agree.refl _ _) he hs

theorem progBw_anf {P : Prog} {n : Nat} (h : allInFragment P n = true) : ProgBw P (anfProg P n) := by
  refine ⟨rfl, ?_, fun name hn => (anfProg_findFn h name).1 hn⟩
  intro name f hf
  obtain ⟨m, hfr, hfind⟩ := (anfProg_findFn h name).2 f hf
  refine ⟨_, hfind, rfl, ?_⟩
  intro ρ w r he
  exact bw_top P (bw P f.body) m _ [] ρ ρ w r (hyp_of_inFragment hfr) (Agree.refl _ _) he

end Goml.Anf
