import GomlVerif.Lemmas.SemEq
import GomlVerif.Lemmas.AnfSem
import GomlVerif.Lemmas.AnfBwd
/-!
Replacing the bodies of the functions of a program by bodies that simulate them: every
evaluation carries over (forward: unless it goes wrong; backward: up to going wrong).
Used with `P' = anfProg P` to lift `anf_preserves` from one function body to the whole file.
-/
namespace Goml.Anf
open Goml Goml.Sem

theorem stuck_cast {α β} {r : Res β} {f : Fail} {w : World} (hr : r = .fail f w) (hs : ¬Stuck r) :
    ¬Stuck (Res.fail (α := α) f w) := by
  subst hr; exact fun h => hs ((Stuck_fail_iff f w w).1 h)

/-- `P'` has the functions of `P`, with bodies that do (under `P'`) whatever the original bodies do -/
structure ProgFw (P P' : Prog) : Prop where
  impls : P'.impls = P.impls
  some : ∀ name f, P.findFn name = some f → ∃ f', P'.findFn name = some f' ∧ f'.params = f.params ∧
    ∀ ρ w r, Ev P' f.body ρ w r → ¬Stuck r → Ev P' f'.body ρ w r
  none : ∀ name, P.findFn name = none → P'.findFn name = none

def SimFw (P P' : Prog) (n : Nat) : Prop :=
  (∀ ρ w e r, eval n P ρ w e = r → NF r → ¬Stuck r → Ev P' e ρ w r) ∧
  (∀ ρ w es r, evalList n P ρ w es = r → NF r → ¬Stuck r → EvL P' es ρ w r) ∧
  (∀ ρ w v arms d r, evalArms n P ρ w v arms d = r → NF r → ¬Stuck r → EvA P' ρ w v arms d r) ∧
  (∀ w f args r, apply n P w f args = r → NF r → ¬Stuck r → App P' w f args r)

theorem app_of_ev_body {P' : Prog} {w : World} {f : Val} {args : List Val} {body : Expr} {env : Env} {r : Res Val}
    (heq : ∀ m, apply (m+1) P' w f args = eval m P' env w body) (h : Ev P' body env w r) : App P' w f args r := by
  obtain ⟨m, hm, hn⟩ := h
  exact ⟨m+1, by simp only [heq]; exact hm, hn⟩

theorem prog_fw {P P' : Prog} (H : ProgFw P P') : ∀ n, SimFw P P' n := by
  intro n
  induction n with
  | zero =>
    refine ⟨?_, ?_, ?_, ?_⟩
    · intro ρ w e r h hn; rw [eval_zero] at h; subst h; simp at hn
    · intro ρ w es r h hn; rw [evalList_zero] at h; subst h; simp at hn
    · intro ρ w v arms d r h hn; rw [evalArms_zero] at h; subst h; simp at hn
    · intro w f args r h hn; simp only [apply] at h; subst h; simp at hn
  | succ n ih =>
    obtain ⟨E, L, A, Ap⟩ := ih
    -- the three ways a sequencing step uses the induction hypothesis
    have Ef : ∀ {ρ w e} {r : Res Val} {f w'}, eval n P ρ w e = .fail f w' → r = .fail f w' → NF r → ¬Stuck r →
        Ev P' e ρ w (.fail f w') := fun hf hr hn hs => E _ _ _ _ hf (nf_cast hr hn) (stuck_cast hr hs)
    have Eo : ∀ {ρ w e a w'}, eval n P ρ w e = .ok a w' → Ev P' e ρ w (.ok a w') :=
      fun hf => E _ _ _ _ hf (by simp) (by simp)
    have Lf : ∀ {ρ w es} {r : Res Val} {f w'}, evalList n P ρ w es = .fail f w' → r = .fail f w' → NF r → ¬Stuck r →
        EvL P' es ρ w (.fail f w') := fun hf hr hn hs => L _ _ _ _ hf (nf_cast hr hn) (stuck_cast hr hs)
    have Lo : ∀ {ρ w es a w'}, evalList n P ρ w es = .ok a w' → EvL P' es ρ w (.ok a w') :=
      fun hf => L _ _ _ _ hf (by simp) (by simp)
    refine ⟨?_, ?_, ?_, ?_⟩
    · intro ρ w e r h hn hs
      cases e with
      | var x ty => rw [eval_var_succ] at h; exact ev_var.2 h.symm
      | prim p => rw [eval_prim_succ] at h; exact ev_prim.2 h.symm
      | tag idx ty => rw [eval_tag_succ] at h; exact ev_tag.2 h.symm
      | closure ty ps b => rw [eval_closure_succ] at h; exact (ev_closure P' ρ w).2 h.symm
      | letE x v b =>
        rw [eval_letE_succ] at h
        exact ev_letE.2 (sim_bind h (fun f w' hf hr => Ef hf hr hn hs) (fun a w' hf => Eo hf)
          (fun a w' hg => E _ _ _ _ hg hn hs))
      | ite c t e =>
        rw [eval_ite_succ] at h
        refine ev_ite.2 (sim_bind h (fun f w' hf hr => Ef hf hr hn hs) (fun a w' hf => Eo hf) ?_)
        intro a w' hg
        unfold iteG at hg; unfold iteK
        split at hg
        · exact E _ _ _ _ hg hn hs
        · exact E _ _ _ _ hg hn hs
        · exact hg.symm
      | un op ty e =>
        rw [eval_un_succ] at h
        exact ev_un.2 (sim_bind h (fun f w' hf hr => Ef hf hr hn hs) (fun a w' hf => Eo hf) (fun a w' hg => hg.symm))
      | cget c idx ty e =>
        rw [eval_cget_succ] at h
        exact ev_cget.2 (sim_bind h (fun f w' hf hr => Ef hf hr hn hs) (fun a w' hf => Eo hf) (fun a w' hg => hg.symm))
      | proj idx ty e =>
        rw [eval_proj_succ] at h
        exact ev_proj.2 (sim_bind h (fun f w' hf hr => Ef hf hr hn hs) (fun a w' hf => Eo hf) (fun a w' hg => hg.symm))
      | toDyn tr forTy ty e =>
        rw [eval_toDyn_succ] at h
        exact ev_toDyn.2 (sim_bind h (fun f w' hf hr => Ef hf hr hn hs) (fun a w' hf => Eo hf) (fun a w' hg => hg.symm))
      | go e =>
        rw [eval_go_succ] at h
        refine ev_go.2 (sim_bind h (fun f w' hf hr => Ef hf hr hn hs) (fun a w' hf => Eo hf) ?_)
        intro a w' hg
        unfold goG at hg; unfold goK
        by_cases he : w'.eager = true
        · rw [if_pos he] at hg ⊢
          exact sim_bind (K' := fun _ w'' r => r = .ok .unit w'') hg
            (fun f w'' hf hr => Ap _ _ _ _ hf (nf_cast hr hn) (stuck_cast hr hs))
            (fun u w'' hf => Ap _ _ _ _ hf (by simp) (by simp)) (fun u w'' hg' => hg'.symm)
        · rw [if_neg he] at hg ⊢; exact hg.symm
      | constr c ty args =>
        rw [eval_constr_succ] at h
        exact ev_constr.2 (sim_bind h (fun f w' hf hr => Lf hf hr hn hs) (fun a w' hf => Lo hf) (fun a w' hg => hg.symm))
      | tuple ty items =>
        rw [eval_tuple_succ] at h
        exact ev_tuple.2 (sim_bind h (fun f w' hf hr => Lf hf hr hn hs) (fun a w' hf => Lo hf) (fun a w' hg => hg.symm))
      | array ty items =>
        rw [eval_array_succ] at h
        exact ev_array.2 (sim_bind h (fun f w' hf hr => Lf hf hr hn hs) (fun a w' hf => Lo hf) (fun a w' hg => hg.symm))
      | call ty f args =>
        rw [eval_call_succ] at h
        refine ev_call.2 (sim_bind h (fun f w' hf hr => Ef hf hr hn hs) (fun a w' hf => Eo hf) ?_)
        intro fv w' hg
        exact sim_bind hg (fun f w'' hf hr => Lf hf hr hn hs) (fun a w'' hf => Lo hf)
          (fun vs w'' hg' => Ap _ _ _ _ hg' hn hs)
      | dynCall tr m ty recv args =>
        rw [eval_dynCall_succ] at h
        refine ev_dynCall.2 (sim_bind h (fun f w' hf hr => Ef hf hr hn hs) (fun a w' hf => Eo hf) ?_)
        intro a w' hg
        cases a with
        | dyn t key v0 =>
          refine sim_bind hg (fun f w'' hf hr => Lf hf hr hn hs) (fun a w'' hf => Lo hf) ?_
          intro vs w'' hg'
          unfold dynDispatch
          rw [H.impls]
          cases hfind : P.impls.find? (fun i => i.1 == tr && i.2.1 == key && i.2.2.1 == m) with
          | some i => rw [hfind] at hg'; exact Ap _ _ _ _ hg' hn hs
          | none => rw [hfind] at hg'; exact hg'.symm
        | _ => exact hg.symm
      | traitCall tr m ty recv args =>
        rw [eval_traitCall_succ] at h
        refine (ev_traitCall P' ρ w).2 (sim_bind h (fun f w' hf hr => Ef hf hr hn hs) (fun a w' hf => Eo hf) ?_)
        intro a w' hg
        unfold traitG at hg
        refine sim_bind hg (fun f w'' hf hr => Lf hf hr hn hs) (fun a w'' hf => Lo hf) ?_
        intro vs w'' hg'
        unfold dynDispatch
        rw [H.impls]
        cases hfind : P.impls.find? (fun i => i.1 == tr && i.2.1 == traitKey a && i.2.2.1 == m) with
        | some i => rw [hfind] at hg'; exact Ap _ _ _ _ hg' hn hs
        | none => rw [hfind] at hg'; exact hg'.symm
      | bin op ty l rhs =>
        rw [eval_bin_succ] at h
        refine ev_bin.2 (sim_bind h (fun f w' hf hr => Ef hf hr hn hs) (fun a w' hf => Eo hf) ?_)
        intro a w' hg
        unfold binG at hg; unfold binK
        cases hsc : scVal op a with
        | some v => rw [hsc] at hg; exact hg.symm
        | none =>
          rw [hsc] at hg
          simp only at hg ⊢
          by_cases hb : logicalNonBool op a = true
          · rw [if_pos hb] at hg ⊢; exact hg.symm
          · rw [if_neg hb] at hg ⊢
            exact sim_bind hg (fun f w'' hf hr => Ef hf hr hn hs) (fun b w'' hf => Eo hf) (fun b w'' hg' => hg'.symm)
      | matchE ty s arms d =>
        rw [eval_matchE_succ] at h
        exact ev_matchE.2 (sim_bind h (fun f w' hf hr => Ef hf hr hn hs) (fun a w' hf => Eo hf)
          (fun a w' hg => A _ _ _ _ _ _ hg hn hs))
      | «while» c b =>
        rw [eval_while_succ] at h
        refine ev_while.2 (sim_bind h (fun f w' hf hr => Ef hf hr hn hs) (fun a w' hf => Eo hf) ?_)
        intro a w' hg
        unfold whileG at hg; unfold whileK
        split at hg
        · exact sim_bind hg (fun f w'' hf hr => Ef hf hr hn hs) (fun u w'' hf => Eo hf)
            (fun u w'' hg' => E _ _ _ _ hg' hn hs)
        · exact hg.symm
        · exact hg.symm
    · intro ρ w es r h hn hs
      cases es with
      | nil => rw [evalList_nil] at h; exact evL_nil.2 h.symm
      | cons e rest =>
        rw [evalList_cons_bind] at h
        refine evL_cons.2 (sim_bind h (fun f w' hf hr => E _ _ _ _ hf (nf_cast hr hn) (stuck_cast hr hs))
          (fun a w' hf => Eo hf) ?_)
        intro a w' hg
        exact sim_bind hg (fun f w'' hf hr => L _ _ _ _ hf (nf_cast hr hn) (stuck_cast hr hs))
          (fun vs w'' hf => Lo hf) (fun vs w'' hg' => hg'.symm)
    · intro ρ w v arms d r h hn hs
      cases arms with
      | nil =>
        rw [evalArms_nil] at h
        cases d with
        | some d => exact evA_nil_some.2 (E _ _ _ _ h hn hs)
        | none => exact evA_nil_none.2 h.symm
      | cons a rest =>
        cases a with
        | mk lhs body =>
          rw [evalArms_cons] at h
          rw [evA_cons]
          split
          · rename_i hm; rw [if_pos hm] at h; exact E _ _ _ _ h hn hs
          · rename_i hm; rw [if_neg hm] at h; exact A _ _ _ _ _ _ h hn hs
    · intro w f args r h hn hs
      cases f with
      | closure ps body ρc =>
        simp only [apply] at h
        exact app_of_ev_body (fun m => by simp only [apply]) (E _ _ _ _ h hn hs)
      | fn name =>
        simp only [apply] at h
        cases hfind : P.findFn name with
        | some fn =>
          rw [hfind] at h
          obtain ⟨f', hf', hp, hbody⟩ := H.some name fn hfind
          have h1 := hbody _ _ _ (E _ _ _ _ h hn hs) hs
          rw [← hp] at h1
          exact app_of_ev_body (fun m => by simp only [apply, hf']) h1
        | none =>
          rw [hfind] at h
          have hf' := H.none name hfind
          exact ⟨1, by simp only [apply, hf']; exact h, hn⟩
      | structV nm fs =>
        simp only [apply] at h
        cases hfind : P.findFn ("inherent#" ++ nm ++ "#" ++ nm ++ "#apply") with
        | some fn =>
          rw [hfind] at h
          obtain ⟨f', hf', hp, hbody⟩ := H.some _ fn hfind
          have h1 := hbody _ _ _ (E _ _ _ _ h hn hs) hs
          rw [← hp] at h1
          exact app_of_ev_body (fun m => by simp only [apply, hf']) h1
        | none =>
          rw [hfind] at h
          have hf' := H.none _ hfind
          exact ⟨1, by simp only [apply, hf']; exact h, hn⟩
      | _ => simp only [apply] at h; exact ⟨1, by simp only [apply]; exact h, hn⟩

/-! ### backward -/

/-- `r`, or some "no rule" failure -/
def OrWrong {α} (X : Res α → Prop) (r : Res α) : Prop := X r ∨ ∃ s w', X (.fail (.stuck s) w')

theorem sim_bind_bw {α β} {F : Res α} {G : α → World → Res β} {r : Res β} {X : Res α → Prop}
    {K : α → World → Res β → Prop} (h : F.bind G = r)
    (hF : ∀ f w', F = .fail f w' → r = .fail f w' → OrWrong X (.fail f w'))
    (hF' : ∀ a w', F = .ok a w' → OrWrong X (.ok a w'))
    (hG : ∀ a w', G a w' = r → OrWrong (K a w') r) : OrWrong (RB X K) r := by
  cases hf : F with
  | fail f w' =>
    rw [hf] at h; simp only [Res.bind] at h
    rcases hF f w' hf h.symm with h1 | ⟨s, w'', h1⟩
    · exact Or.inl (Or.inl ⟨f, w', h1, h.symm⟩)
    · exact Or.inr ⟨s, w'', Or.inl ⟨_, w'', h1, rfl⟩⟩
  | ok a w' =>
    rw [hf] at h; simp only [Res.bind] at h
    rcases hF' a w' hf with h1 | ⟨s, w'', h1⟩
    · rcases hG a w' h with h2 | ⟨s, w'', h2⟩
      · exact Or.inl (Or.inr ⟨a, w', h1, h2⟩)
      · exact Or.inr ⟨s, w'', Or.inr ⟨a, w', h1, h2⟩⟩
    · exact Or.inr ⟨s, w'', Or.inl ⟨_, w'', h1, rfl⟩⟩

theorem OrWrong.map {α} {X Y : Res α → Prop} {r : Res α} (h : OrWrong X r) (hxy : ∀ x, X x → Y x) : OrWrong Y r := by
  rcases h with h | ⟨s, w', h⟩
  · exact Or.inl (hxy _ h)
  · exact Or.inr ⟨s, w', hxy _ h⟩

theorem OrWrong.of_eq {α} {X : Res α → Prop} {r : Res α} (h : X r) : OrWrong X r := Or.inl h

/-- `P'` has the functions of `P`, with bodies that do (under `P`) nothing the original bodies do
    not do (up to going wrong) -/
structure ProgBw (P P' : Prog) : Prop where
  impls : P'.impls = P.impls
  some : ∀ name f, P.findFn name = some f → ∃ f', P'.findFn name = some f' ∧ f'.params = f.params ∧
    ∀ ρ w r, Ev P f'.body ρ w r → OrWrong (Ev P f.body ρ w) r
  none : ∀ name, P.findFn name = none → P'.findFn name = none

def SimBw (P P' : Prog) (n : Nat) : Prop :=
  (∀ ρ w e r, eval n P' ρ w e = r → NF r → OrWrong (Ev P e ρ w) r) ∧
  (∀ ρ w es r, evalList n P' ρ w es = r → NF r → OrWrong (EvL P es ρ w) r) ∧
  (∀ ρ w v arms d r, evalArms n P' ρ w v arms d = r → NF r → OrWrong (EvA P ρ w v arms d) r) ∧
  (∀ w f args r, apply n P' w f args = r → NF r → OrWrong (App P w f args) r)

theorem prog_bw {P P' : Prog} (H : ProgBw P P') : ∀ n, SimBw P P' n := by
  intro n
  induction n with
  | zero =>
    refine ⟨?_, ?_, ?_, ?_⟩
    · intro ρ w e r h hn; rw [eval_zero] at h; subst h; simp at hn
    · intro ρ w es r h hn; rw [evalList_zero] at h; subst h; simp at hn
    · intro ρ w v arms d r h hn; rw [evalArms_zero] at h; subst h; simp at hn
    · intro w f args r h hn; simp only [apply] at h; subst h; simp at hn
  | succ n ih =>
    obtain ⟨E, L, A, Ap⟩ := ih
    have Ef : ∀ {ρ w e} {r : Res Val} {f w'}, eval n P' ρ w e = .fail f w' → r = .fail f w' → NF r →
        OrWrong (Ev P e ρ w) (.fail f w') := fun hf hr hn => E _ _ _ _ hf (nf_cast hr hn)
    have Eo : ∀ {ρ w e a w'}, eval n P' ρ w e = .ok a w' → OrWrong (Ev P e ρ w) (.ok a w') :=
      fun hf => E _ _ _ _ hf (by simp)
    have Lf : ∀ {ρ w es} {r : Res Val} {f w'}, evalList n P' ρ w es = .fail f w' → r = .fail f w' → NF r →
        OrWrong (EvL P es ρ w) (.fail f w') := fun hf hr hn => L _ _ _ _ hf (nf_cast hr hn)
    have Lo : ∀ {ρ w es a w'}, evalList n P' ρ w es = .ok a w' → OrWrong (EvL P es ρ w) (.ok a w') :=
      fun hf => L _ _ _ _ hf (by simp)
    refine ⟨?_, ?_, ?_, ?_⟩
    · intro ρ w e r h hn
      cases e with
      | var x ty => rw [eval_var_succ] at h; exact Or.inl (ev_var.2 h.symm)
      | prim p => rw [eval_prim_succ] at h; exact Or.inl (ev_prim.2 h.symm)
      | tag idx ty => rw [eval_tag_succ] at h; exact Or.inl (ev_tag.2 h.symm)
      | closure ty ps b => rw [eval_closure_succ] at h; exact Or.inl ((ev_closure P ρ w).2 h.symm)
      | letE x v b =>
        rw [eval_letE_succ] at h
        exact (sim_bind_bw h (fun f w' hf hr => Ef hf hr hn) (fun a w' hf => Eo hf)
          (fun a w' hg => E _ _ _ _ hg hn)).map (fun _ => ev_letE.2)
      | ite c t e =>
        rw [eval_ite_succ] at h
        refine (sim_bind_bw (K := iteK P t e ρ) h (fun f w' hf hr => Ef hf hr hn) (fun a w' hf => Eo hf) ?_).map
          (fun _ => ev_ite.2)
        intro a w' hg
        unfold iteG at hg; unfold iteK
        split at hg
        · exact E _ _ _ _ hg hn
        · exact E _ _ _ _ hg hn
        · exact Or.inl hg.symm
      | un op ty e =>
        rw [eval_un_succ] at h
        exact (sim_bind_bw (K := fun v w' r => r = exceptRes (unop op v) w') h (fun f w' hf hr => Ef hf hr hn)
          (fun a w' hf => Eo hf) (fun a w' hg => Or.inl hg.symm)).map (fun _ => ev_un.2)
      | cget c idx ty e =>
        rw [eval_cget_succ] at h
        exact (sim_bind_bw (K := fun v w' r => r = cgetRes idx v w') h (fun f w' hf hr => Ef hf hr hn)
          (fun a w' hf => Eo hf) (fun a w' hg => Or.inl hg.symm)).map (fun _ => ev_cget.2)
      | proj idx ty e =>
        rw [eval_proj_succ] at h
        exact (sim_bind_bw (K := fun v w' r => r = projRes idx v w') h (fun f w' hf hr => Ef hf hr hn)
          (fun a w' hf => Eo hf) (fun a w' hg => Or.inl hg.symm)).map (fun _ => ev_proj.2)
      | toDyn tr forTy ty e =>
        rw [eval_toDyn_succ] at h
        exact (sim_bind_bw (K := fun v w' r => r = .ok (.dyn tr (tyKey forTy) v) w') h
          (fun f w' hf hr => Ef hf hr hn) (fun a w' hf => Eo hf) (fun a w' hg => Or.inl hg.symm)).map
          (fun _ => ev_toDyn.2)
      | go e =>
        rw [eval_go_succ] at h
        refine (sim_bind_bw (K := goK P) h (fun f w' hf hr => Ef hf hr hn) (fun a w' hf => Eo hf) ?_).map
          (fun _ => ev_go.2)
        intro a w' hg
        unfold goG at hg
        by_cases he : w'.eager = true
        · rw [if_pos he] at hg
          refine OrWrong.map (sim_bind_bw (K := fun _ w'' r => r = .ok .unit w'') hg
            (fun f w'' hf hr => Ap _ _ _ _ hf (nf_cast hr hn))
            (fun u w'' hf => Ap _ _ _ _ hf (by simp)) (fun u w'' hg' => Or.inl hg'.symm)) ?_
          intro x hx; unfold goK; rw [if_pos he]; exact hx
        · rw [if_neg he] at hg
          refine Or.inl ?_
          unfold goK; rw [if_neg he]; exact hg.symm
      | constr c ty args =>
        rw [eval_constr_succ] at h
        exact (sim_bind_bw (K := fun vs w' r => r = .ok (mkCtor c vs) w') h (fun f w' hf hr => Lf hf hr hn)
          (fun a w' hf => Lo hf) (fun a w' hg => Or.inl hg.symm)).map (fun _ => ev_constr.2)
      | tuple ty items =>
        rw [eval_tuple_succ] at h
        exact (sim_bind_bw (K := fun vs w' r => r = .ok (.tuple vs) w') h (fun f w' hf hr => Lf hf hr hn)
          (fun a w' hf => Lo hf) (fun a w' hg => Or.inl hg.symm)).map (fun _ => ev_tuple.2)
      | array ty items =>
        rw [eval_array_succ] at h
        exact (sim_bind_bw (K := fun vs w' r => r = .ok (.array vs) w') h (fun f w' hf hr => Lf hf hr hn)
          (fun a w' hf => Lo hf) (fun a w' hg => Or.inl hg.symm)).map (fun _ => ev_array.2)
      | call ty f args =>
        rw [eval_call_succ] at h
        refine (sim_bind_bw (K := fun fv w' => RB (EvL P args ρ w') (fun vs w'' => App P w'' fv vs)) h
          (fun f w' hf hr => Ef hf hr hn) (fun a w' hf => Eo hf) ?_).map (fun _ => ev_call.2)
        intro fv w' hg
        exact sim_bind_bw hg (fun f w'' hf hr => Lf hf hr hn) (fun a w'' hf => Lo hf)
          (fun vs w'' hg' => Ap _ _ _ _ hg' hn)
      | dynCall tr m ty recv args =>
        rw [eval_dynCall_succ] at h
        refine (sim_bind_bw (K := dynK P tr m args ρ) h (fun f w' hf hr => Ef hf hr hn) (fun a w' hf => Eo hf) ?_).map
          (fun _ => ev_dynCall.2)
        intro a w' hg
        cases a with
        | dyn t key v0 =>
          refine sim_bind_bw (K := fun vs w2 => dynDispatch P tr m key v0 vs w2) hg
            (fun f w'' hf hr => Lf hf hr hn) (fun a w'' hf => Lo hf) ?_
          intro vs w'' hg'
          unfold dynDispatch
          rw [H.impls] at hg'
          cases hfind : P.impls.find? (fun i => i.1 == tr && i.2.1 == key && i.2.2.1 == m) with
          | some i => rw [hfind] at hg'; exact Ap _ _ _ _ hg' hn
          | none => rw [hfind] at hg'; exact Or.inl hg'.symm
        | _ => exact Or.inl hg.symm
      | traitCall tr m ty recv args =>
        rw [eval_traitCall_succ] at h
        refine (sim_bind_bw (K := fun v w1 => RB (EvL P args ρ w1) (fun vs w2 =>
          dynDispatch P tr m (traitKey v) v vs w2)) h (fun f w' hf hr => Ef hf hr hn) (fun a w' hf => Eo hf) ?_).map
          (fun _ => (ev_traitCall P ρ w).2)
        intro a w' hg
        unfold traitG at hg
        refine sim_bind_bw hg (fun f w'' hf hr => Lf hf hr hn) (fun a w'' hf => Lo hf) ?_
        intro vs w'' hg'
        unfold dynDispatch
        rw [H.impls] at hg'
        cases hfind : P.impls.find? (fun i => i.1 == tr && i.2.1 == traitKey a && i.2.2.1 == m) with
        | some i => rw [hfind] at hg'; exact Ap _ _ _ _ hg' hn
        | none => rw [hfind] at hg'; exact Or.inl hg'.symm
      | bin op ty l rhs =>
        rw [eval_bin_succ] at h
        refine (sim_bind_bw (K := binK P op rhs ρ) h (fun f w' hf hr => Ef hf hr hn) (fun a w' hf => Eo hf) ?_).map
          (fun _ => ev_bin.2)
        intro a w' hg
        unfold binG at hg; unfold binK
        cases hsc : scVal op a with
        | some v => rw [hsc] at hg; exact Or.inl hg.symm
        | none =>
          rw [hsc] at hg
          simp only at hg
          by_cases hb : logicalNonBool op a = true
          · rw [if_pos hb] at hg
            refine Or.inl ?_
            simp only [if_pos hb]; exact hg.symm
          · rw [if_neg hb] at hg
            refine OrWrong.map (sim_bind_bw (K := fun b w'' r => r = exceptRes (binop op a b) w'') hg
              (fun f w'' hf hr => Ef hf hr hn) (fun b w'' hf => Eo hf) (fun b w'' hg' => Or.inl hg'.symm)) ?_
            intro x hx; simp only [if_neg hb]; exact hx
      | matchE ty s arms d =>
        rw [eval_matchE_succ] at h
        exact (sim_bind_bw (K := fun v w' => EvA P ρ w' v arms d) h (fun f w' hf hr => Ef hf hr hn)
          (fun a w' hf => Eo hf) (fun a w' hg => A _ _ _ _ _ _ hg hn)).map (fun _ => ev_matchE.2)
      | «while» c b =>
        rw [eval_while_succ] at h
        refine (sim_bind_bw (K := whileK P c b ρ) h (fun f w' hf hr => Ef hf hr hn) (fun a w' hf => Eo hf) ?_).map
          (fun _ => ev_while.2)
        intro a w' hg
        unfold whileG at hg; unfold whileK
        split at hg
        · exact sim_bind_bw (K := fun _ w'' => Ev P (.while c b) ρ w'') hg (fun f w'' hf hr => Ef hf hr hn)
            (fun u w'' hf => Eo hf) (fun u w'' hg' => E _ _ _ _ hg' hn)
        · exact Or.inl hg.symm
        · exact Or.inl hg.symm
    · intro ρ w es r h hn
      cases es with
      | nil => rw [evalList_nil] at h; exact Or.inl (evL_nil.2 h.symm)
      | cons e rest =>
        rw [evalList_cons_bind] at h
        refine (sim_bind_bw (K := fun v w' => RB (EvL P rest ρ w') (fun vs w'' r => r = .ok (v :: vs) w'')) h
          (fun f w' hf hr => E _ _ _ _ hf (nf_cast hr hn)) (fun a w' hf => Eo hf) ?_).map (fun _ => evL_cons.2)
        intro a w' hg
        exact sim_bind_bw (K := fun vs w'' r => r = .ok (a :: vs) w'') hg
          (fun f w'' hf hr => L _ _ _ _ hf (nf_cast hr hn)) (fun vs w'' hf => Lo hf)
          (fun vs w'' hg' => Or.inl hg'.symm)
    · intro ρ w v arms d r h hn
      cases arms with
      | nil =>
        rw [evalArms_nil] at h
        cases d with
        | some d => exact (E _ _ _ _ h hn).map (fun _ => evA_nil_some.2)
        | none => exact Or.inl (evA_nil_none.2 h.symm)
      | cons a rest =>
        cases a with
        | mk lhs body =>
          rw [evalArms_cons] at h
          by_cases hm : armMatches lhs v = true
          · rw [if_pos hm] at h
            exact (E _ _ _ _ h hn).map (fun _ hx => evA_cons.2 (by rw [if_pos hm]; exact hx))
          · rw [if_neg hm] at h
            exact (A _ _ _ _ _ _ h hn).map (fun _ hx => evA_cons.2 (by rw [if_neg hm]; exact hx))
    · intro w f args r h hn
      cases f with
      | closure ps body ρc =>
        simp only [apply] at h
        exact (E _ _ _ _ h hn).map (fun _ hx => app_of_ev_body (fun m => by simp only [apply]) hx)
      | fn name =>
        simp only [apply] at h
        cases hfind : P.findFn name with
        | some fn =>
          obtain ⟨f', hf', hp, hbody⟩ := H.some name fn hfind
          rw [hf'] at h; simp only at h; rw [hp] at h
          have lift : ∀ x, Ev P fn.body (bindParams (fn.params.map (·.1)) args []) w x →
              App P w (.fn name) args x :=
            fun x hx => app_of_ev_body (fun m => by simp only [apply, hfind]) hx
          rcases E _ _ _ _ h hn with h1 | ⟨s, w', h1⟩
          · exact (hbody _ _ _ h1).map lift
          · rcases hbody _ _ _ h1 with h2 | ⟨s', w'', h2⟩
            · exact Or.inr ⟨s, w', lift _ h2⟩
            · exact Or.inr ⟨s', w'', lift _ h2⟩
        | none =>
          have hf' := H.none name hfind
          rw [hf'] at h
          exact Or.inl ⟨1, by simp only [apply, hfind]; exact h, hn⟩
      | structV nm fs =>
        simp only [apply] at h
        cases hfind : P.findFn ("inherent#" ++ nm ++ "#" ++ nm ++ "#apply") with
        | some fn =>
          obtain ⟨f', hf', hp, hbody⟩ := H.some _ fn hfind
          rw [hf'] at h; simp only at h; rw [hp] at h
          have lift : ∀ x, Ev P fn.body (bindParams (fn.params.map (·.1)) (.structV nm fs :: args) []) w x →
              App P w (.structV nm fs) args x :=
            fun x hx => app_of_ev_body (fun m => by simp only [apply, hfind]) hx
          rcases E _ _ _ _ h hn with h1 | ⟨s, w', h1⟩
          · exact (hbody _ _ _ h1).map lift
          · rcases hbody _ _ _ h1 with h2 | ⟨s', w'', h2⟩
            · exact Or.inr ⟨s, w', lift _ h2⟩
            · exact Or.inr ⟨s', w'', lift _ h2⟩
        | none =>
          have hf' := H.none _ hfind
          rw [hf'] at h
          exact Or.inl ⟨1, by simp only [apply, hfind]; exact h, hn⟩
      | _ => simp only [apply] at h; exact Or.inl ⟨1, by simp only [apply]; exact h, hn⟩

end Goml.Anf
