import GomlVerif.Lemmas.SemEv
/-!
The defining equations of `Sem.eval` in sequencing (`Res.bind`) form, one per node kind, and the
remaining characterisations (`traitCall`, `closure`, `apply`) needed to relate two programs.
-/
namespace Goml.Sem
open Goml

variable (P : Prog) (ρ : Env) (w : World) (n : Nat)

theorem eval_var_succ (x : String) (ty : Ty) : eval (n+1) P ρ w (.var x ty) = .ok (lookupVal ρ x) w := by
  rw [eval]; unfold lookupVal; split <;> simp_all
theorem eval_prim_succ (p : Prim) : eval (n+1) P ρ w (.prim p) = .ok (primVal p) w := by rw [eval]
theorem eval_tag_succ (idx : Nat) (ty : Ty) :
    eval (n+1) P ρ w (.tag idx ty) = .ok (.enumV (tagTyName ty) idx []) w := by rw [eval]
theorem eval_closure_succ (ty : Ty) (ps : List (String × Ty)) (b : Expr) :
    eval (n+1) P ρ w (.closure ty ps b) = .ok (.closure (ps.map (·.1)) b ρ) w := by rw [eval]

theorem eval_letE_succ (x : String) (v b : Expr) :
    eval (n+1) P ρ w (.letE x v b) = (eval n P ρ w v).bind (fun vv w' => eval n P ((x, vv) :: ρ) w' b) := by
  rw [eval]; cases eval n P ρ w v <;> rfl

theorem eval_ite_succ (c t e : Expr) :
    eval (n+1) P ρ w (.ite c t e) = (eval n P ρ w c).bind (iteG P t e ρ n) := by
  rw [eval]; unfold Res.bind iteG
  cases eval n P ρ w c with
  | fail f w' => rfl
  | ok v w' => cases v <;> first | rfl | (rename_i b; cases b <;> rfl)

theorem eval_un_succ (op : UnOp) (ty : Ty) (e : Expr) :
    eval (n+1) P ρ w (.un op ty e) = (eval n P ρ w e).bind (fun v w' => exceptRes (unop op v) w') := by
  rw [eval]; cases eval n P ρ w e with
  | fail f w' => rfl
  | ok v w' => simp only [Res.bind, exceptRes]; cases unop op v <;> rfl

theorem eval_cget_succ (c : Ctor) (idx : Nat) (ty : Ty) (e : Expr) :
    eval (n+1) P ρ w (.cget c idx ty e) = (eval n P ρ w e).bind (cgetRes idx) := by
  rw [eval]; cases eval n P ρ w e with
  | fail f w' => rfl
  | ok v w' => cases v <;> rfl

theorem eval_proj_succ (idx : Nat) (ty : Ty) (e : Expr) :
    eval (n+1) P ρ w (.proj idx ty e) = (eval n P ρ w e).bind (projRes idx) := by
  rw [eval]; cases eval n P ρ w e with
  | fail f w' => rfl
  | ok v w' => cases v <;> rfl

theorem eval_toDyn_succ (tr : String) (forTy ty : Ty) (e : Expr) :
    eval (n+1) P ρ w (.toDyn tr forTy ty e) =
      (eval n P ρ w e).bind (fun v w' => .ok (.dyn tr (tyKey forTy) v) w') := by
  rw [eval]; cases eval n P ρ w e <;> rfl

theorem eval_go_succ (e : Expr) : eval (n+1) P ρ w (.go e) = (eval n P ρ w e).bind (goG P n) := by
  rw [eval]; unfold goG; cases eval n P ρ w e with
  | fail f w' => rfl
  | ok v w' =>
    simp only [Res.bind]
    split
    · cases apply n P w' v [] <;> rfl
    · rfl

theorem evalList_cons_bind (e : Expr) (rest : List Expr) :
    evalList (n+1) P ρ w (e :: rest) =
      (eval n P ρ w e).bind (fun v w' => (evalList n P ρ w' rest).bind (fun vs w'' => .ok (v :: vs) w'')) := by
  rw [evalList_cons]; cases eval n P ρ w e with
  | fail f w' => rfl
  | ok v w' => simp only [Res.bind]; cases evalList n P ρ w' rest <;> rfl

theorem eval_constr_succ (c : Ctor) (ty : Ty) (args : List Expr) :
    eval (n+1) P ρ w (.constr c ty args) = (evalList n P ρ w args).bind (fun vs w' => .ok (mkCtor c vs) w') := by
  rw [eval]; cases evalList n P ρ w args with
  | fail f w' => rfl
  | ok vs w' => cases c <;> rfl

theorem eval_tuple_succ (ty : Ty) (items : List Expr) :
    eval (n+1) P ρ w (.tuple ty items) = (evalList n P ρ w items).bind (fun vs w' => .ok (.tuple vs) w') := by
  rw [eval]; cases evalList n P ρ w items <;> rfl

theorem eval_array_succ (ty : Ty) (items : List Expr) :
    eval (n+1) P ρ w (.array ty items) = (evalList n P ρ w items).bind (fun vs w' => .ok (.array vs) w') := by
  rw [eval]; cases evalList n P ρ w items <;> rfl

theorem eval_call_succ (ty : Ty) (f : Expr) (args : List Expr) :
    eval (n+1) P ρ w (.call ty f args) =
      (eval n P ρ w f).bind (fun fv w' => (evalList n P ρ w' args).bind (fun vs w'' => apply n P w'' fv vs)) := by
  rw [eval]; cases eval n P ρ w f with
  | fail f w' => rfl
  | ok v w' => simp only [Res.bind]; cases evalList n P ρ w' args <;> rfl

theorem eval_dynCall_succ (tr m : String) (ty : Ty) (recv : Expr) (args : List Expr) :
    eval (n+1) P ρ w (.dynCall tr m ty recv args) = (eval n P ρ w recv).bind (dynG P tr m args ρ n) := by
  rw [eval]; unfold dynG; cases eval n P ρ w recv with
  | fail f w' => rfl
  | ok v w' =>
    simp only [Res.bind]
    cases v <;> try rfl
    simp only
    cases evalList n P ρ w' args <;> rfl

theorem eval_bin_succ (op : BinOp) (ty : Ty) (l rhs : Expr) :
    eval (n+1) P ρ w (.bin op ty l rhs) = (eval n P ρ w l).bind (binG P op rhs ρ n) := by
  rw [eval]; cases eval n P ρ w l with
  | fail f w' => rfl
  | ok a w' =>
    simp only [Res.bind, binG]
    split
    · rfl
    · rfl
    · rename_i h1 h2
      have hsc : scVal op a = none := by
        unfold scVal; split
        · exact (h1 rfl rfl).elim
        · exact (h2 rfl rfl).elim
        · rfl
      rw [hsc]
      simp only
      split
      · rfl
      · cases eval n P ρ w' rhs with
        | fail f w2 => rfl
        | ok b w2 => simp only [exceptRes]; cases binop op a b <;> rfl

theorem eval_matchE_succ (ty : Ty) (s : Expr) (arms : List Arm) (d : Option Expr) :
    eval (n+1) P ρ w (.matchE ty s arms d) = (eval n P ρ w s).bind (fun v w' => evalArms n P ρ w' v arms d) := by
  rw [eval]; cases eval n P ρ w s <;> rfl

/-! ### `traitCall` -/

/-- the type key the receiver's runtime value selects the implementation by -/
def traitKey : Val → String
  | .unit => "unit" | .bool _ => "bool" | .str _ => "string"
  | .int b s _ => (if s then "int" else "uint") ++ toString b
  | .float b _ => "float" ++ toString b
  | .enumV t _ _ => t | .structV t _ => t
  | _ => "?"

def traitG (tr m : String) (args : List Expr) (n : Nat) (v : Val) (w : World) : Res Val :=
  (evalList n P ρ w args).bind (fun vs w2 =>
    match P.impls.find? (fun i => i.1 == tr && i.2.1 == traitKey v && i.2.2.1 == m) with
    | some i => apply n P w2 (.fn i.2.2.2) (v :: vs)
    | none => .fail (.stuck ("no impl of " ++ tr ++ " for " ++ traitKey v)) w2)

theorem eval_traitCall_succ (tr m : String) (ty : Ty) (recv : Expr) (args : List Expr) :
    eval (n+1) P ρ w (.traitCall tr m ty recv args) = (eval n P ρ w recv).bind (traitG P ρ tr m args n) := by
  rw [eval]; unfold traitG; cases eval n P ρ w recv with
  | fail f w' => rfl
  | ok v w' =>
    simp only [Res.bind]
    cases evalList n P ρ w' args with
    | fail f w'' => rfl
    | ok vs w'' =>
      simp only
      cases v <;> rfl

theorem ev_closure {ty : Ty} {ps : List (String × Ty)} {b : Expr} {r : Res Val} :
    Ev P (.closure ty ps b) ρ w r ↔ r = .ok (.closure (ps.map (·.1)) b ρ) w := by
  rw [ev_unfold (H := fun _ => .ok (.closure (ps.map (·.1)) b ρ) w) (fun n => eval_closure_succ P ρ w n ty ps b)]
  exact conv_ok

theorem ev_traitCall {tr m : String} {ty : Ty} {recv : Expr} {args : List Expr} {r : Res Val} :
    Ev P (.traitCall tr m ty recv args) ρ w r ↔
      RB (Ev P recv ρ w) (fun v w1 =>
        RB (EvL P args ρ w1) (fun vs w2 => dynDispatch P tr m (traitKey v) v vs w2)) r := by
  rw [ev_unfold (H := fun n => (eval n P ρ w recv).bind (traitG P ρ tr m args n))
    (fun n => eval_traitCall_succ P ρ w n tr m ty recv args)]
  refine conv_bind' (F := fun n => eval n P ρ w recv) (G := traitG P ρ tr m args) (mono_eval _ _ _ _) ?_ ?_ r
  · intro v w1; unfold traitG
    refine mono_bind (F := fun n => evalList n P ρ w1 args) (G := fun n vs w2 =>
      match P.impls.find? (fun i => i.1 == tr && i.2.1 == traitKey v && i.2.2.1 == m) with
      | some i => apply n P w2 (.fn i.2.2.2) (v :: vs)
      | none => .fail (.stuck ("no impl of " ++ tr ++ " for " ++ traitKey v)) w2) (mono_evalList _ _ _ _) ?_
    intro vs w2; split
    · exact mono_apply _ _ _ _
    · exact mono_const _
  · intro v w1 r; unfold traitG
    refine conv_bind' (F := fun n => evalList n P ρ w1 args) (G := fun n vs w2 =>
      match P.impls.find? (fun i => i.1 == tr && i.2.1 == traitKey v && i.2.2.1 == m) with
      | some i => apply n P w2 (.fn i.2.2.2) (v :: vs)
      | none => .fail (.stuck ("no impl of " ++ tr ++ " for " ++ traitKey v)) w2) (mono_evalList _ _ _ _) ?_ ?_ r
    · intro vs w2; split
      · exact mono_apply _ _ _ _
      · exact mono_const _
    · intro vs w2 r; unfold dynDispatch
      cases P.impls.find? (fun i => i.1 == tr && i.2.1 == traitKey v && i.2.2.1 == m) with
      | some i => exact Iff.rfl
      | none => exact conv_stuck

/-! ### sequencing, pointwise -/

/-- relate the two halves of a sequencing step separately -/
theorem sim_bind {α β} {F : Res α} {G : α → World → Res β} {r : Res β} {X' : Res α → Prop}
    {K' : α → World → Res β → Prop} (h : F.bind G = r)
    (hF : ∀ f w', F = .fail f w' → r = .fail f w' → X' (.fail f w'))
    (hF' : ∀ a w', F = .ok a w' → X' (.ok a w'))
    (hG : ∀ a w', G a w' = r → K' a w' r) : RB X' K' r := by
  cases hf : F with
  | fail f w' =>
    rw [hf] at h; simp only [Res.bind] at h
    exact Or.inl ⟨f, w', hF f w' hf h.symm, h.symm⟩
  | ok a w' =>
    rw [hf] at h; simp only [Res.bind] at h
    exact Or.inr ⟨a, w', hF' a w' hf, hG a w' h⟩

theorem nf_cast {α β} {r : Res β} {f : Fail} {w : World} (hr : r = .fail f w) (hn : NF r) :
    NF (Res.fail (α := α) f w) := by
  subst hr; rw [NF_fail] at hn ⊢; exact hn

end Goml.Sem
