import GomlVerif.Lemmas.SemFuel
/-!
Inversion / introduction principles for the fuel-free relation `Ev`: one `↔` per node kind,
each obtained from the defining equation of `Sem.eval` and `conv_bind`.
-/
namespace Goml.Sem
open Goml

theorem eval_zero (P : Prog) (ρ : Env) (w : World) (e : Expr) : eval 0 P ρ w e = .fail .fuel w := by
  rw [eval]

theorem ev_unfold {P : Prog} {e : Expr} {ρ : Env} {w : World} {r : Res Val} {H : Nat → Res Val}
    (h : ∀ n, eval (n+1) P ρ w e = H n) : Ev P e ρ w r ↔ Conv H r := by
  unfold Ev
  rw [conv_succ (eval_zero P ρ w e)]
  have : (fun n => eval (n+1) P ρ w e) = H := funext h
  rw [this]

theorem conv_const' {α} {r₀ r : Res α} (h : NF r₀) : Conv (fun _ => r₀) r ↔ r = r₀ := by
  rw [conv_const]
  constructor
  · exact fun h => h.1
  · intro h'; subst h'; exact ⟨rfl, h⟩

@[simp] theorem conv_stuck {α} {s : String} {w : World} {r : Res α} :
    Conv (fun _ => Res.fail (.stuck s) w) r ↔ r = .fail (.stuck s) w := conv_const' (by simp)
@[simp] theorem conv_panic {α} {s : String} {w : World} {r : Res α} :
    Conv (fun _ => Res.fail (.panic s) w) r ↔ r = .fail (.panic s) w := conv_const' (by simp)
@[simp] theorem conv_ok {α} {a : α} {w : World} {r : Res α} :
    Conv (fun _ => Res.ok a w) r ↔ r = .ok a w := conv_const' (by simp)

def lookupVal (ρ : Env) (x : String) : Val :=
  match lookupEnv ρ x with
  | some v => v
  | none => .fn x

def exceptRes (x : Except Fail Val) (w : World) : Res Val :=
  match x with
  | .ok v => .ok v w
  | .error f => .fail f w

/-- value of a constructor application -/
def mkCtor (c : Ctor) (vs : List Val) : Val :=
  match c with
  | .enum ty _ idx => .enumV ty idx vs
  | .struct ty => .structV ty vs

theorem ev_var {P x ty ρ w r} : Ev P (.var x ty) ρ w r ↔ r = .ok (lookupVal ρ x) w := by
  rw [ev_unfold (H := fun _ => .ok (lookupVal ρ x) w)]
  · exact conv_const' (by simp)
  · intro n; rw [eval]; unfold lookupVal; split <;> simp_all

theorem ev_prim {P p ρ w r} : Ev P (.prim p) ρ w r ↔ r = .ok (primVal p) w := by
  rw [ev_unfold (H := fun _ => .ok (primVal p) w)]
  · exact conv_const' (by simp)
  · intro n; rw [eval]

theorem ev_tag {P idx ty ρ w r} : Ev P (.tag idx ty) ρ w r ↔ r = .ok (.enumV (tagTyName ty) idx []) w := by
  rw [ev_unfold (H := fun _ => .ok (.enumV (tagTyName ty) idx []) w)]
  · exact conv_const' (by simp)
  · intro n; rw [eval]

theorem ev_letE {P x v b ρ w r} :
    Ev P (.letE x v b) ρ w r ↔ RB (Ev P v ρ w) (fun vv w' => Ev P b ((x, vv) :: ρ) w') r := by
  rw [ev_unfold (H := fun n => (eval n P ρ w v).bind (fun vv w' => eval n P ((x, vv) :: ρ) w' b))]
  · exact conv_bind (mono_eval _ _ _ _) (fun a w' => mono_eval _ _ _ _) r
  · intro n; rw [eval]; cases eval n P ρ w v <;> rfl

/-- what happens after the condition of an `if` -/
def iteK (P : Prog) (t e : Expr) (ρ : Env) (v : Val) (w : World) (r : Res Val) : Prop :=
  match v with
  | .bool true => Ev P t ρ w r
  | .bool false => Ev P e ρ w r
  | _ => r = .fail (.stuck "if on a non-boolean") w

def iteG (P : Prog) (t e : Expr) (ρ : Env) (n : Nat) (v : Val) (w : World) : Res Val :=
  match v with
  | .bool true => eval n P ρ w t
  | .bool false => eval n P ρ w e
  | _ => .fail (.stuck "if on a non-boolean") w

theorem ev_ite {P c t e ρ w r} : Ev P (.ite c t e) ρ w r ↔ RB (Ev P c ρ w) (iteK P t e ρ) r := by
  rw [ev_unfold (H := fun n => (eval n P ρ w c).bind (iteG P t e ρ n))]
  · rw [conv_bind (mono_eval _ _ _ _)]
    · apply Iff.intro <;> apply RB.mono (fun _ h => h) <;> intro a w' r h
      all_goals
        unfold iteK at *; unfold iteG at *
        split <;> simp_all [Ev]
    · intro a w'; unfold iteG; split
      · exact mono_eval _ _ _ _
      · exact mono_eval _ _ _ _
      · exact mono_const _
  · intro n; rw [eval]; unfold Res.bind iteG
    cases eval n P ρ w c with
    | fail f w' => rfl
    | ok v w' => cases v <;> first | rfl | (rename_i b; cases b <;> rfl)

theorem conv_bind' {α β} {F : Nat → Res α} {G : Nat → α → World → Res β} (hF : Mono F)
    (hG : ∀ a w, Mono (fun n => G n a w)) {K : α → World → Res β → Prop}
    (hK : ∀ a w' r, Conv (fun n => G n a w') r ↔ K a w' r) (r : Res β) :
    Conv (fun n => (F n).bind (G n)) r ↔ RB (Conv F) K r := by
  rw [conv_bind hF hG]
  constructor <;> apply RB.mono (fun _ h => h) <;> intro a w' r h
  · exact (hK a w' r).1 h
  · exact (hK a w' r).2 h

/-! ### one operand, then a head operation that needs no fuel -/

theorem ev_op1 {P : Prog} {e0 e : Expr} {ρ : Env} {w : World} {r : Res Val} (head : Val → World → Res Val)
    (hnf : ∀ v w, NF (head v w)) (h : ∀ n, eval (n+1) P ρ w e0 = (eval n P ρ w e).bind head) :
    Ev P e0 ρ w r ↔ RB (Ev P e ρ w) (fun v w' r => r = head v w') r := by
  rw [ev_unfold (H := fun n => (eval n P ρ w e).bind (fun v w' => head v w')) h]
  exact conv_bind' (F := fun n => eval n P ρ w e) (G := fun _ v w' => head v w') (mono_eval _ _ _ _)
    (fun _ _ => mono_const _) (fun a w' r => conv_const' (hnf a w')) r

theorem NF_exceptRes_unop (op : UnOp) (v : Val) (w : World) : NF (exceptRes (unop op v) w) := by
  unfold unop; split <;> simp [exceptRes]

theorem NF_exceptRes_binop (op : BinOp) (a b : Val) (w : World) : NF (exceptRes (binop op a b) w) := by
  unfold binop; split <;> (try split) <;> simp [exceptRes]

theorem ev_un {P op ty e ρ w r} :
    Ev P (.un op ty e) ρ w r ↔ RB (Ev P e ρ w) (fun v w' r => r = exceptRes (unop op v) w') r := by
  apply ev_op1 (fun v w' => exceptRes (unop op v) w') (fun v w => NF_exceptRes_unop op v w)
  intro n; rw [eval]; cases eval n P ρ w e with
  | fail f w' => rfl
  | ok v w' => simp only [Res.bind, exceptRes]; cases unop op v <;> rfl

def cgetRes (idx : Nat) (v : Val) (w : World) : Res Val :=
  match v with
  | .enumV _ _ args =>
    match args[idx]? with
    | some v => .ok v w
    | none => .fail (.stuck "constructor field out of range") w
  | .structV _ fs =>
    match fs[idx]? with
    | some v => .ok v w
    | none => .fail (.stuck "struct field out of range") w
  | _ => .fail (.stuck "field access on a non-constructor value") w

theorem ev_cget {P c idx ty e ρ w r} :
    Ev P (.cget c idx ty e) ρ w r ↔ RB (Ev P e ρ w) (fun v w' r => r = cgetRes idx v w') r := by
  apply ev_op1 (cgetRes idx)
  · intro v w; unfold cgetRes; split <;> (try split) <;> simp
  · intro n; rw [eval]; cases eval n P ρ w e with
    | fail f w' => rfl
    | ok v w' => cases v <;> rfl

def projRes (idx : Nat) (v : Val) (w : World) : Res Val :=
  match v with
  | .tuple vs =>
    match vs[idx]? with
    | some v => .ok v w
    | none => .fail (.stuck "tuple index out of range") w
  | _ => .fail (.stuck "projection from a non-tuple") w

theorem ev_proj {P idx ty e ρ w r} :
    Ev P (.proj idx ty e) ρ w r ↔ RB (Ev P e ρ w) (fun v w' r => r = projRes idx v w') r := by
  apply ev_op1 (projRes idx)
  · intro v w; unfold projRes; split <;> (try split) <;> simp
  · intro n; rw [eval]; cases eval n P ρ w e with
    | fail f w' => rfl
    | ok v w' => cases v <;> rfl

theorem ev_toDyn {P tr forTy ty e ρ w r} :
    Ev P (.toDyn tr forTy ty e) ρ w r ↔
      RB (Ev P e ρ w) (fun v w' r => r = .ok (.dyn tr (tyKey forTy) v) w') r := by
  apply ev_op1 (fun v w' => .ok (.dyn tr (tyKey forTy) v) w')
  · intro v w; simp
  · intro n; rw [eval]; cases eval n P ρ w e <;> rfl

/-! ### `go` -/

def goK (P : Prog) (v : Val) (w : World) (r : Res Val) : Prop :=
  if w.eager then RB (App P w v []) (fun _ w'' r => r = .ok .unit w'') r
  else r = .ok .unit { w with spawned := w.spawned ++ [v] }

def goG (P : Prog) (n : Nat) (v : Val) (w : World) : Res Val :=
  if w.eager then (apply n P w v []).bind (fun _ w'' => .ok .unit w'')
  else .ok .unit { w with spawned := w.spawned ++ [v] }

theorem ev_go {P e ρ w r} : Ev P (.go e) ρ w r ↔ RB (Ev P e ρ w) (goK P) r := by
  rw [ev_unfold (H := fun n => (eval n P ρ w e).bind (goG P n))]
  · refine conv_bind' (F := fun n => eval n P ρ w e) (G := goG P) (mono_eval _ _ _ _) ?_ ?_ r
    · intro a w'; unfold goG; split
      · exact mono_bind (F := fun n => apply n P w' a []) (G := fun _ _ w'' => Res.ok Val.unit w'')
          (mono_apply _ _ _ _) (fun _ _ => mono_const _)
      · exact mono_const _
    · intro a w' r; unfold goG goK; split
      · exact conv_bind' (F := fun n => apply n P w' a []) (G := fun _ _ w'' => Res.ok Val.unit w'')
          (mono_apply _ _ _ _) (fun _ _ => mono_const _) (fun _ _ _ => conv_ok) r
      · exact conv_ok
  · intro n; rw [eval]; unfold goG; cases eval n P ρ w e with
    | fail f w' => rfl
    | ok v w' =>
      simp only [Res.bind]
      split
      · cases apply n P w' v [] <;> rfl
      · rfl

/-! ### argument lists -/

theorem evalList_zero (P : Prog) (ρ : Env) (w : World) (es : List Expr) :
    evalList 0 P ρ w es = .fail .fuel w := by rw [evalList]

theorem evL_unfold {P : Prog} {es : List Expr} {ρ : Env} {w : World} {r : Res (List Val)}
    {H : Nat → Res (List Val)} (h : ∀ n, evalList (n+1) P ρ w es = H n) : EvL P es ρ w r ↔ Conv H r := by
  unfold EvL
  rw [conv_succ (evalList_zero P ρ w es)]
  have : (fun n => evalList (n+1) P ρ w es) = H := funext h
  rw [this]

theorem evL_nil {P ρ w r} : EvL P [] ρ w r ↔ r = .ok [] w := by
  rw [evL_unfold (H := fun _ => .ok [] w) (fun n => evalList_nil n P ρ w)]
  exact conv_ok

theorem evL_cons {P e rest ρ w r} :
    EvL P (e :: rest) ρ w r ↔
      RB (Ev P e ρ w) (fun v w' => RB (EvL P rest ρ w') (fun vs w'' r => r = .ok (v :: vs) w'')) r := by
  rw [evL_unfold (H := fun n => (eval n P ρ w e).bind (fun v w' =>
      (evalList n P ρ w' rest).bind (fun vs w'' => .ok (v :: vs) w'')))]
  · refine conv_bind' (F := fun n => eval n P ρ w e)
      (G := fun n v w' => (evalList n P ρ w' rest).bind (fun vs w'' => .ok (v :: vs) w''))
      (mono_eval _ _ _ _) ?_ ?_ r
    · intro a w'
      exact mono_bind (F := fun n => evalList n P ρ w' rest) (G := fun _ vs w'' => .ok (a :: vs) w'')
        (mono_evalList _ _ _ _) (fun _ _ => mono_const _)
    · intro a w' r
      exact conv_bind' (F := fun n => evalList n P ρ w' rest) (G := fun _ vs w'' => .ok (a :: vs) w'')
        (mono_evalList _ _ _ _) (fun _ _ => mono_const _) (fun _ _ _ => conv_ok) r
  · intro n; rw [evalList_cons]; cases eval n P ρ w e with
    | fail f w' => rfl
    | ok v w' => simp only [Res.bind]; cases evalList n P ρ w' rest <;> rfl

/-- operands, then a head that needs no fuel -/
theorem ev_opL {P : Prog} {e0 : Expr} {es : List Expr} {ρ : Env} {w : World} {r : Res Val}
    (head : List Val → World → Res Val) (hnf : ∀ v w, NF (head v w))
    (h : ∀ n, eval (n+1) P ρ w e0 = (evalList n P ρ w es).bind head) :
    Ev P e0 ρ w r ↔ RB (EvL P es ρ w) (fun vs w' r => r = head vs w') r := by
  rw [ev_unfold (H := fun n => (evalList n P ρ w es).bind (fun v w' => head v w')) h]
  exact conv_bind' (F := fun n => evalList n P ρ w es) (G := fun _ v w' => head v w') (mono_evalList _ _ _ _)
    (fun _ _ => mono_const _) (fun a w' r => conv_const' (hnf a w')) r

theorem ev_constr {P c ty args ρ w r} :
    Ev P (.constr c ty args) ρ w r ↔ RB (EvL P args ρ w) (fun vs w' r => r = .ok (mkCtor c vs) w') r := by
  apply ev_opL (fun vs w' => .ok (mkCtor c vs) w') (fun _ _ => by simp)
  intro n; rw [eval]; cases evalList n P ρ w args with
  | fail f w' => rfl
  | ok vs w' => cases c <;> rfl

theorem ev_tuple {P ty items ρ w r} :
    Ev P (.tuple ty items) ρ w r ↔ RB (EvL P items ρ w) (fun vs w' r => r = .ok (.tuple vs) w') r := by
  apply ev_opL (fun vs w' => .ok (.tuple vs) w') (fun _ _ => by simp)
  intro n; rw [eval]; cases evalList n P ρ w items <;> rfl

theorem ev_array {P ty items ρ w r} :
    Ev P (.array ty items) ρ w r ↔ RB (EvL P items ρ w) (fun vs w' r => r = .ok (.array vs) w') r := by
  apply ev_opL (fun vs w' => .ok (.array vs) w') (fun _ _ => by simp)
  intro n; rw [eval]; cases evalList n P ρ w items <;> rfl

theorem ev_call {P ty f args ρ w r} :
    Ev P (.call ty f args) ρ w r ↔
      RB (Ev P f ρ w) (fun fv w' => RB (EvL P args ρ w') (fun vs w'' => App P w'' fv vs)) r := by
  rw [ev_unfold (H := fun n => (eval n P ρ w f).bind (fun fv w' =>
      (evalList n P ρ w' args).bind (fun vs w'' => apply n P w'' fv vs)))]
  · refine conv_bind' (F := fun n => eval n P ρ w f)
      (G := fun n fv w' => (evalList n P ρ w' args).bind (fun vs w'' => apply n P w'' fv vs))
      (mono_eval _ _ _ _) ?_ ?_ r
    · intro a w'
      exact mono_bind (F := fun n => evalList n P ρ w' args) (G := fun n vs w'' => apply n P w'' a vs)
        (mono_evalList _ _ _ _) (fun _ _ => mono_apply _ _ _ _)
    · intro a w' r
      exact conv_bind (F := fun n => evalList n P ρ w' args) (G := fun n vs w'' => apply n P w'' a vs)
        (mono_evalList _ _ _ _) (fun _ _ => mono_apply _ _ _ _) r
  · intro n; rw [eval]; cases eval n P ρ w f with
    | fail f w' => rfl
    | ok v w' => simp only [Res.bind]; cases evalList n P ρ w' args <;> rfl

/-! ### calls through a `dyn` value -/

/-- dispatch on the implementation registered for the receiver's type key -/
def dynDispatch (P : Prog) (tr m key : String) (v : Val) (vs : List Val) (w : World) (r : Res Val) : Prop :=
  match P.impls.find? (fun i => i.1 == tr && i.2.1 == key && i.2.2.1 == m) with
  | some i => App P w (.fn i.2.2.2) (v :: vs) r
  | none => r = .fail (.stuck ("no impl of " ++ tr ++ " for " ++ key)) w

def dynK (P : Prog) (tr m : String) (args : List Expr) (ρ : Env) (v : Val) (w : World) (r : Res Val) : Prop :=
  match v with
  | .dyn _ key v0 => RB (EvL P args ρ w) (fun vs w2 => dynDispatch P tr m key v0 vs w2) r
  | _ => r = .fail (.stuck "dyn call on a non-dyn value") w

def dynG (P : Prog) (tr m : String) (args : List Expr) (ρ : Env) (n : Nat) (v : Val) (w : World) : Res Val :=
  match v with
  | .dyn _ key v0 =>
    (evalList n P ρ w args).bind (fun vs w2 =>
      match P.impls.find? (fun i => i.1 == tr && i.2.1 == key && i.2.2.1 == m) with
      | some i => apply n P w2 (.fn i.2.2.2) (v0 :: vs)
      | none => .fail (.stuck ("no impl of " ++ tr ++ " for " ++ key)) w2)
  | _ => .fail (.stuck "dyn call on a non-dyn value") w

theorem ev_dynCall {P tr m ty recv args ρ w r} :
    Ev P (.dynCall tr m ty recv args) ρ w r ↔ RB (Ev P recv ρ w) (dynK P tr m args ρ) r := by
  rw [ev_unfold (H := fun n => (eval n P ρ w recv).bind (dynG P tr m args ρ n))]
  · refine conv_bind' (F := fun n => eval n P ρ w recv) (G := dynG P tr m args ρ) (mono_eval _ _ _ _) ?_ ?_ r
    · intro a w'; unfold dynG; split
      · rename_i key v0
        refine mono_bind (F := fun n => evalList n P ρ w' args) (G := fun n vs w2 =>
          match P.impls.find? (fun i => i.1 == tr && i.2.1 == key && i.2.2.1 == m) with
          | some i => apply n P w2 (.fn i.2.2.2) (v0 :: vs)
          | none => .fail (.stuck ("no impl of " ++ tr ++ " for " ++ key)) w2) (mono_evalList _ _ _ _) ?_
        intro vs w2; split
        · exact mono_apply _ _ _ _
        · exact mono_const _
      · exact mono_const _
    · intro a w' r; unfold dynG dynK; split
      · rename_i key v0
        refine conv_bind' (F := fun n => evalList n P ρ w' args) (G := fun n vs w2 =>
          match P.impls.find? (fun i => i.1 == tr && i.2.1 == key && i.2.2.1 == m) with
          | some i => apply n P w2 (.fn i.2.2.2) (v0 :: vs)
          | none => .fail (.stuck ("no impl of " ++ tr ++ " for " ++ key)) w2) (mono_evalList _ _ _ _) ?_ ?_ r
        · intro vs w2; split
          · exact mono_apply _ _ _ _
          · exact mono_const _
        · intro vs w2 r; unfold dynDispatch; split
          · exact Iff.rfl
          · exact conv_stuck
      · exact conv_stuck
  · intro n; rw [eval]; unfold dynG; cases eval n P ρ w recv with
    | fail f w' => rfl
    | ok v w' =>
      simp only [Res.bind]
      cases v <;> try rfl
      simp only
      cases evalList n P ρ w' args <;> rfl

/-! ### binary operators (short-circuit `&&`, `||`) -/

/-- the left operand alone decides -/
def scVal : BinOp → Val → Option Val
  | .and, .bool false => some (.bool false)
  | .or, .bool true => some (.bool true)
  | _, _ => none

def binK (P : Prog) (op : BinOp) (rhs : Expr) (ρ : Env) (a : Val) (w : World) (r : Res Val) : Prop :=
  match scVal op a with
  | some v => r = .ok v w
  | none =>
    if logicalNonBool op a then r = .fail (.stuck "logical operator on a non-boolean") w
    else RB (Ev P rhs ρ w) (fun b w'' r => r = exceptRes (binop op a b) w'') r

def binG (P : Prog) (op : BinOp) (rhs : Expr) (ρ : Env) (n : Nat) (a : Val) (w : World) : Res Val :=
  match scVal op a with
  | some v => .ok v w
  | none =>
    if logicalNonBool op a then .fail (.stuck "logical operator on a non-boolean") w
    else (eval n P ρ w rhs).bind (fun b w'' => exceptRes (binop op a b) w'')

theorem ev_bin {P op ty l rhs ρ w r} :
    Ev P (.bin op ty l rhs) ρ w r ↔ RB (Ev P l ρ w) (binK P op rhs ρ) r := by
  rw [ev_unfold (H := fun n => (eval n P ρ w l).bind (binG P op rhs ρ n))]
  · refine conv_bind' (F := fun n => eval n P ρ w l) (G := binG P op rhs ρ) (mono_eval _ _ _ _) ?_ ?_ r
    · intro a w'; unfold binG; split
      · exact mono_const _
      · split
        · exact mono_const _
        · exact mono_bind (F := fun n => eval n P ρ w' rhs) (G := fun _ b w'' => exceptRes (binop op a b) w'')
            (mono_eval _ _ _ _) (fun _ _ => mono_const _)
    · intro a w' r; unfold binG binK; split
      · exact conv_ok
      · split
        · exact conv_stuck
        · exact conv_bind' (F := fun n => eval n P ρ w' rhs) (G := fun _ b w'' => exceptRes (binop op a b) w'')
            (mono_eval _ _ _ _) (fun _ _ => mono_const _)
            (fun b w'' _ => conv_const' (NF_exceptRes_binop op a b w'')) r
  · intro n; rw [eval]; cases eval n P ρ w l with
    | fail f w' => rfl
    | ok a w' =>
      simp only [Res.bind, binG]
      split
      · rfl
      · rfl
      · rename_i h1 h2
        have hsc : scVal op a = none := by
          unfold scVal; split
          · exact (h1 rfl rfl).elim
          · exact (h2 rfl rfl).elim
          · rfl
        rw [hsc]
        simp only
        split
        · rfl
        · cases eval n P ρ w' rhs with
          | fail f w2 => rfl
          | ok b w2 => simp only [exceptRes]; cases binop op a b <;> rfl

/-! ### `match` -/

theorem evalArms_zero (P : Prog) (ρ : Env) (w : World) (v : Val) (arms : List Arm) (d : Option Expr) :
    evalArms 0 P ρ w v arms d = .fail .fuel w := by rw [evalArms]

theorem evA_unfold {P : Prog} {ρ : Env} {w : World} {v : Val} {arms : List Arm} {d : Option Expr} {r : Res Val}
    {H : Nat → Res Val} (h : ∀ n, evalArms (n+1) P ρ w v arms d = H n) : EvA P ρ w v arms d r ↔ Conv H r := by
  unfold EvA
  rw [conv_succ (evalArms_zero P ρ w v arms d)]
  have : (fun n => evalArms (n+1) P ρ w v arms d) = H := funext h
  rw [this]

theorem evA_nil_some {P ρ w v d r} : EvA P ρ w v [] (some d) r ↔ Ev P d ρ w r := by
  rw [evA_unfold (H := fun n => eval n P ρ w d) (fun n => evalArms_nil n P ρ w v (some d))]
  rfl

theorem evA_nil_none {P ρ w v r} :
    EvA P ρ w v [] none r ↔ r = .fail (.stuck "no arm selected and no default") w := by
  rw [evA_unfold (H := fun _ => .fail (.stuck "no arm selected and no default") w)
    (fun n => evalArms_nil n P ρ w v none)]
  exact conv_stuck

theorem evA_cons {P ρ w v lhs body rest d r} :
    EvA P ρ w v (.mk lhs body :: rest) d r ↔
      (if armMatches lhs v then Ev P body ρ w r else EvA P ρ w v rest d r) := by
  rw [evA_unfold (H := fun n => if armMatches lhs v then eval n P ρ w body else evalArms n P ρ w v rest d)
    (fun n => evalArms_cons n P ρ w v lhs body rest d)]
  split <;> rfl

theorem ev_matchE {P ty s arms d ρ w r} :
    Ev P (.matchE ty s arms d) ρ w r ↔ RB (Ev P s ρ w) (fun v w' => EvA P ρ w' v arms d) r := by
  rw [ev_unfold (H := fun n => (eval n P ρ w s).bind (fun v w' => evalArms n P ρ w' v arms d))]
  · exact conv_bind (F := fun n => eval n P ρ w s) (G := fun n v w' => evalArms n P ρ w' v arms d)
      (mono_eval _ _ _ _) (fun a w' => mono_evalArms _ _ _ _ _ _) r
  · intro n; rw [eval]; cases eval n P ρ w s <;> rfl

/-! ### `while` -/

def whileK (P : Prog) (c b : Expr) (ρ : Env) (v : Val) (w : World) (r : Res Val) : Prop :=
  match v with
  | .bool true => RB (Ev P b ρ w) (fun _ w'' => Ev P (.while c b) ρ w'') r
  | .bool false => r = .ok .unit w
  | _ => r = .fail (.stuck "while on a non-boolean") w

def whileG (P : Prog) (c b : Expr) (ρ : Env) (n : Nat) (v : Val) (w : World) : Res Val :=
  match v with
  | .bool true => (eval n P ρ w b).bind (fun _ w'' => eval n P ρ w'' (.while c b))
  | .bool false => .ok .unit w
  | _ => .fail (.stuck "while on a non-boolean") w

theorem eval_while_succ (P : Prog) (c b : Expr) (ρ : Env) (w : World) (n : Nat) :
    eval (n+1) P ρ w (.while c b) = (eval n P ρ w c).bind (whileG P c b ρ n) := by
  rw [eval]; unfold whileG; cases eval n P ρ w c with
  | fail f w' => rfl
  | ok v w' =>
    simp only [Res.bind]
    cases v <;> try rfl
    rename_i bv; cases bv
    · rfl
    · simp only; cases eval n P ρ w' b <;> rfl

theorem ev_while {P c b ρ w r} : Ev P (.while c b) ρ w r ↔ RB (Ev P c ρ w) (whileK P c b ρ) r := by
  rw [ev_unfold (H := fun n => (eval n P ρ w c).bind (whileG P c b ρ n)) (eval_while_succ P c b ρ w)]
  refine conv_bind' (F := fun n => eval n P ρ w c) (G := whileG P c b ρ) (mono_eval _ _ _ _) ?_ ?_ r
  · intro a w'; unfold whileG; split
    · exact mono_bind (F := fun n => eval n P ρ w' b) (G := fun n _ w'' => eval n P ρ w'' (.while c b))
        (mono_eval _ _ _ _) (fun _ _ => mono_eval _ _ _ _)
    · exact mono_const _
    · exact mono_const _
  · intro a w' r; unfold whileG whileK; split
    · exact conv_bind (F := fun n => eval n P ρ w' b) (G := fun n _ w'' => eval n P ρ w'' (.while c b))
        (mono_eval _ _ _ _) (fun _ _ => mono_eval _ _ _ _) r
    · exact conv_ok
    · exact conv_stuck

end Goml.Sem
