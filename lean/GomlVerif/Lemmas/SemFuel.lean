import GomlVerif.Model.Sem
/-!
Fuel lemmas for `Sem`: a result other than fuel exhaustion is stable under more fuel, and the
fuel-free big-step relations `Ev`, `EvL`, `EvA`, `App` derived from the interpreter.
-/
namespace Goml.Sem
open Goml

/-- not fuel exhaustion -/
def NF {α} : Res α → Prop
  | .fail .fuel _ => False
  | _ => True

@[simp, grind =] theorem NF_ok {α} (a : α) (w : World) : NF (Res.ok a w) = True := rfl
@[simp, grind =] theorem NF_fuel {α} (w : World) : NF (Res.fail (α := α) .fuel w) = False := rfl
@[simp, grind =] theorem NF_panic {α} (k : String) (w : World) : NF (Res.fail (α := α) (.panic k) w) = True := rfl
@[simp, grind =] theorem NF_stuck {α} (k : String) (w : World) : NF (Res.fail (α := α) (.stuck k) w) = True := rfl

@[grind =] theorem NF_fail {α} (f : Fail) (w : World) : NF (Res.fail (α := α) f w) = (f ≠ .fuel) := by
  cases f <;> simp

theorem evalArms_nil (n : Nat) (P : Prog) (ρ : Env) (w : World) (v : Val) (d : Option Expr) :
    evalArms (n+1) P ρ w v [] d =
      match d with
      | some d => eval n P ρ w d
      | none => .fail (.stuck "no arm selected and no default") w := rfl

theorem evalArms_cons (n : Nat) (P : Prog) (ρ : Env) (w : World) (v : Val) (lhs body : Expr) (rest : List Arm)
    (d : Option Expr) :
    evalArms (n+1) P ρ w v (.mk lhs body :: rest) d =
      if armMatches lhs v then eval n P ρ w body else evalArms n P ρ w v rest d := rfl

theorem evalList_nil (n : Nat) (P : Prog) (ρ : Env) (w : World) :
    evalList (n+1) P ρ w [] = .ok [] w := rfl

theorem evalList_cons (n : Nat) (P : Prog) (ρ : Env) (w : World) (e : Expr) (rest : List Expr) :
    evalList (n+1) P ρ w (e :: rest) =
      match eval n P ρ w e with
      | .fail f w => .fail f w
      | .ok v w =>
        match evalList n P ρ w rest with
        | .fail f w => .fail f w
        | .ok vs w => .ok (v :: vs) w := rfl

theorem step_all (P : Prog) : ∀ n,
    (∀ ρ w e r, eval n P ρ w e = r → NF r → eval (n+1) P ρ w e = r) ∧
    (∀ ρ w es r, evalList n P ρ w es = r → NF r → evalList (n+1) P ρ w es = r) ∧
    (∀ ρ w v arms d r, evalArms n P ρ w v arms d = r → NF r → evalArms (n+1) P ρ w v arms d = r) ∧
    (∀ w f args r, apply n P w f args = r → NF r → apply (n+1) P w f args = r) := by
  intro n
  induction n with
  | zero =>
    refine ⟨?_, ?_, ?_, ?_⟩
    · intro ρ w e r h hn; simp only [eval] at h; subst h; exact absurd hn (by simp)
    · intro ρ w e r h hn; simp only [evalList] at h; subst h; exact absurd hn (by simp)
    · intro ρ w v a d r h hn; simp only [evalArms] at h; subst h; exact absurd hn (by simp)
    · intro w f a r h hn; simp only [apply] at h; subst h; exact absurd hn (by simp)
  | succ n ih =>
    obtain ⟨ihE, ihL, ihA, ihP⟩ := ih
    refine ⟨?_, ?_, ?_, ?_⟩
    · intro ρ w e r h hn
      cases e with
      | dynCall tr m ty recv args =>
        rw [eval] at h ⊢
        cases hr : eval n P ρ w recv with
        | fail f w' => rw [hr] at h; rw [ihE _ _ _ _ hr (by grind)]; exact h
        | ok v w' =>
          rw [hr] at h; rw [ihE _ _ _ _ hr (by simp)]
          cases v <;> try exact h
          simp only at h ⊢
          cases ha : evalList n P ρ w' args with
          | fail f w'' => rw [ha] at h; rw [ihL _ _ _ _ ha (by grind)]; exact h
          | ok vs w'' =>
            rw [ha] at h; rw [ihL _ _ _ _ ha (by simp)]
            simp only at h ⊢
            split at h
            · exact ihP _ _ _ _ h hn
            · exact h
      | traitCall tr m ty recv args =>
        rw [eval] at h ⊢
        cases hr : eval n P ρ w recv with
        | fail f w' => rw [hr] at h; rw [ihE _ _ _ _ hr (by grind)]; exact h
        | ok v w' =>
          rw [hr] at h; rw [ihE _ _ _ _ hr (by simp)]
          simp only at h ⊢
          cases ha : evalList n P ρ w' args with
          | fail f w'' => rw [ha] at h; rw [ihL _ _ _ _ ha (by grind)]; exact h
          | ok vs w'' =>
            rw [ha] at h; rw [ihL _ _ _ _ ha (by simp)]
            simp only at h ⊢
            split at h
            · exact ihP _ _ _ _ h hn
            · exact h
      | bin op ty l rhs =>
        rw [eval] at h ⊢
        cases hl : eval n P ρ w l with
        | fail f w' => rw [hl] at h; rw [ihE _ _ _ _ hl (by grind)]; exact h
        | ok a w' =>
          rw [hl] at h; rw [ihE _ _ _ _ hl (by simp)]
          simp only at h ⊢
          split at h
          · exact h
          · exact h
          · rename_i h1 h2
            split
            · rename_i hb; rw [if_pos hb] at h; exact h
            · rename_i hb; rw [if_neg hb] at h
              cases hr : eval n P ρ w' rhs with
              | fail f w'' => rw [hr] at h; rw [ihE _ _ _ _ hr (by grind)]; exact h
              | ok b w'' => rw [hr] at h; rw [ihE _ _ _ _ hr (by simp)]; exact h
      | _ => rw [eval] at h ⊢; grind
    · intro ρ w es r h hn
      cases es <;> (rw [evalList] at h ⊢; grind)
    · intro ρ w v arms d r h hn
      cases arms with
      | nil => rw [evalArms_nil] at h ⊢; grind
      | cons a rest => cases a; rw [evalArms_cons] at h ⊢; grind
    · intro w f args r h hn
      cases f <;> simp only [apply] at h ⊢ <;> grind

theorem eval_mono {P : Prog} {n m : Nat} (hnm : n ≤ m) {ρ w e r} (h : eval n P ρ w e = r) (hn : NF r) :
    eval m P ρ w e = r := by
  induction hnm with
  | refl => exact h
  | step _ ih => exact (step_all P _).1 _ _ _ _ ih hn

theorem evalList_mono {P : Prog} {n m : Nat} (hnm : n ≤ m) {ρ w es r} (h : evalList n P ρ w es = r) (hn : NF r) :
    evalList m P ρ w es = r := by
  induction hnm with
  | refl => exact h
  | step _ ih => exact (step_all P _).2.1 _ _ _ _ ih hn

theorem evalArms_mono {P : Prog} {n m : Nat} (hnm : n ≤ m) {ρ w v arms d r}
    (h : evalArms n P ρ w v arms d = r) (hn : NF r) : evalArms m P ρ w v arms d = r := by
  induction hnm with
  | refl => exact h
  | step _ ih => exact (step_all P _).2.2.1 _ _ _ _ _ _ ih hn

theorem apply_mono {P : Prog} {n m : Nat} (hnm : n ≤ m) {w f args r} (h : apply n P w f args = r) (hn : NF r) :
    apply m P w f args = r := by
  induction hnm with
  | refl => exact h
  | step _ ih => exact (step_all P _).2.2.2 _ _ _ _ ih hn

/-! ### fuel-free big-step relations -/

/-- a fuel-indexed computation that is stable once it has produced a result -/
def Mono {α} (F : Nat → Res α) : Prop := ∀ n m r, n ≤ m → F n = r → NF r → F m = r

/-- `F` converges to `r` -/
def Conv {α} (F : Nat → Res α) (r : Res α) : Prop := ∃ n, F n = r ∧ NF r

theorem Conv.det {α} {F : Nat → Res α} (hF : Mono F) {r r' : Res α} (h : Conv F r) (h' : Conv F r') : r = r' := by
  obtain ⟨n, hn, hnf⟩ := h
  obtain ⟨m, hm, hmf⟩ := h'
  have h1 := hF n (max n m) r (Nat.le_max_left _ _) hn hnf
  have h2 := hF m (max n m) r' (Nat.le_max_right _ _) hm hmf
  rw [← h1, ← h2]

def Ev (P : Prog) (e : Expr) (ρ : Env) (w : World) (r : Res Val) : Prop := Conv (fun n => eval n P ρ w e) r
def EvL (P : Prog) (es : List Expr) (ρ : Env) (w : World) (r : Res (List Val)) : Prop :=
  Conv (fun n => evalList n P ρ w es) r
def EvA (P : Prog) (ρ : Env) (w : World) (v : Val) (arms : List Arm) (d : Option Expr) (r : Res Val) : Prop :=
  Conv (fun n => evalArms n P ρ w v arms d) r
def App (P : Prog) (w : World) (f : Val) (args : List Val) (r : Res Val) : Prop :=
  Conv (fun n => apply n P w f args) r

theorem mono_eval (P : Prog) (ρ : Env) (w : World) (e : Expr) : Mono (fun n => eval n P ρ w e) :=
  fun _ _ _ hnm h hn => eval_mono hnm h hn
theorem mono_evalList (P : Prog) (ρ : Env) (w : World) (es : List Expr) : Mono (fun n => evalList n P ρ w es) :=
  fun _ _ _ hnm h hn => evalList_mono hnm h hn
theorem mono_evalArms (P : Prog) (ρ : Env) (w : World) (v : Val) (arms : List Arm) (d : Option Expr) :
    Mono (fun n => evalArms n P ρ w v arms d) :=
  fun _ _ _ hnm h hn => evalArms_mono hnm h hn
theorem mono_apply (P : Prog) (w : World) (f : Val) (args : List Val) : Mono (fun n => apply n P w f args) :=
  fun _ _ _ hnm h hn => apply_mono hnm h hn
theorem mono_const {α} (r : Res α) : Mono (fun _ => r) := fun _ _ _ _ h _ => h

theorem Ev.det {P e ρ w r r'} (h : Ev P e ρ w r) (h' : Ev P e ρ w r') : r = r' := Conv.det (mono_eval P ρ w e) h h'
theorem EvL.det {P es ρ w r r'} (h : EvL P es ρ w r) (h' : EvL P es ρ w r') : r = r' := Conv.det (mono_evalList P ρ w es) h h'
theorem App.det {P w f a r r'} (h : App P w f a r) (h' : App P w f a r') : r = r' := Conv.det (mono_apply P w f a) h h'

theorem Conv.nf {α} {F : Nat → Res α} {r} (h : Conv F r) : NF r := by
  obtain ⟨_, _, hn⟩ := h; exact hn
theorem conv_const {α} {r₀ r : Res α} : Conv (fun _ => r₀) r ↔ (r = r₀ ∧ NF r) := by
  constructor
  · rintro ⟨_, h, hn⟩; exact ⟨h.symm, hn⟩
  · rintro ⟨h, hn⟩; exact ⟨0, h.symm, hn⟩

/-- sequencing: run `r`, on success continue with `k` -/
def Res.bind {α β} (r : Res α) (k : α → World → Res β) : Res β :=
  match r with
  | .fail f w => .fail f w
  | .ok a w => k a w

/-- relational sequencing -/
def RB {α β} (X : Res α → Prop) (K : α → World → Res β → Prop) (r : Res β) : Prop :=
  (∃ f w', X (.fail f w') ∧ r = .fail f w') ∨ (∃ a w', X (.ok a w') ∧ K a w' r)

theorem mono_bind {α β} {F : Nat → Res α} {G : Nat → α → World → Res β} (hF : Mono F)
    (hG : ∀ a w, Mono (fun n => G n a w)) : Mono (fun n => (F n).bind (G n)) := by
  intro n m r hnm h hn
  simp only [Res.bind] at h ⊢
  cases hf : F n with
  | fail f w' =>
    rw [hf] at h; simp only at h
    have : NF (Res.fail (α := α) f w') := by subst h; rw [NF_fail] at hn ⊢; exact hn
    rw [hF n m _ hnm hf this]; exact h
  | ok a w' =>
    rw [hf] at h; simp only at h
    rw [hF n m _ hnm hf (by simp)]; simp only
    exact hG a w' n m r hnm h hn

theorem conv_bind {α β} {F : Nat → Res α} {G : Nat → α → World → Res β} (hF : Mono F)
    (hG : ∀ a w, Mono (fun n => G n a w)) (r : Res β) :
    Conv (fun n => (F n).bind (G n)) r ↔ RB (Conv F) (fun a w' => Conv (fun n => G n a w')) r := by
  constructor
  · rintro ⟨n, h, hn⟩
    simp only [Res.bind] at h
    cases hf : F n with
    | fail f w' =>
      rw [hf] at h; simp only at h
      refine Or.inl ⟨f, w', ⟨n, hf, ?_⟩, h.symm⟩
      subst h; rw [NF_fail] at hn ⊢; exact hn
    | ok a w' =>
      rw [hf] at h; simp only at h
      exact Or.inr ⟨a, w', ⟨n, hf, by simp⟩, ⟨n, h, hn⟩⟩
  · rintro (⟨f, w', ⟨n, hf, hnf⟩, rfl⟩ | ⟨a, w', ⟨n, hf, _⟩, ⟨m, hg, hn⟩⟩)
    · refine ⟨n, ?_, ?_⟩
      · simp only [Res.bind, hf]
      · rw [NF_fail] at hnf ⊢; exact hnf
    · refine ⟨max n m, ?_, hn⟩
      simp only [Res.bind]
      rw [hF n _ _ (Nat.le_max_left _ _) hf (by simp)]
      simp only
      exact hG a w' m _ r (Nat.le_max_right _ _) hg hn

/-- a computation that needs one unit of fuel to start -/
theorem conv_succ {α} {F : Nat → Res α} {w : World} (h0 : F 0 = .fail .fuel w) (r : Res α) :
    Conv F r ↔ Conv (fun n => F (n+1)) r := by
  constructor
  · rintro ⟨n, h, hn⟩
    cases n with
    | zero => rw [h0] at h; subst h; simp at hn
    | succ n => exact ⟨n, h, hn⟩
  · rintro ⟨n, h, hn⟩; exact ⟨n+1, h, hn⟩

theorem RB.mono {α β} {X X' : Res α → Prop} {K K' : α → World → Res β → Prop} {r : Res β}
    (hX : ∀ x, X x → X' x) (hK : ∀ a w r, K a w r → K' a w r) (h : RB X K r) : RB X' K' r := by
  rcases h with ⟨f, w', hx, rfl⟩ | ⟨a, w', hx, hk⟩
  · exact Or.inl ⟨f, w', hX _ hx, rfl⟩
  · exact Or.inr ⟨a, w', hX _ hx, hK _ _ _ hk⟩

end Goml.Sem
