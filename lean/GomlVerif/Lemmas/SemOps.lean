import GomlVerif.Lemmas.AnfSem
/-!
"Operands, then head" form of the characterisations of `Lemmas/SemEv.lean`: the node evaluates
the operand list left to right (`EvL`) and then applies a head relation to the values.
-/
namespace Goml.Anf
open Goml Goml.Sem

variable {P : Prog}

theorem rb_evL_nil {ρ : Env} {w : World} {K : List Val → World → Res Val → Prop} {r : Res Val} :
    RB (EvL P [] ρ w) K r ↔ K [] w r := by
  constructor
  · rintro (⟨f, w', h, _⟩ | ⟨vs, w', h, h2⟩)
    · rw [evL_nil] at h; cases h
    · rw [evL_nil] at h; cases h; exact h2
  · intro h; exact Or.inr ⟨[], w, evL_nil.2 rfl, h⟩

/-- first operand, then the remaining operands -/
theorem rb_first_list {f : Expr} {args : List Expr} {ρ : Env} {w : World}
    {K : Val → List Val → World → Res Val → Prop} {r : Res Val} :
    RB (Ev P f ρ w) (fun fv w1 => RB (EvL P args ρ w1) (K fv)) r ↔
      RB (EvL P (f :: args) ρ w) (fun vs w' r => ∃ fv as, vs = fv :: as ∧ K fv as w' r) r := by
  constructor
  · rintro (⟨e, w', h, rfl⟩ | ⟨fv, w1, h, h2⟩)
    · exact Or.inl ⟨e, w', evL_cons.2 (Or.inl ⟨e, w', h, rfl⟩), rfl⟩
    · rcases h2 with ⟨e, w', h3, rfl⟩ | ⟨as, w2, h3, h4⟩
      · exact Or.inl ⟨e, w', evL_cons.2 (Or.inr ⟨fv, w1, h, Or.inl ⟨e, w', h3, rfl⟩⟩), rfl⟩
      · exact Or.inr ⟨fv :: as, w2, evL_cons.2 (Or.inr ⟨fv, w1, h, Or.inr ⟨as, w2, h3, rfl⟩⟩), fv, as, rfl, h4⟩
  · rintro (⟨e, w', h, rfl⟩ | ⟨vs, w2, h, fv, as, rfl, h4⟩)
    · rcases evL_cons.1 h with ⟨e', w'', h1, h2⟩ | ⟨fv, w1, h1, h2⟩
      · cases h2; exact Or.inl ⟨e, w', h1, rfl⟩
      · rcases h2 with ⟨e', w'', h3, h5⟩ | ⟨as, w2, _, h5⟩
        · cases h5; exact Or.inr ⟨fv, w1, h1, Or.inl ⟨e, w', h3, rfl⟩⟩
        · cases h5
    · rcases evL_cons.1 h with ⟨e', w'', _, h2⟩ | ⟨fv', w1, h1, h2⟩
      · cases h2
      · rcases h2 with ⟨e', w'', _, h5⟩ | ⟨as', w2', h3, h5⟩
        · cases h5
        · cases h5; exact Or.inr ⟨fv, w1, h1, Or.inr ⟨as, w2, h3, h4⟩⟩

/-- head relation of `call` -/
def callH (P : Prog) (vs : List Val) (w : World) (r : Res Val) : Prop :=
  ∃ fv as, vs = fv :: as ∧ App P w fv as r

theorem ev_call_ops {ty : Ty} {f : Expr} {args : List Expr} {ρ : Env} {w : World} {r : Res Val} :
    Ev P (.call ty f args) ρ w r ↔ RB (EvL P (f :: args) ρ w) (callH P) r := by
  rw [ev_call]; exact rb_first_list (K := fun fv as w' r => App P w' fv as r)

/-- head relation of a binary operator whose right operand needs no short-circuit treatment -/
def binH (op : BinOp) (vs : List Val) (w : World) (r : Res Val) : Prop :=
  ∃ a b, vs = [a, b] ∧
    match scVal op a with
    | some v => r = .ok v w
    | none =>
      if logicalNonBool op a then r = .fail (.stuck "logical operator on a non-boolean") w
      else r = exceptRes (binop op a b) w

theorem scVal_none_of_not_logical {op : BinOp} (h : op ≠ .and ∧ op ≠ .or) (a : Val) : scVal op a = none := by
  unfold scVal; split <;> simp_all

theorem logicalNonBool_false_of_not_logical {op : BinOp} (h : op ≠ .and ∧ op ≠ .or) (a : Val) :
    logicalNonBool op a = false := by
  cases op <;> first | rfl | simp_all

theorem rb_single {e : Expr} {ρ : Env} {w : World} {K : Val → World → Res Val → Prop} {r : Res Val} :
    RB (Ev P e ρ w) K r ↔ RB (EvL P [e] ρ w) (fun vs w' r => ∃ v, vs = [v] ∧ K v w' r) r := by
  have := rb_first_list (P := P) (f := e) (args := []) (ρ := ρ) (w := w)
    (K := fun v as w' r => as = [] ∧ K v w' r) (r := r)
  constructor
  · intro h
    have h' : RB (Ev P e ρ w) (fun fv w1 => RB (EvL P [] ρ w1) (fun as w' r => as = [] ∧ K fv w' r)) r :=
      RB.mono (fun _ h => h) (fun v w1 r hk => rb_evL_nil.2 ⟨rfl, hk⟩) h
    exact RB.mono (fun _ h => h) (fun vs w' r ⟨fv, as, h1, h2, h3⟩ => ⟨fv, by rw [h1, h2], h3⟩) (this.1 h')
  · intro h
    have h' := this.2 (RB.mono (fun _ h => h) (fun vs w' r ⟨v, h1, h2⟩ => ⟨v, [], h1, rfl, h2⟩) h)
    exact RB.mono (fun _ h => h) (fun v w1 r hk => (rb_evL_nil.1 hk).2) h'

theorem ev_bin_ops {op : BinOp} {ty : Ty} {l rhs : Expr} {ρ : Env} {w : World} {r : Res Val}
    (h : isAtom rhs = true ∨ (op ≠ .and ∧ op ≠ .or)) :
    Ev P (.bin op ty l rhs) ρ w r ↔ RB (EvL P [l, rhs] ρ w) (binH op) r := by
  rw [ev_bin]
  have key : ∀ a w1 r, binK P op rhs ρ a w1 r ↔
      RB (EvL P [rhs] ρ w1) (fun as w' r => ∃ b, as = [b] ∧
        match scVal op a with
        | some v => r = .ok v w'
        | none =>
          if logicalNonBool op a then r = .fail (.stuck "logical operator on a non-boolean") w'
          else r = exceptRes (binop op a b) w') r := by
    intro a w1 r
    unfold binK
    rcases h with hat | hop
    · -- an atom on the right: evaluating it is pure
      have hev : ∀ x, EvL P [rhs] ρ w1 x ↔ x = .ok [atomVal ρ rhs] w1 := fun x =>
        evL_atoms (P := P) (is := [rhs]) (fun i hi => by simp at hi; subst hi; exact hat)
      cases hv : scVal op a with
      | some v =>
        simp only [hv]
        constructor
        · intro hk; exact Or.inr ⟨[atomVal ρ rhs], w1, (hev _).2 rfl, atomVal ρ rhs, rfl, hk⟩
        · rintro (⟨f, w', h1, _⟩ | ⟨as, w', h1, b, rfl, h2⟩)
          · rw [hev] at h1; cases h1
          · rw [hev] at h1; cases h1; exact h2
      | none =>
        simp only [hv]
        by_cases hb : logicalNonBool op a = true
        · simp only [hb, if_true]
          constructor
          · intro hk; exact Or.inr ⟨[atomVal ρ rhs], w1, (hev _).2 rfl, atomVal ρ rhs, rfl, hk⟩
          · rintro (⟨f, w', h1, _⟩ | ⟨as, w', h1, b, rfl, h2⟩)
            · rw [hev] at h1; cases h1
            · rw [hev] at h1; cases h1; exact h2
        · simp only [hb]
          constructor
          · rintro (⟨f, w', h1, _⟩ | ⟨b, w', h1, h2⟩)
            · rw [ev_atom hat] at h1; cases h1
            · rw [ev_atom hat] at h1; cases h1
              exact Or.inr ⟨[atomVal ρ rhs], w1, (hev _).2 rfl, atomVal ρ rhs, rfl, h2⟩
          · rintro (⟨f, w', h1, _⟩ | ⟨as, w', h1, b, rfl, h2⟩)
            · rw [hev] at h1; cases h1
            · rw [hev] at h1; cases h1
              exact Or.inr ⟨atomVal ρ rhs, w1, (ev_atom hat).2 rfl, h2⟩
    · rw [scVal_none_of_not_logical hop, logicalNonBool_false_of_not_logical hop]
      simp only [Bool.false_eq_true, if_false]
      exact rb_single
  constructor
  · intro h1
    have h2 : RB (Ev P l ρ w) (fun a w1 => RB (EvL P [rhs] ρ w1) (fun as w' r => ∃ b, as = [b] ∧
        match scVal op a with
        | some v => r = .ok v w'
        | none =>
          if logicalNonBool op a then r = .fail (.stuck "logical operator on a non-boolean") w'
          else r = exceptRes (binop op a b) w')) r :=
      RB.mono (fun _ h => h) (fun a w1 r hk => (key a w1 r).1 hk) h1
    refine RB.mono (fun _ h => h) ?_ (rb_first_list.1 h2)
    rintro vs w' r ⟨a, as, rfl, b, rfl, hk⟩
    exact ⟨a, b, rfl, hk⟩
  · intro h1
    have h2 : RB (EvL P (l :: [rhs]) ρ w) (fun vs w' r => ∃ a as, vs = a :: as ∧ ∃ b, as = [b] ∧
        match scVal op a with
        | some v => r = .ok v w'
        | none =>
          if logicalNonBool op a then r = .fail (.stuck "logical operator on a non-boolean") w'
          else r = exceptRes (binop op a b) w') r := by
      refine RB.mono (fun _ h => h) ?_ h1
      rintro vs w' r ⟨a, b, rfl, hk⟩
      exact ⟨a, [b], rfl, b, rfl, hk⟩
    exact RB.mono (fun _ h => h) (fun a w1 r hk => (key a w1 r).2 hk) (rb_first_list.2 h2)

/-! ### `dynCall` -/

/-- what happens once the receiver `v` and the arguments `as` have values -/
def dynHead (P : Prog) (tr m : String) (v : Val) (as : List Val) (w : World) (r : Res Val) : Prop :=
  match v with
  | .dyn _ key v0 => dynDispatch P tr m key v0 as w r
  | _ => r = .fail (.stuck "dyn call on a non-dyn value") w

def dynH (P : Prog) (tr m : String) (vs : List Val) (w : World) (r : Res Val) : Prop :=
  ∃ v as, vs = v :: as ∧ dynHead P tr m v as w r

def isDynVal : Val → Bool
  | .dyn _ _ _ => true
  | _ => false

theorem dynK_of_dyn {tr m : String} {args : List Expr} {ρ : Env} {v : Val} {w : World} {r : Res Val}
    (h : isDynVal v = true) :
    dynK P tr m args ρ v w r ↔ RB (EvL P args ρ w) (fun vs w2 => dynHead P tr m v vs w2) r := by
  cases v <;> simp [isDynVal] at h
  rfl

theorem dynK_of_not_dyn {tr m : String} {args : List Expr} {ρ : Env} {v : Val} {w : World} {r : Res Val}
    (h : isDynVal v = false) :
    dynK P tr m args ρ v w r ↔ r = .fail (.stuck "dyn call on a non-dyn value") w := by
  cases v <;> simp [isDynVal] at h <;> rfl

theorem dynHead_of_not_dyn {tr m : String} {v : Val} {as : List Val} {w : World} {r : Res Val}
    (h : isDynVal v = false) :
    dynHead P tr m v as w r ↔ r = .fail (.stuck "dyn call on a non-dyn value") w := by
  cases v <;> simp [isDynVal] at h <;> rfl

theorem dyn_src_fw {tr m : String} {ty : Ty} {recv : Expr} {args : List Expr} {ρ : Env} {w : World} {r : Res Val}
    (h : Ev P (.dynCall tr m ty recv args) ρ w r) (hs : ¬Stuck r) :
    RB (EvL P (recv :: args) ρ w) (dynH P tr m) r := by
  rcases ev_dynCall.1 h with ⟨f, w', h1, rfl⟩ | ⟨v, w1, h1, h2⟩
  · exact Or.inl ⟨f, w', evL_cons.2 (Or.inl ⟨f, w', h1, rfl⟩), rfl⟩
  · cases hd : isDynVal v
    · rw [dynK_of_not_dyn hd] at h2; subst h2; simp at hs
    · rw [dynK_of_dyn hd] at h2
      rcases h2 with ⟨f, w', h3, rfl⟩ | ⟨vs, w2, h3, h4⟩
      · exact Or.inl ⟨f, w', evL_cons.2 (Or.inr ⟨v, w1, h1, Or.inl ⟨f, w', h3, rfl⟩⟩), rfl⟩
      · exact Or.inr ⟨v :: vs, w2, evL_cons.2 (Or.inr ⟨v, w1, h1, Or.inr ⟨vs, w2, h3, rfl⟩⟩), v, vs, rfl, h4⟩

theorem dyn_src_bw {tr m : String} {ty : Ty} {recv : Expr} {args : List Expr} {ρ : Env} {w : World} {r : Res Val}
    (h : RB (EvL P (recv :: args) ρ w) (dynH P tr m) r) :
    Ev P (.dynCall tr m ty recv args) ρ w r ∨
      ∃ s w', Ev P (.dynCall tr m ty recv args) ρ w (.fail (.stuck s) w') := by
  rcases h with ⟨f, w', h1, rfl⟩ | ⟨vs, w2, h1, v, as, rfl, h2⟩
  · rcases evL_cons.1 h1 with ⟨f', w'', h3, h4⟩ | ⟨v, w1, h3, h4⟩
    · cases h4; exact Or.inl (ev_dynCall.2 (Or.inl ⟨f, w', h3, rfl⟩))
    · rcases h4 with ⟨f', w'', h5, h6⟩ | ⟨_, _, _, h6⟩
      · cases h6
        cases hd : isDynVal v
        · exact Or.inr ⟨_, w1, ev_dynCall.2 (Or.inr ⟨v, w1, h3, (dynK_of_not_dyn hd).2 rfl⟩)⟩
        · exact Or.inl (ev_dynCall.2 (Or.inr ⟨v, w1, h3, (dynK_of_dyn hd).2 (Or.inl ⟨f, w', h5, rfl⟩)⟩))
      · cases h6
  · rcases evL_cons.1 h1 with ⟨f', w'', _, h4⟩ | ⟨v', w1, h3, h4⟩
    · cases h4
    · rcases h4 with ⟨f', w'', _, h6⟩ | ⟨as', w2', h5, h6⟩
      · cases h6
      · cases h6
        cases hd : isDynVal v
        · exact Or.inr ⟨_, w1, ev_dynCall.2 (Or.inr ⟨v, w1, h3, (dynK_of_not_dyn hd).2 rfl⟩)⟩
        · exact Or.inl (ev_dynCall.2 (Or.inr ⟨v, w1, h3, (dynK_of_dyn hd).2 (Or.inr ⟨as, w2, h5, h2⟩)⟩))

/-- with atoms as operands the order of the receiver check and the arguments does not matter -/
theorem dyn_tgt {tr m : String} {ty : Ty} {recv : Expr} {args : List Expr} {ρ : Env} {w : World} {r : Res Val}
    (hr : isAtom recv = true) (ha : ∀ i ∈ args, isAtom i = true) :
    Ev P (.dynCall tr m ty recv args) ρ w r ↔ RB (EvL P (recv :: args) ρ w) (dynH P tr m) r := by
  have hall : ∀ i ∈ recv :: args, isAtom i = true := by
    intro i hi; simp only [List.mem_cons] at hi; rcases hi with rfl | hi
    · exact hr
    · exact ha i hi
  constructor
  · intro h
    rcases ev_dynCall.1 h with ⟨f, w', h1, _⟩ | ⟨v, w1, h1, h2⟩
    · rw [ev_atom hr] at h1; cases h1
    · rw [ev_atom hr] at h1; cases h1
      refine Or.inr ⟨_, w, (evL_atoms hall).2 rfl, atomVal ρ recv, args.map (atomVal ρ), by simp, ?_⟩
      cases hd : isDynVal (atomVal ρ recv)
      · rw [dynK_of_not_dyn hd] at h2; exact (dynHead_of_not_dyn hd).2 h2
      · rw [dynK_of_dyn hd] at h2
        rcases h2 with ⟨f, w', h3, _⟩ | ⟨vs, w2, h3, h4⟩
        · rw [evL_atoms ha] at h3; cases h3
        · rw [evL_atoms ha] at h3; cases h3; exact h4
  · rintro (⟨f, w', h1, _⟩ | ⟨vs, w2, h1, v, as, h2, h3⟩)
    · rw [evL_atoms hall] at h1; cases h1
    · rw [evL_atoms hall] at h1; cases h1
      simp only [List.map_cons, List.cons.injEq] at h2
      obtain ⟨rfl, rfl⟩ := h2
      refine ev_dynCall.2 (Or.inr ⟨_, w, (ev_atom hr).2 rfl, ?_⟩)
      cases hd : isDynVal (atomVal ρ recv)
      · exact (dynK_of_not_dyn hd).2 ((dynHead_of_not_dyn hd).1 h3)
      · exact (dynK_of_dyn hd).2 (Or.inr ⟨_, w, (evL_atoms ha).2 rfl, h3⟩)

end Goml.Anf
