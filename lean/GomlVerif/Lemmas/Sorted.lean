import GomlVerif.Model.Graph
import Mathlib.Data.String.Basic
/-!
Facts about `sorted` (ascending, duplicate-free): membership, strict sortedness, and uniqueness —
two lists with the same elements have the same `sorted` form.  Used by C13 (enumeration
invariance), C16 and the dependency-order theorem.
-/
namespace Goml.Graph

theorem mem_insertSet {a x : Pkg} {l : List Pkg} : x ∈ insertSet a l ↔ x = a ∨ x ∈ l := by
  induction l with
  | nil => simp [insertSet]
  | cons b bs ih =>
    simp only [insertSet]
    split
    · simp
    · split
      · rename_i h; subst h; simp
      · simp only [List.mem_cons, ih]; tauto

theorem mem_sorted {x : Pkg} {l : List Pkg} : x ∈ sorted l ↔ x ∈ l := by
  induction l with
  | nil => simp [sorted]
  | cons a as ih => simp [sorted, mem_insertSet, ih]

/-- strictly ascending -/
def Strict (l : List Pkg) : Prop := l.Pairwise (· < ·)

theorem strict_insertSet {a : Pkg} {l : List Pkg} (h : Strict l) : Strict (insertSet a l) := by
  induction l with
  | nil => simp [insertSet, Strict]
  | cons b bs ih =>
    have hb := (List.pairwise_cons.1 h)
    simp only [insertSet]
    split
    · rename_i hab
      refine List.pairwise_cons.2 ⟨?_, h⟩
      intro x hx
      rcases List.mem_cons.1 hx with rfl | hx
      · exact hab
      · exact lt_trans hab (hb.1 x hx)
    · split
      · exact h
      · rename_i hab hne
        have hba : b < a := lt_of_le_of_ne (not_lt.1 hab) (fun e => hne e.symm)
        refine List.pairwise_cons.2 ⟨?_, ih hb.2⟩
        intro x hx
        rcases mem_insertSet.1 hx with rfl | hx
        · exact hba
        · exact hb.1 x hx

theorem strict_sorted (l : List Pkg) : Strict (sorted l) := by
  induction l with
  | nil => simp [sorted, Strict]
  | cons a as ih => exact strict_insertSet ih

theorem strict_ext : ∀ {l₁ l₂ : List Pkg}, Strict l₁ → Strict l₂ → (∀ x, x ∈ l₁ ↔ x ∈ l₂) → l₁ = l₂
  | [], [], _, _, _ => rfl
  | [], b :: bs, _, _, h => by simpa using (h b).2 (by simp)
  | a :: as, [], _, _, h => by simpa using (h a).1 (by simp)
  | a :: as, b :: bs, h₁, h₂, h => by
    have p₁ := List.pairwise_cons.1 h₁
    have p₂ := List.pairwise_cons.1 h₂
    have hab : a = b := by
      rcases List.mem_cons.1 ((h a).1 (by simp)) with e | ha
      · exact e
      · rcases List.mem_cons.1 ((h b).2 (by simp)) with e | hb
        · exact e.symm
        · exact absurd (p₁.1 b hb) (lt_asymm (p₂.1 a ha))
    subst hab
    have : as = bs := by
      apply strict_ext p₁.2 p₂.2
      intro x
      constructor
      · intro hx
        rcases List.mem_cons.1 ((h x).1 (List.mem_cons_of_mem _ hx)) with e | hx'
        · exact absurd (e ▸ p₁.1 x hx) (lt_irrefl _)
        · exact hx'
      · intro hx
        rcases List.mem_cons.1 ((h x).2 (List.mem_cons_of_mem _ hx)) with e | hx'
        · exact absurd (e ▸ p₂.1 x hx) (lt_irrefl _)
        · exact hx'
    rw [this]

/-- `sorted` depends only on the set of elements: not on their order, not on repetitions -/
theorem sorted_ext {l₁ l₂ : List Pkg} (h : ∀ x, x ∈ l₁ ↔ x ∈ l₂) : sorted l₁ = sorted l₂ :=
  strict_ext (strict_sorted l₁) (strict_sorted l₂) (fun x => by rw [mem_sorted, mem_sorted, h x])

theorem sorted_perm {l₁ l₂ : List Pkg} (h : l₁.Perm l₂) : sorted l₁ = sorted l₂ :=
  sorted_ext (fun _ => h.mem_iff)

theorem nodup_sorted (l : List Pkg) : (sorted l).Nodup :=
  (strict_sorted l).imp (fun h => ne_of_lt h)

/-- on a duplicate-free list `sorted` is a sort: a permutation of its input -/
theorem sorted_perm_self {l : List Pkg} (h : l.Nodup) : (sorted l).Perm l :=
  (List.perm_ext_iff_of_nodup (nodup_sorted l) h).2 (fun _ => mem_sorted)

theorem sorted_idem (l : List Pkg) : sorted (sorted l) = sorted l :=
  sorted_ext (fun _ => mem_sorted)

theorem sorted_of_strict {l : List Pkg} (h : Strict l) : sorted l = l :=
  strict_ext (strict_sorted l) h (fun _ => mem_sorted)

end Goml.Graph
