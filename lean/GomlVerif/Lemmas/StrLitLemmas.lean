import GomlVerif.Model.StrLit
/-! unfolding lemmas and the escape/decode round trip for `Model/StrLit.lean` -/
namespace Goml.StrLit
open Goml.Gen.StrEscapes

theorem decodeF_nil (f : Nat) : decodeF f [] = some [] := by
  cases f <;> rfl

theorem decodeF_plain (f : Nat) (c : Char) (rest : List Char) (h : c ≠ '\\') :
    decodeF (f + 1) (c :: rest) = (decodeF f rest).map (c :: ·) := by
  rw [decodeF.eq_6] <;> simp_all

theorem decodeF_simple (f : Nat) (e : Char) (rest : List Char) (h : e ≠ 'u') :
    decodeF (f + 1) ('\\' :: e :: rest) =
      match simpleEscape e with
      | some c => (decodeF f rest).map (c :: ·)
      | none => none := by
  rw [decodeF.eq_4 _ _ _ (fun _ _ _ _ _ hh _ => h hh)]
  cases simpleEscape e <;> rfl

theorem acceptsF_nil (f : Nat) : acceptsF f [] = true := by
  cases f <;> rfl

theorem acceptsF_plain (f : Nat) (c : Char) (rest : List Char) (h : c ≠ '\\') :
    acceptsF (f + 1) (c :: rest) = (c != '"' && c != '\\' && decide (32 ≤ c.toNat) && acceptsF f rest) := by
  rw [acceptsF.eq_5] <;> simp_all

theorem acceptsF_simple (f : Nat) (e : Char) (rest : List Char) (h : e ≠ 'u') :
    acceptsF (f + 1) ('\\' :: e :: rest) = (lexEscape e && acceptsF f rest) := by
  rw [acceptsF.eq_4 _ _ _ (fun _ _ _ _ _ hh _ => h hh)]

theorem hex4_control : ∀ n, n < 32 →
    hex4 '0' '0' (hexDigit (n / 16)) (hexDigit (n % 16)) = some n := by decide

theorem isHigh_iff (n : Nat) : isHighSurrogate n = true ↔ (0xD800 ≤ n ∧ n < 0xDC00) := by
  unfold isHighSurrogate
  rw [Bool.and_eq_true, decide_eq_true_iff, decide_eq_true_iff]
  exact Iff.rfl
theorem isLow_iff (n : Nat) : isLowSurrogate n = true ↔ (0xDC00 ≤ n ∧ n < 0xE000) := by
  unfold isLowSurrogate
  rw [Bool.and_eq_true, decide_eq_true_iff, decide_eq_true_iff]
  exact Iff.rfl
theorem isHigh_false (n : Nat) (h : n < 0xD800 ∨ 0xDC00 ≤ n) : isHighSurrogate n = false := by
  cases hb : isHighSurrogate n with
  | false => rfl
  | true => have := (isHigh_iff n).mp hb; omega
theorem isLow_false (n : Nat) (h : n < 0xDC00 ∨ 0xE000 ≤ n) : isLowSurrogate n = false := by
  cases hb : isLowSurrogate n with
  | false => rfl
  | true => have := (isLow_iff n).mp hb; omega
theorem scalar_some (n : Nat) (h : n < 0xD800 ∨ (0xDFFF < n ∧ n < 0x110000)) : scalar? n = some (Char.ofNat n) := by
  unfold scalar?; rw [if_pos h]
theorem scalar_none (n : Nat) (h : ¬ (n < 0xD800 ∨ (0xDFFF < n ∧ n < 0x110000))) : scalar? n = none := by
  unfold scalar?; rw [if_neg h]

theorem control_not_surrogate (n : Nat) (h : n < 32) : isHighSurrogate n = false ∧ isLowSurrogate n = false :=
  ⟨isHigh_false n (by omega), isLow_false n (by omega)⟩

/-! ### one `\u` escape -/

theorem decodeF_u (f : Nat) (a b c d : Char) (rest : List Char) :
    decodeF (f + 1) ('\\' :: 'u' :: a :: b :: c :: d :: rest) =
      match readU a b c d rest with
      | some (ch, rest') => (decodeF f rest').map (ch :: ·)
      | none => none := by
  rw [decodeF.eq_3]
  rcases readU a b c d rest with _ | ⟨ch, r⟩ <;> rfl

theorem char_valid (c : Char) : c.toNat < 0xD800 ∨ (0xDFFF < c.toNat ∧ c.toNat < 0x110000) := c.valid

theorem scalar_of_char (c : Char) : scalar? c.toNat = some c := by
  rw [scalar_some _ (char_valid c), Char.ofNat_toNat]

theorem char_not_surrogate (c : Char) : isHighSurrogate c.toNat = false ∧ isLowSurrogate c.toNat = false := by
  have := char_valid c
  exact ⟨isHigh_false _ (by omega), isLow_false _ (by omega)⟩

/-- the generated recombination arithmetic is the UTF-16 formula on the whole range of pairs,
and its value is a supplementary-plane scalar value -/
theorem combine_spec (hi lo : Nat) (h1 : highLo ≤ hi) (h2 : hi < highHi) (h3 : lowLo ≤ lo) (h4 : lo < lowHi) :
    combine hi lo = 0x10000 + (hi - 0xD800) * 0x400 + (lo - 0xDC00) ∧
      0x10000 ≤ combine hi lo ∧ combine hi lo ≤ 0x10FFFF := by
  simp only [highLo, highHi, lowLo, lowHi] at h1 h2 h3 h4
  unfold combine
  rw [Nat.shiftLeft_eq]
  have : (2 : Nat) ^ 10 = 1024 := by decide
  rw [this]
  refine ⟨?_, ?_, ?_⟩ <;> omega

/-- a BMP escape that is not a surrogate denotes its code point -/
theorem readU_bmp (a b c d : Char) (rest : List Char) (n : Nat) (h : hex4 a b c d = some n)
    (hs : n < 0xD800 ∨ 0xDFFF < n) (hb : n < 0x10000) :
    readU a b c d rest = some (Char.ofNat n, rest) := by
  have h1 : isHighSurrogate n = false := isHigh_false n (by omega)
  have h2 : scalar? n = some (Char.ofNat n) := scalar_some n (by omega)
  simp [readU, h, h1, h2]

/-- **surrogate pairs**: for every high surrogate `hi` and every low surrogate `lo`, however their
hexadecimal digits are spelled, the pair of escapes denotes exactly the scalar value
`0x10000 + (hi - 0xD800) * 0x400 + (lo - 0xDC00)` -/
theorem readU_pair (a b c d a' b' c' d' : Char) (rest : List Char) (hi lo : Nat)
    (hh : hex4 a b c d = some hi) (hl : hex4 a' b' c' d' = some lo)
    (h1 : 0xD800 ≤ hi) (h2 : hi < 0xDC00) (h3 : 0xDC00 ≤ lo) (h4 : lo < 0xE000) :
    readU a b c d ('\\' :: 'u' :: a' :: b' :: c' :: d' :: rest) =
      some (Char.ofNat (0x10000 + (hi - 0xD800) * 0x400 + (lo - 0xDC00)), rest) := by
  have hsp := combine_spec hi lo (by simpa [highLo] using h1) (by simpa [highHi] using h2)
    (by simpa [lowLo] using h3) (by simpa [lowHi] using h4)
  have i1 : isHighSurrogate hi = true := (isHigh_iff hi).mpr ⟨h1, h2⟩
  have i2 : isLowSurrogate lo = true := (isLow_iff lo).mpr ⟨h3, h4⟩
  have i3 : scalar? (combine hi lo) = some (Char.ofNat (combine hi lo)) := scalar_some _ (by omega)
  simp only [readU, hh, hl, i1, i2, i3, if_true, Option.map_some]
  rw [hsp.1]

/-- a high surrogate that is not followed by a low-surrogate escape denotes nothing -/
theorem readU_lone_high (a b c d : Char) (rest : List Char) (hi : Nat) (hh : hex4 a b c d = some hi)
    (h1 : 0xD800 ≤ hi) (h2 : hi < 0xDC00)
    (hrest : ∀ a' b' c' d' r lo, rest = '\\' :: 'u' :: a' :: b' :: c' :: d' :: r → hex4 a' b' c' d' = some lo →
      ¬ (0xDC00 ≤ lo ∧ lo < 0xE000)) :
    readU a b c d rest = none := by
  have i1 : isHighSurrogate hi = true := (isHigh_iff hi).mpr ⟨h1, h2⟩
  simp only [readU, hh, i1, if_true]
  split
  · rename_i a' b' c' d' r
    cases hl : hex4 a' b' c' d' with
    | none => rfl
    | some lo =>
      have := hrest a' b' c' d' r lo rfl hl
      have i2 : isLowSurrogate lo = false := isLow_false lo (by omega)
      simp [i2]
  · rfl

/-- a low surrogate that does not follow a high one denotes nothing -/
theorem readU_lone_low (a b c d : Char) (rest : List Char) (lo : Nat) (hl : hex4 a b c d = some lo)
    (h3 : 0xDC00 ≤ lo) (h4 : lo < 0xE000) : readU a b c d rest = none := by
  have i1 : isHighSurrogate lo = false := isHigh_false lo (by omega)
  have i3 : scalar? lo = none := scalar_none lo (by omega)
  simp [readU, hl, i1, i3]

/-- decoding one escaped character -/
theorem decodeF_escapeChar (f : Nat) (c : Char) (rest : List Char) :
    decodeF (f + 1) (escapeChar c ++ rest) = (decodeF f rest).map (c :: ·) := by
  unfold escapeChar
  split
  · rename_i h; subst h; rw [List.cons_append, List.cons_append, decodeF_simple _ _ _ (by decide)]; rfl
  split
  · rename_i h; subst h; rw [List.cons_append, List.cons_append, decodeF_simple _ _ _ (by decide)]; rfl
  split
  · rename_i h; subst h; rw [List.cons_append, List.cons_append, decodeF_simple _ _ _ (by decide)]; rfl
  split
  · rename_i h; subst h; rw [List.cons_append, List.cons_append, decodeF_simple _ _ _ (by decide)]; rfl
  split
  · rename_i h; subst h; rw [List.cons_append, List.cons_append, decodeF_simple _ _ _ (by decide)]; rfl
  split
  · rename_i hc
    simp only [List.cons_append, List.nil_append]
    rw [decodeF_u, readU_bmp _ _ _ _ _ c.toNat (hex4_control c.toNat hc) (by omega) (by omega)]
    simp only [Char.ofNat_toNat]
  · rename_i h1 h2 _ _ _ _
    exact decodeF_plain f c rest h2

theorem length_escapeChar_pos (c : Char) : 1 ≤ (escapeChar c).length := by
  unfold escapeChar
  repeat' split
  all_goals simp

theorem decodeF_escape : ∀ (s : List Char) (f : Nat), (escape s).length ≤ f → decodeF f (escape s) = some s := by
  intro s
  induction s with
  | nil => intro f _; exact decodeF_nil f
  | cons c cs ih =>
    intro f hf
    simp only [escape, List.length_append] at hf
    have := length_escapeChar_pos c
    obtain ⟨f, rfl⟩ : ∃ f', f = f' + 1 := ⟨f - 1, by omega⟩
    rw [escape, decodeF_escapeChar, ih f (by omega)]
    rfl

theorem acceptsF_escapeChar (f : Nat) (c : Char) (rest : List Char) :
    acceptsF (f + 1) (escapeChar c ++ rest) = acceptsF f rest := by
  unfold escapeChar
  split
  · rename_i h; subst h; rw [List.cons_append, List.cons_append, acceptsF_simple _ _ _ (by decide)]; rfl
  split
  · rename_i h; subst h; rw [List.cons_append, List.cons_append, acceptsF_simple _ _ _ (by decide)]; rfl
  split
  · rename_i h; subst h; rw [List.cons_append, List.cons_append, acceptsF_simple _ _ _ (by decide)]; rfl
  split
  · rename_i h; subst h; rw [List.cons_append, List.cons_append, acceptsF_simple _ _ _ (by decide)]; rfl
  split
  · rename_i h; subst h; rw [List.cons_append, List.cons_append, acceptsF_simple _ _ _ (by decide)]; rfl
  split
  · rename_i hc
    simp only [List.cons_append, List.nil_append]
    rw [acceptsF.eq_3]
    simp [hex4_control c.toNat hc]
  · rename_i h1 h2 _ _ _ hc
    rw [List.cons_append, List.nil_append, acceptsF_plain f c rest h2]
    have : 32 ≤ c.toNat := by omega
    simp [h1, h2, this]

theorem acceptsF_escape : ∀ (s : List Char) (f : Nat), (escape s).length ≤ f → acceptsF f (escape s) = true := by
  intro s
  induction s with
  | nil => intro f _; exact acceptsF_nil f
  | cons c cs ih =>
    intro f hf
    simp only [escape, List.length_append] at hf
    have := length_escapeChar_pos c
    obtain ⟨f, rfl⟩ : ∃ f', f = f' + 1 := ⟨f - 1, by omega⟩
    rw [escape, acceptsF_escapeChar, ih f (by omega)]

theorem decodeF_noBackslash : ∀ (s : List Char) (f : Nat), s.length ≤ f → (∀ c, c ∈ s → c ≠ '\\') →
    decodeF f s = some s := by
  intro s
  induction s with
  | nil => intro f _ _; exact decodeF_nil f
  | cons c cs ih =>
    intro f hf h
    obtain ⟨f, rfl⟩ : ∃ f', f = f' + 1 := ⟨f - 1, by simp at hf; omega⟩
    rw [decodeF_plain f c cs (h c (List.mem_cons_self ..)),
      ih f (by simp at hf; omega) (fun d hd => h d (List.mem_cons_of_mem _ hd))]
    rfl

/-! ### the all-`\u` encoder -/

theorem hexDigit_ok : ∀ k, k < 16 → isHex (hexDigit k) = true ∧ hexVal (hexDigit k) = k := by decide

theorem hex4_hex4s (n : Nat) (h : n < 65536) :
    hex4 (hexDigit (n / 4096 % 16)) (hexDigit (n / 256 % 16)) (hexDigit (n / 16 % 16)) (hexDigit (n % 16)) = some n := by
  have h3 := hexDigit_ok (n / 4096 % 16) (by omega)
  have h2 := hexDigit_ok (n / 256 % 16) (by omega)
  have h1 := hexDigit_ok (n / 16 % 16) (by omega)
  have h0 := hexDigit_ok (n % 16) (by omega)
  unfold hex4
  rw [h3.1, h3.2, h2.1, h2.2, h1.1, h1.2, h0.1, h0.2]
  simp only [Bool.and_self, if_true, Option.some.injEq]
  omega

theorem decodeF_escapeU (f : Nat) (c : Char) (rest : List Char) :
    decodeF (f + 1) (escapeU c ++ rest) = (decodeF f rest).map (c :: ·) := by
  have hv := char_valid c
  unfold escapeU
  split
  · rename_i hb
    simp only [uesc, hex4s, List.cons_append, List.nil_append]
    rw [decodeF_u, readU_bmp _ _ _ _ _ c.toNat (hex4_hex4s _ hb) (by omega) hb]
    simp only [Char.ofNat_toNat]
  · rename_i hb
    simp only [uesc, hex4s, List.cons_append, List.nil_append]
    rw [decodeF_u, readU_pair _ _ _ _ _ _ _ _ _ _ _ (hex4_hex4s _ (by omega)) (hex4_hex4s _ (by omega))
      (by omega) (by omega) (by omega) (by omega)]
    have : 0x10000 + (0xD800 + (c.toNat - 0x10000) / 0x400 - 0xD800) * 0x400 +
        (0xDC00 + (c.toNat - 0x10000) % 0x400 - 0xDC00) = c.toNat := by omega
    simp only [this, Char.ofNat_toNat]

theorem length_escapeU_pos (c : Char) : 1 ≤ (escapeU c).length := by
  unfold escapeU; split <;> simp [uesc, hex4s]

/-- decode ∘ (encode everything as `\u` escapes, pairs above U+FFFF) = id -/
theorem decodeF_escapeAllU : ∀ (s : List Char) (f : Nat), (escapeAllU s).length ≤ f →
    decodeF f (escapeAllU s) = some s := by
  intro s
  induction s with
  | nil => intro f _; exact decodeF_nil f
  | cons c cs ih =>
    intro f hf
    simp only [escapeAllU, List.length_append] at hf
    have := length_escapeU_pos c
    obtain ⟨f, rfl⟩ : ∃ f', f = f' + 1 := ⟨f - 1, by omega⟩
    rw [escapeAllU, decodeF_escapeU, ih f (by omega)]
    rfl

theorem acceptsF_uesc (f n : Nat) (rest : List Char) (h : n < 65536) :
    acceptsF (f + 1) (uesc n ++ rest) = acceptsF f rest := by
  simp only [uesc, hex4s, List.cons_append, List.nil_append]
  rw [acceptsF.eq_3, hex4_hex4s n h]
  rfl

theorem acceptsF_escapeAllU : ∀ (s : List Char) (f : Nat), (escapeAllU s).length ≤ f →
    acceptsF f (escapeAllU s) = true := by
  intro s
  induction s with
  | nil => intro f _; exact acceptsF_nil f
  | cons c cs ih =>
    intro f hf
    have hv := char_valid c
    simp only [escapeAllU, List.length_append] at hf
    rw [escapeAllU]
    unfold escapeU at hf ⊢
    split
    · rename_i hb
      rw [if_pos hb] at hf
      simp only [uesc, hex4s, List.length_cons, List.length_nil] at hf
      obtain ⟨f, rfl⟩ : ∃ f', f = f' + 1 := ⟨f - 1, by omega⟩
      rw [acceptsF_uesc _ _ _ hb]
      exact ih f (by omega)
    · rename_i hb
      rw [if_neg hb] at hf
      simp only [uesc, hex4s, List.length_cons, List.length_nil, List.length_append] at hf
      obtain ⟨f, rfl⟩ : ∃ f', f = f' + 2 := ⟨f - 2, by omega⟩
      rw [List.append_assoc, acceptsF_uesc _ _ _ (by omega), acceptsF_uesc _ _ _ (by omega)]
      exact ih f (by omega)

/-! ### multi-line strings -/

theorem splitLines_ne_nil (s : List Char) : splitLines s ≠ [] := by
  induction s with
  | nil => simp [splitLines]
  | cons c rest ih =>
    simp only [splitLines]
    split
    · simp
    · split <;> simp

theorem splitLines_noNL (a : List Char) (h : ∀ c, c ∈ a → c ≠ '\n') : splitLines a = [a] := by
  induction a with
  | nil => rfl
  | cons c rest ih =>
    have hc := h c (List.mem_cons_self ..)
    simp [splitLines, hc, ih (fun d hd => h d (List.mem_cons_of_mem _ hd))]

theorem splitLines_append (a r : List Char) (h : ∀ c, c ∈ a → c ≠ '\n') :
    splitLines (a ++ '\n' :: r) = a :: splitLines r := by
  induction a with
  | nil => simp [splitLines]
  | cons c rest ih =>
    have hc := h c (List.mem_cons_self ..)
    simp [splitLines, hc, ih (fun d hd => h d (List.mem_cons_of_mem _ hd))]

def endsCR : List Char → Bool
  | [] => false
  | ['\r'] => true
  | _ :: rest => endsCR rest

theorem dropCR_id (l : List Char) (h : endsCR l = false) : dropCR l = l := by
  induction l with
  | nil => rfl
  | cons c rest ih =>
    cases rest with
    | nil =>
      by_cases hc : c = '\r'
      · subst hc; simp [endsCR] at h
      · simp [dropCR, hc]
    | cons d rest' =>
      have : endsCR (d :: rest') = false := by
        simpa [endsCR] using h
      simp [dropCR, ih this]

theorem endsCR_append_cons (a : List Char) (c : Char) (l : List Char) :
    endsCR (a ++ c :: l) = endsCR (c :: l) := by
  induction a with
  | nil => rfl
  | cons d rest ih =>
    cases hr : rest ++ c :: l with
    | nil => simp at hr
    | cons e r' => simp [List.cons_append, hr, endsCR, ← ih]

theorem trimStart_blanks (ind rest : List Char) (h : ∀ c, c ∈ ind → c = ' ' ∨ c = '\t') :
    trimStart (ind ++ '\\' :: rest) = '\\' :: rest := by
  induction ind with
  | nil => simp [trimStart]
  | cons c r ih =>
    have hc := h c (List.mem_cons_self ..)
    have ih' := ih (fun d hd => h d (List.mem_cons_of_mem _ hd))
    rcases hc with hc | hc <;> subst hc <;> simp [trimStart, ih']

/-- conditions on one line of a multi-line literal: blanks before the marker, no line break in the
content, no carriage return at its end (a final `\r` belongs to the line terminator) -/
def LineOK (p : List Char × List Char) : Prop :=
  (∀ c, c ∈ p.1 → c = ' ' ∨ c = '\t') ∧ (∀ c, c ∈ p.2 → c ≠ '\n') ∧
    endsCR ('\\' :: p.2) = false

theorem spellLine_noNL (p : List Char × List Char) (h : LineOK p) :
    ∀ c, c ∈ spellLine p.1 p.2 → c ≠ '\n' := by
  intro c hc
  simp only [spellLine, List.mem_append, List.mem_cons] at hc
  rcases hc with hc | hc | hc | hc
  · rcases h.1 c hc with h | h <;> subst h <;> decide
  · subst hc; decide
  · subst hc; decide
  · exact h.2.1 c hc

theorem lowerLine (p : List Char × List Char) (h : LineOK p) :
    stripMarker (trimStart (dropCR (spellLine p.1 p.2))) = some p.2 := by
  have hcr : endsCR (spellLine p.1 p.2) = false := by
    rw [spellLine, endsCR_append_cons]
    have := h.2.2
    cases hp : p.2 with
    | nil => simp [endsCR]
    | cons d r => rw [hp] at this; simpa [endsCR] using this
  rw [dropCR_id _ hcr, spellLine, trimStart_blanks _ _ h.1]
  rfl

theorem splitLines_spell : ∀ (ls : List (List Char × List Char)), ls ≠ [] → (∀ p, p ∈ ls → LineOK p) →
    splitLines (spellLines ls) = ls.map (fun p => spellLine p.1 p.2) := by
  intro ls
  induction ls with
  | nil => intro h; exact absurd rfl h
  | cons p rest ih =>
    intro _ hok
    have hp := hok p (List.mem_cons_self ..)
    cases rest with
    | nil =>
      obtain ⟨i, l⟩ := p
      simp only [spellLines, List.map]
      exact splitLines_noNL _ (spellLine_noNL (i, l) hp)
    | cons q rest' =>
      obtain ⟨i, l⟩ := p
      simp only [spellLines, List.map_cons]
      rw [splitLines_append _ _ (spellLine_noNL (i, l) hp)]
      have := ih (by simp) (fun r hr => hok r (List.mem_cons_of_mem _ hr))
      simp only [List.map_cons] at this
      rw [this]

theorem dropLastEmpty_id : ∀ (ls : List (List Char)), (∀ l, l ∈ ls → l ≠ []) → dropLastEmpty ls = ls := by
  intro ls
  induction ls with
  | nil => intro _; rfl
  | cons l rest ih =>
    intro h
    have hl := h l (List.mem_cons_self ..)
    cases l with
    | nil => exact absurd rfl hl
    | cons c l' =>
      cases rest with
      | nil => rfl
      | cons m rest' =>
        simp only [dropLastEmpty]
        rw [ih (fun x hx => h x (List.mem_cons_of_mem _ hx))]

theorem mapM_lines : ∀ (ls : List (List Char × List Char)), (∀ p, p ∈ ls → LineOK p) →
    mapM? (fun l => stripMarker (trimStart (dropCR l))) (ls.map (fun p => spellLine p.1 p.2)) =
      some (ls.map (·.2)) := by
  intro ls
  induction ls with
  | nil => intro _; rfl
  | cons p rest ih =>
    intro h
    simp only [List.map_cons, mapM?, lowerLine p (h p (List.mem_cons_self ..)),
      ih (fun q hq => h q (List.mem_cons_of_mem _ hq))]

theorem lowerMultiline_spell (ls : List (List Char × List Char)) (hne : ls ≠ [])
    (hok : ∀ p, p ∈ ls → LineOK p) :
    lowerMultiline (spellLines ls) = some (joinLines (ls.map (·.2))) := by
  unfold lowerMultiline
  rw [splitLines_spell ls hne hok, dropLastEmpty_id, mapM_lines ls hok]
  · rfl
  · intro l hl
    simp only [List.mem_map] at hl
    obtain ⟨p, _, rfl⟩ := hl
    simp [spellLine]

end Goml.StrLit
