import GomlVerif.Model.StrLit
/-! unfolding lemmas and the escape/decode round trip for `Model/StrLit.lean` -/
namespace Goml.StrLit

theorem decodeF_nil (f : Nat) : decodeF f [] = some [] := by
  cases f <;> rfl

theorem decodeF_plain (f : Nat) (c : Char) (rest : List Char) (h : c ≠ '\\') :
    decodeF (f + 1) (c :: rest) = (decodeF f rest).map (c :: ·) := by
  rw [decodeF.eq_6] <;> simp_all

theorem decodeF_simple (f : Nat) (e : Char) (rest : List Char) (h : e ≠ 'u') :
    decodeF (f + 1) ('\\' :: e :: rest) =
      match simpleEscape e with
      | some c => (decodeF f rest).map (c :: ·)
      | none => none := by
  rw [decodeF.eq_4 _ _ _ (fun _ _ _ _ _ hh _ => h hh)]
  cases simpleEscape e <;> rfl

theorem acceptsF_nil (f : Nat) : acceptsF f [] = true := by
  cases f <;> rfl

theorem acceptsF_plain (f : Nat) (c : Char) (rest : List Char) (h : c ≠ '\\') :
    acceptsF (f + 1) (c :: rest) = (c != '"' && c != '\\' && decide (32 ≤ c.toNat) && acceptsF f rest) := by
  rw [acceptsF.eq_5] <;> simp_all

theorem acceptsF_simple (f : Nat) (e : Char) (rest : List Char) (h : e ≠ 'u') :
    acceptsF (f + 1) ('\\' :: e :: rest) = ((simpleEscape e).isSome && acceptsF f rest) := by
  rw [acceptsF.eq_4 _ _ _ (fun _ _ _ _ _ hh _ => h hh)]

theorem hex4_control : ∀ n, n < 32 →
    hex4 '0' '0' (hexDigit (n / 16)) (hexDigit (n % 16)) = some n := by decide

theorem control_not_surrogate (n : Nat) (h : n < 32) : isHighSurrogate n = false ∧ isLowSurrogate n = false := by
  simp [isHighSurrogate, isLowSurrogate]; omega

/-- decoding one escaped character -/
theorem decodeF_escapeChar (f : Nat) (c : Char) (rest : List Char) :
    decodeF (f + 1) (escapeChar c ++ rest) = (decodeF f rest).map (c :: ·) := by
  unfold escapeChar
  split
  · rename_i h; subst h; rw [List.cons_append, List.cons_append, decodeF_simple _ _ _ (by decide)]; rfl
  split
  · rename_i h; subst h; rw [List.cons_append, List.cons_append, decodeF_simple _ _ _ (by decide)]; rfl
  split
  · rename_i h; subst h; rw [List.cons_append, List.cons_append, decodeF_simple _ _ _ (by decide)]; rfl
  split
  · rename_i h; subst h; rw [List.cons_append, List.cons_append, decodeF_simple _ _ _ (by decide)]; rfl
  split
  · rename_i h; subst h; rw [List.cons_append, List.cons_append, decodeF_simple _ _ _ (by decide)]; rfl
  split
  · rename_i hc
    simp only [List.cons_append, List.nil_append]
    rw [decodeF.eq_3]
    simp only [hex4_control c.toNat hc, (control_not_surrogate c.toNat hc).1,
      (control_not_surrogate c.toNat hc).2, Bool.false_eq_true, if_false, Char.ofNat_toNat]
  · rename_i h1 h2 _ _ _ _
    exact decodeF_plain f c rest h2

theorem length_escapeChar_pos (c : Char) : 1 ≤ (escapeChar c).length := by
  unfold escapeChar
  repeat' split
  all_goals simp

theorem decodeF_escape : ∀ (s : List Char) (f : Nat), (escape s).length ≤ f → decodeF f (escape s) = some s := by
  intro s
  induction s with
  | nil => intro f _; exact decodeF_nil f
  | cons c cs ih =>
    intro f hf
    simp only [escape, List.length_append] at hf
    have := length_escapeChar_pos c
    obtain ⟨f, rfl⟩ : ∃ f', f = f' + 1 := ⟨f - 1, by omega⟩
    rw [escape, decodeF_escapeChar, ih f (by omega)]
    rfl

theorem acceptsF_escapeChar (f : Nat) (c : Char) (rest : List Char) :
    acceptsF (f + 1) (escapeChar c ++ rest) = acceptsF f rest := by
  unfold escapeChar
  split
  · rename_i h; subst h; rw [List.cons_append, List.cons_append, acceptsF_simple _ _ _ (by decide)]; rfl
  split
  · rename_i h; subst h; rw [List.cons_append, List.cons_append, acceptsF_simple _ _ _ (by decide)]; rfl
  split
  · rename_i h; subst h; rw [List.cons_append, List.cons_append, acceptsF_simple _ _ _ (by decide)]; rfl
  split
  · rename_i h; subst h; rw [List.cons_append, List.cons_append, acceptsF_simple _ _ _ (by decide)]; rfl
  split
  · rename_i h; subst h; rw [List.cons_append, List.cons_append, acceptsF_simple _ _ _ (by decide)]; rfl
  split
  · rename_i hc
    simp only [List.cons_append, List.nil_append]
    rw [acceptsF.eq_3]
    simp [hex4_control c.toNat hc]
  · rename_i h1 h2 _ _ _ hc
    rw [List.cons_append, List.nil_append, acceptsF_plain f c rest h2]
    have : 32 ≤ c.toNat := by omega
    simp [h1, h2, this]

theorem acceptsF_escape : ∀ (s : List Char) (f : Nat), (escape s).length ≤ f → acceptsF f (escape s) = true := by
  intro s
  induction s with
  | nil => intro f _; exact acceptsF_nil f
  | cons c cs ih =>
    intro f hf
    simp only [escape, List.length_append] at hf
    have := length_escapeChar_pos c
    obtain ⟨f, rfl⟩ : ∃ f', f = f' + 1 := ⟨f - 1, by omega⟩
    rw [escape, acceptsF_escapeChar, ih f (by omega)]

theorem decodeF_noBackslash : ∀ (s : List Char) (f : Nat), s.length ≤ f → (∀ c, c ∈ s → c ≠ '\\') →
    decodeF f s = some s := by
  intro s
  induction s with
  | nil => intro f _ _; exact decodeF_nil f
  | cons c cs ih =>
    intro f hf h
    obtain ⟨f, rfl⟩ : ∃ f', f = f' + 1 := ⟨f - 1, by simp at hf; omega⟩
    rw [decodeF_plain f c cs (h c (List.mem_cons_self ..)),
      ih f (by simp at hf; omega) (fun d hd => h d (List.mem_cons_of_mem _ hd))]
    rfl

end Goml.StrLit
