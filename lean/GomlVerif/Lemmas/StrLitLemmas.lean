import GomlVerif.Model.StrLit
/-! unfolding lemmas and the escape/decode round trip for `Model/StrLit.lean` -/
namespace Goml.StrLit

theorem decodeF_nil (f : Nat) : decodeF f [] = some [] := by
  cases f <;> rfl

theorem decodeF_plain (f : Nat) (c : Char) (rest : List Char) (h : c ≠ '\\') :
    decodeF (f + 1) (c :: rest) = (decodeF f rest).map (c :: ·) := by
  rw [decodeF.eq_6] <;> simp_all

theorem decodeF_simple (f : Nat) (e : Char) (rest : List Char) (h : e ≠ 'u') :
    decodeF (f + 1) ('\\' :: e :: rest) =
      match simpleEscape e with
      | some c => (decodeF f rest).map (c :: ·)
      | none => none := by
  rw [decodeF.eq_4 _ _ _ (fun _ _ _ _ _ hh _ => h hh)]
  cases simpleEscape e <;> rfl

theorem acceptsF_nil (f : Nat) : acceptsF f [] = true := by
  cases f <;> rfl

theorem acceptsF_plain (f : Nat) (c : Char) (rest : List Char) (h : c ≠ '\\') :
    acceptsF (f + 1) (c :: rest) = (c != '"' && c != '\\' && decide (32 ≤ c.toNat) && acceptsF f rest) := by
  rw [acceptsF.eq_5] <;> simp_all

theorem acceptsF_simple (f : Nat) (e : Char) (rest : List Char) (h : e ≠ 'u') :
    acceptsF (f + 1) ('\\' :: e :: rest) = ((simpleEscape e).isSome && acceptsF f rest) := by
  rw [acceptsF.eq_4 _ _ _ (fun _ _ _ _ _ hh _ => h hh)]

theorem hex4_control : ∀ n, n < 32 →
    hex4 '0' '0' (hexDigit (n / 16)) (hexDigit (n % 16)) = some n := by decide

theorem control_not_surrogate (n : Nat) (h : n < 32) : isHighSurrogate n = false ∧ isLowSurrogate n = false := by
  simp [isHighSurrogate, isLowSurrogate]; omega

/-- decoding one escaped character -/
theorem decodeF_escapeChar (f : Nat) (c : Char) (rest : List Char) :
    decodeF (f + 1) (escapeChar c ++ rest) = (decodeF f rest).map (c :: ·) := by
  unfold escapeChar
  split
  · rename_i h; subst h; rw [List.cons_append, List.cons_append, decodeF_simple _ _ _ (by decide)]; rfl
  split
  · rename_i h; subst h; rw [List.cons_append, List.cons_append, decodeF_simple _ _ _ (by decide)]; rfl
  split
  · rename_i h; subst h; rw [List.cons_append, List.cons_append, decodeF_simple _ _ _ (by decide)]; rfl
  split
  · rename_i h; subst h; rw [List.cons_append, List.cons_append, decodeF_simple _ _ _ (by decide)]; rfl
  split
  · rename_i h; subst h; rw [List.cons_append, List.cons_append, decodeF_simple _ _ _ (by decide)]; rfl
  split
  · rename_i hc
    simp only [List.cons_append, List.nil_append]
    rw [decodeF.eq_3]
    simp only [hex4_control c.toNat hc, (control_not_surrogate c.toNat hc).1,
      (control_not_surrogate c.toNat hc).2, Bool.false_eq_true, if_false, Char.ofNat_toNat]
  · rename_i h1 h2 _ _ _ _
    exact decodeF_plain f c rest h2

theorem length_escapeChar_pos (c : Char) : 1 ≤ (escapeChar c).length := by
  unfold escapeChar
  repeat' split
  all_goals simp

theorem decodeF_escape : ∀ (s : List Char) (f : Nat), (escape s).length ≤ f → decodeF f (escape s) = some s := by
  intro s
  induction s with
  | nil => intro f _; exact decodeF_nil f
  | cons c cs ih =>
    intro f hf
    simp only [escape, List.length_append] at hf
    have := length_escapeChar_pos c
    obtain ⟨f, rfl⟩ : ∃ f', f = f' + 1 := ⟨f - 1, by omega⟩
    rw [escape, decodeF_escapeChar, ih f (by omega)]
    rfl

theorem acceptsF_escapeChar (f : Nat) (c : Char) (rest : List Char) :
    acceptsF (f + 1) (escapeChar c ++ rest) = acceptsF f rest := by
  unfold escapeChar
  split
  · rename_i h; subst h; rw [List.cons_append, List.cons_append, acceptsF_simple _ _ _ (by decide)]; rfl
  split
  · rename_i h; subst h; rw [List.cons_append, List.cons_append, acceptsF_simple _ _ _ (by decide)]; rfl
  split
  · rename_i h; subst h; rw [List.cons_append, List.cons_append, acceptsF_simple _ _ _ (by decide)]; rfl
  split
  · rename_i h; subst h; rw [List.cons_append, List.cons_append, acceptsF_simple _ _ _ (by decide)]; rfl
  split
  · rename_i h; subst h; rw [List.cons_append, List.cons_append, acceptsF_simple _ _ _ (by decide)]; rfl
  split
  · rename_i hc
    simp only [List.cons_append, List.nil_append]
    rw [acceptsF.eq_3]
    simp [hex4_control c.toNat hc]
  · rename_i h1 h2 _ _ _ hc
    rw [List.cons_append, List.nil_append, acceptsF_plain f c rest h2]
    have : 32 ≤ c.toNat := by omega
    simp [h1, h2, this]

theorem acceptsF_escape : ∀ (s : List Char) (f : Nat), (escape s).length ≤ f → acceptsF f (escape s) = true := by
  intro s
  induction s with
  | nil => intro f _; exact acceptsF_nil f
  | cons c cs ih =>
    intro f hf
    simp only [escape, List.length_append] at hf
    have := length_escapeChar_pos c
    obtain ⟨f, rfl⟩ : ∃ f', f = f' + 1 := ⟨f - 1, by omega⟩
    rw [escape, acceptsF_escapeChar, ih f (by omega)]

theorem decodeF_noBackslash : ∀ (s : List Char) (f : Nat), s.length ≤ f → (∀ c, c ∈ s → c ≠ '\\') →
    decodeF f s = some s := by
  intro s
  induction s with
  | nil => intro f _ _; exact decodeF_nil f
  | cons c cs ih =>
    intro f hf h
    obtain ⟨f, rfl⟩ : ∃ f', f = f' + 1 := ⟨f - 1, by simp at hf; omega⟩
    rw [decodeF_plain f c cs (h c (List.mem_cons_self ..)),
      ih f (by simp at hf; omega) (fun d hd => h d (List.mem_cons_of_mem _ hd))]
    rfl

/-! ### multi-line strings -/

theorem splitLines_ne_nil (s : List Char) : splitLines s ≠ [] := by
  induction s with
  | nil => simp [splitLines]
  | cons c rest ih =>
    simp only [splitLines]
    split
    · simp
    · split <;> simp

theorem splitLines_noNL (a : List Char) (h : ∀ c, c ∈ a → c ≠ '\n') : splitLines a = [a] := by
  induction a with
  | nil => rfl
  | cons c rest ih =>
    have hc := h c (List.mem_cons_self ..)
    simp [splitLines, hc, ih (fun d hd => h d (List.mem_cons_of_mem _ hd))]

theorem splitLines_append (a r : List Char) (h : ∀ c, c ∈ a → c ≠ '\n') :
    splitLines (a ++ '\n' :: r) = a :: splitLines r := by
  induction a with
  | nil => simp [splitLines]
  | cons c rest ih =>
    have hc := h c (List.mem_cons_self ..)
    simp [splitLines, hc, ih (fun d hd => h d (List.mem_cons_of_mem _ hd))]

def endsCR : List Char → Bool
  | [] => false
  | ['\r'] => true
  | _ :: rest => endsCR rest

theorem dropCR_id (l : List Char) (h : endsCR l = false) : dropCR l = l := by
  induction l with
  | nil => rfl
  | cons c rest ih =>
    cases rest with
    | nil =>
      by_cases hc : c = '\r'
      · subst hc; simp [endsCR] at h
      · simp [dropCR, hc]
    | cons d rest' =>
      have : endsCR (d :: rest') = false := by
        simpa [endsCR] using h
      simp [dropCR, ih this]

theorem endsCR_append_cons (a : List Char) (c : Char) (l : List Char) :
    endsCR (a ++ c :: l) = endsCR (c :: l) := by
  induction a with
  | nil => rfl
  | cons d rest ih =>
    cases hr : rest ++ c :: l with
    | nil => simp at hr
    | cons e r' => simp [List.cons_append, hr, endsCR, ← ih]

theorem trimStart_blanks (ind rest : List Char) (h : ∀ c, c ∈ ind → c = ' ' ∨ c = '\t') :
    trimStart (ind ++ '\\' :: rest) = '\\' :: rest := by
  induction ind with
  | nil => simp [trimStart]
  | cons c r ih =>
    have hc := h c (List.mem_cons_self ..)
    have ih' := ih (fun d hd => h d (List.mem_cons_of_mem _ hd))
    rcases hc with hc | hc <;> subst hc <;> simp [trimStart, ih']

/-- conditions on one line of a multi-line literal: blanks before the marker, no line break in the
content, no carriage return at its end (a final `\r` belongs to the line terminator) -/
def LineOK (p : List Char × List Char) : Prop :=
  (∀ c, c ∈ p.1 → c = ' ' ∨ c = '\t') ∧ (∀ c, c ∈ p.2 → c ≠ '\n') ∧
    endsCR ('\\' :: p.2) = false

theorem spellLine_noNL (p : List Char × List Char) (h : LineOK p) :
    ∀ c, c ∈ spellLine p.1 p.2 → c ≠ '\n' := by
  intro c hc
  simp only [spellLine, List.mem_append, List.mem_cons] at hc
  rcases hc with hc | hc | hc | hc
  · rcases h.1 c hc with h | h <;> subst h <;> decide
  · subst hc; decide
  · subst hc; decide
  · exact h.2.1 c hc

theorem lowerLine (p : List Char × List Char) (h : LineOK p) :
    stripMarker (trimStart (dropCR (spellLine p.1 p.2))) = some p.2 := by
  have hcr : endsCR (spellLine p.1 p.2) = false := by
    rw [spellLine, endsCR_append_cons]
    have := h.2.2
    cases hp : p.2 with
    | nil => simp [endsCR]
    | cons d r => rw [hp] at this; simpa [endsCR] using this
  rw [dropCR_id _ hcr, spellLine, trimStart_blanks _ _ h.1]
  rfl

theorem splitLines_spell : ∀ (ls : List (List Char × List Char)), ls ≠ [] → (∀ p, p ∈ ls → LineOK p) →
    splitLines (spellLines ls) = ls.map (fun p => spellLine p.1 p.2) := by
  intro ls
  induction ls with
  | nil => intro h; exact absurd rfl h
  | cons p rest ih =>
    intro _ hok
    have hp := hok p (List.mem_cons_self ..)
    cases rest with
    | nil =>
      obtain ⟨i, l⟩ := p
      simp only [spellLines, List.map]
      exact splitLines_noNL _ (spellLine_noNL (i, l) hp)
    | cons q rest' =>
      obtain ⟨i, l⟩ := p
      simp only [spellLines, List.map_cons]
      rw [splitLines_append _ _ (spellLine_noNL (i, l) hp)]
      have := ih (by simp) (fun r hr => hok r (List.mem_cons_of_mem _ hr))
      simp only [List.map_cons] at this
      rw [this]

theorem dropLastEmpty_id : ∀ (ls : List (List Char)), (∀ l, l ∈ ls → l ≠ []) → dropLastEmpty ls = ls := by
  intro ls
  induction ls with
  | nil => intro _; rfl
  | cons l rest ih =>
    intro h
    have hl := h l (List.mem_cons_self ..)
    cases l with
    | nil => exact absurd rfl hl
    | cons c l' =>
      cases rest with
      | nil => rfl
      | cons m rest' =>
        simp only [dropLastEmpty]
        rw [ih (fun x hx => h x (List.mem_cons_of_mem _ hx))]

theorem mapM_lines : ∀ (ls : List (List Char × List Char)), (∀ p, p ∈ ls → LineOK p) →
    mapM? (fun l => stripMarker (trimStart (dropCR l))) (ls.map (fun p => spellLine p.1 p.2)) =
      some (ls.map (·.2)) := by
  intro ls
  induction ls with
  | nil => intro _; rfl
  | cons p rest ih =>
    intro h
    simp only [List.map_cons, mapM?, lowerLine p (h p (List.mem_cons_self ..)),
      ih (fun q hq => h q (List.mem_cons_of_mem _ hq))]

theorem lowerMultiline_spell (ls : List (List Char × List Char)) (hne : ls ≠ [])
    (hok : ∀ p, p ∈ ls → LineOK p) :
    lowerMultiline (spellLines ls) = some (joinLines (ls.map (·.2))) := by
  unfold lowerMultiline
  rw [splitLines_spell ls hne hok, dropLastEmpty_id, mapM_lines ls hok]
  · rfl
  · intro l hl
    simp only [List.mem_map] at hl
    obtain ⟨p, _, rfl⟩ := hl
    simp [spellLine]

end Goml.StrLit
