import GomlVerif.Lemmas.Sorted
import Mathlib.Data.List.Perm.Subperm
import Mathlib.Data.List.Nodup
/-!
Correctness of the depth-first dependency order (`topo_sort_packages` / `visit_package`,
model `Graph.visit`, `Graph.topoLoop`, `Graph.topoSort`).

* soundness: a successful run returns every package exactly once, each after all its imports;
* every error is truthful: `cycle p` names a closed walk of import edges, `missing p d` an import
  of an absent package; the recursion budget of the model is never exhausted and `notFound`
  never happens;
* hence `topoSort g` succeeds iff the import graph is acyclic and every import is present.

Shared by C04, C13 and C16.
-/
namespace Goml.Graph

/-- non-empty path -/
inductive Path (R : Pkg → Pkg → Prop) : Pkg → Pkg → Prop
  | one {a b : Pkg} : R a b → Path R a b
  | step {a b c : Pkg} : R a b → Path R b c → Path R a c

theorem Path.snoc {R : Pkg → Pkg → Prop} {a b c : Pkg} (h : Path R a b) (e : R b c) : Path R a c := by
  induction h with
  | one r => exact .step r (.one e)
  | step r _ ih => exact .step r (ih e)

/-- consecutive elements are related -/
def Linked (R : Pkg → Pkg → Prop) : List Pkg → Prop
  | [] => True
  | [_] => True
  | a :: b :: r => R a b ∧ Linked R (b :: r)

theorem Linked.tail {R : Pkg → Pkg → Prop} {a : Pkg} {l : List Pkg} (h : Linked R (a :: l)) : Linked R l := by
  cases l with
  | nil => trivial
  | cons b r => exact h.2

theorem Linked.suffix {R : Pkg → Pkg → Prop} : ∀ {l₁ l₂ : List Pkg}, Linked R (l₁ ++ l₂) → Linked R l₂
  | [], _, h => h
  | _ :: l₁, _, h => Linked.suffix (l₁ := l₁) h.tail

theorem Linked.snoc {R : Pkg → Pkg → Prop} {m : Pkg} :
    ∀ {l : List Pkg}, Linked R l → (∀ n, l.getLast? = some n → R n m) → Linked R (l ++ [m])
  | [], _, _ => trivial
  | [a], _, h => ⟨h a rfl, trivial⟩
  | a :: b :: r, hl, h => by
    refine ⟨hl.1, ?_⟩
    exact Linked.snoc (l := b :: r) hl.2 (fun n hn => h n (by rw [List.getLast?_cons_cons]; exact hn))

/-- a linked list with at least two elements is a path from its head to its last element -/
theorem Linked.path {R : Pkg → Pkg → Prop} :
    ∀ (l : List Pkg) (a z : Pkg), Linked R (a :: l) → l.getLast? = some z → Path R a z
  | [], _, _, _, h => by simp at h
  | [b], a, z, hl, h => by
    have hz : b = z := by simpa using h
    subst hz
    exact .one hl.1
  | b :: c :: r, a, z, hl, h => by
    rw [List.getLast?_cons_cons] at h
    exact .step hl.1 (Linked.path (c :: r) b z hl.2 h)

theorem dropWhile_split {m : Pkg} : ∀ {pre post : List Pkg}, m ∉ pre →
    (pre ++ m :: post).dropWhile (· != m) = m :: post
  | [], _, _ => by simp
  | a :: pre, post, h => by
    have ha : a ≠ m := fun e => h (by simp [e])
    have hp : m ∉ pre := fun hp => h (List.mem_cons_of_mem _ hp)
    simp [ha, dropWhile_split hp]

section
variable (has : Pkg → Bool) (deps : Pkg → List Pkg)

/-- import edge out of a package that exists -/
def DepEdge (a b : Pkg) : Prop := has a = true ∧ b ∈ deps a

/-! ## soundness -/

/-- most recent first: every element exists, its dependencies are all earlier, no repetition -/
def TopoOk : List Pkg → Prop
  | [] => True
  | n :: earlier => has n = true ∧ (∀ d ∈ deps n, d ∈ earlier) ∧ n ∉ earlier ∧ TopoOk earlier

def Good (s : St) : Prop := TopoOk has deps s.order.reverse ∧ ∀ x ∈ s.order, x ∉ s.stack

/-- what a successful `visit n` (or recursive call) establishes -/
def VisitPost (n : Pkg) (s s' : St) : Prop :=
  (Good has deps s → Good has deps s') ∧ s'.stack = s.stack ∧ n ∈ s'.order ∧ ∀ x ∈ s.order, x ∈ s'.order

theorem visitDeps_ok {recur : Pkg → St → Except Err St} {n : Pkg}
    (hrec : ∀ d s s', recur d s = .ok s' → VisitPost has deps d s s') :
    ∀ (ds : List Pkg) (s s' : St), visitDeps has recur n ds s = .ok s' →
      (Good has deps s → Good has deps s') ∧ s'.stack = s.stack ∧ (∀ d ∈ ds, d ∈ s'.order) ∧
        ∀ x ∈ s.order, x ∈ s'.order := by
  intro ds
  induction ds with
  | nil =>
    intro s s' h
    simp only [visitDeps, Except.ok.injEq] at h
    subst h
    exact ⟨id, rfl, by simp, fun _ hx => hx⟩
  | cons d ds ih =>
    intro s s' h
    simp only [visitDeps] at h
    split at h
    · cases hr : recur d s with
      | error e => simp [hr] at h
      | ok s₁ =>
        simp only [hr] at h
        obtain ⟨g₁, st₁, m₁, mono₁⟩ := hrec d s s₁ hr
        obtain ⟨g₂, st₂, m₂, mono₂⟩ := ih s₁ s' h
        refine ⟨fun g => g₂ (g₁ g), st₂.trans st₁, ?_, fun x hx => mono₂ x (mono₁ x hx)⟩
        intro x hx
        rcases List.mem_cons.1 hx with rfl | hx
        · exact mono₂ _ m₁
        · exact m₂ x hx
    · simp at h

theorem visit_ok : ∀ (fuel : Nat) (n : Pkg) (s s' : St),
    visit has deps fuel n s = .ok s' → VisitPost has deps n s s' := by
  intro fuel
  induction fuel with
  | zero => intro n s s' h; simp [visit] at h
  | succ fuel ih =>
    intro n s s' h
    simp only [visit] at h
    split at h
    · rename_i hin
      simp only [Except.ok.injEq] at h; subst h
      exact ⟨id, rfl, hin, fun _ hx => hx⟩
    · rename_i hnot
      split at h
      · simp at h
      · rename_i hstack
        split at h
        · rename_i hhas
          cases hv : visitDeps has (visit has deps fuel) n (deps n) { s with stack := s.stack ++ [n] } with
          | error e => simp [hv] at h
          | ok s₂ =>
            simp only [hv, Except.ok.injEq] at h
            subst h
            obtain ⟨g₂, st₂, m₂, mono₂⟩ := visitDeps_ok has deps (n := n) (fun d t t' => ih d t t') (deps n) _ s₂ hv
            simp only at st₂
            refine ⟨?_, ?_, by simp, fun x hx => by simp [mono₂ x hx]⟩
            · intro g
              have g₁ : Good has deps { s with stack := s.stack ++ [n] } := by
                refine ⟨g.1, ?_⟩
                intro x hx
                simp only [List.mem_append, List.mem_singleton, not_or]
                exact ⟨g.2 x hx, fun e => hnot (e ▸ hx)⟩
              have g' := g₂ g₁
              have hn : n ∉ s₂.order := fun hx => by
                have := g'.2 n hx
                rw [st₂] at this
                exact this (by simp)
              refine ⟨?_, ?_⟩
              · simp only [List.reverse_append, List.reverse_cons, List.reverse_nil, List.nil_append,
                  List.singleton_append]
                exact ⟨hhas, fun d hd => by simpa using m₂ d hd, by simpa using hn, g'.1⟩
              · intro x hx
                simp only [st₂, List.dropLast_concat]
                rcases List.mem_append.1 hx with hx | hx
                · have := g'.2 x hx
                  rw [st₂] at this
                  exact fun hs => this (List.mem_append_left _ hs)
                · have : x = n := by simpa using hx
                  exact this ▸ hstack
            · simp [st₂]
        · simp at h

theorem topoLoop_ok (fuel : Nat) : ∀ (ns : List Pkg) (s s' : St),
    topoLoop has deps fuel ns s = .ok s' →
      (Good has deps s → Good has deps s') ∧ s'.stack = s.stack ∧ (∀ n ∈ ns, n ∈ s'.order) ∧
        ∀ x ∈ s.order, x ∈ s'.order := by
  intro ns
  induction ns with
  | nil =>
    intro s s' h
    simp only [topoLoop, Except.ok.injEq] at h
    subst h
    exact ⟨id, rfl, by simp, fun _ hx => hx⟩
  | cons n ns ih =>
    intro s s' h
    simp only [topoLoop] at h
    split at h
    · rename_i hin
      obtain ⟨g, st, m, mono⟩ := ih s s' h
      refine ⟨g, st, ?_, mono⟩
      intro x hx
      rcases List.mem_cons.1 hx with rfl | hx
      · exact mono _ hin
      · exact m x hx
    · cases hv : visit has deps fuel n s with
      | error e => simp [hv] at h
      | ok s₁ =>
        simp only [hv] at h
        obtain ⟨g₁, st₁, m₁, mono₁⟩ := visit_ok has deps fuel n s s₁ hv
        obtain ⟨g₂, st₂, m₂, mono₂⟩ := ih s₁ s' h
        refine ⟨fun g => g₂ (g₁ g), st₂.trans st₁, ?_, fun x hx => mono₂ x (mono₁ x hx)⟩
        intro x hx
        rcases List.mem_cons.1 hx with rfl | hx
        · exact mono₂ _ m₁
        · exact m₂ x hx

/-! consequences of `TopoOk` -/

theorem TopoOk.has_all : ∀ {r : List Pkg}, TopoOk has deps r → ∀ x ∈ r, has x = true
  | [], _, _, hx => by simp at hx
  | n :: r, h, x, hx => by
    rcases List.mem_cons.1 hx with rfl | hx
    · exact h.1
    · exact TopoOk.has_all h.2.2.2 x hx

theorem TopoOk.nodup : ∀ {r : List Pkg}, TopoOk has deps r → r.Nodup
  | [], _ => List.nodup_nil
  | _ :: _, h => List.nodup_cons.2 ⟨h.2.2.1, TopoOk.nodup h.2.2.2⟩

theorem TopoOk.suffix : ∀ {l₁ l₂ : List Pkg}, TopoOk has deps (l₁ ++ l₂) → TopoOk has deps l₂
  | [], _, h => h
  | _ :: l₁, _, h => TopoOk.suffix (l₁ := l₁) h.2.2.2

/-- paths out of an ordered element stay among the earlier elements -/
theorem TopoOk.closed : ∀ {r : List Pkg}, TopoOk has deps r →
    ∀ a ∈ r, ∀ b, Path (DepEdge has deps) a b → b ∈ r ∧ (∀ t, r = a :: t → b ∈ t)
  | [], _, a, ha, _, _ => by simp at ha
  | n :: earlier, h, a, ha, b, p => by
    have ih := TopoOk.closed (r := earlier) h.2.2.2
    have fromHead : ∀ b, Path (DepEdge has deps) n b → b ∈ earlier := by
      intro b p
      cases p with
      | one e => exact h.2.1 b e.2
      | step e q => exact (ih _ (h.2.1 _ e.2) b q).1
    rcases List.mem_cons.1 ha with rfl | ha
    · refine ⟨List.mem_cons_of_mem _ (fromHead b p), ?_⟩
      intro t ht
      have : earlier = t := by simpa using ht
      exact this ▸ fromHead b p
    · refine ⟨List.mem_cons_of_mem _ (ih a ha b p).1, ?_⟩
      intro t ht
      have hh : n = a := by simpa using (List.cons.inj ht).1
      exact absurd (hh ▸ ha) h.2.2.1

theorem TopoOk.acyclic : ∀ {r : List Pkg}, TopoOk has deps r → ∀ a ∈ r, ¬ Path (DepEdge has deps) a a
  | [], _, a, ha => by simp at ha
  | n :: earlier, h, a, ha => by
    rcases List.mem_cons.1 ha with rfl | ha
    · intro p
      exact h.2.2.1 ((TopoOk.closed has deps h a (by simp) a p).2 earlier rfl)
    · exact TopoOk.acyclic h.2.2.2 a ha

/-! ## every error is truthful -/

def ErrTruth : Err → Prop
  | .cycle p => (∃ m mid, p = m :: mid ++ [m]) ∧ Linked (DepEdge has deps) p
  | .missing p d => DepEdge has deps p d ∧ has d = false
  | _ => False

def StackOk (s : St) : Prop :=
  Linked (DepEdge has deps) s.stack ∧ s.stack.Nodup ∧ ∀ x ∈ s.stack, has x = true

theorem visit_stack (fuel : Nat) (n : Pkg) (s s' : St) (h : visit has deps fuel n s = .ok s') :
    s'.stack = s.stack := (visit_ok has deps fuel n s s' h).2.1

theorem visitDeps_err {univ : List Pkg} {fuel : Nat} {m : Pkg}
    (ih : ∀ (d : Pkg) (s : St) (e : Err), visit has deps fuel d s = .error e → has d = true →
      StackOk has deps s → (∀ n, s.stack.getLast? = some n → DepEdge has deps n d) →
      univ.length < s.stack.length + fuel → ErrTruth has deps e)
    (hm : has m = true) :
    ∀ (ds : List Pkg) (t : St) (e : Err), visitDeps has (visit has deps fuel) m ds t = .error e →
      (∀ d ∈ ds, d ∈ deps m) → StackOk has deps t → t.stack.getLast? = some m →
      univ.length < t.stack.length + fuel → ErrTruth has deps e := by
  intro ds
  induction ds with
  | nil => intro t e h; simp [visitDeps] at h
  | cons d ds ihd =>
    intro t e h hsub hst hlast hb
    simp only [visitDeps] at h
    split at h
    · rename_i hd
      cases hr : visit has deps fuel d t with
      | error e' =>
        simp only [hr, Except.error.injEq] at h
        subst h
        refine ih d t e' hr hd hst ?_ hb
        intro n hn
        rw [hlast] at hn
        cases hn
        exact ⟨hm, hsub d (by simp)⟩
      | ok t₁ =>
        simp only [hr] at h
        have st := visit_stack has deps fuel d t t₁ hr
        refine ihd t₁ e h (fun x hx => hsub x (List.mem_cons_of_mem _ hx)) ?_ (st ▸ hlast) (st ▸ hb)
        unfold StackOk
        rw [st]
        exact hst
    · rename_i hd
      simp only [Except.error.injEq] at h
      subst h
      exact ⟨⟨hm, hsub d (by simp)⟩, by simpa using hd⟩

theorem visit_err {univ : List Pkg} (huniv : ∀ x, has x = true → x ∈ univ) :
    ∀ (fuel : Nat) (m : Pkg) (s : St) (e : Err), visit has deps fuel m s = .error e → has m = true →
      StackOk has deps s → (∀ n, s.stack.getLast? = some n → DepEdge has deps n m) →
      univ.length < s.stack.length + fuel → ErrTruth has deps e := by
  intro fuel
  induction fuel with
  | zero =>
    intro m s e _ _ hst _ hb
    have : s.stack.length ≤ univ.length :=
      (hst.2.1.subperm (fun x hx => huniv x (hst.2.2 x hx))).length_le
    omega
  | succ fuel ih =>
    intro m s e h hm hst hlast hb
    simp only [visit] at h
    by_cases hin : m ∈ s.order
    · rw [if_pos hin] at h; simp at h
    · rw [if_neg hin] at h
      by_cases hstk : m ∈ s.stack
      · rw [if_pos hstk] at h
        simp only [Except.error.injEq] at h
        subst h
        obtain ⟨pre, post, hsplit⟩ := List.append_of_mem hstk
        have hpre : m ∉ pre := by
          intro hp
          have := hst.2.1
          rw [hsplit, List.nodup_append] at this
          exact this.2.2 m hp m (by simp) rfl
        have hdw : s.stack.dropWhile (· != m) = m :: post := by
          rw [hsplit]; exact dropWhile_split hpre
        rw [hdw]
        refine ⟨⟨m, post, rfl⟩, ?_⟩
        have hl : Linked (DepEdge has deps) (m :: post) := by
          have := hst.1
          rw [hsplit] at this
          exact this.suffix
        refine hl.snoc ?_
        intro n hn
        refine hlast n ?_
        rw [hsplit, List.getLast?_append, hn]
        rfl
      · rw [if_neg hstk, if_pos hm] at h
        cases hv : visitDeps has (visit has deps fuel) m (deps m) { s with stack := s.stack ++ [m] } with
        | ok s₂ => rw [hv] at h; simp at h
        | error e' =>
          rw [hv] at h
          simp only [Except.error.injEq] at h
          subst h
          refine visitDeps_err has deps (univ := univ) (fun d t e he hd hs hl hb => ih d t e he hd hs hl hb) hm
            (deps m) _ e' hv (fun _ hd => hd) ?_ (by simp) (by simp only [List.length_append, List.length_singleton]; omega)
          refine ⟨hst.1.snoc hlast, ?_, ?_⟩
          · rw [List.nodup_append]
            refine ⟨hst.2.1, List.nodup_singleton m, ?_⟩
            intro a ha b hb e
            have : b = m := by simpa using hb
            exact hstk (this ▸ e ▸ ha)
          · intro x hx
            rcases List.mem_append.1 hx with hx | hx
            · exact hst.2.2 x hx
            · have : x = m := by simpa using hx
              exact this ▸ hm

theorem topoLoop_err {univ : List Pkg} (huniv : ∀ x, has x = true → x ∈ univ) (fuel : Nat)
    (hfuel : univ.length < fuel) :
    ∀ (ns : List Pkg) (s : St) (e : Err), topoLoop has deps fuel ns s = .error e →
      (∀ n ∈ ns, has n = true) → s.stack = [] → ErrTruth has deps e := by
  intro ns
  induction ns with
  | nil => intro s e h; simp [topoLoop] at h
  | cons n ns ih =>
    intro s e h hall hs
    simp only [topoLoop] at h
    split at h
    · exact ih s e h (fun x hx => hall x (List.mem_cons_of_mem _ hx)) hs
    · cases hv : visit has deps fuel n s with
      | error e' =>
        simp only [hv, Except.error.injEq] at h
        subst h
        refine visit_err has deps huniv fuel n s e' hv (hall n (by simp)) ?_ ?_ ?_
        · unfold StackOk; rw [hs]; exact ⟨trivial, List.nodup_nil, by simp⟩
        · rw [hs]; simp
        · rw [hs]; simpa using hfuel
      | ok s₁ =>
        simp only [hv] at h
        exact ih s₁ e h (fun x hx => hall x (List.mem_cons_of_mem _ hx))
          ((visit_stack has deps fuel n s s₁ hv).trans hs)

/-- a truthful error exhibits a cycle or an absent import -/
theorem ErrTruth.not_ok {e : Err} (h : ErrTruth has deps e) :
    (∃ a, Path (DepEdge has deps) a a) ∨ (∃ a b, DepEdge has deps a b ∧ has b = false) := by
  cases e with
  | cycle p =>
    obtain ⟨⟨m, mid, rfl⟩, hl⟩ := h
    left
    refine ⟨m, Linked.path _ _ _ hl ?_⟩
    simp [List.getLast?_append]
  | missing p d => exact Or.inr ⟨p, d, h.1, h.2⟩
  | load _ _ => exact absurd h id
  | rootNotMain _ => exact absurd h id
  | declMismatch _ _ => exact absurd h id
  | notFound _ => exact absurd h id
  | fuel => exact absurd h id

end

/-! ## the theorem about `topoSort` -/

/-- `b` is imported by the package `a` of the graph -/
def Edge (g : Graph) (a b : Pkg) : Prop := a ∈ g.names ∧ b ∈ g.imports a
def Acyclic (g : Graph) : Prop := ∀ a, ¬ Path (Edge g) a a
def ImportsPresent (g : Graph) : Prop := ∀ a b, Edge g a b → b ∈ g.names

/-- every package exactly once, each one after all its imports -/
def IsTopoOrder (g : Graph) (o : List Pkg) : Prop :=
  o.Nodup ∧ (∀ n, n ∈ o ↔ n ∈ g.names) ∧
    ∀ pre n post, o = pre ++ n :: post → ∀ d ∈ g.imports n, d ∈ pre

theorem has_iff (g : Graph) (n : Pkg) : g.has n = true ↔ n ∈ g.names := by
  simp [Graph.has]

theorem depEdge_iff (g : Graph) (a b : Pkg) : DepEdge g.has g.deps a b ↔ Edge g a b := by
  simp [DepEdge, Edge, Graph.deps, has_iff, mem_sorted]

theorem path_iff (g : Graph) (a b : Pkg) : Path (DepEdge g.has g.deps) a b ↔ Path (Edge g) a b := by
  constructor
  · intro p
    induction p with
    | one e => exact .one ((depEdge_iff g _ _).1 e)
    | step e _ ih => exact .step ((depEdge_iff g _ _).1 e) ih
  · intro p
    induction p with
    | one e => exact .one ((depEdge_iff g _ _).2 e)
    | step e _ ih => exact .step ((depEdge_iff g _ _).2 e) ih

theorem topoSort_sound {g : Graph} {o : List Pkg} (h : topoSort g = .ok o) :
    TopoOk g.has g.deps o.reverse ∧ ∀ n, n ∈ o ↔ n ∈ g.names := by
  unfold topoSort at h
  cases hl : topoLoop g.has g.deps ((sorted g.names).length + 1) (sorted g.names) ⟨[], []⟩ with
  | error e => simp [hl] at h
  | ok s =>
    simp only [hl, Except.ok.injEq] at h
    subst h
    obtain ⟨g₁, _, m, _⟩ := topoLoop_ok g.has g.deps _ _ _ _ hl
    have good := g₁ ⟨by simp [TopoOk], by simp⟩
    refine ⟨good.1, fun n => ⟨?_, fun hn => m n (mem_sorted.2 hn)⟩⟩
    intro hn
    exact (has_iff g n).1 (good.1.has_all g.has g.deps n (by simpa using hn))

theorem topoSort_isTopoOrder {g : Graph} {o : List Pkg} (h : topoSort g = .ok o) : IsTopoOrder g o := by
  obtain ⟨ok, mem⟩ := topoSort_sound h
  refine ⟨by simpa using ok.nodup g.has g.deps, mem, ?_⟩
  intro pre n post ho d hd
  have : TopoOk g.has g.deps (n :: pre.reverse) := by
    have h' := ok
    rw [ho] at h'
    simp only [List.reverse_append, List.reverse_cons, List.append_assoc, List.singleton_append] at h'
    exact h'.suffix g.has g.deps
  have := this.2.1 d (by simpa [Graph.deps, mem_sorted] using hd)
  simpa using this

/-- **`topo_sort_packages` succeeds exactly on acyclic graphs whose imports are all present** -/
theorem topoSort_ok_iff (g : Graph) :
    (∃ o, topoSort g = .ok o) ↔ Acyclic g ∧ ImportsPresent g := by
  constructor
  · rintro ⟨o, h⟩
    obtain ⟨ok, mem⟩ := topoSort_sound h
    refine ⟨?_, ?_⟩
    · intro a p
      have ha : a ∈ g.names := by cases p with | one e => exact e.1 | step e _ => exact e.1
      exact ok.acyclic g.has g.deps a (by simpa using (mem a).2 ha) ((path_iff g a a).2 p)
    · intro a b e
      have := (ok.closed g.has g.deps a (by simpa using (mem a).2 e.1) b (.one ((depEdge_iff g a b).2 e))).1
      exact (mem b).1 (by simpa using this)
  · rintro ⟨hac, hpres⟩
    cases h : topoSort g with
    | ok o => exact ⟨o, rfl⟩
    | error e =>
      exfalso
      unfold topoSort at h
      cases hl : topoLoop g.has g.deps ((sorted g.names).length + 1) (sorted g.names) ⟨[], []⟩ with
      | ok s => simp [hl] at h
      | error e' =>
        have truth := topoLoop_err g.has g.deps (univ := sorted g.names)
          (fun x hx => mem_sorted.2 ((has_iff g x).1 hx)) _ (Nat.lt_succ_self _) _ _ e' hl
          (fun n hn => (has_iff g n).2 (mem_sorted.1 hn)) rfl
        rcases truth.not_ok g.has g.deps with ⟨a, p⟩ | ⟨a, b, e, hb⟩
        · exact hac a ((path_iff g a a).1 p)
        · have := hpres a b ((depEdge_iff g a b).1 e)
          rw [← has_iff, hb] at this
          exact absurd this (by simp)

/-- what an error of `topoSort` says is true of the graph -/
theorem topoSort_err_truth {g : Graph} {e : Err} (h : topoSort g = .error e) :
    (∃ m mid, e = .cycle (m :: mid ++ [m]) ∧ Linked (Edge g) (m :: mid ++ [m])) ∨
    (∃ p d, e = .missing p d ∧ Edge g p d ∧ d ∉ g.names) := by
  unfold topoSort at h
  cases hl : topoLoop g.has g.deps ((sorted g.names).length + 1) (sorted g.names) ⟨[], []⟩ with
  | ok s => simp [hl] at h
  | error e' =>
    simp only [hl, Except.error.injEq] at h
    subst h
    have truth := topoLoop_err g.has g.deps (univ := sorted g.names)
      (fun x hx => mem_sorted.2 ((has_iff g x).1 hx)) _ (Nat.lt_succ_self _) _ _ e' hl
      (fun n hn => (has_iff g n).2 (mem_sorted.1 hn)) rfl
    cases e' with
    | cycle p =>
      obtain ⟨⟨m, mid, rfl⟩, hlk⟩ := truth
      left
      refine ⟨m, mid, rfl, ?_⟩
      have conv : ∀ l : List Pkg, Linked (DepEdge g.has g.deps) l → Linked (Edge g) l := by
        intro l
        induction l with
        | nil => intro _; trivial
        | cons a r ih =>
          cases r with
          | nil => intro _; trivial
          | cons b r => intro hh; exact ⟨(depEdge_iff g a b).1 hh.1, ih hh.2⟩
      exact conv _ hlk
    | missing p d =>
      right
      refine ⟨p, d, rfl, (depEdge_iff g p d).1 truth.1, ?_⟩
      intro hd
      have := (has_iff g d).2 hd
      rw [truth.2] at this
      exact absurd this (by simp)
    | load _ _ => exact absurd truth id
    | rootNotMain _ => exact absurd truth id
    | declMismatch _ _ => exact absurd truth id
    | notFound _ => exact absurd truth id
    | fuel => exact absurd truth id

/-- with duplicate-free keys (a `HashMap`) the result is a permutation of the packages -/
theorem topoSort_perm {g : Graph} {o : List Pkg} (hn : g.names.Nodup) (h : topoSort g = .ok o) :
    o.Perm g.names :=
  (List.perm_ext_iff_of_nodup (topoSort_isTopoOrder h).1 hn).2 (topoSort_isTopoOrder h).2.1

end Goml.Graph
