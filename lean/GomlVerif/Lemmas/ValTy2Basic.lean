import GomlVerif.Model.ValTyRef
import GomlVerif.Lemmas.ValTyBasic
/-!
Store-typed version of `Lemmas/ValTyBasic.lean` (C03, type soundness with `Ref`): the `VT`-dependent lemmas for
`ValTyR.VT S P Ψ`, monotonicity under append-only extension of `Ψ`, and the three reference facts.
-/
namespace Goml.ValTyR
open Goml Goml.Sem Goml.Wt Goml.Mono Goml.ValTy

/-! ### value typing -/

variable {S : Sig} {P : Prog} {Ψ : List Ty}

theorem VTs_get : ∀ {vs : List Val} {ts : List Ty}, VTs S P Ψ vs ts → ∀ (i : Nat) (t : Ty), ts[i]? = some t →
    ∃ v, vs[i]? = some v ∧ VT S P Ψ v t := by
  intro vs
  induction vs with
  | nil => intro ts h i t ht; cases h; simp at ht
  | cons v vs ih =>
    intro ts h i t ht
    cases h with
    | cons h1 h2 =>
      cases i with
      | zero => simp at ht; subst ht; exact ⟨v, by simp, h1⟩
      | succ i => simp at ht; simpa using ih h2 i t ht

def ctorTyName : Ctor → String
  | .enum tn _ _ => tn
  | .struct tn => tn

theorem fieldTys_nominal {c : Ctor} {ty : Ty} {fts : List Ty} (h : fieldTys S c ty = some fts) :
    (nominalArgs (ctorTyName c) ty).isSome = true := by
  cases c with
  | enum tn v idx =>
    simp only [fieldTys] at h
    split at h
    · rename_i h2; simp [ctorTyName, h2]
    · cases h
  | struct tn =>
    simp only [fieldTys] at h
    split at h
    · rename_i h2; simp [ctorTyName, h2]
    · cases h

theorem enumFieldTys_nominal {tn : String} {idx : Nat} {ty : Ty} {fts : List Ty}
    (h : enumFieldTys S tn idx ty = some fts) : (nominalArgs tn ty).isSome = true := by
  unfold enumFieldTys at h
  split at h
  · split at h
    · exact fieldTys_nominal (c := .enum tn _ idx) h
    · cases h
  · cases h

theorem VT_prim (p : Prim) (h : primOk p = true) : VT S P Ψ (primVal p) (primTy p) := by
  cases p <;> simp only [primVal, primTy] <;> constructor <;> simpa [primOk] using h

/-- canonical forms -/
theorem VT_bool {v : Val} (h : VT S P Ψ v .bool) : ∃ b, v = .bool b := by
  cases h with
  | bool b => exact ⟨b, rfl⟩
  | enumV h1 _ _ => simp [isEnumTy] at h1
  | structV h1 _ _ => simp [isStructTy] at h1

theorem VT_str {v : Val} (h : VT S P Ψ v .string) : ∃ s, v = .str s := by
  cases h with
  | str s => exact ⟨s, rfl⟩
  | enumV h1 _ _ => simp [isEnumTy] at h1
  | structV h1 _ _ => simp [isStructTy] at h1

theorem VT_unit {v : Val} (h : VT S P Ψ v .unit) : v = .unit := by
  cases h with
  | unit => rfl
  | enumV h1 _ _ => simp [isEnumTy] at h1
  | structV h1 _ _ => simp [isStructTy] at h1

theorem VT_int {v : Val} {b : Nat} {s : Bool} (h : VT S P Ψ v (.int b s)) : ∃ x, v = .int b s x := by
  cases h with
  | int _ _ x _ => exact ⟨x, rfl⟩
  | enumV h1 _ _ => simp [isEnumTy] at h1
  | structV h1 _ _ => simp [isStructTy] at h1

theorem VT_float {v : Val} {b : Nat} (h : VT S P Ψ v (.float b)) : ∃ x, v = .float b x := by
  cases h with
  | float _ x _ => exact ⟨x, rfl⟩
  | enumV h1 _ _ => simp [isEnumTy] at h1
  | structV h1 _ _ => simp [isStructTy] at h1

theorem VT_tuple {v : Val} {ts : List Ty} (h : VT S P Ψ v (.tuple ts)) : ∃ vs, v = .tuple vs ∧ VTs S P Ψ vs ts := by
  cases h with
  | tuple h1 => exact ⟨_, rfl, h1⟩
  | enumV h1 _ _ => simp [isEnumTy] at h1
  | structV h1 _ _ => simp [isStructTy] at h1

theorem VTs_single {args : List Val} {t : Ty} (h : VTs S P Ψ args [t]) : ∃ a, args = [a] ∧ VT S P Ψ a t := by
  cases h with
  | cons h1 h2 => cases h2; exact ⟨_, rfl, h1⟩

/-! ### arrays, vectors -/

theorem VTall_get : ∀ {vs : List Val} {e : Ty}, VTall S P Ψ vs e → ∀ (i : Nat) (v : Val), vs[i]? = some v → VT S P Ψ v e := by
  intro vs
  induction vs with
  | nil => intro e _ i v h; simp at h
  | cons a vs ih =>
    intro e h i v hv
    cases h with
    | cons h1 h2 =>
      cases i with
      | zero => simp at hv; subst hv; exact h1
      | succ i => simp at hv; exact ih h2 i v hv

theorem VTall_set : ∀ {vs : List Val} {e : Ty}, VTall S P Ψ vs e → ∀ (i : Nat) (v : Val), VT S P Ψ v e → VTall S P Ψ (vs.set i v) e := by
  intro vs
  induction vs with
  | nil => intro e h i v _; simpa using h
  | cons a vs ih =>
    intro e h i v hv
    cases h with
    | cons h1 h2 =>
      cases i with
      | zero => simp only [List.set_cons_zero]; exact .cons hv h2
      | succ i => simp only [List.set_cons_succ]; exact .cons h1 (ih h2 i v hv)

theorem VTall_append : ∀ {vs : List Val} {e : Ty}, VTall S P Ψ vs e → ∀ (v : Val), VT S P Ψ v e → VTall S P Ψ (vs ++ [v]) e := by
  intro vs
  induction vs with
  | nil => intro e _ v hv; exact .cons hv .nil
  | cons a vs ih =>
    intro e h v hv
    cases h with
    | cons h1 h2 => simp only [List.cons_append]; exact .cons h1 (ih h2 v hv)

theorem VTs_length : ∀ {vs : List Val} {ts : List Ty}, VTs S P Ψ vs ts → vs.length = ts.length := by
  intro vs
  induction vs with
  | nil => intro ts h; cases h; rfl
  | cons a vs ih => intro ts h; cases h with | cons _ h2 => simp [ih h2]

theorem VTs_all : ∀ {vs : List Val} {ts : List Ty} {e : Ty}, VTs S P Ψ vs ts → (∀ t ∈ ts, t = e) → VTall S P Ψ vs e := by
  intro vs
  induction vs with
  | nil => intro ts e h _; exact .nil
  | cons a vs ih =>
    intro ts e h hall
    cases h with
    | cons h1 h2 =>
      have := hall _ List.mem_cons_self
      subst this
      exact .cons h1 (ih h2 (fun t ht => hall t (List.mem_cons_of_mem _ ht)))

theorem allTyEq_all {e : Ty} : ∀ {ts : List Ty}, allTyEq e ts = true → ∀ t ∈ ts, t = e := by
  intro ts
  induction ts with
  | nil => intro _ t ht; cases ht
  | cons u us ih =>
    intro h t ht
    simp only [allTyEq, Bool.and_eq_true] at h
    rcases List.mem_cons.1 ht with rfl | ht
    · exact ((tyBeq_iff e t).1 h.1).symm
    · exact ih h.2 t ht

theorem getTys_length (es : List Expr) : (getTys es).length = es.length := by
  induction es with
  | nil => rfl
  | cons e es ih => simp [getTys, ih]

theorem VT_array {v : Val} {n : Nat} {e : Ty} (h : VT S P Ψ v (.array n e)) : ∃ vs, v = .array vs ∧ vs.length = n ∧ VTall S P Ψ vs e := by
  cases h with
  | array h1 h2 => exact ⟨_, rfl, h2, h1⟩
  | enumV h1 _ _ => simp [isEnumTy] at h1
  | structV h1 _ _ => simp [isStructTy] at h1

theorem VT_vec {v : Val} {e : Ty} (h : VT S P Ψ v (.vec e)) : ∃ vs, v = .vec vs ∧ VTall S P Ψ vs e := by
  cases h with
  | vec h1 => exact ⟨_, rfl, h1⟩
  | enumV h1 _ _ => simp [isEnumTy] at h1
  | structV h1 _ _ => simp [isStructTy] at h1

theorem VT_anyint {v : Val} {b : Nat} {s : Bool} (h : VT S P Ψ v (.int b s)) : ∃ x, v = .int b s x := VT_int h

/-! ### environments -/

theorem lookupEnv_cons (k : String) (v : Val) (ρ : Env) (x : String) :
    lookupEnv ((k, v) :: ρ) x = if (k == x) = true then some v else lookupEnv ρ x := by
  unfold lookupEnv
  simp only [List.find?]
  by_cases h : (k == x) = true
  · simp [h]
  · simp [h]

theorem ET_lookup {θ : Subst} : ∀ {ρ : Env} {Γ : TyEnv}, ET S P Ψ θ ρ Γ → ∀ x,
    (match lookupVar Γ x with
     | some t => ∃ v, lookupEnv ρ x = some v ∧ VT S P Ψ v (substTy θ t)
     | none => lookupEnv ρ x = none) := by
  intro ρ
  induction ρ with
  | nil => intro Γ h x; cases h; simp [lookupVar, lookupEnv]
  | cons b ρ ih =>
    intro Γ h x
    cases h with
    | @cons _ k v t _ Γ' hv hrest =>
      simp only [lookupVar, lookupEnv_cons]
      by_cases hk : (k == x) = true
      · simp only [hk, if_true]; exact ⟨v, rfl, hv⟩
      · simp only [hk]; exact ih hrest x

theorem ET_bind {θ : Subst} : ∀ (ps : List (String × Ty)) (vs : List Val) (ρ : Env) (Γ : TyEnv),
    VTs S P Ψ vs (substTys θ (ps.map (·.2))) → ET S P Ψ θ ρ Γ →
    ET S P Ψ θ (bindParams (ps.map (·.1)) vs ρ) (bindAll ps Γ) := by
  intro ps
  induction ps with
  | nil =>
    intro vs ρ Γ h hρ
    simp only [List.map_nil, substTys] at h
    cases h
    simpa [bindParams, bindAll] using hρ
  | cons p ps ih =>
    intro vs ρ Γ h hρ
    obtain ⟨x, t⟩ := p
    simp only [List.map_cons, substTys] at h
    cases h with
    | cons h1 h2 =>
      simp only [List.map_cons, bindParams, bindAll]
      exact ih _ _ _ h2 (.cons h1 hρ)

/-- **a value of a concrete type carries the key of that type** -/
theorem valKey_of_VT {v : Val} {τ : Ty} (hc : concreteTy τ = true) (h : VT S P Ψ v τ) : valKey v = tyKey τ := by
  cases h with
  | unit => rfl
  | bool => rfl
  | int _ _ _ _ => rfl
  | float _ _ _ => rfl
  | str => rfl
  | tuple _ => simp [concreteTy] at hc
  | array _ _ => simp [concreteTy] at hc
  | vec _ => simp [concreteTy] at hc
  | @enumV n idx args _ fts h1 h2 _ =>
    have hn := enumFieldTys_nominal h2
    cases τ <;> simp [concreteTy] at hc <;> simp [isEnumTy] at h1
    simp [nominalArgs] at hn
    subst hn; simp [valKey, tyKey]
  | @structV n fs _ fts h1 h2 _ =>
    have hn := fieldTys_nominal (c := .struct n) h2
    cases τ <;> simp [concreteTy] at hc <;> simp [isStructTy] at h1
    simp [nominalArgs, ctorTyName] at hn
    subst hn; simp [valKey, tyKey]
  | ref _ => simp [concreteTy] at hc
  | dyn _ _ _ => simp [concreteTy] at hc
  | closure _ _ _ => simp [concreteTy] at hc
  | fn θ _ => simp [concreteTy, fnTy, substTy] at hc


/-! ### store typings -/

theorem Ext.refl (Ψ : List Ty) : Ext Ψ Ψ := ⟨[], by simp⟩
theorem Ext.trans {a b c : List Ty} (h1 : Ext a b) (h2 : Ext b c) : Ext a c := by
  obtain ⟨d1, rfl⟩ := h1; obtain ⟨d2, rfl⟩ := h2; exact ⟨d1 ++ d2, by simp⟩

theorem get_ext {Ψ Ψ' : List Ty} (hx : Ext Ψ Ψ') {l : Nat} {e : Ty} (h : Ψ[l]? = some e) : Ψ'[l]? = some e := by
  obtain ⟨Δ, rfl⟩ := hx
  have hl : l < Ψ.length := by
    rcases Nat.lt_or_ge l Ψ.length with h1 | h1
    · exact h1
    · rw [List.getElem?_eq_none h1] at h; cases h
  rw [List.getElem?_append_left hl]; exact h

mutual
theorem VT.mono {Ψ Ψ' : List Ty} (hx : Ext Ψ Ψ') : ∀ {v : Val} {t : Ty}, VT S P Ψ v t → VT S P Ψ' v t
  | _, _, .unit => .unit
  | _, _, .bool b => .bool b
  | _, _, .int b s x h => .int b s x h
  | _, _, .float b x h => .float b x h
  | _, _, .str s => .str s
  | _, _, .tuple h => .tuple (VTs.mono hx h)
  | _, _, .enumV h1 h2 h3 => .enumV h1 h2 (VTs.mono hx h3)
  | _, _, .structV h1 h2 h3 => .structV h1 h2 (VTs.mono hx h3)
  | _, _, .array h1 h2 => .array (VTall.mono hx h1) h2
  | _, _, .vec h1 => .vec (VTall.mono hx h1)
  | _, _, .ref h => .ref (get_ext hx h)
  | _, _, .dyn h1 h2 h3 => .dyn h1 (VT.mono hx h2) h3
  | _, _, .closure h1 h2 h3 => .closure (ET.mono hx h1) h2 h3
  | _, _, .fn θ h => .fn θ h
theorem VTs.mono {Ψ Ψ' : List Ty} (hx : Ext Ψ Ψ') : ∀ {vs : List Val} {ts : List Ty}, VTs S P Ψ vs ts → VTs S P Ψ' vs ts
  | _, _, .nil => .nil
  | _, _, .cons h1 h2 => .cons (VT.mono hx h1) (VTs.mono hx h2)
theorem VTall.mono {Ψ Ψ' : List Ty} (hx : Ext Ψ Ψ') : ∀ {vs : List Val} {e : Ty}, VTall S P Ψ vs e → VTall S P Ψ' vs e
  | _, _, .nil => .nil
  | _, _, .cons h1 h2 => .cons (VT.mono hx h1) (VTall.mono hx h2)
theorem ET.mono {Ψ Ψ' : List Ty} (hx : Ext Ψ Ψ') : ∀ {θ : Subst} {ρ : Env} {Γ : TyEnv}, ET S P Ψ θ ρ Γ → ET S P Ψ' θ ρ Γ
  | _, _, _, .nil => .nil
  | _, _, _, .cons h1 h2 => .cons (VT.mono hx h1) (ET.mono hx h2)
end

/-- the invariant only reads the store -/
theorem WT.of_store {w w' : World} (h : WT S P Ψ w) (hs : w'.store = w.store) : WT S P Ψ w' := by
  unfold WT at h ⊢; rw [hs]; exact h

theorem ref_get_sound {w : World} {l : Nat} {e : Ty} {v : Val} (hw : WT S P Ψ w)
    (hr : VT S P Ψ (.ref l) (.ref e)) (hv : w.store[l]? = some v) : VT S P Ψ v e := by
  cases hr with
  | ref h =>
    obtain ⟨e', he', hv'⟩ := hw.2 l v hv
    rw [h] at he'; injection he' with he'; subst he'
    exact hv'

theorem ref_live {w : World} {l : Nat} {e : Ty} (hw : WT S P Ψ w) (hr : VT S P Ψ (.ref l) (.ref e)) :
    l < w.store.size := by
  cases hr with
  | ref h =>
    rw [hw.1]
    rcases Nat.lt_or_ge l Ψ.length with h1 | h1
    · exact h1
    · rw [List.getElem?_eq_none h1] at h; cases h

theorem ref_new_sound {w : World} {v : Val} {e : Ty} (hw : WT S P Ψ w) (hv : VT S P Ψ v e) :
    WT S P (Ψ ++ [e]) { w with store := w.store.push v } ∧ VT S P (Ψ ++ [e]) (.ref w.store.size) (.ref e) := by
  have hx : Ext Ψ (Ψ ++ [e]) := ⟨[e], rfl⟩
  refine ⟨⟨by simp [hw.1], ?_⟩, .ref (by rw [hw.1]; simp)⟩
  intro l u hu
  simp only [Array.getElem?_push] at hu
  by_cases hl : l = w.store.size
  · simp only [hl, if_true] at hu
    injection hu with hu; subst hu
    exact ⟨e, by rw [hl, hw.1]; simp, hv.mono hx⟩
  · simp only [hl, if_false] at hu
    obtain ⟨e', he', hv'⟩ := hw.2 l u hu
    exact ⟨e', get_ext hx he', hv'.mono hx⟩

theorem ref_set_sound {w : World} {l : Nat} {e : Ty} {v : Val} (hw : WT S P Ψ w)
    (hr : VT S P Ψ (.ref l) (.ref e)) (hv : VT S P Ψ v e) : WT S P Ψ { w with store := w.store.set! l v } := by
  cases hr with
  | ref h =>
    refine ⟨by simp [hw.1], ?_⟩
    intro k u hu
    simp only [Array.set!_eq_setIfInBounds, Array.getElem?_setIfInBounds] at hu
    by_cases hk : l = k
    · subst hk
      by_cases hlt : l < w.store.size
      · simp only [if_true, hlt] at hu
        injection hu with hu; subst hu
        exact ⟨e, h, hv⟩
      · simp only [if_true, hlt, if_false] at hu; cases hu
    · simp only [hk, if_false] at hu
      exact hw.2 k u hu

end Goml.ValTyR
