import GomlVerif.Lemmas.ValTy2Basic
import GomlVerif.Lemmas.ValTyOps
/-!
Store-typed version of `Lemmas/ValTyKey.lean` / `ValTyOps.lean` (C03, type soundness with `Ref`): operators, builtins
(with "the store is unchanged"), the array / vector builtins, the reference builtins, `key_determines`.
-/
namespace Goml.ValTyR
open Goml Goml.Sem Goml.Wt Goml.Mono Goml.ValTy

variable {S : Sig} {P : Prog} {Ψ : List Ty}

theorem tyEq {a b : Ty} (h : tyBeq a b = true) : a = b := (tyBeq_iff a b).1 h

/-! ### operators -/

set_option hygiene false in
macro "opfin" : tactic => `(tactic|
  first
  | contradiction
  | (injection hr with hr; subst hr; first | (constructor; done) | (cases ha; constructor; assumption) | (cases ha; constructor)))

set_option hygiene false in
macro "opall" : tactic => `(tactic|
  all_goals first
    | opfin
    | (split at hr <;> opfin))

theorem unop_sound {op : UnOp} {ty ta : Ty} {a v : Val} (hok : unopOk op ty ta = true)
    (ha : VT S P Ψ a ta) (hr : unop op a = .ok v) : VT S P Ψ v ty := by
  cases op <;> simp only [unopOk, Bool.and_eq_true] at hok
  · obtain ⟨_, h2⟩ := hok
    have := tyEq h2; subst this
    unfold unop at hr
    split at hr
    opall
  · obtain ⟨h1, h2⟩ := hok
    have := tyEq h1; subst this
    have := tyEq h2; subst this
    unfold unop at hr
    split at hr
    opall

theorem binop_sound {op : BinOp} {ty ta tb : Ty} {a b v : Val} (hok : binopOk op ty ta tb = true)
    (ha : VT S P Ψ a ta) (_hb : VT S P Ψ b tb) (hr : binop op a b = .ok v) : VT S P Ψ v ty := by
  cases op <;> simp only [binopOk, Bool.and_eq_true] at hok
  case add =>
    have h1 := tyEq hok.1.1; have h2 := tyEq hok.1.2; subst h1; subst h2
    unfold binop at hr; split at hr
    opall
  case sub =>
    have h1 := tyEq hok.1.1; have h2 := tyEq hok.1.2; subst h1; subst h2
    unfold binop at hr; split at hr
    opall
  case mul =>
    have h1 := tyEq hok.1.1; have h2 := tyEq hok.1.2; subst h1; subst h2
    unfold binop at hr; split at hr
    opall
  case div =>
    have h1 := tyEq hok.1.1; have h2 := tyEq hok.1.2; subst h1; subst h2
    unfold binop at hr; split at hr
    opall
  case and =>
    have h3 := tyEq hok.2; subst h3
    unfold binop at hr; split at hr
    opall
  case or =>
    have h3 := tyEq hok.2; subst h3
    unfold binop at hr; split at hr
    opall
  case less =>
    have h3 := tyEq hok.1.2; subst h3
    unfold binop at hr; split at hr
    opall
  case greater =>
    have h3 := tyEq hok.1.2; subst h3
    unfold binop at hr; split at hr
    opall
  case lessEq =>
    have h3 := tyEq hok.1.2; subst h3
    unfold binop at hr; split at hr
    opall
  case greaterEq =>
    have h3 := tyEq hok.1.2; subst h3
    unfold binop at hr; split at hr
    opall
  case eq =>
    have h3 := tyEq hok.2; subst h3
    unfold binop at hr; split at hr
    opall
  case notEq =>
    have h3 := tyEq hok.2; subst h3
    unfold binop at hr; split at hr
    opall

/-! ### canonical forms, builtins -/

set_option hygiene false in
macro "int_ts' " nm:str pre:str : tactic => `(tactic|
  (have h1 : ($nm : String).endsWith "_to_string" = true := by decide +kernel
   have h2 : ($nm : String).startsWith $pre = true := by decide +kernel
   simp [Sem.builtin, h1, h2]))

theorem b_int8 (n s x) (w : World) : builtin "int8_to_string" [.int n s x] w = some (.ok (.str (showInt x)) w) := by
  int_ts' "int8_to_string" "int"
theorem b_int16 (n s x) (w : World) : builtin "int16_to_string" [.int n s x] w = some (.ok (.str (showInt x)) w) := by
  int_ts' "int16_to_string" "int"
theorem b_int32 (n s x) (w : World) : builtin "int32_to_string" [.int n s x] w = some (.ok (.str (showInt x)) w) := by
  int_ts' "int32_to_string" "int"
theorem b_int64 (n s x) (w : World) : builtin "int64_to_string" [.int n s x] w = some (.ok (.str (showInt x)) w) := by
  int_ts' "int64_to_string" "int"
theorem b_uint8 (n s x) (w : World) : builtin "uint8_to_string" [.int n s x] w = some (.ok (.str (showInt x)) w) := by
  int_ts' "uint8_to_string" "uint"
theorem b_uint16 (n s x) (w : World) : builtin "uint16_to_string" [.int n s x] w = some (.ok (.str (showInt x)) w) := by
  int_ts' "uint16_to_string" "uint"
theorem b_uint32 (n s x) (w : World) : builtin "uint32_to_string" [.int n s x] w = some (.ok (.str (showInt x)) w) := by
  int_ts' "uint32_to_string" "uint"
theorem b_uint64 (n s x) (w : World) : builtin "uint64_to_string" [.int n s x] w = some (.ok (.str (showInt x)) w) := by
  int_ts' "uint64_to_string" "uint"

theorem b_f32 (n x) (w : World) : builtin "float32_to_string" [.float n x] w = some (.ok (.str (showFloat n x)) w) := by
  have h1 : ("float32_to_string" : String).endsWith "_to_string" = true := by decide +kernel
  have h2 : ("float32_to_string" : String).startsWith "float" = true := by decide +kernel
  simp [Sem.builtin, h1, h2]
theorem b_f64 (n x) (w : World) : builtin "float64_to_string" [.float n x] w = some (.ok (.str (showFloat n x)) w) := by
  have h1 : ("float64_to_string" : String).endsWith "_to_string" = true := by decide +kernel
  have h2 : ("float64_to_string" : String).startsWith "float" = true := by decide +kernel
  simp [Sem.builtin, h1, h2]

/-- an admitted builtin applied to arguments of its parameter types returns a value of its result type -/
theorem builtin_sound {f : String} {ps : List Ty} {r : Ty} {args : List Val} {w w' : World} {v : Val}
    (hb : builtinTy f = some (.func ps r)) (ha : VTs S P Ψ args ps)
    (hr : (match builtin f args w with
           | some r => r
           | none => .ok .unit { w with externs := w.externs ++ [f] }) = .ok v w') :
    VT S P Ψ v r ∧ w'.store = w.store := by
  unfold builtinTy at hb
  split at hb <;> simp only [Option.some.injEq, Ty.func.injEq, reduceCtorEq] at hb
  all_goals (obtain ⟨rfl, rfl⟩ := hb; obtain ⟨a, rfl, ha1⟩ := VTs_single ha)
  · obtain ⟨s, rfl⟩ := VT_str ha1
    simp [builtin] at hr; obtain ⟨rfl, rfl⟩ := hr; exact ⟨by constructor, rfl⟩
  · obtain ⟨s, rfl⟩ := VT_str ha1
    simp [builtin] at hr; obtain ⟨rfl, rfl⟩ := hr; exact ⟨by constructor, rfl⟩
  · have := VT_unit ha1; subst this
    simp [builtin] at hr; obtain ⟨rfl, rfl⟩ := hr; exact ⟨by constructor, rfl⟩
  · obtain ⟨b, rfl⟩ := VT_bool ha1
    simp [builtin] at hr; obtain ⟨rfl, rfl⟩ := hr; exact ⟨by constructor, rfl⟩
  · obtain ⟨x, rfl⟩ := VT_int ha1
    rw [b_int8] at hr; simp at hr; obtain ⟨rfl, rfl⟩ := hr; exact ⟨by constructor, rfl⟩
  · obtain ⟨x, rfl⟩ := VT_int ha1
    rw [b_int16] at hr; simp at hr; obtain ⟨rfl, rfl⟩ := hr; exact ⟨by constructor, rfl⟩
  · obtain ⟨x, rfl⟩ := VT_int ha1
    rw [b_int32] at hr; simp at hr; obtain ⟨rfl, rfl⟩ := hr; exact ⟨by constructor, rfl⟩
  · obtain ⟨x, rfl⟩ := VT_int ha1
    rw [b_int64] at hr; simp at hr; obtain ⟨rfl, rfl⟩ := hr; exact ⟨by constructor, rfl⟩
  · obtain ⟨x, rfl⟩ := VT_int ha1
    rw [b_uint8] at hr; simp at hr; obtain ⟨rfl, rfl⟩ := hr; exact ⟨by constructor, rfl⟩
  · obtain ⟨x, rfl⟩ := VT_int ha1
    rw [b_uint16] at hr; simp at hr; obtain ⟨rfl, rfl⟩ := hr; exact ⟨by constructor, rfl⟩
  · obtain ⟨x, rfl⟩ := VT_int ha1
    rw [b_uint32] at hr; simp at hr; obtain ⟨rfl, rfl⟩ := hr; exact ⟨by constructor, rfl⟩
  · obtain ⟨x, rfl⟩ := VT_int ha1
    rw [b_uint64] at hr; simp at hr; obtain ⟨rfl, rfl⟩ := hr; exact ⟨by constructor, rfl⟩
  · obtain ⟨b, rfl⟩ := VT_bool ha1
    simp [builtin] at hr; obtain ⟨rfl, rfl⟩ := hr; exact ⟨by constructor, rfl⟩
  · obtain ⟨s, rfl⟩ := VT_str ha1
    simp [builtin] at hr; obtain ⟨rfl, rfl⟩ := hr; exact ⟨by constructor, rfl⟩
  · obtain ⟨s, rfl⟩ := VT_str ha1
    simp [builtin] at hr; obtain ⟨rfl, rfl⟩ := hr; exact ⟨.int _ _ _ (by decide), rfl⟩
  · obtain ⟨x, rfl⟩ := VT_float ha1
    rw [b_f32] at hr; simp at hr; obtain ⟨rfl, rfl⟩ := hr; exact ⟨by constructor, rfl⟩
  · obtain ⟨x, rfl⟩ := VT_float ha1
    rw [b_f64] at hr; simp at hr; obtain ⟨rfl, rfl⟩ := hr; exact ⟨by constructor, rfl⟩

theorem VTs_two {a : List Val} {t1 t2 : Ty} (h : VTs S P Ψ a [t1, t2]) : ∃ x y, a = [x, y] ∧ VT S P Ψ x t1 ∧ VT S P Ψ y t2 := by
  cases h with
  | cons h1 h2 => obtain ⟨y, rfl, hy⟩ := VTs_single h2; exact ⟨_, _, rfl, h1, hy⟩

theorem VTs_three {a : List Val} {t1 t2 t3 : Ty} (h : VTs S P Ψ a [t1, t2, t3]) :
    ∃ x y z, a = [x, y, z] ∧ VT S P Ψ x t1 ∧ VT S P Ψ y t2 ∧ VT S P Ψ z t3 := by
  cases h with
  | cons h1 h2 => obtain ⟨y, z, rfl, hy, hz⟩ := VTs_two h2; exact ⟨_, _, _, rfl, h1, hy, hz⟩

/-- the array / vector builtins respect value typing -/
theorem poly_sound {f : String} {argTys : List Ty} {ty : Ty} {θ : Subst} {args : List Val} {w w' : World} {v : Val}
    (hp : polyOk f argTys ty = true) (ha : VTs S P Ψ args (substTys θ argTys))
    (hr : (match builtin f args w with
           | some r => r
           | none => .ok .unit { w with externs := w.externs ++ [f] }) = .ok v w') :
    VT S P Ψ v (substTy θ ty) ∧ w'.store = w.store := by
  unfold polyOk at hp
  split at hp
  · -- array_get
    have := tyEq hp; subst this
    simp only [substTys, substTy] at ha
    obtain ⟨x, y, rfl, hx, hy⟩ := VTs_two ha
    obtain ⟨vs, rfl, _, hvs⟩ := VT_array hx
    obtain ⟨i, rfl⟩ := VT_int hy
    simp only [builtin] at hr
    by_cases hi : i < 0
    · simp [hi] at hr
    · cases hu : vs[i.toNat]? with
      | none => simp [hi, hu] at hr
      | some u =>
        simp [hi, hu] at hr
        obtain ⟨rfl, rfl⟩ := hr
        exact ⟨VTall_get hvs _ _ hu, rfl⟩
  · -- array_set
    simp only [Bool.and_eq_true] at hp
    have h1 := tyEq hp.1; subst h1
    have h2 := tyEq hp.2; subst h2
    simp only [substTys, substTy] at ha
    obtain ⟨x, y, z, rfl, hx, hy, hz⟩ := VTs_three ha
    obtain ⟨vs, rfl, hlen, hvs⟩ := VT_array hx
    obtain ⟨i, rfl⟩ := VT_int hy
    simp only [builtin] at hr
    by_cases hc : (decide (i < 0) || decide (i.toNat ≥ vs.length)) = true
    · simp [hc] at hr
    · simp only [hc] at hr
      simp at hr
      obtain ⟨rfl, rfl⟩ := hr
      simp only [substTy]
      exact ⟨.array (VTall_set hvs _ _ hz) (by simpa using hlen), by first | rfl | trivial⟩
  · -- vec_new
    simp only [substTys] at ha
    cases ha
    simp [builtin] at hr
    obtain ⟨rfl, rfl⟩ := hr
    cases ty <;> simp at hp
    simp only [substTy]; exact ⟨.vec .nil, by first | rfl | trivial⟩
  · -- vec_push
    simp only [Bool.and_eq_true] at hp
    have h1 := tyEq hp.1; subst h1
    have h2 := tyEq hp.2; subst h2
    simp only [substTys, substTy] at ha
    obtain ⟨x, y, rfl, hx, hy⟩ := VTs_two ha
    obtain ⟨vs, rfl, hvs⟩ := VT_vec hx
    simp [builtin] at hr
    obtain ⟨rfl, rfl⟩ := hr
    simp only [substTy]
    exact ⟨.vec (VTall_append hvs _ hy), by first | rfl | trivial⟩
  · -- vec_get
    have := tyEq hp; subst this
    simp only [substTys, substTy] at ha
    obtain ⟨x, y, rfl, hx, hy⟩ := VTs_two ha
    obtain ⟨vs, rfl, hvs⟩ := VT_vec hx
    obtain ⟨i, rfl⟩ := VT_int hy
    simp only [builtin] at hr
    by_cases hi : i < 0
    · simp [hi] at hr
    · cases hu : vs[i.toNat]? with
      | none => simp [hi, hu] at hr
      | some u =>
        simp [hi, hu] at hr
        obtain ⟨rfl, rfl⟩ := hr
        exact ⟨VTall_get hvs _ _ hu, rfl⟩
  · -- vec_len
    have := tyEq hp; subst this
    simp only [substTys, substTy] at ha
    obtain ⟨x, rfl, hx⟩ := VTs_single ha
    obtain ⟨vs, rfl, hvs⟩ := VT_vec hx
    simp [builtin] at hr
    obtain ⟨rfl, rfl⟩ := hr
    simp only [substTy]; exact ⟨.int _ _ _ (by decide), by first | rfl | trivial⟩
  · cases hp

theorem VT_ref {v : Val} {e : Ty} (h : VT S P Ψ v (.ref e)) : ∃ l, v = .ref l := by
  cases h with
  | ref _ => exact ⟨_, rfl⟩
  | enumV h1 _ _ => simp [isEnumTy] at h1
  | structV h1 _ _ => simp [isStructTy] at h1

/-! ### trait objects -/

theorem scalar_concrete : (scalarTys.all concreteTy) = true := by decide +kernel

theorem keyable_concrete {t : Ty} (h : keyable S t = true) : concreteTy t = true := by
  rcases keyable_cases h with hs | ⟨n, d, rfl, _, _⟩ | ⟨n, d, rfl, _, _⟩
  · have := scalar_concrete
    simp only [List.all_eq_true] at this
    exact this t hs
  · rfl
  · rfl

theorem VT_dyn {v : Val} {tr : String} (h : VT S P Ψ v (.dyn tr)) :
    ∃ key v0 τ0, v = .dyn tr key v0 ∧ keyable S τ0 = true ∧ VT S P Ψ v0 τ0 ∧ tyKey τ0 = key := by
  cases h with
  | dyn h1 h2 h3 => exact ⟨_, _, _, rfl, h1, h2, h3⟩
  | enumV h1 _ _ => simp [isEnumTy] at h1
  | structV h1 _ _ => simp [isStructTy] at h1

mutual
theorem replaceSelf_noSelf (self : Ty) : ∀ t : Ty, noSelf t = true → replaceSelf self t = t
  | .unit, _ | .bool, _ | .int _ _, _ | .float _, _ | .string, _ | .enum _, _ | .dyn _, _ | .tvar _, _ | .param _, _ => by
    simp [replaceSelf]
  | .struct n, h => by
    simp only [noSelf, Bool.not_eq_true', beq_eq_false_iff_ne, ne_eq] at h
    simp [replaceSelf, h]
  | .tuple ts, h => by simp only [noSelf] at h; simp [replaceSelf, replaceSelfs_noSelf self ts h]
  | .app t args, h => by
    simp only [noSelf, Bool.and_eq_true] at h
    simp [replaceSelf, replaceSelf_noSelf self t h.1, replaceSelfs_noSelf self args h.2]
  | .array _ e, h => by simp only [noSelf] at h; simp [replaceSelf, replaceSelf_noSelf self e h]
  | .vec e, h => by simp only [noSelf] at h; simp [replaceSelf, replaceSelf_noSelf self e h]
  | .ref e, h => by simp only [noSelf] at h; simp [replaceSelf, replaceSelf_noSelf self e h]
  | .func ps r, h => by
    simp only [noSelf, Bool.and_eq_true] at h
    simp [replaceSelf, replaceSelfs_noSelf self ps h.1, replaceSelf_noSelf self r h.2]
theorem replaceSelfs_noSelf (self : Ty) : ∀ ts : List Ty, noSelfs ts = true → replaceSelfs self ts = ts
  | [], _ => by simp [replaceSelfs]
  | t :: ts, h => by
    simp only [noSelfs, Bool.and_eq_true] at h
    simp [replaceSelfs, replaceSelf_noSelf self t h.1, replaceSelfs_noSelf self ts h.2]
end

/-- an object-safe method: its signature at any `Self` is `(Self, ps) -> r` with the same `ps`, `r` -/
theorem methodTy_objSafe {tr m : String} (h : objSafe S tr m = true) :
    ∃ ps r, ∀ self, methodTy S tr m self = some (.func (self :: ps) r) := by
  unfold objSafe at h
  cases hd : S.traits.find? (·.name == tr) with
  | none => simp [hd] at h
  | some d =>
    simp only [hd] at h
    cases hl : lookupTy d.methods m with
    | none => simp [hl] at h
    | some sig =>
      simp only [hl] at h
      split at h
      · rename_i s ps r heq
        injection heq with heq; subst heq
        simp only [Bool.and_eq_true] at h
        obtain ⟨⟨hs, hps⟩, hr⟩ := h
        refine ⟨ps, r, fun self => ?_⟩
        unfold methodTy
        simp only [hd, hl]
        have hself : replaceSelf self s = self := by
          cases s <;> simp [isSelf] at hs
          subst hs; simp [replaceSelf]
        simp [replaceSelf, replaceSelfs, hself, replaceSelfs_noSelf self ps hps, replaceSelf_noSelf self r hr]
      · cases h

/-- the reference builtins: allocation extends the store typing, read and write keep it -/
theorem ref_sound {f : String} {argTys : List Ty} {ty : Ty} {θ : Subst} {args : List Val} {w w' : World} {v : Val}
    (hp : refOk f argTys ty = true) (hw : WT S P Ψ w) (ha : VTs S P Ψ args (substTys θ argTys))
    (hr : (match builtin f args w with
           | some r => r
           | none => .ok .unit { w with externs := w.externs ++ [f] }) = .ok v w') :
    ∃ Ψ', Ext Ψ Ψ' ∧ WT S P Ψ' w' ∧ VT S P Ψ' v (substTy θ ty) := by
  unfold refOk at hp
  split at hp
  · -- ref
    have := tyEq hp; subst this
    simp only [substTys] at ha
    obtain ⟨a, rfl, ha1⟩ := VTs_single ha
    simp [builtin] at hr
    obtain ⟨rfl, rfl⟩ := hr
    have := ref_new_sound hw ha1
    exact ⟨_, ⟨[_], rfl⟩, this.1, by simpa [substTy] using this.2⟩
  · -- ref_get
    have := tyEq hp; subst this
    simp only [substTys, substTy] at ha
    obtain ⟨a, rfl, ha1⟩ := VTs_single ha
    obtain ⟨l, rfl⟩ := VT_ref ha1
    simp only [builtin] at hr
    cases hl : w.store[l]? with
    | none => simp [hl] at hr
    | some u =>
      simp [hl] at hr
      obtain ⟨rfl, rfl⟩ := hr
      exact ⟨Ψ, Ext.refl Ψ, hw, ref_get_sound hw ha1 hl⟩
  · -- ref_set
    simp only [Bool.and_eq_true] at hp
    have h1 := tyEq hp.1; subst h1
    have h2 := tyEq hp.2; subst h2
    simp only [substTys, substTy] at ha
    obtain ⟨x, y, rfl, hx, hy⟩ := VTs_two ha
    obtain ⟨l, rfl⟩ := VT_ref hx
    simp only [builtin] at hr
    by_cases hl : l < w.store.size
    · simp [hl] at hr
      obtain ⟨rfl, rfl⟩ := hr
      exact ⟨Ψ, Ext.refl Ψ, ref_set_sound hw hx hy, by simp only [substTy]; exact .unit⟩
    · simp [hl] at hr
  · cases hp

/-! ### constructors -/

theorem isEnumTy_subst (θ : Subst) (t : Ty) (h : isEnumTy t = true) : isEnumTy (substTy θ t) = true := by
  unfold isEnumTy at h
  split at h <;> simp_all [substTy, substTys, isEnumTy]

theorem isStructTy_subst (θ : Subst) (t : Ty) (h : isStructTy t = true) : isStructTy (substTy θ t) = true := by
  unfold isStructTy at h
  split at h <;> simp_all [substTy, substTys, isStructTy]

theorem not_enum_and_struct {t : Ty} (h1 : isEnumTy t = true) (h2 : isStructTy t = true) : False := by
  unfold isEnumTy at h1
  split at h1 <;> simp_all [isStructTy]


theorem nominalArgs_name {n m : String} {ty : Ty} (h1 : (nominalArgs n ty).isSome = true)
    (h2 : (nominalArgs m ty).isSome = true) : n = m := by
  unfold nominalArgs at h1 h2
  split at h1 <;> simp at h1 <;> simp_all

theorem enumFieldTys_of_fieldTys {tn vn : String} {idx : Nat} {ty : Ty} {fts : List Ty}
    (h : fieldTys S (.enum tn vn idx) ty = some fts) : enumFieldTys S tn idx ty = some fts := by
  unfold enumFieldTys
  simp only [fieldTys] at h ⊢
  cases hd : findEnum S.enums tn with
  | none => simp [hd] at h
  | some d =>
    simp only [hd] at h ⊢
    cases hv : d.variants[idx]? with
    | none =>
      cases hn : nominalArgs tn ty <;> simp [hn, hv] at h
    | some vd =>
      simp only []
      cases hn : nominalArgs tn ty with
      | none => simp [hn] at h
      | some targs =>
        simp only [hn, hv] at h ⊢
        split at h
        · cases h
        · obtain ⟨vn', fs⟩ := vd
          simp only [] at h ⊢
          split at h
          · rename_i hvn
            have : vn' = vn := by simpa using hvn
            subst this
            rename_i hlen
            simp only [hlen]
            simpa using h
          · cases h


/-- **the key of a well-typed value determines its type among the keyable types** -/
theorem key_determines {v : Val} {τθ τs : Ty} (hn : namesOk S = true) (hv : VT S P Ψ v τθ)
    (hk : keyable S τs = true) (heq : tyKey τs = valKey v) : τθ = τs := by
  cases hv with
  | unit => exact key_scalar_aux hn (by simp [scalarTys]) rfl hk heq
  | bool => exact key_scalar_aux hn (by simp [scalarTys]) rfl hk heq
  | str => exact key_scalar_aux hn (by simp [scalarTys]) rfl hk heq
  | int b s x hw => exact key_scalar_aux hn (int_scalar s hw) rfl hk heq
  | float b x hw => exact key_scalar_aux hn (float_scalar hw) rfl hk heq
  | tuple _ => exact (key_noQ_aux hn hk heq).elim
  | array _ _ => exact (key_noQ_aux hn hk heq).elim
  | vec _ => exact (key_noQ_aux hn hk heq).elim
  | ref _ => exact (key_noQ_aux hn hk heq).elim
  | dyn _ _ _ => exact (key_noQ_aux hn hk heq).elim
  | closure _ _ _ => exact (key_noQ_aux hn hk heq).elim
  | fn _ _ => exact (key_noQ_aux hn hk heq).elim
  | @enumV n idx args _ fts h1 h2 _ =>
    obtain ⟨d, targs, hd, hna, hlen⟩ := enumFieldTys_find h2
    have hres := namesOk_enum hn hd
    simp only [valKey] at heq
    rcases keyable_cases hk with hs | ⟨m, d', rfl, hd', hg'⟩ | ⟨m, d', rfl, hd', _⟩
    · exact (hres.1 (heq ▸ scalar_key_reserved hs)).elim
    · have : m = n := by simpa [tyKey] using heq
      subst this
      rw [hd] at hd'; injection hd' with hd'; subst hd'
      unfold isEnumTy at h1
      split at h1
      · rename_i n'
        simp only [nominalArgs] at hna
        split at hna
        · rename_i hnn; have : n' = m := by simpa using hnn
          rw [this]
        · cases hna
      · rename_i n' a as
        simp only [nominalArgs] at hna
        split at hna
        · injection hna with hna; subst hna
          rw [hg'] at hlen; simp at hlen
        · cases hna
      · cases h1
    · have : m = n := by simpa [tyKey] using heq
      subst this
      rw [hres.2] at hd'; cases hd'
  | @structV n fs _ fts h1 h2 _ =>
    obtain ⟨d, targs, hd, hna, hlen⟩ := structFieldTys_find h2
    have hres := namesOk_struct hn hd
    simp only [valKey] at heq
    rcases keyable_cases hk with hs | ⟨m, d', rfl, hd', _⟩ | ⟨m, d', rfl, hd', hg'⟩
    · exact (hres (heq ▸ scalar_key_reserved hs)).elim
    · have : m = n := by simpa [tyKey] using heq
      subst this
      have := (namesOk_enum hn hd').2
      rw [this] at hd; cases hd
    · have : m = n := by simpa [tyKey] using heq
      subst this
      rw [hd] at hd'; injection hd' with hd'; subst hd'
      unfold isStructTy at h1
      split at h1
      · rename_i n'
        simp only [nominalArgs] at hna
        split at hna
        · rename_i hnn; have : n' = m := by simpa using hnn
          rw [this]
        · cases hna
      · rename_i n' a as
        simp only [nominalArgs] at hna
        split at hna
        · injection hna with hna; subst hna
          rw [hg'] at hlen; simp at hlen
        · cases hna
      · cases h1


end Goml.ValTyR
