import GomlVerif.Lemmas.ValTy2Ops
import GomlVerif.Lemmas.ValTySound
/-!
Type soundness of `Sem` w.r.t. `Wt` WITH references (C03): the induction of `Lemmas/ValTySound.lean` over the
store-typed value typing `ValTyR.VT S P Ψ`.  Every statement takes the world invariant `WT S P Ψ w` and returns an
append-only extension `Ψ'` of the store typing with `WT S P Ψ' w'` and the value typed under `Ψ'`; values and
environments that cross a sub-evaluation are weakened along the extension (`VT.mono`, `ET.mono`).
-/
namespace Goml.ValTyR
open Goml Goml.Sem Goml.Wt Goml.Mono Goml.ValTy

structure SoundAt (S : Sig) (P : Prog) (n : Nat) : Prop where
  expr : ∀ {e : Expr} {ρ : Env} {w : World} {Γ : TyEnv} {K : Know} {θ : Subst} {Ψ : List Ty} {v : Val} {w' : World},
    okE S P true Γ K e = true → errs S Γ e = [] → ET S P Ψ θ ρ Γ → KOk K ρ → WT S P Ψ w →
    eval n P ρ w e = .ok v w' → ∃ Ψ', Ext Ψ Ψ' ∧ WT S P Ψ' w' ∧ VT S P Ψ' v (substTy θ (getTy e))
  list : ∀ {es : List Expr} {ρ : Env} {w : World} {Γ : TyEnv} {K : Know} {θ : Subst} {Ψ : List Ty} {vs : List Val} {w' : World},
    okL S P true Γ K es = true → errsList S Γ es = [] → ET S P Ψ θ ρ Γ → KOk K ρ → WT S P Ψ w →
    evalList n P ρ w es = .ok vs w' → ∃ Ψ', Ext Ψ Ψ' ∧ WT S P Ψ' w' ∧ VTs S P Ψ' vs (substTys θ (getTys es))
  arms : ∀ {arms : List Arm} {d : Option Expr} {ρ : Env} {w : World} {Γ : TyEnv} {K : Know} {θ : Subst} {Ψ : List Ty}
    {sv : Option String} {st rt : Ty} {sval v : Val} {w' : World},
    okA S P true Γ K sv arms = true → errsArms S Γ st rt arms = [] →
    (∀ d0, d = some d0 → okE S P true Γ K d0 = true ∧ errs S Γ d0 = [] ∧ getTy d0 = rt) →
    ET S P Ψ θ ρ Γ → KOk K ρ → WT S P Ψ w → (∀ x, sv = some x → lookupEnv ρ x = some sval) →
    evalArms n P ρ w sval arms d = .ok v w' → ∃ Ψ', Ext Ψ Ψ' ∧ WT S P Ψ' w' ∧ VT S P Ψ' v (substTy θ rt)
  app : ∀ {name : String} {g : Fn} {θ : Subst} {Ψ : List Ty} {args : List Val} {w : World} {v : Val} {w' : World},
    P.findFn name = some g → VTs S P Ψ args (substTys θ (g.params.map (·.2))) → WT S P Ψ w →
    apply n P w (.fn name) args = .ok v w' → ∃ Ψ', Ext Ψ Ψ' ∧ WT S P Ψ' w' ∧ VT S P Ψ' v (substTy θ g.ret)
  appv : ∀ {fv : Val} {as : List Ty} {r : Ty} {Ψ : List Ty} {args : List Val} {w : World} {v : Val} {w' : World},
    VT S P Ψ fv (.func as r) → VTs S P Ψ args as → WT S P Ψ w → apply n P w fv args = .ok v w' →
    ∃ Ψ', Ext Ψ Ψ' ∧ WT S P Ψ' w' ∧ VT S P Ψ' v r

section
variable {S : Sig} {P : Prog}

theorem okProg_fn (hP : okProg S P true = true) {name : String} {g : Fn} (h : P.findFn name = some g) :
    errs S (bindAll g.params []) g.body = [] ∧ getTy g.body = g.ret ∧ okE S P true (bindAll g.params []) [] g.body = true := by
  unfold okProg at hP
  simp only [List.all_eq_true] at hP
  have hm : g ∈ P.fns := List.mem_of_find?_eq_some h
  have := hP g hm
  unfold okFn wtFn fnErrs at this
  simp only [Bool.and_eq_true, List.isEmpty_iff, List.append_eq_nil_iff, checkEq_nil] at this
  exact ⟨this.1.1, this.1.2, this.2⟩

theorem step_app (hP : okProg S P true = true) {n : Nat} (ih : SoundAt S P n)
    {name : String} {g : Fn} {θ : Subst} {Ψ : List Ty} {args : List Val} {w : World} {v : Val} {w' : World}
    (hg : P.findFn name = some g) (ha : VTs S P Ψ args (substTys θ (g.params.map (·.2)))) (hw : WT S P Ψ w)
    (hev : apply (n + 1) P w (.fn name) args = .ok v w') :
    ∃ Ψ', Ext Ψ Ψ' ∧ WT S P Ψ' w' ∧ VT S P Ψ' v (substTy θ g.ret) := by
  rw [apply_fn, hg] at hev
  simp only [] at hev
  obtain ⟨herr, hret, hok⟩ := okProg_fn hP hg
  have hρ := ET_bind (S := S) (P := P) (Ψ := Ψ) (θ := θ) g.params args [] [] ha .nil
  have := ih.expr hok herr hρ (KOk_nil _) hw hev
  rwa [hret] at this

theorem step_list {n : Nat} (ih : SoundAt S P n) {es : List Expr} {ρ : Env} {w : World} {Γ : TyEnv} {K : Know}
    {θ : Subst} {Ψ : List Ty} {vs : List Val} {w' : World} (hok : okL S P true Γ K es = true) (herr : errsList S Γ es = [])
    (hρ : ET S P Ψ θ ρ Γ) (hK : KOk K ρ) (hw : WT S P Ψ w) (hev : evalList (n + 1) P ρ w es = .ok vs w') :
    ∃ Ψ', Ext Ψ Ψ' ∧ WT S P Ψ' w' ∧ VTs S P Ψ' vs (substTys θ (getTys es)) := by
  cases es with
  | nil =>
    rw [evalList_nil_at] at hev
    obtain ⟨rfl, rfl⟩ := res_ok_inj hev
    exact ⟨Ψ, Ext.refl Ψ, hw, by simp only [getTys, substTys]; exact .nil⟩
  | cons e es =>
    simp only [okL, Bool.and_eq_true] at hok
    simp only [errsList, List.append_eq_nil_iff] at herr
    rw [evalList_cons_at] at hev
    cases h1 : eval n P ρ w e with
    | fail f w1 => rw [h1] at hev; simp at hev
    | ok v1 w1 =>
      rw [h1] at hev; simp only [Res.andThen_ok] at hev
      obtain ⟨Ψ1, hx1, hw1, hv1⟩ := ih.expr hok.1 herr.1 hρ hK hw h1
      cases h2 : evalList n P ρ w1 es with
      | fail f w2 => rw [h2] at hev; simp at hev
      | ok vs2 w2 =>
        rw [h2] at hev; simp only [Res.andThen_ok] at hev
        obtain ⟨rfl, rfl⟩ := res_ok_inj hev
        obtain ⟨Ψ2, hx2, hw2, hv2⟩ := ih.list hok.2 herr.2 (hρ.mono hx1) hK hw1 h2
        exact ⟨Ψ2, hx1.trans hx2, hw2, by simp only [getTys, substTys]; exact .cons (hv1.mono hx2) hv2⟩

theorem step_arms {n : Nat} (ih : SoundAt S P n) {arms : List Arm} {d : Option Expr} {ρ : Env} {w : World}
    {Γ : TyEnv} {K : Know} {θ : Subst} {Ψ : List Ty} {sv : Option String} {st rt : Ty} {sval v : Val} {w' : World}
    (hok : okA S P true Γ K sv arms = true) (herr : errsArms S Γ st rt arms = [])
    (hd : ∀ d0, d = some d0 → okE S P true Γ K d0 = true ∧ errs S Γ d0 = [] ∧ getTy d0 = rt)
    (hρ : ET S P Ψ θ ρ Γ) (hK : KOk K ρ) (hw : WT S P Ψ w) (hsv : ∀ x, sv = some x → lookupEnv ρ x = some sval)
    (hev : evalArms (n + 1) P ρ w sval arms d = .ok v w') :
    ∃ Ψ', Ext Ψ Ψ' ∧ WT S P Ψ' w' ∧ VT S P Ψ' v (substTy θ rt) := by
  cases arms with
  | nil =>
    rw [evalArms_nil_at] at hev
    cases d with
    | none => simp at hev
    | some d0 =>
      simp only [] at hev
      obtain ⟨h1, h2, h3⟩ := hd d0 rfl
      have := ih.expr h1 h2 hρ hK hw hev
      rwa [h3] at this
  | cons a rest =>
    obtain ⟨lhs, body⟩ := a
    simp only [okA, Bool.and_eq_true] at hok
    simp only [errsArms, List.append_eq_nil_iff, checkEq_nil] at herr
    obtain ⟨⟨⟨_, hbody⟩, hbt⟩, hrest⟩ := herr
    rw [evalArms_cons_at] at hev
    by_cases hm : armMatches lhs sval = true
    · rw [if_pos hm] at hev
      have hres : ∀ K', KOk K' ρ → okE S P true Γ K' body = true →
          ∃ Ψ', Ext Ψ Ψ' ∧ WT S P Ψ' w' ∧ VT S P Ψ' v (substTy θ rt) := by
        intro K' hK' hok'
        have := ih.expr hok' hbody hρ hK' hw hev
        rwa [hbt] at this
      cases lhs with
      | constr c t as =>
        cases c with
        | enum a b idx =>
          simp only [] at hok
          obtain ⟨nn, args, rfl⟩ := armMatches_enum hm
          refine hres _ ?_ hok.1
          cases sv with
          | none => exact hK
          | some x => exact KOk_learn hK (hsv x rfl)
        | struct _ => simp at hok
      | prim p => exact hres K hK hok.1
      | _ => simp at hok
    · rw [if_neg hm] at hev
      exact ih.arms hok.2 hrest hd hρ hK hw hsv hev

theorem eval_local {n : Nat} {ρ : Env} {w : World} {Γ : TyEnv} {θ : Subst} {Ψ : List Ty} {x : String} {t : Ty} {v : Val} {w' : World}
    (hl : (lookupVar Γ x).isSome = true) (hρ : ET S P Ψ θ ρ Γ) (hev : eval n P ρ w (.var x t) = .ok v w') :
    w' = w ∧ lookupEnv ρ x = some v ∧ ∃ t0, lookupVar Γ x = some t0 ∧ VT S P Ψ v (substTy θ t0) := by
  cases n with
  | zero => rw [eval_zero] at hev; cases hev
  | succ n =>
    rw [eval_var] at hev
    have := ET_lookup hρ x
    cases hx : lookupVar Γ x with
    | none => simp [hx] at hl
    | some t0 =>
      simp only [hx] at this
      obtain ⟨v0, h1, h2⟩ := this
      rw [h1] at hev
      obtain ⟨rfl, rfl⟩ := res_ok_inj hev
      exact ⟨rfl, h1, t0, rfl, h2⟩

theorem step_appv (hP : okProg S P true = true) {n : Nat} (ih : SoundAt S P n)
    {fv : Val} {as : List Ty} {r : Ty} {Ψ : List Ty} {args : List Val} {w : World} {v : Val} {w' : World}
    (hf : VT S P Ψ fv (.func as r)) (ha : VTs S P Ψ args as) (hw : WT S P Ψ w)
    (hev : apply (n + 1) P w fv args = .ok v w') : ∃ Ψ', Ext Ψ Ψ' ∧ WT S P Ψ' w' ∧ VT S P Ψ' v r := by
  generalize hτ : Ty.func as r = τ at hf
  cases hf with
  | @closure θc ρc Γc pts body hρc herr hok =>
    injection hτ with h1 h2
    subst h1; subst h2
    rw [apply_closure] at hev
    exact ih.expr hok herr (ET_bind pts args ρc Γc ha hρc) (KOk_nil _) hw hev
  | @fn name g θ' hg =>
    unfold fnTy at hτ
    rw [substTy_func] at hτ
    injection hτ with h1 h2
    subst h1; subst h2
    exact step_app hP ih hg ha hw hev
  | enumV h1 _ _ => subst hτ; simp [isEnumTy] at h1
  | structV h1 _ _ => subst hτ; simp [isStructTy] at h1
  | _ => cases hτ

end
end Goml.ValTyR
