import GomlVerif.Lemmas.ValTy2Ops
import GomlVerif.Lemmas.ValTySound
/-!
Type soundness of `Sem` w.r.t. `Wt` WITH references (C03): the induction of `Lemmas/ValTySound.lean` over the
store-typed value typing `ValTyR.VT S P Ψ`.  Every statement takes the world invariant `WT S P Ψ w` and returns an
append-only extension `Ψ'` of the store typing with `WT S P Ψ' w'` and the value typed under `Ψ'`; values and
environments that cross a sub-evaluation are weakened along the extension (`VT.mono`, `ET.mono`).
-/
namespace Goml.ValTyR
open Goml Goml.Sem Goml.Wt Goml.Mono Goml.ValTy

structure SoundAt (S : Sig) (P : Prog) (n : Nat) : Prop where
  expr : ∀ {e : Expr} {ρ : Env} {w : World} {Γ : TyEnv} {K : Know} {θ : Subst} {Ψ : List Ty} {v : Val} {w' : World},
    okE S P true Γ K e = true → errs S Γ e = [] → ET S P Ψ θ ρ Γ → KOk K ρ → WT S P Ψ w →
    eval n P ρ w e = .ok v w' → ∃ Ψ', Ext Ψ Ψ' ∧ WT S P Ψ' w' ∧ VT S P Ψ' v (substTy θ (getTy e))
  list : ∀ {es : List Expr} {ρ : Env} {w : World} {Γ : TyEnv} {K : Know} {θ : Subst} {Ψ : List Ty} {vs : List Val} {w' : World},
    okL S P true Γ K es = true → errsList S Γ es = [] → ET S P Ψ θ ρ Γ → KOk K ρ → WT S P Ψ w →
    evalList n P ρ w es = .ok vs w' → ∃ Ψ', Ext Ψ Ψ' ∧ WT S P Ψ' w' ∧ VTs S P Ψ' vs (substTys θ (getTys es))
  arms : ∀ {arms : List Arm} {d : Option Expr} {ρ : Env} {w : World} {Γ : TyEnv} {K : Know} {θ : Subst} {Ψ : List Ty}
    {sv : Option String} {st rt : Ty} {sval v : Val} {w' : World},
    okA S P true Γ K sv arms = true → errsArms S Γ st rt arms = [] →
    (∀ d0, d = some d0 → okE S P true Γ K d0 = true ∧ errs S Γ d0 = [] ∧ getTy d0 = rt) →
    ET S P Ψ θ ρ Γ → KOk K ρ → WT S P Ψ w → (∀ x, sv = some x → lookupEnv ρ x = some sval) →
    evalArms n P ρ w sval arms d = .ok v w' → ∃ Ψ', Ext Ψ Ψ' ∧ WT S P Ψ' w' ∧ VT S P Ψ' v (substTy θ rt)
  app : ∀ {name : String} {g : Fn} {θ : Subst} {Ψ : List Ty} {args : List Val} {w : World} {v : Val} {w' : World},
    P.findFn name = some g → VTs S P Ψ args (substTys θ (g.params.map (·.2))) → WT S P Ψ w →
    apply n P w (.fn name) args = .ok v w' → ∃ Ψ', Ext Ψ Ψ' ∧ WT S P Ψ' w' ∧ VT S P Ψ' v (substTy θ g.ret)
  appv : ∀ {fv : Val} {as : List Ty} {r : Ty} {Ψ : List Ty} {args : List Val} {w : World} {v : Val} {w' : World},
    VT S P Ψ fv (.func as r) → VTs S P Ψ args as → WT S P Ψ w → apply n P w fv args = .ok v w' →
    ∃ Ψ', Ext Ψ Ψ' ∧ WT S P Ψ' w' ∧ VT S P Ψ' v r

section
variable {S : Sig} {P : Prog}

theorem okProg_fn (hP : okProg S P true = true) {name : String} {g : Fn} (h : P.findFn name = some g) :
    errs S (bindAll g.params []) g.body = [] ∧ getTy g.body = g.ret ∧ okE S P true (bindAll g.params []) [] g.body = true := by
  unfold okProg at hP
  simp only [List.all_eq_true] at hP
  have hm : g ∈ P.fns := List.mem_of_find?_eq_some h
  have := hP g hm
  unfold okFn wtFn fnErrs at this
  simp only [Bool.and_eq_true, List.isEmpty_iff, List.append_eq_nil_iff, checkEq_nil] at this
  exact ⟨this.1.1, this.1.2, this.2⟩

theorem step_app (hP : okProg S P true = true) {n : Nat} (ih : SoundAt S P n)
    {name : String} {g : Fn} {θ : Subst} {Ψ : List Ty} {args : List Val} {w : World} {v : Val} {w' : World}
    (hg : P.findFn name = some g) (ha : VTs S P Ψ args (substTys θ (g.params.map (·.2)))) (hw : WT S P Ψ w)
    (hev : apply (n + 1) P w (.fn name) args = .ok v w') :
    ∃ Ψ', Ext Ψ Ψ' ∧ WT S P Ψ' w' ∧ VT S P Ψ' v (substTy θ g.ret) := by
  rw [apply_fn, hg] at hev
  simp only [] at hev
  obtain ⟨herr, hret, hok⟩ := okProg_fn hP hg
  have hρ := ET_bind (S := S) (P := P) (Ψ := Ψ) (θ := θ) g.params args [] [] ha .nil
  have := ih.expr hok herr hρ (KOk_nil _) hw hev
  rwa [hret] at this

theorem step_list {n : Nat} (ih : SoundAt S P n) {es : List Expr} {ρ : Env} {w : World} {Γ : TyEnv} {K : Know}
    {θ : Subst} {Ψ : List Ty} {vs : List Val} {w' : World} (hok : okL S P true Γ K es = true) (herr : errsList S Γ es = [])
    (hρ : ET S P Ψ θ ρ Γ) (hK : KOk K ρ) (hw : WT S P Ψ w) (hev : evalList (n + 1) P ρ w es = .ok vs w') :
    ∃ Ψ', Ext Ψ Ψ' ∧ WT S P Ψ' w' ∧ VTs S P Ψ' vs (substTys θ (getTys es)) := by
  cases es with
  | nil =>
    rw [evalList_nil_at] at hev
    obtain ⟨rfl, rfl⟩ := res_ok_inj hev
    exact ⟨Ψ, Ext.refl Ψ, hw, by simp only [getTys, substTys]; exact .nil⟩
  | cons e es =>
    simp only [okL, Bool.and_eq_true] at hok
    simp only [errsList, List.append_eq_nil_iff] at herr
    rw [evalList_cons_at] at hev
    cases h1 : eval n P ρ w e with
    | fail f w1 => rw [h1] at hev; simp at hev
    | ok v1 w1 =>
      rw [h1] at hev; simp only [Res.andThen_ok] at hev
      obtain ⟨Ψ1, hx1, hw1, hv1⟩ := ih.expr hok.1 herr.1 hρ hK hw h1
      cases h2 : evalList n P ρ w1 es with
      | fail f w2 => rw [h2] at hev; simp at hev
      | ok vs2 w2 =>
        rw [h2] at hev; simp only [Res.andThen_ok] at hev
        obtain ⟨rfl, rfl⟩ := res_ok_inj hev
        obtain ⟨Ψ2, hx2, hw2, hv2⟩ := ih.list hok.2 herr.2 (hρ.mono hx1) hK hw1 h2
        exact ⟨Ψ2, hx1.trans hx2, hw2, by simp only [getTys, substTys]; exact .cons (hv1.mono hx2) hv2⟩

theorem step_arms {n : Nat} (ih : SoundAt S P n) {arms : List Arm} {d : Option Expr} {ρ : Env} {w : World}
    {Γ : TyEnv} {K : Know} {θ : Subst} {Ψ : List Ty} {sv : Option String} {st rt : Ty} {sval v : Val} {w' : World}
    (hok : okA S P true Γ K sv arms = true) (herr : errsArms S Γ st rt arms = [])
    (hd : ∀ d0, d = some d0 → okE S P true Γ K d0 = true ∧ errs S Γ d0 = [] ∧ getTy d0 = rt)
    (hρ : ET S P Ψ θ ρ Γ) (hK : KOk K ρ) (hw : WT S P Ψ w) (hsv : ∀ x, sv = some x → lookupEnv ρ x = some sval)
    (hev : evalArms (n + 1) P ρ w sval arms d = .ok v w') :
    ∃ Ψ', Ext Ψ Ψ' ∧ WT S P Ψ' w' ∧ VT S P Ψ' v (substTy θ rt) := by
  cases arms with
  | nil =>
    rw [evalArms_nil_at] at hev
    cases d with
    | none => simp at hev
    | some d0 =>
      simp only [] at hev
      obtain ⟨h1, h2, h3⟩ := hd d0 rfl
      have := ih.expr h1 h2 hρ hK hw hev
      rwa [h3] at this
  | cons a rest =>
    obtain ⟨lhs, body⟩ := a
    simp only [okA, Bool.and_eq_true] at hok
    simp only [errsArms, List.append_eq_nil_iff, checkEq_nil] at herr
    obtain ⟨⟨⟨_, hbody⟩, hbt⟩, hrest⟩ := herr
    rw [evalArms_cons_at] at hev
    by_cases hm : armMatches lhs sval = true
    · rw [if_pos hm] at hev
      have hres : ∀ K', KOk K' ρ → okE S P true Γ K' body = true →
          ∃ Ψ', Ext Ψ Ψ' ∧ WT S P Ψ' w' ∧ VT S P Ψ' v (substTy θ rt) := by
        intro K' hK' hok'
        have := ih.expr hok' hbody hρ hK' hw hev
        rwa [hbt] at this
      cases lhs with
      | constr c t as =>
        cases c with
        | enum a b idx =>
          simp only [] at hok
          obtain ⟨nn, args, rfl⟩ := armMatches_enum hm
          refine hres _ ?_ hok.1
          cases sv with
          | none => exact hK
          | some x => exact KOk_learn hK (hsv x rfl)
        | struct _ => simp at hok
      | prim p => exact hres K hK hok.1
      | _ => simp at hok
    · rw [if_neg hm] at hev
      exact ih.arms hok.2 hrest hd hρ hK hw hsv hev

theorem eval_local {n : Nat} {ρ : Env} {w : World} {Γ : TyEnv} {θ : Subst} {Ψ : List Ty} {x : String} {t : Ty} {v : Val} {w' : World}
    (hl : (lookupVar Γ x).isSome = true) (hρ : ET S P Ψ θ ρ Γ) (hev : eval n P ρ w (.var x t) = .ok v w') :
    w' = w ∧ lookupEnv ρ x = some v ∧ ∃ t0, lookupVar Γ x = some t0 ∧ VT S P Ψ v (substTy θ t0) := by
  cases n with
  | zero => rw [eval_zero] at hev; cases hev
  | succ n =>
    rw [eval_var] at hev
    have := ET_lookup hρ x
    cases hx : lookupVar Γ x with
    | none => simp [hx] at hl
    | some t0 =>
      simp only [hx] at this
      obtain ⟨v0, h1, h2⟩ := this
      rw [h1] at hev
      obtain ⟨rfl, rfl⟩ := res_ok_inj hev
      exact ⟨rfl, h1, t0, rfl, h2⟩

theorem step_appv (hP : okProg S P true = true) {n : Nat} (ih : SoundAt S P n)
    {fv : Val} {as : List Ty} {r : Ty} {Ψ : List Ty} {args : List Val} {w : World} {v : Val} {w' : World}
    (hf : VT S P Ψ fv (.func as r)) (ha : VTs S P Ψ args as) (hw : WT S P Ψ w)
    (hev : apply (n + 1) P w fv args = .ok v w') : ∃ Ψ', Ext Ψ Ψ' ∧ WT S P Ψ' w' ∧ VT S P Ψ' v r := by
  generalize hτ : Ty.func as r = τ at hf
  cases hf with
  | @closure θc ρc Γc pts body hρc herr hok =>
    injection hτ with h1 h2
    subst h1; subst h2
    rw [apply_closure] at hev
    exact ih.expr hok herr (ET_bind pts args ρc Γc ha hρc) (KOk_nil _) hw hev
  | @fn name g θ' hg =>
    unfold fnTy at hτ
    rw [substTy_func] at hτ
    injection hτ with h1 h2
    subst h1; subst h2
    exact step_app hP ih hg ha hw hev
  | enumV h1 _ _ => subst hτ; simp [isEnumTy] at h1
  | structV h1 _ _ => subst hτ; simp [isStructTy] at h1
  | _ => cases hτ

theorem step_expr (hS : SigClosed S) (hP : okProg S P true = true) {n : Nat} (ih : SoundAt S P n)
    {e : Expr} {ρ : Env} {w : World} {Γ : TyEnv} {K : Know} {θ : Subst} {Ψ : List Ty} {v : Val} {w' : World}
    (hok : okE S P true Γ K e = true) (herr : errs S Γ e = []) (hρ : ET S P Ψ θ ρ Γ) (hK : KOk K ρ) (hw : WT S P Ψ w)
    (hev : eval (n + 1) P ρ w e = .ok v w') : ∃ Ψ', Ext Ψ Ψ' ∧ WT S P Ψ' w' ∧ VT S P Ψ' v (substTy θ (getTy e)) := by
  cases e with
  | var x t =>
    simp only [okE, Bool.or_eq_true] at hok
    by_cases hloc : (lookupVar Γ x).isSome = true
    · obtain ⟨rfl, _, t0, ht0, hv⟩ := eval_local hloc hρ hev
      simp only [errs, ht0, check_nil] at herr
      have := tyEq herr; subst this
      exact ⟨Ψ, Ext.refl Ψ, hw, by simpa [getTy] using hv⟩
    · have hfn : fnValOk P x t = true := by
        rcases hok with h | h
        · exact absurd h hloc
        · exact h
      have hnone : lookupVar Γ x = none := by
        cases hx : lookupVar Γ x with
        | none => rfl
        | some _ => simp [hx] at hloc
      have hlk : lookupEnv ρ x = none := by
        have := ET_lookup hρ x
        simpa [hnone] using this
      rw [eval_var, hlk] at hev
      obtain ⟨rfl, rfl⟩ := res_ok_inj hev
      unfold fnValOk at hfn
      cases hg : P.findFn x with
      | none => simp [hg] at hfn
      | some g =>
        simp only [hg] at hfn
        unfold instSubst at hfn
        cases hm : matchTy (fnTy g) t [] with
        | none => simp [hm] at hfn
        | some σ =>
          simp only [hm] at hfn
          by_cases hinst : tyBeq (substTy σ (fnTy g)) t = true
          · have hinst := tyEq hinst
            refine ⟨Ψ, Ext.refl Ψ, hw, ?_⟩
            simp only [getTy, Option.getD_none]
            rw [← hinst, ← substTy_compS]
            exact .fn _ hg
          · simp [hinst] at hfn
  | prim p =>
    rw [eval_prim] at hev
    obtain ⟨rfl, rfl⟩ := res_ok_inj hev
    exact ⟨Ψ, Ext.refl Ψ, hw, by simp only [getTy, substTy_primTy]; exact VT_prim p (by simpa [okE] using hok)⟩
  | tag i t => simp [okE] at hok
  | constr c t args =>
    simp only [okE, Bool.and_eq_true] at hok
    simp only [errs, List.append_eq_nil_iff] at herr
    obtain ⟨hargs, hfts⟩ := herr
    rw [eval_constr] at hev
    cases h1 : evalList n P ρ w args with
    | fail f w1 => rw [h1] at hev; simp at hev
    | ok vs w1 =>
      rw [h1] at hev; simp only [Res.andThen_ok] at hev
      obtain ⟨Ψ1, hx1, hw1, hvs⟩ := ih.list hok.2 hargs hρ hK hw h1
      cases hf : fieldTys S c t with
      | none => simp [hf] at hfts
      | some fts =>
        simp only [hf, check_nil] at hfts
        have := tysBeq_eq.1 hfts
        rw [← this] at hvs
        have hf' := fieldTys_subst S hS θ c t fts hf
        simp only [getTy]
        cases c with
        | enum tn vn idx =>
          simp only [] at hev
          obtain ⟨rfl, rfl⟩ := res_ok_inj hev
          have hk : isEnumTy (substTy θ t) = true := isEnumTy_subst θ t (by simpa [ctorTyOk] using hok.1)
          exact ⟨Ψ1, hx1, hw1, .enumV hk (enumFieldTys_of_fieldTys hf') hvs⟩
        | struct tn =>
          simp only [] at hev
          obtain ⟨rfl, rfl⟩ := res_ok_inj hev
          have hk : isStructTy (substTy θ t) = true := isStructTy_subst θ t (by simpa [ctorTyOk] using hok.1)
          exact ⟨Ψ1, hx1, hw1, .structV hk hf' hvs⟩
  | tuple t items =>
    simp only [okE] at hok
    simp only [errs, List.append_eq_nil_iff, checkEq_nil] at herr
    rw [eval_tuple] at hev
    cases h1 : evalList n P ρ w items with
    | fail f w1 => rw [h1] at hev; simp at hev
    | ok vs w1 =>
      rw [h1] at hev; simp only [Res.andThen_ok] at hev
      obtain ⟨rfl, rfl⟩ := res_ok_inj hev
      obtain ⟨Ψ1, hx1, hw1, hvs⟩ := ih.list hok herr.1 hρ hK hw h1
      exact ⟨Ψ1, hx1, hw1, by simp only [getTy, herr.2, substTy]; exact .tuple hvs⟩
  | array t items =>
    simp only [okE] at hok
    simp only [errs, List.append_eq_nil_iff] at herr
    obtain ⟨hitems, hty⟩ := herr
    rw [eval_array] at hev
    cases h1 : evalList n P ρ w items with
    | fail f w1 => rw [h1] at hev; simp at hev
    | ok vs w1 =>
      rw [h1] at hev; simp only [Res.andThen_ok] at hev
      obtain ⟨rfl, rfl⟩ := res_ok_inj hev
      obtain ⟨Ψ1, hx1, hw1, hvs⟩ := ih.list hok hitems hρ hK hw h1
      cases t with
      | array nn e =>
        simp only [List.append_eq_nil_iff, check_nil, beq_iff_eq] at hty
        obtain ⟨hn, hall⟩ := hty
        refine ⟨Ψ1, hx1, hw1, ?_⟩
        simp only [getTy, substTy]
        refine .array (VTs_all hvs ?_) ?_
        · intro u hu
          rw [substTys_map] at hu
          obtain ⟨u0, hu0, rfl⟩ := List.mem_map.1 hu
          rw [allTyEq_all hall u0 hu0]
        · rw [VTs_length hvs, substTys_length, getTys_length]; exact hn.symm
      | _ => simp at hty
  | closure t ps body =>
    simp only [okE] at hok
    simp only [errs, List.append_eq_nil_iff, checkEq_nil] at herr
    rw [eval_closure] at hev
    obtain ⟨rfl, rfl⟩ := res_ok_inj hev
    exact ⟨Ψ, Ext.refl Ψ, hw, by simp only [getTy, herr.2, substTy_func]; exact .closure hρ herr.1 hok⟩
  | letE x v0 b =>
    simp only [okE, Bool.and_eq_true] at hok
    simp only [errs, List.append_eq_nil_iff] at herr
    rw [eval_letE] at hev
    cases h1 : eval n P ρ w v0 with
    | fail f w1 => rw [h1] at hev; simp at hev
    | ok vv w1 =>
      rw [h1] at hev; simp only [Res.andThen_ok] at hev
      obtain ⟨Ψ1, hx1, hw1, hvv⟩ := ih.expr hok.1 herr.1 hρ hK hw h1
      obtain ⟨Ψ2, hx2, hw2, hv2⟩ := ih.expr hok.2 herr.2 (.cons hvv (hρ.mono hx1)) (KOk_drop hK x vv) hw1 hev
      exact ⟨Ψ2, hx1.trans hx2, hw2, by simpa [getTy] using hv2⟩
  | matchE t s arms d =>
    have hok' : okE S P true Γ K s = true ∧ okA S P true Γ K (scrutLocal Γ s) arms = true ∧
        (∀ d0, d = some d0 → okE S P true Γ K d0 = true) := by
      cases d with
      | none =>
        simp only [okE, Bool.and_eq_true] at hok
        exact ⟨hok.1.1, hok.1.2, fun d0 h => by cases h⟩
      | some d1 =>
        simp only [okE, Bool.and_eq_true] at hok
        exact ⟨hok.1.1, hok.1.2, fun d0 h => by cases h; exact hok.2⟩
    obtain ⟨hs, harms, hdok⟩ := hok'
    rw [eval_matchE] at hev
    have herr' : errs S Γ s = [] ∧ errsArms S Γ (getTy s) t arms = [] ∧
        (∀ d0, d = some d0 → okE S P true Γ K d0 = true ∧ errs S Γ d0 = [] ∧ getTy d0 = t) := by
      cases d with
      | none =>
        simp only [errs, List.append_eq_nil_iff] at herr
        exact ⟨herr.1, herr.2, fun d0 h => by cases h⟩
      | some d1 =>
        simp only [errs, List.append_eq_nil_iff, checkEq_nil] at herr
        refine ⟨herr.1.1.1, herr.1.1.2, ?_⟩
        intro d0 h; cases h
        exact ⟨hdok _ rfl, herr.1.2, herr.2⟩
    obtain ⟨hse, hae, hde⟩ := herr'
    cases h1 : eval n P ρ w s with
    | fail f w1 => rw [h1] at hev; simp at hev
    | ok sval w1 =>
      rw [h1] at hev; simp only [Res.andThen_ok] at hev
      obtain ⟨Ψ1, hx1, hw1, _⟩ := ih.expr hs hse hρ hK hw h1
      have hsv : ∀ x, scrutLocal Γ s = some x → lookupEnv ρ x = some sval := by
        intro x hx
        cases s <;> simp [scrutLocal, scrutVar] at hx
        obtain ⟨hl, rfl⟩ := hx
        exact (eval_local hl hρ h1).2.1
      obtain ⟨Ψ2, hx2, hw2, hv2⟩ := ih.arms harms hae hde (hρ.mono hx1) hK hw1 hsv hev
      exact ⟨Ψ2, hx1.trans hx2, hw2, by simpa [getTy] using hv2⟩
  | ite c t e2 =>
    simp only [okE, Bool.and_eq_true] at hok
    simp only [errs, List.append_eq_nil_iff, checkEq_nil] at herr
    obtain ⟨⟨⟨⟨hc, ht⟩, he⟩, _⟩, hte⟩ := herr
    rw [eval_ite] at hev
    cases h1 : eval n P ρ w c with
    | fail f w1 => rw [h1] at hev; simp at hev
    | ok vc w1 =>
      rw [h1] at hev; simp only [Res.andThen_ok] at hev
      obtain ⟨Ψ1, hx1, hw1, _⟩ := ih.expr hok.1.1 hc hρ hK hw h1
      simp only [getTy]
      split at hev
      · obtain ⟨Ψ2, hx2, hw2, hv2⟩ := ih.expr hok.1.2 ht (hρ.mono hx1) hK hw1 hev
        exact ⟨Ψ2, hx1.trans hx2, hw2, hv2⟩
      · obtain ⟨Ψ2, hx2, hw2, hv2⟩ := ih.expr hok.2 he (hρ.mono hx1) hK hw1 hev
        exact ⟨Ψ2, hx1.trans hx2, hw2, by rw [hte]; exact hv2⟩
      · cases hev
  | «while» c b =>
    have hok0 := hok
    have herr0 := herr
    simp only [okE, Bool.and_eq_true] at hok
    simp only [errs, List.append_eq_nil_iff, checkEq_nil] at herr
    rw [eval_while] at hev
    cases h1 : eval n P ρ w c with
    | fail f w1 => rw [h1] at hev; simp at hev
    | ok vc w1 =>
      rw [h1] at hev; simp only [Res.andThen_ok] at hev
      obtain ⟨Ψ1, hx1, hw1, _⟩ := ih.expr hok.1 herr.1.1 hρ hK hw h1
      split at hev
      · cases h2 : eval n P ρ w1 b with
        | fail f w2 => rw [h2] at hev; simp at hev
        | ok vb w2 =>
          rw [h2] at hev; simp only [Res.andThen_ok] at hev
          obtain ⟨Ψ2, hx2, hw2, _⟩ := ih.expr hok.2 herr.1.2 (hρ.mono hx1) hK hw1 h2
          obtain ⟨Ψ3, hx3, hw3, hv3⟩ := ih.expr hok0 herr0 (hρ.mono (hx1.trans hx2)) hK hw2 hev
          exact ⟨Ψ3, (hx1.trans hx2).trans hx3, hw3, hv3⟩
      · obtain ⟨rfl, rfl⟩ := res_ok_inj hev
        exact ⟨Ψ1, hx1, hw1, by simp only [getTy, substTy]; exact .unit⟩
      · cases hev
  | go e0 => simp [okE] at hok
  | cget c i t e0 =>
    simp only [okE, Bool.and_eq_true] at hok
    obtain ⟨⟨he0, hkind⟩, hflow⟩ := hok
    simp only [errs, List.append_eq_nil_iff] at herr
    obtain ⟨hee, hfts⟩ := herr
    rw [eval_cget] at hev
    cases h1 : eval n P ρ w e0 with
    | fail f w1 => rw [h1] at hev; simp at hev
    | ok ve w1 =>
      rw [h1] at hev; simp only [Res.andThen_ok] at hev
      obtain ⟨Ψ1, hx1, hw1, hve⟩ := ih.expr he0 hee hρ hK hw h1
      cases hf : fieldTys S c (getTy e0) with
      | none => simp [hf] at hfts
      | some fts =>
        simp only [hf] at hfts
        cases hi : fts[i]? with
        | none => simp [hi] at hfts
        | some ft =>
          simp only [hi, checkEq_nil] at hfts
          subst hfts
          have hf' := fieldTys_subst S hS θ c (getTy e0) fts hf
          have hi' : (substTys θ fts)[i]? = some (substTy θ ft) := by rw [substTys_getElem?, hi]; rfl
          have hnomc := fieldTys_nominal hf'
          simp only [getTy]
          generalize hτ : substTy θ (getTy e0) = τ at hve hf' hnomc
          cases c with
          | struct tn =>
            have hstruct : isStructTy τ = true := by
              rw [← hτ]; exact isStructTy_subst θ _ (by simpa [ctorTyOk] using hkind)
            cases hve with
            | @structV sn fs _ fts' h1' h2' h3' =>
              simp only [] at hev
              have : sn = tn := nominalArgs_name (fieldTys_nominal h2') hnomc
              subst this
              rw [hf'] at h2'
              injection h2' with h2'; subst h2'
              obtain ⟨fv, hfv, hty⟩ := VTs_get h3' i _ hi'
              rw [hfv] at hev; simp only [] at hev
              obtain ⟨rfl, rfl⟩ := res_ok_inj hev
              exact ⟨Ψ1, hx1, hw1, hty⟩
            | enumV h1' _ _ => exact (not_enum_and_struct h1' hstruct).elim
            | _ => simp at hev
          | enum tn vn ci =>
            simp only [] at hflow
            cases e0 with
            | var x tx =>
              simp only [beq_iff_eq] at hflow
              obtain ⟨en, eargs, hlk⟩ := hK x ci hflow
              have hloc : (lookupVar Γ x).isSome = true := by
                cases hx : lookupVar Γ x with
                | some _ => rfl
                | none =>
                  have := ET_lookup hρ x
                  simp only [hx] at this
                  rw [this] at hlk; cases hlk
              have hl := (eval_local hloc hρ h1).2.1
              rw [hlk] at hl
              injection hl with hl; subst hl
              cases hve with
              | @enumV _ _ _ _ fts' h1' h2' h3' =>
                simp only [] at hev
                have : en = tn := nominalArgs_name (enumFieldTys_nominal h2') hnomc
                subst this
                rw [enumFieldTys_of_fieldTys hf'] at h2'
                injection h2' with h2'; subst h2'
                obtain ⟨fv, hfv, hty⟩ := VTs_get h3' i _ hi'
                rw [hfv] at hev; simp only [] at hev
                obtain ⟨rfl, rfl⟩ := res_ok_inj hev
                exact ⟨Ψ1, hx1, hw1, hty⟩
            | _ => simp at hflow
  | un op t e0 =>
    simp only [okE] at hok
    simp only [errs, List.append_eq_nil_iff, check_nil] at herr
    rw [eval_un] at hev
    cases h1 : eval n P ρ w e0 with
    | fail f w1 => rw [h1] at hev; simp at hev
    | ok ve w1 =>
      rw [h1] at hev; simp only [Res.andThen_ok] at hev
      obtain ⟨Ψ1, hx1, hw1, hve⟩ := ih.expr hok herr.1 hρ hK hw h1
      cases hu : unop op ve with
      | error f => rw [hu] at hev; cases hev
      | ok r =>
        rw [hu] at hev; simp only [] at hev
        obtain ⟨rfl, rfl⟩ := res_ok_inj hev
        exact ⟨Ψ1, hx1, hw1, by simp only [getTy]; exact unop_sound (unopOk_subst θ op t _ herr.2) hve hu⟩
  | bin op t l r =>
    simp only [okE, Bool.and_eq_true] at hok
    simp only [errs, List.append_eq_nil_iff, check_nil] at herr
    obtain ⟨⟨hl, hr⟩, hop⟩ := herr
    have hop' := binopOk_subst θ op t _ _ hop
    rw [eval_bin] at hev
    cases h1 : eval n P ρ w l with
    | fail f w1 => rw [h1] at hev; simp at hev
    | ok va w1 =>
      rw [h1] at hev; simp only [Res.andThen_ok] at hev
      obtain ⟨Ψ1, hx1, hw1, hva⟩ := ih.expr hok.1 hl hρ hK hw h1
      simp only [getTy]
      have hbool : ∀ (Ψ0 : List Ty) b, (op = .and ∨ op = .or) → VT S P Ψ0 (.bool b) (substTy θ t) := by
        intro Ψ0 b hcase
        rcases hcase with rfl | rfl <;> simp only [binopOk, Bool.and_eq_true] at hop' <;>
          (have := tyEq hop'.2; rw [this]; exact .bool _)
      by_cases c1 : scAnd op va = true
      · rw [if_pos c1] at hev
        obtain ⟨rfl, rfl⟩ := res_ok_inj hev
        refine ⟨Ψ1, hx1, hw1, hbool _ _ (Or.inl ?_)⟩
        unfold scAnd at c1; split at c1 <;> simp_all
      · rw [if_neg c1] at hev
        by_cases c2 : scOr op va = true
        · rw [if_pos c2] at hev
          obtain ⟨rfl, rfl⟩ := res_ok_inj hev
          refine ⟨Ψ1, hx1, hw1, hbool _ _ (Or.inr ?_)⟩
          unfold scOr at c2; split at c2 <;> simp_all
        · rw [if_neg c2] at hev
          by_cases c3 : logicalNonBool op va = true
          · rw [if_pos c3] at hev; cases hev
          · rw [if_neg c3] at hev
            cases h2 : eval n P ρ w1 r with
            | fail f w2 => rw [h2] at hev; simp at hev
            | ok vb w2 =>
              rw [h2] at hev; simp only [Res.andThen_ok] at hev
              obtain ⟨Ψ2, hx2, hw2, hvb⟩ := ih.expr hok.2 hr (hρ.mono hx1) hK hw1 h2
              cases hb : binop op va vb with
              | error f => rw [hb] at hev; cases hev
              | ok rv =>
                rw [hb] at hev; simp only [] at hev
                obtain ⟨rfl, rfl⟩ := res_ok_inj hev
                exact ⟨Ψ2, hx1.trans hx2, hw2, binop_sound hop' (hva.mono hx2) hvb hb⟩
  | call t f args =>
    simp only [okE, Bool.and_eq_true, Bool.or_eq_true] at hok
    obtain ⟨hargsok, hf⟩ := hok
    simp only [errs, List.append_eq_nil_iff] at herr
    rw [eval_call] at hev
    simp only [getTy]
    have hglobal : ∀ {fn : String} {tf : Ty} {m : Nat}, lookupVar Γ fn = none →
        eval (m + 1) P ρ w (.var fn tf) = .ok (.fn fn) w := by
      intro fn tf m hnone
      rw [eval_var]
      have := ET_lookup hρ fn
      simp only [hnone] at this
      rw [this]; rfl
    rcases hf with (hdirect | hpoly) | ⟨hfok, hfty⟩
    · cases f with
      | var fn tf =>
        simp only [Bool.and_eq_true, Option.isNone_iff_eq_none] at hdirect
        obtain ⟨⟨hnone, hb⟩, htf⟩ := hdirect
        have htf := tyEq htf
        cases n with
        | zero => rw [eval_zero] at hev; simp at hev
        | succ m =>
          rw [hglobal hnone] at hev
          simp only [Res.andThen_ok] at hev
          cases h2 : evalList (m + 1) P ρ w args with
          | fail f w2 => rw [h2] at hev; simp at hev
          | ok vs w2 =>
            rw [h2] at hev; simp only [Res.andThen_ok] at hev
            obtain ⟨Ψ1, hx1, hw1, hvs⟩ := ih.list hargsok herr.1.2 hρ hK hw h2
            unfold builtinOk at hb
            simp only [Bool.and_eq_true, Option.isNone_iff_eq_none] at hb
            obtain ⟨hg, hb⟩ := hb
            cases hbt : builtinTy fn with
            | none =>
              simp only [hbt, Bool.and_eq_true, beq_iff_eq] at hb
              obtain ⟨rfl, hshape⟩ := hb
              exfalso
              rw [htf] at hshape
              cases hga : getTys args with
              | nil => simp [hga] at hshape
              | cons t1 rest =>
                cases rest with
                | cons _ _ => cases t1 <;> simp [hga] at hshape
                | nil =>
                  rw [hga] at hvs
                  simp only [substTys] at hvs
                  obtain ⟨a, rfl, _⟩ := VTs_single hvs
                  rw [apply_fn, hg] at hev
                  simp [builtin] at hev
            | some bt =>
              simp only [hbt] at hb
              have := tyEq hb
              subst this
              rw [apply_fn, hg] at hev
              simp only [] at hev
              rw [htf] at hbt
              have hclosed : substTys θ (getTys args) = getTys args ∧ substTy θ t = t := by
                unfold builtinTy at hbt
                split at hbt <;> simp only [Option.some.injEq, Ty.func.injEq, reduceCtorEq] at hbt <;>
                  (obtain ⟨h1, h2⟩ := hbt; rw [← h1, ← h2]; simp [substTys, substTy])
              rw [hclosed.1] at hvs
              rw [hclosed.2]
              have := builtin_sound hbt hvs hev
              exact ⟨Ψ1, hx1, hw1.of_store this.2, this.1⟩
      | _ => simp at hdirect
    · cases f with
      | var fn tf =>
        simp only [Bool.and_eq_true, Option.isNone_iff_eq_none, Bool.or_eq_true, Bool.true_and] at hpoly
        obtain ⟨⟨hnone, hg⟩, hp⟩ := hpoly
        cases n with
        | zero => rw [eval_zero] at hev; simp at hev
        | succ m =>
          rw [hglobal hnone] at hev
          simp only [Res.andThen_ok] at hev
          cases h2 : evalList (m + 1) P ρ w args with
          | fail f w2 => rw [h2] at hev; simp at hev
          | ok vs w2 =>
            rw [h2] at hev; simp only [Res.andThen_ok] at hev
            obtain ⟨Ψ1, hx1, hw1, hvs⟩ := ih.list hargsok herr.1.2 hρ hK hw h2
            rw [apply_fn, hg] at hev
            simp only [] at hev
            rcases hp with hp | hp
            · have := poly_sound hp hvs hev
              exact ⟨Ψ1, hx1, hw1.of_store this.2, this.1⟩
            · obtain ⟨Ψ2, hx2, hw2, hv2⟩ := ref_sound hp hw1 hvs hev
              exact ⟨Ψ2, hx1.trans hx2, hw2, hv2⟩
      | _ => simp at hpoly
    · have hfty := tyEq hfty
      cases h1 : eval n P ρ w f with
      | fail f w1 => rw [h1] at hev; simp at hev
      | ok fv w1 =>
        rw [h1] at hev; simp only [Res.andThen_ok] at hev
        obtain ⟨Ψ1, hx1, hw1, hfv⟩ := ih.expr hfok herr.1.1 hρ hK hw h1
        rw [hfty, substTy_func] at hfv
        cases h2 : evalList n P ρ w1 args with
        | fail f w2 => rw [h2] at hev; simp at hev
        | ok vs w2 =>
          rw [h2] at hev; simp only [Res.andThen_ok] at hev
          obtain ⟨Ψ2, hx2, hw2, hvs⟩ := ih.list hargsok herr.1.2 (hρ.mono hx1) hK hw1 h2
          obtain ⟨Ψ3, hx3, hw3, hv3⟩ := ih.appv (hfv.mono hx2) hvs hw2 hev
          exact ⟨Ψ3, (hx1.trans hx2).trans hx3, hw3, hv3⟩
  | toDyn tr ft t e0 =>
    simp only [okE, Bool.and_eq_true, Bool.true_and] at hok
    obtain ⟨he0, hkey⟩ := hok
    simp only [errs, List.append_eq_nil_iff, checkEq_nil] at herr
    rw [eval_toDyn] at hev
    cases h1 : eval n P ρ w e0 with
    | fail f w1 => rw [h1] at hev; simp at hev
    | ok ve w1 =>
      rw [h1] at hev; simp only [Res.andThen_ok] at hev
      obtain ⟨Ψ1, hx1, hw1, hve⟩ := ih.expr he0 herr.1.1 hρ hK hw h1
      obtain ⟨rfl, rfl⟩ := res_ok_inj hev
      rw [herr.1.2, substTy_concrete θ (keyable_concrete hkey)] at hve
      refine ⟨Ψ1, hx1, hw1, ?_⟩
      simp only [getTy, herr.2, substTy]
      exact .dyn hkey hve rfl
  | dynCall tr m t recv args =>
    simp only [okE, Bool.and_eq_true, Bool.true_and] at hok
    obtain ⟨⟨⟨hrecv, hargsok⟩, himp⟩, hobj⟩ := hok
    simp only [errs, List.append_eq_nil_iff, checkEq_nil] at herr
    rw [eval_dynCall] at hev
    cases h1 : eval n P ρ w recv with
    | fail f w1 => rw [h1] at hev; simp at hev
    | ok rv w1 =>
      rw [h1] at hev; simp only [Res.andThen_ok] at hev
      obtain ⟨Ψ1, hx1, hw1, hrv⟩ := ih.expr hrecv herr.1.1.1 hρ hK hw h1
      rw [herr.1.2] at hrv
      simp only [substTy] at hrv
      obtain ⟨key, v0, τ0, rfl, hk0, hv0, hkey0⟩ := VT_dyn hrv
      simp only [] at hev
      cases h2 : evalList n P ρ w1 args with
      | fail f w2 => rw [h2] at hev; simp at hev
      | ok vs w2 =>
        rw [h2] at hev; simp only [Res.andThen_ok] at hev
        obtain ⟨Ψ2, hx2, hw2, hvs⟩ := ih.list hargsok herr.1.1.2 (hρ.mono hx1) hK hw1 h2
        have hv0' := hv0.mono hx2
        unfold implsOk at himp
        simp only [Bool.and_eq_true, List.all_eq_true] at himp
        obtain ⟨hnames, hrows⟩ := himp
        cases hrow : P.impls.find? (fun i => i.1 == tr && i.2.1 == key && i.2.2.1 == m) with
        | none => rw [hrow] at hev; cases hev
        | some row =>
          simp only [hrow] at hev
          have hmem := List.mem_of_find?_eq_some hrow
          have hp := List.find?_some hrow
          simp only [Bool.and_eq_true, beq_iff_eq] at hp
          have hr := hrows row hmem
          unfold rowOk at hr
          cases hg : P.findFn row.2.2.2 with
          | none => simp [hg] at hr
          | some g =>
            simp only [hg] at hr
            cases hps : g.params with
            | nil => simp [hps] at hr
            | cons p rest =>
              simp only [hps, Bool.and_eq_true, beq_iff_eq] at hr
              obtain ⟨⟨hkeyable, hkey⟩, hsig⟩ := hr
              have hconc0 := keyable_concrete hk0
              have hvk : valKey v0 = tyKey τ0 := valKey_of_VT hconc0 hv0'
              have hτ : τ0 = p.2 := key_determines hnames hv0' hkeyable (by rw [hkey, hp.1.2, ← hkey0, hvk])
              obtain ⟨mps, mr, hmt⟩ := methodTy_objSafe hobj
              have h3 := herr.2
              rw [hmt] at h3
              simp only [checkEq_nil] at h3
              injection h3 with hps3 hr3
              injection hps3 with _ hps3
              rw [hp.1.1, hp.2, hmt] at hsig
              simp only [] at hsig
              have hfn := tyEq hsig
              unfold fnTy at hfn
              injection hfn with hps' hret
              have key2 := ih.app (θ := θ) hg (by
                rw [← hps']; simp only [substTys]
                rw [← hτ, substTy_concrete θ hconc0, hps3]
                exact .cons hv0' hvs) hw2 hev
              rw [← hret, hr3] at key2
              obtain ⟨Ψ3, hx3, hw3, hv3⟩ := key2
              exact ⟨Ψ3, (hx1.trans hx2).trans hx3, hw3, by simpa [getTy] using hv3⟩
  | traitCall tr m t recv args =>
    simp only [okE, Bool.and_eq_true, Bool.or_eq_true] at hok
    obtain ⟨⟨hrecv, hargsok⟩, hdisp⟩ := hok
    simp only [errs, List.append_eq_nil_iff] at herr
    rw [eval_traitCall] at hev
    cases h1 : eval n P ρ w recv with
    | fail f w1 => rw [h1] at hev; simp at hev
    | ok rv w1 =>
      rw [h1] at hev; simp only [Res.andThen_ok] at hev
      obtain ⟨Ψ1, hx1, hw1, hrv0⟩ := ih.expr hrecv herr.1.1 hρ hK hw h1
      cases h2 : evalList n P ρ w1 args with
      | fail f w2 => rw [h2] at hev; simp at hev
      | ok vs w2 =>
        rw [h2] at hev; simp only [Res.andThen_ok] at hev
        obtain ⟨Ψ2, hx2, hw2, hvs⟩ := ih.list hargsok herr.1.2 (hρ.mono hx1) hK hw1 h2
        have hrv := hrv0.mono hx2
        have fin : ∀ {τ : Ty}, (∃ Ψ', Ext Ψ2 Ψ' ∧ WT S P Ψ' w' ∧ VT S P Ψ' v τ) →
            ∃ Ψ', Ext Ψ Ψ' ∧ WT S P Ψ' w' ∧ VT S P Ψ' v τ := by
          rintro τ ⟨Ψ3, hx3, hw3, hv3⟩
          exact ⟨Ψ3, (hx1.trans hx2).trans hx3, hw3, hv3⟩
        rcases hdisp with ⟨hconc, hdisp⟩ | himp
        · rw [substTy_concrete θ hconc] at hrv
          rw [valKey_of_VT hconc hrv] at hev
          unfold dispatchOk at hdisp
          cases hrow : P.impls.find? (fun i => i.1 == tr && i.2.1 == tyKey (getTy recv) && i.2.2.1 == m) with
          | none => simp [hrow] at hdisp
          | some row =>
            simp only [hrow] at hdisp hev
            cases hg : P.findFn row.2.2.2 with
            | none => simp [hg] at hdisp
            | some g =>
              simp only [hg] at hdisp
              have hsig := tyEq hdisp
              unfold fnTy at hsig
              injection hsig with hps hret
              have key := ih.app (θ := θ) hg (by
                rw [hps]; simp only [substTys, substTy_concrete θ hconc]
                exact .cons hrv hvs) hw2 hev
              rw [hret] at key
              exact fin (by simpa [getTy] using key)
        · unfold implsOk at himp
          simp only [Bool.and_eq_true, List.all_eq_true] at himp
          obtain ⟨hnames, hrows⟩ := himp
          cases hrow : P.impls.find? (fun i => i.1 == tr && i.2.1 == valKey rv && i.2.2.1 == m) with
          | none => rw [hrow] at hev; cases hev
          | some row =>
            simp only [hrow] at hev
            have hmem := List.mem_of_find?_eq_some hrow
            have hp := List.find?_some hrow
            simp only [Bool.and_eq_true, beq_iff_eq] at hp
            have hr := hrows row hmem
            unfold rowOk at hr
            cases hg : P.findFn row.2.2.2 with
            | none => simp [hg] at hr
            | some g =>
              simp only [hg] at hr
              cases hps : g.params with
              | nil => simp [hps] at hr
              | cons p rest =>
                simp only [hps, Bool.and_eq_true, beq_iff_eq] at hr
                obtain ⟨⟨hkeyable, hkey⟩, hsig⟩ := hr
                have hτ : substTy θ (getTy recv) = p.2 :=
                  key_determines hnames hrv hkeyable (by rw [hkey, hp.1.2])
                have herr2 := herr.2
                cases hmt : methodTy S tr m (getTy recv) with
                | none => simp [hmt] at herr2
                | some mt =>
                  simp only [hmt, checkEq_nil] at herr2
                  have hm2 := methodTy_subst S hS θ tr m _ _ hmt
                  rw [hτ] at hm2
                  rw [hp.1.1, hp.2, hm2] at hsig
                  simp only [] at hsig
                  have hfn := tyEq hsig
                  rw [herr2] at hfn
                  unfold fnTy at hfn
                  rw [substTy_func] at hfn
                  injection hfn with hps' hret
                  have key := ih.app (θ := []) hg (by
                    rw [substTys_nil, ← hps']; simp only [substTys]
                    exact .cons hrv hvs) hw2 hev
                  rw [substTy_nil, ← hret] at key
                  exact fin (by simpa [getTy] using key)
  | proj i t e0 =>
    simp only [okE] at hok
    simp only [errs, List.append_eq_nil_iff] at herr
    obtain ⟨hee, hpt⟩ := herr
    rw [eval_proj] at hev
    cases h1 : eval n P ρ w e0 with
    | fail f w1 => rw [h1] at hev; simp at hev
    | ok ve w1 =>
      rw [h1] at hev; simp only [Res.andThen_ok] at hev
      obtain ⟨Ψ1, hx1, hw1, hve⟩ := ih.expr hok hee hρ hK hw h1
      cases hg : getTy e0 <;> simp only [hg] at hpt <;> try (simp at hpt)
      rename_i ts
      cases hi : ts[i]? with
      | none => simp [hi] at hpt
      | some ft =>
        simp only [hi, checkEq_nil] at hpt
        subst hpt
        rw [hg] at hve
        simp only [substTy] at hve
        obtain ⟨vs, rfl, hvs⟩ := VT_tuple hve
        have hi' : (substTys θ ts)[i]? = some (substTy θ ft) := by rw [substTys_getElem?, hi]; rfl
        obtain ⟨fv, hfv, hty⟩ := VTs_get hvs i _ hi'
        simp only [] at hev
        rw [hfv] at hev; simp only [] at hev
        obtain ⟨rfl, rfl⟩ := res_ok_inj hev
        exact ⟨Ψ1, hx1, hw1, by simpa [getTy] using hty⟩

/-- **type soundness of `Sem` with references**, for every amount of fuel -/
theorem sound_all (hS : SigClosed S) (hP : okProg S P true = true) (n : Nat) : SoundAt S P n := by
  induction n with
  | zero =>
    refine ⟨?_, ?_, ?_, ?_, ?_⟩
    · intro e ρ w Γ K θ Ψ v w' _ _ _ _ _ h; rw [eval_zero] at h; cases h
    · intro es ρ w Γ K θ Ψ vs w' _ _ _ _ _ h; rw [evalList_zero] at h; cases h
    · intro arms d ρ w Γ K θ Ψ sv st rt sval v w' _ _ _ _ _ _ _ h; rw [evalArms_zero] at h; cases h
    · intro name g θ Ψ args w v w' _ _ _ h; rw [apply_zero] at h; cases h
    · intro fv as r Ψ args w v w' _ _ _ h; rw [apply_zero] at h; cases h
  | succ n ih =>
    exact ⟨fun h1 h2 h3 h4 h5 h6 => step_expr hS hP ih h1 h2 h3 h4 h5 h6,
           fun h1 h2 h3 h4 h5 h6 => step_list ih h1 h2 h3 h4 h5 h6,
           fun h1 h2 h3 h4 h5 h6 h7 h8 => step_arms ih h1 h2 h3 h4 h5 h6 h7 h8,
           fun h1 h2 h3 h4 => step_app hP ih h1 h2 h3 h4,
           fun h1 h2 h3 h4 => step_appv hP ih h1 h2 h3 h4⟩

end
end Goml.ValTyR
