import GomlVerif.Model.ValTy
import GomlVerif.Lemmas.WtSubst
import GomlVerif.Lemmas.LiftSemUnfold
/-!
Basic facts about `ValTy.valTy` / `envTy` / variant knowledge, composition of type substitutions,
canonical forms for the operators and the admitted builtins (C03, type soundness of `Sem`).
-/
namespace Goml.ValTy
open Goml Goml.Sem Goml.Wt Goml.Mono

/-! ### substitutions -/

theorem lookup_append (a b : Subst) (n : String) :
    lookup (a ++ b) n = (lookup a n).orElse (fun _ => lookup b n) := by
  induction a with
  | nil => simp [lookup]
  | cons p a ih =>
    obtain ⟨k, v⟩ := p
    simp only [List.cons_append, lookup]
    by_cases h : (k == n) = true
    · simp [h]
    · simp [h, ih]

/-- the substitution that does `σ` first and `θ` afterwards -/
def compS (θ σ : Subst) : Subst := mapS θ σ ++ θ

theorem lookup_compS (θ σ : Subst) (n : String) :
    lookup (compS θ σ) n = match lookup σ n with
      | some a => some (substTy θ a)
      | none => lookup θ n := by
  unfold compS
  rw [lookup_append, lookup_mapS]
  cases lookup σ n <;> simp

theorem substTy_compS (θ σ : Subst) (t : Ty) : substTy (compS θ σ) t = substTy θ (substTy σ t) := by
  apply Ty.rec
    (motive_1 := fun t => substTy (compS θ σ) t = substTy θ (substTy σ t))
    (motive_2 := fun ts => substTys (compS θ σ) ts = substTys θ (substTys σ ts))
  case param =>
    intro n
    simp only [substTy, lookup_compS]
    cases lookup σ n with
    | none => simp [substTy]
    | some a => simp
  case tuple => intro ts ih; simp [substTy, ih]
  case app => intro t ts ih1 ih2; simp [substTy, ih1, ih2]
  case array => intro n e ih; simp [substTy, ih]
  case vec => intro e ih; simp [substTy, ih]
  case ref => intro e ih; simp [substTy, ih]
  case func => intro ps r ih1 ih2; simp [substTy, ih1, ih2]
  case nil => simp [substTys]
  case cons => intro t ts ih1 ih2; simp [substTys, ih1, ih2]
  all_goals intros; simp [substTy]

theorem substTys_compS (θ σ : Subst) (ts : List Ty) :
    substTys (compS θ σ) ts = substTys θ (substTys σ ts) := by
  induction ts with
  | nil => simp [substTys]
  | cons t ts ih => simp [substTys, substTy_compS, ih]

theorem substTys_map (θ : Subst) (ts : List Ty) : substTys θ ts = ts.map (substTy θ) := by
  induction ts with
  | nil => simp [substTys]
  | cons t ts ih => simp [substTys, ih]

theorem substTy_concrete (θ : Subst) {t : Ty} (h : concreteTy t = true) : substTy θ t = t := by
  cases t <;> simp [concreteTy] at h <;> simp [substTy]

mutual
theorem substTy_nil : ∀ t : Ty, substTy [] t = t
  | .unit | .bool | .int _ _ | .float _ | .string | .enum _ | .struct _ | .dyn _ | .tvar _ => by simp [substTy]
  | .param n => by simp [substTy, lookup]
  | .tuple ts => by simp [substTy, substTys_nil ts]
  | .app t args => by simp [substTy, substTy_nil t, substTys_nil args]
  | .array len e => by simp [substTy, substTy_nil e]
  | .vec e => by simp [substTy, substTy_nil e]
  | .ref e => by simp [substTy, substTy_nil e]
  | .func ps r => by simp [substTy, substTys_nil ps, substTy_nil r]
theorem substTys_nil : ∀ ts : List Ty, substTys [] ts = ts
  | [] => by simp [substTys]
  | t :: ts => by simp [substTys, substTy_nil t, substTys_nil ts]
end

/-! ### value typing -/

variable {S : Sig} {P : Prog}

theorem VTs_get : ∀ {vs : List Val} {ts : List Ty}, VTs S P vs ts → ∀ (i : Nat) (t : Ty), ts[i]? = some t →
    ∃ v, vs[i]? = some v ∧ VT S P v t := by
  intro vs
  induction vs with
  | nil => intro ts h i t ht; cases h; simp at ht
  | cons v vs ih =>
    intro ts h i t ht
    cases h with
    | cons h1 h2 =>
      cases i with
      | zero => simp at ht; subst ht; exact ⟨v, by simp, h1⟩
      | succ i => simp at ht; simpa using ih h2 i t ht

def ctorTyName : Ctor → String
  | .enum tn _ _ => tn
  | .struct tn => tn

theorem fieldTys_nominal {c : Ctor} {ty : Ty} {fts : List Ty} (h : fieldTys S c ty = some fts) :
    (nominalArgs (ctorTyName c) ty).isSome = true := by
  cases c with
  | enum tn v idx =>
    simp only [fieldTys] at h
    split at h
    · rename_i h2; simp [ctorTyName, h2]
    · cases h
  | struct tn =>
    simp only [fieldTys] at h
    split at h
    · rename_i h2; simp [ctorTyName, h2]
    · cases h

theorem enumFieldTys_nominal {tn : String} {idx : Nat} {ty : Ty} {fts : List Ty}
    (h : enumFieldTys S tn idx ty = some fts) : (nominalArgs tn ty).isSome = true := by
  unfold enumFieldTys at h
  split at h
  · split at h
    · exact fieldTys_nominal (c := .enum tn _ idx) h
    · cases h
  · cases h

theorem VT_prim (p : Prim) (h : primOk p = true) : VT S P (primVal p) (primTy p) := by
  cases p <;> simp only [primVal, primTy] <;> constructor <;> simpa [primOk] using h

/-- canonical forms -/
theorem VT_bool {v : Val} (h : VT S P v .bool) : ∃ b, v = .bool b := by
  cases h with
  | bool b => exact ⟨b, rfl⟩
  | enumV h1 _ _ => simp [isEnumTy] at h1
  | structV h1 _ _ => simp [isStructTy] at h1

theorem VT_str {v : Val} (h : VT S P v .string) : ∃ s, v = .str s := by
  cases h with
  | str s => exact ⟨s, rfl⟩
  | enumV h1 _ _ => simp [isEnumTy] at h1
  | structV h1 _ _ => simp [isStructTy] at h1

theorem VT_unit {v : Val} (h : VT S P v .unit) : v = .unit := by
  cases h with
  | unit => rfl
  | enumV h1 _ _ => simp [isEnumTy] at h1
  | structV h1 _ _ => simp [isStructTy] at h1

theorem VT_int {v : Val} {b : Nat} {s : Bool} (h : VT S P v (.int b s)) : ∃ x, v = .int b s x := by
  cases h with
  | int _ _ x _ => exact ⟨x, rfl⟩
  | enumV h1 _ _ => simp [isEnumTy] at h1
  | structV h1 _ _ => simp [isStructTy] at h1

theorem VT_float {v : Val} {b : Nat} (h : VT S P v (.float b)) : ∃ x, v = .float b x := by
  cases h with
  | float _ x _ => exact ⟨x, rfl⟩
  | enumV h1 _ _ => simp [isEnumTy] at h1
  | structV h1 _ _ => simp [isStructTy] at h1

theorem VT_tuple {v : Val} {ts : List Ty} (h : VT S P v (.tuple ts)) : ∃ vs, v = .tuple vs ∧ VTs S P vs ts := by
  cases h with
  | tuple h1 => exact ⟨_, rfl, h1⟩
  | enumV h1 _ _ => simp [isEnumTy] at h1
  | structV h1 _ _ => simp [isStructTy] at h1

theorem VTs_single {args : List Val} {t : Ty} (h : VTs S P args [t]) : ∃ a, args = [a] ∧ VT S P a t := by
  cases h with
  | cons h1 h2 => cases h2; exact ⟨_, rfl, h1⟩

/-! ### arrays, vectors -/

theorem VTall_get : ∀ {vs : List Val} {e : Ty}, VTall S P vs e → ∀ (i : Nat) (v : Val), vs[i]? = some v → VT S P v e := by
  intro vs
  induction vs with
  | nil => intro e _ i v h; simp at h
  | cons a vs ih =>
    intro e h i v hv
    cases h with
    | cons h1 h2 =>
      cases i with
      | zero => simp at hv; subst hv; exact h1
      | succ i => simp at hv; exact ih h2 i v hv

theorem VTall_set : ∀ {vs : List Val} {e : Ty}, VTall S P vs e → ∀ (i : Nat) (v : Val), VT S P v e → VTall S P (vs.set i v) e := by
  intro vs
  induction vs with
  | nil => intro e h i v _; simpa using h
  | cons a vs ih =>
    intro e h i v hv
    cases h with
    | cons h1 h2 =>
      cases i with
      | zero => simp only [List.set_cons_zero]; exact .cons hv h2
      | succ i => simp only [List.set_cons_succ]; exact .cons h1 (ih h2 i v hv)

theorem VTall_append : ∀ {vs : List Val} {e : Ty}, VTall S P vs e → ∀ (v : Val), VT S P v e → VTall S P (vs ++ [v]) e := by
  intro vs
  induction vs with
  | nil => intro e _ v hv; exact .cons hv .nil
  | cons a vs ih =>
    intro e h v hv
    cases h with
    | cons h1 h2 => simp only [List.cons_append]; exact .cons h1 (ih h2 v hv)

theorem VTs_length : ∀ {vs : List Val} {ts : List Ty}, VTs S P vs ts → vs.length = ts.length := by
  intro vs
  induction vs with
  | nil => intro ts h; cases h; rfl
  | cons a vs ih => intro ts h; cases h with | cons _ h2 => simp [ih h2]

theorem VTs_all : ∀ {vs : List Val} {ts : List Ty} {e : Ty}, VTs S P vs ts → (∀ t ∈ ts, t = e) → VTall S P vs e := by
  intro vs
  induction vs with
  | nil => intro ts e h _; exact .nil
  | cons a vs ih =>
    intro ts e h hall
    cases h with
    | cons h1 h2 =>
      have := hall _ List.mem_cons_self
      subst this
      exact .cons h1 (ih h2 (fun t ht => hall t (List.mem_cons_of_mem _ ht)))

theorem allTyEq_all {e : Ty} : ∀ {ts : List Ty}, allTyEq e ts = true → ∀ t ∈ ts, t = e := by
  intro ts
  induction ts with
  | nil => intro _ t ht; cases ht
  | cons u us ih =>
    intro h t ht
    simp only [allTyEq, Bool.and_eq_true] at h
    rcases List.mem_cons.1 ht with rfl | ht
    · exact ((tyBeq_iff e t).1 h.1).symm
    · exact ih h.2 t ht

theorem getTys_length (es : List Expr) : (getTys es).length = es.length := by
  induction es with
  | nil => rfl
  | cons e es ih => simp [getTys, ih]

theorem VT_array {v : Val} {n : Nat} {e : Ty} (h : VT S P v (.array n e)) : ∃ vs, v = .array vs ∧ vs.length = n ∧ VTall S P vs e := by
  cases h with
  | array h1 h2 => exact ⟨_, rfl, h2, h1⟩
  | enumV h1 _ _ => simp [isEnumTy] at h1
  | structV h1 _ _ => simp [isStructTy] at h1

theorem VT_vec {v : Val} {e : Ty} (h : VT S P v (.vec e)) : ∃ vs, v = .vec vs ∧ VTall S P vs e := by
  cases h with
  | vec h1 => exact ⟨_, rfl, h1⟩
  | enumV h1 _ _ => simp [isEnumTy] at h1
  | structV h1 _ _ => simp [isStructTy] at h1

theorem VT_anyint {v : Val} {b : Nat} {s : Bool} (h : VT S P v (.int b s)) : ∃ x, v = .int b s x := VT_int h

/-! ### environments -/

theorem lookupEnv_cons (k : String) (v : Val) (ρ : Env) (x : String) :
    lookupEnv ((k, v) :: ρ) x = if (k == x) = true then some v else lookupEnv ρ x := by
  unfold lookupEnv
  simp only [List.find?]
  by_cases h : (k == x) = true
  · simp [h]
  · simp [h]

theorem ET_lookup {θ : Subst} : ∀ {ρ : Env} {Γ : TyEnv}, ET S P θ ρ Γ → ∀ x,
    (match lookupVar Γ x with
     | some t => ∃ v, lookupEnv ρ x = some v ∧ VT S P v (substTy θ t)
     | none => lookupEnv ρ x = none) := by
  intro ρ
  induction ρ with
  | nil => intro Γ h x; cases h; simp [lookupVar, lookupEnv]
  | cons b ρ ih =>
    intro Γ h x
    cases h with
    | @cons _ k v t _ Γ' hv hrest =>
      simp only [lookupVar, lookupEnv_cons]
      by_cases hk : (k == x) = true
      · simp only [hk, if_true]; exact ⟨v, rfl, hv⟩
      · simp only [hk]; exact ih hrest x

theorem ET_bind {θ : Subst} : ∀ (ps : List (String × Ty)) (vs : List Val) (ρ : Env) (Γ : TyEnv),
    VTs S P vs (substTys θ (ps.map (·.2))) → ET S P θ ρ Γ →
    ET S P θ (bindParams (ps.map (·.1)) vs ρ) (bindAll ps Γ) := by
  intro ps
  induction ps with
  | nil =>
    intro vs ρ Γ h hρ
    simp only [List.map_nil, substTys] at h
    cases h
    simpa [bindParams, bindAll] using hρ
  | cons p ps ih =>
    intro vs ρ Γ h hρ
    obtain ⟨x, t⟩ := p
    simp only [List.map_cons, substTys] at h
    cases h with
    | cons h1 h2 =>
      simp only [List.map_cons, bindParams, bindAll]
      exact ih _ _ _ h2 (.cons h1 hρ)

/-! ### variant knowledge -/

/-- every recorded fact is true of the environment -/
def KOk (K : Know) (ρ : Env) : Prop :=
  ∀ x i, lookupK K x = some i → ∃ n args, lookupEnv ρ x = some (.enumV n i args)

theorem KOk_nil (ρ : Env) : KOk [] ρ := by intro x i h; simp [lookupK] at h

theorem lookupK_dropK (x : String) (K : Know) (y : String) :
    lookupK (dropK x K) y = if (x == y) = true then none else lookupK K y := by
  induction K with
  | nil => simp [dropK, lookupK]
  | cons p K ih =>
    obtain ⟨k, i⟩ := p
    simp only [dropK]
    by_cases hk : (k == x) = true
    · have : k = x := by simpa using hk
      subst this
      simp only [hk, if_true, ih, lookupK]
      by_cases hy : (k == y) = true <;> simp [hy]
    · rw [if_neg hk]
      simp only [lookupK]
      by_cases hky : (k == y) = true
      · have : k = y := by simpa using hky
        subst this
        have hxk : ¬ (x == k) = true := by
          intro h; apply hk; have : x = k := by simpa using h
          subst this; simp
        simp [hxk]
      · rw [if_neg hky, if_neg hky]
        exact ih

theorem KOk_drop {K : Know} {ρ : Env} (h : KOk K ρ) (x : String) (v : Val) : KOk (dropK x K) ((x, v) :: ρ) := by
  intro y i hy
  rw [lookupK_dropK] at hy
  by_cases hxy : (x == y) = true
  · simp [hxy] at hy
  · simp only [hxy] at hy
    obtain ⟨n, args, hl⟩ := h y i hy
    exact ⟨n, args, by rw [lookupEnv_cons]; simp [hxy, hl]⟩

theorem KOk_learn {K : Know} {ρ : Env} (h : KOk K ρ) {x : String} {n : String} {i : Nat} {args : List Val}
    (hx : lookupEnv ρ x = some (.enumV n i args)) : KOk ((x, i) :: K) ρ := by
  intro y j hy
  simp only [lookupK] at hy
  by_cases hxy : (x == y) = true
  · have : x = y := by simpa using hxy
    subst this
    simp only [hxy, if_true, Option.some.injEq] at hy
    subst hy
    exact ⟨n, args, hx⟩
  · simp only [hxy] at hy
    exact h y j hy

/-! ### the key `Sem` dispatches on -/

theorem eval_traitCall (n : Nat) (P : Prog) (ρ : Env) (w : World) (tr m : String) (t : Ty) (recv : Expr)
    (args : List Expr) :
    eval (n + 1) P ρ w (.traitCall tr m t recv args) = (eval n P ρ w recv).andThen (fun v w =>
      (evalList n P ρ w args).andThen (fun vs w =>
        match P.impls.find? (fun i => i.1 == tr && i.2.1 == valKey v && i.2.2.1 == m) with
        | some i => apply n P w (.fn i.2.2.2) (v :: vs)
        | none => .fail (.stuck ("no impl of " ++ tr ++ " for " ++ valKey v)) w)) := by
  rw [eval]
  cases eval n P ρ w recv with
  | fail f w1 => rfl
  | ok v w1 =>
    simp only [Res.andThen_ok]
    cases evalList n P ρ w1 args with
    | fail f w2 => rfl
    | ok vs w2 =>
      simp only [Res.andThen_ok]
      cases v <;> rfl

/-- **a value of a concrete type carries the key of that type** -/
theorem valKey_of_VT {v : Val} {τ : Ty} (hc : concreteTy τ = true) (h : VT S P v τ) : valKey v = tyKey τ := by
  cases h with
  | unit => rfl
  | bool => rfl
  | int _ _ _ _ => rfl
  | float _ _ _ => rfl
  | str => rfl
  | tuple _ => simp [concreteTy] at hc
  | array _ _ => simp [concreteTy] at hc
  | vec _ => simp [concreteTy] at hc
  | @enumV n idx args _ fts h1 h2 _ =>
    have hn := enumFieldTys_nominal h2
    cases τ <;> simp [concreteTy] at hc <;> simp [isEnumTy] at h1
    simp [nominalArgs] at hn
    subst hn; simp [valKey, tyKey]
  | @structV n fs _ fts h1 h2 _ =>
    have hn := fieldTys_nominal (c := .struct n) h2
    cases τ <;> simp [concreteTy] at hc <;> simp [isStructTy] at h1
    simp [nominalArgs, ctorTyName] at hn
    subst hn; simp [valKey, tyKey]
  | closure _ _ _ => simp [concreteTy] at hc
  | fn θ _ => simp [concreteTy, fnTy, substTy] at hc

end Goml.ValTy
