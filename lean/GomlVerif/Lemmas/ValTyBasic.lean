import GomlVerif.Model.ValTy
import GomlVerif.Lemmas.WtSubst
import GomlVerif.Lemmas.LiftSemUnfold
/-!
Basic facts about `ValTy.valTy` / `envTy` / variant knowledge, composition of type substitutions,
canonical forms for the operators and the admitted builtins (C03, type soundness of `Sem`).
-/
namespace Goml.ValTy
open Goml Goml.Sem Goml.Wt Goml.Mono

/-! ### substitutions -/

theorem lookup_append (a b : Subst) (n : String) :
    lookup (a ++ b) n = (lookup a n).orElse (fun _ => lookup b n) := by
  induction a with
  | nil => simp [lookup]
  | cons p a ih =>
    obtain ⟨k, v⟩ := p
    simp only [List.cons_append, lookup]
    by_cases h : (k == n) = true
    · simp [h]
    · simp [h, ih]

/-- the substitution that does `σ` first and `θ` afterwards -/
def compS (θ σ : Subst) : Subst := mapS θ σ ++ θ

theorem lookup_compS (θ σ : Subst) (n : String) :
    lookup (compS θ σ) n = match lookup σ n with
      | some a => some (substTy θ a)
      | none => lookup θ n := by
  unfold compS
  rw [lookup_append, lookup_mapS]
  cases lookup σ n <;> simp

theorem substTy_compS (θ σ : Subst) (t : Ty) : substTy (compS θ σ) t = substTy θ (substTy σ t) := by
  apply Ty.rec
    (motive_1 := fun t => substTy (compS θ σ) t = substTy θ (substTy σ t))
    (motive_2 := fun ts => substTys (compS θ σ) ts = substTys θ (substTys σ ts))
  case param =>
    intro n
    simp only [substTy, lookup_compS]
    cases lookup σ n with
    | none => simp [substTy]
    | some a => simp
  case tuple => intro ts ih; simp [substTy, ih]
  case app => intro t ts ih1 ih2; simp [substTy, ih1, ih2]
  case array => intro n e ih; simp [substTy, ih]
  case vec => intro e ih; simp [substTy, ih]
  case ref => intro e ih; simp [substTy, ih]
  case func => intro ps r ih1 ih2; simp [substTy, ih1, ih2]
  case nil => simp [substTys]
  case cons => intro t ts ih1 ih2; simp [substTys, ih1, ih2]
  all_goals intros; simp [substTy]

theorem substTys_compS (θ σ : Subst) (ts : List Ty) :
    substTys (compS θ σ) ts = substTys θ (substTys σ ts) := by
  induction ts with
  | nil => simp [substTys]
  | cons t ts ih => simp [substTys, substTy_compS, ih]

theorem substTys_map (θ : Subst) (ts : List Ty) : substTys θ ts = ts.map (substTy θ) := by
  induction ts with
  | nil => simp [substTys]
  | cons t ts ih => simp [substTys, ih]

theorem substTy_concrete (θ : Subst) {t : Ty} (h : concreteTy t = true) : substTy θ t = t := by
  cases t <;> simp [concreteTy] at h <;> simp [substTy]

/-! ### value typing -/

theorem valTys_nil_iff {S : Sig} {ts : List Ty} : valTys S [] ts = true ↔ ts = [] := by
  cases ts <;> simp [valTys]

theorem valTys_cons {S : Sig} {v : Val} {vs : List Val} {ts : List Ty} (h : valTys S (v :: vs) ts = true) :
    ∃ t ts', ts = t :: ts' ∧ valTy S v t = true ∧ valTys S vs ts' = true := by
  cases ts with
  | nil => simp [valTys] at h
  | cons t ts' =>
    simp only [valTys, Bool.and_eq_true] at h
    exact ⟨t, ts', rfl, h.1, h.2⟩

theorem valTys_get {S : Sig} : ∀ {vs : List Val} {ts : List Ty}, valTys S vs ts = true → ∀ (i : Nat) (t : Ty), ts[i]? = some t →
    ∃ v, vs[i]? = some v ∧ valTy S v t = true := by
  intro vs
  induction vs with
  | nil =>
    intro ts h i t ht
    rw [valTys_nil_iff.1 h] at ht; simp at ht
  | cons v vs ih =>
    intro ts h i t ht
    obtain ⟨t0, ts', rfl, h1, h2⟩ := valTys_cons h
    cases i with
    | zero => simp at ht; subst ht; exact ⟨v, by simp, h1⟩
    | succ i => simp at ht; simpa using ih h2 i t ht

theorem valTys_mk {S : Sig} {v : Val} {vs : List Val} {t : Ty} {ts : List Ty} (h1 : valTy S v t = true)
    (h2 : valTys S vs ts = true) : valTys S (v :: vs) (t :: ts) = true := by
  simp [valTys, h1, h2]

def ctorTyName : Ctor → String
  | .enum tn _ _ => tn
  | .struct tn => tn

theorem fieldTys_nominal {S : Sig} {c : Ctor} {ty : Ty} {fts : List Ty} (h : fieldTys S c ty = some fts) :
    (nominalArgs (ctorTyName c) ty).isSome = true := by
  cases c with
  | enum tn v idx =>
    simp only [fieldTys] at h
    split at h
    · rename_i h2; simp [ctorTyName, h2]
    · cases h
  | struct tn =>
    simp only [fieldTys] at h
    split at h
    · rename_i h2; simp [ctorTyName, h2]
    · cases h

theorem enumFieldTys_nominal {S : Sig} {tn : String} {idx : Nat} {ty : Ty} {fts : List Ty}
    (h : enumFieldTys S tn idx ty = some fts) : (nominalArgs tn ty).isSome = true := by
  unfold enumFieldTys at h
  split at h
  · split at h
    · exact fieldTys_nominal (c := .enum tn _ idx) h
    · cases h
  · cases h

/-- a value typed at a nominal type carries that type's name -/
theorem valTy_nominal {S : Sig} {v : Val} {ty : Ty} (h : valTy S v ty = true) :
    match v with
    | .enumV n _ _ => (nominalArgs n ty).isSome = true ∧ isEnumTy ty = true
    | .structV n _ => (nominalArgs n ty).isSome = true ∧ isStructTy ty = true
    | _ => True := by
  cases v <;> simp only [] <;> simp only [valTy, Bool.and_eq_true] at h
  · refine ⟨?_, h.1⟩
    have h := h.2
    split at h
    · rename_i h2; exact enumFieldTys_nominal h2
    · cases h
  · refine ⟨?_, h.1⟩
    have h := h.2
    split at h
    · rename_i h2; exact fieldTys_nominal (c := .struct _) h2
    · cases h

/-- canonical forms -/
theorem valTy_bool {S : Sig} {v : Val} (h : valTy S v .bool = true) : ∃ b, v = .bool b := by
  have hn := valTy_nominal h
  cases v <;> simp [valTy] at h <;> simp [nominalArgs, isEnumTy, isStructTy] at hn
  exact ⟨_, rfl⟩

theorem valTy_prim {S : Sig} (p : Prim) : valTy S (primVal p) (primTy p) = true := by
  cases p <;> simp [primVal, primTy, valTy]

/-! ### environments -/

theorem lookupEnv_cons (k : String) (v : Val) (ρ : Env) (x : String) :
    lookupEnv ((k, v) :: ρ) x = if (k == x) = true then some v else lookupEnv ρ x := by
  unfold lookupEnv
  simp only [List.find?]
  by_cases h : (k == x) = true
  · simp [h]
  · simp [h]

theorem envTy_lookup {S : Sig} {θ : Subst} : ∀ {ρ : Env} {Γ : TyEnv}, envTy S θ ρ Γ = true → ∀ x,
    (match lookupVar Γ x with
     | some t => ∃ v, lookupEnv ρ x = some v ∧ valTy S v (substTy θ t) = true
     | none => lookupEnv ρ x = none) := by
  intro ρ
  induction ρ with
  | nil =>
    intro Γ h x
    cases Γ with
    | nil => simp [lookupVar, lookupEnv]
    | cons _ _ => simp [envTy] at h
  | cons b ρ ih =>
    intro Γ h x
    cases Γ with
    | nil => simp [envTy] at h
    | cons p Γ' =>
      obtain ⟨k, v⟩ := b
      obtain ⟨k', t⟩ := p
      simp only [envTy, Bool.and_eq_true, beq_iff_eq] at h
      obtain ⟨⟨rfl, hv⟩, hrest⟩ := h
      simp only [lookupVar, lookupEnv_cons]
      by_cases hk : (k == x) = true
      · simp only [hk, if_true]; exact ⟨v, rfl, hv⟩
      · simp only [hk]; exact ih hrest x

theorem envTy_cons {S : Sig} {θ : Subst} {ρ : Env} {Γ : TyEnv} {x : String} {v : Val} {t : Ty}
    (hv : valTy S v (substTy θ t) = true) (h : envTy S θ ρ Γ = true) : envTy S θ ((x, v) :: ρ) ((x, t) :: Γ) = true := by
  simp [envTy, hv, h]

theorem envTy_bind {S : Sig} {θ : Subst} : ∀ (ps : List (String × Ty)) (vs : List Val) (ρ : Env) (Γ : TyEnv),
    valTys S vs (substTys θ (ps.map (·.2))) = true → envTy S θ ρ Γ = true →
    envTy S θ (bindParams (ps.map (·.1)) vs ρ) (bindAll ps Γ) = true := by
  intro ps
  induction ps with
  | nil =>
    intro vs ρ Γ h hρ
    simp only [List.map_nil, substTys] at h
    cases vs with
    | nil => simpa [bindParams, bindAll] using hρ
    | cons _ _ => simp [valTys] at h
  | cons p ps ih =>
    intro vs ρ Γ h hρ
    obtain ⟨x, t⟩ := p
    simp only [List.map_cons, substTys] at h
    cases vs with
    | nil => simp [valTys] at h
    | cons v vs =>
      simp only [valTys, Bool.and_eq_true] at h
      simp only [List.map_cons, bindParams, bindAll]
      exact ih vs _ _ h.2 (envTy_cons h.1 hρ)

/-! ### variant knowledge -/

/-- every recorded fact is true of the environment -/
def KOk (K : Know) (ρ : Env) : Prop :=
  ∀ x i, lookupK K x = some i → ∃ n args, lookupEnv ρ x = some (.enumV n i args)

theorem KOk_nil (ρ : Env) : KOk [] ρ := by intro x i h; simp [lookupK] at h

theorem lookupK_dropK (x : String) (K : Know) (y : String) :
    lookupK (dropK x K) y = if (x == y) = true then none else lookupK K y := by
  induction K with
  | nil => simp [dropK, lookupK]
  | cons p K ih =>
    obtain ⟨k, i⟩ := p
    simp only [dropK]
    by_cases hk : (k == x) = true
    · have : k = x := by simpa using hk
      subst this
      simp only [hk, if_true, ih, lookupK]
      by_cases hy : (k == y) = true <;> simp [hy]
    · rw [if_neg hk]
      simp only [lookupK]
      by_cases hky : (k == y) = true
      · have : k = y := by simpa using hky
        subst this
        have hxk : ¬ (x == k) = true := by
          intro h; apply hk; have : x = k := by simpa using h
          subst this; simp
        simp [hxk]
      · rw [if_neg hky, if_neg hky]
        exact ih

theorem KOk_drop {K : Know} {ρ : Env} (h : KOk K ρ) (x : String) (v : Val) : KOk (dropK x K) ((x, v) :: ρ) := by
  intro y i hy
  rw [lookupK_dropK] at hy
  by_cases hxy : (x == y) = true
  · simp [hxy] at hy
  · simp only [hxy] at hy
    obtain ⟨n, args, hl⟩ := h y i hy
    exact ⟨n, args, by rw [lookupEnv_cons]; simp [hxy, hl]⟩

theorem KOk_learn {K : Know} {ρ : Env} (h : KOk K ρ) {x : String} {n : String} {i : Nat} {args : List Val}
    (hx : lookupEnv ρ x = some (.enumV n i args)) : KOk ((x, i) :: K) ρ := by
  intro y j hy
  simp only [lookupK] at hy
  by_cases hxy : (x == y) = true
  · have : x = y := by simpa using hxy
    subst this
    simp only [hxy, if_true, Option.some.injEq] at hy
    subst hy
    exact ⟨n, args, hx⟩
  · simp only [hxy] at hy
    exact h y j hy

/-! ### the key `Sem` dispatches on -/

theorem eval_traitCall (n : Nat) (P : Prog) (ρ : Env) (w : World) (tr m : String) (t : Ty) (recv : Expr)
    (args : List Expr) :
    eval (n + 1) P ρ w (.traitCall tr m t recv args) = (eval n P ρ w recv).andThen (fun v w =>
      (evalList n P ρ w args).andThen (fun vs w =>
        match P.impls.find? (fun i => i.1 == tr && i.2.1 == valKey v && i.2.2.1 == m) with
        | some i => apply n P w (.fn i.2.2.2) (v :: vs)
        | none => .fail (.stuck ("no impl of " ++ tr ++ " for " ++ valKey v)) w)) := by
  rw [eval]
  cases eval n P ρ w recv with
  | fail f w1 => rfl
  | ok v w1 =>
    simp only [Res.andThen_ok]
    cases evalList n P ρ w1 args with
    | fail f w2 => rfl
    | ok vs w2 =>
      simp only [Res.andThen_ok]
      cases v <;> rfl

/-- **a value of a concrete type carries the key of that type** -/
theorem valKey_of_valTy {S : Sig} {v : Val} {τ : Ty} (hc : concreteTy τ = true) (h : valTy S v τ = true) :
    valKey v = tyKey τ := by
  have hn := valTy_nominal h
  cases τ <;> simp [concreteTy] at hc <;> cases v <;> simp [valTy, isEnumTy, isStructTy] at h <;>
    simp [nominalArgs, isEnumTy, isStructTy] at hn <;>
    first
    | rfl
    | (obtain ⟨rfl, rfl⟩ := h; simp [valKey, tyKey])
    | (subst h; simp [valKey, tyKey])
    | (subst hn; simp [valKey, tyKey])

end Goml.ValTy
