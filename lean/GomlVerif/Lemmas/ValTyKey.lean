import GomlVerif.Lemmas.ValTyBasic
/-!
The dispatch key of a well-typed value determines its type among the keyable types (C03 / C07: static dispatch
for receivers of parametric type): `key_determines`.
-/
namespace Goml.ValTy
open Goml Goml.Sem Goml.Wt Goml.Mono

variable {S : Sig} {P : Prog}

theorem scalar_table : (scalarTys.all fun a => scalarTys.all fun b => !(tyKey a == tyKey b) || tyBeq a b) = true := by
  decide +kernel

theorem scalar_noQ : (scalarTys.all fun a => !(tyKey a == "?")) = true := by decide +kernel

theorem scalar_inj {a b : Ty} (ha : a ∈ scalarTys) (hb : b ∈ scalarTys) (h : tyKey a = tyKey b) : a = b := by
  have := scalar_table
  simp only [List.all_eq_true] at this
  have := this a ha b hb
  simp only [h, beq_self_eq_true, Bool.not_true, Bool.false_or] at this
  exact (tyBeq_iff a b).1 this

theorem isScalar_mem {t : Ty} (h : isScalarTy t = true) : t ∈ scalarTys := by
  unfold isScalarTy at h
  simp only [List.any_eq_true] at h
  obtain ⟨u, hu, htu⟩ := h
  have := (tyBeq_iff t u).1 htu
  subst this; exact hu

theorem scalar_key_reserved {t : Ty} (h : t ∈ scalarTys) : tyKey t ∈ reservedKeys := by
  unfold reservedKeys
  exact List.mem_cons_of_mem _ (List.mem_map_of_mem h)

theorem scalar_key_noQ {t : Ty} (h : t ∈ scalarTys) : tyKey t ≠ "?" := by
  have := scalar_noQ
  simp only [List.all_eq_true] at this
  have := this t h
  simpa using this

theorem int_scalar {b : Nat} (s : Bool) (h : okWidth b = true) : Ty.int b s ∈ scalarTys := by
  simp only [okWidth, Bool.or_eq_true, beq_iff_eq] at h
  rcases h with ((rfl | rfl) | rfl) | rfl <;> cases s <;> simp [scalarTys]

theorem float_scalar {b : Nat} (h : okFWidth b = true) : Ty.float b ∈ scalarTys := by
  simp only [okFWidth, Bool.or_eq_true, beq_iff_eq] at h
  rcases h with rfl | rfl <;> simp [scalarTys]

theorem findEnum_name {es : List EnumDef} {n : String} {d : EnumDef} (h : findEnum es n = some d) : d.name = n := by
  have := List.find?_some h
  simpa using this

theorem findStruct_name {ss : List StructDef} {n : String} {d : StructDef} (h : findStruct ss n = some d) : d.name = n := by
  have := List.find?_some h
  simpa using this

theorem namesOk_enum (hn : namesOk S = true) {n : String} {d : EnumDef} (h : findEnum S.enums n = some d) :
    n ∉ reservedKeys ∧ findStruct S.structs n = none := by
  unfold namesOk at hn
  simp only [Bool.and_eq_true, List.all_eq_true] at hn
  have hm := findEnum_mem h
  have := hn.1 d hm
  rw [findEnum_name h] at this
  simp only [Bool.and_eq_true, Bool.not_eq_true', Option.isNone_iff_eq_none] at this
  refine ⟨?_, this.2⟩
  intro hc
  have : reservedKeys.contains n = true := by simpa using hc
  rw [this] at *
  simp_all

theorem namesOk_struct (hn : namesOk S = true) {n : String} {d : StructDef} (h : findStruct S.structs n = some d) :
    n ∉ reservedKeys := by
  unfold namesOk at hn
  simp only [Bool.and_eq_true, List.all_eq_true] at hn
  have hm := findStruct_mem h
  have := hn.2 d hm
  rw [findStruct_name h] at this
  intro hc
  have hc' : reservedKeys.contains n = true := by simpa using hc
  simp only [hc', Bool.not_true] at this
  cases this

/-- an enum value typed at an applied type: the enum is generic -/
theorem enumFieldTys_find {n : String} {idx : Nat} {t : Ty} {fts : List Ty} (h : enumFieldTys S n idx t = some fts) :
    ∃ d targs, findEnum S.enums n = some d ∧ nominalArgs n t = some targs ∧ d.generics.length = targs.length := by
  unfold enumFieldTys at h
  cases hd : findEnum S.enums n with
  | none => simp [hd] at h
  | some d =>
    simp only [hd] at h
    cases hv : d.variants[idx]? with
    | none => simp [hv] at h
    | some vd =>
      simp only [hv, fieldTys, hd] at h
      cases hn : nominalArgs n t with
      | none => simp [hn] at h
      | some targs =>
        simp only [hn] at h
        refine ⟨d, targs, rfl, rfl, ?_⟩
        by_cases hl : (d.generics.length != targs.length) = true
        · simp [hl] at h
        · simpa using hl

theorem structFieldTys_find {n : String} {t : Ty} {fts : List Ty} (h : fieldTys S (.struct n) t = some fts) :
    ∃ d targs, findStruct S.structs n = some d ∧ nominalArgs n t = some targs ∧ d.generics.length = targs.length := by
  simp only [fieldTys] at h
  cases hd : findStruct S.structs n with
  | none => simp [hd] at h
  | some d =>
    simp only [hd] at h
    cases hn : nominalArgs n t with
    | none => simp [hn] at h
    | some targs =>
      simp only [hn] at h
      refine ⟨d, targs, rfl, rfl, ?_⟩
      by_cases hl : (d.generics.length != targs.length) = true
      · simp [hl] at h
      · simpa using hl

/-- what `keyable` says -/
theorem keyable_cases {t : Ty} (h : keyable S t = true) :
    t ∈ scalarTys ∨ (∃ n d, t = .enum n ∧ findEnum S.enums n = some d ∧ d.generics = []) ∨
      (∃ n d, t = .struct n ∧ findStruct S.structs n = some d ∧ d.generics = []) := by
  unfold keyable at h
  simp only [Bool.or_eq_true] at h
  rcases h with h | h
  · exact Or.inl (isScalar_mem h)
  · cases t <;> simp at h
    · rename_i n
      cases hd : findEnum S.enums n with
      | none => simp [hd] at h
      | some d => simp [hd] at h; exact Or.inr (Or.inl ⟨n, d, rfl, hd, h⟩)
    · rename_i n
      cases hd : findStruct S.structs n with
      | none => simp [hd] at h
      | some d => simp [hd] at h; exact Or.inr (Or.inr ⟨n, d, rfl, hd, h⟩)

/-- a scalar value: its type is a scalar type and its key the key of that type -/
theorem key_scalar_aux {τθ τs : Ty} {k : String} (hn : namesOk S = true) (hθ : τθ ∈ scalarTys) (hkθ : k = tyKey τθ)
    (hk : keyable S τs = true) (heq : tyKey τs = k) : τθ = τs := by
  rcases keyable_cases hk with hs | ⟨n, d, rfl, hd, _⟩ | ⟨n, d, rfl, hd, _⟩
  · exact (scalar_inj hs hθ (by rw [heq, hkθ])).symm
  · exfalso
    have := (namesOk_enum hn hd).1
    apply this
    have : n = tyKey τθ := by simpa [tyKey, hkθ] using heq
    rw [this]; exact scalar_key_reserved hθ
  · exfalso
    have := namesOk_struct hn hd
    apply this
    have : n = tyKey τθ := by simpa [tyKey, hkθ] using heq
    rw [this]; exact scalar_key_reserved hθ

theorem key_noQ_aux {τs : Ty} (hn : namesOk S = true) (hk : keyable S τs = true) (heq : tyKey τs = "?") : False := by
  rcases keyable_cases hk with hs | ⟨n, d, rfl, hd, _⟩ | ⟨n, d, rfl, hd, _⟩
  · exact scalar_key_noQ hs heq
  · have := (namesOk_enum hn hd).1
    apply this
    have : n = "?" := by simpa [tyKey] using heq
    rw [this]; simp [reservedKeys]
  · have := namesOk_struct hn hd
    apply this
    have : n = "?" := by simpa [tyKey] using heq
    rw [this]; simp [reservedKeys]

/-- **the key of a well-typed value determines its type among the keyable types** -/
theorem key_determines {v : Val} {τθ τs : Ty} (hn : namesOk S = true) (hv : VT S P v τθ)
    (hk : keyable S τs = true) (heq : tyKey τs = valKey v) : τθ = τs := by
  cases hv with
  | unit => exact key_scalar_aux hn (by simp [scalarTys]) rfl hk heq
  | bool => exact key_scalar_aux hn (by simp [scalarTys]) rfl hk heq
  | str => exact key_scalar_aux hn (by simp [scalarTys]) rfl hk heq
  | int b s x hw => exact key_scalar_aux hn (int_scalar s hw) rfl hk heq
  | float b x hw => exact key_scalar_aux hn (float_scalar hw) rfl hk heq
  | tuple _ => exact (key_noQ_aux hn hk heq).elim
  | array _ _ => exact (key_noQ_aux hn hk heq).elim
  | vec _ => exact (key_noQ_aux hn hk heq).elim
  | closure _ _ _ => exact (key_noQ_aux hn hk heq).elim
  | fn _ _ => exact (key_noQ_aux hn hk heq).elim
  | @enumV n idx args _ fts h1 h2 _ =>
    obtain ⟨d, targs, hd, hna, hlen⟩ := enumFieldTys_find h2
    have hres := namesOk_enum hn hd
    simp only [valKey] at heq
    rcases keyable_cases hk with hs | ⟨m, d', rfl, hd', hg'⟩ | ⟨m, d', rfl, hd', _⟩
    · exact (hres.1 (heq ▸ scalar_key_reserved hs)).elim
    · have : m = n := by simpa [tyKey] using heq
      subst this
      rw [hd] at hd'; injection hd' with hd'; subst hd'
      unfold isEnumTy at h1
      split at h1
      · rename_i n'
        simp only [nominalArgs] at hna
        split at hna
        · rename_i hnn; have : n' = m := by simpa using hnn
          rw [this]
        · cases hna
      · rename_i n' a as
        simp only [nominalArgs] at hna
        split at hna
        · injection hna with hna; subst hna
          rw [hg'] at hlen; simp at hlen
        · cases hna
      · cases h1
    · have : m = n := by simpa [tyKey] using heq
      subst this
      rw [hres.2] at hd'; cases hd'
  | @structV n fs _ fts h1 h2 _ =>
    obtain ⟨d, targs, hd, hna, hlen⟩ := structFieldTys_find h2
    have hres := namesOk_struct hn hd
    simp only [valKey] at heq
    rcases keyable_cases hk with hs | ⟨m, d', rfl, hd', _⟩ | ⟨m, d', rfl, hd', hg'⟩
    · exact (hres (heq ▸ scalar_key_reserved hs)).elim
    · have : m = n := by simpa [tyKey] using heq
      subst this
      have := (namesOk_enum hn hd').2
      rw [this] at hd; cases hd
    · have : m = n := by simpa [tyKey] using heq
      subst this
      rw [hd] at hd'; injection hd' with hd'; subst hd'
      unfold isStructTy at h1
      split at h1
      · rename_i n'
        simp only [nominalArgs] at hna
        split at hna
        · rename_i hnn; have : n' = m := by simpa using hnn
          rw [this]
        · cases hna
      · rename_i n' a as
        simp only [nominalArgs] at hna
        split at hna
        · injection hna with hna; subst hna
          rw [hg'] at hlen; simp at hlen
        · cases hna
      · cases h1

end Goml.ValTy
