import GomlVerif.Lemmas.ValTyBasic
/-!
NOT YET CONNECTED to `sem_preserves_types_partial`: the store-typing development for `Ref` (C03, round 11, fourth
pass).  `SVT S Ψ v τ` is value typing relative to a store typing `Ψ : List Ty` (location ↦ type of its content) on the
first-order values plus references; `WT` is the world invariant; the three facts the `ref` / `ref_get` / `ref_set`
cases of the induction need are proved here: typing is monotone under APPEND-ONLY extension of `Ψ`, allocation extends
`Ψ` by one entry and keeps the invariant, a read returns a value of the recorded type.  What remains (DESIGN.md, "the Ψ
plan") is to give `ValTy.VT` the same index and to reshape every statement of `SoundAt` into
`WT Ψ w → … → ∃ Ψ', Ψ' extends Ψ ∧ WT Ψ' w' ∧ VT Ψ' v τ`.
-/
namespace Goml.ValTy.Store
open Goml Goml.Sem Goml.Wt Goml.Mono Goml.ValTy

mutual
inductive SVT (S : Sig) (Ψ : List Ty) : Val → Ty → Prop
  | unit : SVT S Ψ .unit .unit
  | bool (b : Bool) : SVT S Ψ (.bool b) .bool
  | int (b : Nat) (s : Bool) (x : Int) : okWidth b = true → SVT S Ψ (.int b s x) (.int b s)
  | str (s : String) : SVT S Ψ (.str s) .string
  | tuple {vs : List Val} {ts : List Ty} : SVTs S Ψ vs ts → SVT S Ψ (.tuple vs) (.tuple ts)
  | ref {l : Nat} {e : Ty} : Ψ[l]? = some e → SVT S Ψ (.ref l) (.ref e)
inductive SVTs (S : Sig) (Ψ : List Ty) : List Val → List Ty → Prop
  | nil : SVTs S Ψ [] []
  | cons {v : Val} {vs : List Val} {t : Ty} {ts : List Ty} : SVT S Ψ v t → SVTs S Ψ vs ts → SVTs S Ψ (v :: vs) (t :: ts)
end

variable {S : Sig}

mutual
/-- value typing survives an append-only extension of the store typing -/
theorem mono {Ψ : List Ty} (Δ : List Ty) : ∀ {v : Val} {t : Ty}, SVT S Ψ v t → SVT S (Ψ ++ Δ) v t
  | _, _, .unit => .unit
  | _, _, .bool b => .bool b
  | _, _, .int b s x h => .int b s x h
  | _, _, .str s => .str s
  | _, _, .tuple h => .tuple (monos Δ h)
  | _, _, .ref h => .ref (by
      rename_i l e
      have hl : l < Ψ.length := by
        rcases Nat.lt_or_ge l Ψ.length with h1 | h1
        · exact h1
        · rw [List.getElem?_eq_none h1] at h; cases h
      rw [List.getElem?_append_left hl]; exact h)
theorem monos {Ψ : List Ty} (Δ : List Ty) : ∀ {vs : List Val} {ts : List Ty}, SVTs S Ψ vs ts → SVTs S (Ψ ++ Δ) vs ts
  | _, _, .nil => .nil
  | _, _, .cons h1 h2 => .cons (mono Δ h1) (monos Δ h2)
end

/-- the world invariant: the store has one cell per entry of `Ψ`, each holding a value of the recorded type -/
def WT (S : Sig) (Ψ : List Ty) (w : World) : Prop :=
  w.store.size = Ψ.length ∧ ∀ (l : Nat) (v : Val), w.store[l]? = some v → ∃ e, Ψ[l]? = some e ∧ SVT S Ψ v e

/-- `ref_get`: a read through a typed reference returns a value of the recorded type -/
theorem ref_get_sound {Ψ : List Ty} {w : World} {l : Nat} {e : Ty} {v : Val} (hw : WT S Ψ w)
    (hr : SVT S Ψ (.ref l) (.ref e)) (hv : w.store[l]? = some v) : SVT S Ψ v e := by
  cases hr with
  | ref h =>
    obtain ⟨e', he', hv'⟩ := hw.2 l v hv
    rw [h] at he'; injection he' with he'; subst he'
    exact hv'

/-- a typed reference never dangles -/
theorem ref_live {Ψ : List Ty} {w : World} {l : Nat} {e : Ty} (hw : WT S Ψ w) (hr : SVT S Ψ (.ref l) (.ref e)) :
    l < w.store.size := by
  cases hr with
  | ref h =>
    rw [hw.1]
    rcases Nat.lt_or_ge l Ψ.length with h1 | h1
    · exact h1
    · rw [List.getElem?_eq_none h1] at h; cases h

/-- `ref`: allocation extends the store typing by the type of the stored value and keeps the invariant -/
theorem ref_new_sound {Ψ : List Ty} {w : World} {v : Val} {e : Ty} (hw : WT S Ψ w) (hv : SVT S Ψ v e) :
    WT S (Ψ ++ [e]) { w with store := w.store.push v } ∧ SVT S (Ψ ++ [e]) (.ref w.store.size) (.ref e) := by
  refine ⟨⟨by simp [hw.1], ?_⟩, .ref (by rw [hw.1]; simp)⟩
  intro l u hu
  simp only [Array.getElem?_push] at hu
  by_cases hl : l = w.store.size
  · simp only [hl, if_true] at hu
    injection hu with hu; subst hu
    exact ⟨e, by rw [hl, hw.1]; simp, mono [e] hv⟩
  · simp only [hl, if_false] at hu
    obtain ⟨e', he', hv'⟩ := hw.2 l u hu
    refine ⟨e', ?_, mono [e] hv'⟩
    have hlt : l < Ψ.length := by
      rcases Nat.lt_or_ge l Ψ.length with h1 | h1
      · exact h1
      · rw [List.getElem?_eq_none h1] at he'; cases he'
    rw [List.getElem?_append_left hlt]; exact he'

end Goml.ValTy.Store
