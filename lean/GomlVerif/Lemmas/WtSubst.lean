import GomlVerif.Model.Wt
import GomlVerif.Lemmas.MonoTy
/-! Type substitution preserves the type consistency judgement `Wt.errs … = []` -/
namespace Goml.Wt
open Goml Goml.Mono Goml.Closed

/-! ### basic facts -/

theorem check_nil {b : Bool} {msg : String} : check b msg = [] ↔ b = true := by
  unfold check; cases b <;> simp

theorem checkEq_nil {a b : Ty} {k : String} : checkEq a b k = [] ↔ a = b := by
  unfold checkEq
  by_cases h : tyBeq a b = true
  · have := (tyBeq_iff a b).1 h
    subst this
    simp [h]
  · simp only [h]
    constructor
    · intro h'; simp at h'
    · intro h'; exact absurd ((tyBeq_iff a b).2 h') h

theorem substTy_primTy (σ : Subst) (p : Prim) : substTy σ (primTy p) = primTy p := by
  cases p <;> simp [primTy, substTy]

def mapΓ (σ : Subst) (Γ : TyEnv) : TyEnv := substParamTys σ Γ

theorem lookupVar_map (σ : Subst) (Γ : TyEnv) (x : String) :
    lookupVar (mapΓ σ Γ) x = (lookupVar Γ x).map (substTy σ) := by
  induction Γ with
  | nil => simp [mapΓ, substParamTys, lookupVar]
  | cons p Γ ih =>
    obtain ⟨k, v⟩ := p
    simp only [mapΓ, substParamTys, lookupVar] at ih ⊢
    by_cases h : (k == x) = true
    · simp [h]
    · simp [h, ih]

theorem bindAll_map (σ : Subst) (ps : List (String × Ty)) (Γ : TyEnv) :
    bindAll (substParamTys σ ps) (mapΓ σ Γ) = mapΓ σ (bindAll ps Γ) := by
  induction ps generalizing Γ with
  | nil => simp [substParamTys, bindAll]
  | cons p ps ih =>
    obtain ⟨x, t⟩ := p
    simp only [substParamTys, bindAll]
    have := ih ((x, t) :: Γ)
    simpa [mapΓ, substParamTys] using this

theorem substParamTys_tys (σ : Subst) (ps : List (String × Ty)) :
    (substParamTys σ ps).map (·.2) = substTys σ (ps.map (·.2)) := by
  induction ps with
  | nil => simp [substParamTys, substTys]
  | cons p ps ih => obtain ⟨x, t⟩ := p; simp [substParamTys, substTys, ih]

theorem getTy_substE (σ : Subst) (e : Expr) : getTy (substE σ e) = substTy σ (getTy e) := by
  apply Expr.rec
    (motive_1 := fun e => getTy (substE σ e) = substTy σ (getTy e))
    (motive_2 := fun _ => True) (motive_3 := fun _ => True) (motive_4 := fun _ => True) (motive_5 := fun _ => True)
  all_goals intros
  all_goals first
    | trivial
    | (simp_all [substE, getTy, substTy_primTy]; done)
    | (rename_i d _ _ _; cases d <;> simp_all [substE, getTy])

theorem getTys_substEs (σ : Subst) (es : List Expr) : getTys (substEs σ es) = substTys σ (getTys es) := by
  induction es with
  | nil => simp [substEs, getTys, substTys]
  | cons e es ih => simp [substEs, getTys, substTys, getTy_substE, ih]

theorem substTys_length (σ : Subst) (ts : List Ty) : (substTys σ ts).length = ts.length := by
  induction ts with
  | nil => simp [substTys]
  | cons t ts ih => simp [substTys, ih]

theorem substTys_getElem? (σ : Subst) (ts : List Ty) (i : Nat) : (substTys σ ts)[i]? = (ts[i]?).map (substTy σ) := by
  induction ts generalizing i with
  | nil => simp [substTys]
  | cons t ts ih => cases i <;> simp [substTys, ih]

theorem substEs_length (σ : Subst) (es : List Expr) : (substEs σ es).length = es.length := by
  induction es with
  | nil => simp [substEs]
  | cons e es ih => simp [substEs, ih]

/-! ### instances of schemes -/

def mapS (σ : Subst) (ρ : Subst) : Subst := substParamTys σ ρ

theorem lookup_mapS (σ ρ : Subst) (n : String) : lookup (mapS σ ρ) n = (lookup ρ n).map (substTy σ) := by
  induction ρ with
  | nil => simp [mapS, substParamTys, lookup]
  | cons p ρ ih =>
    obtain ⟨k, v⟩ := p
    simp only [mapS, substParamTys, lookup] at ih ⊢
    by_cases h : (k == n) = true
    · simp [h]
    · simp [h, ih]

theorem mapS_append (σ ρ : Subst) (n : String) (a : Ty) : mapS σ (ρ ++ [(n, a)]) = mapS σ ρ ++ [(n, substTy σ a)] := by
  induction ρ with
  | nil => simp [mapS, substParamTys]
  | cons p ρ ih => obtain ⟨k, v⟩ := p; simp only [mapS, substParamTys, List.cons_append] at ih ⊢; rw [ih]

theorem matchTy_subst (σ : Subst) (t : Ty) :
    ∀ a ρ ρ', matchTy t a ρ = some ρ' → matchTy t (substTy σ a) (mapS σ ρ) = some (mapS σ ρ') := by
  apply Ty.rec
    (motive_1 := fun t => ∀ a ρ ρ', matchTy t a ρ = some ρ' → matchTy t (substTy σ a) (mapS σ ρ) = some (mapS σ ρ'))
    (motive_2 := fun ts => ∀ as ρ ρ', matchTys ts as ρ = some ρ' →
      matchTys ts (substTys σ as) (mapS σ ρ) = some (mapS σ ρ'))
  case unit => intro a ρ ρ' h; cases a <;> simp_all [matchTy, substTy]
  case bool => intro a ρ ρ' h; cases a <;> simp_all [matchTy, substTy]
  case string => intro a ρ ρ' h; cases a <;> simp_all [matchTy, substTy]
  case int => intro b s a ρ ρ' h; cases a <;> simp_all [matchTy, substTy]
  case float => intro b a ρ ρ' h; cases a <;> simp_all [matchTy, substTy]
  case enum => intro n a ρ ρ' h; cases a <;> simp_all [matchTy, substTy]
  case struct => intro n a ρ ρ' h; cases a <;> simp_all [matchTy, substTy]
  case dyn => intro n a ρ ρ' h; cases a <;> simp_all [matchTy, substTy]
  case tvar => intro n a ρ ρ' h; simp [matchTy] at h
  case tuple =>
    intro ts ih a ρ ρ' h
    cases a <;> simp [matchTy] at h
    rename_i us
    simp [matchTy, substTy, substTys_length, h.1, ih us ρ ρ' h.2]
  case app =>
    intro t ts ih1 ih2 a ρ ρ' h
    cases a <;> simp [matchTy] at h
    rename_i u us
    obtain ⟨hl, h⟩ := h
    cases h1 : matchTy t u ρ with
    | none => simp [h1] at h
    | some ρ1 =>
      simp [h1] at h
      simp [matchTy, substTy, substTys_length, hl, ih1 u ρ ρ1 h1, ih2 us ρ1 ρ' h]
  case array =>
    intro n e ih a ρ ρ' h
    cases a <;> simp [matchTy] at h
    rename_i m e'
    simp [matchTy, substTy, h.1, ih e' ρ ρ' h.2]
  case vec =>
    intro e ih a ρ ρ' h
    cases a <;> simp [matchTy] at h
    simp [matchTy, substTy, ih _ ρ ρ' h]
  case ref =>
    intro e ih a ρ ρ' h
    cases a <;> simp [matchTy] at h
    simp [matchTy, substTy, ih _ ρ ρ' h]
  case param =>
    intro n a ρ ρ' h
    simp only [matchTy] at h ⊢
    rw [lookup_mapS]
    cases hl : lookup ρ n with
    | some prev =>
      simp only [hl] at h
      by_cases hb : tyBeq prev a = true
      · simp only [hb, if_true, Option.some.injEq] at h
        subst h
        have : prev = a := (tyBeq_iff _ _).1 hb
        subst this
        simp [tyBeq_refl]
      · simp [hb] at h
    | none =>
      simp only [hl, Option.some.injEq] at h
      subst h
      simp [mapS_append]
  case func =>
    intro ps r ih1 ih2 a ρ ρ' h
    cases a <;> simp [matchTy] at h
    rename_i qs r'
    obtain ⟨hl, h⟩ := h
    cases h1 : matchTys ps qs ρ with
    | none => simp [h1] at h
    | some ρ1 =>
      simp [h1] at h
      simp [matchTy, substTy, substTys_length, hl, ih1 qs ρ ρ1 h1, ih2 r' ρ1 ρ' h]
  case nil => intro as ρ ρ' h; simp [matchTys] at h; subst h; simp [matchTys]
  case cons =>
    intro t ts ih1 ih2 as ρ ρ' h
    cases as with
    | nil => simp [matchTys] at h; subst h; simp [matchTys, substTys]
    | cons a as =>
      simp only [matchTys] at h
      cases h1 : matchTy t a ρ with
      | none => simp [h1] at h
      | some ρ1 =>
        simp [h1] at h
        simp [matchTys, substTys, ih1 a ρ ρ1 h1, ih2 as ρ1 ρ' h]

theorem instOf_subst (σ : Subst) (scheme ty : Ty) (h : instOf scheme ty = true) : instOf scheme (substTy σ ty) = true := by
  unfold instOf at h ⊢
  cases hm : matchTy scheme ty [] with
  | none => simp [hm] at h
  | some ρ' =>
    have := matchTy_subst σ scheme ty [] ρ' hm
    simp only [mapS, substParamTys] at this
    simp [this]

end Goml.Wt

namespace Goml.Wt
open Goml Goml.Mono Goml.Closed

/-! ### field types of an instantiated definition -/

/-- the definitions of the environment are closed: field types mention only the parameters of their
definition, trait method signatures mention none -/
structure SigClosed (S : Sig) : Prop where
  enums : ∀ d ∈ S.enums, ∀ v ∈ d.variants, ∀ t ∈ v.2, ∀ x ∈ fvT t, x ∈ d.generics
  structs : ∀ d ∈ S.structs, ∀ f ∈ d.fields, ∀ x ∈ fvT f.2, x ∈ d.generics
  traits : ∀ d ∈ S.traits, ∀ mt ∈ d.methods, noParam mt.2 = true

theorem lookup_insert (ρ : Subst) (x : String) (v : Ty) (y : String) :
    lookup (Mono.insert ρ x v) y = if (x == y) = true then some v else lookup ρ y := by
  induction ρ with
  | nil => simp [Mono.insert, lookup]
  | cons p ρ ih =>
    obtain ⟨k, w⟩ := p
    by_cases hk : (k == x) = true
    · have hkx : k = x := by simpa using hk
      subst hkx
      by_cases hy : (k == y) = true <;> simp [Mono.insert, lookup, hy]
    · have hk' : (k == x) = false := by simpa using hk
      by_cases hy : (k == y) = true
      · have hxy : (x == y) = false := by
          have h1 : k = y := by simpa using hy
          subst h1
          rw [beq_eq_false_iff_ne]
          intro h2; subst h2; simp at hk
        simp [Mono.insert, lookup, hk', hy, hxy]
      · have hy' : (k == y) = false := by simpa using hy
        simp [Mono.insert, lookup, hk', hy', ih]

theorem zipSubst_rel (σ : Subst) : ∀ (gs : List String) (as : List Ty) (ρ ρ' : Subst),
    (∀ y, lookup ρ' y = (lookup ρ y).map (substTy σ)) →
    ∀ y, lookup (zipSubst gs (substTys σ as) ρ') y = (lookup (zipSubst gs as ρ) y).map (substTy σ) := by
  intro gs
  induction gs with
  | nil => intro as ρ ρ' h y; simpa [zipSubst] using h y
  | cons g gs ih =>
    intro as ρ ρ' h y
    cases as with
    | nil => simpa [zipSubst, substTys] using h y
    | cons a as =>
      simp only [zipSubst, substTys]
      apply ih
      intro z
      rw [lookup_insert, lookup_insert]
      by_cases hz : (g == z) = true <;> simp [hz, h z]

theorem zipSubst_dom : ∀ (gs : List String) (as : List Ty) (ρ : Subst), gs.length = as.length →
    ∀ g, (g ∈ gs ∨ (lookup ρ g).isSome = true) → (lookup (zipSubst gs as ρ) g).isSome = true := by
  intro gs
  induction gs with
  | nil =>
    intro as ρ _ g hg
    rcases hg with hg | hg
    · simp at hg
    · simpa [zipSubst] using hg
  | cons x gs ih =>
    intro as ρ hl g hg
    cases as with
    | nil => simp at hl
    | cons a as =>
      simp only [zipSubst]
      apply ih as _ (by simpa using hl)
      rw [lookup_insert]
      by_cases hx : (x == g) = true
      · right; simp [hx]
      · rcases hg with hg | hg
        · simp only [List.mem_cons] at hg
          rcases hg with rfl | hg
          · simp at hx
          · left; exact hg
        · right; simp [hx, hg]

theorem subst_comp (σ θ θ' : Subst) (hrel : ∀ y, lookup θ' y = (lookup θ y).map (substTy σ)) (t : Ty) :
    (∀ x ∈ fvT t, (lookup θ x).isSome = true) → substTy θ' t = substTy σ (substTy θ t) := by
  apply Ty.rec
    (motive_1 := fun t => (∀ x ∈ fvT t, (lookup θ x).isSome = true) → substTy θ' t = substTy σ (substTy θ t))
    (motive_2 := fun ts => (∀ x ∈ fvTs ts, (lookup θ x).isSome = true) → substTys θ' ts = substTys σ (substTys θ ts))
  case param =>
    intro n h
    have := h n (by simp [fvT])
    cases hl : lookup θ n with
    | none => simp [hl] at this
    | some v => simp [substTy, hrel n, hl]
  case tuple => intro ts ih h; simp [substTy, ih (by simpa [fvT] using h)]
  case app =>
    intro t ts ih1 ih2 h
    simp only [fvT, List.mem_append] at h
    simp [substTy, ih1 (fun x hx => h x (Or.inl hx)), ih2 (fun x hx => h x (Or.inr hx))]
  case array => intro n e ih h; simp [substTy, ih (by simpa [fvT] using h)]
  case vec => intro e ih h; simp [substTy, ih (by simpa [fvT] using h)]
  case ref => intro e ih h; simp [substTy, ih (by simpa [fvT] using h)]
  case func =>
    intro ps r ih1 ih2 h
    simp only [fvT, List.mem_append] at h
    simp [substTy, ih1 (fun x hx => h x (Or.inl hx)), ih2 (fun x hx => h x (Or.inr hx))]
  case nil => intro _; simp [substTys]
  case cons =>
    intro t ts ih1 ih2 h
    simp only [fvTs, List.mem_append] at h
    simp [substTys, ih1 (fun x hx => h x (Or.inl hx)), ih2 (fun x hx => h x (Or.inr hx))]
  all_goals intros; simp [substTy]

theorem subst_comp_list (σ θ θ' : Subst) (hrel : ∀ y, lookup θ' y = (lookup θ y).map (substTy σ)) (ts : List Ty)
    (h : ∀ t ∈ ts, ∀ x ∈ fvT t, (lookup θ x).isSome = true) : substTys θ' ts = substTys σ (substTys θ ts) := by
  induction ts with
  | nil => simp [substTys]
  | cons t ts ih =>
    simp [substTys, subst_comp σ θ θ' hrel t (h t List.mem_cons_self), ih (fun u hu => h u (List.mem_cons_of_mem _ hu))]

theorem nominalArgs_subst (σ : Subst) (tn : String) (ty : Ty) (targs : List Ty) (h : nominalArgs tn ty = some targs) :
    nominalArgs tn (substTy σ ty) = some (substTys σ targs) := by
  cases ty <;> simp [nominalArgs] at h
  · obtain ⟨h1, h2⟩ := h; subst h2; simp [nominalArgs, substTy, h1, substTys]
  · obtain ⟨h1, h2⟩ := h; subst h2; simp [nominalArgs, substTy, h1, substTys]
  · rename_i base args
    cases base <;> simp [nominalArgs] at h
    · obtain ⟨h1, h2⟩ := h; subst h2; simp [nominalArgs, substTy, h1]
    · obtain ⟨h1, h2⟩ := h; subst h2; simp [nominalArgs, substTy, h1]

theorem findEnum_mem {es : List EnumDef} {n : String} {d : EnumDef} (h : findEnum es n = some d) : d ∈ es :=
  List.mem_of_find?_eq_some h
theorem findStruct_mem {ss : List StructDef} {n : String} {d : StructDef} (h : findStruct ss n = some d) : d ∈ ss :=
  List.mem_of_find?_eq_some h

theorem fieldTys_subst (S : Sig) (hS : SigClosed S) (σ : Subst) (c : Ctor) (ty : Ty) (fts : List Ty)
    (h : fieldTys S c ty = some fts) : fieldTys S c (substTy σ ty) = some (substTys σ fts) := by
  cases c with
  | enum tn v idx =>
    simp only [fieldTys] at h ⊢
    cases hd : findEnum S.enums tn with
    | none => simp [hd] at h
    | some d =>
      cases ha : nominalArgs tn ty with
      | none => simp [hd, ha] at h
      | some targs =>
        simp only [hd, ha] at h
        simp only [nominalArgs_subst σ tn ty targs ha, substTys_length]
        by_cases hl : (d.generics.length != targs.length) = true
        · simp [hl] at h
        · simp only [hl] at h ⊢
          cases hv : d.variants[idx]? with
          | none => simp [hv] at h
          | some vf =>
            obtain ⟨vn, fs⟩ := vf
            simp only [hv] at h ⊢
            by_cases hn : (vn == v) = true
            · simp only [hn, if_true, Bool.false_eq_true, if_false, Option.some.injEq] at h ⊢
              subst h
              have hlen : d.generics.length = targs.length := by simpa using hl
              have hmem : (vn, fs) ∈ d.variants := List.mem_of_getElem? hv
              apply subst_comp_list σ _ _ (zipSubst_rel σ d.generics targs [] [] (by intro y; simp [lookup]))
              intro t ht x hx
              exact zipSubst_dom d.generics targs [] hlen x (Or.inl (hS.enums d (findEnum_mem hd) (vn, fs) hmem t ht x hx))
            · simp [hn] at h
  | struct tn =>
    simp only [fieldTys] at h ⊢
    cases hd : findStruct S.structs tn with
    | none => simp [hd] at h
    | some d =>
      cases ha : nominalArgs tn ty with
      | none => simp [hd, ha] at h
      | some targs =>
        simp only [hd, ha] at h
        simp only [nominalArgs_subst σ tn ty targs ha, substTys_length]
        by_cases hl : (d.generics.length != targs.length) = true
        · simp [hl] at h
        · simp only [hl, Bool.false_eq_true, if_false, Option.some.injEq] at h ⊢
          subst h
          have hlen : d.generics.length = targs.length := by simpa using hl
          apply subst_comp_list σ _ _ (zipSubst_rel σ d.generics targs [] [] (by intro y; simp [lookup]))
          intro t ht x hx
          simp only [List.mem_map] at ht
          obtain ⟨f, hf, rfl⟩ := ht
          exact zipSubst_dom d.generics targs [] hlen x (Or.inl (hS.structs d (findStruct_mem hd) f hf x hx))

end Goml.Wt

namespace Goml.Wt
open Goml Goml.Mono Goml.Closed

/-! ### trait method signatures, operators -/

theorem substTy_noParam (σ : Subst) (t : Ty) : noParam t = true → substTy σ t = t := by
  apply Ty.rec
    (motive_1 := fun t => noParam t = true → substTy σ t = t)
    (motive_2 := fun ts => noParams ts = true → substTys σ ts = ts)
  case param => intro n h; simp [noParam] at h
  case tuple => intro ts ih h; simp [substTy, ih (by simpa [noParam] using h)]
  case app =>
    intro t ts ih1 ih2 h
    simp only [noParam, Bool.and_eq_true] at h
    simp [substTy, ih1 h.1, ih2 h.2]
  case array => intro n e ih h; simp [substTy, ih (by simpa [noParam] using h)]
  case vec => intro e ih h; simp [substTy, ih (by simpa [noParam] using h)]
  case ref => intro e ih h; simp [substTy, ih (by simpa [noParam] using h)]
  case func =>
    intro ps r ih1 ih2 h
    simp only [noParam, Bool.and_eq_true] at h
    simp [substTy, ih1 h.1, ih2 h.2]
  case nil => intro _; simp [substTys]
  case cons =>
    intro t ts ih1 ih2 h
    simp only [noParams, Bool.and_eq_true] at h
    simp [substTys, ih1 h.1, ih2 h.2]
  all_goals intros; simp [substTy]

theorem replaceSelf_subst (σ : Subst) (self t : Ty) : noParam t = true →
    substTy σ (replaceSelf self t) = replaceSelf (substTy σ self) t := by
  apply Ty.rec
    (motive_1 := fun t => noParam t = true → substTy σ (replaceSelf self t) = replaceSelf (substTy σ self) t)
    (motive_2 := fun ts => noParams ts = true → substTys σ (replaceSelfs self ts) = replaceSelfs (substTy σ self) ts)
  case param => intro n h; simp [noParam] at h
  case struct =>
    intro n _
    by_cases hn : (n == "Self") = true
    · simp [replaceSelf, hn]
    · simp [replaceSelf, hn, substTy]
  case tuple => intro ts ih h; simp [replaceSelf, substTy, ih (by simpa [noParam] using h)]
  case app =>
    intro t ts ih1 ih2 h
    simp only [noParam, Bool.and_eq_true] at h
    simp [replaceSelf, substTy, ih1 h.1, ih2 h.2]
  case array => intro n e ih h; simp [replaceSelf, substTy, ih (by simpa [noParam] using h)]
  case vec => intro e ih h; simp [replaceSelf, substTy, ih (by simpa [noParam] using h)]
  case ref => intro e ih h; simp [replaceSelf, substTy, ih (by simpa [noParam] using h)]
  case func =>
    intro ps r ih1 ih2 h
    simp only [noParam, Bool.and_eq_true] at h
    simp [replaceSelf, substTy, ih1 h.1, ih2 h.2]
  case nil => intro _; simp [replaceSelfs, substTys]
  case cons =>
    intro t ts ih1 ih2 h
    simp only [noParams, Bool.and_eq_true] at h
    simp [replaceSelfs, substTys, ih1 h.1, ih2 h.2]
  all_goals intros; simp [replaceSelf, substTy]

theorem lookupTy_mem {l : List (String × Ty)} {x : String} {t : Ty} (h : lookupTy l x = some t) : (x, t) ∈ l := by
  induction l with
  | nil => simp [lookupTy, lookupVar] at h
  | cons p l ih =>
    obtain ⟨k, v⟩ := p
    simp only [lookupTy, lookupVar] at h ih
    by_cases hk : (k == x) = true
    · simp only [hk, if_true, Option.some.injEq] at h
      have : k = x := by simpa using hk
      subst h this
      exact List.mem_cons_self
    · simp only [hk] at h
      exact List.mem_cons_of_mem _ (ih h)

theorem methodTy_subst (S : Sig) (hS : SigClosed S) (σ : Subst) (tr m : String) (self t : Ty)
    (h : methodTy S tr m self = some t) : methodTy S tr m (substTy σ self) = some (substTy σ t) := by
  unfold methodTy at h ⊢
  cases hd : S.traits.find? (·.name == tr) with
  | none => simp [hd] at h
  | some d =>
    simp only [hd] at h ⊢
    cases hm : lookupTy d.methods m with
    | none => simp [hm] at h
    | some mt =>
      simp only [hm, Option.some.injEq] at h ⊢
      subst h
      have := hS.traits d (List.mem_of_find?_eq_some hd) (m, mt) (lookupTy_mem hm)
      exact (replaceSelf_subst σ self mt this).symm

theorem isNumeric_subst (σ : Subst) (t : Ty) (h : isNumeric t = true) : substTy σ t = t := by
  cases t <;> simp [isNumeric] at h <;> simp [substTy]

theorem unopOk_subst (σ : Subst) (op : UnOp) (ty a : Ty) (h : unopOk op ty a = true) :
    unopOk op (substTy σ ty) (substTy σ a) = true := by
  cases op <;> simp only [unopOk, Bool.and_eq_true] at h ⊢
  · have e := (tyBeq_iff _ _).1 h.2
    subst e
    simp [isNumeric_subst σ _ h.1, h.1, tyBeq_refl]
  · have e1 := (tyBeq_iff _ _).1 h.1
    have e2 := (tyBeq_iff _ _).1 h.2
    subst e1 e2
    simp [substTy, tyBeq_refl]

theorem binopOk_subst (σ : Subst) (op : BinOp) (ty a b : Ty) (h : binopOk op ty a b = true) :
    binopOk op (substTy σ ty) (substTy σ a) (substTy σ b) = true := by
  cases op <;> simp only [binopOk, Bool.and_eq_true, Bool.or_eq_true] at h ⊢
  case add =>
    obtain ⟨⟨h1, h2⟩, h3⟩ := h
    have e1 := (tyBeq_iff _ _).1 h1; have e2 := (tyBeq_iff _ _).1 h2
    subst e1 e2
    refine ⟨⟨tyBeq_refl _, tyBeq_refl _⟩, ?_⟩
    rcases h3 with h3 | h3
    · left; rw [isNumeric_subst σ _ h3]; exact h3
    · right; have := (tyBeq_iff _ _).1 h3; subst this; simp [substTy, tyBeq_refl]
  case sub =>
    obtain ⟨⟨h1, h2⟩, h3⟩ := h
    have e1 := (tyBeq_iff _ _).1 h1; have e2 := (tyBeq_iff _ _).1 h2
    subst e1 e2
    exact ⟨⟨tyBeq_refl _, tyBeq_refl _⟩, by rw [isNumeric_subst σ _ h3]; exact h3⟩
  case mul =>
    obtain ⟨⟨h1, h2⟩, h3⟩ := h
    have e1 := (tyBeq_iff _ _).1 h1; have e2 := (tyBeq_iff _ _).1 h2
    subst e1 e2
    exact ⟨⟨tyBeq_refl _, tyBeq_refl _⟩, by rw [isNumeric_subst σ _ h3]; exact h3⟩
  case div =>
    obtain ⟨⟨h1, h2⟩, h3⟩ := h
    have e1 := (tyBeq_iff _ _).1 h1; have e2 := (tyBeq_iff _ _).1 h2
    subst e1 e2
    exact ⟨⟨tyBeq_refl _, tyBeq_refl _⟩, by rw [isNumeric_subst σ _ h3]; exact h3⟩
  case and =>
    obtain ⟨⟨h1, h2⟩, h3⟩ := h
    have e1 := (tyBeq_iff _ _).1 h1; have e2 := (tyBeq_iff _ _).1 h2; have e3 := (tyBeq_iff _ _).1 h3
    subst e1 e2 e3
    simp [substTy, tyBeq_refl]
  case or =>
    obtain ⟨⟨h1, h2⟩, h3⟩ := h
    have e1 := (tyBeq_iff _ _).1 h1; have e2 := (tyBeq_iff _ _).1 h2; have e3 := (tyBeq_iff _ _).1 h3
    subst e1 e2 e3
    simp [substTy, tyBeq_refl]
  all_goals
    first
    | (obtain ⟨⟨h1, h2⟩, h3⟩ := h
       have e1 := (tyBeq_iff _ _).1 h1; have e2 := (tyBeq_iff _ _).1 h2
       subst e1 e2
       refine ⟨⟨tyBeq_refl _, by simp [substTy, tyBeq_refl]⟩, ?_⟩
       rcases h3 with h3 | h3
       · left; rw [isNumeric_subst σ _ h3]; exact h3
       · right; have := (tyBeq_iff _ _).1 h3; subst this; simp [substTy, tyBeq_refl])
    | (obtain ⟨h1, h2⟩ := h
       have e1 := (tyBeq_iff _ _).1 h1; have e2 := (tyBeq_iff _ _).1 h2
       subst e1 e2
       exact ⟨tyBeq_refl _, by simp [substTy, tyBeq_refl]⟩)

end Goml.Wt

namespace Goml.Wt
open Goml Goml.Mono Goml.Closed

theorem compatTy_refl (t : Ty) : compatTy t t = true := by
  apply Ty.rec (motive_1 := fun t => compatTy t t = true) (motive_2 := fun ts => compatTys ts ts = true)
  all_goals intros
  all_goals simp_all [compatTy, compatTys, tyBeq_refl]

theorem compatTy_subst (σ : Subst) (t : Ty) : ∀ a, compatTy t a = true → compatTy (substTy σ t) (substTy σ a) = true := by
  apply Ty.rec
    (motive_1 := fun t => ∀ a, compatTy t a = true → compatTy (substTy σ t) (substTy σ a) = true)
    (motive_2 := fun ts => ∀ as, compatTys ts as = true → compatTys (substTys σ ts) (substTys σ as) = true)
  case tuple => intro ts ih a h; cases a <;> simp [compatTy] at h; simpa [substTy, compatTy] using ih _ h
  case app =>
    intro t ts ih1 ih2 a h
    cases a <;> simp [compatTy] at h
    simp [substTy, compatTy, ih1 _ h.1, ih2 _ h.2]
  case array =>
    intro n e ih a h
    cases a <;> simp [compatTy] at h
    simp only [substTy, compatTy, Bool.and_eq_true, Bool.or_eq_true, beq_iff_eq]
    exact ⟨h.1, ih _ h.2⟩
  case vec => intro e ih a h; cases a <;> simp [compatTy] at h; simpa [substTy, compatTy] using ih _ h
  case ref => intro e ih a h; cases a <;> simp [compatTy] at h; simpa [substTy, compatTy] using ih _ h
  case func =>
    intro ps r ih1 ih2 a h
    cases a <;> simp [compatTy] at h
    simp [substTy, compatTy, ih1 _ h.1, ih2 _ h.2]
  case nil => intro as h; cases as <;> simp [compatTys] at h; simp [substTys, compatTys]
  case cons =>
    intro t ts ih1 ih2 as h
    cases as <;> simp [compatTys] at h
    simp [substTys, compatTys, ih1 _ h.1, ih2 _ h.2]
  all_goals
    intros
    rename_i a h
    simp only [compatTy] at h
    have := (tyBeq_iff _ _).1 h
    subst this
    exact compatTy_refl _

theorem compatTys_subst (σ : Subst) (ps as : List Ty) (h : compatTys ps as = true) :
    compatTys (substTys σ ps) (substTys σ as) = true := by
  have := compatTy_subst σ (.tuple ps) (.tuple as) (by simpa [compatTy] using h)
  simpa [substTy, compatTy] using this

theorem allTyEq_subst (σ : Subst) (e : Ty) (ts : List Ty) (h : allTyEq e ts = true) :
    allTyEq (substTy σ e) (substTys σ ts) = true := by
  induction ts with
  | nil => simp [substTys, allTyEq]
  | cons t ts ih =>
    simp only [allTyEq, Bool.and_eq_true] at h
    have := (tyBeq_iff _ _).1 h.1
    subst this
    simp [substTys, allTyEq, tyBeq_refl, ih h.2]

theorem tysBeq_eq {as bs : List Ty} : tysBeq as bs = true ↔ as = bs := tysBeq_iff as bs

theorem substParamTys_eq_map (σ : Subst) (ps : List (String × Ty)) :
    (substParamTys σ ps).map (·.2) = substTys σ (ps.map (·.2)) := substParamTys_tys σ ps

section
variable (S : Sig) (hS : SigClosed S) (σ : Subst)

include hS in
/-- substituting types in a type-consistent expression (and in its environment) gives a
type-consistent expression: the judgement is stable under instantiation -/
theorem errs_subst (e : Expr) : ∀ Γ, errs S Γ e = [] → errs S (mapΓ σ Γ) (substE σ e) = [] := by
  apply Expr.rec
    (motive_1 := fun e => ∀ Γ, errs S Γ e = [] → errs S (mapΓ σ Γ) (substE σ e) = [])
    (motive_2 := fun a => ∀ Γ st rt, errsArms S Γ st rt [a] = [] →
      errsArms S (mapΓ σ Γ) (substTy σ st) (substTy σ rt) (substAs σ [a]) = [])
    (motive_3 := fun es => ∀ Γ, errsList S Γ es = [] → errsList S (mapΓ σ Γ) (substEs σ es) = [])
    (motive_4 := fun arms => ∀ Γ st rt, errsArms S Γ st rt arms = [] →
      errsArms S (mapΓ σ Γ) (substTy σ st) (substTy σ rt) (substAs σ arms) = [])
    (motive_5 := fun o => match o with
      | none => True
      | some d => ∀ Γ, errs S Γ d = [] → errs S (mapΓ σ Γ) (substE σ d) = [])
  case var =>
    intro x ty Γ h
    simp only [errs, substE, lookupVar_map] at h ⊢
    cases hl : lookupVar Γ x with
    | some t =>
      simp only [hl, check_nil] at h
      have := (tyBeq_iff _ _).1 h
      subst this
      simp [check_nil, tyBeq_refl]
    | none =>
      simp only [hl, Option.map] at h ⊢
      cases hf : findCallee S.fns x with
      | some f => simp only [hf, check_nil] at h ⊢; exact instOf_subst σ _ _ h
      | none =>
        simp only [hf] at h ⊢
        cases hb : lookupTy S.builtins x with
        | some t => simp only [hb, check_nil] at h ⊢; exact instOf_subst σ _ _ h
        | none => simp [hb] at h
  case prim => intro p Γ h; simp [errs, substE]
  case tag => intro i ty Γ h; simp [errs, substE]
  case constr =>
    intro c ty args ih Γ h
    simp only [errs, substE, List.append_eq_nil_iff] at h ⊢
    refine ⟨ih Γ h.1, ?_⟩
    cases hf : fieldTys S c ty with
    | none => simp [hf] at h
    | some fts =>
      simp only [hf, check_nil] at h
      have := tysBeq_eq.1 h.2
      simp [fieldTys_subst S hS σ c ty fts hf, check_nil, getTys_substEs, this, tysBeq_eq]
  case tuple =>
    intro ty items ih Γ h
    simp only [errs, substE, List.append_eq_nil_iff, checkEq_nil] at h ⊢
    refine ⟨ih Γ h.1, ?_⟩
    rw [h.2, getTys_substEs]; simp [substTy]
  case array =>
    intro ty items ih Γ h
    simp only [errs, substE, List.append_eq_nil_iff] at h ⊢
    refine ⟨ih Γ h.1, ?_⟩
    cases ty <;> simp at h
    rename_i n e
    obtain ⟨_, h1, h2⟩ := h
    simp only [check_nil] at h1 h2
    simp only [substTy, List.append_eq_nil_iff, check_nil, substEs_length, getTys_substEs]
    exact ⟨h1, allTyEq_subst σ e _ h2⟩
  case closure =>
    intro ty ps body ih Γ h
    simp only [errs, substE, List.append_eq_nil_iff, checkEq_nil] at h ⊢
    refine ⟨?_, ?_⟩
    · rw [bindAll_map]; exact ih _ h.1
    · rw [h.2, getTy_substE, substParamTys_eq_map]; simp [substTy]
  case letE =>
    intro x v b ih1 ih2 Γ h
    simp only [errs, substE, List.append_eq_nil_iff] at h ⊢
    refine ⟨ih1 Γ h.1, ?_⟩
    have := ih2 ((x, getTy v) :: Γ) h.2
    simpa [mapΓ, substParamTys, getTy_substE] using this
  case matchE =>
    intro ty s arms d ih1 ih2 ih3 Γ h
    cases d with
    | none =>
      simp only [errs, substE, List.append_eq_nil_iff] at h ⊢
      exact ⟨ih1 Γ h.1, by rw [getTy_substE]; exact ih2 Γ _ _ h.2⟩
    | some d =>
      simp only [errs, substE, List.append_eq_nil_iff, checkEq_nil] at h ⊢
      refine ⟨⟨⟨ih1 Γ h.1.1.1, by rw [getTy_substE]; exact ih2 Γ _ _ h.1.1.2⟩, ih3 Γ h.1.2⟩, ?_⟩
      rw [getTy_substE, h.2]
  case ite =>
    intro c t e ih1 ih2 ih3 Γ h
    simp only [errs, substE, List.append_eq_nil_iff, checkEq_nil] at h ⊢
    refine ⟨⟨⟨⟨ih1 Γ h.1.1.1.1, ih2 Γ h.1.1.1.2⟩, ih3 Γ h.1.1.2⟩, ?_⟩, ?_⟩
    · rw [getTy_substE, h.1.2]; simp [substTy]
    · rw [getTy_substE, getTy_substE, h.2]
  case «while» =>
    intro c b ih1 ih2 Γ h
    simp only [errs, substE, List.append_eq_nil_iff, checkEq_nil] at h ⊢
    refine ⟨⟨ih1 Γ h.1.1, ih2 Γ h.1.2⟩, ?_⟩
    rw [getTy_substE, h.2]; simp [substTy]
  case go => intro e ih Γ h; simp only [errs, substE] at h ⊢; exact ih Γ h
  case cget =>
    intro c idx ty e ih Γ h
    simp only [errs, substE, List.append_eq_nil_iff] at h ⊢
    refine ⟨ih Γ h.1, ?_⟩
    cases hf : fieldTys S c (getTy e) with
    | none => simp [hf] at h
    | some fts =>
      simp only [hf] at h
      rw [getTy_substE, fieldTys_subst S hS σ c _ fts hf]
      simp only [substTys_getElem?]
      cases hi : fts[idx]? with
      | none => simp [hi] at h
      | some ft =>
        simp only [hi, checkEq_nil] at h
        simp [checkEq_nil, h.2]
  case un =>
    intro op ty e ih Γ h
    simp only [errs, substE, List.append_eq_nil_iff, check_nil] at h ⊢
    exact ⟨ih Γ h.1, by rw [getTy_substE]; exact unopOk_subst σ op ty _ h.2⟩
  case bin =>
    intro op ty l r ih1 ih2 Γ h
    simp only [errs, substE, List.append_eq_nil_iff, check_nil] at h ⊢
    exact ⟨⟨ih1 Γ h.1.1, ih2 Γ h.1.2⟩, by rw [getTy_substE, getTy_substE]; exact binopOk_subst σ op ty _ _ h.2⟩
  case call =>
    intro ty f args ih1 ih2 Γ h
    simp only [errs, substE, List.append_eq_nil_iff] at h ⊢
    refine ⟨⟨ih1 Γ h.1.1, ih2 Γ h.1.2⟩, ?_⟩
    rw [getTy_substE, getTys_substEs]
    cases hg : getTy f <;> simp [hg] at h
    rename_i ps r
    simp only [check_nil] at h
    simp only [substTy, List.append_eq_nil_iff, check_nil]
    exact ⟨compatTys_subst σ ps (getTys args) h.2.1, compatTy_subst σ r ty h.2.2⟩
  case toDyn =>
    intro tr ft ty e ih Γ h
    simp only [errs, substE, List.append_eq_nil_iff, checkEq_nil] at h ⊢
    refine ⟨⟨ih Γ h.1.1, ?_⟩, ?_⟩
    · rw [getTy_substE, h.1.2]
    · rw [h.2]; simp [substTy]
  case dynCall =>
    intro tr m ty recv args ih1 ih2 Γ h
    simp only [errs, substE, List.append_eq_nil_iff, checkEq_nil] at h ⊢
    refine ⟨⟨⟨ih1 Γ h.1.1.1, ih2 Γ h.1.1.2⟩, ?_⟩, ?_⟩
    · rw [getTy_substE, h.1.2]; simp [substTy]
    · cases hm : methodTy S tr m (.dyn tr) with
      | none => simp [hm] at h
      | some t =>
        simp only [hm, checkEq_nil] at h
        have := methodTy_subst S hS σ tr m (.dyn tr) t hm
        simp only [substTy, hm, Option.some.injEq] at this
        simp only [checkEq_nil, getTy_substE, getTys_substEs]
        rw [this, h.2]
        simp [substTy, substTys]
  case traitCall =>
    intro tr m ty recv args ih1 ih2 Γ h
    simp only [errs, substE, List.append_eq_nil_iff] at h ⊢
    refine ⟨⟨ih1 Γ h.1.1, ih2 Γ h.1.2⟩, ?_⟩
    cases hm : methodTy S tr m (getTy recv) with
    | none => simp [hm] at h
    | some t =>
      simp only [hm, checkEq_nil] at h
      rw [getTy_substE, methodTy_subst S hS σ tr m _ t hm]
      simp only [checkEq_nil, getTys_substEs, h.2]
      simp [substTy, substTys]
  case proj =>
    intro idx ty e ih Γ h
    simp only [errs, substE, List.append_eq_nil_iff] at h ⊢
    refine ⟨ih Γ h.1, ?_⟩
    rw [getTy_substE]
    cases hg : getTy e <;> simp [hg] at h
    rename_i ts
    simp only [substTy, substTys_getElem?]
    cases hi : ts[idx]? with
    | none => simp [hi] at h
    | some t =>
      simp only [hi, checkEq_nil] at h
      simp [checkEq_nil, h]
  case mk =>
    intro lhs body ih1 ih2 Γ st rt h
    simp only [errsArms, substAs, List.append_eq_nil_iff, checkEq_nil, and_true] at h ⊢
    obtain ⟨⟨hl, hb⟩, hbt⟩ := h
    refine ⟨⟨?_, ih2 Γ hb⟩, by rw [getTy_substE, hbt]⟩
    cases lhs <;> simp at hl <;> simp only [substE]
    · -- literal
      rename_i p
      simp only [checkEq_nil] at hl ⊢
      rw [← hl, substTy_primTy]
    · -- tag
      simp only [checkEq_nil] at hl ⊢
      rw [hl]
    · -- constructor
      rename_i c ty args
      simp only [List.append_eq_nil_iff, checkEq_nil] at hl ⊢
      refine ⟨by rw [hl.1], ?_⟩
      cases hf : fieldTys S c ty with
      | none => simp [hf] at hl
      | some fts =>
        simp only [hf, check_nil] at hl
        have := tysBeq_eq.1 hl.2
        simp [fieldTys_subst S hS σ c ty fts hf, check_nil, getTys_substEs, this, tysBeq_eq]
  case nil => intro Γ h; simp [errsList, substEs]
  case cons =>
    intro e es ih1 ih2 Γ h
    simp only [errsList, substEs, List.append_eq_nil_iff] at h ⊢
    exact ⟨ih1 Γ h.1, ih2 Γ h.2⟩
  case nil => intro Γ st rt h; simp [errsArms, substAs]
  case cons =>
    intro a arms ih1 ih2 Γ st rt h
    obtain ⟨l, b⟩ := a
    have h1 : errsArms S Γ st rt [Arm.mk l b] = [] := by
      simp only [errsArms, List.append_eq_nil_iff, and_true] at h ⊢
      exact ⟨⟨h.1.1.1, h.1.1.2⟩, h.1.2⟩
    have h2 : errsArms S Γ st rt arms = [] := by
      simp only [errsArms, List.append_eq_nil_iff] at h
      exact h.2
    have r1 := ih1 Γ st rt h1
    have r2 := ih2 Γ st rt h2
    simp only [errsArms, substAs, List.append_eq_nil_iff, and_true] at r1 ⊢
    exact ⟨⟨⟨r1.1.1, r1.1.2⟩, r1.2⟩, r2⟩
  case none => trivial
  case some => intro d ih Γ h; exact ih Γ h

end

end Goml.Wt
