import GomlVerif.Model.Sem
/-
C14 — the two ways of compiling a project concatenate the packages' Core in different orders and
number the temporaries of `compile_match` from different offsets (one counter for the whole
program vs one per package).  This file holds the syntactic operations the property's theorems
are about: renaming of names in an expression / function / program, the fragment predicates, and
the decidable relation the driver evaluates on the real Core of both ways.
-/
namespace Goml.Alpha
open Goml Goml.Sem

/-! ## renaming -/

mutual
/-- apply `σ` to every variable occurrence and every binder -/
def renE (σ : String → String) : Expr → Expr
  | .var x t => .var (σ x) t
  | .prim p => .prim p
  | .tag i t => .tag i t
  | .constr c t args => .constr c t (renL σ args)
  | .tuple t items => .tuple t (renL σ items)
  | .array t items => .array t (renL σ items)
  | .closure t ps b => .closure t (ps.map fun p => (σ p.1, p.2)) (renE σ b)
  | .letE x v b => .letE (σ x) (renE σ v) (renE σ b)
  | .matchE t s arms d => .matchE t (renE σ s) (renArms σ arms) (renO σ d)
  | .ite c t e => .ite (renE σ c) (renE σ t) (renE σ e)
  | .while c b => .while (renE σ c) (renE σ b)
  | .go e => .go (renE σ e)
  | .cget c i t e => .cget c i t (renE σ e)
  | .un op t e => .un op t (renE σ e)
  | .bin op t l r => .bin op t (renE σ l) (renE σ r)
  | .call t f args => .call t (renE σ f) (renL σ args)
  | .toDyn tr ft t e => .toDyn tr ft t (renE σ e)
  | .dynCall tr m t r args => .dynCall tr m t (renE σ r) (renL σ args)
  | .traitCall tr m t r args => .traitCall tr m t (renE σ r) (renL σ args)
  | .proj i t e => .proj i t (renE σ e)
def renL (σ : String → String) : List Expr → List Expr
  | [] => []
  | e :: es => renE σ e :: renL σ es
def renArms (σ : String → String) : List Arm → List Arm
  | [] => []
  | a :: as => renArm σ a :: renArms σ as
def renArm (σ : String → String) : Arm → Arm
  | .mk l b => .mk (renE σ l) (renE σ b)
def renO (σ : String → String) : Option Expr → Option Expr
  | none => none
  | some e => some (renE σ e)
end

def renEnv (σ : String → String) (ρ : Env) : Env := ρ.map fun p => (σ p.1, p.2)

def renFn (σ : String → String) (f : Fn) : Fn :=
  { f with params := f.params.map (fun p => (σ p.1, p.2)), body := renE σ f.body }

/-- every function renamed by its own `σ` (chosen by the function's name) -/
def renP (σs : String → String → String) (P : Prog) : Prog :=
  { P with fns := P.fns.map fun f => renFn (σs f.name) f }

/-! ## fragment predicates -/

mutual
/-- no closure expression -/
def cfE : Expr → Bool
  | .var _ _ => true
  | .prim _ => true
  | .tag _ _ => true
  | .constr _ _ args => cfL args
  | .tuple _ items => cfL items
  | .array _ items => cfL items
  | .closure _ _ _ => false
  | .letE _ v b => cfE v && cfE b
  | .matchE _ s arms d => cfE s && cfArms arms && cfO d
  | .ite c t e => cfE c && cfE t && cfE e
  | .while c b => cfE c && cfE b
  | .go e => cfE e
  | .cget _ _ _ e => cfE e
  | .un _ _ e => cfE e
  | .bin _ _ l r => cfE l && cfE r
  | .call _ f args => cfE f && cfL args
  | .toDyn _ _ _ e => cfE e
  | .dynCall _ _ _ r args => cfE r && cfL args
  | .traitCall _ _ _ r args => cfE r && cfL args
  | .proj _ _ e => cfE e
def cfL : List Expr → Bool
  | [] => true
  | e :: es => cfE e && cfL es
def cfArms : List Arm → Bool
  | [] => true
  | a :: as => cfArm a && cfArms as
def cfArm : Arm → Bool
  | .mk l b => cfE l && cfE b
def cfO : Option Expr → Bool
  | none => true
  | some e => cfE e
end

def cfP (P : Prog) : Bool := P.fns.all fun f => cfE f.body

mutual
/-- every variable occurrence that `moved` is in the scope of a binder (`B` = binders in scope) -/
def scE (moved : String → Bool) (B : List String) : Expr → Bool
  | .var x _ => !moved x || B.contains x
  | .prim _ => true
  | .tag _ _ => true
  | .constr _ _ args => scL moved B args
  | .tuple _ items => scL moved B items
  | .array _ items => scL moved B items
  | .closure _ ps b => scE moved (ps.map (·.1) ++ B) b
  | .letE x v b => scE moved B v && scE moved (x :: B) b
  | .matchE _ s arms d => scE moved B s && scArms moved B arms && scO moved B d
  | .ite c t e => scE moved B c && scE moved B t && scE moved B e
  | .while c b => scE moved B c && scE moved B b
  | .go e => scE moved B e
  | .cget _ _ _ e => scE moved B e
  | .un _ _ e => scE moved B e
  | .bin _ _ l r => scE moved B l && scE moved B r
  | .call _ f args => scE moved B f && scL moved B args
  | .toDyn _ _ _ e => scE moved B e
  | .dynCall _ _ _ r args => scE moved B r && scL moved B args
  | .traitCall _ _ _ r args => scE moved B r && scL moved B args
  | .proj _ _ e => scE moved B e
def scL (moved : String → Bool) (B : List String) : List Expr → Bool
  | [] => true
  | e :: es => scE moved B e && scL moved B es
def scArms (moved : String → Bool) (B : List String) : List Arm → Bool
  | [] => true
  | a :: as => scArm moved B a && scArms moved B as
def scArm (moved : String → Bool) (B : List String) : Arm → Bool
  | .mk _ b => scE moved B b
def scO (moved : String → Bool) (B : List String) : Option Expr → Bool
  | none => true
  | some e => scE moved B e
end

mutual
/-- closure-aware scope check: as `scE`, but a closure's parameters must not be moved at all (a closure value
    may be applied to fewer arguments than it has parameters, so its parameters are not known to be bound) and
    its body is checked in the scope of the closure expression -/
def scC (moved : String → Bool) (B : List String) : Expr → Bool
  | .var x _ => !moved x || B.contains x
  | .prim _ => true
  | .tag _ _ => true
  | .constr _ _ args => scCL moved B args
  | .tuple _ items => scCL moved B items
  | .array _ items => scCL moved B items
  | .closure _ ps b => ps.all (fun p => !moved p.1) && scC moved B b
  | .letE x v b => scC moved B v && scC moved (x :: B) b
  | .matchE _ s arms d => scC moved B s && scCArms moved B arms && scCO moved B d
  | .ite c t e => scC moved B c && scC moved B t && scC moved B e
  | .while c b => scC moved B c && scC moved B b
  | .go e => scC moved B e
  | .cget _ _ _ e => scC moved B e
  | .un _ _ e => scC moved B e
  | .bin _ _ l r => scC moved B l && scC moved B r
  | .call _ f args => scC moved B f && scCL moved B args
  | .toDyn _ _ _ e => scC moved B e
  | .dynCall _ _ _ r args => scC moved B r && scCL moved B args
  | .traitCall _ _ _ r args => scC moved B r && scCL moved B args
  | .proj _ _ e => scC moved B e
def scCL (moved : String → Bool) (B : List String) : List Expr → Bool
  | [] => true
  | e :: es => scC moved B e && scCL moved B es
def scCArms (moved : String → Bool) (B : List String) : List Arm → Bool
  | [] => true
  | a :: as => scCArm moved B a && scCArms moved B as
def scCArm (moved : String → Bool) (B : List String) : Arm → Bool
  | .mk _ b => scC moved B b
def scCO (moved : String → Bool) (B : List String) : Option Expr → Bool
  | none => true
  | some e => scC moved B e
end

mutual
/-- every name the expression mentions (variables and binders) is in `N` -/
def inE (N : List String) : Expr → Bool
  | .var x _ => N.contains x
  | .prim _ => true
  | .tag _ _ => true
  | .constr _ _ args => inL N args
  | .tuple _ items => inL N items
  | .array _ items => inL N items
  | .closure _ ps b => ps.all (fun p => N.contains p.1) && inE N b
  | .letE x v b => N.contains x && inE N v && inE N b
  | .matchE _ s arms d => inE N s && inArms N arms && inO N d
  | .ite c t e => inE N c && inE N t && inE N e
  | .while c b => inE N c && inE N b
  | .go e => inE N e
  | .cget _ _ _ e => inE N e
  | .un _ _ e => inE N e
  | .bin _ _ l r => inE N l && inE N r
  | .call _ f args => inE N f && inL N args
  | .toDyn _ _ _ e => inE N e
  | .dynCall _ _ _ r args => inE N r && inL N args
  | .traitCall _ _ _ r args => inE N r && inL N args
  | .proj _ _ e => inE N e
def inL (N : List String) : List Expr → Bool
  | [] => true
  | e :: es => inE N e && inL N es
def inArms (N : List String) : List Arm → Bool
  | [] => true
  | a :: as => inArm N a && inArms N as
def inArm (N : List String) : Arm → Bool
  | .mk _ b => inE N b
def inO (N : List String) : Option Expr → Bool
  | none => true
  | some e => inE N e
end

/-- `σ` is injective on `N` -/
def injOn (σ : String → String) (N : List String) : Bool :=
  N.all fun a => N.all fun b => σ a != σ b || a == b

/-! ## the renamings the two pipelines differ by: the counter of `Gensym` starts elsewhere -/

/-- `prefix ++ digits` for one of the prefixes `compile_match` passes to `gensym` -/
def splitTemp (prefixes : List String) (x : String) : Option (String × Nat) :=
  prefixes.findSome? fun p =>
    if x.startsWith p then
      let rest := (x.drop p.length).toString
      if rest.isEmpty || !rest.all Char.isDigit then none else rest.toNat?.map fun n => (p, n)
    else none

/-- add `k` to the number of every temporary -/
def shift (prefixes : List String) (k : Nat) (x : String) : String :=
  match splitTemp prefixes x with
  | some (p, n) => p ++ toString (n + k)
  | none => x

/-! ## the validator: `e'` is `e` with its names mapped by `σ` (type annotations are not compared:
the semantics does not look at them, except for the type key of a `dyn` coercion) -/

def eqPrim : Prim → Prim → Bool
  | .unit, .unit => true
  | .bool a, .bool b => a == b
  | .int n s v, .int m t w => n == m && s == t && v == w
  | .float n r, .float m q => n == m && r == q
  | .str a, .str b => a == b
  | _, _ => false

/-- the forms of an arm head `armMatches` looks at -/
def isHead : Expr → Bool
  | .constr _ _ _ => true
  | .tag _ _ => true
  | .prim _ => true
  | _ => false

/-- arm heads select the same values (two heads of any other form select nothing) -/
def aeLhs : Expr → Expr → Bool
  | .constr c _ _, .constr d _ _ => decide (c = d)
  | .tag i _, .tag j _ => i == j
  | .prim p, .prim q => eqPrim p q
  | l, m => !isHead l && !isHead m

mutual
def aeE (σ : String → String) : Expr → Expr → Bool
  | .var x _, .var y _ => σ x == y
  | .prim p, .prim q => eqPrim p q
  | .tag i t, .tag j u => i == j && tagTyName t == tagTyName u
  | .constr c _ a, .constr d _ b => decide (c = d) && aeL σ a b
  | .tuple _ a, .tuple _ b => aeL σ a b
  | .array _ a, .array _ b => aeL σ a b
  | .closure _ ps b, .closure _ qs c => ps.map (fun p => σ p.1) == qs.map (·.1) && aeE σ b c
  | .letE x v b, .letE y w c => σ x == y && aeE σ v w && aeE σ b c
  | .matchE _ s a d, .matchE _ r b e => aeE σ s r && aeArms σ a b && aeO σ d e
  | .ite c t e, .ite d u f => aeE σ c d && aeE σ t u && aeE σ e f
  | .while c b, .while d e => aeE σ c d && aeE σ b e
  | .go e, .go f => aeE σ e f
  | .cget c i _ e, .cget d j _ f => decide (c = d) && i == j && aeE σ e f
  | .un o _ e, .un p _ f => decide (o = p) && aeE σ e f
  | .bin o _ l r, .bin p _ m s => decide (o = p) && aeE σ l m && aeE σ r s
  | .call _ f a, .call _ g b => aeE σ f g && aeL σ a b
  | .toDyn tr ft _ e, .toDyn ts fu _ f => tr == ts && tyKey ft == tyKey fu && aeE σ e f
  | .dynCall tr m _ r a, .dynCall ts n _ s b => tr == ts && m == n && aeE σ r s && aeL σ a b
  | .traitCall tr m _ r a, .traitCall ts n _ s b => tr == ts && m == n && aeE σ r s && aeL σ a b
  | .proj i _ e, .proj j _ f => i == j && aeE σ e f
  | _, _ => false
def aeL (σ : String → String) : List Expr → List Expr → Bool
  | [], [] => true
  | a :: as, b :: bs => aeE σ a b && aeL σ as bs
  | _, _ => false
def aeArms (σ : String → String) : List Arm → List Arm → Bool
  | [], [] => true
  | a :: as, b :: bs => aeArm σ a b && aeArms σ as bs
  | _, _ => false
def aeArm (σ : String → String) : Arm → Arm → Bool
  | .mk l b, .mk m c => aeLhs l m && aeE σ b c
def aeO (σ : String → String) : Option Expr → Option Expr → Bool
  | none, none => true
  | some a, some b => aeE σ a b
  | _, _ => false
end

/-- every name of a function: parameters, binders, variables (the set `σ` has to be injective on) -/
partial def namesOfE (e : Expr) : List String :=
  let rec go (es : List Expr) (acc : List String) : List String :=
    match es with
    | [] => acc
    | e :: rest =>
      match e with
      | .var x _ => go rest (if acc.contains x then acc else x :: acc)
      | .letE x v b => go (v :: b :: rest) (if acc.contains x then acc else x :: acc)
      | .closure _ ps b => go (b :: rest) (ps.foldl (fun a p => if a.contains p.1 then a else p.1 :: a) acc)
      | .constr _ _ a | .tuple _ a | .array _ a => go (a ++ rest) acc
      | .matchE _ s arms d => go (s :: (arms.map fun | .mk _ b => b) ++ d.toList ++ rest) acc
      | .ite c t f => go (c :: t :: f :: rest) acc
      | .while c b => go (c :: b :: rest) acc
      | .go e | .cget _ _ _ e | .un _ _ e | .toDyn _ _ _ e | .proj _ _ e => go (e :: rest) acc
      | .bin _ _ l r => go (l :: r :: rest) acc
      | .call _ f a => go (f :: a ++ rest) acc
      | .dynCall _ _ _ r a | .traitCall _ _ _ r a => go (r :: a ++ rest) acc
      | _ => go rest acc
  go [e] []

/-- function `g` of the whole-program Core is function `f` of the separate Core renamed by `σ`, and
    the hypotheses of the renaming theorem hold of `f` (`N` = the names `σ` must be injective on);
    closure expressions are allowed (`scC` instead of `cfE` + `scE`, round 10) -/
def validFn (σ : String → String) (N : List String) (f g : Fn) : Bool :=
  f.params.map (fun p => σ p.1) == g.params.map (·.1) && aeE σ f.body g.body &&
  injOn σ N && inE N f.body && f.params.all (fun p => N.contains p.1) &&
  scC (fun x => σ x != x) [] f.body

/-- the lookup `Sem.eval` performs in the table of trait implementations -/
def implPred (tr key m : String) (i : String × String × String × String) : Bool :=
  i.1 == tr && i.2.1 == key && i.2.2.1 == m

/-- the two tables answer every lookup alike (their order may differ: the two pipelines visit the
    packages in different topological orders) -/
def implsAgree (A B : List (String × String × String × String)) : Bool :=
  (A ++ B).all fun i => A.find? (implPred i.1 i.2.1 i.2.2.1) == B.find? (implPred i.1 i.2.1 i.2.2.1)

/-- the validator: every function of `S` has a renamed twin in `W` and `W` has no other function -/
def validate (σs : String → String → String) (Ns : String → List String) (S W : Prog) : Bool :=
  S.fns.all (fun f =>
    match S.findFn f.name, W.findFn f.name with
    | some fS, some fW => validFn (σs f.name) (Ns f.name) fS fW
    | _, _ => false) &&
  W.fns.all (fun g => (S.findFn g.name).isSome) &&
  implsAgree W.impls S.impls

/-! ## structural equality (the IR types derive no `BEq`) -/

mutual
def eqE : Expr → Expr → Bool
  | .var x t, .var y u => x == y && t == u
  | .prim p, .prim q => p == q
  | .tag i t, .tag j u => i == j && t == u
  | .constr c t a, .constr d u b => c == d && t == u && eqL a b
  | .tuple t a, .tuple u b => t == u && eqL a b
  | .array t a, .array u b => t == u && eqL a b
  | .closure t ps b, .closure u qs c => t == u && ps == qs && eqE b c
  | .letE x v b, .letE y w c => x == y && eqE v w && eqE b c
  | .matchE t s a d, .matchE u r b e => t == u && eqE s r && eqArms a b && eqO d e
  | .ite c t e, .ite d u f => eqE c d && eqE t u && eqE e f
  | .while c b, .while d e => eqE c d && eqE b e
  | .go e, .go f => eqE e f
  | .cget c i t e, .cget d j u f => c == d && i == j && t == u && eqE e f
  | .un o t e, .un p u f => o == p && t == u && eqE e f
  | .bin o t l r, .bin p u m s => o == p && t == u && eqE l m && eqE r s
  | .call t f a, .call u g b => t == u && eqE f g && eqL a b
  | .toDyn tr ft t e, .toDyn ts fu u f => tr == ts && ft == fu && t == u && eqE e f
  | .dynCall tr m t r a, .dynCall ts n u s b => tr == ts && m == n && t == u && eqE r s && eqL a b
  | .traitCall tr m t r a, .traitCall ts n u s b => tr == ts && m == n && t == u && eqE r s && eqL a b
  | .proj i t e, .proj j u f => i == j && t == u && eqE e f
  | _, _ => false
def eqL : List Expr → List Expr → Bool
  | [], [] => true
  | a :: as, b :: bs => eqE a b && eqL as bs
  | _, _ => false
def eqArms : List Arm → List Arm → Bool
  | [], [] => true
  | a :: as, b :: bs => eqArm a b && eqArms as bs
  | _, _ => false
def eqArm : Arm → Arm → Bool
  | .mk l b, .mk m c => eqE l m && eqE b c
def eqO : Option Expr → Option Expr → Bool
  | none, none => true
  | some a, some b => eqE a b
  | _, _ => false
end

def eqFn (f g : Fn) : Bool :=
  f.name == g.name && f.generics == g.generics && f.params == g.params && f.ret == g.ret && eqE f.body g.body

def namesDistinct : List String → Bool
  | [] => true
  | x :: xs => !xs.contains x && namesDistinct xs

/-- temporaries of an expression that are bound or used (to find the offset) -/
partial def firstTemp (prefixes : List String) (e : Expr) : Option Nat :=
  let rec go (es : List Expr) : Option Nat :=
    match es with
    | [] => none
    | e :: rest =>
      match e with
      | .var x _ => (splitTemp prefixes x).map (·.2) <|> go rest
      | .letE x v b => (splitTemp prefixes x).map (·.2) <|> go (v :: b :: rest)
      | .closure _ ps b => (ps.findSome? fun p => (splitTemp prefixes p.1).map (·.2)) <|> go (b :: rest)
      | .constr _ _ a | .tuple _ a | .array _ a => go (a ++ rest)
      | .matchE _ s arms d => go (s :: (arms.map fun | .mk _ b => b) ++ d.toList ++ rest)
      | .ite c t f => go (c :: t :: f :: rest)
      | .while c b => go (c :: b :: rest)
      | .go e | .cget _ _ _ e | .un _ _ e | .toDyn _ _ _ e | .proj _ _ e => go (e :: rest)
      | .bin _ _ l r => go (l :: r :: rest)
      | .call _ f a => go (f :: a ++ rest)
      | .dynCall _ _ _ r a | .traitCall _ _ _ r a => go (r :: a ++ rest)
      | _ => go rest
  go [e]

end Goml.Alpha
