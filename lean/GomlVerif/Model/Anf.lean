import GomlVerif.Model.Syntax
import GomlVerif.Gen.AnfGuards
/-
Model of `crates/compiler/src/anf.rs` (`anf`, `anf_imm`, `anf_list`,
`compile_match_arms_to_anf`, `anf_file`) on the unified expression language.

The Rust functions are written in continuation-passing style over `Box<dyn FnOnce>`; the
one piece of hidden state is the `Gensym` counter (`env.rs:652`, a `Cell<i32>` shared by the
whole compilation).  Here the continuation is a Lean function and the counter is threaded
explicitly: every function takes the counter and returns the new one, and so does every
continuation, so the numbering of the temporaries `t<n>` is exactly the order in which the
Rust closures run.

Input: the Lift sub-language (`lift.rs`, no closures / trait calls).  Output: the ANF
sub-language (`IsAnf` below): `letE` chains whose right-hand sides have only immediate
operands (`ImmExpr` = variable, literal, nullary-constructor tag).
`AExpr::ACExpr{c}` is `c`, `AExpr::ALet` is `letE`, `CExpr::CImm{imm}` is `imm`
(this is also how `harness/src/dump.rs` prints ANF).
-/
namespace Goml.Anf
open Goml

/-- `format!("{}{}", "t", current)` (`Gensym::gensym`, prefix `"t"` at `anf.rs:668`) -/
def tmpName (n : Nat) : String := "t" ++ toString n

def primTy : Prim → Ty
  | .unit => .unit
  | .bool _ => .bool
  | .int b s _ => .int b s
  | .float b _ => .float b
  | .str _ => .string

/-- `LiftExpr::get_ty` (`lift.rs:201`).  The dump omits the `ty` field of `ELet`, `EIf`,
    `EWhile`, `EGo` and `EPrim`; the typer sets them to the body / branch type, `unit` and the
    literal's type, which is what is recomputed here (the L1 tie checks this on every run). -/
def tyOf : Expr → Ty
  | .var _ ty => ty
  | .prim p => primTy p
  | .tag _ ty => ty
  | .constr _ ty _ => ty
  | .tuple ty _ => ty
  | .array ty _ => ty
  | .closure ty _ _ => ty
  | .letE _ _ b => tyOf b
  | .matchE ty _ _ _ => ty
  | .ite _ t _ => tyOf t
  | .while _ _ => .unit
  | .go _ => .unit
  | .cget _ _ ty _ => ty
  | .un _ ty _ => ty
  | .bin _ ty _ _ => ty
  | .call ty _ _ => ty
  | .toDyn _ _ ty _ => ty
  | .dynCall _ _ ty _ _ => ty
  | .traitCall _ _ ty _ _ => ty
  | .proj _ ty _ => ty

/-- what `anf_imm` passes on without naming it: `LiftExpr::EVar | LiftExpr::EPrim` -/
def isAtom : Expr → Bool
  | .var _ _ => true
  | .prim _ => true
  | _ => false

/-- the `LiftExpr` variant a node of the unified language corresponds to (names as in `lift.rs`) -/
def liftKind : Expr → String
  | .var _ _ => "EVar"
  | .prim _ => "EPrim"
  | .tag _ _ => "ImmTag"
  | .constr _ _ _ => "EConstr"
  | .tuple _ _ => "ETuple"
  | .array _ _ => "EArray"
  | .closure _ _ _ => "EClosure"
  | .letE _ _ _ => "ELet"
  | .matchE _ _ _ _ => "EMatch"
  | .ite _ _ _ => "EIf"
  | .while _ _ => "EWhile"
  | .go _ => "EGo"
  | .cget _ _ _ _ => "EConstrGet"
  | .un _ _ _ => "EUnary"
  | .bin _ _ _ _ => "EBinary"
  | .call _ _ _ => "ECall"
  | .toDyn _ _ _ _ => "EToDyn"
  | .dynCall _ _ _ _ _ => "EDynCall"
  | .traitCall _ _ _ _ _ => "ETraitCall"
  | .proj _ _ _ => "EProj"

/-- the guard of the `EBinary { op: And | Or }` arm (`anf.rs:513`): `matches!(*rhs, …)` — a right
    operand for which `&&` / `||` stays a binary operator over two immediates instead of becoming
    an `if`.  The list of accepted variants is regenerated from the source on every run
    (`Gen/AnfGuards.lean`); `Lemmas/AnfDec.lean` proves it is `isAtom` (`trivialRhs_eq_isAtom`),
    i.e. the right operand has nothing to evaluate — the proof breaks when the guard widens. -/
def trivialRhs (e : Expr) : Bool := Gen.trivialRhsKinds.contains (liftKind e)

/-- a continuation receives what was built and the current counter -/
abbrev Kont (α : Type) := α → Nat → Expr × Nat

/-- `Box::new(|c| AExpr::ACExpr { expr: c })` -/
def ret : Kont Expr := fun c n => (c, n)

/-- arm head of `compile_match_arms_to_anf`: variables and literals stay, every enum
    constructor (with or without arguments) becomes its tag; anything else panics in the Rust
    (`Unexpected pattern in match arm`) and is left alone here (outside `IsLift`). -/
def armHead : Expr → Expr
  | .constr (.enum _ _ idx) ty _ => .tag idx ty
  | e => e

/-- `anf_imm` (`anf.rs:658`) with its recursive call to `anf` on the same expression
    abstracted as `self` (so that the mutual block below is structurally recursive);
    `anfImm e = immK e (anf e)`, see `anfImm` after the block. -/
def immK (e : Expr) (self : Nat → Kont Expr → Expr × Nat) (n : Nat) (k : Kont Expr) : Expr × Nat :=
  match e with
  | .var x ty => k (.var x ty) n
  | .prim p => k (.prim p) n
  | e =>
    -- `gensym` runs before the recursive call: the outer temporary has the smaller number
    self (n + 1) (fun ve n' =>
      let r := k (.var (tmpName n) (tyOf e)) n'
      (.letE (tmpName n) ve r.1, r.2))

mutual
/-- `anf.rs:308` -/
def anf (e : Expr) (n : Nat) (k : Kont Expr) : Expr × Nat :=
  match e with
  | .var x ty => k (.var x ty) n
  | .prim p => k (.prim p) n
  | .constr c ty args =>
    match c, args with
    | .enum _ _ idx, [] => k (.tag idx ty) n
    | _, _ => anfList args n (fun is n => k (.constr c ty is) n)
  | .tuple ty items => anfList items n (fun is n => k (.tuple ty is) n)
  | .array ty items => anfList items n (fun is n => k (.array ty is) n)
  | .letE x v b =>
    anf v n (fun ve n =>
      let r := anf b n k
      (.letE x ve r.1, r.2))
  | .ite c t e =>
    immK c (anf c) n (fun ci n =>
      let rt := anf t n ret
      let re := anf e rt.2 ret
      k (.ite ci rt.1 re.1) re.2)
  | .while c b =>
    let rc := anf c n ret
    let rb := anf b rc.2 ret
    k (.while rc.1 rb.1) rb.2
  | .go e => immK e (anf e) n (fun ci n => k (.go ci) n)
  | .matchE ty s arms dflt =>
    immK s (anf s) n (fun si n =>
      -- compile_match_arms_to_anf
      let ra := anfArms arms n
      let rd := anfDflt dflt ra.2
      k (.matchE ty si ra.1 rd.1) rd.2)
  | .cget c idx ty e => immK e (anf e) n (fun ei n => k (.cget c idx ty ei) n)
  | .un op ty e => immK e (anf e) n (fun ei n => k (.un op ty ei) n)
  | .bin op ty l r =>
    if (op == .and || op == .or) && !trivialRhs r then
      -- the `EIf` case applied to `if l { r } else { false }` / `if l { true } else { r }`
      immK l (anf l) n (fun ci n =>
        if op == .and then
          let rt := anf r n ret
          k (.ite ci rt.1 (.prim (.bool false))) rt.2
        else
          let re := anf r n ret
          k (.ite ci (.prim (.bool true)) re.1) re.2)
    else
      immK l (anf l) n (fun li n => immK r (anf r) n (fun ri n => k (.bin op ty li ri) n))
  | .call ty f args =>
    immK f (anf f) n (fun fi n => anfList args n (fun is n => k (.call ty fi is) n))
  | .toDyn tr forTy ty e => immK e (anf e) n (fun ei n => k (.toDyn tr forTy ty ei) n)
  | .dynCall tr m ty recv args =>
    immK recv (anf recv) n (fun ri n => anfList args n (fun is n => k (.dynCall tr m ty ri is) n))
  | .proj idx ty e => immK e (anf e) n (fun ei n => k (.proj idx ty ei) n)
  -- not Lift nodes (`LiftExpr` has no such variants): passed on unchanged
  | .tag idx ty => k (.tag idx ty) n
  | .closure ty ps b => k (.closure ty ps b) n
  | .traitCall tr m ty recv args => k (.traitCall tr m ty recv args) n

/-- `anf.rs:692` -/
def anfList (es : List Expr) (n : Nat) (k : Kont (List Expr)) : Expr × Nat :=
  match es with
  | [] => k [] n
  | e :: rest => immK e (anf e) n (fun i n => anfList rest n (fun is n => k (i :: is) n))

/-- the `for arm in arms` loop of `compile_match_arms_to_anf` (`anf.rs:226`) -/
def anfArms (arms : List Arm) (n : Nat) : List Arm × Nat :=
  match arms with
  | [] => ([], n)
  | .mk lhs body :: rest =>
    let rb := anf body n ret
    let rr := anfArms rest rb.2
    (.mk (armHead lhs) rb.1 :: rr.1, rr.2)

/-- `default.map(|def_body| anf(def_body, ret))` (`anf.rs:291`) -/
def anfDflt (d : Option Expr) (n : Nat) : Option Expr × Nat :=
  match d with
  | none => (none, n)
  | some e =>
    let r := anf e n ret
    (some r.1, r.2)
end

/-- `anf_imm` (`anf.rs:658`) -/
def anfImm (e : Expr) (n : Nat) (k : Kont Expr) : Expr × Nat := immK e (anf e) n k

/-- `anf_file` (`anf.rs:722`): functions in order, one counter for the whole file -/
def anfFns : List Fn → Nat → List Fn × Nat
  | [], n => ([], n)
  | f :: rest, n =>
    let r := anf f.body n ret
    let rr := anfFns rest r.2
    ({ f with body := r.1 } :: rr.1, rr.2)

def anfProg (P : Prog) (n : Nat) : Prog := { P with fns := (anfFns P.fns n).1 }

/-! ### the ANF sub-language -/

/-- `ImmExpr` -/
def isImm : Expr → Bool
  | .var _ _ => true
  | .prim _ => true
  | .tag _ _ => true
  | _ => false

mutual
/-- `AExpr`: a `let` chain of `CExpr`s -/
def isA : Expr → Bool
  | .letE _ v b => isC v && isA b
  | e => isC e
/-- `CExpr`: every operand is an `ImmExpr`; branches, arm bodies and loop parts are `AExpr`s -/
def isC : Expr → Bool
  | .var _ _ => true
  | .prim _ => true
  | .tag _ _ => true
  | .constr _ _ args => args.all isImm
  | .tuple _ items => items.all isImm
  | .array _ items => items.all isImm
  | .matchE _ s arms d => isImm s && isArms arms && isDflt d
  | .ite c t e => isImm c && isA t && isA e
  | .while c b => isA c && isA b
  | .go e => isImm e
  | .cget _ _ _ e => isImm e
  | .un _ _ e => isImm e
  | .bin _ _ l r => isImm l && isImm r
  | .call _ f args => isImm f && args.all isImm
  | .toDyn _ _ _ e => isImm e
  | .dynCall _ _ _ r args => isImm r && args.all isImm
  | .proj _ _ e => isImm e
  | .letE _ _ _ => false
  | .closure _ _ _ => false
  | .traitCall _ _ _ _ _ => false
def isArms : List Arm → Bool
  | [] => true
  | .mk lhs body :: rest => isImm lhs && isA body && isArms rest
def isDflt : Option Expr → Bool
  | none => true
  | some e => isA e
end

/-! ### the Lift sub-language (what `LiftExpr` can express and `anf` does not panic on) -/

/-- arm heads accepted by `compile_match_arms_to_anf` -/
def isArmHead : Expr → Bool
  | .var _ _ => true
  | .prim _ => true
  | .constr (.enum _ _ _) _ _ => true
  | _ => false

mutual
def isLift : Expr → Bool
  | .var _ _ => true
  | .prim _ => true
  | .tag _ _ => false
  | .constr _ _ args => isLiftList args
  | .tuple _ items => isLiftList items
  | .array _ items => isLiftList items
  | .closure _ _ _ => false
  | .letE _ v b => isLift v && isLift b
  | .matchE _ s arms d => isLift s && isLiftArms arms && isLiftDflt d
  | .ite c t e => isLift c && isLift t && isLift e
  | .while c b => isLift c && isLift b
  | .go e => isLift e
  | .cget _ _ _ e => isLift e
  | .un _ _ e => isLift e
  | .bin _ _ l r => isLift l && isLift r
  | .call _ f args => isLift f && isLiftList args
  | .toDyn _ _ _ e => isLift e
  | .dynCall _ _ _ r args => isLift r && isLiftList args
  | .traitCall _ _ _ _ _ => false
  | .proj _ _ e => isLift e
def isLiftList : List Expr → Bool
  | [] => true
  | e :: rest => isLift e && isLiftList rest
def isLiftArms : List Arm → Bool
  | [] => true
  | .mk lhs body :: rest => isArmHead lhs && isLift body && isLiftArms rest
def isLiftDflt : Option Expr → Bool
  | none => true
  | some e => isLift e
end

end Goml.Anf
