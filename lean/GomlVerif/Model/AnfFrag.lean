import GomlVerif.Model.Anf
import GomlVerif.Model.Sem
/-
The fragment on which `Props/C09.lean` proves `anf_preserves`, as executable (`Bool`)
predicates so that the driver can report how many REAL Lift functions lie inside it.

ANF flattens nested `let`s: `let x = (let y = v in a) in b` becomes
`let y = v in let x = a in b`, so the scope of `y` now also covers `b`, and a temporary `t<n>`
introduced for an operand is in scope of every later operand.  That is only sound when the
names whose scope is widened are not mentioned where the scope is widened to:

* `frag e`     — no `let`-bound name of an operand occurs in another operand / the body;
* `tmpFresh`   — no temporary `t<m>` that `anf` hands out for `e` occurs in `e`
                 (C19's `local_vs_temp_disjoint`; false e.g. for a program with a function `t2`).

goml's renamer gives every source binder a unique `name/idx` and `compile_match` uses gensym'd
names, so real Lift functions are expected to satisfy both; the driver counts.
-/
namespace Goml.Anf
open Goml

mutual
/-- every variable reference and every binder occurring in `e` -/
def names : Expr → List String
  | .var x _ => [x]
  | .prim _ => []
  | .tag _ _ => []
  | .constr _ _ args => namesList args
  | .tuple _ items => namesList items
  | .array _ items => namesList items
  | .closure _ ps b => ps.map (·.1) ++ names b
  | .letE x v b => x :: (names v ++ names b)
  | .matchE _ s arms d => names s ++ (namesArms arms ++ namesDflt d)
  | .ite c t e => names c ++ (names t ++ names e)
  | .while c b => names c ++ names b
  | .go e => names e
  | .cget _ _ _ e => names e
  | .un _ _ e => names e
  | .bin _ _ l r => names l ++ names r
  | .call _ f args => names f ++ namesList args
  | .toDyn _ _ _ e => names e
  | .dynCall _ _ _ r args => names r ++ namesList args
  | .traitCall _ _ _ r args => names r ++ namesList args
  | .proj _ _ e => names e
def namesList : List Expr → List String
  | [] => []
  | e :: rest => names e ++ namesList rest
def namesArms : List Arm → List String
  | [] => []
  | .mk lhs body :: rest => names lhs ++ (names body ++ namesArms rest)
def namesDflt : Option Expr → List String
  | none => []
  | some e => names e
end

mutual
/-- every `let`-bound name in `e` -/
def bnd : Expr → List String
  | .var _ _ => []
  | .prim _ => []
  | .tag _ _ => []
  | .constr _ _ args => bndList args
  | .tuple _ items => bndList items
  | .array _ items => bndList items
  | .closure _ _ _ => []
  | .letE x v b => x :: (bnd v ++ bnd b)
  | .matchE _ s arms d => bnd s ++ (bndArms arms ++ bndDflt d)
  | .ite c t e => bnd c ++ (bnd t ++ bnd e)
  | .while c b => bnd c ++ bnd b
  | .go e => bnd e
  | .cget _ _ _ e => bnd e
  | .un _ _ e => bnd e
  | .bin _ _ l r => bnd l ++ bnd r
  | .call _ f args => bnd f ++ bndList args
  | .toDyn _ _ _ e => bnd e
  | .dynCall _ _ _ r args => bnd r ++ bndList args
  | .traitCall _ _ _ _ _ => []
  | .proj _ _ e => bnd e
def bndList : List Expr → List String
  | [] => []
  | e :: rest => bnd e ++ bndList rest
def bndArms : List Arm → List String
  | [] => []
  | .mk _ body :: rest => bnd body ++ bndArms rest
def bndDflt : Option Expr → List String
  | none => []
  | some e => bnd e
end

/-- no element of `xs` occurs in `ys` -/
def disj (xs ys : List String) : Bool := xs.all (fun x => !ys.contains x)

mutual
/-- the fragment of `anf_preserves`: a Lift expression (`isLift`) in which
    * widening the scope of the `let`-bound names of an operand over the other operands of the
      same node captures nothing (`disj … …`; operands that are plain variables are read after
      the later operands have been named, hence both directions),
    * a nullary constructor carries the name of its enum type (so that it is the same value
      as the tag it becomes). -/
def frag : Expr → Bool
  | .var _ _ => true
  | .prim _ => true
  | .tag _ _ => false
  | .constr c ty args =>
    (match c, args with
     | .enum tn _ _, [] => Sem.tagTyName ty == tn
     | _, _ => true) && fragList args
  | .tuple _ items => fragList items
  | .array _ items => fragList items
  | .closure _ _ _ => false
  | .letE _ v b => frag v && frag b && disj (bnd v) (names b)
  | .matchE _ s arms d =>
    frag s && fragArms arms && fragDflt d && disj (bnd s) (namesArms arms ++ namesDflt d)
  | .ite c t e => frag c && frag t && frag e && disj (bnd c) (names t ++ names e)
  | .while c b => frag c && frag b
  | .go e => frag e
  | .cget _ _ _ e => frag e
  | .un _ _ e => frag e
  | .bin _ _ l r => frag l && frag r && disj (bnd l) (names r) && disj (bnd r) (names l)
  | .call _ f args => frag f && fragList args && disj (bnd f) (namesList args) && disj (bndList args) (names f)
  | .toDyn _ _ _ e => frag e
  | .dynCall _ _ _ r args =>
    frag r && fragList args && disj (bnd r) (namesList args) && disj (bndList args) (names r)
  | .traitCall _ _ _ _ _ => false
  | .proj _ _ e => frag e
def fragList : List Expr → Bool
  | [] => true
  | e :: rest => frag e && fragList rest && disj (bnd e) (namesList rest) && disj (bndList rest) (names e)
def fragArms : List Arm → Bool
  | [] => true
  | .mk lhs body :: rest => isArmHead lhs && frag body && fragArms rest
def fragDflt : Option Expr → Bool
  | none => true
  | some e => frag e
end

/-- none of the temporaries `t<n₀>` … `t<n₁-1>` occurs in `e` -/
def tmpFresh (n₀ n₁ : Nat) (e : Expr) : Bool :=
  (List.range' n₀ (n₁ - n₀)).all (fun m => !(names e).contains (tmpName m))

/-- the hypothesis of `anf_preserves` for a function body ANF-transformed from counter `n` -/
def inAnfFragment (e : Expr) (n : Nat) : Bool :=
  frag e && tmpFresh n (anf e n ret).2 e

/-- per function of a file (the counter is threaded as in `anf_file`) -/
def anfFragFlags : List Fn → Nat → List Bool
  | [], _ => []
  | f :: rest, n => inAnfFragment f.body n :: anfFragFlags rest (anf f.body n ret).2

end Goml.Anf
