import GomlVerif.Model.Lift
import GomlVerif.Model.Closed
/-!
C03 (preservation, lambda lifting): executable side conditions and checkers.

Everything here is `Bool`-valued and import-free, so the driver can evaluate it on every real
Mono → Lift input/output:

* `presHypArity`: every closure node has at most as many parameters as its function type has
  parameter types (`loweredParams` zips the two lists, lift.rs:723-734; a surplus closure parameter
  would silently not be bound by the generated apply function); and every match-arm head is a
  plain pattern (`simplePat`), so transforming it creates no apply function;
* `closedIn G bound e`: scope-closedness checker — every variable occurrence of `e` is bound by an
  enclosing `let`/closure parameter, is in `bound`, or is a global (`G`);
* `presHypClosedFn G f`: `closedIn` for a function body under its own parameters;
* `presHypFns G fns`: the hypothesis of `lift_preserves_closed` (both of the above, every function);
* `liftGlobals`, `scopeClosedFns`: the conclusion of `lift_preserves_closed` as a check on a lifted file;
* `presHypEnvTys p env`, `presHypFnsTys p fns`: hypotheses of `lift_preserves_allTys` — every type the
  pass can copy into an annotation (function signatures, struct and enum field types of the
  environment; parameter, result and body annotations of the input functions) satisfies `p`;
* `presHypStable st sc e`: hypothesis of `lift_preserves_wt_partial` — every annotation the pass
  recomputes on a closure-free expression (variables from the scope / signatures, tuple types,
  field and projection types) already has the recomputed value.
-/
namespace Goml.Lift
open Goml

mutual
/-- a match-arm head as the match compiler leaves it: a constant pattern built from
    constructors, tuples, literals and placeholder variables (no binder, no closure, no call) -/
def simplePat : Expr → Bool
  | .var _ _ => true
  | .prim _ => true
  | .tag _ _ => true
  | .constr _ _ args => simplePatList args
  | .tuple _ items => simplePatList items
  | .array _ items => simplePatList items
  | _ => false
def simplePatList : List Expr → Bool
  | [] => true
  | e :: es => simplePat e && simplePatList es
end

mutual
/-- every closure node: `params.length ≤ (parameter types of its function type).length`;
    every match-arm head is a `simplePat` -/
def presHypArity : Expr → Bool
  | .closure ty ps b => decide (ps.length ≤ (funcParts ty).1.length) && presHypArity b
  | .var _ _ => true
  | .prim _ => true
  | .tag _ _ => true
  | .constr _ _ args => presHypArityList args
  | .tuple _ items => presHypArityList items
  | .array _ items => presHypArityList items
  | .letE _ v b => presHypArity v && presHypArity b
  | .matchE _ s arms d =>
    presHypArity s && presHypArityArms arms && (match d with | some d => presHypArity d | none => true)
  | .ite c t e => presHypArity c && presHypArity t && presHypArity e
  | .while c b => presHypArity c && presHypArity b
  | .go e => presHypArity e
  | .cget _ _ _ e => presHypArity e
  | .un _ _ e => presHypArity e
  | .bin _ _ l r => presHypArity l && presHypArity r
  | .call _ f args => presHypArity f && presHypArityList args
  | .toDyn _ _ _ e => presHypArity e
  | .dynCall _ _ _ r args => presHypArity r && presHypArityList args
  | .traitCall _ _ _ r args => presHypArity r && presHypArityList args
  | .proj _ _ e => presHypArity e
def presHypArityList : List Expr → Bool
  | [] => true
  | e :: es => presHypArity e && presHypArityList es
def presHypArityArms : List Arm → Bool
  | [] => true
  | .mk l b :: rest => simplePat l && presHypArity b && presHypArityArms rest
end

mutual
/-- scope-closedness: every variable occurrence is bound (`let`, closure parameter, `bound`) or
    global (`G`).  The head of a match arm is a pattern (its variables are placeholders that the
    arm body re-binds by `let x = scrutinee.<i>`), so it is not inspected. -/
def closedIn (G : String → Bool) (bound : List String) : Expr → Bool
  | .var x _ => bound.contains x || G x
  | .prim _ => true
  | .tag _ _ => true
  | .constr _ _ args => closedInList G bound args
  | .tuple _ items => closedInList G bound items
  | .array _ items => closedInList G bound items
  | .closure _ ps b => closedIn G (ps.map (·.1) ++ bound) b
  | .letE x v b => closedIn G bound v && closedIn G (x :: bound) b
  | .matchE _ s arms d =>
    closedIn G bound s && closedInArms G bound arms &&
      (match d with | some d => closedIn G bound d | none => true)
  | .ite c t e => closedIn G bound c && closedIn G bound t && closedIn G bound e
  | .while c b => closedIn G bound c && closedIn G bound b
  | .go e => closedIn G bound e
  | .cget _ _ _ e => closedIn G bound e
  | .un _ _ e => closedIn G bound e
  | .bin _ _ l r => closedIn G bound l && closedIn G bound r
  | .call _ f args => closedIn G bound f && closedInList G bound args
  | .toDyn _ _ _ e => closedIn G bound e
  | .dynCall _ _ _ r args => closedIn G bound r && closedInList G bound args
  | .traitCall _ _ _ r args => closedIn G bound r && closedInList G bound args
  | .proj _ _ e => closedIn G bound e
def closedInList (G : String → Bool) (bound : List String) : List Expr → Bool
  | [] => true
  | e :: es => closedIn G bound e && closedInList G bound es
def closedInArms (G : String → Bool) (bound : List String) : List Arm → Bool
  | [] => true
  | .mk _ b :: rest => closedIn G bound b && closedInArms G bound rest
end

/-- the function body is closed under the function's own parameters and the globals `G` -/
def presHypClosedFn (G : String → Bool) (f : Fn) : Bool := closedIn G (f.params.map (·.1)) f.body

/-- hypothesis of `lift_preserves_closed` on the Mono input: every function closed, every closure
    node arity-consistent -/
def presHypFns (G : String → Bool) (fns : List Fn) : Bool :=
  fns.all (fun f => presHypClosedFn G f && presHypArity f.body)

/-- the globals after lifting: the globals before, and the names of the apply functions the pass
    generated (`new_functions`, emitted at the end of the lifted file) -/
def liftGlobals (G : String → Bool) (newFns : List Fn) : String → Bool :=
  fun x => G x || newFns.any (fun f => f.name == x)

/-- conclusion of `lift_preserves_closed`, as an executable check on a lifted file
    (`fns` = all emitted functions, `newFns` = the generated apply functions among them) -/
def scopeClosedFns (G : String → Bool) (fns newFns : List Fn) : Bool :=
  fns.all (presHypClosedFn (liftGlobals G newFns))

/-- every type of the lifting environment satisfies `p`: signatures (`mono_funcs`), struct fields,
    enum variant fields -/
def presHypEnvTys (p : Ty → Bool) (env : Env) : Bool :=
  env.funcs.all (fun q => p q.2) && env.structs.all (fun d => d.fields.all (fun q => p q.2)) &&
    env.enums.all (fun d => d.variants.all (fun v => v.2.all p))

/-- every annotation of every input function (parameters, result, body) satisfies `p` -/
def presHypFnsTys (p : Ty → Bool) (fns : List Fn) : Bool := fns.all (Closed.fnAllTys p)

def monoTys : List Expr → List Ty
  | [] => []
  | e :: es => monoTy e :: monoTys es

mutual
/-- Every annotation that `transform_expr` recomputes instead of copying already has the value it
    recomputes, in a state without closure types: a variable carries the type of its scope entry
    (which is not a closure environment) or of its signature; a tuple node carries the tuple of its
    item types; a field access carries the declared field type; a projection carries the component
    type.  (`false` on closure nodes: they are always rewritten.) -/
def presHypStable (st : State) (sc : Scope) : Expr → Bool
  | .var x ty =>
    match sc.get x with
    | some entry => entry.closureStruct.isNone && tyBeq entry.ty ty
    | none =>
      match st.getFunc x with
      | some fty => tyBeq fty ty
      | none => true
  | .prim _ => true
  | .tag _ _ => true
  | .constr _ _ args => presHypStableList st sc args
  | .tuple ty items => tyBeq (.tuple (monoTys items)) ty && presHypStableList st sc items
  | .array _ items => presHypStableList st sc items
  | .closure _ _ _ => false
  | .letE x v b =>
    presHypStable st sc v &&
      presHypStable st (sc.pushLayer.insert x { ty := monoTy v, closureStruct := none }) b
  | .matchE _ s arms d =>
    presHypStable st sc s && presHypStableArms st sc arms &&
      (match d with | some d => presHypStable st sc d | none => true)
  | .ite c t e => presHypStable st sc c && presHypStable st sc t && presHypStable st sc e
  | .while c b => presHypStable st sc c && presHypStable st sc b
  | .go e => presHypStable st sc e
  | .cget c idx ty e =>
    presHypStable st sc e &&
      tyBeq (match c with
        | .struct tyName => (st.structFieldTy tyName idx).getD ty
        | .enum tyName variant _ => (st.enumFieldTy tyName variant idx).getD ty) ty
  | .un _ _ e => presHypStable st sc e
  | .bin _ _ l r => presHypStable st sc l && presHypStable st sc r
  | .call _ f args => presHypStable st sc f && presHypStableList st sc args
  | .toDyn _ _ _ e => presHypStable st sc e
  | .dynCall _ _ _ r args => presHypStable st sc r && presHypStableList st sc args
  | .traitCall _ _ _ r args => presHypStable st sc r && presHypStableList st sc args
  | .proj idx ty e =>
    presHypStable st sc e &&
      tyBeq (match monoTy e with | .tuple ts => (ts[idx]?).getD ty | _ => ty) ty
def presHypStableList (st : State) (sc : Scope) : List Expr → Bool
  | [] => true
  | e :: es => presHypStable st sc e && presHypStableList st sc es
def presHypStableArms (st : State) (sc : Scope) : List Arm → Bool
  | [] => true
  | .mk l b :: rest => presHypStable st sc l && presHypStable st sc b && presHypStableArms st sc rest
end

/-- `presHypStable` for a top-level function lifted in state `st` (no closure type registered so
    far; scope = its parameters; the state `liftFn` transforms the body in) -/
def presHypStableFn (st : State) (f : Fn) : Bool :=
  st.closureTypes.isEmpty &&
    presHypStable (match sanitizeEnvName f.name with | some c => { st with ctx := c :: st.ctx } | none => st)
      (f.params.foldl
        (fun s p => s.insert p.1 { ty := p.2, closureStruct := st.closureStructForTy p.2 }) Scope.new.pushLayer)
      f.body

end Goml.Lift
