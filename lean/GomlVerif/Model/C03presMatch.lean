import GomlVerif.Model.Match
/-!
C03 (every stage output is closed), match compiler part: executable definitions.

* `fvE`            free variables of a Core expression (the head of a match arm is a pattern that
                   NAMES the temporaries the arm body binds afterwards, it is not a use; `let` and
                   closure parameters bind);
* `DT.fvOk`        "the decision tree is well-scoped under the bound set `Γ`", following exactly the
                   binders `DT.toExpr` emits;
* `Pat.wfAt`       the pattern is well-formed at the type the match compiler will assume for its column
                   (constructor arities and component types as `plan` computes them);
* `presHyp…`       the decidable hypotheses of `matchc_preserves_closed`
                   (`Lemmas/C03presMatch.lean`), to be evaluated on every real match.

Imports only `Model.Match`.
-/
namespace Goml.Match
open Goml

/-! ## free variables of the emitted expression -/

mutual
/-- free variables, every occurrence, in traversal order -/
def fvE : Expr → List String
  | .var x _ => [x]
  | .prim _ => []
  | .tag _ _ => []
  | .constr _ _ args => fvEL args
  | .tuple _ items => fvEL items
  | .array _ items => fvEL items
  | .closure _ ps body => (fvE body).filter (fun y => !(ps.map (·.1)).contains y)
  | .letE x v b => fvE v ++ (fvE b).filter (fun y => !(y == x))
  | .matchE _ s arms d => fvE s ++ fvEArms arms ++ (match d with | some d => fvE d | none => [])
  | .ite c t e => fvE c ++ fvE t ++ fvE e
  | .while c b => fvE c ++ fvE b
  | .go e => fvE e
  | .cget _ _ _ e => fvE e
  | .un _ _ e => fvE e
  | .bin _ _ l r => fvE l ++ fvE r
  | .call _ f args => fvE f ++ fvEL args
  | .toDyn _ _ _ e => fvE e
  | .dynCall _ _ _ recv args => fvE recv ++ fvEL args
  | .traitCall _ _ _ recv args => fvE recv ++ fvEL args
  | .proj _ _ e => fvE e
def fvEL : List Expr → List String
  | [] => []
  | e :: es => fvE e ++ fvEL es
/-- the head of an arm is a pattern (constructor applied to the names of its field temporaries, a
    literal, a tag): only the body is traversed -/
def fvEArms : List Arm → List String
  | [] => []
  | .mk _ body :: rest => fvE body ++ fvEArms rest
end

def subsetB (l Γ : List String) : Bool := l.all (fun y => Γ.contains y)

/-- the expression is closed under `Γ`: every free variable is in `Γ` -/
def closedE (Γ : List String) (e : Expr) : Bool := subsetB (fvE e) Γ

/-! ## well-scopedness of a decision tree -/

/-- the leaf `let b₁.name = b₁.var in … in body` -/
def bindsFvOk {β : Type} (bodyFv : β → List String) : List Bind → β → List String → Bool
  | [], b, Γ => subsetB (bodyFv b) Γ
  | bd :: bs, b, Γ => Γ.contains bd.var && bindsFvOk bodyFv bs b (bd.name :: Γ)

mutual
def DT.fvOk {β : Type} (bodyFv : β → List String) : DT β → List String → Bool
  | .leaf binds b, Γ => bindsFvOk bodyFv binds b Γ
  | .missing _, _ => true
  | .letProj x _ _ v _ rest, Γ => Γ.contains v && rest.fvOk bodyFv (x :: Γ)
  | .letGet x _ _ _ v _ rest, Γ => Γ.contains v && rest.fvOk bodyFv (x :: Γ)
  | .switch _ v _ cases, Γ => Γ.contains v && cases.fvOk bodyFv Γ
def Cases.fvOk {β : Type} (bodyFv : β → List String) : Cases β → List String → Bool
  | .nil, _ => true
  | .dflt t, Γ => t.fvOk bodyFv Γ
  | .cons _ t rest, Γ => t.fvOk bodyFv Γ && rest.fvOk bodyFv Γ
end

/-! ## pattern variables -/

mutual
def Pat.pvars : Pat → List String
  | .wild _ => []
  | .var x _ => [x]
  | .prim _ _ => []
  | .tuple ps _ => Pat.pvarsL ps
  | .constr _ ps _ => Pat.pvarsL ps
def Pat.pvarsL : List Pat → List String
  | [] => []
  | p :: ps => p.pvars ++ Pat.pvarsL ps
end

def colsPvars : List (String × Pat) → List String
  | [] => []
  | c :: cs => c.2.pvars ++ colsPvars cs

/-! ## patterns well-formed at a type -/

mutual
/-- structural equality of types (`Ty` only derives `BEq`) -/
def tyEqB : Ty → Ty → Bool
  | .unit, b => (match b with | .unit => true | _ => false)
  | .bool, b => (match b with | .bool => true | _ => false)
  | .int n s, b => (match b with | .int n' s' => n == n' && s == s' | _ => false)
  | .float n, b => (match b with | .float n' => n == n' | _ => false)
  | .string, b => (match b with | .string => true | _ => false)
  | .tuple ts, b => (match b with | .tuple ts' => tysEqB ts ts' | _ => false)
  | .enum n, b => (match b with | .enum n' => n == n' | _ => false)
  | .struct n, b => (match b with | .struct n' => n == n' | _ => false)
  | .dyn n, b => (match b with | .dyn n' => n == n' | _ => false)
  | .app t args, b => (match b with | .app t' args' => tyEqB t t' && tysEqB args args' | _ => false)
  | .array l e, b => (match b with | .array l' e' => l == l' && tyEqB e e' | _ => false)
  | .vec e, b => (match b with | .vec e' => tyEqB e e' | _ => false)
  | .ref e, b => (match b with | .ref e' => tyEqB e e' | _ => false)
  | .param n, b => (match b with | .param n' => n == n' | _ => false)
  | .func ps r, b => (match b with | .func ps' r' => tysEqB ps ps' && tyEqB r r' | _ => false)
  | .tvar n, b => (match b with | .tvar n' => n == n' | _ => false)
def tysEqB : List Ty → List Ty → Bool
  | [], b => (match b with | [] => true | _ => false)
  | t :: ts, b => (match b with | t' :: ts' => tyEqB t t' && tysEqB ts ts' | [] => false)
end

/-- the types `plan` gives the field temporaries of constructor `c` when the column has type `t` -/
def compTys (S : Sig) (t : Ty) (c : Ctor) : Option (List Ty) :=
  match c, kindOf t with
  | .enum _ _ i, .enumK name targs =>
    match findEnum S name with
    | some d =>
      match d.variants[i]? with
      | some v => some (substTys (d.generics.zip targs) v.2)
      | none => none
    | none => none
  | .struct _, .structK name targs =>
    match findStruct S name with
    | some d => some (substTys (d.generics.zip targs) (d.fields.map (·.2)))
    | none => none
  | _, _ => none

mutual
/-- `p` is well-formed at column type `t`: a refutable pattern is annotated with `t`, a constructor
    pattern has at most as many arguments as the declaration has fields (the match compiler `zip`s the
    field temporaries with the argument patterns: surplus arguments would be dropped silently), and
    the arguments are well-formed at the component types -/
def Pat.wfAt (S : Sig) : Ty → Pat → Bool
  | _, .wild _ => true
  | _, .var _ _ => true
  | t, .prim _ ty => tyEqB ty t
  | t, .tuple items ty =>
    tyEqB ty t && (match t with | .tuple typs => Pat.wfAtL S typs items | _ => false)
  | t, .constr c args ty =>
    tyEqB ty t && (match compTys S t c with | some tys => Pat.wfAtL S tys args | none => false)
def Pat.wfAtL (S : Sig) : List Ty → List Pat → Bool
  | _, [] => true
  | ts, p :: ps =>
    match ts with
    | [] => false
    | t :: ts => Pat.wfAt S t p && Pat.wfAtL S ts ps
end

def lookupTy (x : String) : List (String × Ty) → Option Ty
  | [] => none
  | p :: ps => if p.1 = x then some p.2 else lookupTy x ps

/-! ## the decidable hypotheses -/

/-- hypotheses (a), (b), (c) of `matchc_preserves_closed` on one row, under the bound set `Γ` and
    the types `T` of the column variables:
    (a) every column variable is bound (`∈ Γ`) and typed by `T`, its pattern well-formed at that type;
    (c) every `let name = var` already moved to the row reads a bound variable;
    (b) every free variable of the body is bound, or one of the row's `let` names, or a pattern
        variable of the row's columns. -/
def presHypRow {β : Type} (S : Sig) (bodyFv : β → List String) (Γ : List String)
    (T : List (String × Ty)) (r : Row β) : Bool :=
  r.cols.all (fun c => Γ.contains c.1 &&
    (match lookupTy c.1 T with | some t => c.2.wfAt S t | none => false)) &&
  r.binds.all (fun b => Γ.contains b.var) &&
  (bodyFv r.body).all (fun y =>
    Γ.contains y || (r.binds.map (·.name)).contains y || (colsPvars r.cols).contains y)

def presHypRows {β : Type} (S : Sig) (bodyFv : β → List String) (Γ : List String)
    (T : List (String × Ty)) (rows : List (Row β)) : Bool :=
  rows.all (presHypRow S bodyFv Γ T)

/-- the name is never returned by the gensym `x{n}`: it contains a `/` (source locals are spelled
    `hint/index`) or does not start with `x` (`mtmp{n}`) -/
def presHypName (x : String) : Bool :=
  x.toList.contains '/' || (match x.toList with | c :: _ => c != 'x' | [] => false)

/-- every typed column variable is spelled unlike a generated name -/
def presHypNames (T : List (String × Ty)) : Bool := T.all (fun p => presHypName p.1)

/-- hypotheses of `compileMatch_closed`: `Γ` = the names bound around the `match` (locals in scope
    and global functions, among them the runtime function `missing`), `sty` = the type of the
    scrutinee.  For `Scrut.var x` the scrutinee variable must be bound; for `Scrut.other e` the
    scrutinee expression must be closed and the temporary `mtmp` is bound by the emitted `let`. -/
def presHypMatch (S : Sig) (Γ : List String) (sty : Ty) (mtmp : String) (sc : Scrut)
    (arms : List (ArmIn Expr)) : Bool :=
  Γ.contains "missing" &&
  (match sc with
   | .var x =>
     presHypName x && presHypRows S fvE Γ [(x, sty)] (makeRows x arms)
   | .other e =>
     closedE Γ e && presHypName mtmp && presHypRows S fvE (mtmp :: Γ) [(mtmp, sty)] (makeRows mtmp arms))

/-- hypotheses of `compileLet_closed` (`let pat = e; rest`): the bound expression is closed, the
    continuation `rest` is closed given the pattern's variables -/
def presHypLet (S : Sig) (Γ : List String) (mtmp : String) (e : Expr) (pat : Pat) (rest : Expr)
    (restTy : Ty) : Bool :=
  Γ.contains "missing" && closedE Γ e && presHypName mtmp &&
  presHypRows S fvE (mtmp :: Γ) [(mtmp, pat.ty)]
    [⟨[(mtmp, pat)], [], rest, restTy⟩, ⟨[(mtmp, .wild pat.ty)], [], emissing restTy, restTy⟩]

end Goml.Match
