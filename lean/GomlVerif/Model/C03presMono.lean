import GomlVerif.Model.Wt
/-!
Decidable side conditions of `mono_preserves_wt_partial` (Lemmas/C03presMono.lean): monomorphisation
(phase 1, `Mono.monoExpr`) preserves the type-consistency judgement `Wt.errs … = []`.

The instance body `(monoExpr F σ e c).1` is the substitution instance `Wt.substE σ e` of the generic
body `e`, except for the *names* in `.var` nodes (a reference to a generic function is renamed to the
instance, `f` ↦ `f__T_int32`; a trait call becomes a direct call of `trait_impl#Tr#Ty#m`).  A name is
judged against the function table, so the side condition is about the function table `fns'` the
monomorphised body is judged under (the monomorphised program's own functions, `Ctx.out`):
`presHypCallees` walks the substitution instance and the emitted body in lock step, with the same
binder environment `Wt.errs` uses, and asks at every pair of `.var` nodes `x` / `x'`

* nothing, when the name is unchanged and bound by a binder;
* `presHypGlobalAgree`: when the name is unchanged and global, that the generic table `S.fns` and
  `fns'` resolve it to functions of the same type (or both do not know it — builtins are shared);
* otherwise (a renamed callee, or a name `mono_expr` invented): that `x'` at its annotation is accepted
  under `fns'` (`Wt.errs` of the single `.var` node: for a name not bound by a binder this is
  `instOf (fnTy g) ty` for the `g` the name resolves to in `fns'`).

`presHypFn` is the condition for one emitted function, `presHypOut` / `presHypProg` for the whole output
of phase 1 (over the trace `presItems` of the work-list loop).  `presHypCtors` is the side condition of
the phase-2 lemma `rewriteExpr_noApp`.

Import-light (Model only), evaluated by the driver on real programs.
-/
namespace Goml.Mono
open Goml Goml.Wt

/-- the signature the monomorphised program is judged under: the definitions, builtins and traits of
`S`, the function table replaced by `fns'` -/
def presSig (S : Sig) (fns' : List Fn) : Sig := { S with fns := fns' }

/-- an unchanged global name resolves, in the generic table and in `fns'`, to functions of the same
type — or to no function in both (then the shared builtin table decides) -/
def presHypGlobalAgree (S : Sig) (fns' : List Fn) (x : String) : Bool :=
  match findCallee S.fns x, findCallee fns' x with
  | some f, some g => tyBeq (fnTy f) (fnTy g)
  | none, none => true
  | _, _ => false

/-- the judgement of one `.var` node of the emitted body under `fns'` -/
def presHypVarOk (S : Sig) (fns' : List Fn) (Γ : TyEnv) (x' : String) (ty' : Ty) : Bool :=
  (errs (presSig S fns') Γ (.var x' ty')).isEmpty

/-- side condition at a pair of `.var` nodes: `x` in the substitution instance, `x'` (annotated `ty'`)
in the emitted body -/
def presHypVar (S : Sig) (fns' : List Fn) (Γ : TyEnv) (x x' : String) (ty' : Ty) : Bool :=
  (x == x' && ((lookupVar Γ x).isSome || presHypGlobalAgree S fns' x)) || presHypVarOk S fns' Γ x' ty'

mutual
/-- `presHypCallees S fns' Γ e e'`: lock-step walk of the substitution instance `e` and the emitted body
`e'` (binders as in `Wt.errs`); `presHypVar` at every pair of `.var` nodes, `presHypVarOk` at the
callee of a resolved trait call.  `false` where the shapes differ (they never do for
`e = substE σ e₀`, `e' = (monoExpr F σ e₀ c).1`: `monoExpr_sameUpToCallee`). -/
def presHypCallees (S : Sig) (fns' : List Fn) (Γ : TyEnv) : Expr → Expr → Bool
  | .var x _, e' => match e' with | .var x' ty' => presHypVar S fns' Γ x x' ty' | _ => false
  | .prim _, _ => true
  | .tag _ _, _ => true
  | .constr _ _ args, e' =>
    match e' with | .constr _ _ args' => presHypCalleesList S fns' Γ args args' | _ => false
  | .tuple _ items, e' =>
    match e' with | .tuple _ items' => presHypCalleesList S fns' Γ items items' | _ => false
  | .array _ items, e' =>
    match e' with | .array _ items' => presHypCalleesList S fns' Γ items items' | _ => false
  | .closure _ _ body, e' =>
    match e' with | .closure _ ps' body' => presHypCallees S fns' (bindAll ps' Γ) body body' | _ => false
  | .letE _ v b, e' =>
    match e' with
    | .letE x' v' b' => presHypCallees S fns' Γ v v' && presHypCallees S fns' ((x', getTy v') :: Γ) b b'
    | _ => false
  | .matchE _ s arms none, e' =>
    match e' with
    | .matchE _ s' arms' none => presHypCallees S fns' Γ s s' && presHypCalleesArms S fns' Γ arms arms'
    | _ => false
  | .matchE _ s arms (some d), e' =>
    match e' with
    | .matchE _ s' arms' (some d') =>
      presHypCallees S fns' Γ s s' && presHypCalleesArms S fns' Γ arms arms' && presHypCallees S fns' Γ d d'
    | _ => false
  | .ite c t e, e' =>
    match e' with
    | .ite c' t' f' => presHypCallees S fns' Γ c c' && presHypCallees S fns' Γ t t' && presHypCallees S fns' Γ e f'
    | _ => false
  | .while c b, e' =>
    match e' with | .while c' b' => presHypCallees S fns' Γ c c' && presHypCallees S fns' Γ b b' | _ => false
  | .go e, e' => match e' with | .go f' => presHypCallees S fns' Γ e f' | _ => false
  | .cget _ _ _ e, e' => match e' with | .cget _ _ _ f' => presHypCallees S fns' Γ e f' | _ => false
  | .un _ _ e, e' => match e' with | .un _ _ f' => presHypCallees S fns' Γ e f' | _ => false
  | .bin _ _ l r, e' =>
    match e' with | .bin _ _ l' r' => presHypCallees S fns' Γ l l' && presHypCallees S fns' Γ r r' | _ => false
  | .call _ f args, e' =>
    match e' with
    | .call _ f' args' => presHypCallees S fns' Γ f f' && presHypCalleesList S fns' Γ args args'
    | _ => false
  | .toDyn _ _ _ e, e' => match e' with | .toDyn _ _ _ f' => presHypCallees S fns' Γ e f' | _ => false
  | .dynCall _ _ _ recv args, e' =>
    match e' with
    | .dynCall _ _ _ recv' args' => presHypCallees S fns' Γ recv recv' && presHypCalleesList S fns' Γ args args'
    | _ => false
  | .traitCall _ _ _ recv args, e' =>
    -- `mono_expr` resolves a trait call to a direct call of `trait_impl#Tr#Ty#m`
    match e' with
    | .call _ (.var nm fty) (recv' :: args') =>
      presHypVarOk S fns' Γ nm fty && presHypCallees S fns' Γ recv recv' && presHypCalleesList S fns' Γ args args'
    | _ => false
  | .proj _ _ e, e' => match e' with | .proj _ _ f' => presHypCallees S fns' Γ e f' | _ => false
def presHypCalleesList (S : Sig) (fns' : List Fn) (Γ : TyEnv) : List Expr → List Expr → Bool
  | [], _ => true
  | e :: es, l' =>
    match l' with
    | e' :: es' => presHypCallees S fns' Γ e e' && presHypCalleesList S fns' Γ es es'
    | [] => false
/-- the heads of match arms are patterns: `Wt.errs` judges their annotation only, so no side condition -/
def presHypCalleesArms (S : Sig) (fns' : List Fn) (Γ : TyEnv) : List Arm → List Arm → Bool
  | [], _ => true
  | .mk _ b :: rest, l' =>
    match l' with
    | .mk _ b' :: rest' => presHypCallees S fns' Γ b b' && presHypCalleesArms S fns' Γ rest rest'
    | [] => false
end

/-- side condition for one emitted function `g` against the generic function `f` it was specialised
from at `σ`: `presHypCallees` for the bodies, under the parameters of `g` -/
def presHypFn (S : Sig) (fns' : List Fn) (σ : Subst) (f g : Fn) : Bool :=
  presHypCallees S fns' (bindAll g.params []) (substE σ f.body) g.body

/-- the work item `step` pops and the function it emits for it (nothing when the list is empty or the
name is unknown) -/
def presStepItem (F : List Fn) (c : Ctx) : List (Work × Fn) :=
  match c.work with
  | [] => []
  | w :: rest =>
    match findFn F w.name with
    | none => []
    | some f =>
      [(w, { name := w.spec, generics := [], params := substParams w.subst f.params, ret := substTy w.subst f.ret,
             body := (monoExpr F w.subst f.body { c with work := rest }).1 })]

/-- the trace of `Mono.loop`: every work item popped, with the function emitted for it, in order
(`loop_items`: the emitted functions are `Ctx.out`) -/
def presItems (F : List Fn) : Nat → Ctx → List (Work × Fn)
  | 0, _ => []
  | fuel + 1, c =>
    match step F c with
    | none => []
    | some c' => presStepItem F c ++ presItems F fuel c'

/-- side condition for a list of emitted functions, each paired with the work item (generic function
`Work.name`, substitution `Work.subst`) it was emitted for: `presHypFn` for each -/
def presHypOut (S : Sig) (F fns' : List Fn) (items : List (Work × Fn)) : Bool :=
  items.all fun p =>
    match findFn F p.1.name with
    | some f => presHypFn S fns' p.1.subst f p.2
    | none => false

/-- the whole-program side condition of `phase1_wtProg_partial`: every function phase 1 emits for `fns`
passes `presHypFn` against the emitted function table itself -/
def presHypProg (S : Sig) (fuel : Nat) (fns : List Fn) : Bool :=
  match phase1 fuel fns with
  | none => false
  | some c' => presHypOut S (origFns fns) c'.out (presItems (origFns fns) fuel (seed (origFns fns)))

mutual
/-- every constructor node already carries the type name `update_constructor_type` derives from the
node's (for a field access: the scrutinee's) type — what phase 2 (`rewrite_expr_types`) recomputes -/
def presHypCtors : Expr → Bool
  | .var _ _ => true
  | .prim _ => true
  | .tag _ _ => true
  | .constr k ty args => decide (updateCtor k ty = k) && presHypCtorsList args
  | .tuple _ items => presHypCtorsList items
  | .array _ items => presHypCtorsList items
  | .closure _ _ b => presHypCtors b
  | .letE _ v b => presHypCtors v && presHypCtors b
  | .matchE _ s arms none => presHypCtors s && presHypCtorsArms arms
  | .matchE _ s arms (some d) => presHypCtors s && presHypCtorsArms arms && presHypCtors d
  | .ite c t e => presHypCtors c && presHypCtors t && presHypCtors e
  | .while c b => presHypCtors c && presHypCtors b
  | .go e => presHypCtors e
  | .cget k _ _ e => decide (updateCtor k (getTy e) = k) && presHypCtors e
  | .un _ _ e => presHypCtors e
  | .bin _ _ l r => presHypCtors l && presHypCtors r
  | .call _ f args => presHypCtors f && presHypCtorsList args
  | .toDyn _ _ _ e => presHypCtors e
  | .dynCall _ _ _ r args => presHypCtors r && presHypCtorsList args
  | .traitCall _ _ _ r args => presHypCtors r && presHypCtorsList args
  | .proj _ _ e => presHypCtors e
def presHypCtorsList : List Expr → Bool
  | [] => true
  | e :: es => presHypCtors e && presHypCtorsList es
def presHypCtorsArms : List Arm → Bool
  | [] => true
  | .mk l b :: rest => presHypCtors l && presHypCtors b && presHypCtorsArms rest
end

end Goml.Mono
