import GomlVerif.Model.Wt
/-!
`SigClosed` (Lemmas/WtSubst.lean, hypothesis of `subst_preserves_wt` and of
`mono_preserves_wt_partial`) as an executable check, so that the driver evaluates it on the real
signature environment of every Core dump: field types mention only the parameters of their
definition, trait method signatures mention no type parameter.
-/
namespace Goml.Wt
open Goml Goml.Closed

mutual
/-- the type parameters occurring in a type -/
def tparamsOf : Ty → List String
  | .param n => [n]
  | .tuple ts => tparamsOfs ts
  | .app t args => tparamsOf t ++ tparamsOfs args
  | .array _ e => tparamsOf e
  | .vec e => tparamsOf e
  | .ref e => tparamsOf e
  | .func ps r => tparamsOfs ps ++ tparamsOf r
  | _ => []
def tparamsOfs : List Ty → List String
  | [] => []
  | t :: ts => tparamsOf t ++ tparamsOfs ts
end

def sigClosedB (S : Sig) : Bool :=
  S.enums.all (fun d => d.variants.all fun v => v.2.all fun t => (tparamsOf t).all fun x => d.generics.contains x) &&
  S.structs.all (fun d => d.fields.all fun f => (tparamsOf f.2).all fun x => d.generics.contains x) &&
  S.traits.all (fun d => d.methods.all fun mt => noParam mt.2)

end Goml.Wt
