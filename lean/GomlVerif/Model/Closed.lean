import GomlVerif.Model.Syntax
/-!
Closedness of stage outputs: after monomorphisation no type parameter, no generic type
application and no inference variable may remain in any annotation (C03, C07 `no_residue`).
`allTys p e` says that every type annotation occurring in `e` satisfies `p`.
-/
namespace Goml.Closed
open Goml

mutual
/-- no `TParam` -/
def noParam : Ty → Bool
  | .param _ => false
  | .tuple ts => noParams ts
  | .app t args => noParam t && noParams args
  | .array _ e => noParam e
  | .vec e => noParam e
  | .ref e => noParam e
  | .func ps r => noParams ps && noParam r
  | _ => true
def noParams : List Ty → Bool
  | [] => true
  | t :: ts => noParam t && noParams ts
end

mutual
/-- no `TApp` -/
def noApp : Ty → Bool
  | .app _ _ => false
  | .tuple ts => noApps ts
  | .array _ e => noApp e
  | .vec e => noApp e
  | .ref e => noApp e
  | .func ps r => noApps ps && noApp r
  | _ => true
def noApps : List Ty → Bool
  | [] => true
  | t :: ts => noApp t && noApps ts
end

mutual
/-- no `TVar` -/
def noTVar : Ty → Bool
  | .tvar _ => false
  | .tuple ts => noTVars ts
  | .app t args => noTVar t && noTVars args
  | .array _ e => noTVar e
  | .vec e => noTVar e
  | .ref e => noTVar e
  | .func ps r => noTVars ps && noTVar r
  | _ => true
def noTVars : List Ty → Bool
  | [] => true
  | t :: ts => noTVar t && noTVars ts
end

def closedTy (t : Ty) : Bool := noParam t && noApp t && noTVar t

def allParamTys (p : Ty → Bool) : List (String × Ty) → Bool
  | [] => true
  | (_, t) :: rest => p t && allParamTys p rest

mutual
/-- every type annotation in the expression satisfies `p` -/
def allTys (p : Ty → Bool) : Expr → Bool
  | .var _ t => p t
  | .prim _ => true
  | .tag _ t => p t
  | .constr _ t args => p t && allTysList p args
  | .tuple t items => p t && allTysList p items
  | .array t items => p t && allTysList p items
  | .closure t ps b => p t && allParamTys p ps && allTys p b
  | .letE _ v b => allTys p v && allTys p b
  | .matchE t s arms none => p t && allTys p s && allTysArms p arms
  | .matchE t s arms (some d) => p t && allTys p s && allTysArms p arms && allTys p d
  | .ite c t e => allTys p c && allTys p t && allTys p e
  | .while c b => allTys p c && allTys p b
  | .go e => allTys p e
  | .cget _ _ t e => p t && allTys p e
  | .un _ t e => p t && allTys p e
  | .bin _ t l r => p t && allTys p l && allTys p r
  | .call t f args => p t && allTys p f && allTysList p args
  | .toDyn _ ft t e => p ft && p t && allTys p e
  | .dynCall _ _ t r args => p t && allTys p r && allTysList p args
  | .traitCall _ _ t r args => p t && allTys p r && allTysList p args
  | .proj _ t e => p t && allTys p e
def allTysList (p : Ty → Bool) : List Expr → Bool
  | [] => true
  | e :: es => allTys p e && allTysList p es
def allTysArms (p : Ty → Bool) : List Arm → Bool
  | [] => true
  | .mk l b :: rest => allTys p l && allTys p b && allTysArms p rest
end

mutual
/-- no `ETraitCall` node (all resolved by mono) -/
def noTraitCall : Expr → Bool
  | .traitCall _ _ _ _ _ => false
  | .constr _ _ args => noTraitCallList args
  | .tuple _ items => noTraitCallList items
  | .array _ items => noTraitCallList items
  | .closure _ _ b => noTraitCall b
  | .letE _ v b => noTraitCall v && noTraitCall b
  | .matchE _ s arms none => noTraitCall s && noTraitCallArms arms
  | .matchE _ s arms (some d) => noTraitCall s && noTraitCallArms arms && noTraitCall d
  | .ite c t e => noTraitCall c && noTraitCall t && noTraitCall e
  | .while c b => noTraitCall c && noTraitCall b
  | .go e => noTraitCall e
  | .cget _ _ _ e => noTraitCall e
  | .un _ _ e => noTraitCall e
  | .bin _ _ l r => noTraitCall l && noTraitCall r
  | .call _ f args => noTraitCall f && noTraitCallList args
  | .toDyn _ _ _ e => noTraitCall e
  | .dynCall _ _ _ r args => noTraitCall r && noTraitCallList args
  | .proj _ _ e => noTraitCall e
  | _ => true
def noTraitCallList : List Expr → Bool
  | [] => true
  | e :: es => noTraitCall e && noTraitCallList es
def noTraitCallArms : List Arm → Bool
  | [] => true
  | .mk l b :: rest => noTraitCall l && noTraitCall b && noTraitCallArms rest
end

def fnAllTys (p : Ty → Bool) (f : Fn) : Bool := allParamTys p f.params && p f.ret && allTys p f.body

/-- a function of a monomorphised program is closed -/
def closedFn (f : Fn) : Bool := fnAllTys closedTy f && noTraitCall f.body

def closedFns (fs : List Fn) : Bool := fs.all closedFn

end Goml.Closed
