import GomlVerif.Model.Go
import GomlVerif.Model.GoEq
import GomlVerif.Gen.DceTables
/-
Model of `crates/compiler/src/go/dce.rs` over the Lean Go AST (`Model/Go.lean`):
`eliminate_dead_vars` = per-function backward liveness (`dce_block_with_live`, with its `live`
and `needs_decl` sets), then `prune_dead_functions`, then `prune_unused_imports`.

Transcription rules.  A Rust `HashSet<String>` is a `List String` used only through membership
(`uni` = extend, `ins` = insert, `rem` = remove); the emitted statements, their order and every
case distinction are the Rust's.  The Rust scans a block backwards pushing onto `out` and
reverses `out` at the end; here `dceStmts (s :: rest)` first processes `rest` (obtaining the
`live`/`needs` state the backward scan has when it reaches `s`) and prepends what `s` emits, so
the two statements the Rust pushes for one input statement appear here already in final
(reversed) order.

Import-free (linked into `gomlmodel`).
-/
namespace Goml.Dce
open Goml.Go

abbrev Names := List String

/-- `HashSet::extend` -/
def uni (a b : Names) : Names := a ++ b.filter (fun x => !(a.contains x))
/-- `HashSet::remove` -/
def rem (s : Names) (x : String) : Names := s.filter (fun y => y != x)
/-- `&a - &b` -/
def diff (a b : Names) : Names := a.filter (fun x => !(b.contains x))

/-- `declared` of `free_vars_in_block`: the `VarDecl` names at the top level of the block -/
def declTop : List GStmt → Names
  | [] => []
  | .varDecl x _ _ :: rest => x :: declTop rest
  | _ :: rest => declTop rest

/-! ### `vars_used_in_expr`, `free_vars_in_block` -/
mutual
def varsUsed : GExpr → Names
  | .var x _ => [x]
  | .field _ _ o => varsUsed o
  | .index _ a i => uni (varsUsed a) (varsUsed i)
  | .un _ _ e => varsUsed e
  | .bin _ _ l r => uni (varsUsed l) (varsUsed r)
  | .cast _ e => varsUsed e
  | .slit _ fs => varsUsedFields fs
  | .alit _ es => varsUsedList es
  | .call _ f args => uni (varsUsed f) (varsUsedList args)
  | .blocke _ ss e =>
    uni (diff (usedStmts ss) (declTop ss)) (match e with | some e => varsUsed e | none => [])
  | .nil _ | .voidv _ | .unitv _ | .bool _ | .int _ _ | .float _ _ | .str _ => []
def varsUsedList : List GExpr → Names
  | [] => []
  | e :: es => uni (varsUsed e) (varsUsedList es)
def varsUsedFields : List GField → Names
  | [] => []
  | .mk _ e :: fs => uni (varsUsed e) (varsUsedFields fs)
/-- the `used` accumulator of `free_vars_in_block` (before `declared` is subtracted) -/
def usedStmts : List GStmt → Names
  | [] => []
  | s :: rest => uni (usedStmt s) (usedStmts rest)
def usedStmt : GStmt → Names
  | .varDecl _ _ v => (match v with | some e => varsUsed e | none => [])
  | .assign _ v => varsUsed v
  | .indexAssign a i v => uni (varsUsed a) (uni (varsUsed i) (varsUsed v))
  | .ptrAssign p v => uni (varsUsed p) (varsUsed v)
  | .fieldAssign t v => uni (varsUsed t) (varsUsed v)
  | .ret e => (match e with | some e => varsUsed e | none => [])
  | .expr e => varsUsed e
  | .go c => varsUsed c
  | .ite c t e =>
    uni (varsUsed c) (uni (diff (usedStmts t) (declTop t))
      (match e with | some b => diff (usedStmts b) (declTop b) | none => []))
  | .switch e cs d =>
    uni (varsUsed e) (uni (usedCases cs)
      (match d with | some b => diff (usedStmts b) (declTop b) | none => []))
  | .tswitch _ e cs d =>
    uni (varsUsed e) (uni (usedTCases cs)
      (match d with | some b => diff (usedStmts b) (declTop b) | none => []))
  | .loop b => diff (usedStmts b) (declTop b)
  | .brk => []
def usedCases : List GCase → Names
  | [] => []
  | .mk v b :: rest => uni (varsUsed v) (uni (diff (usedStmts b) (declTop b)) (usedCases rest))
def usedTCases : List GTCase → Names
  | [] => []
  | .mk _ b :: rest => uni (diff (usedStmts b) (declTop b)) (usedTCases rest)
end

/-- `free_vars_in_block` -/
def freeVars (b : List GStmt) : Names := diff (usedStmts b) (declTop b)

/-! ### `expr_has_side_effects`, `stmt_has_side_effects`

Besides calls, the operations that can fail at run time count as effects: integer division,
indexing, pointer dereference and type assertion (`fix:` commit "DCE keeps dead operations that
can panic"). -/
mutual
def exprEffects : GExpr → Bool
  | .call _ _ _ => true
  | .blocke _ ss e => stmtsEffects ss || (match e with | some e => exprEffects e | none => false)
  | .field _ _ o => exprEffects o
  | .index _ _ _ => true
  | .un op _ e => (match op with | .deref => true | _ => exprEffects e)
  | .bin op _ l r => (match op with | .div => true | _ => exprEffects l || exprEffects r)
  | .cast _ _ => true
  | .slit _ fs => fieldsEffects fs
  | .alit _ es => listEffects es
  | .var _ _ | .nil _ | .voidv _ | .unitv _ | .bool _ | .int _ _ | .float _ _ | .str _ => false
def listEffects : List GExpr → Bool
  | [] => false
  | e :: es => exprEffects e || listEffects es
def fieldsEffects : List GField → Bool
  | [] => false
  | .mk _ e :: fs => exprEffects e || fieldsEffects fs
def stmtsEffects : List GStmt → Bool
  | [] => false
  | s :: rest => stmtEffects s || stmtsEffects rest
def stmtEffects : GStmt → Bool
  | .expr e => exprEffects e
  | .go _ => true
  | .varDecl _ _ v => (match v with | some e => exprEffects e | none => false)
  | .assign _ v => exprEffects v
  | .indexAssign _ _ _ => true
  | .ptrAssign _ _ => true
  | .fieldAssign _ _ => true
  | .ret e => (match e with | some e => exprEffects e | none => false)
  | .loop b => stmtsEffects b
  | .brk => false
  | .ite c t e =>
    exprEffects c || stmtsEffects t || (match e with | some b => stmtsEffects b | none => false)
  | .switch e cs d =>
    exprEffects e || casesEffects cs || (match d with | some b => stmtsEffects b | none => false)
  | .tswitch _ e cs d =>
    exprEffects e || tcasesEffects cs || (match d with | some b => stmtsEffects b | none => false)
def casesEffects : List GCase → Bool
  | [] => false
  | .mk v b :: rest => (exprEffects v || stmtsEffects b) || casesEffects rest
def tcasesEffects : List GTCase → Bool
  | [] => false
  | .mk _ b :: rest => stmtsEffects b || tcasesEffects rest
end

/-! ### `assigned_vars_in_block` -/
mutual
def assignedStmts : List GStmt → Names
  | [] => []
  | s :: rest => uni (assignedStmt s) (assignedStmts rest)
def assignedStmt : GStmt → Names
  | .assign x _ => [x]
  | .ite _ t e => uni (assignedStmts t) (match e with | some b => assignedStmts b | none => [])
  | .switch _ cs d =>
    uni (assignedCases cs) (match d with | some b => assignedStmts b | none => [])
  | .tswitch _ _ cs d =>
    uni (assignedTCases cs) (match d with | some b => assignedStmts b | none => [])
  | .loop b => assignedStmts b
  | _ => []
def assignedCases : List GCase → Names
  | [] => []
  | .mk _ b :: rest => uni (assignedStmts b) (assignedCases rest)
def assignedTCases : List GTCase → Names
  | [] => []
  | .mk _ b :: rest => uni (assignedStmts b) (assignedTCases rest)
end

/-- `VALUE_ONLY_CALLEES` (regenerated from the Rust source): builtins and conversions whose call
    Go does not allow as an expression statement -/
def valueOnlyCallees : List String := Goml.Gen.dceValueOnlyCallees

/-- `keep_effect`: how a dead initialiser / dead store with effects stays in the program:
    a call Go accepts in statement context as `f(..)`, anything else as `_ = e` -/
def keepEffect (e : GExpr) : GStmt :=
  match e with
  | .call _ (.var f _) _ => if valueOnlyCallees.contains f then .assign "_" e else .expr e
  | .call _ _ _ => .expr e
  | _ => .assign "_" e

/-- result of processing a block suffix: emitted statements, `live`, `needs_decl` -/
structure R where
  out : List GStmt
  live : Names
  needs : Names
  deriving Inhabited

/-- result of the `for (val, blk) in cases` loop of `SwitchExpr` -/
structure RC where
  cases : List GCase
  live : Names          -- `live` after the loop (case values added)
  liveIn : Names        -- `cases_live_in`
  needs : Names         -- what the loop adds to `needs_decl`
  deriving Inhabited

structure RT where
  cases : List GTCase
  liveIn : Names
  needs : Names
  free : Names          -- free variables of the new clause bodies (decides the binding)
  deriving Inhabited

/-- the type-switch binding stays only when a clause of the new switch uses it -/
def keepBind (bind : Option String) (free : Names) : Option String :=
  match bind with
  | some x => if free.contains x then some x else none
  | none => none

/-! ### `dce_block_with_live`, `dce_expr` -/
mutual
def dceExpr : GExpr → GExpr
  | .field f t o => .field f t (dceExpr o)
  | .index t a i => .index t (dceExpr a) (dceExpr i)
  | .cast t e => .cast t (dceExpr e)
  | .slit t fs => .slit t (dceFields fs)
  | .alit t es => .alit t (dceExprs es)
  | .un op t e => .un op t (dceExpr e)
  | .bin op t l r => .bin op t (dceExpr l) (dceExpr r)
  | .blocke t ss (some e) => .blocke t (dceStmts ss []).out (some (dceExpr e))
  | .blocke t ss none => .blocke t (dceStmts ss []).out none
  | .call t f args => .call t (dceExpr f) (dceExprs args)
  | .nil t => .nil t
  | .voidv t => .voidv t
  | .unitv t => .unitv t
  | .var x t => .var x t
  | .bool b => .bool b
  | .int v t => .int v t
  | .float v t => .float v t
  | .str s => .str s
def dceExprs : List GExpr → List GExpr
  | [] => []
  | e :: es => dceExpr e :: dceExprs es
def dceFields : List GField → List GField
  | [] => []
  | .mk n e :: fs => .mk n (dceExpr e) :: dceFields fs

/-- `dce_block_with_live(block, live_out)`: `.out` is the new block, `.live` its live-in set;
    `.needs` is the final `needs_decl` (not returned by the Rust, used by the proofs) -/
def dceStmts : List GStmt → Names → R
  | [], liveOut => ⟨[], liveOut, []⟩
  | s :: rest, liveOut =>
    ⟨(dceStmt s (dceStmts rest liveOut).live (dceStmts rest liveOut).needs).out ++ (dceStmts rest liveOut).out,
      (dceStmt s (dceStmts rest liveOut).live (dceStmts rest liveOut).needs).live,
      (dceStmt s (dceStmts rest liveOut).live (dceStmts rest liveOut).needs).needs⟩

/-- one iteration of the backward scan: `live`/`needs` are the sets after the statement -/
def dceStmt : GStmt → Names → Names → R
  | .expr e, live, needs =>
    ⟨[.expr (dceExpr e)], uni live (varsUsed (dceExpr e)), needs⟩
  | .go c, live, needs =>
    ⟨[.go (dceExpr c)], uni live (varsUsed (dceExpr c)), needs⟩
  | .varDecl x ty (some e), live, needs =>
    if live.contains x then
      ⟨[.varDecl x ty (some (dceExpr e))], rem (uni live (varsUsed (dceExpr e))) x, needs⟩
    else if needs.contains x then
      if exprEffects (dceExpr e) then
        ⟨[.varDecl x ty none, keepEffect (dceExpr e)], uni live (varsUsed (dceExpr e)), rem needs x⟩
      else ⟨[.varDecl x ty none], live, rem needs x⟩
    else
      if exprEffects (dceExpr e) then ⟨[keepEffect (dceExpr e)], uni live (varsUsed (dceExpr e)), needs⟩
      else ⟨[], live, needs⟩
  | .varDecl x ty none, live, needs =>
    if live.contains x then ⟨[.varDecl x ty none], rem live x, needs⟩
    else if needs.contains x then ⟨[.varDecl x ty none], live, rem needs x⟩
    else ⟨[], live, needs⟩
  | .assign x v, live, needs =>
    if live.contains x then
      ⟨[.assign x (dceExpr v)], rem (uni live (varsUsed (dceExpr v))) x, uni needs [x]⟩
    else if exprEffects (dceExpr v) then
      ⟨[keepEffect (dceExpr v)], uni live (varsUsed (dceExpr v)), needs⟩
    else ⟨[], live, needs⟩
  | .indexAssign a i v, live, needs =>
    ⟨[.indexAssign (dceExpr a) (dceExpr i) (dceExpr v)],
      uni (uni (uni live (varsUsed (dceExpr a))) (varsUsed (dceExpr i))) (varsUsed (dceExpr v)), needs⟩
  | .ptrAssign p v, live, needs =>
    ⟨[.ptrAssign (dceExpr p) (dceExpr v)],
      uni (uni live (varsUsed (dceExpr p))) (varsUsed (dceExpr v)), needs⟩
  | .fieldAssign t v, live, needs =>
    ⟨[.fieldAssign (dceExpr t) (dceExpr v)],
      uni (uni live (varsUsed (dceExpr t))) (varsUsed (dceExpr v)), needs⟩
  | .ret (some e), live, needs =>
    ⟨[.ret (some (dceExpr e))], uni live (varsUsed (dceExpr e)), needs⟩
  | .ret none, live, needs => ⟨[.ret none], live, needs⟩
  | .loop body, live, needs =>
    ⟨[.loop (dceStmts body live).out], uni live (dceStmts body live).live,
      uni needs (assignedStmts (dceStmts body live).out)⟩
  | .brk, live, needs => ⟨[.brk], live, needs⟩
  | .ite c t (some b), live, needs =>
    ⟨[.ite (dceExpr c) (dceStmts t live).out (some (dceStmts b live).out)],
      uni (uni (uni live (varsUsed (dceExpr c))) (dceStmts t live).live) (dceStmts b live).live,
      uni (uni needs (assignedStmts (dceStmts t live).out)) (assignedStmts (dceStmts b live).out)⟩
  | .ite c t none, live, needs =>
    ⟨[.ite (dceExpr c) (dceStmts t live).out none],
      uni (uni live (varsUsed (dceExpr c))) (dceStmts t live).live,
      uni needs (assignedStmts (dceStmts t live).out)⟩
  | .switch e cs (some b), live, needs =>
    ⟨[.switch (dceExpr e) (dceCases cs live).cases (some (dceStmts b (dceCases cs live).live).out)],
      uni (uni (uni (dceCases cs live).live (varsUsed (dceExpr e))) (dceCases cs live).liveIn)
        (dceStmts b (dceCases cs live).live).live,
      uni (uni needs (dceCases cs live).needs)
        (assignedStmts (dceStmts b (dceCases cs live).live).out)⟩
  | .switch e cs none, live, needs =>
    ⟨[.switch (dceExpr e) (dceCases cs live).cases none],
      uni (uni (dceCases cs live).live (varsUsed (dceExpr e))) (dceCases cs live).liveIn,
      uni needs (dceCases cs live).needs⟩
  | .tswitch bind e cs (some b), live, needs =>
    ⟨[.tswitch (keepBind bind (uni (dceTCases cs live).free (freeVars (dceStmts b live).out)))
        (dceExpr e) (dceTCases cs live).cases (some (dceStmts b live).out)],
      uni (uni (uni live (varsUsed (dceExpr e))) (dceTCases cs live).liveIn) (dceStmts b live).live,
      uni (uni needs (dceTCases cs live).needs) (assignedStmts (dceStmts b live).out)⟩
  | .tswitch bind e cs none, live, needs =>
    ⟨[.tswitch (keepBind bind (dceTCases cs live).free) (dceExpr e) (dceTCases cs live).cases none],
      uni (uni live (varsUsed (dceExpr e))) (dceTCases cs live).liveIn,
      uni needs (dceTCases cs live).needs⟩

def dceCases : List GCase → Names → RC
  | [], live => ⟨[], live, [], []⟩
  | .mk v b :: rest, live =>
    ⟨.mk (dceExpr v) (dceStmts b live).out :: (dceCases rest (uni live (varsUsed (dceExpr v)))).cases,
      (dceCases rest (uni live (varsUsed (dceExpr v)))).live,
      uni (dceStmts b live).live (dceCases rest (uni live (varsUsed (dceExpr v)))).liveIn,
      uni (assignedStmts (dceStmts b live).out) (dceCases rest (uni live (varsUsed (dceExpr v)))).needs⟩

def dceTCases : List GTCase → Names → RT
  | [], _ => ⟨[], [], [], []⟩
  | .mk t b :: rest, live =>
    ⟨.mk t (dceStmts b live).out :: (dceTCases rest live).cases,
      uni (dceStmts b live).live (dceTCases rest live).liveIn,
      uni (assignedStmts (dceStmts b live).out) (dceTCases rest live).needs,
      uni (freeVars (dceStmts b live).out) (dceTCases rest live).free⟩
end

/-- `dce_block_with_live(body, ∅).0` -/
def dceBody (b : List GStmt) : List GStmt := (dceStmts b []).out

/-- `dce_item` -/
def dceItem : GItem → GItem
  | .func f => .func { f with body := dceBody f.body }
  | it => it

/-! ### `prune_dead_functions` (`collect_called_*`) -/
mutual
def calledExpr (fns : Names) : GExpr → Names
  | .call _ f args => uni (calledExpr fns f) (calledList fns args)
  | .field _ _ o => calledExpr fns o
  | .index _ a i => uni (calledExpr fns a) (calledExpr fns i)
  | .cast _ e => calledExpr fns e
  | .slit _ fs => calledFields fns fs
  | .alit _ es => calledList fns es
  | .blocke _ ss e =>
    uni (calledStmts fns ss) (match e with | some e => calledExpr fns e | none => [])
  | .un _ _ e => calledExpr fns e
  | .bin _ _ l r => uni (calledExpr fns l) (calledExpr fns r)
  | .var x _ => if fns.contains x then [x] else []
  | .nil _ | .voidv _ | .unitv _ | .bool _ | .int _ _ | .float _ _ | .str _ => []
def calledList (fns : Names) : List GExpr → Names
  | [] => []
  | e :: es => uni (calledExpr fns e) (calledList fns es)
def calledFields (fns : Names) : List GField → Names
  | [] => []
  | .mk _ e :: fs => uni (calledExpr fns e) (calledFields fns fs)
def calledStmts (fns : Names) : List GStmt → Names
  | [] => []
  | s :: rest => uni (calledStmt fns s) (calledStmts fns rest)
def calledStmt (fns : Names) : GStmt → Names
  | .expr e => calledExpr fns e
  | .go c => calledExpr fns c
  | .varDecl _ _ v => (match v with | some e => calledExpr fns e | none => [])
  | .assign _ v => calledExpr fns v
  | .indexAssign a i v => uni (calledExpr fns a) (uni (calledExpr fns i) (calledExpr fns v))
  | .ptrAssign p v => uni (calledExpr fns p) (calledExpr fns v)
  | .fieldAssign t v => uni (calledExpr fns t) (calledExpr fns v)
  | .ret e => (match e with | some e => calledExpr fns e | none => [])
  | .ite c t e =>
    uni (calledExpr fns c) (uni (calledStmts fns t)
      (match e with | some b => calledStmts fns b | none => []))
  | .switch e cs d =>
    uni (calledExpr fns e) (uni (calledCases fns cs)
      (match d with | some b => calledStmts fns b | none => []))
  | .tswitch _ e cs d =>
    uni (calledExpr fns e) (uni (calledTCases fns cs)
      (match d with | some b => calledStmts fns b | none => []))
  | .loop b => calledStmts fns b
  | .brk => []
def calledCases (fns : Names) : List GCase → Names
  | [] => []
  | .mk v b :: rest => uni (calledExpr fns v) (uni (calledStmts fns b) (calledCases fns rest))
def calledTCases (fns : Names) : List GTCase → Names
  | [] => []
  | .mk _ b :: rest => uni (calledStmts fns b) (calledTCases fns rest)
end

/-- `fn_map.get(name)`: inserting into a `HashMap` overwrites, so the last function of a name -/
def lastFunc (fs : List GFunc) (n : String) : Option GFunc :=
  (fs.reverse).find? (·.name == n)

/-- callees (that are functions of the file) of the functions named in `rs` -/
def calleesOf (fs : List GFunc) (fns : Names) : Names → Names
  | [] => []
  | n :: rs =>
    uni (match lastFunc fs n with | some f => calledStmts fns f.body | none => []) (calleesOf fs fns rs)

/-- number of function names not yet reached: the measure of the closure computation -/
def unreached (fns reach : Names) : Nat := (fns.filter (fun x => !(reach.contains x))).length

theorem filter_app_le (reach new : Names) : ∀ fns : Names,
    (fns.filter (fun x => !((reach ++ new).contains x))).length ≤
      (fns.filter (fun x => !(reach.contains x))).length
  | [] => by simp
  | b :: t => by
    have ih := filter_app_le reach new t
    rw [List.filter_cons, List.filter_cons]
    by_cases hb : b ∈ reach
    · simp [hb]; simpa using ih
    · by_cases hb2 : b ∈ new
      · simp [hb, hb2]; have := ih; simp at this; omega
      · simp [hb, hb2]; simpa using ih

theorem unreached_lt (reach new : Names) (x : String) (hx : x ∈ new) (hxr : ¬ x ∈ reach) :
    ∀ fns : Names, x ∈ fns → unreached fns (reach ++ new) < unreached fns reach
  | [], h => by cases h
  | a :: t, h => by
    unfold unreached
    rw [List.filter_cons, List.filter_cons]
    by_cases hax : a = x
    · subst hax
      have := filter_app_le reach new t
      simp [hx, hxr]; simp at this; omega
    · have hxt : x ∈ t := by
        cases h with
        | head => exact absurd rfl hax
        | tail _ h => exact h
      have ih := unreached_lt reach new x hx hxr t hxt
      unfold unreached at ih
      by_cases ha : a ∈ reach
      · simp [ha]; simpa using ih
      · by_cases ha2 : a ∈ new
        · simp [ha, ha2]; simp at ih; omega
        · simp [ha, ha2]; simpa using ih

/-- functions of the file called from `reach` and not yet in it -/
def newOf (fs : List GFunc) (fns reach : Names) : Names :=
  (calleesOf fs fns reach).filter (fun x => fns.contains x && !(reach.contains x))

/-- the set the worklist of `prune_dead_functions` computes: least set containing `reach` and
    closed under "callee that is a function of the file".  (The Rust pops a stack; the result is
    a set used only through `contains`, so the visiting order does not show.) -/
def closure (fs : List GFunc) (fns : Names) (reach : Names) : Names :=
  if newOf fs fns reach = [] then reach else closure fs fns (reach ++ newOf fs fns reach)
termination_by unreached fns reach
decreasing_by
  rename_i h
  cases hn : newOf fs fns reach with
  | nil => exact absurd hn h
  | cons x t =>
    have hx : x ∈ newOf fs fns reach := by rw [hn]; exact List.mem_cons_self ..
    have hx' := hx
    simp only [newOf, List.mem_filter, Bool.and_eq_true, Bool.not_eq_true', List.contains_iff_mem] at hx'
    have hnr : ¬ x ∈ reach := by
      intro hm
      have := hx'.2.2
      simp [hm] at this
    rw [← hn]
    exact unreached_lt reach _ x hx hnr fns (by simpa using hx'.2.1)

/-- the `filter` of `prune_dead_functions`: functions stay when reachable, other items always -/
def keepItem (reach : Names) : GItem → Bool
  | .func g => reach.contains g.name
  | _ => true

/-- the names `prune_dead_functions` finds reachable from the roots -/
def reachable (f : GFile) : Names :=
  let fns := f.funcs.map (·.name)
  closure f.funcs fns (Goml.Gen.dceRoots.filter (fun r => fns.contains r))

/-- `prune_dead_functions` -/
def pruneDeadFunctions (f : GFile) : GFile :=
  if f.funcs.isEmpty then f else { items := f.items.filter (keepItem (reachable f)) }

/-! ### `prune_unused_imports` (`collect_packages_*`) -/

/-- `name.split_once('.')`: the text before the first dot, when there is a dot -/
def pkgPrefix (name : String) : Option String :=
  match name.splitOn "." with
  | p :: _ :: _ => some p
  | _ => none

mutual
def pkgsExpr (imps : Names) : GExpr → Names
  | .call _ f args =>
    uni (match f with
         | .var name _ =>
           (match pkgPrefix name with
            | some p => if imps.contains p then [p] else []
            | none => [])
         | _ => [])
      (uni (pkgsExpr imps f) (pkgsList imps args))
  | .field _ _ o => pkgsExpr imps o
  | .index _ a i => uni (pkgsExpr imps a) (pkgsExpr imps i)
  | .cast _ e => pkgsExpr imps e
  | .slit _ fs => pkgsFields imps fs
  | .alit _ es => pkgsList imps es
  | .blocke _ ss e =>
    uni (pkgsStmts imps ss) (match e with | some e => pkgsExpr imps e | none => [])
  | .un _ _ e => pkgsExpr imps e
  | .bin _ _ l r => uni (pkgsExpr imps l) (pkgsExpr imps r)
  | .var _ _ | .nil _ | .voidv _ | .unitv _ | .bool _ | .int _ _ | .float _ _ | .str _ => []
def pkgsList (imps : Names) : List GExpr → Names
  | [] => []
  | e :: es => uni (pkgsExpr imps e) (pkgsList imps es)
def pkgsFields (imps : Names) : List GField → Names
  | [] => []
  | .mk _ e :: fs => uni (pkgsExpr imps e) (pkgsFields imps fs)
def pkgsStmts (imps : Names) : List GStmt → Names
  | [] => []
  | s :: rest => uni (pkgsStmt imps s) (pkgsStmts imps rest)
def pkgsStmt (imps : Names) : GStmt → Names
  | .expr e => pkgsExpr imps e
  | .go c => pkgsExpr imps c
  | .varDecl _ _ v => (match v with | some e => pkgsExpr imps e | none => [])
  | .assign _ v => pkgsExpr imps v
  | .indexAssign a i v => uni (pkgsExpr imps a) (uni (pkgsExpr imps i) (pkgsExpr imps v))
  | .ptrAssign p v => uni (pkgsExpr imps p) (pkgsExpr imps v)
  | .fieldAssign t v => uni (pkgsExpr imps t) (pkgsExpr imps v)
  | .ret e => (match e with | some e => pkgsExpr imps e | none => [])
  | .ite c t e =>
    uni (pkgsExpr imps c) (uni (pkgsStmts imps t)
      (match e with | some b => pkgsStmts imps b | none => []))
  | .switch e cs d =>
    uni (pkgsExpr imps e) (uni (pkgsCases imps cs)
      (match d with | some b => pkgsStmts imps b | none => []))
  | .tswitch _ e cs d =>
    uni (pkgsExpr imps e) (uni (pkgsTCases imps cs)
      (match d with | some b => pkgsStmts imps b | none => []))
  | .loop b => pkgsStmts imps b
  | .brk => []
def pkgsCases (imps : Names) : List GCase → Names
  | [] => []
  | .mk v b :: rest => uni (pkgsExpr imps v) (uni (pkgsStmts imps b) (pkgsCases imps rest))
def pkgsTCases (imps : Names) : List GTCase → Names
  | [] => []
  | .mk _ b :: rest => uni (pkgsStmts imps b) (pkgsTCases imps rest)
end

/-- `import_spec_binding`; a spec is `(alias or "-", path)` as dumped by `godump.rs` -/
def specBinding (spec : String × String) : String :=
  if spec.1 != "-" then spec.1 else (spec.2.splitOn "/").getLast!

def importNames (f : GFile) : Names :=
  f.items.flatMap fun
    | .imports specs => specs.map specBinding
    | _ => []

def pkgsMethods (imps : Names) : List GMethod → Names
  | [] => []
  | m :: ms => uni (pkgsStmts imps m.body) (pkgsMethods imps ms)

/-- `collect_packages_in_item` -/
def pkgsItem (imps : Names) : GItem → Names
  | .func g => pkgsStmts imps g.body
  | .structDef _ _ ms => pkgsMethods imps ms
  | _ => []

def usedPackages (imps : Names) : List GItem → Names
  | [] => []
  | it :: rest => uni (pkgsItem imps it) (usedPackages imps rest)

/-- the loop of `prune_unused_imports` over the toplevels -/
def pruneImportItems (used : Names) : List GItem → List GItem
  | [] => []
  | .imports specs :: rest =>
    let kept := specs.filter (fun s => used.contains (specBinding s))
    if kept.isEmpty then pruneImportItems used rest else .imports kept :: pruneImportItems used rest
  | it :: rest => it :: pruneImportItems used rest

/-- `prune_unused_imports` -/
def pruneUnusedImports (f : GFile) : GFile :=
  let imps := importNames f
  if imps.isEmpty then f else
  { items := pruneImportItems (usedPackages imps f.items) f.items }

/-- `eliminate_dead_vars` -/
def eliminateDeadVars (f : GFile) : GFile :=
  pruneUnusedImports (pruneDeadFunctions { items := f.items.map dceItem })

/-- first step of `eliminate_dead_vars`: `dce_item` on every toplevel -/
def mapDce (f : GFile) : GFile := { items := f.items.map dceItem }

/-! ## Specification side: Go's scope rules for locals, and the contract of the pass

These definitions do not mirror Rust code.  They state what DCE is for (`unusedStmts`,
`scopeErrs`: the two Go rules about local variables) and the shape of the blocks `go/compile.rs`
produces (`wf…`), under which the preservation theorem of `Props/Dce.lean` holds.  They are
executable so that the driver evaluates them on every real input and output. -/

mutual
/-- every variable read in the statements, nested blocks included (by name) -/
def readsStmts : List GStmt → Names
  | [] => []
  | s :: rest => uni (readsStmt s) (readsStmts rest)
def readsStmt : GStmt → Names
  | .expr e => varsUsed e
  | .go c => varsUsed c
  | .varDecl _ _ v => (match v with | some e => varsUsed e | none => [])
  | .assign _ v => varsUsed v
  | .indexAssign a i v => uni (varsUsed a) (uni (varsUsed i) (varsUsed v))
  | .ptrAssign p v => uni (varsUsed p) (varsUsed v)
  | .fieldAssign t v => uni (varsUsed t) (varsUsed v)
  | .ret e => (match e with | some e => varsUsed e | none => [])
  | .ite c t e =>
    uni (varsUsed c) (uni (readsStmts t) (match e with | some b => readsStmts b | none => []))
  | .switch e cs d =>
    uni (varsUsed e) (uni (readsCases cs) (match d with | some b => readsStmts b | none => []))
  | .tswitch _ e cs d =>
    uni (varsUsed e) (uni (readsTCases cs) (match d with | some b => readsStmts b | none => []))
  | .loop b => readsStmts b
  | .brk => []
def readsCases : List GCase → Names
  | [] => []
  | .mk v b :: rest => uni (varsUsed v) (uni (readsStmts b) (readsCases rest))
def readsTCases : List GTCase → Names
  | [] => []
  | .mk _ b :: rest => uni (readsStmts b) (readsTCases rest)
end

mutual
/-- Go's "declared and not used": a local declaration (or a type-switch binding) whose name is
    read nowhere in the rest of its scope -/
def unusedStmts : List GStmt → Names
  | [] => []
  | s :: rest =>
    (match s with
     | .varDecl x _ _ => if x == "_" || (readsStmts rest).contains x then [] else [x]
     | _ => []) ++ unusedNested s ++ unusedStmts rest
def unusedNested : GStmt → Names
  | .ite _ t e => unusedStmts t ++ (match e with | some b => unusedStmts b | none => [])
  | .loop b => unusedStmts b
  | .switch _ cs d => unusedCases cs ++ (match d with | some b => unusedStmts b | none => [])
  | .tswitch bind _ cs d =>
    (match bind with
     | some b =>
       if b == "_" || (readsTCases cs).contains b
          || (match d with | some db => (readsStmts db).contains b | none => false) then [] else [b]
     | none => []) ++ unusedTCases cs ++ (match d with | some b => unusedStmts b | none => [])
  | _ => []
def unusedCases : List GCase → Names
  | [] => []
  | .mk _ b :: rest => unusedStmts b ++ unusedCases rest
def unusedTCases : List GTCase → Names
  | [] => []
  | .mk _ b :: rest => unusedStmts b ++ unusedTCases rest
end

mutual
/-- every name declared in the statements (declarations and type-switch bindings), nested included -/
def allDecls : List GStmt → Names
  | [] => []
  | s :: rest => declsOf s ++ allDecls rest
def declsOf : GStmt → Names
  | .varDecl x _ _ => [x]
  | .ite _ t e => allDecls t ++ (match e with | some b => allDecls b | none => [])
  | .loop b => allDecls b
  | .switch _ cs d => declsCases cs ++ (match d with | some b => allDecls b | none => [])
  | .tswitch bind _ cs d =>
    (match bind with | some b => [b] | none => []) ++ declsTCases cs
      ++ (match d with | some b => allDecls b | none => [])
  | _ => []
def declsCases : List GCase → Names
  | [] => []
  | .mk _ b :: rest => allDecls b ++ declsCases rest
def declsTCases : List GTCase → Names
  | [] => []
  | .mk _ b :: rest => allDecls b ++ declsTCases rest
end

/-- the scope after a statement: a declaration adds its name -/
def declScope : GStmt → Names → Names
  | .varDecl x _ _, scope => x :: scope
  | _, scope => scope

/-- the names of `us` that are locals of the function (`D`) but not in scope -/
def undecl (D scope : Names) (us : Names) : Names :=
  us.filter (fun x => D.contains x && !(scope.contains x))

mutual
/-- scope errors of a block whose enclosing scope is `scope`; `D` = every local name of the
    function (names outside `D` are package-level: functions, builtins, `pkg.f`).  Reported: a
    read of or an assignment to a local that is not in scope ("undeclared"), and a declaration of
    a name that is already in scope ("redeclared" / shadowing — the backend never shadows, and the
    liveness analysis of `dce.rs` is by name).  A type-switch binding is allowed to re-bind its own
    scrutinee variable (`switch x := x.(type)`, the only form the backend emits). -/
def scopeErrs (D : Names) : Names → List GStmt → Names
  | _, [] => []
  | scope, s :: rest =>
    scopeErrsStmt D scope s ++ scopeErrs D (declScope s scope) rest
def scopeErrsStmt (D : Names) : Names → GStmt → Names
  | scope, .expr e => undecl D scope (varsUsed e)
  | scope, .go c => undecl D scope (varsUsed c)
  | scope, .varDecl x _ v =>
    undecl D scope (match v with | some e => varsUsed e | none => [])
      ++ (if scope.contains x || !(D.contains x) then [x] else [])
  | scope, .assign x v =>
    undecl D scope (varsUsed v) ++ (if x != "_" && !(scope.contains x) then [x] else [])
  | scope, .indexAssign a i v =>
    undecl D scope (uni (varsUsed a) (uni (varsUsed i) (varsUsed v)))
  | scope, .ptrAssign p v => undecl D scope (uni (varsUsed p) (varsUsed v))
  | scope, .fieldAssign t v => undecl D scope (uni (varsUsed t) (varsUsed v))
  | scope, .ret e => undecl D scope (match e with | some e => varsUsed e | none => [])
  | scope, .ite c t e =>
    undecl D scope (varsUsed c) ++ scopeErrs D scope t
      ++ (match e with | some b => scopeErrs D scope b | none => [])
  | scope, .loop b => scopeErrs D scope b
  | _, .brk => []
  | scope, .switch e cs d =>
    undecl D scope (varsUsed e) ++ scopeErrsCases D scope cs
      ++ (match d with | some b => scopeErrs D scope b | none => [])
  | scope, .tswitch bind e cs d =>
    undecl D scope (varsUsed e)
      ++ (match bind with
          | some b =>
            (match e with
             | .var y _ => if y == b && scope.contains b then [] else [b]
             | _ => [b])
          | none => [])
      ++ scopeErrsTCases D scope cs
      ++ (match d with | some b => scopeErrs D scope b | none => [])
def scopeErrsCases (D : Names) : Names → List GCase → Names
  | _, [] => []
  | scope, .mk v b :: rest =>
    undecl D scope (varsUsed v) ++ scopeErrs D scope b ++ scopeErrsCases D scope rest
def scopeErrsTCases (D : Names) : Names → List GTCase → Names
  | _, [] => []
  | scope, .mk _ b :: rest => scopeErrs D scope b ++ scopeErrsTCases D scope rest
end

/-! ### shape predicates on the input (all hold of what `go/compile.rs` builds) -/
mutual
def noBlockExpr : GExpr → Bool
  | .blocke _ _ _ => false
  | .field _ _ o => noBlockExpr o
  | .index _ a i => noBlockExpr a && noBlockExpr i
  | .un _ _ e => noBlockExpr e
  | .bin _ _ l r => noBlockExpr l && noBlockExpr r
  | .cast _ e => noBlockExpr e
  | .slit _ fs => noBlockFields fs
  | .alit _ es => noBlockList es
  | .call _ f args => noBlockExpr f && noBlockList args
  | .var _ _ | .nil _ | .voidv _ | .unitv _ | .bool _ | .int _ _ | .float _ _ | .str _ => true
def noBlockList : List GExpr → Bool
  | [] => true
  | e :: es => noBlockExpr e && noBlockList es
def noBlockFields : List GField → Bool
  | [] => true
  | .mk _ e :: fs => noBlockExpr e && noBlockFields fs
end

def noBlockOpt : Option GExpr → Bool
  | some e => noBlockExpr e
  | none => true

mutual
/-- names a statement list can assign (`x = …`, `x[i] = …`, `x.f = …`), nested blocks included -/
def writesStmts : List GStmt → Names
  | [] => []
  | s :: rest => uni (writesStmt s) (writesStmts rest)
def writesStmt : GStmt → Names
  | .assign x _ => [x]
  | .indexAssign a _ _ => varsUsed a
  | .fieldAssign t _ => varsUsed t
  | .ite _ t e => uni (writesStmts t) (match e with | some b => writesStmts b | none => [])
  | .loop b => writesStmts b
  | .switch _ cs d => uni (writesCases cs) (match d with | some b => writesStmts b | none => [])
  | .tswitch _ _ cs d => uni (writesTCases cs) (match d with | some b => writesStmts b | none => [])
  | _ => []
def writesCases : List GCase → Names
  | [] => []
  | .mk _ b :: rest => uni (writesStmts b) (writesCases rest)
def writesTCases : List GTCase → Names
  | [] => []
  | .mk _ b :: rest => uni (writesStmts b) (writesTCases rest)
end

mutual
/-- expression-level shape: no block expression (`Expr::Block` is never built by the backend),
    the blank identifier is never read, no assignment reads its own target, and a type-switch
    binding is not assigned inside the switch -/
def shapeOK : List GStmt → Bool
  | [] => true
  | s :: rest => shapeOKStmt s && shapeOK rest
def shapeOKStmt : GStmt → Bool
  | .expr e => noBlockExpr e && !(varsUsed e).contains "_"
  | .go c => noBlockExpr c && !(varsUsed c).contains "_"
  | .varDecl x _ v =>
    noBlockOpt v && x != "_"
      && !(match v with | some e => varsUsed e | none => []).contains "_"
  | .assign x v => noBlockExpr v && !(varsUsed v).contains "_" && !(varsUsed v).contains x
  | .indexAssign a i v =>
    noBlockExpr a && noBlockExpr i && noBlockExpr v
      && !(uni (varsUsed a) (uni (varsUsed i) (varsUsed v))).contains "_"
  | .ptrAssign p v => noBlockExpr p && noBlockExpr v && !(uni (varsUsed p) (varsUsed v)).contains "_"
  | .fieldAssign t v => noBlockExpr t && noBlockExpr v && !(uni (varsUsed t) (varsUsed v)).contains "_"
  | .ret e => noBlockOpt e && !(match e with | some e => varsUsed e | none => []).contains "_"
  | .ite c t e =>
    noBlockExpr c && !(varsUsed c).contains "_" && shapeOK t
      && (match e with | some b => shapeOK b | none => true)
  | .loop b => shapeOK b
  | .brk => true
  | .switch e cs d =>
    noBlockExpr e && !(varsUsed e).contains "_" && shapeOKCases cs
      && (match d with | some b => shapeOK b | none => true)
  | .tswitch bind e cs d =>
    noBlockExpr e && !(varsUsed e).contains "_" && shapeOKTCases cs
      && (match d with | some b => shapeOK b | none => true)
      && (match bind with
          | some b =>
            b != "_" && !(writesTCases cs).contains b
              && !(match d with | some db => writesStmts db | none => []).contains b
          | none => true)
def shapeOKCases : List GCase → Bool
  | [] => true
  | .mk v b :: rest => noBlockExpr v && !(varsUsed v).contains "_" && shapeOK b && shapeOKCases rest
def shapeOKTCases : List GTCase → Bool
  | [] => true
  | .mk _ b :: rest => shapeOK b && shapeOKTCases rest
end

mutual
/-- the liveness-dependent part of the contract, following the same backward scan as `dceStmts`:
    * every initialiser / stored value the pass deletes satisfies `P` (the caller's "cannot fail,
      cannot write" predicate);
    * loops: `dce.rs` analyses a loop body once, with the live set after the loop, and treats
      `break` as falling through.  That is sound when (i) no variable assigned in the body is live
      after the loop and (ii) the one pass is already the fixpoint: analysing the body again with
      the loop-back live set `H = live ∪ live-in(body)` gives the same block and a live-in set
      inside `H`. -/
def semOK (P : GExpr → Bool) : List GStmt → Names → Bool
  | [], _ => true
  | s :: rest, liveOut =>
    let r := dceStmts rest liveOut
    semOK P rest liveOut && semOKStmt P s r.live
def semOKStmt (P : GExpr → Bool) : GStmt → Names → Bool
  | .varDecl x _ (some e), live => live.contains x || exprEffects (dceExpr e) || P (dceExpr e)
  | .varDecl _ _ none, _ => true
  | .assign x v, live => live.contains x || exprEffects (dceExpr v) || P (dceExpr v)
  | .loop body, live =>
    (writesStmts body).all (fun x => !(live.contains x))
      && eqStmts (dceStmts body (uni live (dceStmts body live).live)).out (dceStmts body live).out
      && (dceStmts body (uni live (dceStmts body live).live)).live.all
           (fun x => (uni live (dceStmts body live).live).contains x)
      && semOK P body (uni live (dceStmts body live).live)
  | .ite _ t (some b), live => semOK P t live && semOK P b live
  | .ite _ t none, live => semOK P t live
  | .switch _ cs (some b), live => semOKCases P cs live && semOK P b (dceCases cs live).live
  | .switch _ cs none, live => semOKCases P cs live
  | .tswitch _ _ cs (some b), live => semOKTCases P cs live && semOK P b live
  | .tswitch _ _ cs none, live => semOKTCases P cs live
  | _, _ => true
def semOKCases (P : GExpr → Bool) : List GCase → Names → Bool
  | [], _ => true
  | .mk v b :: rest, live => semOK P b live && semOKCases P rest (uni live (varsUsed (dceExpr v)))
def semOKTCases (P : GExpr → Bool) : List GTCase → Names → Bool
  | [], _ => true
  | .mk _ b :: rest, live => semOK P b live && semOKTCases P rest live
end

mutual
/-- an expression whose evaluation can neither fail nor touch the world, judged syntactically:
    literals, variables, `-`, `!`, the non-dividing binary operators and struct / array literals
    of such (a slice literal allocates its backing array in `Go.Sem`'s heap).  With `allowField` also `e.f` where the annotated type of `e` is not a pointer: a
    struct value is never nil, and `Go.Sem` has no rule for a nil value of a non-pointer static type
    (`stuck`, not the nil-dereference panic), so this case is proved too (`inertSyn_sound`). -/
def inertSyn (allowField : Bool) : GExpr → Bool
  | .var _ _ | .nil _ | .voidv _ | .unitv _ | .bool _ | .float _ _ | .str _ => true
  | .int text _ => text.toInt?.isSome
  | .un op _ e => (match op with | .neg | .not => inertSyn allowField e | _ => false)
  | .bin op _ l r => (match op with | .div => false | _ => inertSyn allowField l && inertSyn allowField r)
  | .field _ _ o => allowField && !isPtrTy (staticTy o) && inertSyn allowField o
  | .slit _ fs => inertSynFields allowField fs
  | .alit t es => (match t with | .slice _ => false | _ => true) && inertSynList allowField es
  | _ => false
def inertSynList (allowField : Bool) : List GExpr → Bool
  | [] => true
  | e :: es => inertSyn allowField e && inertSynList allowField es
def inertSynFields (allowField : Bool) : List GField → Bool
  | [] => true
  | .mk _ e :: fs => inertSyn allowField e && inertSynFields allowField fs
end

/-- everything declared in a function: parameters, locals, type-switch bindings -/
def localsOf (f : GFunc) : Names := f.params.map (·.1) ++ allDecls f.body

structure FnReport where
  name : String
  unused : Names
  scope : Names
  shape : Bool
  semStrict : Bool      -- `semOK (inertSyn false)`
  semStatic : Bool      -- `semOK (inertSyn true)`
  deriving Inhabited

def reportFn (f : GFunc) : FnReport :=
  { name := f.name,
    unused := unusedStmts f.body,
    scope := scopeErrs (localsOf f) (f.params.map (·.1)) f.body,
    shape := shapeOK f.body,
    semStrict := semOK (inertSyn false) f.body [],
    semStatic := semOK (inertSyn true) f.body [] }

/- statement-context rule of Go: an expression statement must be a call, and not a call of a
   value-only builtin or a conversion -/
mutual
def stmtCtxErrs : List GStmt → Names
  | [] => []
  | s :: rest => stmtCtxErrsStmt s ++ stmtCtxErrs rest
def stmtCtxErrsStmt : GStmt → Names
  | .expr e =>
    (match e with
     | .call _ (.var f _) _ => if valueOnlyCallees.contains f then [f] else []
     | .call _ _ _ => []
     | _ => ["<not-a-call>"])
  | .ite _ t e => stmtCtxErrs t ++ (match e with | some b => stmtCtxErrs b | none => [])
  | .loop b => stmtCtxErrs b
  | .switch _ cs d => stmtCtxErrsCases cs ++ (match d with | some b => stmtCtxErrs b | none => [])
  | .tswitch _ _ cs d => stmtCtxErrsTCases cs ++ (match d with | some b => stmtCtxErrs b | none => [])
  | _ => []
def stmtCtxErrsCases : List GCase → Names
  | [] => []
  | .mk _ b :: rest => stmtCtxErrs b ++ stmtCtxErrsCases rest
def stmtCtxErrsTCases : List GTCase → Names
  | [] => []
  | .mk _ b :: rest => stmtCtxErrs b ++ stmtCtxErrsTCases rest
end

/-! ### the contract of the file-level preservation theorem (`Props/Dce.lean`, `dce_file_preserves`) -/

/-- one function: no parameter is the blank identifier, and its body satisfies the contract of
    `dce_preserves_syn` for the environment `callG` builds (exactly its parameters) -/
def fnDceOK (f : GFunc) : Bool :=
  !(f.params.map (·.1)).contains "_" &&
  (scopeErrs (localsOf f) (f.params.map (·.1)) f.body).isEmpty &&
  shapeOK f.body && semOK (inertSyn true) f.body []

/-- a file: every function satisfies `fnDceOK`, function names are pairwise distinct (as Go requires) -/
def fileDceOK (F : GFile) : Bool :=
  F.funcs.all fnDceOK && decide ((F.funcs.map (·.name)).Nodup)

end Goml.Dce
