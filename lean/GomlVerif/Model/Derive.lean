/-
C18 — `#[derive(ToString)]` / `#[derive(ToJson)]` (`crates/compiler/src/derive.rs`).

* `toJson Δ v`, `toString Δ v`: what the generated `to_json` / `to_string` return, as functions on
  values, following the generated code's concatenation order (`build_struct_json_body`,
  `build_enum_json_body`, `build_struct_body`, `build_enum_body`, `concat_parts`).
* `jsonQuote`: the runtime's `json_escape_string` (`go/runtime.rs`); `goQuote`: Go's
  `strconv.Quote` (`%q`), which `json_escape_string` used to be.
* `jsonRead`: an RFC 8259 reader (strings: exactly the escapes of §7, no raw control characters;
  numbers: exactly the grammar of §6), with a declarative `encode`.
* `genJson` / `genString`: the generated method bodies as a small AST, with the binders the derive
  chooses, and the scoping judgement `scoped` (every helper the body calls is still the global one).

Imports only the generated tables (linked into `gomlmodel`).  Text is `List Char` throughout.
-/
import GomlVerif.Gen.Derive
namespace Goml.Derive

/-! ## definitions and values -/

/-- a field / payload type as `call_to_json` / `call_to_string` classify it -/
inductive FTy where
  | unit | bool
  | int (bits : Nat) (signed : Bool)
  | float (bits : Nat)
  | string
  /-- `TCon`: a user type -/
  | named (n : String)
  /-- tuple, array, function, applied, `dyn` type: the derive emits `.to_json()` / `.to_string()`
      on it and the typer rejects that call -/
  | other
  deriving Repr, BEq, DecidableEq, Inhabited

inductive Def where
  | struct (name : String) (generics : Nat) (fields : List (String × FTy))
  | enum (name : String) (generics : Nat) (variants : List (String × List FTy))
  deriving Repr, Inhabited

def Def.name : Def → String
  | .struct n _ _ => n
  | .enum n _ _ => n

abbrev Defs := List Def

def lookupStruct (Δ : Defs) (n : String) : Option (List (String × FTy)) :=
  match Δ.find? (fun d => d.name == n) with
  | some (.struct _ _ fs) => some fs
  | _ => none

def lookupVariant (Δ : Defs) (n : String) (idx : Nat) : Option (String × List FTy) :=
  match Δ.find? (fun d => d.name == n) with
  | some (.enum _ _ vs) => vs[idx]?
  | _ => none

/-- run-time values of derived types.  A float carries its rendering (`fmt.Sprintf("%g", x)`):
    Go's shortest-decimal formatting is outside the model -/
inductive Val where
  | unit
  | bool (b : Bool)
  | int (v : Int)
  | float (text : List Char)
  | str (s : List Char)
  | struct (name : String) (fields : List Val)
  | enum (name : String) (idx : Nat) (args : List Val)
  deriving Inhabited

/-! ## numbers -/

def digitChar (n : Nat) : Char := Char.ofNat (48 + n)

/-- decimal digits of a natural number (`%d`) -/
def natDigits (n : Nat) : List Char :=
  if n < 10 then [digitChar n] else natDigits (n / 10) ++ [digitChar (n % 10)]
termination_by n
decreasing_by omega

def showInt (v : Int) : List Char :=
  match v with
  | .ofNat n => natDigits n
  | .negSucc n => '-' :: natDigits (n + 1)

/-! ## string quoting -/

def hexDigit (n : Nat) : Char :=
  if n < 10 then Char.ofNat (48 + n) else Char.ofNat (87 + n)

/-- one character of `json_escape_string` (the loop body in `go/runtime.rs`): `"` and `\` get a
    backslash, U+0000–U+001F become `\u00XX`, everything else is copied -/
def jsonEscChar (c : Char) : List Char :=
  if c = '"' then ['\\', '"']
  else if c = '\\' then ['\\', '\\']
  else if c.toNat < 32 then ['\\', 'u', '0', '0', hexDigit (c.toNat / 16), hexDigit (c.toNat % 16)]
  else [c]

def jsonEscBody : List Char → List Char
  | [] => []
  | c :: cs => jsonEscChar c ++ jsonEscBody cs

/-- `json_escape_string(s)` -/
def jsonQuote (s : List Char) : List Char := '"' :: (jsonEscBody s ++ ['"'])

/-- `strings.ReplaceAll(s, old, new)` for a one-character `old` -/
def replChar (old : Char) (new : List Char) (s : List Char) : List Char :=
  s.flatMap fun c => if c = old then new else [c]

/-- the nested `strings.ReplaceAll` calls of `json_escape_string`, innermost first
    (`Gen.Derive.jsonReplacements`, regenerated from `go/runtime.rs`) -/
def applyReplacements (tbl : List (Nat × List Nat)) (s : List Char) : List Char :=
  tbl.foldl (fun acc r => replChar (Char.ofNat r.1) (r.2.map Char.ofNat) acc) s

def hex4 (n : Nat) : List Char :=
  [hexDigit (n / 4096 % 16), hexDigit (n / 256 % 16), hexDigit (n / 16 % 16), hexDigit (n % 16)]

/-- `\xNN`, `\uNNNN`, `\UNNNNNNNN` -/
def goEscHex (c : Char) : List Char :=
  if c.toNat < 32 ∨ c.toNat = 127 then ['\\', 'x', hexDigit (c.toNat / 16), hexDigit (c.toNat % 16)]
  else if c.toNat < 65536 then '\\' :: 'u' :: hex4 c.toNat
  else '\\' :: 'U' :: (hex4 (c.toNat / 65536) ++ hex4 (c.toNat % 65536))

/-- a rune that is not written as itself -/
def goEscNonPrint (c : Char) : List Char :=
  if c.toNat = 7 then ['\\', 'a']
  else if c.toNat = 8 then ['\\', 'b']
  else if c.toNat = 12 then ['\\', 'f']
  else if c.toNat = 10 then ['\\', 'n']
  else if c.toNat = 13 then ['\\', 'r']
  else if c.toNat = 9 then ['\\', 't']
  else if c.toNat = 11 then ['\\', 'v']
  else goEscHex c

/-- one rune of Go's `strconv.Quote` (`appendEscapedRune`); `isPrint` stands for `unicode.IsPrint`
    on non-ASCII runes.  (Strings are valid UTF-8 here: goml strings are built from decoded literals,
    `string(s[i])` and concatenation.) -/
def goEscRune (isPrint : Char → Bool) (c : Char) : List Char :=
  if c = '"' then ['\\', '"']
  else if c = '\\' then ['\\', '\\']
  else if 32 ≤ c.toNat ∧ c.toNat < 127 then [c]
  else if 128 ≤ c.toNat ∧ isPrint c then [c]
  else goEscNonPrint c

def goQuoteBody (isPrint : Char → Bool) : List Char → List Char
  | [] => []
  | c :: cs => goEscRune isPrint c ++ goQuoteBody isPrint cs

/-- `fmt.Sprintf("%q", s)` -/
def goQuote (isPrint : Char → Bool) (s : List Char) : List Char :=
  '"' :: (goQuoteBody isPrint s ++ ['"'])

/-- the runes on which `%q` writes something a JSON reader takes for the same character: not
    `\a`, `\v`, `\xNN` (other C0 controls and DEL) and not `\UNNNNNNNN` (unprintable above the BMP) -/
def goQuoteJsonSafe (isPrint : Char → Bool) (c : Char) : Bool :=
  let n := c.toNat
  decide (n ≠ 7) && decide (n ≠ 11) && (decide (32 ≤ n) || n = 8 || n = 9 || n = 10 || n = 12 || n = 13)
    && decide (n ≠ 127) && (decide (n < 65536) || isPrint c)

/-! ## what the generated methods return -/

mutual
/-- `v.to_json()` -/
def toJson (Δ : Defs) : Val → List Char
  | .unit => "null".toList
  | .bool b => if b then "true".toList else "false".toList
  | .int v => showInt v
  | .float t => t
  | .str s => jsonQuote s
  | .struct n fs =>
    match lookupStruct Δ n with
    | some decls => if decls.isEmpty then "{}".toList else '{' :: (membersJson Δ decls fs true ++ ['}'])
    | none => []
  | .enum n idx args =>
    match lookupVariant Δ n idx with
    | some (vn, tys) =>
      if tys.isEmpty then "{\"tag\":\"".toList ++ vn.toList ++ "\"}".toList
      else "{\"tag\":\"".toList ++ vn.toList ++ "\",\"fields\":[".toList ++ (itemsJson Δ args true ++ "]}".toList)
    | none => []
/-- `,"f":<json>` per field, no comma before the first -/
def membersJson (Δ : Defs) : List (String × FTy) → List Val → Bool → List Char
  | (f, _) :: decls, v :: vs, first =>
    (if first then [] else [',']) ++ ('"' :: (f.toList ++ ['"', ':'])) ++ toJson Δ v ++ membersJson Δ decls vs false
  | _, _, _ => []
def itemsJson (Δ : Defs) : List Val → Bool → List Char
  | v :: vs, first => (if first then [] else [',']) ++ toJson Δ v ++ itemsJson Δ vs false
  | [], _ => []
end

mutual
/-- `v.to_string()` (`call_to_string`: a string field is used as it is) -/
def toString (Δ : Defs) : Val → List Char
  | .unit => "()".toList
  | .bool b => if b then "true".toList else "false".toList
  | .int v => showInt v
  | .float t => t
  | .str s => s
  | .struct n fs =>
    match lookupStruct Δ n with
    | some decls =>
      if decls.isEmpty then n.toList ++ " {}".toList
      else n.toList ++ " { ".toList ++ (membersString Δ decls fs ++ " }".toList)
    | none => []
  | .enum n idx args =>
    match lookupVariant Δ n idx with
    | some (vn, tys) =>
      if tys.isEmpty then n.toList ++ "::".toList ++ vn.toList
      else n.toList ++ "::".toList ++ vn.toList ++ ['('] ++ (itemsString Δ args true ++ [')'])
    | none => []
/-- `f: <v>` then `, ` unless it is the last field -/
def membersString (Δ : Defs) : List (String × FTy) → List Val → List Char
  | (f, _) :: decls, v :: vs =>
    f.toList ++ ": ".toList ++ toString Δ v ++ (if decls.isEmpty then [] else ", ".toList) ++ membersString Δ decls vs
  | _, _ => []
def itemsString (Δ : Defs) : List Val → Bool → List Char
  | v :: vs, first => (if first then [] else ", ".toList) ++ toString Δ v ++ itemsString Δ vs false
  | [], _ => []
end

/-! ## the rendering `to_string` is meant to produce, written with `intercalate` -/

def intercalate (sep : List Char) : List (List Char) → List Char
  | [] => []
  | [x] => x
  | x :: y :: rest => x ++ sep ++ intercalate sep (y :: rest)

mutual
/-- `Name { f: v, g: w }`, `Name {}`, `Enum::Variant(v, w)`, `Enum::Variant` -/
def render (Δ : Defs) : Val → List Char
  | .unit => "()".toList
  | .bool b => if b then "true".toList else "false".toList
  | .int v => showInt v
  | .float t => t
  | .str s => s
  | .struct n fs =>
    match lookupStruct Δ n with
    | some decls =>
      if decls.isEmpty then n.toList ++ " {}".toList
      else n.toList ++ " { ".toList ++ intercalate ", ".toList (renderMembers Δ decls fs) ++ " }".toList
    | none => []
  | .enum n idx args =>
    match lookupVariant Δ n idx with
    | some (vn, tys) =>
      if tys.isEmpty then n.toList ++ "::".toList ++ vn.toList
      else n.toList ++ "::".toList ++ vn.toList ++ "(".toList ++ intercalate ", ".toList (renderItems Δ args) ++ ")".toList
    | none => []
def renderMembers (Δ : Defs) : List (String × FTy) → List Val → List (List Char)
  | (f, _) :: decls, v :: vs => (f.toList ++ ": ".toList ++ render Δ v) :: renderMembers Δ decls vs
  | _, _ => []
def renderItems (Δ : Defs) : List Val → List (List Char)
  | v :: vs => render Δ v :: renderItems Δ vs
  | [] => []
end

/-! ## typing of values, acceptance of definitions -/

mutual
def hasTy (Δ : Defs) : FTy → Val → Bool
  | .unit, .unit => true
  | .bool, .bool _ => true
  | .int _ _, .int _ => true
  | .float _, .float _ => true
  | .string, .str _ => true
  | .named m, .struct n fs =>
    m == n && match lookupStruct Δ n with
      | some decls => hasTys Δ (decls.map (·.2)) fs
      | none => false
  | .named m, .enum n idx args =>
    m == n && match lookupVariant Δ n idx with
      | some (_, tys) => hasTys Δ tys args
      | none => false
  | _, _ => false
def hasTys (Δ : Defs) : List FTy → List Val → Bool
  | t :: ts, v :: vs => hasTy Δ t v && hasTys Δ ts vs
  | [], [] => true
  | _, _ => false
end

/-- goml identifiers (`[A-Za-z][A-Za-z_0-9]*`, lexer) -/
def isIdentChar (c : Char) : Bool :=
  (65 ≤ c.toNat && c.toNat ≤ 90) || (97 ≤ c.toNat && c.toNat ≤ 122) || (48 ≤ c.toNat && c.toNat ≤ 57) || c.toNat == 95

def isIdent (s : String) : Bool := s.toList.all isIdentChar

/-- the field type is one the generated call resolves on: a primitive (`call_to_json` arms; the
    builtin `to_string` methods) or a user type of the program that carries the same derive -/
def ftyOk (Δ : Defs) : FTy → Bool
  | .other => false
  | .named n => Δ.any (fun d => d.name == n)
  | _ => true

/-- `derive_*` accepts the definition (not generic) and the generated calls resolve -/
def accepts (Δ : Defs) : Def → Bool
  | .struct _ g fs => g == 0 && fs.all (fun f => ftyOk Δ f.2)
  | .enum _ g vs => g == 0 && vs.all (fun v => v.2.all (ftyOk Δ))

def namesOk : Def → Bool
  | .struct n _ fs => isIdent n && fs.all (fun f => isIdent f.1)
  | .enum n _ vs => isIdent n && vs.all (fun v => isIdent v.1)

def defsOk (Δ : Defs) : Bool := Δ.all namesOk

/-! ## JSON -/

mutual
inductive Json where
  | null
  | bool (b : Bool)
  /-- the number's text, which satisfies the grammar of RFC 8259 §6 -/
  | num (text : List Char)
  | str (s : List Char)
  | arr (items : List Json)
  | obj (members : List Member)
inductive Member where
  | mk (key : List Char) (v : Json)
end

instance : Inhabited Json := ⟨.null⟩

mutual
/-- the structure the property asks for: an object per struct, `tag` (and `fields`) per variant -/
def encode (Δ : Defs) : Val → Json
  | .unit => .null
  | .bool b => .bool b
  | .int v => .num (showInt v)
  | .float t => .num t
  | .str s => .str s
  | .struct n fs =>
    match lookupStruct Δ n with
    | some decls => .obj (encodeMembers Δ decls fs)
    | none => .null
  | .enum n idx args =>
    match lookupVariant Δ n idx with
    | some (vn, tys) =>
      if tys.isEmpty then .obj [.mk "tag".toList (.str vn.toList)]
      else .obj [.mk "tag".toList (.str vn.toList), .mk "fields".toList (.arr (encodeItems Δ args))]
    | none => .null
def encodeMembers (Δ : Defs) : List (String × FTy) → List Val → List Member
  | (f, _) :: decls, v :: vs => .mk f.toList (encode Δ v) :: encodeMembers Δ decls vs
  | _, _ => []
def encodeItems (Δ : Defs) : List Val → List Json
  | v :: vs => encode Δ v :: encodeItems Δ vs
  | [] => []
end

def allDistinct : List String → Bool
  | [] => true
  | x :: xs => !xs.contains x && allDistinct xs

/-! ### reading the structure back as a value of a given type -/

def digitsVal (cs : List Char) : Nat := cs.foldl (fun a c => 10 * a + (c.toNat - 48)) 0

def parseInt : List Char → Int
  | [] => 0
  | c :: r => if c = '-' then Int.negOfNat (digitsVal r) else Int.ofNat (digitsVal (c :: r))

def variantIdx : List (String × List FTy) → List Char → Option Nat
  | [], _ => none
  | (name, _) :: rest, vn =>
    if name.toList = vn then some 0
    else match variantIdx rest vn with
      | some i => some (i + 1)
      | none => none

mutual
/-- the value of type `t` that a JSON structure denotes (inverse of `encode`) -/
def decode (Δ : Defs) : FTy → Json → Option Val
  | .unit, .null => some .unit
  | .bool, .bool b => some (.bool b)
  | .int _ _, .num t => some (.int (parseInt t))
  | .float _, .num t => some (.float t)
  | .string, .str s => some (.str s)
  | .named n, .obj ms =>
    match Δ.find? (fun d => d.name == n) with
    | some (.struct _ _ decls) =>
      match decodeMembers Δ decls ms with
      | some vs => some (.struct n vs)
      | none => none
    | some (.enum _ _ vs) =>
      match ms with
      | [.mk _ (.str vn)] =>
        match variantIdx vs vn with
        | some idx =>
          match vs[idx]? with
          | some (_, []) => some (.enum n idx [])
          | _ => none
        | none => none
      | [.mk _ (.str vn), .mk _ (.arr items)] =>
        match variantIdx vs vn with
        | some idx =>
          match vs[idx]? with
          | some (_, t :: tys) =>
            match decodeItems Δ (t :: tys) items with
            | some args => some (.enum n idx args)
            | none => none
          | _ => none
        | none => none
      | _ => none
    | none => none
  | _, _ => none
def decodeMembers (Δ : Defs) : List (String × FTy) → List Member → Option (List Val)
  | [], [] => some []
  | (f, t) :: decls, .mk k j :: ms =>
    if k = f.toList then
      match decode Δ t j, decodeMembers Δ decls ms with
      | some v, some vs => some (v :: vs)
      | _, _ => none
    else none
  | _, _ => none
def decodeItems (Δ : Defs) : List FTy → List Json → Option (List Val)
  | [], [] => some []
  | t :: tys, j :: js =>
    match decode Δ t j, decodeItems Δ tys js with
    | some v, some vs => some (v :: vs)
    | _, _ => none
  | _, _ => none
end

/-- variant names are pairwise distinct within each enum (the typer rejects duplicates) -/
def variantsDistinct (Δ : Defs) : Bool :=
  Δ.all fun d => match d with
    | .enum _ _ vs => allDistinct (vs.map (·.1))
    | _ => true

def isWs (c : Char) : Bool := c = ' ' || c = '\t' || c = '\n' || c = '\r'

def skipWs : List Char → List Char
  | [] => []
  | c :: cs => if isWs c then skipWs cs else c :: cs

def isDigit (c : Char) : Bool := 48 ≤ c.toNat && c.toNat ≤ 57

def isNumChar (c : Char) : Bool := isDigit c || c = '-' || c = '+' || c = '.' || c = 'e' || c = 'E'

def dropDigits : List Char → List Char
  | [] => []
  | c :: cs => if isDigit c then dropDigits cs else c :: cs

/-- `[eE][+-]?[0-9]+` or nothing -/
def validExp : List Char → Bool
  | [] => true
  | e :: r =>
    (e = 'e' || e = 'E') &&
      match r with
      | [] => false
      | s :: r' =>
        if s = '+' || s = '-' then
          match r' with
          | [] => false
          | d :: r'' => isDigit d && dropDigits r'' = []
        else isDigit s && dropDigits r' = []

/-- `(\.[0-9]+)?` then the exponent -/
def validFrac : List Char → Bool
  | [] => true
  | c :: r =>
    if c = '.' then
      match r with
      | [] => false
      | d :: r' => isDigit d && validExp (dropDigits r')
    else validExp (c :: r)

/-- RFC 8259 §6: `-?(0|[1-9][0-9]*)(\.[0-9]+)?([eE][+-]?[0-9]+)?` -/
def validNumber (t : List Char) : Bool :=
  let body := match t with
    | [] => []
    | c :: r => if c = '-' then r else c :: r
  match body with
  | [] => false
  | c :: r =>
    if c = '0' then validFrac r
    else if isDigit c then validFrac (dropDigits r)
    else false

mutual
/-- every float in the value is rendered (`%g`) as a JSON number (it is finite) -/
def floatsOk : Val → Bool
  | .float t => validNumber t && t.all isNumChar
  | .struct _ fs => floatsOkL fs
  | .enum _ _ args => floatsOkL args
  | _ => true
def floatsOkL : List Val → Bool
  | v :: vs => floatsOk v && floatsOkL vs
  | [] => true
end

def spanNum : List Char → List Char × List Char
  | [] => ([], [])
  | c :: cs => if isNumChar c then ((spanNum cs).1.cons c, (spanNum cs).2) else ([], c :: cs)

def hexVal (c : Char) : Option Nat :=
  if 48 ≤ c.toNat ∧ c.toNat ≤ 57 then some (c.toNat - 48)
  else if 97 ≤ c.toNat ∧ c.toNat ≤ 102 then some (c.toNat - 87)
  else if 65 ≤ c.toNat ∧ c.toNat ≤ 70 then some (c.toNat - 55)
  else none

def hex4Val (a b c d : Char) : Option Nat :=
  match hexVal a, hexVal b, hexVal c, hexVal d with
  | some x, some y, some z, some w => some (x * 4096 + y * 256 + z * 16 + w)
  | _, _, _, _ => none

/-- the character a two-character escape denotes (RFC 8259 §7) -/
def unescape (e : Char) : Option Char :=
  if e = '"' then some '"' else if e = '\\' then some '\\' else if e = '/' then some '/'
  else if e = 'b' then some (Char.ofNat 8) else if e = 'f' then some (Char.ofNat 12)
  else if e = 'n' then some '\n' else if e = 'r' then some '\r' else if e = 't' then some '\t'
  else none

def consFst (c : Char) : Option (List Char × List Char) → Option (List Char × List Char)
  | some (s, rest) => some (c :: s, rest)
  | none => none

/-- the characters of a string after its opening quote, up to and including the closing quote.
    Unescaped: anything but `"`, `\` and U+0000–U+001F.  `\uXXXX`: a code point, or a high
    surrogate followed by `\uXXXX` low surrogate; a lone surrogate denotes no character: `none`. -/
def readStr : List Char → Option (List Char × List Char)
  | [] => none
  | c :: r =>
    if c = '"' then some ([], r)
    else if c = '\\' then
      match r with
      | [] => none
      | e :: r1 =>
        if e = 'u' then
          match r1 with
          | a :: b :: c' :: d :: r2 =>
            match hex4Val a b c' d with
            | none => none
            | some u =>
              if 0xD800 ≤ u ∧ u < 0xDC00 then
                match r2 with
                | bs :: uu :: e1 :: e2 :: e3 :: e4 :: r3 =>
                  if bs = '\\' ∧ uu = 'u' then
                    match hex4Val e1 e2 e3 e4 with
                    | none => none
                    | some lo =>
                      if 0xDC00 ≤ lo ∧ lo < 0xE000 then
                        consFst (Char.ofNat (0x10000 + (u - 0xD800) * 1024 + (lo - 0xDC00))) (readStr r3)
                      else none
                  else none
                | _ => none
              else if 0xDC00 ≤ u ∧ u < 0xE000 then none
              else consFst (Char.ofNat u) (readStr r2)
          | _ => none
        else
          match unescape e with
          | some ch => consFst ch (readStr r1)
          | none => none
    else if c.toNat < 32 then none
    else consFst c (readStr r)

def stripPrefix : List Char → List Char → Option (List Char)
  | [], cs => some cs
  | _ :: _, [] => none
  | p :: ps, c :: cs => if p = c then stripPrefix ps cs else none

mutual
/-- one JSON value and the rest of the input; `fuel` bounds the nesting + breadth -/
def readValue : Nat → List Char → Option (Json × List Char)
  | 0, _ => none
  | fuel + 1, cs =>
    match skipWs cs with
    | [] => none
    | c :: r =>
      if c = '"' then
        match readStr r with
        | some (s, rest) => some (.str s, rest)
        | none => none
      else if c = '{' then
        match skipWs r with
        | [] => none
        | c2 :: r2 => if c2 = '}' then some (.obj [], r2) else
          match readMembers fuel (c2 :: r2) with
          | some (ms, rest) => some (.obj ms, rest)
          | none => none
      else if c = '[' then
        match skipWs r with
        | [] => none
        | c2 :: r2 => if c2 = ']' then some (.arr [], r2) else
          match readItems fuel (c2 :: r2) with
          | some (vs, rest) => some (.arr vs, rest)
          | none => none
      else if c = 't' then
        match stripPrefix "rue".toList r with
        | some rest => some (.bool true, rest)
        | none => none
      else if c = 'f' then
        match stripPrefix "alse".toList r with
        | some rest => some (.bool false, rest)
        | none => none
      else if c = 'n' then
        match stripPrefix "ull".toList r with
        | some rest => some (.null, rest)
        | none => none
      else
        let tok := spanNum (c :: r)
        if validNumber tok.1 then some (.num tok.1, tok.2) else none
/-- `value (, value)* ]` -/
def readItems : Nat → List Char → Option (List Json × List Char)
  | 0, _ => none
  | fuel + 1, cs =>
    match readValue fuel cs with
    | none => none
    | some (v, rest) =>
      match skipWs rest with
      | [] => none
      | c :: r =>
        if c = ',' then
          match readItems fuel r with
          | some (vs, rest') => some (v :: vs, rest')
          | none => none
        else if c = ']' then some ([v], r)
        else none
/-- `string : value (, string : value)* }` -/
def readMembers : Nat → List Char → Option (List Member × List Char)
  | 0, _ => none
  | fuel + 1, cs =>
    match skipWs cs with
    | [] => none
    | q :: r0 =>
      if q = '"' then
        match readStr r0 with
        | none => none
        | some (key, r1) =>
          match skipWs r1 with
          | [] => none
          | colon :: r2 =>
            if colon = ':' then
              match readValue fuel r2 with
              | none => none
              | some (v, rest) =>
                match skipWs rest with
                | [] => none
                | c :: r =>
                  if c = ',' then
                    match readMembers fuel r with
                    | some (ms, rest') => some (.mk key v :: ms, rest')
                    | none => none
                  else if c = '}' then some ([.mk key v], r)
                  else none
            else none
      else none
end

/-- a complete JSON text -/
def jsonRead (cs : List Char) : Option Json :=
  match readValue (cs.length + 1) cs with
  | some (j, rest) => if skipWs rest = [] then some j else none
  | none => none

/-! ## the generated bodies, as far as scoping goes -/

/-- the expression forms `derive.rs` builds -/
inductive GExpr where
  | lit (s : String)
  /-- `EPath` of one identifier: a local binder if one is in scope, else a global -/
  | var (x : String)
  /-- `ECall` of a named function (`call_function`) -/
  | callFn (f : String) (arg : GExpr)
  /-- `ECall (EField e m) []` -/
  | callMethod (recv : GExpr) (m : String)
  | concat (l r : GExpr)
  deriving Repr, Inhabited

/-- a generated method: parameter `self`; a struct body destructures `self` binding `binders`, an
    enum body has one arm per variant binding that arm's `binders` -/
structure GArm where
  /-- the pattern's path: `[Struct]` (`let Struct { f: b, … } = self`), `[Enum, Variant]` (a match
      arm), or `[]` when nothing is destructured (a struct without fields) -/
  patPath : List String := []
  /-- the struct pattern's field names, in order -/
  patFields : List String := []
  binders : List String
  body : GExpr
  deriving Repr, Inhabited

structure GMethod where
  name : String
  param : String
  arms : List GArm
  deriving Repr, Inhabited

def concatParts : List GExpr → GExpr
  | [] => .lit ""
  | p :: ps => ps.foldl .concat p

def fieldBinder (idx : Nat) : String := Gen.Derive.binderPrefix ++ String.ofList (natDigits idx)

/-- the `ast::TypeExpr` variant -/
def variantName : FTy → String
  | .unit => "TUnit" | .bool => "TBool" | .string => "TString"
  | .int 8 true => "TInt8" | .int 16 true => "TInt16" | .int 32 true => "TInt32" | .int 64 true => "TInt64"
  | .int 8 false => "TUint8" | .int 16 false => "TUint16" | .int 32 false => "TUint32" | .int 64 false => "TUint64"
  | .float 32 => "TFloat32" | .float 64 => "TFloat64"
  | .named _ => "TCon"
  | _ => "TOther"

def lookup2 (tbl : List (String × String)) (k : String) : Option String :=
  match tbl.find? (fun r => r.1 == k) with
  | some r => some r.2
  | none => none

/-- `primitive_to_string_fn` -/
def primHelper (t : FTy) : Option String := lookup2 Gen.Derive.primToString (variantName t)

/-- `call_to_json` -/
def callToJson (v : GExpr) (t : FTy) : GExpr :=
  match Gen.Derive.jsonArms.find? (fun r => r.1 == variantName t) with
  | some (_, kind, payload) => if kind == "fn" then .callFn payload v else .lit payload
  | none =>
    match primHelper t with
    | some h => .callFn h v
    | none => .callMethod v Gen.Derive.toJsonFn

/-- `call_to_string` -/
def callToString (v : GExpr) (t : FTy) : GExpr :=
  if variantName t == "TString" then v
  else match primHelper t with
    | some h => .callFn h v
    | none => .callMethod v Gen.Derive.toStringFn

def jsonStructParts (bind : Nat → String → String) : Nat → List (String × FTy) → List GExpr
  | _, [] => []
  | idx, (f, t) :: rest =>
    (if idx > 0 then [.lit ","] else []) ++ [.lit ("\"" ++ f ++ "\":"), callToJson (.var (bind idx f)) t]
      ++ jsonStructParts bind (idx + 1) rest

def jsonEnumParts : Nat → List FTy → List GExpr
  | _, [] => []
  | idx, t :: rest =>
    (if idx > 0 then [.lit ","] else []) ++ [callToJson (.var (fieldBinder idx)) t] ++ jsonEnumParts (idx + 1) rest

def stringStructParts (bind : Nat → String → String) : Nat → List (String × FTy) → List GExpr
  | _, [] => []
  | idx, (f, t) :: rest =>
    [.lit (f ++ ": "), callToString (.var (bind idx f)) t] ++ (if rest.isEmpty then [] else [.lit ", "])
      ++ stringStructParts bind (idx + 1) rest

def stringEnumParts : Nat → List FTy → List GExpr
  | _, [] => []
  | idx, t :: rest =>
    (if idx > 0 then [.lit ", "] else []) ++ [callToString (.var (fieldBinder idx)) t] ++ stringEnumParts (idx + 1) rest

def binders (bind : Nat → String → String) : Nat → List (String × FTy) → List String
  | _, [] => []
  | idx, (f, _) :: rest => bind idx f :: binders bind (idx + 1) rest

def enumBinders : Nat → List FTy → List String
  | _, [] => []
  | idx, _ :: rest => fieldBinder idx :: enumBinders (idx + 1) rest

/-- `derive_struct_tojson` / `derive_enum_tojson`; `bind idx field` is the local a struct field is
    bound to -/
def genJson (bind : Nat → String → String) : Def → GMethod
  | .struct n _ fs =>
    { name := Gen.Derive.toJsonFn, param := Gen.Derive.selfParam,
      arms := [{ patPath := if fs.isEmpty then [] else [n], patFields := fs.map (·.1),
                 binders := if fs.isEmpty then [] else binders bind 0 fs,
                 body := if fs.isEmpty then .lit "{}"
                         else concatParts ([.lit "{"] ++ jsonStructParts bind 0 fs ++ [.lit "}"]) }] }
  | .enum n _ vs =>
    { name := Gen.Derive.toJsonFn, param := Gen.Derive.selfParam,
      arms := vs.map fun (vn, tys) =>
        { patPath := [n, vn], binders := enumBinders 0 tys,
          body := if tys.isEmpty then .lit ("{\"tag\":\"" ++ vn ++ "\"}")
                  else concatParts ([.lit ("{\"tag\":\"" ++ vn ++ "\",\"fields\":[")] ++ jsonEnumParts 0 tys ++ [.lit "]}"]) } }

/-- `derive_struct_tostring` / `derive_enum_tostring` -/
def genString (bind : Nat → String → String) : Def → GMethod
  | .struct n _ fs =>
    { name := Gen.Derive.toStringFn, param := Gen.Derive.selfParam,
      arms := [{ patPath := if fs.isEmpty then [] else [n], patFields := fs.map (·.1),
                 binders := if fs.isEmpty then [] else binders bind 0 fs,
                 body := if fs.isEmpty then .lit (n ++ " {}")
                         else concatParts ([.lit (n ++ " { ")] ++ stringStructParts bind 0 fs ++ [.lit " }"]) }] }
  | .enum n _ vs =>
    { name := Gen.Derive.toStringFn, param := Gen.Derive.selfParam,
      arms := vs.map fun (vn, tys) =>
        { patPath := [n, vn], binders := enumBinders 0 tys,
          body := if tys.isEmpty then .lit (n ++ "::" ++ vn)
                  else concatParts ([.lit (n ++ "::" ++ vn ++ "(")] ++ stringEnumParts 0 tys ++ [.lit ")"]) } }

/-! ### which traits an item derives: `find_derive_attr` / `parse_derive_targets` -/

def isSpace (c : Char) : Bool := c = ' ' || c = '\t' || c = '\n' || c = '\r'

def trimStart (cs : List Char) : List Char := cs.dropWhile isSpace

def trimBoth (cs : List Char) : List Char := (trimStart (trimStart cs).reverse).reverse

def stripSuffix (p cs : List Char) : Option (List Char) :=
  match stripPrefix p.reverse cs.reverse with
  | some r => some r.reverse
  | none => none

/-- `str::split(',')` -/
def splitComma : List Char → List (List Char)
  | [] => [[]]
  | c :: cs =>
    if c = ',' then [] :: splitComma cs
    else match splitComma cs with
      | [] => [[c]]
      | x :: xs => (c :: x) :: xs

/-- `parse_derive_targets`: the attribute's text is `#[ derive ( t₁ , t₂ , … ) ]` with at least one
    non-empty target; anything else (another attribute, `#![…]`, `#[derive]`, `#[derive()]`) is no derive -/
def parseDeriveTargets (text : List Char) : Option (List (List Char)) :=
  match stripPrefix "#[".toList (trimBoth text) with
  | none => none
  | some a =>
    match stripSuffix "]".toList a with
    | none => none
    | some b =>
      match stripPrefix "derive".toList (trimBoth b) with
      | none => none
      | some c =>
        match stripPrefix "(".toList (trimStart c) with
        | none => none
        | some e =>
          match stripSuffix ")".toList e with
          | none => none
          | some f =>
            let ts := ((splitComma f).map trimBoth).filter (fun t => !t.isEmpty)
            if ts.isEmpty then none else some ts

/-- one attribute is a derive that lists the trait -/
def listsTrait (a tr : List Char) : Bool :=
  match parseDeriveTargets a with
  | some ts => ts.contains tr
  | none => false

/-- `find_derive_attr(attrs, trait).is_some()`: SOME attribute is a derive that lists the trait
    (unknown targets and other attributes are skipped silently) -/
def derivesTrait (attrs : List (List Char)) (tr : List Char) : Bool := attrs.any fun a => listsTrait a tr

/-- the impl blocks `derive::expand` appends after an item: `to_string` first, then `to_json` -/
def expandImpls (bind : Nat → String → String) (attrs : List (List Char)) (d : Def) : List GMethod :=
  (if derivesTrait attrs "ToString".toList then [genString bind d] else []) ++
  (if derivesTrait attrs "ToJson".toList then [genJson bind d] else [])

/-! ### the attribute's text: `ast/src/lower.rs::lower_attributes`

The syntax node of an attribute holds its tokens and every trivia token up to the next token of the
file (`parser.rs` attaches trailing trivia to the node that is open).  `lower_attributes` takes the text
of the node's tokens except the comment tokens.  On characters, for the token kinds an attribute is made
of (punctuation, identifiers, string literals `"…"` with `\`-escapes, whitespace, `//` comments): -/

inductive LexMode where
  | code | slash | str | esc | comment
  deriving DecidableEq, Repr

/-- drop every `//` comment (up to, not including, the end of the line) that starts outside a string
    literal; `slash` = one `/` read in code and not yet written -/
def stripComments : LexMode → List Char → List Char
  | .slash, [] => ['/']
  | _, [] => []
  | .code, c :: cs =>
    if c = '"' then c :: stripComments .str cs
    else if c = '/' then stripComments .slash cs
    else c :: stripComments .code cs
  | .slash, c :: cs =>
    if c = '/' then stripComments .comment cs
    else if c = '"' then '/' :: c :: stripComments .str cs
    else '/' :: c :: stripComments .code cs
  | .str, c :: cs =>
    if c = '\\' then c :: stripComments .esc cs
    else if c = '"' then c :: stripComments .code cs
    else c :: stripComments .str cs
  | .esc, c :: cs => c :: stripComments .str cs
  | .comment, c :: cs => if c = '\n' then c :: stripComments .code cs else stripComments .comment cs

/-- `Attribute::text` of an attribute whose syntax node has the source text `raw` -/
def attrText (raw : List Char) : List Char := stripComments .code raw

/-- `find_derive_attr` over the attributes as they stand in the source (node texts) -/
def derivesTraitSrc (raws : List (List Char)) (tr : List Char) : Bool := derivesTrait (raws.map attrText) tr

def expandImplsSrc (bind : Nat → String → String) (raws : List (List Char)) (d : Def) : List GMethod :=
  expandImpls bind (raws.map attrText) d

/-! ### what the generated bodies compute -/

/-- the runtime helpers the bodies call by name (`builtin.gom`, `go/runtime.rs`) -/
def helperSem (f : String) (v : Val) : Option (List Char) :=
  match v with
  | .str s => if f = "json_escape_string" then some (jsonQuote s) else none
  | .bool b => if f = "bool_to_json" || f = "bool_to_string" then some (if b then "true".toList else "false".toList) else none
  | .unit => if f = "unit_to_string" then some "()".toList else none
  | .int i =>
    if ["int8_to_string", "int16_to_string", "int32_to_string", "int64_to_string", "uint8_to_string", "uint16_to_string",
        "uint32_to_string", "uint64_to_string"].contains f then some (showInt i) else none
  | .float t => if f = "float32_to_string" || f = "float64_to_string" then some t else none
  | _ => none

/-- value of a generated expression under the arm's bindings: literals, a string-typed variable,
    helper calls, the derived methods of the field's own type, `+` -/
def evalG (Δ : Defs) (ρ : List (String × Val)) : GExpr → Option (List Char)
  | .lit s => some s.toList
  | .var x =>
    match ρ.find? (fun p => p.1 == x) with
    | some (_, .str s) => some s
    | _ => none
  | .callFn f (.var x) =>
    match ρ.find? (fun p => p.1 == x) with
    | some (_, v) => helperSem f v
    | none => none
  | .callFn _ _ => none
  | .callMethod (.var x) m =>
    match ρ.find? (fun p => p.1 == x) with
    | some (_, v) =>
      if m = Gen.Derive.toJsonFn then some (toJson Δ v)
      else if m = Gen.Derive.toStringFn then some (toString Δ v)
      else none
    | none => none
  | .callMethod _ _ => none
  | .concat l r =>
    match evalG Δ ρ l, evalG Δ ρ r with
    | some a, some b => some (a ++ b)
    | _, _ => none

/-- the binder choice of the derive as it is now: a struct field is bound to `__field<idx>` -/
def bindFresh (idx : Nat) (_field : String) : String := fieldBinder idx

/-- the binder choice before the fix: the field's own name -/
def bindFieldName (_idx : Nat) (field : String) : String := field

/-- every named function the body calls is not shadowed by a local (`locals` = parameter and
    pattern binders in scope), and every variable it mentions is one of those locals -/
def GExpr.scoped (locals : List String) : GExpr → Bool
  | .lit _ => true
  | .var x => locals.contains x
  | .callFn f a => !locals.contains f && a.scoped locals
  | .callMethod r _ => r.scoped locals
  | .concat l r => l.scoped locals && r.scoped locals

/-- the generated method is well-scoped: in every arm the binders are pairwise distinct (so each
    variable means the field it was generated for) and no helper call is captured -/
def GMethod.scoped (m : GMethod) : Bool :=
  m.arms.all fun a => allDistinct a.binders && a.body.scoped (a.binders ++ [m.param])

/-- hygiene against the package the impl is expanded in: `EPath` of one identifier resolves to a local, else to a
    top-level definition of the CURRENT PACKAGE (`tops`), else to a builtin (`name_resolution.rs::resolve_expr`) —
    so a function of the package spelled like a helper takes the generated call -/
def GMethod.hygienic (tops : List String) (m : GMethod) : Bool :=
  m.arms.all fun a => a.body.scoped (a.binders ++ ([m.param] ++ tops))

end Goml.Derive
