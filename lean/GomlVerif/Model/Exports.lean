/-
C14 — the link environment.  Both ways of compiling a project build the environment the later stages read
(`GlobalTypeEnv`) by `PackageExports::apply_to` (artifact.rs): one loop per map of the environment, each
`genv.<map>.insert(key, value)` for the entries of the package's exports in their order.  They differ in the
order of the packages (two different topological sorts), and the separate way reads the exports back from JSON
(an `IndexMap` is rebuilt by inserting the entries of the document in their order).

`IMap` models an `IndexMap` (insertion-ordered, `insert` replaces the value of a present key in place); keys and
values are the `Debug` renderings of the real keys / values (values as a 64-bit hash of it).
-/
namespace Goml.Exports

abbrev IMap := List (String × String)

/-- `IndexMap::insert`: the value of a present key is replaced in place, a new key goes to the end -/
def IMap.insert : IMap → String → String → IMap
  | [], k, v => [(k, v)]
  | p :: m, k, v => if p.1 = k then (p.1, v) :: m else p :: IMap.insert m k v

/-- `IndexMap::get` -/
def IMap.lookup : IMap → String → Option String
  | [], _ => none
  | p :: m, k => if p.1 = k then some p.2 else IMap.lookup m k

/-- `for (k, v) in e.iter() { g.insert(k.clone(), v.clone()) }` — one loop of `apply_to`; also what
    deserialising a map does with the entries of the document (`g` empty) -/
def IMap.extend (g e : IMap) : IMap := e.foldl (fun acc p => acc.insert p.1 p.2) g

/-- an environment: map name ↦ map (the maps of `TypeEnv`, `TraitEnv`, `ValueEnv`) -/
abbrev Env := String → IMap

/-- `PackageExports::apply_to`: the maps named in `fields` are extended, nothing else changes -/
def applyTo (fields : List String) (e g : Env) : Env :=
  fun f => if fields.contains f then (g f).extend (e f) else g f

/-- the link environment: `let mut genv = GlobalTypeEnv::new(); for pkg in order { exports.apply_to(&mut genv) }` -/
def applyAll (fields : List String) (es : List Env) (g : Env) : Env :=
  es.foldl (fun g e => applyTo fields e g) g

def keysDistinct : List String → Bool
  | [] => true
  | k :: ks => !ks.contains k && keysDistinct ks

/-- the two maps answer every lookup alike (their iteration order may differ) -/
def IMap.agree (a b : IMap) : Bool :=
  (a ++ b).all fun p => a.lookup p.1 == b.lookup p.1

def ofList (l : List (String × IMap)) : Env := fun f =>
  match l.find? (·.1 == f) with
  | some p => p.2
  | none => []

end Goml.Exports
