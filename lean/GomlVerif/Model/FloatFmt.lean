/-
Go's `%g` / `%v` rendering of float32 / float64 (`strconv.FormatFloat(x, 'g', -1, bits)`):
shortest decimal that reads back as the same float, `%e` form when the decimal exponent is
< -4 or ≥ 21 … no: ≥ 6 for the shortest format (strconv/ftoa.go: "if shortest { eprec = 6 }").
Exact integer arithmetic on the IEEE-754 bit pattern; no theorem depends on this file
(floats are validated, not proved).
-/
namespace Goml.FloatFmt

/-- value = num / den, both positive -/
structure Q where
  num : Nat
  den : Nat

def Q.le (a b : Q) : Bool := a.num * b.den ≤ b.num * a.den
def Q.lt (a b : Q) : Bool := a.num * b.den < b.num * a.den

/-- mantissa (with the implicit bit), binary exponent of the unit, for a finite non-zero value -/
def decode (bits : Nat) (mantBits expBits : Nat) : Bool × Nat × Int × Bool × Bool :=
  let total := mantBits + expBits + 1
  let neg := bits / 2 ^ (total - 1) % 2 == 1
  let expField := bits / 2 ^ mantBits % 2 ^ expBits
  let frac := bits % 2 ^ mantBits
  let bias : Int := (2 : Int) ^ (expBits - 1) - 1
  let special := expField == 2 ^ expBits - 1
  if expField == 0 then (neg, frac, 1 - bias - mantBits, special, frac == 0)
  else (neg, frac + 2 ^ mantBits, (expField : Int) - bias - mantBits, special, false)

def qOf (m : Nat) (e : Int) : Q :=
  if e ≥ 0 then ⟨m * 2 ^ e.toNat, 1⟩ else ⟨m, 2 ^ (-e).toNat⟩

def natDigits (n : Nat) : List Nat := (toString n).toList.map fun c => c.toNat - 48

/-- shortest digits and decimal point position `dp` (value = 0.d₁d₂… × 10^dp) -/
def shortest (m : Nat) (e : Int) (mantBits : Nat) (minExp : Int) : List Nat × Int := Id.run do
  let x := qOf m e
  -- rounding interval of x
  let upper := qOf (2 * m + 1) (e - 1)
  let lower := if m == 2 ^ mantBits && e > minExp then qOf (4 * m - 1) (e - 2) else qOf (2 * m - 1) (e - 1)
  let inclusive := m % 2 == 0
  let inside (d : Q) : Bool :=
    (if inclusive then lower.le d else lower.lt d) && (if inclusive then d.le upper else d.lt upper)
  -- dp with 10^(dp-1) ≤ x < 10^dp
  let mut dp : Int := 0
  let mut guard := 0
  while guard < 800 && Q.le ⟨10 ^ dp.toNat, 10 ^ (-dp).toNat⟩ x do
    dp := dp + 1; guard := guard + 1
  guard := 0
  while guard < 800 && Q.lt x ⟨10 ^ (dp - 1).toNat, 10 ^ (1 - dp).toNat⟩ do
    dp := dp - 1; guard := guard + 1
  for nd in [1:18] do
    -- scale: x / 10^(dp-nd)
    let s : Int := dp - nd
    let scaledNum := x.num * 10 ^ (-s).toNat
    let scaledDen := x.den * 10 ^ s.toNat
    let lo := scaledNum / scaledDen
    let cand (D : Nat) : Q := ⟨D * 10 ^ s.toNat, 10 ^ (-s).toNat⟩
    let okLo := lo ≥ 10 ^ (nd - 1) && inside (cand lo)
    let okHi := inside (cand (lo + 1))
    if okLo || okHi then
      -- the closer one (twice the remainder against the denominator); an exact tie goes to the even
      -- digit, as strconv does (ftoa.go roundShortest / ftoaryu.go: `cNextDigit == 5 && c0 && central&1 == 1`
      -- rounds up); found by the C18 cross-validation against Rust's shortest digits
      let rem2 := 2 * (scaledNum - lo * scaledDen)
      let pickHi := okHi && (!okLo || rem2 > scaledDen || (rem2 == scaledDen && lo % 2 == 1))
      let D := if pickHi then lo + 1 else lo
      if D == 10 ^ nd then return ([1], dp + 1)
      let ds := natDigits D
      -- strip trailing zeros
      let ds := (ds.reverse.dropWhile (· == 0)).reverse
      return (if ds.isEmpty then [0] else ds, dp)
  return (natDigits m, dp)

def digitsStr (ds : List Nat) : String := String.ofList (ds.map fun d => Char.ofNat (48 + d))

/-- `%g` with the shortest precision -/
def fmtG (neg : Bool) (ds : List Nat) (dp : Int) : String :=
  let sign := if neg then "-" else ""
  let exp := dp - 1
  if exp < -4 || exp ≥ 6 then
    let first := digitsStr (ds.take 1)
    let rest := digitsStr (ds.drop 1)
    let mant := if rest.isEmpty then first else first ++ "." ++ rest
    let e := if exp < 0 then "-" else "+"
    let ea := toString exp.natAbs
    sign ++ mant ++ "e" ++ e ++ (if ea.length < 2 then "0" ++ ea else ea)
  else if dp ≤ 0 then
    sign ++ "0." ++ String.ofList (List.replicate (-dp).toNat '0') ++ digitsStr ds
  else if ds.length ≤ dp.toNat then
    sign ++ digitsStr ds ++ String.ofList (List.replicate (dp.toNat - ds.length) '0')
  else
    sign ++ digitsStr (ds.take dp.toNat) ++ "." ++ digitsStr (ds.drop dp.toNat)

def formatBits (bits : Nat) (mantBits expBits : Nat) : String :=
  let (neg, m, e, special, zero) := decode bits mantBits expBits
  if special then
    (if bits % 2 ^ mantBits != 0 then "NaN" else if neg then "-Inf" else "+Inf")
  else if zero then (if neg then "-0" else "0")
  else
    let bias : Int := (2 : Int) ^ (expBits - 1) - 1
    let (ds, dp) := shortest m e mantBits (1 - bias - mantBits)
    fmtG neg ds dp

/-- `%g` / `%v` of a value held as a binary64 `Float`; `bits = 32` renders the float32 it rounds to -/
def goFormat (bits : Nat) (x : Float) : String :=
  if bits == 32 then formatBits x.toFloat32.toBits.toNat 23 8
  else formatBits x.toBits.toNat 52 11

end Goml.FloatFmt
