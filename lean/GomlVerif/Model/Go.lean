/-
The Go subset the backend emits (`go/goast.rs`, `go/goty.rs`), as data.
-/
namespace Goml.Go

inductive GTy where
  | void | unit | bool
  | int (bits : Nat) (signed : Bool)
  | float (bits : Nat)
  | string
  | struct (name : String) (fields : List (String × GTy))
  | ptr (e : GTy)
  | func (ps : List GTy) (r : GTy)
  | name (n : String)
  | array (len : Nat) (e : GTy)
  | slice (e : GTy)
  deriving Repr, Inhabited, BEq

inductive GUn where
  | neg | not | addr | deref
  deriving Repr, Inhabited, BEq, DecidableEq

inductive GBin where
  | add | sub | mul | div | less | greater | lessEq | greaterEq | eq | notEq | and | or
  deriving Repr, Inhabited, BEq, DecidableEq

mutual
inductive GExpr where
  | nil (ty : GTy)
  | voidv (ty : GTy)
  | unitv (ty : GTy)
  | var (x : String) (ty : GTy)
  | bool (b : Bool)
  | int (text : String) (ty : GTy)
  | float (repr : UInt64) (ty : GTy)
  | str (s : String)
  | call (ty : GTy) (f : GExpr) (args : List GExpr)
  | un (op : GUn) (ty : GTy) (e : GExpr)
  | bin (op : GBin) (ty : GTy) (l r : GExpr)
  | field (f : String) (ty : GTy) (obj : GExpr)
  | index (ty : GTy) (arr idx : GExpr)
  | cast (ty : GTy) (e : GExpr)
  | slit (ty : GTy) (fields : List GField)
  | alit (ty : GTy) (elems : List GExpr)
  | blocke (ty : GTy) (stmts : List GStmt) (e : Option GExpr)
inductive GField where
  | mk (name : String) (e : GExpr)
inductive GStmt where
  | expr (e : GExpr)
  | go (call : GExpr)
  | varDecl (x : String) (ty : GTy) (v : Option GExpr)
  | assign (x : String) (v : GExpr)
  | fieldAssign (target v : GExpr)
  | ptrAssign (p v : GExpr)
  | indexAssign (arr idx v : GExpr)
  | ret (e : Option GExpr)
  | ite (c : GExpr) (t : List GStmt) (e : Option (List GStmt))
  | loop (body : List GStmt)
  | brk
  | switch (e : GExpr) (cases : List GCase) (dflt : Option (List GStmt))
  | tswitch (bind : Option String) (e : GExpr) (cases : List GTCase) (dflt : Option (List GStmt))
inductive GCase where
  | mk (v : GExpr) (body : List GStmt)
inductive GTCase where
  | mk (ty : GTy) (body : List GStmt)
end

instance : Inhabited GExpr := ⟨.unitv .unit⟩

structure GFunc where
  name : String
  params : List (String × GTy)
  ret : Option GTy
  body : List GStmt
  deriving Inhabited

structure GMethod where
  recvName : String
  recvTy : GTy
  name : String
  params : List (String × GTy)
  body : List GStmt
  deriving Inhabited

/-- the static type the backend annotated an expression with -/
def staticTy : GExpr → GTy
  | .nil t | .voidv t | .unitv t | .var _ t | .int _ t | .float _ t | .call t _ _ | .un _ t _
  | .bin _ t _ _ | .field _ t _ | .index t _ _ | .cast t _ | .slit t _ | .alit t _ | .blocke t _ _ => t
  | .bool _ => .bool
  | .str _ => .string

def isPtrTy : GTy → Bool
  | .ptr _ => true
  | _ => false


inductive GItem where
  | package (n : String)
  | imports (specs : List (String × String))
  | interface (name : String) (methods : List (String × List (String × GTy) × Option GTy))
  | structDef (name : String) (fields : List (String × GTy)) (methods : List GMethod)
  | alias (name : String) (ty : GTy)
  | func (f : GFunc)
  deriving Inhabited

structure GFile where
  items : List GItem
  deriving Inhabited

def GFile.funcs (f : GFile) : List GFunc :=
  f.items.filterMap fun | .func g => some g | _ => none

def GFile.findFunc (f : GFile) (n : String) : Option GFunc := f.funcs.find? (·.name == n)

def GFile.interfaces (f : GFile) : List String :=
  f.items.filterMap fun | .interface n _ => some n | _ => none

/-- method-set rule for a type assertion `x.(I)`: does the struct type `s` have every method of the
    interface `i`? -/
def GFile.structImplements (f : GFile) (s i : String) : Bool :=
  match f.items.findSome? (fun | .interface n ms => if n == i then some (ms.map (·.1)) else none | _ => none) with
  | some wanted =>
    let have_ := (f.items.findSome? (fun | .structDef m _ ms => if m == s then some (ms.map (·.name)) else none | _ => none)).getD []
    wanted.all have_.contains
  | none => false

def GFile.structFields (f : GFile) (n : String) : Option (List (String × GTy)) :=
  f.items.findSome? fun | .structDef m fs _ => if m == n then some fs else none | _ => none

end Goml.Go
