import GomlVerif.Model.Go
/-
The rules `go build` / `go vet` enforce on the emitted subset, as a checker over `GFile`:
declared once per scope and before use, typed assignment / call / return / composite literal,
interface satisfaction by method set, unused locals and imports, expression statements are
calls, functions with results end in a terminating statement, identifiers legal.
Our reading of the Go specification; part of the trusted base, validated on the corpus
(every corpus `.go` file was accepted by the real Go compiler).
-/
namespace Goml.Go

structure GoErr where
  code : String
  site : String
  detail : String := ""
  deriving Repr, BEq, Inhabited

def goKeywords : List String :=
  ["break", "case", "chan", "const", "continue", "default", "defer", "else", "fallthrough", "for",
   "func", "go", "goto", "if", "import", "interface", "map", "package", "range", "return",
   "select", "struct", "switch", "type", "var"]

def isIdentStart (c : Char) : Bool := c.isAlpha || c == '_' || c.toNat ≥ 128
def isIdentChar (c : Char) : Bool := c.isAlphanum || c == '_' || c.toNat ≥ 128

/-- the name an import spec binds in the file scope: its alias, else the last path segment
    (a spec is `(alias or "-", path)` as dumped by `godump.rs`) -/
def importBinding (spec : String × String) : String :=
  if spec.1 != "-" then spec.1 else (spec.2.splitOn "/").getLast!

def legalIdent (s : String) : Bool :=
  match s.toList with
  | [] => false
  | c :: cs => isIdentStart c && cs.all isIdentChar && !goKeywords.contains s

/-- canonical form: a struct type is referred to by its name -/
partial def norm : GTy → GTy
  | .struct n _ => .name n
  | .ptr e => .ptr (norm e)
  | .func ps r => .func (ps.map norm) (norm r)
  | .array n e => .array n (norm e)
  | .slice e => .slice (norm e)
  | t => t

def tyEq (a b : GTy) : Bool := norm a == norm b

/-- the type names a type mentions (`.struct n _` is a reference to the declared struct `n`) -/
partial def tyNames : GTy → List String
  | .struct n _ => [n]
  | .name n => [n]
  | .ptr e => tyNames e
  | .func ps r => ps.flatMap tyNames ++ tyNames r
  | .array _ e => tyNames e
  | .slice e => tyNames e
  | _ => []

/-- is `n` a type the file may mention: declared in it (struct, interface, alias), predeclared, or qualified by a
    package (`time.Duration`: whether that package is imported is the import rules' business) -/
def typeNameKnown (declared : List String) (n : String) : Bool :=
  declared.contains n || n == "any" || n == "error" || n.contains '.'

structure FnSig where
  params : List GTy
  ret : GTy
  variadic : Bool := false
  deriving Inhabited

structure Ctx where
  file : GFile
  funcs : List (String × FnSig)
  structs : List (String × List (String × GTy) × List String)   -- fields, method names
  ifaces : List (String × List String)
  /-- every type name the file declares (struct, interface, alias) -/
  typeNames : List String := []
  deriving Inhabited

def Ctx.isIface (c : Ctx) (t : GTy) : Option (List String) :=
  match norm t with
  | .name "any" => some []
  | .name n => (c.ifaces.find? (·.1 == n)).map (·.2)
  | _ => none

/-- assignability of a value of type `v` to a location of type `t` -/
def assignable (c : Ctx) (t v : GTy) : Bool :=
  if tyEq t v then true else
  match c.isIface t with
  | some ms =>
    match norm v with
    | .name n =>
      match c.structs.find? (·.1 == n) with
      | some (_, _, methods) => ms.all methods.contains
      | none => ms.isEmpty || (c.isIface v).isSome
    | _ => ms.isEmpty
  | none => false

/-- a numeric literal, or an arithmetic expression of numeric literals: in Go an **untyped constant**.  The Go AST carries a
    type annotation on every literal, the printed text does not (`42`, `0.5`). -/
def untypedConst : GExpr → Bool
  | .int _ _ => true
  | .float _ _ => true
  | .un .neg _ e => untypedConst e
  | .bin op _ l r => (op == .add || op == .sub || op == .mul || op == .div) && untypedConst l && untypedConst r
  | _ => false

def isNilable (c : Ctx) (t : GTy) : Bool :=
  match norm t with
  | .ptr _ | .slice _ | .func _ _ => true
  | t => (c.isIface t).isSome

def isNumeric : GTy → Bool
  | .int _ _ | .float _ => true
  | _ => false

def isOrdered : GTy → Bool
  | .int _ _ | .float _ | .string => true
  | _ => false

partial def comparable (c : Ctx) (t : GTy) : Bool :=
  match norm t with
  | .bool | .int _ _ | .float _ | .string | .unit | .ptr _ => true
  | .array _ e => comparable c e
  | .name n =>
    match c.structs.find? (·.1 == n) with
    | some (_, fs, _) => fs.all fun (_, ft) => comparable c ft
    | none => true
  | _ => false

structure Scope where
  /-- innermost first: (name, type, used, depth) -/
  vars : List (String × GTy × Bool × Nat) := []
  depth : Nat := 0
  errs : List GoErr := []
  usedPkgs : List String := []
  deriving Inhabited

def Scope.err (s : Scope) (code site : String) (detail : String := "") : Scope :=
  { s with errs := s.errs ++ [{ code, site, detail }] }

/-- **`untyped-constant-in-interface`**: an untyped numeric constant stored where an interface type (`any`, the `data` field of
    a trait object, an enum's interface) is expected takes Go's *default* type — `int`, `float64` — not the type the Go AST
    annotates the literal with: `var x any = 42` holds an `int`, and a later assertion `x.(int32)` panics.  Real Go accepts
    the program; the rule flags the place where its behaviour differs from what the annotated AST (and `Go.Sem`) says. -/
def intFits (bits : Nat) (signed : Bool) (v : Int) : Bool :=
  if signed then -(2 : Int) ^ (bits - 1) ≤ v && v < (2 : Int) ^ (bits - 1) else 0 ≤ v && v < (2 : Int) ^ bits

/-- the value of an **integer constant expression** as the back end can emit one: an integer literal (the text may carry a
    sign: `-127`), unary minus on one (the Go AST has no parenthesis node: `(-1)` is the same tree).  Constant arithmetic
    (`127 + 1`) is C10's matter (`Model/GoConst.lean`, known findings there) and is not evaluated here. -/
def intConst : GExpr → Option Int
  | .int text _ => text.toInt?
  | .un .neg _ e => (intConst e).map (- ·)
  | _ => none

def goIntName (bits : Nat) (signed : Bool) : String := (if signed then "int" else "uint") ++ toString bits

/-- **`constant-overflows`** at a typed position (Go spec, "Constants" / "Representability": a constant `x` can be assigned
    to, passed as, returned as, stored in or compared with a value of type `T` only if `x` is representable by a value of
    `T`): the printed Go shows the bare constant (`var max uint64 = -1`), so what Go judges is the constant's VALUE at the
    TARGET type `t` — not the annotation the AST keeps on the literal.  A bare literal whose annotation is the target type
    has been judged by `tyOf` already (same code, detail = the text) and is not reported twice. -/
def constOverflow (b : Nat) (sg : Bool) (e : GExpr) : Option Int :=
  match intConst e with
  | some v => if intFits b sg v then none else some v
  | none => none

def Scope.constFits (s : Scope) (fn : String) (t : GTy) (e : GExpr) (what : String) : Scope :=
  match norm t with
  | .int b sg =>
    match constOverflow b sg e with
    | some v =>
      let judgedByTyOf := match e with
        | .int _ a => tyEq a t
        | _ => false
      if judgedByTyOf then s
      else s.err "constant-overflows" fn (toString v ++ " at " ++ goIntName b sg ++ " (" ++ what ++ ")")
    | none => s
  | _ => s

def Scope.constIface (s : Scope) (c : Ctx) (fn : String) (t : GTy) (e : GExpr) (what : String) : Scope :=
  let s := s.constFits fn t e what
  if (c.isIface t).isSome && untypedConst e then s.err "untyped-constant-in-interface" fn what else s

def Scope.lookup (s : Scope) (x : String) : Option GTy :=
  (s.vars.find? (·.1 == x)).map (·.2.1)

def markUsed : List (String × GTy × Bool × Nat) → String → List (String × GTy × Bool × Nat)
  | [], _ => []
  | (y, t, u, d) :: rest, x => if y == x then (y, t, true, d) :: rest else (y, t, u, d) :: markUsed rest x

def Scope.use (s : Scope) (x : String) : Scope := { s with vars := markUsed s.vars x }

def Scope.declare (s : Scope) (fn x : String) (t : GTy) (isParam : Bool := false) : Scope :=
  let s := if !legalIdent x && x != "_" then s.err "illegal-identifier" fn x else s
  if x == "_" then s else
  match s.vars.find? (fun v => v.1 == x && v.2.2.2 == s.depth) with
  | some _ => s.err "redeclared" fn x
  | none => { s with vars := (x, t, isParam, s.depth) :: s.vars }

def Scope.push (s : Scope) : Scope := { s with depth := s.depth + 1 }

def Scope.pop (s : Scope) (fn : String) : Scope :=
  let gone := s.vars.filter (·.2.2.2 == s.depth)
  let s := gone.foldl (fun s v => if !v.2.2.1 then s.err "unused-variable" fn v.1 else s) s
  { s with vars := s.vars.filter (·.2.2.2 != s.depth), depth := s.depth - 1 }

def builtinSig (name : String) : Option FnSig :=
  match name with
  | "fmt.Sprintf" => some { params := [.string], ret := .string, variadic := true }
  | "strings.ReplaceAll" => some { params := [.string, .string, .string], ret := .string }
  | "fmt.Print" | "fmt.Println" => some { params := [], ret := .void, variadic := true }
  | "println" => some { params := [], ret := .void, variadic := true }
  | "panic" => some { params := [.name "any"], ret := .void }
  | _ => none

def convTarget (name : String) : Option GTy :=
  match name with
  | "int8" => some (.int 8 true) | "int16" => some (.int 16 true) | "int32" => some (.int 32 true)
  | "int64" => some (.int 64 true) | "uint8" => some (.int 8 false) | "uint16" => some (.int 16 false)
  | "uint32" => some (.int 32 false) | "uint64" => some (.int 64 false)
  | "float32" => some (.float 32) | "float64" => some (.float 64) | "string" => some .string
  | _ => none

def pkgOf (name : String) : Option String :=
  match name.splitOn "." with
  | [p, _] => some p
  | _ => none

mutual
/-- type of an expression (`none` after an error has been recorded) -/
partial def tyOf (c : Ctx) (fn : String) (s : Scope) (e : GExpr) : Scope × Option GTy :=
  match e with
  | .nil t => (s, some t)
  | .voidv _ => (s, some .void)
  | .unitv _ => (s, some .unit)
  | .bool _ => (s, some .bool)
  | .str _ => (s, some .string)
  | .int text t =>
    match text.toInt?, t with
    | some v, .int b sg =>
      if intFits b sg v then (s, some t) else (s.err "constant-overflows" fn text, some t)
    | some _, _ => (s.err "int-literal-at-non-integer-type" fn text, none)
    | none, _ => (s.err "malformed-int-literal" fn text, none)
  | .float _ t => (s, some t)
  | .var x ann =>
    match s.lookup x with
    | some t => (s.use x, some t)
    | none =>
      match c.funcs.find? (·.1 == x) with
      | some (_, sg) => (s, some (.func sg.params sg.ret))
      | none =>
        match builtinSig x with
        | some sg =>
          let s := match pkgOf x with
            | some p => { s with usedPkgs := p :: s.usedPkgs }
            | none => s
          (s, some (.func sg.params sg.ret))
        | none =>
          -- `extern "go"` items: typed from their declared goml signature only (the annotation)
          match pkgOf x with
          | some p =>
            if c.file.items.any (fun | .imports specs => specs.any (fun sp => importBinding sp == p) | _ => false)
            then ({ s with usedPkgs := p :: s.usedPkgs }, some ann)
            else (s.err "undeclared" fn x, none)
          | none => (s.err "undeclared" fn x, none)
  | .call _ f args =>
    -- conversions spelled as calls, and the untyped builtins
    match f with
    | .var name _ =>
      if (s.lookup name).isNone && (c.funcs.find? (·.1 == name)).isNone then
        match convTarget name, args with
        | some t, [a] =>
          let (s, _) := tyOf c fn s a
          (s, some t)
        | _, _ =>
          match name, args with
          | "len", [a] =>
            let (s, ta) := tyOf c fn s a
            match ta.map norm with
            | some .string | some (.slice _) | some (.array _ _) | none => (s, some (.int 64 true))
            | some _ => (s.err "len-of-unsized" fn, some (.int 64 true))
          | "append", a :: rest =>
            let (s, ta) := tyOf c fn s a
            let s := rest.foldl (fun s r =>
              let (s, tr) := tyOf c fn s r
              match ta.map norm, tr with
              | some (.slice el), some tr =>
                if assignable c el tr then s.constIface c fn el r "append element" else s.err "append-element-mismatch" fn
              | _, _ => s) s
            (s, ta)
          | _, _ => callOf c fn s f args
      else callOf c fn s f args
    | _ => callOf c fn s f args
  | .un op _ e =>
    let (s, t) := tyOf c fn s e
    match op, t with
    | .neg, some t => if isNumeric (norm t) then (s, some t) else (s.err "neg-non-numeric" fn, none)
    | .not, some t => if tyEq t .bool then (s, some .bool) else (s.err "not-non-bool" fn, none)
    | .addr, some t => (s, some (.ptr t))
    | .deref, some t =>
      match norm t with
      | .ptr e => (s, some e)
      | _ => (s.err "deref-non-pointer" fn, none)
    | _, none => (s, none)
  | .bin op _ l r =>
    let (s, tl) := tyOf c fn s l
    let (s, tr) := tyOf c fn s r
    match tl, tr with
    | some tl, some tr =>
      if !tyEq tl tr then (s.err "operand-type-mismatch" fn (reprStr (norm tl) ++ " vs " ++ reprStr (norm tr)), none) else
      -- a constant operand against a typed (non-constant) operand is converted to that operand's type: it must be
      -- representable there (`x > -1` with `x uint64`); two constants are an untyped constant expression (C10's matter)
      let s := if (intConst l).isSome == (intConst r).isSome then s
               else if (intConst r).isSome then s.constFits fn tl r "operand" else s.constFits fn tr l "operand"
      match op with
      | .add => if isNumeric (norm tl) || tyEq tl .string then (s, some tl) else (s.err "add-unsupported" fn, none)
      | .sub | .mul | .div => if isNumeric (norm tl) then (s, some tl) else (s.err "arith-non-numeric" fn, none)
      | .less | .greater | .lessEq | .greaterEq =>
        if isOrdered (norm tl) then (s, some .bool) else (s.err "order-unsupported" fn, none)
      | .eq | .notEq => if comparable c tl then (s, some .bool) else (s.err "not-comparable" fn, none)
      | .and | .or => if tyEq tl .bool then (s, some .bool) else (s.err "logic-non-bool" fn, none)
    | _, _ => (s, none)
  | .field f _ obj =>
    let (s, t) := tyOf c fn s obj
    match t.map norm with
    | some (.name n) | some (.ptr (.name n)) =>
      match c.structs.find? (·.1 == n) with
      | some (_, fs, _) =>
        match fs.find? (·.1 == f) with
        | some (_, ft) => (s, some ft)
        | none => (s.err "no-such-field" fn (n ++ "." ++ f), none)
      | none => (s.err "field-of-non-struct" fn n, none)
    | some _ => (s.err "field-of-non-struct" fn, none)
    | none => (s, none)
  | .index _ arr idx =>
    let (s, ta) := tyOf c fn s arr
    let (s, ti) := tyOf c fn s idx
    let s := match ti.map norm with
      | some (.int _ _) | none => s
      | some _ => s.err "non-integer-index" fn
    match ta.map norm with
    | some (.array _ e) | some (.slice e) => (s, some e)
    | some .string => (s, some (.int 8 false))
    | some _ => (s.err "index-of-non-indexable" fn, none)
    | none => (s, none)
  | .cast t e =>
    let (s, te) := tyOf c fn s e
    match te with
    | some te =>
      if (c.isIface te).isSome then (s, some t)                         -- type assertion
      else if (isNumeric (norm t) && isNumeric (norm te)) || tyEq t te then (s, some t)
      else if tyEq t .string && (match norm te with | .int _ _ | .string => true | _ => false) then (s, some t)
      else (s.err "invalid-conversion" fn, some t)
    | none => (s, some t)
  | .slit t fields =>
    match norm t with
    | .name n =>
      match c.structs.find? (·.1 == n) with
      | some (_, fs, _) =>
        let s := fields.foldl (fun s fld =>
          match fld with
          | .mk f e =>
            let (s, te) := tyOf c fn s e
            match fs.find? (·.1 == f), te with
            | some (_, ft), some te =>
              if assignable c ft te then s.constIface c fn ft e ("field " ++ n ++ "." ++ f)
              else s.err "assign-mismatch" fn ("field " ++ n ++ "." ++ f ++ ": want " ++ reprStr (norm ft) ++ " got " ++ reprStr (norm te))
            | none, _ => s.err "no-such-field" fn (n ++ "." ++ f)
            | _, none => s) s
        (s, some t)
      | none => (s.err "literal-of-undeclared-type" fn n, some t)
    | _ => (s.err "struct-literal-of-non-struct" fn, some t)
  | .alit t elems =>
    let el := match norm t with | .array _ e => some e | .slice e => some e | _ => none
    let s := match norm t, el with
      | .array n _, _ => if n != elems.length && !elems.isEmpty then s.err "array-literal-length" fn else s
      | _, _ => s
    let s := elems.foldl (fun s e =>
      let (s, te) := tyOf c fn s e
      match el, te with
      | some el, some te =>
        if assignable c el te then s.constIface c fn el e "array element"
        else s.err "assign-mismatch" fn ("array element: want " ++ reprStr (norm el) ++ " got " ++ reprStr (norm te))
      | _, _ => s) s
    (s, some t)
  | .blocke t _ _ => (s.err "outside-subset" fn "block expression", some t)

partial def callOf (c : Ctx) (fn : String) (s : Scope) (f : GExpr) (args : List GExpr) : Scope × Option GTy :=
  let (s, tf) := tyOf c fn s f
  let (s, targs) := args.foldl (fun (acc : Scope × List (Option GTy)) a =>
    let (s, t) := tyOf c fn acc.1 a
    (s, acc.2 ++ [t])) (s, [])
  let variadic := match f with
    | .var name _ => ((builtinSig name).map FnSig.variadic).getD false && (s.lookup name).isNone
    | _ => false
  match tf.map norm with
  | some (.func ps r) =>
    if variadic then
      if targs.length < ps.length then (s.err "too-few-arguments" fn, some r) else (s, some r)
    else if ps.length != targs.length then (s.err "argument-count" fn, some r)
    else
      let s := (ps.zip (targs.zip args)).foldl (fun (s : Scope) (pa : GTy × Option GTy × GExpr) =>
        let (p, a, ea) := pa
        match a with
        | some a =>
          if assignable c p a then s.constIface c fn p ea "call argument"
          else s.err "assign-mismatch" fn ("call argument: want " ++ reprStr (norm p) ++ " got " ++ reprStr (norm a))
        | none => s) s
      (s, some r)
  | some _ => (s.err "call-of-non-function" fn, none)
  | none => (s, none)
end

/-- does a statement list end in a terminating statement (Go spec "Terminating statements") -/
partial def terminates : List GStmt → Bool
  | [] => false
  | ss =>
    match ss.getLast? with
    | some (.ret _) => true
    | some (.expr (.call _ (.var "panic" _) _)) => true
    | some (.ite _ t (some e)) => terminates t && terminates e
    | some (.loop body) => !hasBreak body
    | some (.switch _ cases (some d)) => terminates d && cases.all fun | .mk _ b => terminates b
    | some (.tswitch _ _ cases (some d)) => terminates d && cases.all fun | .mk _ b => terminates b
    | _ => false
where
  hasBreak : List GStmt → Bool
    | [] => false
    | .brk :: _ => true
    | .ite _ t e :: rest => hasBreak t || (e.map hasBreak).getD false || hasBreak rest
    | .switch _ cs d :: rest =>
      -- a break inside a switch leaves the switch, not the loop
      let _ := cs; let _ := d
      hasBreak rest
    | .tswitch _ _ cs d :: rest => let _ := cs; let _ := d; hasBreak rest
    | _ :: rest => hasBreak rest

mutual
partial def checkStmt (c : Ctx) (fn : String) (ret : Option GTy) (s : Scope) (st : GStmt) : Scope :=
  match st with
  | .expr e =>
    match e with
    | .call _ _ _ => (tyOf c fn s e).1
    | _ => (tyOf c fn s e).1.err "expression-statement-not-a-call" fn
  | .go call =>
    match call with
    | .call _ _ _ => (tyOf c fn s call).1
    | _ => s.err "go-needs-call" fn
  | .varDecl x t v =>
    let s := (tyNames t).foldl (fun s n =>
      if typeNameKnown c.typeNames n then s else s.err "undeclared-type" fn n) s
    let s := match v with
      | some e =>
        let (s, te) := tyOf c fn s e
        match te with
        | some te =>
          if tyEq te .void then s.err "void-value-used" fn x
          else if (match e with | .nil _ => true | _ => false) then
            (if isNilable c t then s else s.err "nil-to-non-nilable" fn x)
          else if assignable c t te then s.constIface c fn t e ("var " ++ x)
          else s.err "assign-mismatch" fn ("var " ++ x ++ ": want " ++ reprStr (norm t) ++ " got " ++ reprStr (norm te))
        | none => s
      | none => s
    let s := match norm t with
      | .array n _ => if n > 100000000 then s.err "array-too-long" fn x else s
      | _ => s
    s.declare fn x t
  | .assign x e =>
    let (s, te) := tyOf c fn s e
    if x == "_" then s else
    match s.lookup x, te with
    | some t, some te =>
      if tyEq te .void then s.err "void-value-used" fn x
      else if assignable c t te then s.constIface c fn t e ("assign " ++ x)
      else s.err "assign-mismatch" fn ("assign " ++ x ++ ": want " ++ reprStr (norm t) ++ " got " ++ reprStr (norm te))
    | none, _ => s.err "undeclared" fn x
    | _, none => s
  | .fieldAssign target e =>
    let (s, tt) := tyOf c fn s target
    let (s, te) := tyOf c fn s e
    match tt, te with
    | some tt, some te =>
      if assignable c tt te then s.constIface c fn tt e "field assignment" else s.err "assign-mismatch" fn "field assignment"
    | _, _ => s
  | .ptrAssign p e =>
    let (s, tp) := tyOf c fn s p
    let (s, te) := tyOf c fn s e
    match tp.map norm, te with
    | some (.ptr el), some te =>
      if assignable c el te then s.constIface c fn el e "pointer assignment" else s.err "assign-mismatch" fn "pointer assignment"
    | some _, _ => s.err "deref-non-pointer" fn
    | _, _ => s
  | .indexAssign arr idx e =>
    let (s, ta) := tyOf c fn s arr
    let (s, _) := tyOf c fn s idx
    let (s, te) := tyOf c fn s e
    match ta.map norm, te with
    | some (.array _ el), some te | some (.slice el), some te =>
      if assignable c el te then s.constIface c fn el e "index assignment" else s.err "assign-mismatch" fn "index assignment"
    | _, _ => s
  | .ret e =>
    match e, ret with
    | none, none => s
    | none, some _ => s.err "missing-return-value" fn
    | some e, none => (tyOf c fn s e).1.err "unexpected-return-value" fn
    | some e, some rt =>
      let (s, te) := tyOf c fn s e
      match te with
      | some te =>
        if assignable c rt te then s.constIface c fn rt e "return"
        else s.err "assign-mismatch" fn ("return: want " ++ reprStr (norm rt) ++ " got " ++ reprStr (norm te))
      | none => s
  | .ite cnd t e =>
    let (s, tc) := tyOf c fn s cnd
    let s := match tc with
      | some tc => if tyEq tc .bool then s else s.err "non-bool-condition" fn
      | none => s
    let s := checkBlock c fn ret s t
    match e with
    | some e => checkBlock c fn ret s e
    | none => s
  | .loop body => checkBlock c fn ret s body
  | .brk => s
  | .switch e cases d =>
    let (s, te) := tyOf c fn s e
    let s := cases.foldl (fun s cs =>
      match cs with
      | .mk v b =>
        let (s, tv) := tyOf c fn s v
        let s := match te, tv with
          | some te, some tv => if tyEq te tv then s else s.err "case-type-mismatch" fn
          | _, _ => s
        checkBlock c fn ret s b) s
    match d with
    | some d => checkBlock c fn ret s d
    | none => s
  | .tswitch bind e cases d =>
    let (s, te) := tyOf c fn s e
    let s := match te with
      | some te => if (c.isIface te).isSome then s else s.err "type-switch-on-non-interface" fn
      | none => s
    let s := cases.foldl (fun s cs =>
      match cs with
      | .mk t b =>
        let s := s.push
        let s := match bind with
          | some x => { (s.declare fn x t) with vars := markUsed (s.declare fn x t).vars x }
          | none => s
        let s := b.foldl (checkStmt c fn ret) s
        s.pop fn) s
    match d with
    | some d => checkBlock c fn ret s d
    | none => s

partial def checkBlock (c : Ctx) (fn : String) (ret : Option GTy) (s : Scope) (b : List GStmt) : Scope :=
  ((b.foldl (checkStmt c fn ret) s.push)).pop fn
end

def mkCtx (f : GFile) : Ctx :=
  { file := f,
    funcs := f.funcs.map fun g => (g.name, { params := g.params.map (·.2), ret := g.ret.getD .void }),
    structs := f.items.filterMap fun
      | .structDef n fs ms => some (n, fs, ms.map (·.name))
      | _ => none,
    ifaces := f.items.filterMap fun
      | .interface n ms => some (n, ms.map (·.1))
      | _ => none,
    typeNames := f.items.filterMap fun
      | .structDef n _ _ => some n
      | .interface n _ => some n
      | .alias n _ => some n
      | _ => none }

def dupNames (xs : List String) : List String :=
  (xs.foldl (fun (acc : List String × List String) x =>
    if acc.1.contains x then (acc.1, if acc.2.contains x then acc.2 else acc.2 ++ [x]) else (x :: acc.1, acc.2)) ([], [])).2

def check (f : GFile) : List GoErr :=
  let c := mkCtx f
  let topNames := f.items.filterMap fun
    | .func g => some g.name
    | .structDef n _ _ => some n
    | .interface n _ => some n
    | .alias n _ => some n
    | _ => none
  let errs : List GoErr := (dupNames topNames).map fun n => { code := "redeclared", site := "top-level", detail := n }
  let errs := errs ++ (topNames.filter (fun n => !legalIdent n)).map fun n =>
    { code := "illegal-identifier", site := "top-level", detail := n }
  -- every type a declaration mentions is declared (a function signature, a struct field, an alias target,
  -- an interface method); variable declarations are checked with their statement
  let mentioned : List (String × GTy) := f.items.flatMap fun
    | .func g => g.params.map (fun p => (g.name, p.2)) ++ (match g.ret with | some r => [(g.name, r)] | none => [])
    | .structDef n fs ms => fs.map (fun fl => (n, fl.2)) ++
        ms.flatMap (fun m => (n ++ "." ++ m.name, m.recvTy) :: m.params.map (fun p => (n ++ "." ++ m.name, p.2)))
    | .alias n t => [(n, t)]
    | .interface n ms => ms.flatMap (fun m => m.2.1.map (fun p => (n ++ "." ++ m.1, p.2)) ++
        (match m.2.2 with | some r => [(n ++ "." ++ m.1, r)] | none => []))
    | _ => []
  let errs := errs ++ mentioned.flatMap fun (site, t) =>
    ((tyNames t).filter (fun n => !typeNameKnown c.typeNames n)).map fun n =>
      { code := "undeclared-type", site := site, detail := n }
  let (errs, used) := f.funcs.foldl (fun (acc : List GoErr × List String) g =>
    let s0 : Scope := {}
    let s := g.params.foldl (fun s (x, t) => s.declare g.name x t true) s0
    let s := checkBlock c g.name g.ret s g.body
    let s := if g.ret.isSome && !terminates g.body then s.err "missing-return" g.name else s
    (acc.1 ++ s.errs, acc.2 ++ s.usedPkgs)) (errs, [])
  let imports := f.items.flatMap fun
    | .imports specs => specs
    | _ => []
  errs ++ (imports.filter (fun sp => !used.contains (importBinding sp))).map fun sp =>
    { code := "unused-import", site := "imports", detail := sp.2 }

end Goml.Go
