import GomlVerif.Model.Syntax
import GomlVerif.Model.Go
import GomlVerif.Model.Mangle
import GomlVerif.Model.Mono
import GomlVerif.Gen.TyConsts
/-!
Model of the Go back end `crates/compiler/src/go/compile.rs` (ANF → Go AST) together with the
parts of `go/runtime.rs`, `go/goast.rs` (`tast_ty_to_go_type`) and `anf.rs::anf_renamer` that
`go_file` runs, up to — and not including — `dce::eliminate_dead_vars` (that pass is
`Model/Dce.lean`; `goFile` below composes the two).

Input: the ANF data types of `anf.rs` *with every `ty` field* (`Imm`, `CExpr`, `AExpr`, `AArm`):
the shared dump of `harness/src/dump.rs` omits the annotation of `ALet`, `EIf`, `EWhile`, `EGo`,
`ImmPrim`, and `compile.rs` reads them (`cexpr_ty`, `imm_ty`, `collect_runtime_types`), so the
model works on the annotated tree; `toExpr` erases it to the unified `Syntax.Expr` on which `Sem`
is defined (the same mapping `dump.rs` performs).

Conventions.
* Where the Rust panics the model computes a placeholder and clears the `ok` flag that is threaded
  beside the `Gensym` counter (`St`); `goFilePre` answers `none` when the flag is cleared anywhere.
* `anf_renamer::rename` (every `/` in a variable, binder or parameter name becomes `__`) is fused
  into the name functions: `vn x = go_ident(rename x)`; tests on callee names (`"ref"`, `"missing"`,
  …) are made on the renamed name, as in the Rust where they run after the renaming pass.
* `compile_aexpr` (the lowering with `return` in the branches) is dead code: `compile_fn` takes
  it only when `tast_ty_to_go_type(ret_ty)` is `TVoid`, which that function never returns.  It is
  not modelled; `compileFn` is the `_` arm.
* `Gensym`: one counter for the file, threaded through `compileFn` in function order; `ret<n>` is
  taken before the body is compiled, `cond<n>` when `compile_while` is entered.
Import-free apart from other `Model/` and `Gen/` files, so that `gomlmodel` links.
-/
namespace Goml.GoCompile
open Goml Goml.Go

/-! ## annotated ANF (`anf.rs`: `ImmExpr`, `CExpr`, `AExpr`, `Arm`, `Fn`, `File`) -/

inductive Imm where
  | var (x : String) (ty : Ty)
  | prim (p : Prim) (ty : Ty)
  | tag (idx : Nat) (ty : Ty)
  deriving Inhabited

mutual
inductive CExpr where
  | imm (i : Imm)
  | constr (c : Ctor) (args : List Imm) (ty : Ty)
  | tuple (items : List Imm) (ty : Ty)
  | array (items : List Imm) (ty : Ty)
  | matchE (scrut : Imm) (arms : List AArm) (dflt : ADflt) (ty : Ty)
  | ite (c : Imm) (t e : AExpr) (ty : Ty)
  | while (c b : AExpr) (ty : Ty)
  | cget (e : Imm) (c : Ctor) (idx : Nat) (ty : Ty)
  | un (op : UnOp) (e : Imm) (ty : Ty)
  | bin (op : BinOp) (l r : Imm) (ty : Ty)
  | call (f : Imm) (args : List Imm) (ty : Ty)
  | toDyn (tr : String) (forTy : Ty) (e : Imm) (ty : Ty)
  | dynCall (tr m : String) (recv : Imm) (args : List Imm) (ty : Ty)
  | go (e : Imm) (ty : Ty)
  | proj (e : Imm) (idx : Nat) (ty : Ty)
inductive AExpr where
  /-- `AExpr::ACExpr` -/
  | ret (e : CExpr)
  /-- `AExpr::ALet` -/
  | letE (x : String) (v : CExpr) (body : AExpr) (ty : Ty)
inductive AArm where
  | mk (lhs : Imm) (body : AExpr)
/-- `Option<Box<AExpr>>` (an auxiliary inductive keeps the recursion structural) -/
inductive ADflt where
  | none
  | some (e : AExpr)
end

instance : Inhabited CExpr := ⟨.imm default⟩
instance : Inhabited AExpr := ⟨.ret default⟩

structure AFn where
  name : String
  params : List (String × Ty)
  ret : Ty
  body : AExpr
  deriving Inhabited

abbrev AFile := List AFn

/-! ### erasure to the unified expression language (what `dump.rs` prints) -/

def Imm.toExpr : Imm → Expr
  | .var x ty => .var x ty
  | .prim p _ => .prim p
  | .tag i ty => .tag i ty

mutual
def CExpr.toExpr : CExpr → Expr
  | .imm i => i.toExpr
  | .constr c args ty => .constr c ty (args.map Imm.toExpr)
  | .tuple items ty => .tuple ty (items.map Imm.toExpr)
  | .array items ty => .array ty (items.map Imm.toExpr)
  | .matchE s arms d ty => .matchE ty s.toExpr (armsToExpr arms) (dfltToExpr d)
  | .ite c t e _ => .ite c.toExpr t.toExpr e.toExpr
  | .while c b _ => .while c.toExpr b.toExpr
  | .cget e c idx ty => .cget c idx ty e.toExpr
  | .un op e ty => .un op ty e.toExpr
  | .bin op l r ty => .bin op ty l.toExpr r.toExpr
  | .call f args ty => .call ty f.toExpr (args.map Imm.toExpr)
  | .toDyn tr forTy e ty => .toDyn tr forTy ty e.toExpr
  | .dynCall tr m recv args ty => .dynCall tr m ty recv.toExpr (args.map Imm.toExpr)
  | .go e _ => .go e.toExpr
  | .proj e idx ty => .proj idx ty e.toExpr
def AExpr.toExpr : AExpr → Expr
  | .ret c => c.toExpr
  | .letE x v b _ => .letE x v.toExpr b.toExpr
def armsToExpr : List AArm → List Arm
  | [] => []
  | .mk lhs body :: rest => .mk lhs.toExpr body.toExpr :: armsToExpr rest
def dfltToExpr : ADflt → Option Expr
  | .none => none
  | .some e => some e.toExpr
end

def AFn.toFn (f : AFn) : Fn :=
  { name := f.name, generics := [], params := f.params, ret := f.ret, body := f.body.toExpr }

/-! ## environment (`GlobalGoEnv`: what `compile.rs` reads of it) -/

structure Env where
  /-- `goenv.structs()` in iteration order (`genv.structs ++ mono_structs`, non-generic, then `lifted_structs`) -/
  structs : List StructDef := []
  /-- `goenv.get_struct`: `lifted_structs`, then `mono_structs`, then `genv.structs`; first hit wins -/
  structsLookup : List StructDef := []
  /-- `goenv.enums()` in iteration order (`get_enum` is `find` on it) -/
  enums : List EnumDef := []
  /-- `genv.trait_env.trait_defs`: trait ↦ methods in declaration order with their scheme type -/
  traits : List (String × List (String × Ty)) := []
  /-- `genv.value_env.extern_funcs`: (goml name, package path, Go name) -/
  externFns : List (String × String × String) := []
  /-- `genv.type_env.extern_types`: (goml name, Go name, package path) -/
  externTys : List (String × String × Option String) := []
  /-- `liftenv.inherent_impls()` keyed by `Exact(TStruct name)`: type of the `apply` method, if any -/
  applyTys : List (String × Option Ty) := []
  deriving Inhabited

def Env.getStruct (env : Env) (n : String) : Option StructDef := env.structsLookup.find? (·.name == n)
def Env.getEnum (env : Env) (n : String) : Option EnumDef := env.enums.find? (·.name == n)
def Env.getTrait (env : Env) (n : String) : Option (List (String × Ty)) :=
  match env.traits.find? (·.1 == n) with
  | some p => some p.2
  | none => none
def Env.getExternFn (env : Env) (n : String) : Option (String × String) :=
  match env.externFns.find? (·.1 == n) with
  | some p => some p.2
  | none => none

/-! ## names -/

/-- `go_ident` -/
def gid (x : String) : String := String.ofList (Mangle.goIdent x.toList)
/-- `anf_renamer`: `name.replace("/", "__")` -/
def rn (x : String) : String := String.ofList (Mangle.renameLocal x.toList)
/-- the Go identifier of an ANF variable, binder or parameter -/
def vn (x : String) : String := gid (rn x)
/-- `format!("_{}", i)` -/
def fieldN (i : Nat) : String := "_" ++ toString i

open Goml.Mono (toM toMs tyBeq constrName)

def encodeTy (t : Ty) : String := String.ofList (Mangle.encodeTy (toM t))
def refStructName (elem : Ty) : String := String.ofList (Mangle.refStructName (toM elem))
def dynStructName (tr : String) : String := String.ofList (Mangle.dynStructName tr.toList)
def dynVtableStructName (tr : String) : String := String.ofList (Mangle.dynVtableStructName tr.toList)
def dynVtableCtorName (tr : String) (forTy : Ty) : String :=
  String.ofList (Mangle.dynVtableCtorName tr.toList (toM forTy))
def dynWrapName (tr : String) (forTy : Ty) (m : String) : String :=
  String.ofList (Mangle.dynWrapName tr.toList (toM forTy) m.toList)
/-- `array_helper_fn_name` / `ref_helper_fn_name` -/
def helperFnName (pfx : String) (t : Ty) : String := String.ofList (Mangle.helperFnName pfx.toList (toM t))
def goTypeNameFor (t : Ty) : String := String.ofList (Mangle.goTypeNameFor (toM t))

/-- `variant_struct_name` -/
def variantStructName (env : Env) (enumName variant : String) : String :=
  String.ofList (Mangle.variantStructName
    (env.enums.map fun e => (e.name.toList, e.variants.map fun v => v.1.toList))
    (env.structs.map fun s => s.name.toList) enumName.toList variant.toList)

/-- `go_package_alias` -/
def goPackageAlias (path : String) : String :=
  let last := ((Mangle.splitOn '/' path.toList).getLast?).getD path.toList
  let al := last.map fun c => if Mangle.isAsciiAlnum c then c else '_'
  match al with
  | [] => "pkg"
  | c :: _ => if Mangle.isAsciiDigit c then String.ofList ('_' :: al) else String.ofList al

/-- `go_import_alias`: the import binds the qualifier explicitly when it is not the last path segment
    (`gopkg.in/yaml.v3` is used as `yaml_v3`); `"-"` = no alias, as dumped by `godump.rs` -/
def goImportAlias (path : String) : String :=
  let last := String.ofList (((Mangle.splitOn '/' path.toList).getLast?).getD path.toList)
  let al := goPackageAlias path
  if al == last then "-" else al

/-! ## types (`goast::tast_ty_to_go_type`) -/

mutual
/-- `tast_ty_to_go_type`; `okTy` says where it panics -/
def goTy : Ty → GTy
  | .unit => .unit
  | .bool => .bool
  | .int b s => .int b s
  | .float b => .float b
  | .string => .string
  | .tuple ts => .struct (goTypeNameFor (.tuple ts)) (goTyFields 0 ts)
  | .enum n => .name (gid n)
  | .struct n => .name (gid n)
  | .dyn tr => .name (dynStructName tr)
  | .app t _ => goTy t
  | .array len e => .array len (goTy e)
  | .vec e => .slice (goTy e)
  | .ref e => .ptr (.name (refStructName e))
  | .param n => .name n
  | .func ps r => .func (goTys ps) (goTy r)
  | .tvar _ => .name "<panic: unresolved type variable>"
def goTys : List Ty → List GTy
  | [] => []
  | t :: ts => goTy t :: goTys ts
def goTyFields (i : Nat) : List Ty → List (String × GTy)
  | [] => []
  | t :: ts => (fieldN i, goTy t) :: goTyFields (i + 1) ts
end

mutual
/-- inputs on which `tast_ty_to_go_type` (and the name encoders it calls) does not panic -/
def okTy : Ty → Bool
  | .tuple ts => okTys ts && Mangle.goTypeNameOk (toM (.tuple ts))
  | .app t args => args.isEmpty && okTy t
  | .array _ e => okTy e
  | .vec e => okTy e
  | .ref e => Mangle.encodeOk (toM e)
  | .func ps r => okTys ps && okTy r
  | .tvar _ => false
  | _ => true
def okTys : List Ty → Bool
  | [] => true
  | t :: ts => okTy t && okTys ts
end

/-- `tuple_to_go_struct_type` (the same struct type; panics on a non-tuple) -/
def tupleStructTy (t : Ty) : GTy := goTy t
def isTuple : Ty → Bool
  | .tuple _ => true
  | _ => false

def anyTy : GTy := .name "any"

/-! ## immediates -/

def Imm.ty : Imm → Ty
  | .var _ t => t
  | .prim _ t => t
  | .tag _ t => t

/-- `go_literal_from_primitive` (the `ty` of `Bool` / `String` literals is not part of the dump) -/
def lit (p : Prim) (ty : Ty) : GExpr :=
  match p with
  | .unit => .unitv (goTy ty)
  | .bool b => .bool b
  | .str s => .str s
  | .int _ _ v => .int (toString v) (goTy ty)
  | .float _ r => .float r (goTy ty)

/-- `lookup_variant_name`; `none` where it panics -/
def lookupVariantName (env : Env) (ty : Ty) (idx : Nat) : Option String :=
  match constrName ty with
  | none => none
  | some n =>
    match env.getEnum n with
    | none => none
    | some d =>
      match d.variants[idx]? with
      | none => none
      | some v => some (variantStructName env n v.1)

/-- `variant_ty_by_index` -/
def variantTy (env : Env) (ty : Ty) (idx : Nat) : GTy :=
  .name (gid ((lookupVariantName env ty idx).getD "<panic: variant>"))

/-- `compile_imm` -/
def compileImm (env : Env) : Imm → GExpr
  | .var x ty => .var (vn x) (goTy ty)
  | .prim p ty => lit p ty
  | .tag idx ty => .slit (variantTy env ty idx) []

def okImm (env : Env) : Imm → Bool
  | .var _ ty => okTy ty
  | .prim _ ty => okTy ty
  | .tag idx ty => (lookupVariantName env ty idx).isSome

def compileImms (env : Env) (is : List Imm) : List GExpr := is.map (compileImm env)

/-- the name a call goes to when the callee is a variable (after `anf_renamer`) -/
def callee : Imm → Option String
  | .var x _ => some (rn x)
  | _ => none

/-! ## struct fields (`substitute_ty_params`, `instantiate_struct_fields`) -/

/-- a `HashMap` built by successive `insert`s: the last binding of a key wins -/
def substLookup (σ : List (String × Ty)) (k : String) : Option Ty :=
  match σ.reverse.find? (·.1 == k) with
  | some p => some p.2
  | none => none

mutual
def substTy (σ : List (String × Ty)) : Ty → Ty
  | .param n => (substLookup σ n).getD (.param n)
  | .tuple ts => .tuple (substTys σ ts)
  | .app t args => .app (substTy σ t) (substTys σ args)
  | .array len e => .array len (substTy σ e)
  | .vec e => .vec (substTy σ e)
  | .ref e => .ref (substTy σ e)
  | .func ps r => .func (substTys σ ps) (substTy σ r)
  | t => t
def substTys (σ : List (String × Ty)) : List Ty → List Ty
  | [] => []
  | t :: ts => substTy σ t :: substTys σ ts
end

/-- `instantiate_struct_fields`; `none` where it panics -/
def instantiateStructFields (env : Env) (name : String) (args : List Ty) : Option (List (String × Ty)) :=
  match env.getStruct name with
  | none => none
  | some d =>
    if d.generics.length != args.length then none
    else some (d.fields.map fun (f, t) => (f, substTy (d.generics.zip args) t))

/-- the field an `EConstrGet` reads: Go field name and goml type; `none` where the Rust panics -/
def cgetField (env : Env) (e : Imm) (c : Ctor) (idx : Nat) : Option (String × Ty) :=
  match c with
  | .enum tn _ vi =>
    match env.getEnum tn with
    | none => none
    | some d =>
      match d.variants[vi]? with
      | none => none
      | some v =>
        match v.2[idx]? with
        | none => none
        | some t => some (fieldN idx, t)
  | .struct sn =>
    let scrut : Option (String × List Ty) :=
      match e.ty with
      | .struct n => some (n, [])
      | .app t args => (constrName t).map fun b => (b, args)
      | _ => none
    match scrut with
    | none => none
    | some (n, args) =>
      if n != sn then none
      else
        match instantiateStructFields env sn args with
        | none => none
        | some fs =>
          match fs[idx]? with
          | none => none
          | some (f, t) => some (gid f, t)

/-! ## trait objects -/

/-- `trait_method_sigs`: (method, parameters after the receiver, result); `none` where it panics -/
def traitMethodSigs (env : Env) (tr : String) : Option (List (String × List Ty × Ty)) :=
  match env.getTrait tr with
  | none => none
  | some ms =>
    if ms.all (fun m => match m.2 with | .func _ _ => true | _ => false) then
      some (ms.map fun m => match m.2 with
        | .func ps r => (m.1, ps.drop 1, r)
        | _ => (m.1, [], .unit))
    else none

def vtablePtrTy (tr : String) : GTy := .ptr (.name (dynVtableStructName tr))

/-- the Go type of a vtable slot: `func(any, params…) ret` -/
def slotTy (ps : List Ty) (r : Ty) : GTy := .func (anyTy :: goTys ps) (goTy r)

/-! ## complex expressions (`cexpr_ty`, `compile_cexpr`) -/

/-- the goml type `cexpr_ty` converts -/
def cexprTastTy (env : Env) : CExpr → Ty
  | .imm i => i.ty
  | .constr _ _ ty => ty
  | .tuple _ ty => ty
  | .array _ ty => ty
  | .matchE _ _ _ ty => ty
  | .ite _ _ _ ty => ty
  | .while _ _ ty => ty
  | .cget e c idx _ => ((cgetField env e c idx).map (·.2)).getD (.tvar 0)
  | .un _ _ ty => ty
  | .bin _ _ _ ty => ty
  | .call _ _ ty => ty
  | .toDyn _ _ _ ty => ty
  | .dynCall _ _ _ _ ty => ty
  | .go _ ty => ty
  | .proj _ _ ty => ty

/-- `anf::cexpr_tast_ty` (what `AExpr::get_ty` reports for an `ACExpr`): the stored annotation -/
def CExpr.annTy : CExpr → Ty
  | .imm i => i.ty
  | .constr _ _ ty => ty
  | .tuple _ ty => ty
  | .array _ ty => ty
  | .matchE _ _ _ ty => ty
  | .ite _ _ _ ty => ty
  | .while _ _ ty => ty
  | .cget _ _ _ ty => ty
  | .un _ _ ty => ty
  | .bin _ _ _ ty => ty
  | .call _ _ ty => ty
  | .toDyn _ _ _ ty => ty
  | .dynCall _ _ _ _ ty => ty
  | .go _ ty => ty
  | .proj _ _ ty => ty

/-- `AExpr::get_ty` -/
def AExpr.annTy : AExpr → Ty
  | .ret c => c.annTy
  | .letE _ _ _ ty => ty

def isBoolTy : Ty → Bool
  | .bool => true
  | _ => false

/-- `cexpr_ty` -/
def cexprTy (env : Env) (c : CExpr) : GTy := goTy (cexprTastTy env c)

def gUn : UnOp → GUn
  | .neg => .neg
  | .not => .not

def gBin : BinOp → GBin
  | .add => .add | .sub => .sub | .mul => .mul | .div => .div
  | .and => .and | .or => .or | .less => .less | .greater => .greater
  | .lessEq => .lessEq | .greaterEq => .greaterEq | .eq => .eq | .notEq => .notEq

def isUnitTy : Ty → Bool
  | .unit => true
  | _ => false

def refElem : Ty → Option Ty
  | .ref e => some e
  | _ => none

def structFieldsOf (fs : List (String × Ty)) (args : List GExpr) : List GField :=
  (fs.zip args).map fun p => .mk (gid p.1.1) p.2

def tupleFields (i : Nat) : List GExpr → List GField
  | [] => []
  | e :: es => .mk (fieldN i) e :: tupleFields (i + 1) es

/-- the `ECall` arm of `compile_cexpr` -/
def compileCall (env : Env) (f : Imm) (args : List Imm) (ty : Ty) : GExpr :=
  let cargs := compileImms env args
  let funcTy := goTy f.ty
  let arg0Ty : Ty := (args.head?.map Imm.ty).getD (.tvar 0)
  match callee f with
  | none => .call (goTy ty) (compileImm env f) cargs
  | some name =>
    if name == "array_get" || name == "array_set" then
      .call (goTy ty) (.var (helperFnName name arg0Ty) funcTy) cargs
    else if name == "ref" then
      let elem := (refElem ty).getD (.tvar 0)
      .call (goTy ty) (.var (helperFnName "ref" ty) (.func [goTy elem] (goTy ty))) cargs
    else if name == "ref_get" || name == "ref_set" then
      let elem := (refElem arg0Ty).getD (.tvar 0)
      let hty : GTy :=
        if name == "ref_get" then .func [goTy arg0Ty] (goTy elem)
        else .func [goTy arg0Ty, goTy elem] .unit
      .call (goTy ty) (.var (helperFnName name arg0Ty) hty) cargs
    else if name == "vec_new" then .nil (goTy ty)
    else if name == "vec_push" then .call (goTy ty) (.var "append" funcTy) cargs
    else if name == "vec_get" then
      .index (goTy ty) (cargs.getD 0 default) (cargs.getD 1 default)
    else if name == "vec_len" then
      .call (goTy ty) (.var "int32" (.func [.int 32 true] (.int 32 true)))
        [.call (.int 32 true) (.var "len" (.func [goTy arg0Ty] (.int 32 true))) [cargs.getD 0 default]]
    else
      match env.getExternFn name with
      | some (pkg, goName) => .call (goTy ty) (.var (goPackageAlias pkg ++ "." ++ goName) funcTy) cargs
      | none => .call (goTy ty) (compileImm env f) cargs

/-- where the `ECall` arm panics -/
def okCall (env : Env) (f : Imm) (args : List Imm) (ty : Ty) : Bool :=
  let arg0 := args.head?.map Imm.ty
  okTy ty && okTy f.ty && args.all (okImm env) &&
  match callee f with
  | none => okImm env f
  | some name =>
    if name == "array_get" || name == "array_set" then
      match arg0 with | some t => Mangle.encodeOk (toM t) | none => false
    else if name == "ref" then
      (match refElem ty with | some e => okTy e | none => false) && Mangle.encodeOk (toM ty)
    else if name == "ref_get" || name == "ref_set" then
      match arg0 with
      | some t => (match refElem t with | some e => okTy e | none => false) && okTy t && Mangle.encodeOk (toM t)
      | none => false
    else if name == "vec_new" || name == "vec_push" then true
    else if name == "vec_get" then args.length ≥ 2
    else if name == "vec_len" then (match arg0 with | some t => okTy t | none => false)
    else
      match env.getExternFn name with
      | some _ => true
      | none => okImm env f

/-- the Go conversion that `dyn_data_expr` wraps around a literal of a numeric type -/
def convName : Ty → Option String
  | .int 8 true => some "int8"
  | .int 16 true => some "int16"
  | .int 32 true => some "int32"
  | .int 64 true => some "int64"
  | .int 8 false => some "uint8"
  | .int 16 false => some "uint16"
  | .int 32 false => some "uint32"
  | .int 64 false => some "uint64"
  | .float 32 => some "float32"
  | .float 64 => some "float64"
  | _ => none

/-- `dyn_data_expr`: the value stored in the `data any` field of a trait object.  A numeric literal has no type of its own
    in Go — stored as it is it would take the default type (`int`, `float64`) and the wrapper's assertion to the implementing
    type would fail — so it is converted explicitly: `int32(42)` -/
def dynDataExpr (env : Env) (e : Imm) : GExpr :=
  match e with
  | .prim _ ty =>
    (match convName ty with
     | some n => .call (goTy ty) (.var n (.func [goTy ty] (goTy ty))) [compileImm env e]
     | none => compileImm env e)
  | _ => compileImm env e

/-- `compile_cexpr`; the control-flow forms (which the statement lowering handles before) and `EGo`
    panic in the Rust and give a placeholder here -/
def compileCExpr (env : Env) : CExpr → GExpr
  | .imm i => compileImm env i
  | .constr c args ty =>
    match c with
    | .enum _ _ idx => .slit (variantTy env ty idx) (tupleFields 0 (compileImms env args))
    | .struct sn =>
      .slit (goTy ty) (structFieldsOf ((env.getStruct sn).map (·.fields) |>.getD []) (compileImms env args))
  | .tuple items ty => .slit (tupleStructTy ty) (tupleFields 0 (compileImms env items))
  | .array items ty => .alit (goTy ty) (compileImms env items)
  | .cget e c idx _ =>
    let ft := (cgetField env e c idx).getD ("<panic: field>", .tvar 0)
    .field ft.1 (goTy ft.2) (compileImm env e)
  | .un op e ty => .un (gUn op) (goTy ty) (compileImm env e)
  | .bin op l r ty => .bin (gBin op) (goTy ty) (compileImm env l) (compileImm env r)
  | .toDyn tr forTy e ty =>
    .slit (goTy ty)
      [.mk "data" (dynDataExpr env e),
       .mk "vtable" (.call (vtablePtrTy tr) (.var (dynVtableCtorName tr forTy) (.func [] (vtablePtrTy tr))) [])]
  | .dynCall tr m recv args ty =>
    let sig := (((traitMethodSigs env tr).getD []).find? (·.1 == m)).getD (m, [], .tvar 0)
    let vt : GExpr := .field "vtable" (vtablePtrTy tr) (compileImm env recv)
    let meth : GExpr := .field (gid m) (slotTy sig.2.1 sig.2.2) vt
    .call (goTy ty) meth (.field "data" anyTy (compileImm env recv) :: compileImms env args)
  | .call f args ty => compileCall env f args ty
  | .proj e idx ty => .field (fieldN idx) (goTy ty) (compileImm env e)
  | .matchE _ _ _ _ => .unitv .void
  | .ite _ _ _ _ => .unitv .void
  | .while _ _ _ => .unitv .void
  | .go _ _ => .unitv .void

/-- where `compile_cexpr` (and `cexpr_ty` of the same expression) panics -/
def okCExpr (env : Env) : CExpr → Bool
  | .imm i => okImm env i
  | .constr c args ty =>
    args.all (okImm env) &&
    match c with
    | .enum _ _ idx => (lookupVariantName env ty idx).isSome
    | .struct sn =>
      okTy ty && match env.getStruct sn with
        | some d => d.fields.length == args.length
        | none => false
  | .tuple items ty => items.all (okImm env) && isTuple ty && okTy ty
  | .array items ty => items.all (okImm env) && okTy ty
  | .cget e c idx _ =>
    okImm env e && match cgetField env e c idx with
      | some ft => okTy ft.2
      | none => false
  | .un _ e ty => okImm env e && okTy ty
  | .bin _ l r ty => okImm env l && okImm env r && okTy ty
  | .toDyn _ forTy e ty => okImm env e && okTy ty && Mangle.encodeOk (toM forTy)
  | .dynCall tr m recv args ty =>
    okImm env recv && args.all (okImm env) && okTy ty &&
    match traitMethodSigs env tr with
    | some sigs =>
      (match sigs.find? (·.1 == m) with
       | some sig => okTys sig.2.1 && okTy sig.2.2
       | none => false)
    | none => false
  | .call f args ty => okCall env f args ty
  | .proj e _ ty => okImm env e && okTy ty
  | .matchE _ _ _ _ => false
  | .ite _ _ _ _ => false
  | .while _ _ _ => false
  | .go _ _ => false

/-! ## `go` (`compile_go`, `find_closure_apply_fn`) -/

/-- `closure_apply_method` + `find_closure_apply_fn`: name, type and result type of the `apply`
    function of a closure environment struct; `none` = no such function (the caller panics);
    `isClosureEnv` = `is_closure_env_struct` (the Rust is `unreachable!` otherwise) -/
def isClosureEnv (n : String) : Bool := n.startsWith "closure_env_"

def findClosureApplyFn (env : Env) (closureTy : Ty) : Option (String × Ty × Ty) :=
  match closureTy with
  | .struct n =>
    if !isClosureEnv n then none
    else
      match env.applyTys.find? (·.1 == n) with
      | some (_, some (.func ps r)) =>
        match ps.head? with
        | some p =>
          if tyBeq p closureTy then
            some (String.ofList (Mangle.inherentMethodFnName (toM closureTy) ['a', 'p', 'p', 'l', 'y']),
                  .func ps r, r)
          else none
        | none => none
      | _ => none
  | _ => none

/-- `compile_go` -/
def compileGo (env : Env) (closure : Imm) : GStmt :=
  match findClosureApplyFn env closure.ty with
  | some (name, fty, rty) => .go (compileCall env (.var name fty) [closure] rty)
  | none => .go (.unitv .void)

def okGo (env : Env) (closure : Imm) : Bool :=
  match findClosureApplyFn env closure.ty with
  | some (name, fty, rty) => okCall env (.var name fty) [closure] rty
  | none => false

/-! ## statements (`compile_aexpr_effect`, `compile_aexpr_assign`, `compile_while`,
    `compile_match_branches`, `compile_cexpr_effect`) -/

/-- which of the two statement lowerings is running: `compile_aexpr_effect` or
    `compile_aexpr_assign(target)`; `target` is the name before `go_ident` (after the renaming) -/
inductive Mode where
  | effect
  | assign (target : String)
  deriving Inhabited

/-- the `Gensym` counter and the "no panic so far" flag -/
structure St where
  n : Nat
  ok : Bool
  deriving Inhabited

def St.fail (s : St) : St := { s with ok := false }
def St.check (s : St) (b : Bool) : St := { s with ok := s.ok && b }
def St.next (s : St) : St := { s with n := s.n + 1 }

def unitE : GExpr := .unitv .unit

/-- `EIf | EMatch | EWhile` -/
def isCtl : CExpr → Bool
  | .matchE _ _ _ _ => true
  | .ite _ _ _ _ => true
  | .while _ _ _ => true
  | _ => false

/-- is the callee the variable `missing` (and the call not of type unit): `compile_aexpr_assign`
    then emits the call as a statement and assigns nothing -/
def isMissingCall (f : Imm) (ty : Ty) : Bool :=
  (match callee f with | some n => n == "missing" | none => false) && !isUnitTy ty

/-- the non-control-flow arms of `compile_aexpr_effect` (= `compile_cexpr_effect`) and of
    `compile_aexpr_assign` -/
def compileSimple (env : Env) (m : Mode) (c : CExpr) : List GStmt :=
  match m with
  | .effect =>
    match c with
    | .call _ _ _ => [.expr (compileCExpr env c)]
    | .dynCall _ _ _ _ _ => [.expr (compileCExpr env c)]
    | .go e _ => [compileGo env e]
    | _ => []
  | .assign tgt =>
    match c with
    | .call f args ty =>
      if isMissingCall f ty then [.expr (compileCExpr env (.call f args .unit))]
      else [.assign (gid tgt) (compileCExpr env c)]
    | .go e _ => [compileGo env e, .assign (gid tgt) unitE]
    | _ => [.assign (gid tgt) (compileCExpr env c)]

def okSimple (env : Env) (m : Mode) (c : CExpr) : Bool :=
  match m with
  | .effect =>
    match c with
    | .call _ _ _ => okCExpr env c
    | .dynCall _ _ _ _ _ => okCExpr env c
    | .go e _ => okGo env e
    | _ => true
  | .assign _ =>
    match c with
    | .call f args ty => if isMissingCall f ty then okCExpr env (.call f args .unit) else okCExpr env c
    | .go e _ => okGo env e
    | _ => okCExpr env c

/-- the declaration an `ALet` of a non-control-flow value becomes -/
def compileBindSimple (env : Env) (x : String) (v : CExpr) : List GStmt :=
  match v with
  | .go e _ => [compileGo env e, .varDecl (vn x) .unit (some unitE)]
  | _ => [.varDecl (vn x) (cexprTy env v) (some (compileCExpr env v))]

def okBindSimple (env : Env) (v : CExpr) : Bool :=
  match v with
  | .go e _ => okGo env e
  | _ => okCExpr env v && okTy (cexprTastTy env v)

/-- the kinds of scrutinee `compile_match_branches` distinguishes -/
inductive MatchKind where
  | unit | bool | int (bits : Nat) (signed : Bool) | float (bits : Nat) | str | enum | unsupported

def matchKind : Ty → MatchKind
  | .unit => .unit
  | .bool => .bool
  | .int b s => .int b s
  | .float b => .float b
  | .string => .str
  | .enum _ => .enum
  | .app (.enum _) _ => .enum
  | _ => .unsupported

/-- the `case` label of a value switch for one arm head; `none` where the Rust panics
    (the head is not a literal of the scrutinee's own primitive type) -/
def caseLabel (k : MatchKind) (lhs : Imm) : Option GExpr :=
  match k, lhs with
  | .bool, .prim (.bool b) _ => some (.bool b)
  | .int b s, .prim (.int b' s' v) ty => if b == b' && s == s' then some (.int (toString v) (goTy ty)) else none
  | .float b, .prim (.float b' r) ty => if b == b' then some (.float r (goTy ty)) else none
  | .str, .prim (.str s) _ => some (.str s)
  | _, _ => none

/-- the type of a type-switch clause for one arm head -/
def caseType (env : Env) (lhs : Imm) : Option GTy :=
  match lhs with
  | .tag idx ty => (lookupVariantName env ty idx).map fun n => .name (gid n)
  | _ => none

def valueCases (k : MatchKind) : List (Imm × List GStmt) → List GCase
  | [] => []
  | (lhs, body) :: rest => .mk ((caseLabel k lhs).getD unitE) body :: valueCases k rest

def typeCases (env : Env) : List (Imm × List GStmt) → List GTCase
  | [] => []
  | (lhs, body) :: rest => .mk ((caseType env lhs).getD .void) body :: typeCases env rest

mutual
/-- `compile_aexpr_effect` / `compile_aexpr_assign` on an `AExpr` -/
def compileA (env : Env) (m : Mode) (st : St) : AExpr → List GStmt × St
  | .ret c => compileTail env m st c
  | .letE x v body _ =>
    if isCtl v then
      let d := compileTail env (.assign (rn x)) (st.check (okTy (cexprTastTy env v))) v
      let r := compileA env m d.2 body
      (.varDecl (vn x) (cexprTy env v) none :: (d.1 ++ r.1), r.2)
    else
      let r := compileA env m (st.check (okBindSimple env v)) body
      (compileBindSimple env x v ++ r.1, r.2)
/-- the `ACExpr` arm: control flow is lowered to statements, the rest is `compileSimple` -/
def compileTail (env : Env) (m : Mode) (st : St) : CExpr → List GStmt × St
  | .ite c t e _ =>
    let rt := compileA env m (st.check (okImm env c)) t
    let re := compileA env m rt.2 e
    ([.ite (compileImm env c) rt.1 (some re.1)], re.2)
  | .matchE s arms d _ =>
    match matchKind s.ty with
    | .unit =>
      -- the first arm, else the default, else nothing; the scrutinee is not evaluated
      if arms.isEmpty then compileDfltUnit env m st d else compileFirstArm env m st arms
    | .enum =>
      let ra := compileArms env m (st.check (okImm env s)) arms
      let rd := compileDflt env m ra.2 d
      let bind : Option String := match s with | .var x _ => some (rn x) | _ => none
      let okHeads := ra.1.all fun p => (caseType env p.1).isSome
      ([.tswitch bind (compileImm env s) (typeCases env ra.1) rd.1], (rd.2.check (bind.isSome && okHeads)))
    | .unsupported => ([], st.fail)
    | k =>
      let ra := compileArms env m (st.check (okImm env s)) arms
      let rd := compileDflt env m ra.2 d
      let okHeads := ra.1.all fun p => (caseLabel k p.1).isSome && okTy p.1.ty
      ([.switch (compileImm env s) (valueCases k ra.1) rd.1], rd.2.check okHeads)
  | .while c b _ =>
    -- `compile_while`
    let condVar := "cond" ++ toString st.n
    let rc := compileA env (.assign condVar) (st.next.check (isBoolTy c.annTy)) c
    let rb := compileA env .effect rc.2 b
    let loopBody := rc.1 ++ [.ite (.un .not .bool (.var (gid condVar) .bool)) [.brk] none] ++ rb.1
    let stmts : List GStmt := [.varDecl (gid condVar) .bool none, .loop loopBody]
    match m with
    | .effect => (stmts, rb.2)
    | .assign tgt => (stmts ++ [.assign (gid tgt) unitE], rb.2)
  | c => (compileSimple env m c, st.check (okSimple env m c))
/-- the `for arm in arms` loop of `compile_match_branches`: arm head and compiled body -/
def compileArms (env : Env) (m : Mode) (st : St) : List AArm → List (Imm × List GStmt) × St
  | [] => ([], st)
  | .mk lhs body :: rest =>
    let rb := compileA env m st body
    let rr := compileArms env m rb.2 rest
    ((lhs, rb.1) :: rr.1, rr.2)
def compileDflt (env : Env) (m : Mode) (st : St) : ADflt → Option (List GStmt) × St
  | .none => (none, st)
  | .some e =>
    let r := compileA env m st e
    (some r.1, r.2)
/-- unit scrutinee: the statements of the first arm in place -/
def compileFirstArm (env : Env) (m : Mode) (st : St) : List AArm → List GStmt × St
  | [] => ([], st)
  | .mk _ body :: _ => compileA env m st body
/-- unit scrutinee without arms: the default's statements in place, or nothing -/
def compileDfltUnit (env : Env) (m : Mode) (st : St) : ADflt → List GStmt × St
  | .none => ([], st)
  | .some e => compileA env m st e
end

/-! ## functions (`compile_fn`) -/

def isEntry (name : String) : Bool := name == "main" || name.endsWith "::main"

/-- the Go name of a top-level function -/
def fnName (name : String) : String := if isEntry name then "main0" else gid name

/-- `compile_fn` (the arm every function takes: `tast_ty_to_go_type` never answers `TVoid`) -/
def compileFn (env : Env) (st : St) (f : AFn) : GFunc × St :=
  let rt := goTy f.ret
  let retName := "ret" ++ toString st.n
  let st1 := (st.next.check (okTy f.ret)).check (f.params.all fun p => okTy p.2)
  let r := compileA env (.assign retName) st1 f.body
  ({ name := fnName f.name,
     params := f.params.map fun p => (vn p.1, goTy p.2),
     ret := some rt,
     body := .varDecl (gid retName) rt none :: (r.1 ++ [.ret (some (.var (gid retName) rt))]) }, r.2)

def compileFns (env : Env) : St → List AFn → List GFunc × St
  | st, [] => ([], st)
  | st, f :: rest =>
    let r := compileFn env st f
    let rr := compileFns env r.2 rest
    (r.1 :: rr.1, rr.2)

/-! ## runtime (`go/runtime.rs`) -/

def tStr : GTy := .string
def i32 : GTy := .int 32 true
def sV (x : String) (t : GTy) : GExpr := .var x t

def fnUnitToString : GFunc :=
  { name := "unit_to_string", params := [("x", .unit)], ret := some tStr, body := [.ret (some (.str "()"))] }

def boolToStr (name : String) : GFunc :=
  { name := name, params := [("x", .bool)], ret := some tStr,
    body := [.ite (sV "x" .bool) [.ret (some (.str "true"))] (some [.ret (some (.str "false"))])] }

def hex4 (code : Nat) : String := "\\u00" ++ String.ofList (Mangle.hex2 code)

/-- `json_escape_string`: the replacement table, innermost first -/
def jsonReplacements : List (String × String) :=
  [("\\", "\\\\"), ("\"", "\\\"")] ++ (List.range 32).map fun c => (String.singleton (Char.ofNat c), hex4 c)

def replaceAllTy : GTy := .func [tStr, tStr, tStr] tStr

def fnJsonEscapeString : GFunc :=
  let escaped := jsonReplacements.foldl
    (fun acc p => GExpr.call tStr (sV "strings.ReplaceAll" replaceAllTy) [acc, .str p.1, .str p.2]) (sV "s" tStr)
  { name := "json_escape_string", params := [("s", tStr)], ret := some tStr,
    body := [.ret (some (.bin .add tStr (.bin .add tStr (.str "\"") escaped) (.str "\"")))] }

def fnStringLen : GFunc :=
  { name := "string_len", params := [("s", tStr)], ret := some i32,
    body := [.ret (some (.call i32 (sV "int32" (.func [i32] i32))
      [.call i32 (sV "len" (.func [tStr] i32)) [sV "s" tStr]]))] }

def fnStringGet : GFunc :=
  { name := "string_get", params := [("s", tStr), ("i", i32)], ret := some tStr,
    body := [.ret (some (.call tStr (sV "string" (.func [.int 8 false] tStr))
      [.index (.int 8 false) (sV "s" tStr) (sV "i" i32)]))] }

/-- `to_string_fn` -/
def toStringFn (name : String) (ty : GTy) (verb : String) : GFunc :=
  { name := name, params := [("x", ty)], ret := some tStr,
    body := [.ret (some (.call tStr (sV "fmt.Sprintf" (.func [tStr, ty] tStr)) [.str verb, sV "x" ty]))] }

def printFn (name callee : String) : GFunc :=
  { name := name, params := [("s", tStr)], ret := some .unit,
    body := [.expr (.call .void (sV callee (.func [tStr] .void)) [sV "s" tStr]), .ret (some unitE)] }

def fnMissing : GFunc :=
  { name := "missing", params := [("s", tStr)], ret := some .unit,
    body := [.expr (.call .void (sV "println" (.func [tStr] .void)) [.bin .add tStr (.str "missing: ") (sV "s" tStr)]),
             .expr (.call .void (sV "panic" (.func [tStr] .void)) [.str ""]),
             .ret (some unitE)] }

/-- `make_runtime` -/
def makeRuntime : List GItem :=
  [.package "main", .imports [("-", "fmt"), ("-", "strings")],
   .func fnUnitToString, .func (boolToStr "bool_to_string"), .func (boolToStr "bool_to_json"),
   .func fnJsonEscapeString, .func fnStringLen, .func fnStringGet,
   .func (toStringFn "int8_to_string" (.int 8 true) "%d"), .func (toStringFn "int16_to_string" (.int 16 true) "%d"),
   .func (toStringFn "int32_to_string" (.int 32 true) "%d"), .func (toStringFn "int64_to_string" (.int 64 true) "%d"),
   .func (toStringFn "uint8_to_string" (.int 8 false) "%d"), .func (toStringFn "uint16_to_string" (.int 16 false) "%d"),
   .func (toStringFn "uint32_to_string" (.int 32 false) "%d"), .func (toStringFn "uint64_to_string" (.int 64 false) "%d"),
   .func (toStringFn "float32_to_string" (.float 32) "%g"), .func (toStringFn "float64_to_string" (.float 64) "%g"),
   .func (printFn "string_print" "fmt.Print"), .func (printFn "string_println" "fmt.Println"),
   .func fnMissing]

/-- `array_get__T(arr, index)`: `return arr[index]` -/
def arrGetFn (t : Ty) (len : Nat) (elem : Ty) : GFunc :=
  { name := helperFnName "array_get" t, params := [("arr", .array len (goTy elem)), ("index", i32)], ret := some (goTy elem),
    body := [.ret (some (.index (goTy elem) (sV "arr" (.array len (goTy elem))) (sV "index" i32)))] }
/-- `array_set__T(arr, index, value)`: `arr[index] = value; return arr` (on the callee's copy) -/
def arrSetFn (t : Ty) (len : Nat) (elem : Ty) : GFunc :=
  { name := helperFnName "array_set" t, params := [("arr", .array len (goTy elem)), ("index", i32), ("value", goTy elem)],
    ret := some (.array len (goTy elem)),
    body := [.indexAssign (sV "arr" (.array len (goTy elem))) (sV "index" i32) (sV "value" (goTy elem)),
             .ret (some (sV "arr" (.array len (goTy elem))))] }

/-- `make_array_runtime`: two helpers per collected array type (not for the wildcard length) -/
def arrayRuntime : List Ty → List GItem
  | [] => []
  | t :: rest =>
    (match t with
     | .array len elem =>
       if len == Goml.Gen.arrayWildcardLen then []
       else [.func (arrGetFn t len elem), .func (arrSetFn t len elem)]
     | _ => []) ++ arrayRuntime rest

def okArrayRuntime (ts : List Ty) : Bool :=
  ts.all fun t => match t with
    | .array len elem => len == Goml.Gen.arrayWildcardLen || (okTy elem && Mangle.encodeOk (toM t))
    | _ => true

mutual
/-- `ty_contains_type_param` (runtime.rs) -/
def tyContainsTypeParam : Ty → Bool
  | .param _ => true
  | .array _ e => tyContainsTypeParam e
  | .ref e => tyContainsTypeParam e
  | .tuple ts => tysContainTypeParam ts
  | .app t args => tyContainsTypeParam t || tysContainTypeParam args
  | .func ps r => tysContainTypeParam ps || tyContainsTypeParam r
  | _ => false
def tysContainTypeParam : List Ty → Bool
  | [] => false
  | t :: ts => tyContainsTypeParam t || tysContainTypeParam ts
end

/-- `ref__T(value)`: `return &ref_T{value: value}` -/
def refFn (t elem : Ty) : GFunc :=
  { name := helperFnName "ref" t, params := [("value", goTy elem)], ret := some (.ptr (.name (refStructName elem))),
    body := [.ret (some (.un .addr (.ptr (.name (refStructName elem)))
      (.slit (.name (refStructName elem)) [.mk "value" (sV "value" (goTy elem))])))] }
/-- `ref_get__T(reference)`: `return reference.value` -/
def refGetFn (t elem : Ty) : GFunc :=
  { name := helperFnName "ref_get" t, params := [("reference", .ptr (.name (refStructName elem)))], ret := some (goTy elem),
    body := [.ret (some (.field "value" (goTy elem) (sV "reference" (.ptr (.name (refStructName elem))))))] }
/-- `ref_set__T(reference, value)`: `reference.value = value; return struct{}{}` -/
def refSetFn (t elem : Ty) : GFunc :=
  { name := helperFnName "ref_set" t, params := [("reference", .ptr (.name (refStructName elem))), ("value", goTy elem)],
    ret := some .unit,
    body := [.fieldAssign (.field "value" (goTy elem) (sV "reference" (.ptr (.name (refStructName elem))))) (sV "value" (goTy elem)),
             .ret (some unitE)] }

/-- `make_ref_runtime`: the cell struct and three helpers per collected reference type -/
def refRuntime : List Ty → List GItem
  | [] => []
  | t :: rest =>
    (match t with
     | .ref elem =>
       if tyContainsTypeParam elem then []
       else
         [.structDef (refStructName elem) [("value", goTy elem)] [],
          .func (refFn t elem), .func (refGetFn t elem), .func (refSetFn t elem)]
     | _ => []) ++ refRuntime rest

def okRefRuntime (ts : List Ty) : Bool :=
  ts.all fun t => match t with
    | .ref elem => tyContainsTypeParam elem || (okTy elem && Mangle.encodeOk (toM elem) && Mangle.encodeOk (toM t))
    | _ => true

/-! ## `collect_runtime_types` (three insertion-ordered sets) -/

structure RT where
  tuples : List Ty := []
  arrays : List Ty := []
  refs : List Ty := []
  deriving Inhabited

def memTy (t : Ty) (ts : List Ty) : Bool := ts.any (tyBeq t)

mutual
/-- `Collector::collect_type` -/
def collectType (rt : RT) : Ty → RT
  | .tuple ts =>
    if memTy (.tuple ts) rt.tuples then rt
    else collectTypes { rt with tuples := rt.tuples ++ [.tuple ts] } ts
  | .array len e =>
    if memTy (.array len e) rt.arrays then rt
    else collectType { rt with arrays := rt.arrays ++ [.array len e] } e
  | .ref e =>
    if memTy (.ref e) rt.refs then rt
    else collectType { rt with refs := rt.refs ++ [.ref e] } e
  | .vec e => collectType rt e
  | .app t args => collectTypes (collectType rt t) args
  | .func ps r => collectType (collectTypes rt ps) r
  | _ => rt
def collectTypes (rt : RT) : List Ty → RT
  | [] => rt
  | t :: ts => collectTypes (collectType rt t) ts
end

def collectImm (rt : RT) (i : Imm) : RT := collectType rt i.ty
def collectImms (rt : RT) : List Imm → RT
  | [] => rt
  | i :: is => collectImms (collectImm rt i) is

mutual
def collectC (rt : RT) : CExpr → RT
  | .imm i => collectImm rt i
  | .constr _ args ty => collectType (collectImms rt args) ty
  | .tuple items ty => collectType (collectImms rt items) ty
  | .array items ty => collectType (collectImms rt items) ty
  | .matchE s arms d ty => collectType (collectD (collectArms (collectImm rt s) arms) d) ty
  | .ite c t e ty => collectType (collectA (collectA (collectImm rt c) t) e) ty
  | .while c b ty => collectType (collectA (collectA rt c) b) ty
  | .cget e _ _ ty => collectType (collectImm rt e) ty
  | .un _ e ty => collectType (collectImm rt e) ty
  | .bin _ l r ty => collectType (collectImm (collectImm rt l) r) ty
  | .call f args ty => collectType (collectImms (collectImm rt f) args) ty
  | .toDyn _ forTy e ty => collectType (collectImm (collectType rt forTy) e) ty
  | .dynCall _ _ recv args ty => collectType (collectImms (collectImm rt recv) args) ty
  | .go e ty => collectType (collectImm rt e) ty
  | .proj e _ ty => collectType (collectImm rt e) ty
def collectA (rt : RT) : AExpr → RT
  | .ret c => collectC rt c
  | .letE _ v body ty => collectType (collectA (collectC rt v) body) ty
def collectArms (rt : RT) : List AArm → RT
  | [] => rt
  | .mk _ body :: rest => collectArms (collectA rt body) rest
def collectD (rt : RT) : ADflt → RT
  | .none => rt
  | .some e => collectA rt e
end

def collectFn (rt : RT) (f : AFn) : RT :=
  collectA (collectType (collectTypes rt (f.params.map (·.2))) f.ret) f.body

/-- the part of `collect_runtime_types` that walks the functions -/
def collectFnsTypes (file : AFile) : RT := file.foldl collectFn {}

/-! ## `collect_dyn_requirements`, `gen_dyn_type_definitions`, `gen_dyn_helper_fns` -/

structure DynReq where
  traits : List String := []
  vtables : List (String × Ty) := []
  deriving Inhabited

def DynReq.addTrait (r : DynReq) (t : String) : DynReq :=
  if r.traits.contains t then r else { r with traits := r.traits ++ [t] }
def DynReq.addVtable (r : DynReq) (t : String) (ty : Ty) : DynReq :=
  if r.vtables.any (fun p => p.1 == t && tyBeq p.2 ty) then r else { r with vtables := r.vtables ++ [(t, ty)] }

mutual
def dynTy (r : DynReq) : Ty → DynReq
  | .dyn tr => r.addTrait tr
  | .tuple ts => dynTys r ts
  | .app t args => dynTys (dynTy r t) args
  | .array _ e => dynTy r e
  | .vec e => dynTy r e
  | .ref e => dynTy r e
  | .func ps ret => dynTy (dynTys r ps) ret
  | _ => r
def dynTys (r : DynReq) : List Ty → DynReq
  | [] => r
  | t :: ts => dynTys (dynTy r t) ts
end

def dynImm (r : DynReq) (i : Imm) : DynReq := dynTy r i.ty
def dynImms (r : DynReq) : List Imm → DynReq
  | [] => r
  | i :: is => dynImms (dynImm r i) is

mutual
def dynC (r : DynReq) : CExpr → DynReq
  | .imm i => dynImm r i
  | .constr _ args ty => dynTy (dynImms r args) ty
  | .tuple items ty => dynTy (dynImms r items) ty
  | .array items ty => dynTy (dynImms r items) ty
  | .matchE s arms d ty => dynTy (dynD (dynArms (dynImm r s) arms) d) ty
  | .ite c t e ty => dynTy (dynA (dynA (dynImm r c) t) e) ty
  | .while c b ty => dynTy (dynA (dynA r c) b) ty
  | .cget e _ _ ty => dynTy (dynImm r e) ty
  | .un _ e ty => dynTy (dynImm r e) ty
  | .bin _ l rr ty => dynTy (dynImm (dynImm r l) rr) ty
  | .call f args ty => dynTy (dynImms (dynImm r f) args) ty
  | .toDyn tr forTy e ty => dynTy (dynImm (dynTy ((r.addTrait tr).addVtable tr forTy) forTy) e) ty
  | .dynCall tr _ recv args ty => dynTy (dynImms (dynImm (r.addTrait tr) recv) args) ty
  | .go e ty => dynTy (dynImm r e) ty
  | .proj e _ ty => dynTy (dynImm r e) ty
def dynA (r : DynReq) : AExpr → DynReq
  | .ret c => dynC r c
  | .letE _ v body ty => dynTy (dynA (dynC r v) body) ty
def dynArms (r : DynReq) : List AArm → DynReq
  | [] => r
  | .mk _ body :: rest => dynArms (dynA r body) rest
def dynD (r : DynReq) : ADflt → DynReq
  | .none => r
  | .some e => dynA r e
end

def dynFn (r : DynReq) (f : AFn) : DynReq := dynA (dynTy (dynTys r (f.params.map (·.2))) f.ret) f.body

/-- the part of `collect_dyn_requirements` that walks the functions -/
def collectDynFns (file : AFile) : DynReq := file.foldl dynFn {}

def strLe (a b : String) : Bool := Mangle.nameLe a.toList b.toList

/-- stable insertion sort (`Vec::sort` / `sort_by` are stable) -/
def insertSorted {α} (le : α → α → Bool) (x : α) : List α → List α
  | [] => [x]
  | y :: ys => if le x y then x :: y :: ys else y :: insertSorted le x ys
def sortStable {α} (le : α → α → Bool) : List α → List α
  | [] => []
  | x :: xs => insertSorted le x (sortStable le xs)

/-- `(t1, encode_ty(ty1)).cmp(&(t2, encode_ty(ty2)))` as `≤` -/
def vtableLe (a b : String × Ty) : Bool :=
  if a.1 == b.1 then strLe (encodeTy a.2) (encodeTy b.2) else strLe a.1 b.1

/-- `gen_dyn_type_definitions` -/
def genDynTypeDefinitions (env : Env) (req : DynReq) : List GItem :=
  (sortStable strLe req.traits).flatMap fun tr =>
    let sigs := (traitMethodSigs env tr).getD []
    [.structDef (dynVtableStructName tr) (sigs.map fun s => (gid s.1, slotTy s.2.1 s.2.2)) [],
     .structDef (dynStructName tr) [("data", anyTy), ("vtable", vtablePtrTy tr)] []]

def paramN (i : Nat) : String := "p" ++ toString i

def wrapParams (i : Nat) : List Ty → List (String × GTy)
  | [] => []
  | t :: ts => (paramN i, goTy t) :: wrapParams (i + 1) ts

/-- `gen_dyn_wrap_fn` -/
def genDynWrapFn (tr : String) (forTy : Ty) (m : String) (ps : List Ty) (r : Ty) : GFunc :=
  let implName := gid (Goml.Mono.traitImplFnName tr forTy m)
  let recvTy := goTy forTy
  let retTy := goTy r
  let wps := wrapParams 0 ps
  { name := dynWrapName tr forTy m,
    params := ("self", anyTy) :: wps,
    ret := some retTy,
    body := [.ret (some (.call retTy (.var implName (.func (recvTy :: goTys ps) retTy))
      (.cast recvTy (.var "self" anyTy) :: wps.map fun p => .var p.1 p.2)))] }

/-- `gen_dyn_vtable_ctor_fn` -/
def genDynVtableCtorFn (tr : String) (forTy : Ty) (sigs : List (String × List Ty × Ty)) : GFunc :=
  { name := dynVtableCtorName tr forTy, params := [], ret := some (vtablePtrTy tr),
    body := [.ret (some (.un .addr (vtablePtrTy tr)
      (.slit (.name (dynVtableStructName tr))
        (sigs.map fun s => .mk (gid s.1) (.var (dynWrapName tr forTy s.1) (slotTy s.2.1 s.2.2))))))] }

/-- `gen_dyn_helper_fns` -/
def genDynHelperFns (env : Env) (req : DynReq) : List GItem :=
  (sortStable vtableLe req.vtables).flatMap fun (tr, forTy) =>
    let sigs := (traitMethodSigs env tr).getD []
    (sigs.map fun s => GItem.func (genDynWrapFn tr forTy s.1 s.2.1 s.2.2)) ++
      [.func (genDynVtableCtorFn tr forTy sigs)]

def okDyn (env : Env) (req : DynReq) : Bool :=
  (req.traits.all fun tr => match traitMethodSigs env tr with
    | some sigs => sigs.all fun s => okTys s.2.1 && okTy s.2.2
    | none => false) &&
  (req.vtables.all fun p => (traitMethodSigs env p.1).isSome && Mangle.encodeOk (toM p.2) && okTy p.2)

/-! ## `gen_type_definition` -/

def isParamTy : Ty → Bool
  | .param _ => true
  | _ => false

/-- is `p` an infix of the list -/
def listInfix (p : List Char) : List Char → Bool
  | [] => p.isEmpty
  | c :: cs => p.isPrefixOf (c :: cs) || listInfix p cs

/-- `str::contains` -/
def strContains (s pat : String) : Bool := listInfix pat.toList s.toList

def variantFields (i : Nat) : List Ty → List (String × GTy)
  | [] => []
  | t :: ts => (fieldN i, goTy t) :: variantFields (i + 1) ts

def genStructDefs (ss : List StructDef) : List GItem :=
  ss.flatMap fun d =>
    if strContains d.name "TParam" || !d.generics.isEmpty || d.fields.any (fun f => isParamTy f.2) then []
    else [.structDef (gid d.name) (d.fields.map fun f => (gid f.1, goTy f.2)) []]

def genEnumDefs (env : Env) (es : List EnumDef) : List GItem :=
  es.flatMap fun d =>
    if strContains d.name "TParam" || d.variants.any (fun v => v.2.any isParamTy) then []
    else
      let marker := "is" ++ gid d.name
      .interface (gid d.name) [(marker, [], none)] ::
        d.variants.map fun v =>
          let vname := variantStructName env d.name v.1
          .structDef vname (variantFields 0 v.2)
            [{ recvName := "_", recvTy := .name vname, name := marker, params := [], body := [] }]

def genExternTypes (ts : List (String × String × Option String)) : List GItem :=
  ts.flatMap fun (name, goName, pkg) =>
    match pkg with
    | some p => [.alias (gid name) (.name (goPackageAlias p ++ "." ++ goName))]
    | none => []

/-- `gen_type_definition` -/
def genTypeDefinition (env : Env) : List GItem :=
  genStructDefs env.structs ++ genEnumDefs env env.enums ++ genExternTypes env.externTys

def okTypeDefinition (env : Env) : Bool :=
  (env.structs.all fun d =>
    strContains d.name "TParam" || !d.generics.isEmpty || d.fields.any (fun f => isParamTy f.2) ||
      d.fields.all fun f => okTy f.2) &&
  (env.enums.all fun d =>
    strContains d.name "TParam" || d.variants.any (fun v => v.2.any isParamTy) ||
      d.variants.all fun v => okTys v.2)

/-- `struct_def_is_emitted` / `enum_def_is_emitted`: the definitions `gen_type_definition` emits -/
def structEmitted (d : StructDef) : Bool :=
  !(strContains d.name "TParam" || !d.generics.isEmpty || d.fields.any (fun f => isParamTy f.2))
def enumEmitted (d : EnumDef) : Bool :=
  !(strContains d.name "TParam" || d.variants.any (fun v => v.2.any isParamTy))

/-- `collect_dyn_requirements`: the functions first, then the field types of every emitted struct and the payload
    types of every emitted enum (a `dyn Trait` type that occurs only inside a type definition still needs its
    trait object struct and vtable struct) -/
def collectDynRequirements (env : Env) (file : AFile) : DynReq :=
  let r := collectDynFns file
  let r := env.structs.foldl (fun r d => if structEmitted d then dynTys r (d.fields.map (·.2)) else r) r
  env.enums.foldl (fun r d => if enumEmitted d then d.variants.foldl (fun r v => dynTys r v.2) r else r) r

/-- `collect_runtime_types`: the functions first, then the field types of every emitted struct and the payload
    types of every emitted enum (a tuple / Ref / array type that occurs only inside a type definition still needs
    its runtime declaration) -/
def collectRuntimeTypes (env : Env) (file : AFile) : RT :=
  let rt := collectFnsTypes file
  let rt := env.structs.foldl (fun rt d => if structEmitted d then collectTypes rt (d.fields.map (·.2)) else rt) rt
  env.enums.foldl (fun rt d => if enumEmitted d then d.variants.foldl (fun rt v => collectTypes rt v.2) rt else rt) rt

/-! ## `go_file` -/

/-- the import specs added for `extern "go"` functions and types: package paths not imported yet,
    in first-occurrence order (functions first) -/
def extraImportPaths (env : Env) (existing : List String) : List String :=
  let step (acc : List String × List String) (p : String) : List String × List String :=
    if acc.1.contains p then acc else (acc.1 ++ [p], acc.2 ++ [p])
  let a := env.externFns.foldl (fun acc f => step acc f.2.1) (existing, [])
  let b := env.externTys.foldl (fun acc t => match t.2.2 with | some p => step acc p | none => acc) a
  b.2

def addImports (extra : List (String × String)) : List GItem → List GItem
  | [] => []
  | .imports specs :: rest => .imports (specs ++ extra) :: rest
  | it :: rest => it :: addImports extra rest

def existingImports (items : List GItem) : List String :=
  items.flatMap fun | .imports specs => specs.map (·.2) | _ => []

def mainFn : GFunc :=
  { name := "main", params := [], ret := none,
    body := [.expr (.call .void (.var "main0" (.func [] .void)) [])] }

def tupleStructs : List Ty → List GItem
  | [] => []
  | t :: ts =>
    (match goTy t with
     | .struct n fs => [GItem.structDef n fs []]
     | _ => []) ++ tupleStructs ts

/-- everything `go_file` builds before it calls `eliminate_dead_vars`; the second component is the
    `Gensym` counter afterwards and the "no panic" flag -/
def goFilePreSt (env : Env) (file : AFile) (n : Nat) : GFile × St :=
  let rt := collectRuntimeTypes env file
  let base := makeRuntime ++ arrayRuntime rt.arrays ++ refRuntime rt.refs
  let withImports :=
    if env.externFns.isEmpty && env.externTys.isEmpty then base
    else
      let extra := extraImportPaths env (existingImports base)
      if extra.isEmpty then base else addImports (extra.map fun p => (goImportAlias p, p)) base
  let req := collectDynRequirements env file
  let fns := compileFns env { n := n, ok := true } file
  let ok := fns.2.ok && okArrayRuntime rt.arrays && okRefRuntime rt.refs && rt.tuples.all okTy &&
    okTypeDefinition env && okDyn env req
  ({ items := withImports ++ tupleStructs rt.tuples ++ genTypeDefinition env ++ genDynTypeDefinitions env req ++
      genDynHelperFns env req ++ fns.1.map GItem.func ++ [.func mainFn] }, { n := fns.2.n, ok := ok })

/-- the file before dead-code elimination; `none` where the Rust panics -/
def goFilePre (env : Env) (file : AFile) (n : Nat) : Option GFile :=
  let r := goFilePreSt env file n
  if r.2.ok then some r.1 else none

end Goml.GoCompile
