import GomlVerif.Model.Num
/-
C10 — Go constant expressions over FLOAT (and mixed) literals.

The backend keeps literal operands as ANF immediates and prints them as bare Go literals, so an operator whose
operands are all literals reaches Go as a *constant expression* (`var r float32 = 0.1 + 0.6`).  Go spec,
"Constants" / "Constant expressions": numeric literals are untyped constants of arbitrary precision; constant
expressions are evaluated **exactly**; the value is converted (rounded, for floating-point types) **once**, where
the constant is used at a typed position; a constant divisor must not be zero; a constant that overflows the target
type is a compile-time error; there is no negative zero constant.

So what Go computes depends on the printed *text* of every literal operand, not on the float it was parsed to.
This file gives (1) exact rationals and the reading of a decimal literal text, (2) correct rounding of a rational to
IEEE binary32/binary64 bits (`roundQ`), (3) the constant-expression evaluator `constEval`, (4) the run-time IEEE
operations on bits (`ieeeBin`, by their IEEE-754 definition: the exact result, correctly rounded).
Only `Model/Num.lean` is imported; `Model/GoSem.lean` is not touched (see the driver for how the evaluator is
applied to the printed Go text).
-/
namespace Goml.GoConst
open Goml.Num

/-! ## exact rationals (not normalised; `den > 0` is maintained by every operation) -/

structure Q where
  num : Int
  den : Nat
  deriving Repr, DecidableEq

namespace Q
def ofInt (n : Int) : Q := ⟨n, 1⟩
def add (a b : Q) : Q := ⟨a.num * b.den + b.num * a.den, a.den * b.den⟩
def neg (a : Q) : Q := ⟨-a.num, a.den⟩
def sub (a b : Q) : Q := add a (neg b)
def mul (a b : Q) : Q := ⟨a.num * b.num, a.den * b.den⟩
/-- `none` when the divisor is zero -/
def div? (a b : Q) : Option Q :=
  if b.num = 0 then none
  else if b.num > 0 then some ⟨a.num * b.den, a.den * b.num.toNat⟩
  else some ⟨-(a.num * b.den), a.den * (-b.num).toNat⟩
def lt (a b : Q) : Bool := a.num * b.den < b.num * a.den
def le (a b : Q) : Bool := a.num * b.den ≤ b.num * a.den
/-- same rational number -/
def eqv (a b : Q) : Bool := a.num * b.den == b.num * a.den
def isInt (a : Q) : Bool := a.num % a.den == 0
def isZero (a : Q) : Bool := a.num == 0
end Q

/-- the rational a decimal literal text `digits[.digits]` denotes (what Go's scanner reads); `none` for any other
    spelling (exponents are never printed by Rust's `{}` of an `f64`/`f32` in the tested range) -/
def ofDecimal (cs : List Char) : Option Q :=
  let ip := cs.takeWhile (· != '.')
  let rest := cs.dropWhile (· != '.')
  match rest with
  | [] => if IsDigits ip then some (Q.ofInt (decVal ip)) else none
  | _ :: fp =>
    if IsDigits ip ∧ IsDigits fp then some ⟨(decVal (ip ++ fp) : Int), 10 ^ fp.length⟩ else none

/-! ## correct rounding to IEEE-754 binary formats: `p` significand bits (24 / 53), `ebits` exponent bits (8 / 11) -/

/-- bits of the binary(p, ebits) number nearest to `n / d` (`d > 0`), ties to even; `none` = the result would be
    infinite (for a Go constant: "constant overflows") -/
def roundPos (p ebits n d : Nat) : Option Nat :=
  if n = 0 then some 0 else
  let bias : Nat := 2 ^ (ebits - 1) - 1
  let emin : Int := 1 - (bias : Int)
  let emax : Int := (bias : Int)
  let geq (e : Int) : Bool := if e ≥ 0 then d * 2 ^ e.toNat ≤ n else d ≤ n * 2 ^ (-e).toNat   -- 2^e ≤ n/d
  let e0 : Int := (Nat.log2 n : Int) - (Nat.log2 d : Int)
  let e : Int := if geq e0 then e0 else e0 - 1                                               -- ⌊log2 (n/d)⌋
  let ee : Int := if e < emin then emin else e
  let sh : Int := ee - ((p : Int) - 1)                                                       -- quantum = 2^sh
  let num' : Nat := if sh ≥ 0 then n else n * 2 ^ (-sh).toNat
  let den' : Nat := if sh ≥ 0 then d * 2 ^ sh.toNat else d
  let m0 := num' / den'
  let r := num' % den'
  let m1 := if 2 * r > den' ∨ (2 * r = den' ∧ m0 % 2 = 1) then m0 + 1 else m0
  let carry := m1 = 2 ^ p
  let m := if carry then 2 ^ (p - 1) else m1
  let ee' : Int := if carry then ee + 1 else ee
  if ee' > emax then none
  else if m < 2 ^ (p - 1) then some m                                                        -- subnormal or zero
  else some ((ee' + (bias : Int)).toNat * 2 ^ (p - 1) + (m - 2 ^ (p - 1)))

/-- signed version; a rational zero is +0 (Go has no negative-zero constant) -/
def roundQ (p ebits : Nat) (q : Q) : Option Nat :=
  if q.num < 0 then (roundPos p ebits (-q.num).toNat q.den).map (· + 2 ^ (p - 1 + ebits))
  else roundPos p ebits q.num.toNat q.den

/-- the rational a finite float with these bits stands for (`none`: infinity / NaN) -/
def valOfBits (p ebits bits : Nat) : Option Q :=
  let bias : Nat := 2 ^ (ebits - 1) - 1
  let sign := bits / 2 ^ (p - 1 + ebits) % 2
  let ef := bits / 2 ^ (p - 1) % 2 ^ ebits
  let mant := bits % 2 ^ (p - 1)
  if ef = 2 ^ ebits - 1 then none else
  let m : Nat := if ef = 0 then mant else mant + 2 ^ (p - 1)
  let e : Int := (if ef = 0 then 1 else (ef : Int)) - (bias : Int) - ((p : Int) - 1)
  let mag : Q := if e ≥ 0 then ⟨(m * 2 ^ e.toNat : Nat), 1⟩ else ⟨(m : Int), 2 ^ (-e).toNat⟩
  some (if sign = 1 then mag.neg else mag)

/-! ## Go constant expressions -/

/-- an untyped constant expression as printed: literal tokens, unary minus, the binary operators, parentheses -/
inductive CExpr where
  | lit (text : String)
  | neg (e : CExpr)
  | bin (sym : String) (l r : CExpr)
  | paren (e : CExpr)
  deriving Repr

/-- value of an untyped constant: integer kind, floating-point kind (a literal with a `.`), or boolean -/
inductive CVal where
  | int (v : Int)
  | flt (q : Q)
  | bool (b : Bool)
  deriving Repr

inductive CErr where
  | divisionByZero          -- "invalid operation: division by zero"
  | overflows               -- "constant … overflows float32"
  | notRepresentable        -- "constant … truncated to integer" / out of an integer type's range
  | badLiteral
  | mismatched              -- operator not defined on these constant kinds
  deriving Repr, DecidableEq

def CVal.toQ : CVal → Option Q
  | .int v => some (Q.ofInt v)
  | .flt q => some q
  | .bool _ => none

/-! ### how Go reads one numeric token (Go spec, "Integer literals" / "Floating-point literals", decimal forms)

`float_lit = digits "." [digits] [exp] | digits exp | "." digits [exp]`, `exp = ("e"|"E") ["+"|"-"] digits`.
A token with a `.` or an exponent is a FLOATING-POINT constant; a token of digits only is an INTEGER constant (octal
when it starts with `0`) — and an operator on two integer constants is integer arithmetic (`7 / 2` is 3).  The printer's
`text.contains(['.', 'e', 'E'])` test in `go_float_literal` is exactly `isFloatText`.  Hexadecimal forms and `_`
separators are not read (no Rust formatting trait prints them): `badLiteral`. -/

/-- Go's kind test on a decimal numeric token: a decimal point or an exponent makes it a floating-point literal -/
def isFloatText (cs : List Char) : Bool := cs.any fun c => c == '.' || c == 'e' || c == 'E'

/-- mantissa `digits . [digits]`, `. digits` or `digits` -/
def ofMantissa (cs : List Char) : Option Q :=
  let ip := cs.takeWhile (· != '.')
  match cs.dropWhile (· != '.') with
  | [] => if IsDigits ip then some (Q.ofInt (decVal ip)) else none
  | _ :: fp =>
    if (ip = [] ∨ IsDigits ip) ∧ (fp = [] ∨ IsDigits fp) ∧ ¬ (ip = [] ∧ fp = []) then
      some ⟨(decVal (ip ++ fp) : Int), 10 ^ fp.length⟩
    else none

/-- the digits after `e` / `E`, with an optional sign -/
def expVal (ex : List Char) : Option Int :=
  match ex with
  | '+' :: d => if IsDigits d then some (decVal d : Int) else none
  | '-' :: d => if IsDigits d then some (-(decVal d : Int)) else none
  | d => if IsDigits d then some (decVal d : Int) else none

/-- `q · 10^e` -/
def Q.scale10 (q : Q) (e : Int) : Q :=
  if e ≥ 0 then ⟨q.num * (10 ^ e.toNat : Nat), q.den⟩ else ⟨q.num, q.den * 10 ^ (-e).toNat⟩

/-- the rational a Go floating-point literal token (decimal forms) denotes -/
def ofGoFloatText (cs : List Char) : Option Q :=
  let isE : Char → Bool := fun c => c == 'e' || c == 'E'
  let m := cs.takeWhile (!isE ·)
  match cs.dropWhile (!isE ·) with
  | [] => ofMantissa m
  | _ :: ex =>
    match ofMantissa m, expVal ex with
    | some q, some e => some (q.scale10 e)
    | _, _ => none

/-- one numeric token: its kind and exact value -/
def litValL (cs : List Char) : Except CErr CVal :=
  if isFloatText cs then
    match ofGoFloatText cs with
    | some q => .ok (.flt q)
    | none => .error .badLiteral
  else
    match goIntToken cs with
    | some n => .ok (.int (n : Int))
    | none => .error .badLiteral

def litVal (text : String) : Except CErr CVal := litValL text.toList

/-- `go_float_literal`: the text Rust's formatting gives, with the suffix appended when it shows neither a `.` nor
    an exponent -/
def spellFloat (suffix text : List Char) : List Char := if isFloatText text then text else text ++ suffix

def isArith (sym : String) : Bool := sym = "+" || sym = "-" || sym = "*" || sym = "/"

/-- one binary operator on two untyped constants, **exactly** (Go spec: integer constants divide with truncation;
    as soon as one operand is of floating-point kind the result is; comparison yields an untyped boolean) -/
def constBin (sym : String) (a b : CVal) : Except CErr CVal :=
  match a, b with
  | .int x, .int y =>
    if sym = "+" then .ok (.int (x + y)) else if sym = "-" then .ok (.int (x - y))
    else if sym = "*" then .ok (.int (x * y))
    else if sym = "/" then (if y = 0 then .error .divisionByZero else .ok (.int (x.tdiv y)))
    else if sym = "<" then .ok (.bool (x < y)) else if sym = "<=" then .ok (.bool (x ≤ y))
    else if sym = ">" then .ok (.bool (x > y)) else if sym = ">=" then .ok (.bool (x ≥ y))
    else if sym = "==" then .ok (.bool (x = y)) else if sym = "!=" then .ok (.bool (x ≠ y))
    else .error .mismatched
  | .bool x, .bool y =>
    if sym = "&&" then .ok (.bool (x && y)) else if sym = "||" then .ok (.bool (x || y))
    else if sym = "==" then .ok (.bool (x == y)) else if sym = "!=" then .ok (.bool (x != y))
    else .error .mismatched
  | a, b =>
    match a.toQ, b.toQ with
    | some x, some y =>
      if sym = "+" then .ok (.flt (x.add y)) else if sym = "-" then .ok (.flt (x.sub y))
      else if sym = "*" then .ok (.flt (x.mul y))
      else if sym = "/" then (match x.div? y with | some q => .ok (.flt q) | none => .error .divisionByZero)
      else if sym = "<" then .ok (.bool (x.lt y)) else if sym = "<=" then .ok (.bool (x.le y))
      else if sym = ">" then .ok (.bool (y.lt x)) else if sym = ">=" then .ok (.bool (y.le x))
      else if sym = "==" then .ok (.bool (x.eqv y)) else if sym = "!=" then .ok (.bool (!x.eqv y))
      else .error .mismatched
    | _, _ => .error .mismatched

/-- exact evaluation of a constant expression -/
def constEval : CExpr → Except CErr CVal
  | .lit t => litVal t
  | .paren e => constEval e
  | .neg e =>
    match constEval e with
    | .ok (.int v) => .ok (.int (-v))
    | .ok (.flt q) => .ok (.flt q.neg)
    | .ok (.bool _) => .error .mismatched
    | .error e => .error e
  | .bin sym l r =>
    match constEval l, constEval r with
    | .ok a, .ok b => constBin sym a b
    | .error e, _ => .error e
    | _, .error e => .error e

/-- precision of a Go floating-point type -/
def fmtOf (ty : String) : Option (Nat × Nat) :=
  if ty = "float32" then some (24, 8) else if ty = "float64" then some (53, 11) else none

/-- the ONE conversion at the typed use (`var x float32 = <const>`, operand of a typed operator, argument, result):
    bits of the float the constant becomes -/
def convertFloat (ty : String) (v : CVal) : Except CErr Nat :=
  match fmtOf ty, v.toQ with
  | some (p, e), some q =>
    match roundQ p e q with
    | some b => .ok b
    | none => .error .overflows
  | _, _ => .error .mismatched

/-- what Go computes for a float constant expression used at type `ty` -/
def goFloatConst (ty : String) (e : CExpr) : Except CErr Nat :=
  match constEval e with
  | .ok v => convertFloat ty v
  | .error err => .error err

/-! ## run-time IEEE operations on bits (IEEE-754 §5.4: the infinitely precise result, correctly rounded) -/

def infBits (p ebits : Nat) (neg : Bool) : Nat :=
  (2 ^ ebits - 1) * 2 ^ (p - 1) + (if neg then 2 ^ (p - 1 + ebits) else 0)

def signBit (p ebits bits : Nat) : Bool := bits / 2 ^ (p - 1 + ebits) % 2 = 1

/-- `a sym b` on two finite floats of one format.  A result too large, and a non-zero dividend over a zero divisor, are
    ±Inf (at RUN time — as a Go *constant* both are compile errors, see `goFloatConst`).  `none`: an operand is already
    Inf/NaN, or `0/0`.  Exact-zero results are +0 (the signed-zero rules of IEEE are not modelled). -/
def ieeeBin (p ebits : Nat) (sym : String) (a b : Nat) : Option Nat :=
  match valOfBits p ebits a, valOfBits p ebits b with
  | some x, some y =>
    let fin (q : Q) : Option Nat :=
      match roundQ p ebits q with
      | some r => some r
      | none => some (infBits p ebits (q.num < 0))
    if sym = "+" then fin (x.add y)
    else if sym = "-" then fin (x.sub y)
    else if sym = "*" then fin (x.mul y)
    else if sym = "/" then
      (match x.div? y with
        | some q => fin q
        | none => if x.isZero then none else some (infBits p ebits ((x.num < 0) != signBit p ebits b)))
    else none
  | _, _ => none

/-- comparison of two finite floats -/
def ieeeCmp (p ebits : Nat) (sym : String) (a b : Nat) : Option Bool :=
  match valOfBits p ebits a, valOfBits p ebits b with
  | some x, some y =>
    if sym = "<" then some (x.lt y) else if sym = "<=" then some (x.le y)
    else if sym = ">" then some (y.lt x) else if sym = ">=" then some (y.le x)
    else if sym = "==" then some (x.eqv y) else if sym = "!=" then some (!x.eqv y)
    else none
  | _, _ => none

/-- run-time negation flips the sign bit (so `-x` of `x = +0` is `-0`, unlike the constant `-0.0`) -/
def ieeeNeg (p ebits : Nat) (a : Nat) : Nat :=
  let s := 2 ^ (p - 1 + ebits)
  if a / s % 2 = 1 then a - s else a + s

/-- source meaning of a float literal: the written decimal, correctly rounded to the type -/
def litBits (ty : String) (text : String) : Option Nat :=
  match fmtOf ty, ofDecimal text.toList with
  | some (p, e), some q => roundQ p e q
  | _, _ => none

/-! ## how the printer spells a float literal (table `Gen/FloatPrint`) -/

/-- `f64-display`: Rust `{}` of the f64 (the f32 widened exactly): the shortest decimal that reads back as that f64 —
    it identifies the value among all f64 (error < 2^-53 relative) but is in general NOT the exact value.
    `f32-display`: the shortest decimal that reads back as the f32 — identifies it only among f32 (error up to 2^-25
    relative): a constant expression over such texts is evaluated on visibly different numbers. -/
def printIdentifiesF64 (fmt : String) : Bool := fmt = "f64-display"

end Goml.GoConst
