import GomlVerif.Model.Go
/-!
Structural equality test on the Go AST (`Model/Go.lean` derives none for the mutual block).
Used by the contract predicate `semOK` of `Model/Dce.lean`; sound by `Lemmas/GoEq.lean`.
Import-free (linked into `gomlmodel`).
-/
namespace Goml.Dce
open Goml.Go

mutual
def eqTy : GTy → GTy → Bool
  | .void, b => (match b with | .void => true | _ => false)
  | .unit, b => (match b with | .unit => true | _ => false)
  | .bool, b => (match b with | .bool => true | _ => false)
  | .string, b => (match b with | .string => true | _ => false)
  | .int n s, b => (match b with | .int n' s' => n == n' && s == s' | _ => false)
  | .float n, b => (match b with | .float n' => n == n' | _ => false)
  | .struct n fs, b => (match b with | .struct n' fs' => n == n' && eqTyFields fs fs' | _ => false)
  | .ptr e, b => (match b with | .ptr e' => eqTy e e' | _ => false)
  | .func ps r, b => (match b with | .func ps' r' => eqTys ps ps' && eqTy r r' | _ => false)
  | .name n, b => (match b with | .name n' => n == n' | _ => false)
  | .array k e, b => (match b with | .array k' e' => k == k' && eqTy e e' | _ => false)
  | .slice e, b => (match b with | .slice e' => eqTy e e' | _ => false)
def eqTys : List GTy → List GTy → Bool
  | [], b => (match b with | [] => true | _ => false)
  | a :: as, b => (match b with | a' :: as' => eqTy a a' && eqTys as as' | _ => false)
def eqTyFields : List (String × GTy) → List (String × GTy) → Bool
  | [], b => (match b with | [] => true | _ => false)
  | (x, a) :: as, b => (match b with | (x', a') :: as' => x == x' && eqTy a a' && eqTyFields as as' | _ => false)
end

def eqOptStr : Option String → Option String → Bool
  | none, none => true
  | some a, some b => a == b
  | _, _ => false

mutual
def eqExpr : GExpr → GExpr → Bool
  | .nil t, b => (match b with | .nil t' => eqTy t t' | _ => false)
  | .voidv t, b => (match b with | .voidv t' => eqTy t t' | _ => false)
  | .unitv t, b => (match b with | .unitv t' => eqTy t t' | _ => false)
  | .var x t, b => (match b with | .var x' t' => x == x' && eqTy t t' | _ => false)
  | .bool v, b => (match b with | .bool v' => v == v' | _ => false)
  | .int v t, b => (match b with | .int v' t' => v == v' && eqTy t t' | _ => false)
  | .float v t, b => (match b with | .float v' t' => v == v' && eqTy t t' | _ => false)
  | .str v, b => (match b with | .str v' => v == v' | _ => false)
  | .call t f args, b => (match b with | .call t' f' args' => eqTy t t' && eqExpr f f' && eqExprs args args' | _ => false)
  | .un op t e, b => (match b with | .un op' t' e' => decide (op = op') && eqTy t t' && eqExpr e e' | _ => false)
  | .bin op t l r, b =>
    (match b with | .bin op' t' l' r' => decide (op = op') && eqTy t t' && eqExpr l l' && eqExpr r r' | _ => false)
  | .field f t o, b => (match b with | .field f' t' o' => f == f' && eqTy t t' && eqExpr o o' | _ => false)
  | .index t a i, b => (match b with | .index t' a' i' => eqTy t t' && eqExpr a a' && eqExpr i i' | _ => false)
  | .cast t e, b => (match b with | .cast t' e' => eqTy t t' && eqExpr e e' | _ => false)
  | .slit t fs, b => (match b with | .slit t' fs' => eqTy t t' && eqFields fs fs' | _ => false)
  | .alit t es, b => (match b with | .alit t' es' => eqTy t t' && eqExprs es es' | _ => false)
  | .blocke t ss (some e), b =>
    (match b with | .blocke t' ss' (some e') => eqTy t t' && eqStmts ss ss' && eqExpr e e' | _ => false)
  | .blocke t ss none, b => (match b with | .blocke t' ss' none => eqTy t t' && eqStmts ss ss' | _ => false)
def eqExprs : List GExpr → List GExpr → Bool
  | [], b => (match b with | [] => true | _ => false)
  | a :: as, b => (match b with | a' :: as' => eqExpr a a' && eqExprs as as' | _ => false)
def eqFields : List GField → List GField → Bool
  | [], b => (match b with | [] => true | _ => false)
  | .mk n a :: as, b => (match b with | .mk n' a' :: as' => n == n' && eqExpr a a' && eqFields as as' | _ => false)
def eqStmts : List GStmt → List GStmt → Bool
  | [], b => (match b with | [] => true | _ => false)
  | a :: as, b => (match b with | a' :: as' => eqStmt a a' && eqStmts as as' | _ => false)
def eqStmt : GStmt → GStmt → Bool
  | .expr e, b => (match b with | .expr e' => eqExpr e e' | _ => false)
  | .go e, b => (match b with | .go e' => eqExpr e e' | _ => false)
  | .varDecl x t (some e), b => (match b with | .varDecl x' t' (some e') => x == x' && eqTy t t' && eqExpr e e' | _ => false)
  | .varDecl x t none, b => (match b with | .varDecl x' t' none => x == x' && eqTy t t' | _ => false)
  | .assign x e, b => (match b with | .assign x' e' => x == x' && eqExpr e e' | _ => false)
  | .fieldAssign t e, b => (match b with | .fieldAssign t' e' => eqExpr t t' && eqExpr e e' | _ => false)
  | .ptrAssign t e, b => (match b with | .ptrAssign t' e' => eqExpr t t' && eqExpr e e' | _ => false)
  | .indexAssign a i e, b => (match b with | .indexAssign a' i' e' => eqExpr a a' && eqExpr i i' && eqExpr e e' | _ => false)
  | .ret (some e), b => (match b with | .ret (some e') => eqExpr e e' | _ => false)
  | .ret none, b => (match b with | .ret none => true | _ => false)
  | .ite c t (some e), b => (match b with | .ite c' t' (some e') => eqExpr c c' && eqStmts t t' && eqStmts e e' | _ => false)
  | .ite c t none, b => (match b with | .ite c' t' none => eqExpr c c' && eqStmts t t' | _ => false)
  | .loop body, b => (match b with | .loop body' => eqStmts body body' | _ => false)
  | .brk, b => (match b with | .brk => true | _ => false)
  | .switch e cs (some d), b =>
    (match b with | .switch e' cs' (some d') => eqExpr e e' && eqCases cs cs' && eqStmts d d' | _ => false)
  | .switch e cs none, b => (match b with | .switch e' cs' none => eqExpr e e' && eqCases cs cs' | _ => false)
  | .tswitch bd e cs (some d), b =>
    (match b with
     | .tswitch bd' e' cs' (some d') => eqOptStr bd bd' && eqExpr e e' && eqTCases cs cs' && eqStmts d d'
     | _ => false)
  | .tswitch bd e cs none, b =>
    (match b with | .tswitch bd' e' cs' none => eqOptStr bd bd' && eqExpr e e' && eqTCases cs cs' | _ => false)
def eqCases : List GCase → List GCase → Bool
  | [], b => (match b with | [] => true | _ => false)
  | .mk v a :: as, b => (match b with | .mk v' a' :: as' => eqExpr v v' && eqStmts a a' && eqCases as as' | _ => false)
def eqTCases : List GTCase → List GTCase → Bool
  | [], b => (match b with | [] => true | _ => false)
  | .mk t a :: as, b => (match b with | .mk t' a' :: as' => eqTy t t' && eqStmts a a' && eqTCases as as' | _ => false)
end

end Goml.Dce
