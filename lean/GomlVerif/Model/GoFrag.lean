import GomlVerif.Model.GoCompile
import GomlVerif.Model.Sem
import GomlVerif.Model.Dce
/-!
`InGoFragment`: the decidable hypothesis of `compile_preserves` (`Props/GoCompile.lean`), as
executable `Bool` functions so that the driver can count how many REAL ANF functions satisfy it
and print why the others do not.

Stage (a) of the back end plus struct and enum values of stage (b): scalars (unit, bool, the eight
integer types, string — no float literals), values of admitted struct types (`goodStructs`: known,
non-generic, Go field names pairwise distinct, every field of an admitted type; user structs and the
closure-environment structs of lambda lifting alike) and of admitted enum types (`goodEnums`: known,
non-generic, the Go struct names of the variants pairwise distinct, every payload of an admitted
type; recursive enums included), arithmetic / comparison / logic operators on scalar immediates,
struct and enum construction, field access (an enum payload only where the enclosing `match` arm
fixes the variant: the context `K`), `match` on an enum variable (type switch), on a bool / integer /
string (value switch) and on unit (first arm in place), `let`, `if`, `while`,
calls to top-level functions of the file that are themselves in the fragment (hence also the
`apply` functions of closures when called by name), and the printing / string builtins of
`builtinSig`.  The predicate is a small type checker: every variable is in scope with the type its
use site carries, every operator is applied at a type on which `Sem` and `Go.Sem` both define it,
every call and constructor has the right arity and types.

Besides the source-side check there is a Go-side one, evaluated on the model's own output for the
function (`goLocalOK`): the names the compiled function declares (`vn x`, `ret<n>`, `cond<n>`) are
pairwise distinct, none of them is `_`, and none is the Go name of a callee (`calleesA`) — i.e. `go_ident` and
the renaming did not merge two names and no temporary captures anything.  (A type switch re-binds
its own scrutinee variable; that binding is not a declaration in this sense: `ndDecls`.)  File level
(`fileOK`): Go function names are pairwise distinct (so that `findFunc` finds the compiled
function), no user function is spelled like a builtin or like a Go function the runtime calls, the
sets of admitted structs and enums are closed and the emitted file declares each of them with its fields.
-/
namespace Goml.GoFrag
open Goml Goml.Go Goml.GoCompile

/-- the scalar types of stage (a) -/
def scalarTy : Ty → Bool
  | .unit => true
  | .bool => true
  | .int _ _ => true
  | .string => true
  | _ => false

mutual
/-- equality of fragment types (scalars, struct / enum types by name, references and tuples componentwise) -/
def scalarEq : Ty → Ty → Bool
  | .unit, .unit => true
  | .bool, .bool => true
  | .int b s, .int b' s' => b == b' && s == s'
  | .string, .string => true
  | .struct a, .struct b => a == b
  | .enum a, .enum b => a == b
  | .ref a, .ref b => scalarEq a b
  | .tuple as, .tuple bs => scalarEqs as bs
  | .array l a, .array l' b => l == l' && decide (1 ≤ l) && decide (l ≤ 100000000) && scalarEq a b
  | .func as r, .func bs r' => scalarEqs as bs && scalarEq r r'
  | .vec a, .vec b => scalarEq a b
  | .dyn a, .dyn b => a == b
  | _, _ => false
def scalarEqs : List Ty → List Ty → Bool
  | [], [] => true
  | a :: as, b :: bs => scalarEq a b && scalarEqs as bs
  | _, _ => false
end

mutual
/-- scalar, a struct / enum type (by name), or a reference to / a tuple of / a non-empty array (of a length a Go
    compiler accepts) of such -/
def flatTy : Ty → Bool
  | .struct _ => true
  | .enum _ => true
  | .ref e => flatTy e
  | .tuple ts => flatTys ts
  | .array len e => decide (1 ≤ len) && decide (len ≤ 100000000) && flatTy e
  | .func ps r => flatTys ps && flatTy r
  | .vec e => flatTy e
  | .dyn _ => true
  | t => scalarTy t
def flatTys : List Ty → Bool
  | [] => true
  | t :: ts => flatTy t && flatTys ts
end

mutual
/-- value types relative to sets `S`, `E` of admitted struct and enum names: scalars, admitted structs and
    enums, references to and tuples of value types -/
def valTyS (S E : List String) : Ty → Bool
  | .struct n => S.contains n
  | .enum n => E.contains n
  | .ref e => valTyS S E e
  | .tuple ts => valTysS S E ts
  | .array len e => decide (1 ≤ len) && decide (len ≤ 100000000) && valTyS S E e
  | .func ps r => valTysS S E ps && valTyS S E r
  | .vec e => valTyS S E e
  | .dyn _ => true
  | t => scalarTy t
def valTysS (S E : List String) : List Ty → Bool
  | [] => true
  | t :: ts => valTyS S E t && valTysS S E ts
end

/-- `_i, _{i+1}, …` (`k` names): the Go field names of a variant struct (and of a tuple struct) -/
def fieldNames : Nat → Nat → List String
  | _, 0 => []
  | i, k + 1 => fieldN i :: fieldNames (i + 1) k

/-- a struct admitted as a value type: known, not generic, Go field names pairwise distinct, every
    field of an admitted type (closure-environment structs are ordinary structs here) -/
def structLocalOK (env : Env) (S E : List String) (n : String) : Bool :=
  match env.getStruct n with
  | some d => d.generics.isEmpty && (d.fields.map fun f => gid f.1).Nodup && d.fields.all (fun f => valTyS S E f.2)
  | none => false

/-- the Go struct type of variant `v` of enum `n` -/
def variantGoName (env : Env) (n v : String) : String := gid (variantStructName env n v)

/-- an enum admitted as a value type: known, not generic, the Go struct names of its variants
    pairwise distinct (a type switch tells them apart), every payload of an admitted type, the payload
    field names `_0, _1, …` pairwise distinct -/
def enumLocalOK (env : Env) (S E : List String) (n : String) : Bool :=
  match env.getEnum n with
  | some d => d.generics.isEmpty && (d.variants.map fun v => variantGoName env n v.1).Nodup &&
      d.variants.all (fun v => v.2.all (valTyS S E) && (fieldNames 0 v.2.length).Nodup)
  | none => false

/-- candidate sets of admitted structs and enums: iterate "drop the types that fail the local check" -/
def refineTypes (env : Env) : Nat → List String × List String → List String × List String
  | 0, T => T
  | k + 1, T =>
    let S' := T.1.filter (structLocalOK env T.1 T.2)
    let E' := T.2.filter (enumLocalOK env T.1 T.2)
    if S'.length == T.1.length && E'.length == T.2.length then T else refineTypes env k (S', E')

def goodTypes (env : Env) : List String × List String :=
  refineTypes env (env.structsLookup.length + env.enums.length + 1)
    ((env.structsLookup.map (·.name)).eraseDups, (env.enums.map (·.name)).eraseDups)

def goodStructs (env : Env) : List String := (goodTypes env).1
def goodEnums (env : Env) : List String := (goodTypes env).2

/-- the closure property the proofs use (re-checked, not proved of the iteration) -/
def structsClosed (env : Env) : Bool :=
  (goodStructs env).all (structLocalOK env (goodStructs env) (goodEnums env)) &&
  (goodEnums env).all (enumLocalOK env (goodStructs env) (goodEnums env))

/-- the value types of the fragment -/
def valTy (env : Env) (t : Ty) : Bool := valTyS (goodStructs env) (goodEnums env) t

/-- the emitted file declares the struct with exactly these field names (what a composite literal
    of the type evaluates against) -/
def structTableOK (env : Env) (F : GFile) (n : String) : Bool :=
  match F.structFields (gid n), env.getStruct n with
  | some decl, some d => decl.map (·.1) == d.fields.map (fun f => gid f.1)
  | _, _ => false

/-- the emitted file declares no struct under the Go name of a variant, or declares it with exactly
    the payload fields `_0, _1, …` -/
def enumTableOK (env : Env) (F : GFile) (n : String) : Bool :=
  match env.getEnum n with
  | some d => d.variants.all fun v =>
      match F.structFields (variantGoName env n v.1) with
      | some decl => decl.map (·.1) == fieldNames 0 v.2.length
      | none => true
  | none => false

/-- the emitted file declares the cell struct of a reference type of the fragment with the one field `value` -/
def refTableOK (env : Env) (F : GFile) (t : Ty) : Bool :=
  match t with
  | .ref e =>
    !valTy env t ||
      (match F.structFields (refStructName e) with
       | some decl => decl.map (·.1) == ["value"]
       | none => false)
  | _ => true

/-- the emitted file declares the struct of a tuple type of the fragment with the fields `_0, _1, …` -/
def tupleTableOK (env : Env) (F : GFile) (t : Ty) : Bool :=
  match t with
  | .tuple ts =>
    !valTy env t ||
      ((fieldNames 0 ts.length).Nodup &&
       (match F.structFields (goTypeNameFor t) with
        | some decl => decl.map (·.1) == fieldNames 0 ts.length
        | none => false))
  | _ => true

def intTy : Ty → Bool
  | .int _ _ => true
  | _ => false

abbrev Ctx := List (String × Ty)

def lookupTy (Γ : Ctx) (x : String) : Option Ty :=
  match Γ.find? (·.1 == x) with
  | some p => some p.2
  | none => none

/-- variables whose value is known to be a given variant of its enum (the scrutinee inside the arm
    a `match` selected) -/
abbrev KCtx := List (String × Nat)

def lookupK (K : KCtx) (x : String) : Option Nat :=
  match K.find? (·.1 == x) with
  | some p => some p.2
  | none => none

/-- a `let x` hides what was known about an outer `x` -/
def eraseK (K : KCtx) (x : String) : KCtx := K.filter (fun p => p.1 != x)

/-- a literal whose Go spelling denotes the same value: the annotation is the literal's own type
    and an integer lies in the range of that type (Go wraps the literal, `Sem` does not) -/
def okPrim (p : Prim) (ty : Ty) : Bool :=
  match p, ty with
  | .unit, .unit => true
  | .bool _, .bool => true
  | .str _, .string => true
  | .int b s v, .int b' s' => b == b' && s == s' && Sem.wrap b s v == v
  | _, _ => false

/-- variant `idx` of an admitted enum type: enum name, variant name, payload types -/
def variantOf (env : Env) (ty : Ty) (idx : Nat) : Option (String × String × List Ty) :=
  match ty with
  | .enum n =>
    if (goodEnums env).contains n then
      match env.getEnum n with
      | some d =>
        match d.variants[idx]? with
        | some v => some (n, v.1, v.2)
        | none => none
      | none => none
    else none
  | _ => none

/-- the builtins of stage (a): parameter types and result type -/
def builtinSig : String → Option (List Ty × Ty)
  | "unit_to_string" => some ([.unit], .string)
  | "bool_to_string" => some ([.bool], .string)
  | "int8_to_string" => some ([.int 8 true], .string)
  | "int16_to_string" => some ([.int 16 true], .string)
  | "int32_to_string" => some ([.int 32 true], .string)
  | "int64_to_string" => some ([.int 64 true], .string)
  | "uint8_to_string" => some ([.int 8 false], .string)
  | "uint16_to_string" => some ([.int 16 false], .string)
  | "uint32_to_string" => some ([.int 32 false], .string)
  | "uint64_to_string" => some ([.int 64 false], .string)
  | "string_print" => some ([.string], .unit)
  | "string_println" => some ([.string], .unit)
  | "string_len" => some ([.string], .int 32 true)
  | _ => none

def builtinNames : List String :=
  ["unit_to_string", "bool_to_string", "int8_to_string", "int16_to_string", "int32_to_string", "int64_to_string",
   "uint8_to_string", "uint16_to_string", "uint32_to_string", "uint64_to_string", "string_print", "string_println",
   "string_len"]

/-- callee names `compile_cexpr` treats specially (array / ref / vec helpers, `missing`) -/
def specialCallees : List String :=
  ["array_get", "array_set", "ref", "ref_get", "ref_set", "vec_new", "vec_push", "vec_get", "vec_len", "missing"]

/-- the functions that may be used as values and called through a variable: the non-entry functions of `G`
    (whose name the renaming leaves alone) and the printing builtins, with their signatures -/
def fnSigs (file : AFile) (G : List String) : List (String × List Ty × Ty) :=
  ((file.filter fun f => G.contains f.name && !isEntry f.name && rn f.name == f.name).map
    fun f => (f.name, f.params.map (·.2), f.ret)) ++
  builtinNames.filterMap fun b => (builtinSig b).map fun sg => (b, sg.1, sg.2)

/-- a top-level function name used as a value at its own signature -/
def fnValOK (env : Env) (file : AFile) (G : List String) (x : String) (ty : Ty) : Bool :=
  match ty with
  | .func ps r =>
    !specialCallees.contains x && (env.getExternFn x).isNone &&
    (match (fnSigs file G).find? (·.1 == x) with
     | some e => scalarEqs e.2.1 ps && scalarEq e.2.2 r
     | none => false)
  | _ => false

def immOK (env : Env) (file : AFile) (G : List String) (Γ : Ctx) : Imm → Bool
  | .var x ty => (match lookupTy Γ x with | some t => scalarEq t ty | none => fnValOK env file G x ty)
  | .prim p ty => okPrim p ty
  | .tag idx ty => (match variantOf env ty idx with | some v => v.2.2.isEmpty | none => false)

/-- operand types at which a binary operator is in the fragment (`Sem` and `Go.Sem` both define it) -/
def binDom : BinOp → Ty → Bool
  | .add, .int _ _ => true
  | .add, .string => true
  | .sub, .int _ _ => true
  | .mul, .int _ _ => true
  | .div, .int _ _ => true
  | .less, .int _ _ => true
  | .less, .string => true
  | .greater, .int _ _ => true
  | .greater, .string => true
  | .lessEq, .int _ _ => true
  | .lessEq, .string => true
  | .greaterEq, .int _ _ => true
  | .greaterEq, .string => true
  | .eq, t => scalarTy t
  | .notEq, t => scalarTy t
  | .and, .bool => true
  | .or, .bool => true
  | _, _ => false

def binResTy : BinOp → Ty → Ty
  | .add, t => t
  | .sub, t => t
  | .mul, t => t
  | .div, t => t
  | _, _ => .bool

/-- operand / result types at which a binary operator is in the fragment -/
def binOK (op : BinOp) (tl tr ty : Ty) : Bool :=
  scalarEq tl tr && binDom op tl && scalarEq ty (binResTy op tl)

def unOK (op : UnOp) (te ty : Ty) : Bool :=
  match op with
  | .neg => intTy te && scalarEq ty te
  | .not => scalarEq te .bool && scalarEq ty .bool

def argsOK (env : Env) (file : AFile) (G : List String) (Γ : Ctx) : List Imm → List Ty → Bool
  | [], [] => true
  | a :: as, t :: ts => immOK env file G Γ a && scalarEq a.ty t && argsOK env file G Γ as ts
  | _, _ => false

/-- a call in the fragment: the callee is a name that is not a local, not a special helper, not an
    `extern`, is unchanged by the renaming, and is either a stage (a) builtin or a function of the
    file that belongs to `G`, called at its own arity and types -/
def callOK (env : Env) (file : AFile) (G : List String) (Γ : Ctx) (f : Imm) (args : List Imm) (ty : Ty) : Bool :=
  match f with
  | .var name _ =>
    (lookupTy Γ name).isNone && rn name == name && !specialCallees.contains name &&
    (env.getExternFn name).isNone && !isEntry name &&
    (match builtinSig name with
     | some (ps, r) => builtinNames.contains name && argsOK env file G Γ args ps && scalarEq ty r
     | none =>
       match file.find? (·.name == name) with
       | some g => G.contains name && argsOK env file G Γ args (g.params.map (·.2)) && scalarEq ty g.ret
       | none => false)
  | _ => false

/-- a tuple type whose struct `go_file` emits: a value type that `collect_runtime_types` finds in the file -/
def tupleTyOK (env : Env) (file : AFile) (t : Ty) : Bool :=
  valTy env t && (collectRuntimeTypes env file).tuples.any (Goml.Mono.tyBeq t)

/-- the names of the reference builtins (`ref(v)`, `ref_get(r)`, `ref_set(r, v)`) -/
def refNames : List String := ["ref", "ref_get", "ref_set"]

/-- a reference type whose helpers `go_file` emits: a value type that `collect_runtime_types` finds in the file -/
def refTyOK (env : Env) (file : AFile) (t : Ty) : Bool :=
  valTy env t && (collectRuntimeTypes env file).refs.any (Goml.Mono.tyBeq t)

/-- a call of a reference builtin at the types of the cell: `ref(v) : Ref[e]`, `ref_get(r) : e`,
    `ref_set(r, v) : unit` -/
def refCallOK (env : Env) (file : AFile) (G : List String) (Γ : Ctx) (f : Imm) (args : List Imm) (ty : Ty) : Bool :=
  match f with
  | .var name _ =>
    (lookupTy Γ name).isNone && rn name == name &&
    (if name == "ref" then
       (match ty with
        | .ref e => argsOK env file G Γ args [e] && refTyOK env file (.ref e)
        | _ => false)
     else if name == "ref_get" then argsOK env file G Γ args [.ref ty] && refTyOK env file (.ref ty)
     else if name == "ref_set" then
       (match args with
        | r :: _ =>
          (match r.ty with
           | .ref e => argsOK env file G Γ args [.ref e, e] && scalarEq ty .unit && refTyOK env file (.ref e)
           | _ => false)
        | [] => false)
     else false)
  | _ => false

/-- the names of the array builtins (`array_get(a, i)`, `array_set(a, i, v)`) -/
def arrNames : List String := ["array_get", "array_set"]

/-- an array type whose helpers `go_file` emits: a value type that `collect_runtime_types` finds in the file -/
def arrTyOK (env : Env) (file : AFile) (t : Ty) : Bool :=
  valTy env t && (collectRuntimeTypes env file).arrays.any (Goml.Mono.tyBeq t)

/-- a call of an array builtin: `array_get(a, i) : e`, `array_set(a, i, v) : [e; n]`, the index of any integer type -/
def arrCallOK (env : Env) (file : AFile) (G : List String) (Γ : Ctx) (f : Imm) (args : List Imm) (ty : Ty) : Bool :=
  match f with
  | .var name _ =>
    (lookupTy Γ name).isNone && rn name == name &&
    (match args with
     | a :: i :: _ =>
       (match a.ty with
        | .array len e =>
          intTy i.ty && arrTyOK env file (.array len e) &&
          (if name == "array_get" then argsOK env file G Γ args [.array len e, i.ty] && scalarEq ty e
           else if name == "array_set" then argsOK env file G Γ args [.array len e, i.ty, e] && scalarEq ty (.array len e)
           else false)
        | _ => false)
     | _ => false)
  | _ => false

/-- the names of the `Vec` builtins (`vec_new()`, `vec_push(v, x)`, `vec_get(v, i)`, `vec_len(v)`) -/
def vecNames : List String := ["vec_new", "vec_push", "vec_get", "vec_len"]

/-- a call of a `Vec` builtin at the types of the vector: `vec_new() : Vec[e]` (Go: `nil`), `vec_push(v, x) : Vec[e]`
    (Go: `append(v, x)`), `vec_get(v, i) : e` with an index of any integer type (Go: `v[i]`), `vec_len(v) : int32`
    (Go: `int32(len(v))`) -/
def vecCallOK (env : Env) (file : AFile) (G : List String) (Γ : Ctx) (f : Imm) (args : List Imm) (ty : Ty) : Bool :=
  match f with
  | .var name _ =>
    (lookupTy Γ name).isNone && rn name == name &&
    (if name == "vec_new" then
       (match args, ty with
        | [], .vec e => valTy env (.vec e)
        | _, _ => false)
     else if name == "vec_push" then
       (match ty with
        | .vec e => argsOK env file G Γ args [.vec e, e] && valTy env (.vec e)
        | _ => false)
     else if name == "vec_get" then
       (match args with
        | _ :: i :: _ => intTy i.ty && argsOK env file G Γ args [.vec ty, i.ty] && valTy env (.vec ty)
        | _ => false)
     else if name == "vec_len" then
       (match args with
        | a :: _ =>
          (match a.ty with
           | .vec e => argsOK env file G Γ args [.vec e] && scalarEq ty (.int 32 true) && valTy env (.vec e)
           | _ => false)
        | [] => false)
     else false)
  | _ => false

/-- a call through a variable of function type (a function value held by a local) -/
def localCallOK (env : Env) (file : AFile) (G : List String) (Γ : Ctx) (f : Imm) (args : List Imm) (ty : Ty) : Bool :=
  match f with
  | .var x fty =>
    (match lookupTy Γ x with
     | some (.func ps r) =>
       scalarEq (.func ps r) fty && !specialCallees.contains (rn x) && (env.getExternFn (rn x)).isNone &&
       argsOK env file G Γ args ps && scalarEq ty r
     | _ => false)
  | _ => false

/-! ### trait objects

`G` is a list of function names **plus an optional flag**: when it contains `dynMarker`, trait objects are admitted — then
`Sem`'s dynamic dispatch consults the implementation table `P.impls` of the program, about which `closedOK` cannot know, and
the theorems carry the hypothesis `implsOK` on `P` (decidable; the harness checks it on every real program).  Without the
flag the table of admissible vtables is empty, no `EToDyn` is in the fragment, no trait-object value is ever related, and the
theorems need no hypothesis on `P.impls`. -/

/-- the flag in `G` that admits trait objects -/
def dynMarker : String := "<dyn>"

/-- receiver types whose recovery from `any` in a wrapper (`self.(T)` / `T(self)`) is the identity in `Go.Sem`: admitted
    struct types (the assertion compares the struct's name), unit, bool, string, the integer types (an integer of the
    fragment is in range: `HasTy`), and function types (`impl Tr for (int32) -> int32`: the value is a top-level function,
    `self.(func(int32) int32)` leaves a function value alone) -/
def dynRecvTy (env : Env) : Ty → Bool
  | .struct n => (goodStructs env).contains n
  -- an admitted enum: the assertion `self.(E)` to the enum's interface holds by the method-set rule (`dynRecvTableOK`)
  | .enum n => (goodEnums env).contains n
  | .unit | .bool | .string => true
  | .int _ _ => true
  | .func _ _ => true
  | _ => false

/-- the emitted file gives every variant struct of an enum that is the receiver type of a vtable the method set of the
    enum's interface: what the wrapper's assertion `self.(E)` checks (`GFile.structImplements`) -/
def dynRecvTableOK (env : Env) (F : GFile) (forTy : Ty) : Bool :=
  match forTy with
  | .enum n =>
    !valTy env forTy ||
      (match env.getEnum n with
       | some d => d.variants.all fun v => F.structImplements (variantGoName env n v.1) (gid n)
       | none => false)
  | _ => true

/-- one vtable `(trait, receiver type)` is admissible: the file converts to it (so `go_file` emits its constructor and
    wrappers), the trait is known, its Go slot names are pairwise distinct, every method has value types and is implemented
    by a function of `G` of exactly that signature whose Go name the wrapper's own parameters do not capture -/
def dynEntryOK (env : Env) (file : AFile) (G : List String) (tr : String) (forTy : Ty) : Bool :=
  dynRecvTy env forTy && valTy env forTy &&
  (collectDynRequirements env file).vtables.any (fun p => p.1 == tr && Goml.Mono.tyBeq p.2 forTy) &&
  (match traitMethodSigs env tr with
   | some sigs =>
     decide ((sigs.map fun s => gid s.1).Nodup) &&
     sigs.all fun s =>
       let impl := Goml.Mono.traitImplFnName tr forTy s.1
       s.2.1.all (valTy env) && valTy env s.2.2 && rn impl == impl && !isEntry impl &&
       decide (("self" :: (wrapParams 0 s.2.1).map (·.1)).Nodup) &&
       !("self" :: (wrapParams 0 s.2.1).map (·.1)).contains (gid impl) &&
       (match file.find? (·.name == impl) with
        | some g => G.contains impl && scalarEqs (g.params.map (·.2)) (forTy :: s.2.1) && scalarEq g.ret s.2.2
        | none => false)
   | none => false)

/-- the admissible vtables (none unless `G` carries the flag) -/
def dynTable (env : Env) (file : AFile) (G : List String) : List (String × Ty) :=
  if G.contains dynMarker then (collectDynRequirements env file).vtables.filter fun p => dynEntryOK env file G p.1 p.2 else []

/-- the method `m` of trait `tr` -/
def dynSig (env : Env) (tr m : String) : Option (String × List Ty × Ty) :=
  ((traitMethodSigs env tr).getD []).find? (·.1 == m)

/-- the emitted file declares the two structs of a known trait with exactly the fields the back end writes -/
def dynStructTableOK (env : Env) (F : GFile) (tr : String) : Bool :=
  match traitMethodSigs env tr with
  | some sigs =>
    (match F.structFields (dynStructName tr) with
     | some decl => decl.map (·.1) == ["data", "vtable"]
     | none => false) &&
    (match F.structFields (dynVtableStructName tr) with
     | some decl => decl.map (·.1) == sigs.map fun s => gid s.1
     | none => false)
  | none => true

/-- `dyn[tr](e)` at receiver type `forTy` -/
def toDynOK (env : Env) (file : AFile) (G : List String) (Γ : Ctx) (tr : String) (forTy : Ty) (e : Imm) (ty : Ty) : Bool :=
  immOK env file G Γ e && scalarEq e.ty forTy && scalarEq ty (.dyn tr) &&
  (dynTable env file G).any (fun p => p.1 == tr && Goml.Mono.tyBeq p.2 forTy)

/-- a method call on a trait object -/
def dynCallOK (env : Env) (file : AFile) (G : List String) (Γ : Ctx) (tr m : String) (recv : Imm) (args : List Imm) (ty : Ty) : Bool :=
  immOK env file G Γ recv && scalarEq recv.ty (.dyn tr) &&
  (match dynSig env tr m with
   | some s => argsOK env file G Γ args s.2.1 && scalarEq ty s.2.2
   | none => false)

/-- the name of the `apply` function of the closure-environment struct `n` (what `Sem.apply` of a struct value calls) -/
def applyFnName (n : String) : String := "inherent#" ++ n ++ "#" ++ n ++ "#apply"

/-- `go e`: `e` is a closure environment of a struct type whose `apply` function (found by `compile_go` through
    `find_closure_apply_fn`, and called by `Sem.apply` under the name `applyFnName`) is a one-parameter function of the
    file in `G`, not shadowed / special / extern; the expression has type unit -/
def goOK (env : Env) (file : AFile) (G : List String) (Γ : Ctx) (e : Imm) (ty : Ty) : Bool :=
  match e.ty with
  | .struct n =>
    immOK env file G Γ e && scalarEq ty .unit &&
    (match findClosureApplyFn env (.struct n) with
     | some (name, _, _) =>
       name == applyFnName n && (lookupTy Γ name).isNone && rn name == name && !specialCallees.contains name &&
       (env.getExternFn name).isNone && !isEntry name &&
       (match file.find? (·.name == name) with
        | some g => G.contains name && scalarEqs (g.params.map (·.2)) [.struct n]
        | none => false)
     | none => false)
  | _ => false

/-- the statement-only form `go e` (not an expression of the emitted Go) -/
def isGoC : CExpr → Bool
  | .go _ _ => true
  | _ => false

/-- how the heads of the arms of a `match` are read -/
inductive ArmKind where
  /-- type switch on the enum variable `x` of type `sty` -/
  | enumK (x : String) (sty : Ty)
  /-- value switch on a bool / integer / string of type `sty` -/
  | valK (sty : Ty)

/-- scrutinee types of a value switch in the fragment -/
def switchTy : Ty → Bool
  | .bool => true
  | .int _ _ => true
  | .string => true
  | _ => false

def isSomeD : ADflt → Bool
  | .none => false
  | .some _ => true

mutual
/-- a `CExpr` of the fragment; its value has type `c.annTy` -/
def fragC (env : Env) (file : AFile) (G : List String) (Γ : Ctx) (K : KCtx) : CExpr → Bool
  | .imm i => immOK env file G Γ i
  | .un op e ty => immOK env file G Γ e && unOK op e.ty ty
  | .bin op l r ty => immOK env file G Γ l && immOK env file G Γ r && binOK op l.ty r.ty ty
  | .call f args ty =>
    callOK env file G Γ f args ty || refCallOK env file G Γ f args ty || arrCallOK env file G Γ f args ty ||
      localCallOK env file G Γ f args ty || vecCallOK env file G Γ f args ty
  | .constr (.struct sn) args ty =>
    scalarEq ty (.struct sn) && (goodStructs env).contains sn &&
    (match env.getStruct sn with
     | some d => argsOK env file G Γ args (d.fields.map (·.2))
     | none => false)
  | .constr (.enum tn _ vi) args ty =>
    scalarEq ty (.enum tn) &&
    (match variantOf env (.enum tn) vi with
     | some v => argsOK env file G Γ args v.2.2
     | none => false)
  | .cget e (.struct sn) idx ty =>
    immOK env file G Γ e && scalarEq e.ty (.struct sn) &&
    (match cgetField env e (.struct sn) idx with
     | some ft => scalarEq ty ft.2
     | none => false)
  | .cget e (.enum tn _ vi) idx ty =>
    -- the operand is a variable known (from the enclosing arm) to hold variant `vi`
    (match e with
     | .var x _ => lookupK K x == some vi
     | _ => false) &&
    immOK env file G Γ e && scalarEq e.ty (.enum tn) &&
    (match variantOf env (.enum tn) vi with
     | some v => (match v.2.2[idx]? with | some t => scalarEq ty t | none => false)
     | none => false)
  | .tuple items ty =>
    (match ty with
     | .tuple ts => argsOK env file G Γ items ts && tupleTyOK env file (.tuple ts)
     | _ => false)
  | .array items ty =>
    (match ty with
     | .array len e => argsOK env file G Γ items (List.replicate len e) && valTy env (.array len e)
     | _ => false)
  | .proj e idx ty =>
    immOK env file G Γ e &&
    (match e.ty with
     | .tuple ts => valTy env (.tuple ts) && (fieldNames 0 ts.length).Nodup &&
         (match ts[idx]? with | some t => scalarEq ty t | none => false)
     | _ => false)
  | .ite c t e ty =>
    immOK env file G Γ c && scalarEq c.ty .bool && fragA env file G Γ K t && fragA env file G Γ K e &&
    scalarEq (aTy t) ty && scalarEq (aTy e) ty
  | .while c b ty =>
    fragA env file G Γ K c && scalarEq (aTy c) .bool && fragA env file G Γ K b && scalarEq (aTy b) .unit && scalarEq ty .unit
  | .matchE s arms d ty =>
    immOK env file G Γ s && flatTy ty &&
    (match s.ty with
     | .enum n =>
       (match s with
        | .var x _ => vn x == rn x && (goodEnums env).contains n &&
            fragArms env file G Γ K (.enumK x (.enum n)) ty arms && fragD env file G Γ K ty d
        | _ => false)
     | .unit =>
       -- the first arm in place (else the default); the other arms are dead
       if arms.isEmpty then isSomeD d && fragD env file G Γ K ty d else fragFirst env file G Γ K ty arms
     | sty => switchTy sty && fragArms env file G Γ K (.valK sty) ty arms && fragD env file G Γ K ty d)
  | .go e ty => goOK env file G Γ e ty
  | .toDyn tr forTy e ty => toDynOK env file G Γ tr forTy e ty
  | .dynCall tr m recv args ty => dynCallOK env file G Γ tr m recv args ty
/-- an `AExpr` of the fragment; its value has type `aTy e` -/
def fragA (env : Env) (file : AFile) (G : List String) (Γ : Ctx) (K : KCtx) : AExpr → Bool
  | .ret c => fragC env file G Γ K c
  | .letE x v b _ => fragC env file G Γ K v && fragA env file G ((x, v.annTy) :: Γ) (eraseK K x) b
/-- the arms of a `match`: heads of the scrutinee's kind, bodies of the result type -/
def fragArms (env : Env) (file : AFile) (G : List String) (Γ : Ctx) (K : KCtx) (ak : ArmKind) (ty : Ty) : List AArm → Bool
  | [] => true
  | .mk lhs body :: rest =>
    (match ak, lhs with
     | .enumK x sty, .tag idx tty =>
       scalarEq tty sty && (variantOf env sty idx).isSome && fragA env file G Γ ((x, idx) :: K) body
     | .valK sty, .prim p pty => okPrim p pty && scalarEq pty sty && fragA env file G Γ K body
     | _, _ => false) && scalarEq (aTy body) ty && fragArms env file G Γ K ak ty rest
/-- unit scrutinee: only the first arm runs -/
def fragFirst (env : Env) (file : AFile) (G : List String) (Γ : Ctx) (K : KCtx) (ty : Ty) : List AArm → Bool
  | [] => false
  | .mk lhs body :: _ =>
    (match lhs with
     | .prim .unit .unit => true
     | _ => false) && fragA env file G Γ K body && scalarEq (aTy body) ty
def fragD (env : Env) (file : AFile) (G : List String) (Γ : Ctx) (K : KCtx) (ty : Ty) : ADflt → Bool
  | .none => true
  | .some e => fragA env file G Γ K e && scalarEq (aTy e) ty
/-- the type of the value of an `AExpr` (the annotation of its final `CExpr`; the `ty` field of
    `ALet` is the type of the *source* `let`, not of this expression) -/
def aTy : AExpr → Ty
  | .ret c => c.annTy
  | .letE _ _ b _ => aTy b
end

/-- the Go name a call goes to when the callee is a variable that is not a local (`bs` = the source variables in
    scope): the `ref` / `ref_get` / `ref_set` / `array_get` / `array_set` helper of the type at hand, else the escaped name -/
def goCallee (bs : List String) (f : Imm) (args : List Imm) (ty : Ty) : List String :=
  match f with
  | .var x _ =>
    if bs.contains x then []
    else if rn x == "vec_push" then ["append"]
    else if rn x == "vec_len" then ["int32", "len"]
    else if rn x == "vec_new" || rn x == "vec_get" then []
    else if rn x == "ref" then [helperFnName "ref" ty]
    else if rn x == "ref_get" || rn x == "ref_set" || rn x == "array_get" || rn x == "array_set" then
      [helperFnName (rn x) ((args.head?.map Imm.ty).getD (.tvar 0))]
    else [vn x]
  | _ => []

/-- the conversion `dyn_data_expr` calls when a numeric literal becomes a trait object -/
def dynDataCallee (e : Imm) : List String :=
  match e with
  | .prim _ ty => (convName ty).toList
  | _ => []

mutual
/-- Go names of the top-level callees occurring in an expression (`bs` = the source variables in scope: a call through
    a local is not a callee in this sense) -/
def calleesC (bs : List String) : CExpr → List String
  | .call f args ty => goCallee bs f args ty
  | .ite _ t e _ => calleesA bs t ++ calleesA bs e
  | .while c b _ => calleesA bs c ++ calleesA bs b
  | .matchE _ arms d _ => calleesArms bs arms ++ calleesD bs d
  | .go e _ => (match e.ty with | .struct n => [vn (applyFnName n)] | _ => [])
  | .toDyn tr forTy e _ => dynVtableCtorName tr forTy :: dynDataCallee e
  | _ => []
def calleesA (bs : List String) : AExpr → List String
  | .ret c => calleesC bs c
  | .letE x v b _ => calleesC bs v ++ calleesA (x :: bs) b
def calleesArms (bs : List String) : List AArm → List String
  | [] => []
  | .mk _ b :: rest => calleesA bs b ++ calleesArms bs rest
def calleesD (bs : List String) : ADflt → List String
  | .none => []
  | .some e => calleesA bs e
end

def paramCtx (f : AFn) : Ctx := f.params.reverse

/-- the source-side check of one function -/
def srcLocalOK (env : Env) (file : AFile) (G : List String) (f : AFn) : Bool :=
  f.params.all (fun p => valTy env p.2) && valTy env f.ret &&
  fragA env file G (paramCtx f) [] f.body && scalarEq (aTy f.body) f.ret

mutual
/-- every name declared by a `var` in the statements, nested included (`Dce.allDecls` without the
    bindings of type switches, which re-bind a variable that is already declared) -/
def ndDecls : List GStmt → List String
  | [] => []
  | s :: rest => ndDeclsOf s ++ ndDecls rest
def ndDeclsOf : GStmt → List String
  | .varDecl x _ _ => [x]
  | .ite _ t e => ndDecls t ++ (match e with | some b => ndDecls b | none => [])
  | .loop b => ndDecls b
  | .switch _ cs d => ndDeclsCases cs ++ (match d with | some b => ndDecls b | none => [])
  | .tswitch _ _ cs d => ndDeclsTCases cs ++ (match d with | some b => ndDecls b | none => [])
  | _ => []
def ndDeclsCases : List GCase → List String
  | [] => []
  | .mk _ b :: rest => ndDecls b ++ ndDeclsCases rest
def ndDeclsTCases : List GTCase → List String
  | [] => []
  | .mk _ b :: rest => ndDecls b ++ ndDeclsTCases rest
end

mutual
/-- Go's block scoping of `var` declarations, as far as the simulation and the scope rules need it: every `var x` is new
    in its scope (`K` = the names visible at that point; a name may be declared again in a *sibling* block: the clauses of a
    `switch`, the two branches of an `if`) and passes `ok` -/
def sokB (ok : String → Bool) : List String → List GStmt → Bool
  | _, [] => true
  | K, s :: rest => sokStmtB ok K s && sokB ok (Goml.Dce.declScope s K) rest
def sokStmtB (ok : String → Bool) : List String → GStmt → Bool
  | K, .varDecl x _ _ => !K.contains x && ok x
  | K, .ite _ t e => sokB ok K t && (match e with | some b => sokB ok K b | none => true)
  | K, .loop b => sokB ok K b
  | K, .switch _ cs d => sokCasesB ok K cs && (match d with | some b => sokB ok K b | none => true)
  | K, .tswitch _ _ cs d => sokTCasesB ok K cs && (match d with | some b => sokB ok K b | none => true)
  | _, _ => true
def sokCasesB (ok : String → Bool) : List String → List GCase → Bool
  | _, [] => true
  | K, .mk _ b :: rest => sokB ok K b && sokCasesB ok K rest
def sokTCasesB (ok : String → Bool) : List String → List GTCase → Bool
  | _, [] => true
  | K, .mk _ b :: rest => sokB ok K b && sokTCasesB ok K rest
end

/-- parameters pairwise distinct, every declaration new in its scope -/
def scopedLocalsOK (f : GFunc) : Bool :=
  decide ((f.params.map (·.1)).Nodup) && sokB (fun _ => true) (f.params.map (·.1)) f.body

/-- the Go-side check of one function, on the model's own output for it -/
def goLocalOK (env : Env) (file : AFile) (G : List String) (st : St) (f : AFn) : Bool :=
  let gf := (compileFn env st f).1
  let locals := Goml.Dce.localsOf gf
  scopedLocalsOK gf && !locals.contains "_" &&
  (calleesA ((paramCtx f).map (·.1)) f.body).all (fun c => !locals.contains c && c != "_") &&
  -- no local is spelled like a function that may be used as a value
  (fnSigs file G).all (fun e => !locals.contains (vn e.1) && vn e.1 != "_")

/-! ### Go constant expressions (finding C10)

An operation all of whose operands are literals reaches Go as a *constant expression* (Go spec, "Constant expressions"):
it is evaluated exactly, at arbitrary precision, and converted (rounded / range-checked) once, at compile time — `0.1 + 0.2`
is `0.3`, `1.0 / 0.0`, `1 / 0` and `int8(127) + 1` are compile errors, there is no `-0.0`.  `Go.Sem` evaluates every
operation at run time (IEEE / wrapping), so on such an operation the real Go and `Go.Sem` may differ.  `Model/GoConst.lean`
is the evaluator of Go's constant rules (worker C10; corpus/C10/*const*).  `compile_preserves` does not claim these
functions: the check below runs on the EMITTED function (that is what Go sees) and rejects every unary or binary operation or
conversion whose operands are all constants (literals, or such operations over literals), and — conservatively — every block
expression, EXCEPT the operations of `constOpOK`, where exact evaluation and the run-time operation provably coincide:
`!` / `&&` / `||` / `==` / `!=` on boolean literals, `+` and the comparisons on string literals, the comparisons on two in-range
integer literals of one type, and `+ - * /` / unary `-` on in-range integer literals of one type whose EXACT result is again
in range (and whose divisor is not zero) — then Go's constant is that exact result and the wrapping run-time operation
returns it too.  Everything on float literals is rejected.  (Bringing those back would need `GoConst.constEval` to agree with
the IEEE operation; c10 proved `float_const_faithful_if_exact_operands` for one operator over exact texts, but `go_pprint`
prints shortest-round-trip texts.) -/
mutual
/-- what Go treats as a constant: a boolean / integer / float / string literal, or an operation over constants -/
def constG : GExpr → Bool
  | .bool _ | .int _ _ | .float _ _ | .str _ => true
  | .un _ _ e => constG e
  | .bin _ _ l r => constG l && constG r
  | .cast _ e => constG e
  | _ => false
end

/-- value, width and signedness of an in-range integer literal of the emitted Go -/
def intLitG : GExpr → Option (Int × Nat × Bool)
  | .int text (.int b sg) =>
    (match text.toInt? with
     | some v => if Sem.wrap b sg v == v then some (v, b, sg) else none
     | none => none)
  | _ => none

def cmpG : GBin → Bool
  | .less | .greater | .lessEq | .greaterEq | .eq | .notEq => true
  | _ => false

/-- a constant operation on which Go's compile-time evaluation (exact, then range-checked) and the run-time operation of
    `Go.Sem` coincide -/
def constOpOK : GExpr → Bool
  | .un .not _ (.bool _) => true
  | .un .neg _ e =>
    (match intLitG e with
     | some (v, b, sg) => Sem.wrap b sg (-v) == -v
     | none => false)
  | .bin op _ l r =>
    (match l, r with
     | .bool _, .bool _ => op == .and || op == .or || op == .eq || op == .notEq
     | .str _, .str _ => op == .add || cmpG op
     | _, _ =>
       match intLitG l, intLitG r with
       | some (a, b, sg), some (c, b', sg') =>
         b == b' && sg == sg' &&
         (match op with
          | .add => Sem.wrap b sg (a + c) == a + c
          | .sub => Sem.wrap b sg (a - c) == a - c
          | .mul => Sem.wrap b sg (a * c) == a * c
          | .div => c != 0 && Sem.wrap b sg (Int.tdiv a c) == Int.tdiv a c
          | .and | .or => false
          | _ => true)
       | _, _ => false)
  | _ => false

mutual
/-- no operation or conversion all of whose operands are constants, anywhere in the expression, other than those of
    `constOpOK` -/
def noConstE : GExpr → Bool
  | .un op t e => (!constG e || constOpOK (.un op t e)) && noConstE e
  | .bin op t l r => (!(constG l && constG r) || constOpOK (.bin op t l r)) && noConstE l && noConstE r
  | .cast _ e => !constG e && noConstE e
  | .field _ _ o => noConstE o
  | .index _ a i => noConstE a && noConstE i
  | .slit _ fs => noConstFields fs
  | .alit _ es => noConstList es
  | .call _ f args => noConstE f && noConstList args
  | .blocke _ _ _ => false
  | .var _ _ | .nil _ | .voidv _ | .unitv _ | .bool _ | .int _ _ | .float _ _ | .str _ => true
def noConstList : List GExpr → Bool
  | [] => true
  | e :: es => noConstE e && noConstList es
def noConstFields : List GField → Bool
  | [] => true
  | .mk _ e :: fs => noConstE e && noConstFields fs
end

def noConstOpt : Option GExpr → Bool
  | some e => noConstE e
  | none => true

mutual
def noConstStmts : List GStmt → Bool
  | [] => true
  | s :: rest => noConstStmt s && noConstStmts rest
def noConstStmt : GStmt → Bool
  | .expr e => noConstE e
  | .go c => noConstE c
  | .varDecl _ _ v => noConstOpt v
  | .assign _ v => noConstE v
  | .indexAssign a i v => noConstE a && noConstE i && noConstE v
  | .ptrAssign p v => noConstE p && noConstE v
  | .fieldAssign t v => noConstE t && noConstE v
  | .ret e => noConstOpt e
  | .ite c t e => noConstE c && noConstStmts t && (match e with | some b => noConstStmts b | none => true)
  | .loop b => noConstStmts b
  | .brk => true
  | .switch e cs d => noConstE e && noConstCases cs && (match d with | some b => noConstStmts b | none => true)
  | .tswitch _ e cs d => noConstE e && noConstTCases cs && (match d with | some b => noConstStmts b | none => true)
def noConstCases : List GCase → Bool
  | [] => true
  | .mk v b :: rest => noConstE v && noConstStmts b && noConstCases rest
def noConstTCases : List GTCase → Bool
  | [] => true
  | .mk _ b :: rest => noConstStmts b && noConstTCases rest
end

/-- **`noConstExpr`**: the function the back end emits for `f` contains no Go constant expression other than a bare literal -/
def noConstExpr (env : Env) (st : St) (f : AFn) : Bool := noConstStmts (compileFn env st f).1.body

def localOK (env : Env) (file : AFile) (G : List String) (st : St) (f : AFn) : Bool :=
  srcLocalOK env file G f && goLocalOK env file G st f

/-- what a member of a closed set must pass: the source-side and Go-side checks the simulation uses, and no Go constant
    expression in the emitted function (where `Go.Sem` is not known to be faithful to Go) -/
def memberOK (env : Env) (file : AFile) (G : List String) (st : St) (f : AFn) : Bool :=
  localOK env file G st f && noConstExpr env st f

/-- every function of `G` passes the local checks (counters threaded as in `compile_fn`) -/
def checkFns (env : Env) (file : AFile) (G : List String) : St → List AFn → Bool
  | _, [] => true
  | st, f :: rest =>
    (if G.contains f.name then memberOK env file G st f else true) &&
      checkFns env file G (compileFn env st f).2 rest

/-- Go functions the runtime helpers of stage (a) call by name (`Go.Sem`'s builtin table gives them
    their meaning only when the file does not define them) -/
def reservedGoNames : List String :=
  ["fmt.Sprintf", "fmt.Print", "fmt.Println", "append", "len", "int32", "int8", "int16", "int64", "uint8", "uint16", "uint32",
   "uint64"]

/-- file-level conditions -/
def fileOK (env : Env) (file : AFile) (n : Nat) : Bool :=
  let F := (goFilePreSt env file n).1
  (F.funcs.map (·.name)).Nodup && (file.map (·.name)).Nodup &&
  file.all (fun f => !builtinNames.contains f.name && !refNames.contains f.name && !arrNames.contains f.name &&
    !vecNames.contains f.name) &&
  reservedGoNames.all (fun r => (F.findFunc r).isNone) &&
  structsClosed env && (goodStructs env).all (structTableOK env F) && (goodEnums env).all (enumTableOK env F) &&
  (collectRuntimeTypes env file).refs.all (refTableOK env F) && (collectRuntimeTypes env file).tuples.all (tupleTableOK env F) &&
  ((collectDynRequirements env file).traits ++ (collectDynRequirements env file).vtables.map (·.1)).all (dynStructTableOK env F) &&
  (collectDynRequirements env file).vtables.all (fun p => dynRecvTableOK env F p.2)

/-- `G` is closed: the file-level conditions hold and every member passes the local checks with
    all its callees in `G` -/
def closedOKD (env : Env) (file : AFile) (n : Nat) (G : List String) : Bool :=
  fileOK env file n && checkFns env file G { n := n, ok := true } file

/-- `G` is closed and does not carry the trait-object flag: nothing about `P.impls` is needed -/
def closedOK (env : Env) (file : AFile) (n : Nat) (G : List String) : Bool :=
  closedOKD env file n G && !G.contains dynMarker

/-- candidate set: iterate "drop the functions that fail the local check" to a fixed point -/
def refine (env : Env) (file : AFile) (n : Nat) : Nat → List String → List String
  | 0, G => G
  | k + 1, G =>
    let rec keep (st : St) : List AFn → List String
      | [] => []
      | f :: rest =>
        (if G.contains f.name && memberOK env file G st f then [f.name] else []) ++ keep (compileFn env st f).2 rest
    let G' := (if G.contains dynMarker then [dynMarker] else []) ++ keep { n := n, ok := true } file
    if G'.length == G.length then G else refine env file n k G'

/-- the largest closed set found by the iteration (empty when the file-level conditions fail) -/
def goodFns (env : Env) (file : AFile) (n : Nat) : List String :=
  if fileOK env file n then refine env file n (file.length + 1) (file.map (·.name)) else []

/-- the largest closed set with trait objects admitted (it carries the flag) -/
def goodFnsD (env : Env) (file : AFile) (n : Nat) : List String :=
  if fileOK env file n then refine env file n (file.length + 2) (dynMarker :: file.map (·.name)) else []

/-- the hypothesis on the program's dispatch table under which trait objects are simulated: for every admissible vtable and
    every method of its trait, `Sem`'s lookup `(trait, tyKey receiver, method)` finds the implementing function under the name
    the wrapper calls (`trait_impl_fn_name`) -/
def implsOK (env : Env) (file : AFile) (G : List String) (P : Prog) : Bool :=
  (dynTable env file G).all fun p =>
    ((traitMethodSigs env p.1).getD []).all fun s =>
      match P.impls.find? (fun i => i.1 == p.1 && i.2.1 == Sem.tyKey p.2 && i.2.2.1 == s.1) with
      | some i => i.2.2.2 == Goml.Mono.traitImplFnName p.1 p.2 s.1
      | none => false

/-- the fragment with trait objects (under `implsOK`) -/
def inGoFragmentD (env : Env) (file : AFile) (n : Nat) (f : AFn) : Bool :=
  let G := goodFnsD env file n
  closedOKD env file n G && G.contains f.name

/-- **the fragment predicate**: `f` belongs to a set of functions of the file that is closed under
    calls and passes every check (the set is computed by `goodFns`, its closure is re-checked) -/
def inGoFragment (env : Env) (file : AFile) (n : Nat) (f : AFn) : Bool :=
  let G := goodFns env file n
  closedOK env file n G && G.contains f.name

/-! ### the part of the fragment covered by the typing half of T2 (`compile_wellformed_typed_partial`) -/

mutual
/-- the types of the typing half: unit, bool, string, an integer type of a width Go has, struct types (closure
    environments included), enum types, function types, references, tuples and arrays (of at most 10^8 elements: Go rejects the
    declaration of a longer one) of those -/
def stdTy : Ty → Bool
  | .unit => true
  | .bool => true
  | .string => true
  | .int b _ => b == 8 || b == 16 || b == 32 || b == 64
  | .struct _ => true
  | .enum _ => true
  | .func ps r => stdTys ps && stdTy r
  | .ref e => stdTy e
  | .tuple ts => stdTys ts
  | .array n e => decide (n ≤ 100000000) && stdTy e
  | _ => false
def stdTys : List Ty → Bool
  | [] => true
  | t :: ts => stdTy t && stdTys ts
end

def stdImm : Imm → Bool
  | .var _ t => stdTy t
  | .prim _ t => stdTy t
  | .tag _ t => stdTy t

/-- the second argument (the index of `array_get` / `array_set`) is an `int32` -/
def idxI32 (args : List Imm) : Bool :=
  match args with
  | _ :: i :: _ => scalarEq i.ty (.int 32 true)
  | _ => false

mutual
/-- scalars, operators, calls of functions (also through a local of function type) / printing builtins / the reference and
    array helpers (an array index of type `int32`: the helper's parameter type), construction and field access of structs,
    enum variants, tuples and arrays, `let`, `if`, `while`, `match` (on an enum variable that the enclosing arms have not
    narrowed already: `K`, as in `fragC`; on a literal; on unit), `go` -/
def stdC (env : Env) (file : AFile) (K : KCtx) : CExpr → Bool
  | .imm i => stdImm i
  | .un _ e ty => stdImm e && stdTy ty
  | .bin _ l r ty => stdImm l && stdImm r && stdTy ty
  | .call f args ty =>
    args.all stdImm && stdTy ty &&
    (match f with
     | .var name _ => !vecNames.contains name && (!arrNames.contains name || idxI32 args)
     | _ => false)
  | .constr _ args ty => args.all stdImm && stdTy ty
  | .cget e (.struct sn) _ ty => (goodStructs env).contains sn && stdImm e && stdTy ty
  | .cget e (.enum _ _ _) _ ty => stdImm e && stdTy ty
  | .tuple items ty => items.all stdImm && stdTy ty
  | .proj e _ ty => tupleTyOK env file e.ty && stdImm e && stdTy ty
  | .array items ty => items.all stdImm && stdTy ty
  | .ite c t e ty => stdImm c && stdA env file K t && stdA env file K e && stdTy ty
  | .while c b ty => stdA env file K c && stdA env file K b && stdTy ty
  | .go e _ => stdImm e
  | .matchE s arms d ty =>
    stdImm s && stdTy ty &&
    (match s.ty with
     | .enum _ =>
       (match s with
        | .var x _ => (lookupK K x).isNone && stdArms env file K (some x) arms && stdD env file K d
        | _ => false)
     | .unit => if arms.isEmpty then stdD env file K d else stdFirst env file K arms
     | _ => stdArms env file K none arms && stdD env file K d)
  | _ => false
def stdA (env : Env) (file : AFile) (K : KCtx) : AExpr → Bool
  | .ret c => stdC env file K c
  | .letE x v b _ => stdC env file K v && stdTy v.annTy && stdA env file (eraseK K x) b
def stdArms (env : Env) (file : AFile) (K : KCtx) (x : Option String) : List AArm → Bool
  | [] => true
  | .mk lhs body :: rest =>
    (match x, lhs with
     | some x, .tag idx _ => stdA env file ((x, idx) :: K) body
     | none, _ => stdA env file K body
     | _, _ => false) && stdArms env file K x rest
def stdFirst (env : Env) (file : AFile) (K : KCtx) : List AArm → Bool
  | [] => false
  | .mk _ body :: _ => stdA env file K body
def stdD (env : Env) (file : AFile) (K : KCtx) : ADflt → Bool
  | .none => true
  | .some e => stdA env file K e
end

/-- the hypothesis of the typing half of T2 on a function (besides membership in a closed set `G`) -/
def stdFn (env : Env) (file : AFile) (f : AFn) : Bool :=
  f.params.all (fun p => stdTy p.2) && stdTy f.ret && stdA env file [] f.body

/-! ### why a function is outside (reporting only) -/

def tyClass : Ty → String
  | .tuple _ => "tuple" | .enum _ => "enum" | .struct n => if isClosureEnv n then "closure-env" else "struct"
  | .dyn _ => "dyn" | .app _ _ => "generic-app" | .array _ _ => "array" | .vec _ => "vec" | .ref _ => "ref"
  | .func _ _ => "func" | .float _ => "float" | .param _ => "tparam" | .tvar _ => "tvar" | _ => "scalar-mismatch"

def immReason (env : Env) (file : AFile) (G : List String) (Γ : Ctx) : Imm → Option String
  | .var x ty =>
    match lookupTy Γ x with
    | none => if fnValOK env file G x ty then none else some "operand:function-or-unbound-name-as-value"
    | some t => if scalarEq t ty then none else some ("type:" ++ tyClass ty)
  | .prim (.float _ _) _ => some "literal:float"
  | .prim p ty => if okPrim p ty then none else some "literal:annotation-or-range"
  | .tag idx ty => if immOK env file G Γ (.tag idx ty) then none else some "operand:tag-of-non-admitted-enum"

def firstSome {α} (xs : List α) (f : α → Option String) : Option String := xs.findSome? f

/-- why a type is not a value type of the fragment: the kind of the first offending component -/
def tyReason (env : Env) (t : Ty) : String :=
  match t with
  | .struct n =>
    (match env.getStruct n with
     | some d =>
       if !d.generics.isEmpty then "generic-struct"
       else (match d.fields.find? (fun f => !valTy env f.2) with
         | some f => (if isClosureEnv n then "closure-env" else "struct") ++ "-with-" ++ tyClass f.2 ++ "-field"
         | none => if isClosureEnv n then "closure-env" else "struct")
     | none => "unknown-struct")
  | .enum n =>
    (match env.getEnum n with
     | some d =>
       if !d.generics.isEmpty then "generic-enum"
       else (match (d.variants.flatMap (·.2)).find? (fun t => !valTy env t) with
         | some t => "enum-with-" ++ tyClass t ++ "-payload"
         | none => "enum")
     | none => "unknown-enum")
  | .tuple ts =>
    (match ts.find? (fun t => !valTy env t) with
     | some t => "tuple-with-" ++ tyClass t ++ "-component"
     | none => "tuple")
  | .ref e => if valTy env e then "ref" else "ref-to-" ++ tyClass e
  | .array len e => if !valTy env e then "array-of-" ++ tyClass e else if len == 0 then "empty-array" else "array"
  | t => tyClass t

/-- which argument of a user-function call has another type than the parameter (reports only) -/
def argsReason : List Imm → List Ty → String
  | [], [] => "?"
  | a :: as, t :: ts => if scalarEq a.ty t then argsReason as ts else tyClass a.ty ++ "-for-" ++ tyClass t
  | _, _ => "arity"

/-- why `dyn[tr](e)` at receiver type `forTy` is outside (reports only); `@f`: the implementing function `f` is outside -/
def toDynReason (env : Env) (file : AFile) (G : List String) (Γ : Ctx) (tr : String) (forTy : Ty) (e : Imm) (ty : Ty) : String :=
  match immReason env file G Γ e with
  | some r => r
  | none =>
    if !G.contains dynMarker then "node:to-dyn" else
    if !(scalarEq e.ty forTy && scalarEq ty (.dyn tr)) then "node:to-dyn(operand-type:" ++ tyClass e.ty ++ "-for-" ++ tyClass forTy ++ ")" else
    if !dynRecvTy env forTy then "node:to-dyn(receiver:" ++ tyReason env forTy ++ ")" else
    if !valTy env forTy then "node:to-dyn(receiver-not-admitted:" ++ tyReason env forTy ++ ")" else
    match traitMethodSigs env tr with
    | none => "node:to-dyn(unknown-trait)"
    | some sigs =>
      if !decide ((sigs.map fun s => gid s.1).Nodup) then "node:to-dyn(slot-names-collide)" else
      match sigs.find? (fun s => !(s.2.1.all (valTy env) && valTy env s.2.2)) with
      | some s => "node:to-dyn(method-signature:" ++
          (match s.2.1.find? (fun t => !valTy env t) with | some t => tyReason env t | none => tyReason env s.2.2) ++ ")"
      | none =>
        match sigs.find? (fun s =>
            let impl := Goml.Mono.traitImplFnName tr forTy s.1
            match file.find? (·.name == impl) with
            | some _ => !G.contains impl
            | none => true) with
        | some s =>
          let impl := Goml.Mono.traitImplFnName tr forTy s.1
          if (file.find? (·.name == impl)).isSome then "call:callee-outside-fragment@" ++ impl else "node:to-dyn(impl-missing)"
        | none => "node:to-dyn(impl-signature-or-names)"

mutual
def reasonC (env : Env) (file : AFile) (G : List String) (Γ : Ctx) (K : KCtx) : CExpr → Option String
  | .imm i => immReason env file G Γ i
  | .un op e ty => (immReason env file G Γ e).orElse fun _ => if unOK op e.ty ty then none else some "operator:unary-type"
  | .bin op l r ty =>
    ((immReason env file G Γ l).orElse fun _ => immReason env file G Γ r).orElse fun _ =>
      if binOK op l.ty r.ty ty then none else some "operator:binary-type"
  | .call f args ty =>
    if callOK env file G Γ f args ty || refCallOK env file G Γ f args ty || arrCallOK env file G Γ f args ty ||
        localCallOK env file G Γ f args ty || vecCallOK env file G Γ f args ty then none
    else match f with
      | .var name _ =>
        if (lookupTy Γ name).isSome then some "call:through-a-local(closure/function value)"
        else if specialCallees.contains name then some ("call:" ++ name)
        else if (env.getExternFn name).isSome then some "call:extern"
        else if (builtinSig name).isSome then some "call:builtin-args"
        else match file.find? (·.name == name) with
          | some g => if G.contains name then
              ((firstSome args (immReason env file G Γ)).orElse fun _ =>
                if argsOK env file G Γ args (g.params.map (·.2)) then some ("call:user-fn-result-type(" ++ tyClass ty ++ "-for-" ++ tyClass g.ret ++ ")")
                else some ("call:user-fn-args(" ++ argsReason args (g.params.map (·.2)) ++ ")")) else some ("call:callee-outside-fragment@" ++ name)
          | none => some ("call:other-builtin:" ++ name)
      | _ => some "call:non-variable-callee"
  | .ite c t e ty =>
    ((immReason env file G Γ c).orElse fun _ => reasonA env file G Γ K t).orElse fun _ =>
      (reasonA env file G Γ K e).orElse fun _ =>
        if scalarEq c.ty .bool && scalarEq (aTy t) ty && scalarEq (aTy e) ty then none else some "if:type"
  | .while c b ty =>
    ((reasonA env file G Γ K c).orElse fun _ => reasonA env file G Γ K b).orElse fun _ =>
      if scalarEq (aTy c) .bool && scalarEq (aTy b) .unit && scalarEq ty .unit then none else some "while:type"
  | .constr (.enum tn vname vi) args ty =>
    if fragC env file G Γ K (.constr (.enum tn vname vi) args ty) then none
    else (firstSome args (immReason env file G Γ)).orElse fun _ => some ("node:enum-constructor(" ++ tyReason env (.enum tn) ++ ")")
  | .constr (.struct n) args ty =>
    if fragC env file G Γ K (.constr (.struct n) args ty) then none
    else (firstSome args (immReason env file G Γ)).orElse fun _ => some ("node:struct-constructor(" ++ tyReason env (.struct n) ++ ")")
  | .tuple items ty =>
    if fragC env file G Γ K (.tuple items ty) then none
    else (firstSome items (immReason env file G Γ)).orElse fun _ => some ("node:tuple(" ++ tyReason env ty ++ ")")
  | .array items ty =>
    if fragC env file G Γ K (.array items ty) then none
    else (firstSome items (immReason env file G Γ)).orElse fun _ => some ("node:array(" ++ tyReason env ty ++ ")")
  | .matchE s arms d ty =>
    if fragC env file G Γ K (.matchE s arms d ty) then none
    else (immReason env file G Γ s).orElse fun _ =>
      match s.ty with
      | .enum n =>
        (match s with
         | .var x _ =>
           if !(goodEnums env).contains n then some ("match:scrutinee:" ++ tyReason env (.enum n))
           else ((reasonArms env file G Γ K (some x) arms).orElse fun _ => reasonD env file G Γ K d).orElse fun _ => some "match:enum-arms"
         | _ => some "match:enum-scrutinee-not-a-variable")
      | .unit =>
        ((reasonArms env file G Γ K none arms).orElse fun _ => reasonD env file G Γ K d).orElse fun _ => some "match:unit-arms"
      | sty =>
        if !switchTy sty then some ("match:scrutinee:" ++ tyClass sty)
        else ((reasonArms env file G Γ K none arms).orElse fun _ => reasonD env file G Γ K d).orElse fun _ => some "match:literal-arms"
  | .cget e c idx ty =>
    if fragC env file G Γ K (.cget e c idx ty) then none
    else (immReason env file G Γ e).orElse fun _ =>
      some (match c with
        | .struct _ => "node:field-get(" ++ tyClass ty ++ ")"
        | .enum tn _ _ =>
          if !(goodEnums env).contains tn then "node:enum-field-get(" ++ tyReason env (.enum tn) ++ ")"
          else "node:enum-field-get(variant-not-fixed-by-an-arm)")
  | .toDyn tr forTy e ty => if toDynOK env file G Γ tr forTy e ty then none else some (toDynReason env file G Γ tr forTy e ty)
  | .dynCall tr m recv args ty => if dynCallOK env file G Γ tr m recv args ty then none else some "node:dyn-call"
  | .go e ty => if goOK env file G Γ e ty then none else some "node:go"
  | .proj e idx ty =>
    if fragC env file G Γ K (.proj e idx ty) then none
    else (immReason env file G Γ e).orElse fun _ => some ("node:tuple-proj(" ++ tyReason env e.ty ++ ")")
def reasonA (env : Env) (file : AFile) (G : List String) (Γ : Ctx) (K : KCtx) : AExpr → Option String
  | .ret c => reasonC env file G Γ K c
  | .letE x v b _ => (reasonC env file G Γ K v).orElse fun _ => reasonA env file G ((x, v.annTy) :: Γ) (eraseK K x) b
def reasonArms (env : Env) (file : AFile) (G : List String) (Γ : Ctx) (K : KCtx) (scrut : Option String) : List AArm → Option String
  | [] => none
  | .mk lhs body :: rest =>
    (match scrut, lhs with
     | some x, .tag idx _ => reasonA env file G Γ ((x, idx) :: K) body
     | _, _ => reasonA env file G Γ K body).orElse fun _ => reasonArms env file G Γ K scrut rest
def reasonD (env : Env) (file : AFile) (G : List String) (Γ : Ctx) (K : KCtx) : ADflt → Option String
  | .none => none
  | .some e => reasonA env file G Γ K e
end

/-- `none` when `inGoFragment`, else the first reason found (a callee outside the fragment is named after `@`) -/
def outsideReasonRaw (env : Env) (file : AFile) (n : Nat) (G : List String) (closed : Bool) (st : St) (f : AFn) : Option String :=
  if closed && G.contains f.name then none
  else if !fileOK env file n then some "file:go-function-names-collide-or-reserved"
  else if !(f.params.all (fun p => valTy env p.2)) then
    some ("signature:parameter:" ++ ((f.params.find? (fun p => !valTy env p.2)).map (fun p => tyReason env p.2)).getD "?")
  else if !valTy env f.ret then some ("signature:result:" ++ tyReason env f.ret)
  else
    match reasonA env file G (paramCtx f) [] f.body with
    | some r => some r
    | none =>
      if !scalarEq (aTy f.body) f.ret then some "signature:result-type"
      else if !goLocalOK env file G st f then some "go-names:declared-twice-or-captured"
      else if !noConstExpr env st f then some "go-const-expr:operation-on-literals-not-exact"
      else some "closure-check-failed"

/-- `none` when `inGoFragment`, else the first reason found -/
def outsideReason (env : Env) (file : AFile) (n : Nat) (G : List String) (closed : Bool) (st : St) (f : AFn) : Option String :=
  (outsideReasonRaw env file n G closed st f).map fun r => (r.splitOn "@").headD r

/-- every function of the file with the compiler state `compile_fn` finds when it reaches it -/
def fnStates (env : Env) : St → AFile → List (St × AFn)
  | _, [] => []
  | st, f :: rest => (st, f) :: fnStates env (compileFn env st f).2 rest

/-- the ROOT reason (reports only): follow `call:callee-outside-fragment@g` into `g`, looking in `g` for the first clause
    that fails once the functions already visited are treated as members (so a recursive cycle does not hide the clause
    that keeps it outside); answers `(function where the chain ends, its first failing clause)` -/
def rootReason (env : Env) (file : AFile) (n : Nat) (G : List String) (closed : Bool) : Nat → List String → String → String × String
  | 0, _, name => (name, "call:callee-outside-fragment(chain too long)")
  | k + 1, seen, name =>
    match (fnStates env { n := n, ok := true } file).find? (·.2.name == name) with
    | none => (name, "call:missing-function")
    | some (st, f) =>
      match outsideReasonRaw env file n (G ++ seen) (closed && !seen.contains name && seen.isEmpty) st f with
      | none => (name, "in-fragment(?)")
      | some r =>
        match r.splitOn "@" with
        | [_, callee] => rootReason env file n G closed k (name :: seen) callee
        | _ => (name, r)

end Goml.GoFrag
