import GomlVerif.Model.GoCompile
namespace Goml.GoFrag
open Goml Goml.GoCompile
def outsideReason (_env : Env) (_file : AFile) (_f : AFn) : Option String := some "todo"
end Goml.GoFrag
