import GomlVerif.Model.GoFrag
import GomlVerif.Model.GoTyping
/-!
The file-level hypothesis of the typing half of T2 (`compile_wellformed_typed_partial`): the struct declarations of the
emitted file carry the Go types of the fields.  (`fileOK` compares the field *names* only: that is all the simulation
needs.)  Decidable, evaluated on the model's own output.
-/
namespace Goml.GoFrag
open Goml Goml.GoCompile
open Goml.Go (GFile GTy)

/-- the emitted file declares an admitted struct with exactly the Go types of its fields (`structTableOK` compares
    the names only: that is all the simulation needs) -/
def structTyTableOK (env : Env) (F : GFile) (n : String) : Bool :=
  match F.structFields (gid n), env.getStruct n with
  | some decl, some d => Goml.GoTyping.fieldsBeqG decl (d.fields.map fun f => (gid f.1, goTy f.2))
  | _, _ => false

/-- the emitted file declares the struct of a tuple type of the fragment with the Go types of its components -/
def tupleTyTableOK (env : Env) (F : GFile) (t : Ty) : Bool :=
  match t with
  | .tuple ts =>
    !valTy env t ||
      (match F.structFields (goTypeNameFor t) with
       | some decl => Goml.GoTyping.fieldsBeqG decl (goTyFields 0 ts)
       | none => false)
  | _ => true

/-- the emitted file declares the interface of an admitted enum (not under the name `any`) and the struct of every
    variant with the Go types of the payload and with the methods of the interface (so that a variant value is
    assignable where the enum is expected) -/
def enumTyTableOK (env : Env) (F : GFile) (n : String) : Bool :=
  let c := Goml.GoTyping.mkTCtx F
  match env.getEnum n with
  | some d =>
    gid n != "any" &&
    (match c.ifaces.find? (·.1 == gid n) with
     | some (_, ms) =>
       d.variants.all fun v =>
         match c.findStruct (variantGoName env n v.1) with
         | some (fs, methods) => Goml.GoTyping.fieldsBeqG fs (variantFields 0 v.2) && ms.all methods.contains
         | none => false
     | none => false)
  | none => false

/-- file-level hypothesis of the typing half of T2 (decidable, evaluated on the model's own output): the struct
    declarations of the emitted file carry the Go types of the fields -/
def typedTablesOK (env : Env) (file : AFile) (n : Nat) : Bool :=
  let F := (goFilePreSt env file n).1
  (goodStructs env).all (structTyTableOK env F) && (collectRuntimeTypes env file).tuples.all (tupleTyTableOK env F) &&
  (goodEnums env).all (enumTyTableOK env F)

end Goml.GoFrag
