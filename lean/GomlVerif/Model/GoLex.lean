/-!
A character-level lexer for the part of Go's lexical grammar (spec "Lexical elements") the Go printer
`pprint/go_pprint.rs` can emit.  Import-free; compiled into `gomlmodel` (`gomlmodel golex`).

* identifiers: letter (`a–z A–Z _`, and every character from U+0080 up — the lexer's stand-in for Go's
  `unicode_letter`; `go::mangle::go_ident` only produces ASCII letters, digits and `_`) followed by letters / digits;
  the 25 keywords of the specification are classified `kw`;
* numbers: decimal digits, optional `.digits*`, optional exponent `e|E [+-] digits`; `.5` forms (`go_float_literal`
  prints Rust's `{}` of an f64, which has no exponent and always a digit before the point; the other forms are read as
  Go reads them so that the boundary conditions are honest);
* interpreted string literals: `lexStr`, the state machine of `escape_go_string_decodes`, moved here from
  `Props/GoPrint.lean` unchanged (its namespace is kept); the token text is the raw text with both quotes;
* operators and punctuation: Go's 47 operators, maximal munch (longest of 3, 2, 1 characters); `//` and `/*` start a
  comment in Go — the printer never writes one, the lexer rejects them;
* blanks (space, tab, carriage return) separate tokens; a newline — and the end of the input — emits the automatic
  semicolon (`Kind.semi`) when the last token of the line is an identifier, a literal, `break continue fallthrough
  return` or one of `++ -- ) ] }` (spec "Semicolons").

Rune literals, raw strings, hex / octal / binary / imaginary literals and comments are legal Go the printer never
writes; `lex` rejects them (returns `none`), which is all the round-trip theorems need.
-/
namespace Goml.GoPrint

def hexVal (c : Char) : Option Nat :=
  if '0' ≤ c ∧ c ≤ '9' then some (c.toNat - 48)
  else if 'a' ≤ c ∧ c ≤ 'f' then some (c.toNat - 87)
  else if 'A' ≤ c ∧ c ≤ 'F' then some (c.toNat - 55)
  else none

/-- the single-character escapes valid inside a string literal -/
def simpleEscape (e : Char) : Option Char :=
  if e = 'n' then some '\n' else if e = 'r' then some '\r' else if e = 't' then some '\t'
  else if e = '\\' then some '\\' else if e = '"' then some '"'
  else if e = 'a' then some (Char.ofNat 7) else if e = 'b' then some (Char.ofNat 8)
  else if e = 'f' then some (Char.ofNat 12) else if e = 'v' then some (Char.ofNat 11) else none

inductive LexSt where
  | normal | esc | uni (k acc : Nat)

def consRes (c : Char) : Option (List Char × List Char) → Option (List Char × List Char)
  | some (s, r) => some (c :: s, r)
  | none => none

def lexStr : LexSt → List Char → Option (List Char × List Char)
  | _, [] => none                                         -- literal not terminated
  | .normal, c :: rest =>
      if c = '"' then some ([], rest)
      else if c = '\n' then none                          -- newline in string
      else if c = '\\' then lexStr .esc rest
      else consRes c (lexStr .normal rest)
  | .esc, e :: rest =>
      if e = 'u' then lexStr (.uni 0 0) rest
      else match simpleEscape e with
        | some ch => consRes ch (lexStr .normal rest)
        | none => none                                    -- unknown escape
  | .uni k acc, d :: rest =>
      match hexVal d with
      | none => none
      | some x =>
        if k = 3 then
          (if 0xD800 ≤ acc * 16 + x ∧ acc * 16 + x ≤ 0xDFFF then none      -- surrogate half
           else consRes (Char.ofNat (acc * 16 + x)) (lexStr .normal rest))
        else lexStr (.uni (k + 1) (acc * 16 + x)) rest

end Goml.GoPrint

namespace Goml.GoLex
open Goml.GoPrint (lexStr LexSt)

inductive Kind where
  | ident | kw | num | str | sym
  | semi      -- the semicolon Go's lexer inserts at a newline / at the end of the input
  deriving Repr, BEq, DecidableEq, Inhabited

structure LTok where
  kind : Kind
  text : List Char
  deriving Repr, BEq, DecidableEq, Inhabited

def isLetter (c : Char) : Bool := c.isAlpha || c == '_' || decide (0x80 ≤ c.toNat)
def isDigit (c : Char) : Bool := c.isDigit
def isIdChar (c : Char) : Bool := isLetter c || isDigit c
def isBlank (c : Char) : Bool := c == ' ' || c == '\t' || c == '\r'

/-- Go specification, "Keywords" -/
def keywords : List (List Char) :=
  ["break", "default", "func", "interface", "select", "case", "defer", "go", "map", "struct", "chan", "else", "goto",
   "package", "switch", "const", "fallthrough", "if", "range", "type", "continue", "for", "import", "return", "var"].map
    String.toList

/-- Go specification, "Operators and punctuation", by length -/
def ops3 : List (List Char) := ["<<=", ">>=", "&^=", "..."].map String.toList
def ops2 : List (List Char) :=
  ["+=", "&=", "&&", "==", "!=", "-=", "|=", "||", "<=", "*=", "^=", "<-", ">=", "<<", "/=", "++", ":=", ">>", "%=", "--",
   "&^"].map String.toList
def ops1 : List (List Char) :=
  ["+", "&", "(", ")", "-", "|", "<", "[", "]", "*", "^", ">", "{", "}", "/", "=", ",", ";", "%", "!", ".", ":", "~"].map
    String.toList

/-- maximal munch over the operator list -/
def munch (cs : List Char) : Option (List Char × List Char) :=
  if ops3.contains (cs.take 3) then some (cs.take 3, cs.drop 3)
  else if ops2.contains (cs.take 2) then some (cs.take 2, cs.drop 2)
  else if ops1.contains (cs.take 1) then some (cs.take 1, cs.drop 1)
  else none

/-- an exponent part, if one starts here: `e|E`, optional sign, at least one digit -/
def scanExp : List Char → List Char × List Char
  | [] => ([], [])
  | e :: r =>
    if e == 'e' || e == 'E' then
      let sr : List Char × List Char :=
        match r with
        | s :: r' => if s == '+' || s == '-' then ([s], r') else ([], r)
        | [] => ([], r)
      let ds := sr.2.takeWhile isDigit
      if ds.isEmpty then ([], e :: r) else (e :: sr.1 ++ ds, sr.2.dropWhile isDigit)
    else ([], e :: r)

/-- a fraction part, if one starts here: `.` and digits (`5.` is a Go float) -/
def scanFrac : List Char → List Char × List Char
  | '.' :: r => ('.' :: r.takeWhile isDigit, r.dropWhile isDigit)
  | r => ([], r)

/-- a decimal literal that starts with a digit -/
def scanNum (cs : List Char) : List Char × List Char :=
  let ip := cs.takeWhile isDigit
  let fr := scanFrac (cs.dropWhile isDigit)
  let ex := scanExp fr.2
  (ip ++ fr.1 ++ ex.1, ex.2)

def startsDigit : List Char → Bool
  | d :: _ => isDigit d
  | [] => false

def startsComment : List Char → Bool
  | '/' :: _ | '*' :: _ => true
  | _ => false

/-- one token from an input that starts with neither a blank nor a newline -/
def lexTok : List Char → Option (LTok × List Char)
  | [] => none
  | c :: cs =>
    if isLetter c then
      let w := c :: cs.takeWhile isIdChar
      some (⟨if keywords.contains w then .kw else .ident, w⟩, cs.dropWhile isIdChar)
    else if isDigit c then
      let nr := scanNum (c :: cs)
      some (⟨.num, nr.1⟩, nr.2)
    else if c == '.' && startsDigit cs then
      let ex := scanExp (cs.dropWhile isDigit)
      some (⟨.num, '.' :: cs.takeWhile isDigit ++ ex.1⟩, ex.2)
    else if c == '"' then
      match lexStr .normal cs with
      | some (_, r) => some (⟨.str, '"' :: cs.take (cs.length - r.length)⟩, r)
      | none => none
    else if c == '/' && startsComment cs then none
    else
      match munch (c :: cs) with
      | some (o, r) => some (⟨.sym, o⟩, r)
      | none => none

def semiKeywords : List (List Char) := ["break", "continue", "fallthrough", "return"].map String.toList
def semiSyms : List (List Char) := ["++", "--", ")", "]", "}"].map String.toList

/-- Go specification, "Semicolons", rule 1: after which tokens a newline becomes a semicolon -/
def semiAfter (t : LTok) : Bool :=
  match t.kind with
  | .ident | .num | .str => true
  | .kw => semiKeywords.contains t.text
  | .sym => semiSyms.contains t.text
  | .semi => false

def semiTok : LTok := ⟨.semi, [';']⟩

def lexF : Nat → Bool → List Char → Option (List LTok)
  | 0, _, _ => none
  | _ + 1, fl, [] => some (if fl then [semiTok] else [])
  | n + 1, fl, c :: cs =>
    if isBlank c then lexF n fl cs
    else if c == '\n' then
      (if fl then (lexF n false cs).map (semiTok :: ·) else lexF n false cs)
    else
      match lexTok (c :: cs) with
      | some (t, r) => (lexF n (semiAfter t) r).map (t :: ·)
      | none => none

/-- the Go lexer on a whole text; fuel = input length (+1 for the end) -/
def lex (cs : List Char) : Option (List LTok) := lexF (cs.length + 1) false cs

end Goml.GoLex
