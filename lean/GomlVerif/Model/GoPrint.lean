import GomlVerif.Model.Go
import GomlVerif.Model.FloatFmt
import GomlVerif.Gen.GoPrintTables
import GomlVerif.Model.GoLex
/-!
Model of the Go printer `crates/compiler/src/pprint/go_pprint.rs` — the LAST step before the user sees Go
text — over the Go AST of `Model/Go.lean`.

What the Rust does (read off `go_pprint.rs`, 856 lines):
* it builds a `pretty::RcDoc` using ONLY `nil`, `text`, `space` (= `text " "`), `hardline`, `append`,
  `nest(4)` and `intersperse`; there is **no** `group`, `line`, `softline` anywhere, so the layout does not
  depend on the width passed to `render` (theorem `render_width_irrelevant` in `Props/GoPrint.lean`);
* it emits **no parentheses at all**: `Expr::to_doc` prints `lhs op rhs`, `op expr`, `base.f`, `base[i]`,
  `base.(T)`, `f(args)` by plain concatenation.  The text therefore reads back as the same tree only for the
  trees `ParenFree` describes (every operand already binds at least as tightly as its position needs);
  `go/compile.rs` produces such trees because ANF operands are atoms.

The model below mirrors the Rust function by function.  Every `RcDoc::text` the Rust emits is split into
its Go *tokens* (`Doc.tok`), so that the same value yields (a) the exact bytes (`render`) and (b) the token
stream with the line breaks (`Doc.items`) on which the lexical theorems are stated.  The tie
(`gv gopp` / `gomlmodel gopp`) requires byte equality of `render` with the real `to_pretty` at widths
40, 80 and 120 for every top-level item of every corpus / generated program and of synthetic ASTs.
-/
namespace Goml.GoPrint
open Goml.Go

/-! ## tokens and documents -/

/-- a Go token as the printer spells it -/
inductive Tok where
  | ident (s : String)   -- identifier (possibly qualified `pkg.Name`: `Expr::Var` carries such names), `nil`, `true`…
  | kw (s : String)      -- keyword
  | num (s : String)     -- integer / floating-point literal, unsigned spelling
  | str (s : String)     -- interpreted string literal, with its quotes
  | sym (s : String)     -- operator or punctuation
  deriving Repr, BEq, DecidableEq, Inhabited

def Tok.text : Tok → String
  | .ident s | .kw s | .num s | .str s | .sym s => s

/-- the fragment of `pretty::Doc` the printer uses (`tok` = `text`, `sp` = `space()` = `text(" ")`),
    plus `line` / `group` so that the renderer below is the general Wadler one and "the printer never
    produces a soft break" is a statement (`Hard`), not an artefact of the type. -/
inductive Doc where
  | nil
  | tok (t : Tok)
  | sp
  | hardline
  | cat (a b : Doc)
  | nest (n : Nat) (d : Doc)
  | line
  | group (d : Doc)
  deriving Repr, Inhabited

/-- `DocBuilder::append` (pretty 0.12): `Nil` on either side vanishes -/
def Doc.append : Doc → Doc → Doc
  | .nil, b => b
  | a, .nil => a
  | a, b => .cat a b

instance : Append Doc := ⟨Doc.append⟩

def Doc.size : Doc → Nat
  | .cat a b => 1 + a.size + b.size
  | .nest _ d => 1 + d.size
  | .group d => 1 + d.size
  | _ => 1

theorem Doc.size_pos (d : Doc) : 0 < d.size := by cases d <;> simp [Doc.size] <;> omega

/-- `RcDoc::intersperse`: `result = nil.append(first)`, then `result.append(sep).append(doc)` for the others -/
def intersperse (sep : Doc) : List Doc → Doc
  | [] => .nil
  | d :: ds => ds.foldl (fun acc x => acc ++ sep ++ x) d

/-- `RcDoc::text(s)` / `as_string(s)`: the empty text is `Nil` -/
def tokD (t : Tok) : Doc := if t.text.isEmpty then .nil else .tok t
/-- `DocBuilder::nest`: `Nil` stays `Nil` -/
def nestD (n : Nat) : Doc → Doc
  | .nil => .nil
  | d => .nest n d

def kw (s : String) : Doc := tokD (.kw s)
def sym (s : String) : Doc := tokD (.sym s)
def ident (s : String) : Doc := tokD (.ident s)

/-! ## the renderer (`pretty::render`): Wadler's `best` over a stack of (indent, flat?, doc) -/

abbrev Cmd := Nat × Bool × Doc

def stackSize : List Cmd → Nat
  | [] => 0
  | (_, _, d) :: r => d.size + stackSize r

/-- does the rest of the current line fit in `rem` columns?  (`pretty`'s `Best::fitting`: the group's own
    document flat, then the pending commands in break mode, up to the first newline; a `hardline` inside the
    flat part makes it not fit) -/
def fits (rem : Int) : List Cmd → Bool
  | [] => decide (0 ≤ rem)
  | (i, f, d) :: r =>
    if rem < 0 then false else
    match d with
    | .nil => fits rem r
    | .tok t => fits (rem - t.text.length) r
    | .sp => fits (rem - 1) r
    | .hardline => !f
    | .line => if f then fits (rem - 1) r else true
    | .cat a b => fits rem ((i, f, a) :: (i, f, b) :: r)
    | .nest n d => fits rem ((i + n, f, d) :: r)
    | .group d => fits rem ((i, f, d) :: r)
termination_by s => stackSize s
decreasing_by all_goals simp [stackSize, Doc.size] <;> omega

def spaces (n : Nat) : List Char := List.replicate n ' '

def asBreak : List Cmd → List Cmd
  | [] => []
  | (i, _, d) :: r => (i, false, d) :: asBreak r

theorem stackSize_asBreak (r : List Cmd) : stackSize (asBreak r) = stackSize r := by
  induction r with
  | nil => rfl
  | cons c r ih => obtain ⟨i, f, d⟩ := c; simp [asBreak, stackSize, ih]

/-- the indentation written after a newline: `pretty` 0.12 takes it from the NEXT pending command when there
    is one ("the next document may have different indentation so we should use it if we can") — this is
    why the `}` after `….append(hardline()).nest(4)` is not indented -/
def nlIndent (i : Nat) : List Cmd → Nat
  | [] => i
  | (j, _, _) :: _ => j

/-- layout at width `w`, current column `col` (`pretty`'s `Best::best`) -/
def best (w : Nat) (col : Nat) : List Cmd → List Char
  | [] => []
  | (i, f, d) :: r =>
    match d with
    | .nil => best w col r
    | .tok t => t.text.toList ++ best w (col + t.text.length) r
    | .sp => ' ' :: best w (col + 1) r
    | .hardline => '\n' :: spaces (nlIndent i r) ++ best w (nlIndent i r) r
    | .line => if f then ' ' :: best w (col + 1) r else '\n' :: spaces (nlIndent i r) ++ best w (nlIndent i r) r
    | .cat a b => best w col ((i, f, a) :: (i, f, b) :: r)
    | .nest n d => best w col ((i + n, f, d) :: r)
    | .group d =>
      if f then best w col ((i, true, d) :: r)
      else if fits ((w : Int) - col) ((i, true, d) :: asBreak r) then best w col ((i, true, d) :: r)
      else best w col ((i, false, d) :: r)
termination_by s => stackSize s
decreasing_by all_goals simp [stackSize, Doc.size] <;> omega

/-- `doc.render(width, &mut w)` -/
def render (w : Nat) (d : Doc) : String := String.ofList (best w 0 [(0, false, d)])

/-- the token stream with its line breaks: `none` = a newline the layout certainly emits -/
def Doc.items : Doc → List (Option Tok)
  | .nil | .sp => []
  | .tok t => [some t]
  | .hardline | .line => [none]
  | .cat a b => a.items ++ b.items
  | .nest _ d => d.items
  | .group d => d.items

/-- no soft break: the document has one layout -/
def Doc.Hard : Doc → Prop
  | .line | .group _ => False
  | .cat a b => a.Hard ∧ b.Hard
  | .nest _ d => d.Hard
  | _ => True

/-! ## `escape_go_string` -/

/-- Rust `char::is_control` (general category Cc): U+0000–U+001F and U+007F–U+009F -/
def isControl (c : Char) : Bool := c.toNat ≤ 0x1f || (0x7f ≤ c.toNat && c.toNat ≤ 0x9f)

def hexDigit (n : Nat) : Char := Gen.GoPrintTables.hexDigits.getD n '0'

/-- `format!("{:04x}", n)` for `n < 0x10000` (every control character is below U+00A0) -/
def hex4 (n : Nat) : List Char :=
  [hexDigit (n / 4096 % 16), hexDigit (n / 256 % 16), hexDigit (n / 16 % 16), hexDigit (n % 16)]

/-- the two-character escapes of `escape_go_string`, regenerated from the Rust `match` -/
def escapeTable : List (Char × List Char) := Gen.GoPrintTables.escapes

def escapeChar (c : Char) : List Char :=
  match escapeTable.lookup c with
  | some e => e
  | none => if isControl c then '\\' :: 'u' :: hex4 c.toNat else [c]

def escapeChars : List Char → List Char
  | [] => []
  | c :: cs => escapeChar c ++ escapeChars cs

def escapeGoString (s : String) : String := String.ofList (escapeChars s.toList)

/-! ## `go_float_literal`: Rust's `{}` of an `f64` (shortest digits that read back, never an exponent) -/

/-- Rust's shortest digits (`core::num::flt2dec::strategy::dragon::format_shortest`, which Grisu falls back to):
    `FloatFmt.shortest` with ONE difference — when both neighbouring candidates lie in the rounding interval and the
    value is exactly half way, Rust rounds UP (`up && (!down || 2·mant >= scale)`) where Go's strconv rounds to even
    (found by the tie on widened f32 values such as 658.31304931640625) -/
def rustShortest (m : Nat) (e : Int) (mantBits : Nat) (minExp : Int) : List Nat × Int := Id.run do
  let x := FloatFmt.qOf m e
  -- rounding interval of x
  let upper := FloatFmt.qOf (2 * m + 1) (e - 1)
  let lower := if m == 2 ^ mantBits && e > minExp then FloatFmt.qOf (4 * m - 1) (e - 2) else FloatFmt.qOf (2 * m - 1) (e - 1)
  let inclusive := m % 2 == 0
  let inside (d : FloatFmt.Q) : Bool :=
    (if inclusive then lower.le d else lower.lt d) && (if inclusive then d.le upper else d.lt upper)
  -- dp with 10^(dp-1) ≤ x < 10^dp
  let mut dp : Int := 0
  let mut guard := 0
  while guard < 800 && FloatFmt.Q.le ⟨10 ^ dp.toNat, 10 ^ (-dp).toNat⟩ x do
    dp := dp + 1; guard := guard + 1
  guard := 0
  while guard < 800 && FloatFmt.Q.lt x ⟨10 ^ (dp - 1).toNat, 10 ^ (1 - dp).toNat⟩ do
    dp := dp - 1; guard := guard + 1
  for nd in [1:18] do
    -- scale: x / 10^(dp-nd)
    let s : Int := dp - nd
    let scaledNum := x.num * 10 ^ (-s).toNat
    let scaledDen := x.den * 10 ^ s.toNat
    let lo := scaledNum / scaledDen
    let cand (D : Nat) : FloatFmt.Q := ⟨D * 10 ^ s.toNat, 10 ^ (-s).toNat⟩
    let okLo := lo ≥ 10 ^ (nd - 1) && inside (cand lo)
    let okHi := inside (cand (lo + 1))
    if okLo || okHi then
      -- the closer one; an exact tie goes UP
      let rem2 := 2 * (scaledNum - lo * scaledDen)
      let pickHi := okHi && (!okLo || rem2 ≥ scaledDen)
      let D := if pickHi then lo + 1 else lo
      if D == 10 ^ nd then return ([1], dp + 1)
      let ds := FloatFmt.natDigits D
      -- strip trailing zeros
      let ds := (ds.reverse.dropWhile (· == 0)).reverse
      return (if ds.isEmpty then [0] else ds, dp)
  return (FloatFmt.natDigits m, dp)


def rustDisplayF64 (bits : Nat) : String :=
  let (neg, m, e, special, zero) := FloatFmt.decode bits 52 11
  let sign := if neg then "-" else ""
  if special then (if bits % 2 ^ 52 != 0 then "NaN" else sign ++ "inf")
  else if zero then sign ++ "0"
  else
    let bias : Int := (2 : Int) ^ 10 - 1
    let (ds, dp) := rustShortest m e 52 (1 - bias - 52)
    if dp ≤ 0 then sign ++ "0." ++ String.ofList (List.replicate (-dp).toNat '0') ++ FloatFmt.digitsStr ds
    else if dp.toNat < ds.length then
      sign ++ FloatFmt.digitsStr (ds.take dp.toNat) ++ "." ++ FloatFmt.digitsStr (ds.drop dp.toNat)
    else sign ++ FloatFmt.digitsStr ds ++ String.ofList (List.replicate (dp.toNat - ds.length) '0')

def isFiniteBits (bits : Nat) : Bool := bits / 2 ^ 52 % 2 ^ 11 != 2 ^ 11 - 1

def goFloatLiteral (bits : Nat) : String :=
  let text := rustDisplayF64 bits
  if !isFiniteBits bits || text.toList.any (fun c => c == '.' || c == 'e' || c == 'E') then text
  else text ++ Gen.GoPrintTables.integralSuffix

/-- a numeric literal text: a leading `-` is Go's unary minus token, not part of the literal -/
def numDoc (text : String) : Doc :=
  match text.toList with
  | '-' :: rest => sym "-" ++ tokD (.num (String.ofList rest))
  | _ => tokD (.num text)

/-! ## types: `go_type_name`, `go_type_doc` -/

def intName (bits : Nat) (signed : Bool) : String := (if signed then "int" else "uint") ++ toString bits

/-- `go_type_name` as tokens (a function type is just `func`, a struct type is its name) -/
def typeNameToks : GTy → List Tok
  | .void => [.ident "void"]
  | .unit => [.kw "struct", .sym "{", .sym "}"]
  | .bool => [.ident "bool"]
  | .int b s => [.ident (intName b s)]
  | .float b => [.ident ("float" ++ toString b)]
  | .string => [.ident "string"]
  | .struct n _ => [.ident n]
  | .ptr e => .sym "*" :: typeNameToks e
  | .name n => [.ident n]
  | .array len e => .sym "[" :: .num (toString len) :: .sym "]" :: typeNameToks e
  | .slice e => .sym "[" :: .sym "]" :: typeNameToks e
  | .func _ _ => [.kw "func"]

def toksDoc : List Tok → Doc
  | [] => .nil
  | [t] => tokD t
  | t :: ts => tokD t ++ toksDoc ts

mutual
/-- `go_type_doc` -/
def typeDoc : GTy → Doc
  | .func ps r =>
      kw "func" ++ sym "(" ++ intersperse (sym "," ++ .sp) (typeDocs ps) ++ sym ")" ++
        (match r with
         | .void => .nil
         | other => .sp ++ typeDoc other)
  | .array len e => sym "[" ++ tokD (.num (toString len)) ++ sym "]" ++ typeDoc e
  | .slice e => sym "[" ++ sym "]" ++ typeDoc e
  | .ptr e => sym "*" ++ typeDoc e
  | other => toksDoc (typeNameToks other)
def typeDocs : List GTy → List Doc
  | [] => []
  | t :: ts => typeDoc t :: typeDocs ts
end

def unSym (op : GUn) : String :=
  (Gen.GoPrintTables.unSyms.lookup (match op with | .neg => "Neg" | .not => "Not" | .addr => "AddrOf" | .deref => "Deref")).getD "?"

def binSym (op : GBin) : String :=
  (Gen.GoPrintTables.binSyms.lookup (match op with
    | .add => "Add" | .sub => "Sub" | .mul => "Mul" | .div => "Div" | .less => "Less" | .greater => "Greater"
    | .lessEq => "LessEq" | .greaterEq => "GreaterEq" | .eq => "Eq" | .notEq => "NotEq" | .and => "And"
    | .or => "Or")).getD "?"

/-- `name ty` parameter lists, `intersperse(", ")` -/
def paramsDoc (ps : List (String × GTy)) : Doc :=
  intersperse (sym "," ++ .sp) (ps.map fun (p, t) => ident p ++ .sp ++ typeDoc t)

/-- sentinel the model prints where the Rust panics (`ArrayLiteral` of a non-array type) -/
def panicTok : Doc := ident "\x00PANIC"

/-! ## expressions and statements -/

mutual
/-- `Expr::to_doc` -/
def exprDoc : GExpr → Doc
  | .nil _ => ident "nil"
  | .voidv _ => tokD (.sym "")      -- `RcDoc::text("")`, which `pretty` makes `Nil`
  | .unitv _ => kw "struct" ++ sym "{" ++ sym "}" ++ sym "{" ++ sym "}"
  | .var x _ => ident x
  | .bool b => ident (if b then "true" else "false")
  | .int text _ => numDoc text
  | .float bits _ => numDoc (goFloatLiteral bits.toNat)
  | .str s => tokD (.str ("\"" ++ escapeGoString s ++ "\""))
  | .call _ f args => exprDoc f ++ sym "(" ++ intersperse (sym "," ++ .sp) (exprDocs args) ++ sym ")"
  | .un op _ e => sym (unSym op) ++ exprDoc e
  | .bin op _ l r => exprDoc l ++ .sp ++ sym (binSym op) ++ .sp ++ exprDoc r
  | .field f _ obj => exprDoc obj ++ sym "." ++ ident f
  | .index _ arr idx => exprDoc arr ++ sym "[" ++ exprDoc idx ++ sym "]"
  | .cast ty e => exprDoc e ++ sym "." ++ sym "(" ++ typeDoc ty ++ sym ")"
  | .slit ty [] => toksDoc (typeNameToks ty) ++ sym "{" ++ sym "}"
  | .slit ty (f :: fs) =>
      toksDoc (typeNameToks ty) ++ sym "{" ++
        nestD Gen.GoPrintTables.nestAmount (.hardline ++ intersperse .hardline (fieldDocs (f :: fs)) ++ .hardline) ++ sym "}"
  | .alit (.array len e) elems =>
      sym "[" ++ tokD (.num (toString len)) ++ sym "]" ++ typeDoc e ++
        sym "{" ++ intersperse (sym "," ++ .sp) (exprDocs elems) ++ sym "}"
  | .alit (.slice e) elems =>
      sym "[" ++ sym "]" ++ typeDoc e ++ sym "{" ++ intersperse (sym "," ++ .sp) (exprDocs elems) ++ sym "}"
  | .alit _ elems =>      -- the Rust panics here ("Array literal must have array or slice type")
      panicTok ++ sym "{" ++ intersperse (sym "," ++ .sp) (exprDocs elems) ++ sym "}"
  -- `Expr::Block` (never produced for a value position by the back end; not a Go expression):
  -- `{` nest(hardline, stmts joined by hardline, hardline if an expression follows, the expression, hardline) `}`
  | .blocke _ [] none => sym "{" ++ sym "}"
  | .blocke _ [] (some x) => sym "{" ++ nestD Gen.GoPrintTables.nestAmount (.hardline ++ exprDoc x ++ .hardline) ++ sym "}"
  | .blocke _ (s :: ss) none =>
      sym "{" ++ nestD Gen.GoPrintTables.nestAmount (.hardline ++ intersperse .hardline (stmtDoc s :: stmtDocs ss) ++ .hardline) ++ sym "}"
  | .blocke _ (s :: ss) (some x) =>
      sym "{" ++ nestD Gen.GoPrintTables.nestAmount
        (.hardline ++ (intersperse .hardline (stmtDoc s :: stmtDocs ss) ++ .hardline) ++ exprDoc x ++ .hardline) ++ sym "}"
def exprDocs : List GExpr → List Doc
  | [] => []
  | e :: es => exprDoc e :: exprDocs es
def fieldDocs : List GField → List Doc
  | [] => []
  | .mk n e :: fs => (ident n ++ sym ":" ++ .sp ++ exprDoc e ++ sym ",") :: fieldDocs fs
/-- `Stmt::to_doc` -/
def stmtDoc : GStmt → Doc
  | .expr e => exprDoc e
  | .go call => kw "go" ++ .sp ++ exprDoc call
  | .varDecl x ty (some v) => kw "var" ++ .sp ++ ident x ++ .sp ++ typeDoc ty ++ .sp ++ sym "=" ++ .sp ++ exprDoc v
  | .varDecl x ty none => kw "var" ++ .sp ++ ident x ++ .sp ++ typeDoc ty
  | .assign x v => ident x ++ .sp ++ sym "=" ++ .sp ++ exprDoc v
  | .fieldAssign t v => exprDoc t ++ .sp ++ sym "=" ++ .sp ++ exprDoc v
  | .ptrAssign p v => sym "*" ++ exprDoc p ++ .sp ++ sym "=" ++ .sp ++ exprDoc v
  | .indexAssign a i v => exprDoc a ++ sym "[" ++ exprDoc i ++ sym "]" ++ .sp ++ sym "=" ++ .sp ++ exprDoc v
  | .ret (some e) => kw "return" ++ .sp ++ exprDoc e
  | .ret none => kw "return"
  | .loop [] => kw "for" ++ .sp ++ sym "{" ++ sym "}"
  | .loop (s :: ss) =>
      kw "for" ++ .sp ++ sym "{" ++
        (nestD Gen.GoPrintTables.nestAmount (.hardline ++ intersperse .hardline (stmtDoc s :: stmtDocs ss)) ++ .hardline) ++ sym "}"
  | .brk => kw "break"
  | .ite c t (some eb) => kw "if" ++ .sp ++ exprDoc c ++ .sp ++ blockDoc t ++ .sp ++ kw "else" ++ .sp ++ blockDoc eb
  | .ite c t none => kw "if" ++ .sp ++ exprDoc c ++ .sp ++ blockDoc t
  | .switch e cases (some blk) =>
      kw "switch" ++ .sp ++ exprDoc e ++ .sp ++ sym "{" ++ .hardline ++ intersperse .hardline (caseDocs cases) ++
        (.hardline ++ kw "default" ++ sym ":" ++ caseBody blk) ++ .hardline ++ sym "}"
  | .switch e cases none =>
      kw "switch" ++ .sp ++ exprDoc e ++ .sp ++ sym "{" ++ .hardline ++ intersperse .hardline (caseDocs cases) ++
        .hardline ++ sym "}"
  | .tswitch (some b) e cases (some blk) =>
      kw "switch" ++ .sp ++ (ident b ++ .sp ++ sym ":=" ++ .sp) ++
        exprDoc e ++ sym "." ++ sym "(" ++ kw "type" ++ sym ")" ++ .sp ++ sym "{" ++ .hardline ++
        intersperse .hardline (tcaseDocs cases) ++ (.hardline ++ kw "default" ++ sym ":" ++ caseBody blk) ++ .hardline ++ sym "}"
  | .tswitch (some b) e cases none =>
      kw "switch" ++ .sp ++ (ident b ++ .sp ++ sym ":=" ++ .sp) ++
        exprDoc e ++ sym "." ++ sym "(" ++ kw "type" ++ sym ")" ++ .sp ++ sym "{" ++ .hardline ++
        intersperse .hardline (tcaseDocs cases) ++ .hardline ++ sym "}"
  | .tswitch none e cases (some blk) =>
      kw "switch" ++ .sp ++
        exprDoc e ++ sym "." ++ sym "(" ++ kw "type" ++ sym ")" ++ .sp ++ sym "{" ++ .hardline ++
        intersperse .hardline (tcaseDocs cases) ++ (.hardline ++ kw "default" ++ sym ":" ++ caseBody blk) ++ .hardline ++ sym "}"
  | .tswitch none e cases none =>
      kw "switch" ++ .sp ++
        exprDoc e ++ sym "." ++ sym "(" ++ kw "type" ++ sym ")" ++ .sp ++ sym "{" ++ .hardline ++
        intersperse .hardline (tcaseDocs cases) ++ .hardline ++ sym "}"
def stmtDocs : List GStmt → List Doc
  | [] => []
  | s :: ss => stmtDoc s :: stmtDocs ss
/-- `Block::to_doc` -/
def blockDoc : List GStmt → Doc
  | [] => sym "{" ++ sym "}"
  | s :: ss => sym "{" ++ nestD Gen.GoPrintTables.nestAmount (.hardline ++ intersperse .hardline (stmtDoc s :: stmtDocs ss)) ++ .hardline ++ sym "}"
/-- the body of a `case` / `default` clause -/
def caseBody : List GStmt → Doc
  | [] => .nil
  | s :: ss => nestD Gen.GoPrintTables.nestAmount (.hardline ++ intersperse .hardline (stmtDoc s :: stmtDocs ss))
def caseDocs : List GCase → List Doc
  | [] => []
  | .mk v body :: cs => (kw "case" ++ .sp ++ exprDoc v ++ sym ":" ++ caseBody body) :: caseDocs cs
def tcaseDocs : List GTCase → List Doc
  | [] => []
  | .mk ty body :: cs => (kw "case" ++ .sp ++ typeDoc ty ++ sym ":" ++ caseBody body) :: tcaseDocs cs
end

/-! ## items -/

/-- `Method::to_doc` (+ `Receiver::to_doc`) -/
def methodDoc (m : GMethod) : Doc :=
  kw "func" ++ .sp ++ (sym "(" ++ ident m.recvName ++ .sp ++ typeDoc m.recvTy ++ sym ")") ++ .sp ++ ident m.name ++
    sym "(" ++ paramsDoc m.params ++ sym ")" ++ .sp ++ blockDoc m.body

/-- `Fn::to_doc` -/
def funcDoc (f : GFunc) : Doc :=
  kw "func" ++ .sp ++ ident f.name ++ sym "(" ++ paramsDoc f.params ++ sym ")" ++ .sp ++
    (match f.ret with
     | some t => typeDoc t ++ .sp
     | none => .nil) ++
    blockDoc f.body

/-- `MethodElem::to_doc` -/
def methodElemDoc (m : String × List (String × GTy) × Option GTy) : Doc :=
  ident m.1 ++ sym "(" ++ paramsDoc m.2.1 ++ sym ")" ++
    (match m.2.2 with
     | some t => .sp ++ typeDoc t
     | none => .nil)

/-- `ImportSpec::to_doc`; the dump writes a missing alias as `-` -/
def importSpecDoc (s : String × String) : Doc :=
  (if s.1 == "-" then .nil else ident s.1 ++ .sp) ++ tokD (.str ("\"" ++ s.2 ++ "\""))

/-- `Item::to_doc` -/
def itemDoc : GItem → Doc
  | .package n => kw "package" ++ .sp ++ ident n
  | .imports [] => kw "import" ++ .sp ++ sym "(" ++ sym ")"
  | .imports specs =>
      kw "import" ++ .sp ++ sym "(" ++ nestD Gen.GoPrintTables.nestAmount (.hardline ++ intersperse .hardline (specs.map importSpecDoc)) ++
        .hardline ++ sym ")"
  | .interface name methods =>
      kw "type" ++ .sp ++ ident name ++ .sp ++ kw "interface" ++ .sp ++ sym "{" ++
        (match methods with
         | [] => .nil
         | ms => nestD Gen.GoPrintTables.nestAmount (.hardline ++ intersperse .hardline (ms.map methodElemDoc) ++ .hardline)) ++
        sym "}"
  | .structDef name fields methods =>
      let def_ := kw "type" ++ .sp ++ ident name ++ .sp ++ kw "struct" ++ .sp ++ sym "{" ++
        (match fields with
         | [] => .nil
         | fs => nestD Gen.GoPrintTables.nestAmount (.hardline ++ intersperse .hardline (fs.map fun (f, t) => ident f ++ .sp ++ typeDoc t) ++ .hardline)) ++
        sym "}"
      (match methods with
       | [] => def_
       | ms => def_ ++ .hardline ++ .hardline ++ intersperse (.hardline ++ .hardline) (ms.map methodDoc))
  | .alias name ty => kw "type" ++ .sp ++ ident name ++ .sp ++ sym "=" ++ .sp ++ typeDoc ty
  | .func f => funcDoc f

/-- `File::to_doc` -/
def fileDoc (f : GFile) : Doc :=
  intersperse (.hardline ++ .hardline) (f.items.map itemDoc) ++ .hardline

def printItem (w : Nat) (it : GItem) : String := render w (itemDoc it)
def printFile (w : Nat) (f : GFile) : String := render w (fileDoc f)
def printExpr (w : Nat) (e : GExpr) : String := render w (exprDoc e)

/-! ## which trees the text reads back as (the printer writes no parentheses) -/

/-- Go's five binary precedence levels (spec "Operator precedence"): `||` 1, `&&` 2, comparison 3, `+ -` 4, `* /` 5 -/
def binPrec : GBin → Nat
  | .or => 1
  | .and => 2
  | .eq | .notEq | .less | .lessEq | .greater | .greaterEq => 3
  | .add | .sub => 4
  | .mul | .div => 5

def isNegText (s : String) : Bool := match s.toList with | '-' :: _ => true | _ => false

/-- how tightly the *printed text* of an expression binds: a binary expression at its operator's level, a
    unary expression (and a negative literal, which is `-` applied to a literal) at 6, everything else
    (operands, and the postfix forms selector / index / call / assertion / composite literal) at 7 -/
def level : GExpr → Nat
  | .bin op _ _ _ => binPrec op
  | .un _ _ _ => 6
  | .int text _ => if isNegText text then 6 else 7
  | .float bits _ => if isNegText (goFloatLiteral bits.toNat) then 6 else 7
  | _ => 7

/-- the first token of the printed text starts with this character (only `-` and `&` matter: `--`, `&&`) -/
def startsWithSym (c : String) : GExpr → Bool
  | .un op _ _ => unSym op == c
  | .int text _ => c == "-" && isNegText text
  | .float bits _ => c == "-" && isNegText (goFloatLiteral bits.toNat)
  | _ => false

def isNumLit : GExpr → Bool
  | .int _ _ | .float _ _ => true
  | _ => false

/-- the type of an `ArrayLiteral` the printer accepts (it panics on any other) -/
def isArrTy : GTy → Bool
  | .array _ _ | .slice _ => true
  | _ => false

mutual
/-- the expression's printed text, read by Go's precedence rules, is the expression: every operand binds at
    least as tightly as its position requires (left operand ≥ the operator's level — Go's binary operators
    associate to the left —, right operand > it, operand of a unary operator ≥ 6, base of a postfix form = 7),
    a unary operator is not glued to an equal one (`--`, `&&` are other tokens), and the forms that are not Go
    expressions at all (`Void`, which prints nothing, and `Block`) do not occur -/
def exprParenFree : GExpr → Bool
  | .voidv _ => false
  | .blocke _ _ _ => false
  | .bin op _ l r => decide (binPrec op ≤ level l) && decide (binPrec op < level r) && exprParenFree l && exprParenFree r
  | .un op _ e => decide (6 ≤ level e) && !startsWithSym (unSym op) e && exprParenFree e
  | .call _ f args => decide (7 ≤ level f) && exprParenFree f && exprsParenFree args
  | .field _ _ obj => decide (7 ≤ level obj) && !isNumLit obj && exprParenFree obj
  | .index _ arr idx => decide (7 ≤ level arr) && exprParenFree arr && exprParenFree idx
  | .cast _ e => decide (7 ≤ level e) && !isNumLit e && exprParenFree e
  | .slit _ fields => fieldsParenFree fields
  | .alit ty elems => isArrTy ty && exprsParenFree elems
  | _ => true
def exprsParenFree : List GExpr → Bool
  | [] => true
  | e :: es => exprParenFree e && exprsParenFree es
def fieldsParenFree : List GField → Bool
  | [] => true
  | .mk _ e :: fs => exprParenFree e && fieldsParenFree fs
end

/-- a composite literal outside any bracket: in the header of `if` / `switch` Go's parser reads its `{` as the
    start of the statement's block (spec "Composite literals", parsing ambiguity) -/
def bareLit : GExpr → Bool
  | .slit _ _ | .alit _ _ | .unitv _ => true
  | .bin _ _ l r => bareLit l || bareLit r
  | .un _ _ e => bareLit e
  | .call _ f _ => bareLit f
  | .field _ _ o => bareLit o
  | .index _ a _ => bareLit a
  | .cast _ e => bareLit e
  | _ => false

mutual
def stmtParenFree : GStmt → Bool
  | .expr e => exprParenFree e
  | .go call => exprParenFree call
  | .varDecl _ _ (some v) => exprParenFree v
  | .varDecl _ _ none => true
  | .assign _ v => exprParenFree v
  | .fieldAssign t v => exprParenFree t && exprParenFree v
  | .ptrAssign p v => decide (6 ≤ level p) && exprParenFree p && exprParenFree v
  | .indexAssign a i v => decide (7 ≤ level a) && exprParenFree a && exprParenFree i && exprParenFree v
  | .ret (some (.voidv _)) => true     -- `return ` + nothing: a bare return
  | .ret (some e) => exprParenFree e
  | .ret none => true
  | .loop body => stmtsParenFree body
  | .brk => true
  | .ite c t (some e) => exprParenFree c && !bareLit c && stmtsParenFree t && stmtsParenFree e
  | .ite c t none => exprParenFree c && !bareLit c && stmtsParenFree t
  | .switch e cases (some d) => exprParenFree e && !bareLit e && casesParenFree cases && stmtsParenFree d
  | .switch e cases none => exprParenFree e && !bareLit e && casesParenFree cases
  | .tswitch _ e cases (some d) => decide (7 ≤ level e) && exprParenFree e && !bareLit e && tcasesParenFree cases && stmtsParenFree d
  | .tswitch _ e cases none => decide (7 ≤ level e) && exprParenFree e && !bareLit e && tcasesParenFree cases
def stmtsParenFree : List GStmt → Bool
  | [] => true
  | s :: ss => stmtParenFree s && stmtsParenFree ss
def casesParenFree : List GCase → Bool
  | [] => true
  | .mk v body :: cs => exprParenFree v && stmtsParenFree body && casesParenFree cs
def tcasesParenFree : List GTCase → Bool
  | [] => true
  | .mk _ body :: cs => stmtsParenFree body && tcasesParenFree cs
end

def itemParenFree : GItem → Bool
  | .func f => stmtsParenFree f.body
  | .structDef _ _ ms => ms.all fun m => stmtsParenFree m.body
  | _ => true

/-! ## the subset of `print_expr_roundtrip` (Props/GoPrint.lean) -/

def numOK (text : String) : Bool :=
  match text.toList with
  | '-' :: rest => !(String.ofList rest).isEmpty
  | _ => !text.isEmpty

mutual
/-- the operator subset of this theorem (names and literal texts not empty: `RcDoc::text("")` prints no token) -/
def inSubset : GExpr → Bool
  | .nil _ => true
  | .bool _ => true
  | .var x _ => !x.isEmpty
  | .int text _ => numOK text
  | .float bits _ => numOK (goFloatLiteral bits.toNat)
  | .str _ => true
  | .call _ f args => inSubset f && inSubsetList args
  | .un _ _ e => inSubset e
  | .bin _ _ l r => inSubset l && inSubset r
  | .field f _ o => !f.isEmpty && inSubset o
  | .index _ a i => inSubset a && inSubset i
  | _ => false
def inSubsetList : List GExpr → Bool
  | [] => true
  | e :: es => inSubset e && inSubsetList es
end


mutual
/-- the expressions a statement holds directly (the roots the round-trip theorem is applied to) -/
def stmtRoots : GStmt → List GExpr
  | .expr e => [e]
  | .go c => [c]
  | .varDecl _ _ (some v) => [v]
  | .varDecl _ _ none => []
  | .assign _ v => [v]
  | .fieldAssign t v => [t, v]
  | .ptrAssign p v => [p, v]
  | .indexAssign a i v => [a, i, v]
  | .ret (some (.voidv _)) => []      -- `return` + nothing: a bare return
  | .ret (some e) => [e]
  | .ret none => []
  | .loop body => stmtsRoots body
  | .brk => []
  | .ite c t (some e) => c :: (stmtsRoots t ++ stmtsRoots e)
  | .ite c t none => c :: stmtsRoots t
  | .switch e cases (some d) => e :: (casesRoots cases ++ stmtsRoots d)
  | .switch e cases none => e :: casesRoots cases
  | .tswitch _ e cases (some d) => e :: (tcasesRoots cases ++ stmtsRoots d)
  | .tswitch _ e cases none => e :: tcasesRoots cases
def stmtsRoots : List GStmt → List GExpr
  | [] => []
  | s :: ss => stmtRoots s ++ stmtsRoots ss
def casesRoots : List GCase → List GExpr
  | [] => []
  | .mk v body :: cs => v :: (stmtsRoots body ++ casesRoots cs)
def tcasesRoots : List GTCase → List GExpr
  | [] => []
  | .mk _ body :: cs => stmtsRoots body ++ tcasesRoots cs
end

def itemRoots : GItem → List GExpr
  | .func f => stmtsRoots f.body
  | .structDef _ _ ms => ms.flatMap fun m => stmtsRoots m.body
  | _ => []

/-! ## adjacency: two tokens printed with nothing between them must not read as one -/

inductive Piece where
  | tok (t : Tok)
  | sp
  | nl
  deriving Repr, BEq, Inhabited

def Doc.pieces : Doc → List Piece
  | .nil => []
  | .sp => [.sp]
  | .tok t => [.tok t]
  | .hardline | .line => [.nl]
  | .cat a b => a.pieces ++ b.pieces
  | .nest _ d => d.pieces
  | .group d => d.pieces

/-- Go's operators and punctuation (spec "Operators and punctuation") plus the two comment openers -/
def goOperators : List String :=
  ["+", "&", "+=", "&=", "&&", "==", "!=", "(", ")", "-", "|", "-=", "|=", "||", "<", "<=", "[", "]", "*", "^", "*=",
   "^=", "<-", ">", ">=", "{", "}", "/", "<<", "/=", "<<=", "++", "=", ":=", ",", ";", "%", ">>", "%=", ">>=", "--",
   "!", "...", ".", ":", "&^", "&^=", "~", "//", "/*"]

def isWordy : Tok → Bool
  | .ident _ | .kw _ | .num _ => true
  | _ => false

/-- would a lexer with maximal munch read `a` immediately followed by `b` differently from the two tokens? -/
def glued (a b : Tok) : Bool :=
  match a, b with
  | .sym x, .sym y =>
      let xy := (x ++ y).toList
      goOperators.any fun o => x.length < o.length && o.toList.isPrefixOf xy
  | .num _, .sym y => y == "."
  | .sym x, .num _ => x == "."
  | a, b => isWordy a && isWordy b

def glueFreeFrom : Option Tok → List Piece → Bool
  | _, [] => true
  | prev, .tok t :: r => (match prev with | some p => !glued p t | none => true) && glueFreeFrom (some t) r
  | _, _ :: r => glueFreeFrom none r

def glueFree (ps : List Piece) : Bool := glueFreeFrom none ps

/-! ## what Go's lexer (`Model/GoLex.lean`) must return on the rendered pieces -/

def Tok.lt : Tok → GoLex.LTok
  | .ident s => ⟨.ident, s.toList⟩
  | .kw s => ⟨.kw, s.toList⟩
  | .num s => ⟨.num, s.toList⟩
  | .str s => ⟨.str, s.toList⟩
  | .sym s => ⟨.sym, s.toList⟩

/-- the token list of a piece list with Go's automatic semicolons: `fl` = the last token of the current line
    triggers one at the next newline / at the end -/
def expectToks (fl : Bool) : List Piece → List GoLex.LTok
  | [] => if fl then [GoLex.semiTok] else []
  | .tok t :: r => t.lt :: expectToks (GoLex.semiAfter t.lt) r
  | .sp :: r => expectToks fl r
  | .nl :: r => (if fl then [GoLex.semiTok] else []) ++ expectToks false r

/-- a qualified name `pkg.F` (one `ident` piece of the model, `Expr::Var` carries such names) as Go's tokens -/
def splitQualified : List Char → List (List Char)
  | [] => [[]]
  | c :: cs =>
    match splitQualified cs with
    | w :: ws => if c == '.' then [] :: w :: ws else (c :: w) :: ws
    | [] => [[c]]

def Piece.split : Piece → List Piece
  | .tok (.ident s) =>
      if s.toList.contains '.' && !s.toList.contains '\x00' then
        ((splitQualified s.toList).map fun w => Piece.tok (.ident (String.ofList w))).intersperse (.tok (.sym "."))
      else [.tok (.ident s)]
  | p => [p]

def isNumText (cs : List Char) : Bool :=
  let ip := cs.takeWhile GoLex.isDigit
  !ip.isEmpty &&
    (match cs.dropWhile GoLex.isDigit with
     | [] => true
     | '.' :: f => f.all GoLex.isDigit
     | _ => false)

/-- the token texts `lex_render_tokens` is stated for: an identifier of Go's grammar that is not a keyword, a keyword,
    digits with an optional `.digits` (what `Expr::Int` and `go_float_literal` print for finite values), a string token
    that is `"` + `escape_go_string(v)` + `"` for some `v`, one of Go's operators -/
def Tok.wf : Tok → Bool
  | .ident s =>
      (match s.toList with
       | c :: cs => GoLex.isLetter c && cs.all GoLex.isIdChar && !GoLex.keywords.contains (c :: cs)
       | [] => false)
  | .kw s => GoLex.keywords.contains s.toList
  | .num s => isNumText s.toList
  | .str s =>
      (match s.toList with
       | '"' :: b =>
         (match GoPrint.lexStr .normal b with
          | some (v, []) => b == escapeChars v ++ ['"']
          | _ => false)
       | _ => false)
  | .sym s => GoLex.ops1.contains s.toList || GoLex.ops2.contains s.toList || GoLex.ops3.contains s.toList

def piecesWf : List Piece → Bool
  | [] => true
  | .tok t :: r => t.wf && piecesWf r
  | _ :: r => piecesWf r

end Goml.GoPrint
