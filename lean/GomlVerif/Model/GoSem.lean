import GomlVerif.Model.Go
import GomlVerif.Model.Sem
/-
Operational semantics of the emitted Go subset: the observable world is the same as in
`Sem` (stdout, a heap, spawned activations), so outcomes are comparable by `==`.
Our reading of the Go specification for exactly the constructs `go/compile.rs` and
`go/runtime.rs` produce.  Part of the trusted base (validated against the corpus'
recorded outputs, which come from real Go).
-/
namespace Goml.Go
open Goml.Sem (Fail wrap roundF goQuote)

inductive GVal where
  | void | unit
  | bool (b : Bool)
  | int (bits : Nat) (signed : Bool) (v : Int)
  | float (bits : Nat) (x : Float)
  | str (s : String)
  | struct (name : String) (fields : List (String × GVal))
  | ptr (loc : Nat)
  | nilv
  | array (vs : List GVal)
  /-- a slice header: backing array (a heap cell holding `.array`), length, capacity -/
  | slice (loc len cap : Nat)
  | func (name : String)
  deriving Inhabited

abbrev GEnv := List (String × GVal)

structure GWorld where
  out : String := ""
  heap : Array GVal := #[]
  spawned : List (GVal × List GVal) := []
  externs : List String := []
  eager : Bool := true
  /-- the Go specification leaves the capacity after growth open: `0` = grow to exactly the new
      length (an append never shares), `k+1` = grow to `2·len + k + 1` (appends to a common prefix
      may share the backing array) -/
  capPolicy : Nat := 0
  deriving Inhabited

inductive GRes (α : Type) where
  | ok (a : α) (w : GWorld)
  | fail (f : Fail) (w : GWorld)
  deriving Inhabited

inductive Sig where
  | normal | brk | ret (v : GVal)
  deriving Inhabited

def lookupG (ρ : GEnv) (x : String) : Option GVal :=
  match ρ.find? (·.1 == x) with
  | some p => some p.2
  | none => none

def updateG : GEnv → String → GVal → GEnv
  | [], _, _ => []
  | (y, w) :: rest, x, v => if y == x then (y, v) :: rest else (y, w) :: updateG rest x v

def setField : List (String × GVal) → String → GVal → List (String × GVal)
  | [], _, _ => []
  | (g, w) :: rest, f, v => if g == f then (g, v) :: rest else (g, w) :: setField rest f v

/-- zero value of a type (`var x T`), with the struct declarations given as a function and the
    nesting depth bounded: a TOTAL definition (it was a `partial def` of the file, i.e. an opaque
    constant, so that `zero F` and `zero F'` could not be related for two files declaring the same
    structs).  `.name n` unfolds the declaration of `n`; a struct that contains itself by value does
    not exist in Go, so the bound is never reached on a valid program. -/
def zeroWith (sf : String → Option (List (String × GTy))) : Nat → GTy → GVal
  | 0, _ => .nilv
  | k + 1, t =>
    match t with
    | .void => .void | .unit => .unit | .bool => .bool false
    | .int b s => .int b s 0 | .float b => .float b 0.0 | .string => .str ""
    | .struct n fs => .struct n (fs.map fun p => (p.1, zeroWith sf k p.2))
    | .ptr _ => .nilv | .func _ _ => .nilv | .slice _ => .nilv
    | .array n e => .array (List.replicate n (zeroWith sf k e))
    | .name n =>
      match sf n with
      | some fs => .struct n (fs.map fun p => (p.1, zeroWith sf k p.2))
      | none => .nilv

/-- nesting depth up to which `zero` unfolds declarations -/
def zeroDepth : Nat := 64

/-- zero value of a type (`var x T`): depends on the file only through its struct declarations -/
def zero (file : GFile) (t : GTy) : GVal := zeroWith file.structFields zeroDepth t

mutual
/-- a type no Go compiler accepts as the type of a variable (array longer than the address space);
    a total definition (not `partial`), so that theorems can evaluate the guard of `var x T` -/
def absurdTy : GTy → Bool
  | .array n e => n > 100000000 || absurdTy e
  | .struct _ fs => absurdFields fs
  | .ptr e => absurdTy e
  | .slice e => absurdTy e
  | _ => false
def absurdFields : List (String × GTy) → Bool
  | [] => false
  | (_, t) :: rest => absurdTy t || absurdFields rest
end

def gvalEq : GVal → GVal → Option Bool
  | .unit, .unit => some true
  | .bool a, .bool b => some (a == b)
  | .int _ _ a, .int _ _ b => some (a == b)
  | .float _ a, .float _ b => some (a == b)
  | .str a, .str b => some (a == b)
  | .nilv, .nilv => some true
  | .ptr a, .ptr b => some (a == b)
  | _, _ => none

def gbin (op : GBin) (a b : GVal) : Except Fail GVal :=
  match op, a, b with
  | .add, .int n s x, .int _ _ y => .ok (.int n s (wrap n s (x + y)))
  | .sub, .int n s x, .int _ _ y => .ok (.int n s (wrap n s (x - y)))
  | .mul, .int n s x, .int _ _ y => .ok (.int n s (wrap n s (x * y)))
  | .div, .int n s x, .int _ _ y =>
    if y == 0 then .error (.panic "integer divide by zero") else .ok (.int n s (wrap n s (Int.tdiv x y)))
  | .add, .float n x, .float _ y => .ok (.float n (roundF n (x + y)))
  | .sub, .float n x, .float _ y => .ok (.float n (roundF n (x - y)))
  | .mul, .float n x, .float _ y => .ok (.float n (roundF n (x * y)))
  | .div, .float n x, .float _ y => .ok (.float n (roundF n (x / y)))
  | .add, .str x, .str y => .ok (.str (x ++ y))
  | .less, .int _ _ x, .int _ _ y => .ok (.bool (x < y))
  | .greater, .int _ _ x, .int _ _ y => .ok (.bool (x > y))
  | .lessEq, .int _ _ x, .int _ _ y => .ok (.bool (x ≤ y))
  | .greaterEq, .int _ _ x, .int _ _ y => .ok (.bool (x ≥ y))
  | .less, .float _ x, .float _ y => .ok (.bool (x < y))
  | .greater, .float _ x, .float _ y => .ok (.bool (x > y))
  | .lessEq, .float _ x, .float _ y => .ok (.bool (x ≤ y))
  | .greaterEq, .float _ x, .float _ y => .ok (.bool (x ≥ y))
  | .less, .str x, .str y => .ok (.bool (x < y))
  | .greater, .str x, .str y => .ok (.bool (y < x))
  | .lessEq, .str x, .str y => .ok (.bool (!(y < x)))
  | .greaterEq, .str x, .str y => .ok (.bool (!(x < y)))
  | .eq, x, y => match gvalEq x y with
    | some r => .ok (.bool r)
    | none => .error (.stuck "go: == on non-comparable values")
  | .notEq, x, y => match gvalEq x y with
    | some r => .ok (.bool !r)
    | none => .error (.stuck "go: != on non-comparable values")
  | _, _, _ => .error (.stuck "go: binary operator on unsupported operands")

def goTypeName : GVal → String
  | .int b s _ => (if s then "int" else "uint") ++ toString b
  | .float b _ => "float" ++ toString b
  | .bool _ => "bool" | .str _ => "string" | .unit => "struct {}"
  | .struct n _ => "main." ++ n
  | _ => "?"

/-- `%v` of a composite value (never printed by the runtime helpers; kept for completeness) -/
partial def showComposite : GVal → String
  | .int _ _ v => toString v
  | .float b x => Goml.Sem.showFloat b x
  | .bool b => if b then "true" else "false"
  | .str s => s
  | .unit => "{}"
  | .struct _ fs => "{" ++ " ".intercalate (fs.map fun (_, v) => showComposite v) ++ "}"
  | _ => "?"

/-- `%v` of a value (floats: see `showFloat`) -/
def showV : GVal → String
  | .int _ _ v => Goml.Sem.showInt v
  | .float b x => Goml.Sem.showFloat b x
  | .bool b => if b then "true" else "false"
  | .str s => s
  | .unit => "{}"
  | v => showComposite v

/-- `fmt.Sprintf` for the verbs the runtime uses; a verb applied to the wrong kind of operand
    renders as `%!d(float32=3.5)` exactly as Go does -/
def sprintf (fmt : List Char) (args : List GVal) (acc : String) : String :=
  match fmt with
  | [] => acc
  | '%' :: '%' :: rest => sprintf rest args (acc.push '%')
  | '%' :: c :: rest =>
    match args with
    | [] => sprintf rest [] (acc ++ "%!" ++ String.singleton c ++ "(MISSING)")
    | a :: args' =>
      let piece : String :=
        match c, a with
        | 'd', .int _ _ v => Goml.Sem.showInt v
        | 'v', v => showV v
        | 's', .str s => s
        | 'q', .str s => goQuote s
        | 't', .bool b => if b then "true" else "false"
        | 'g', .float b x => Goml.Sem.showFloat b x
        | 'f', .float _ x => toString x
        | c, v => "%!" ++ String.singleton c ++ "(" ++ goTypeName v ++ "=" ++ showV v ++ ")"
      sprintf rest args' (acc ++ piece)
  | c :: rest => sprintf rest args (acc.push c)

def isIntTy (n : String) : Option (Nat × Bool) :=
  match n with
  | "int8" => some (8, true) | "int16" => some (16, true) | "int32" => some (32, true)
  | "int64" => some (64, true) | "uint8" => some (8, false) | "uint16" => some (16, false)
  | "uint32" => some (32, false) | "uint64" => some (64, false) | "int" => some (64, true)
  | _ => none

def convert (ty : GTy) (v : GVal) : Except Fail GVal :=
  match ty, v with
  | .int b s, .int _ _ x => .ok (.int b s (wrap b s x))
  | .int b s, .float _ x => .ok (.int b s (wrap b s x.toInt64.toInt))
  | .float b, .int _ _ x => .ok (.float b (roundF b (Float.ofInt x)))
  | .float b, .float _ x => .ok (.float b (roundF b x))
  | .string, .int _ _ x => .ok (.str (String.singleton (Char.ofNat x.toNat)))
  | .string, .str s => .ok (.str s)
  | _, v => .ok v

mutual
def evalG (fuel : Nat) (F : GFile) (ρ : GEnv) (w : GWorld) (e : GExpr) : GRes GVal :=
  match fuel with
  | 0 => .fail .fuel w
  | fuel + 1 =>
  match e with
  | .nil _ => .ok .nilv w
  | .voidv _ => .ok .void w
  | .unitv _ => .ok .unit w
  | .var x _ =>
    match lookupG ρ x with
    | some v => .ok v w
    | none => .ok (.func x) w
  | .bool b => .ok (.bool b) w
  | .int text ty =>
    match text.toInt?, ty with
    | some v, .int b s => .ok (.int b s (wrap b s v)) w
    | some v, _ => .ok (.int 64 true v) w
    | none, _ => .fail (.stuck "go: malformed integer literal") w
  | .float r ty =>
    match ty with
    | .float b => .ok (.float b (roundF b (Float.ofBits r))) w
    | _ => .ok (.float 64 (Float.ofBits r)) w
  | .str s => .ok (.str s) w
  | .call _ f args =>
    match evalG fuel F ρ w f with
    | .fail f w => .fail f w
    | .ok fv w =>
      match evalListG fuel F ρ w args with
      | .fail f w => .fail f w
      | .ok vs w => callG fuel F w fv vs
  | .un op _ e =>
    match op, e with
    | .addr, e =>
      match evalG fuel F ρ w e with
      | .fail f w => .fail f w
      | .ok v w => .ok (.ptr w.heap.size) { w with heap := w.heap.push v }
    | op, e =>
      match evalG fuel F ρ w e with
      | .fail f w => .fail f w
      | .ok v w =>
        match op, v with
        | .neg, .int n s x => .ok (.int n s (wrap n s (-x))) w
        | .neg, .float n x => .ok (.float n (-x)) w
        | .not, .bool b => .ok (.bool !b) w
        | .deref, .ptr l =>
          match w.heap[l]? with
          | some v => .ok v w
          | none => .fail (.stuck "go: dangling pointer") w
        | .deref, .nilv => .fail (.panic "nil pointer dereference") w
        | _, _ => .fail (.stuck "go: unary operator on unsupported operand") w
  | .bin op _ l r =>
    match evalG fuel F ρ w l with
    | .fail f w => .fail f w
    | .ok a w =>
      match op, a with
      | .and, .bool false => .ok (.bool false) w
      | .or, .bool true => .ok (.bool true) w
      | .and, .bool true =>
        match evalG fuel F ρ w r with
        | .fail f w => .fail f w
        | .ok b w => .ok b w
      | .or, .bool false =>
        match evalG fuel F ρ w r with
        | .fail f w => .fail f w
        | .ok b w => .ok b w
      | _, _ =>
        match evalG fuel F ρ w r with
        | .fail f w => .fail f w
        | .ok b w =>
          match gbin op a b with
          | .ok v => .ok v w
          | .error f => .fail f w
  | .field f _ obj =>
    match evalG fuel F ρ w obj with
    | .fail f w => .fail f w
    | .ok (.struct _ fs) w =>
      match lookupG fs f with
      | some v => .ok v w
      | none => .fail (.stuck ("go: no field " ++ f)) w
    | .ok (.ptr l) w =>
      match w.heap[l]? with
      | some (.struct _ fs) =>
        match lookupG fs f with
        | some v => .ok v w
        | none => .fail (.stuck ("go: no field " ++ f)) w
      | _ => .fail (.stuck "go: field of a non-struct pointer") w
    | .ok .nilv w =>
      -- `p.f` with `p` a nil pointer panics; a value of a non-pointer (struct) type is never nil in
      -- Go, so the untyped semantics has no rule for that case
      if isPtrTy (staticTy obj) then .fail (.panic "nil pointer dereference") w
      else .fail (.stuck "go: nil value of a non-pointer type") w
    | .ok _ w => .fail (.stuck "go: field of a non-struct") w
  | .index _ arr idx =>
    match evalG fuel F ρ w arr with
    | .fail f w => .fail f w
    | .ok a w =>
      match evalG fuel F ρ w idx with
      | .fail f w => .fail f w
      | .ok (.int _ _ i) w =>
        if i < 0 then .fail (.panic "index out of range") w else
        match a with
        | .array vs =>
          match vs[i.toNat]? with
          | some v => .ok v w
          | none => .fail (.panic "index out of range") w
        | .slice loc len _ =>
          if i.toNat ≥ len then .fail (.panic "index out of range") w else
          match w.heap[loc]? with
          | some (.array vs) =>
            match vs[i.toNat]? with
            | some v => .ok v w
            | none => .fail (.stuck "go: slice backing array too short") w
          | _ => .fail (.stuck "go: slice without backing array") w
        | .nilv => .fail (.panic "index out of range") w
        | .str s =>
          let bs := s.toUTF8
          if h : i.toNat < bs.size then .ok (.int 8 false (bs[i.toNat]).toNat) w
          else .fail (.panic "index out of range") w
        | _ => .fail (.stuck "go: index of a non-indexable value") w
      | .ok _ w => .fail (.stuck "go: non-integer index") w
  | .cast ty e =>
    match evalG fuel F ρ w e with
    | .fail f w => .fail f w
    | .ok v w =>
      match ty, v with
      | .name n, .struct m _ =>
        -- type assertion `x.(T)` on an interface value
        -- (succeeds when the dynamic type IS `T`, or `T` is an interface the dynamic type implements)
        if n == m || n == "any" || F.structImplements m n then .ok v w
        else .fail (.panic "interface conversion") w
      | ty, v =>
        match convert ty v with
        | .ok r => .ok r w
        | .error f => .fail f w
  | .slit ty fields =>
    match evalFieldsG fuel F ρ w fields with
    | .fail f w => .fail f w
    | .ok fs w =>
      let name := match ty with | .name n => n | .struct n _ => n | _ => "?"
      -- fields not mentioned take their zero value
      let all := match F.structFields name with
        | some decl => decl.map fun (f, t) => (f, (lookupG fs f).getD (zero F t))
        | none => fs
      .ok (.struct name all) w
  | .alit ty elems =>
    match evalListG fuel F ρ w elems with
    | .fail f w => .fail f w
    | .ok vs w =>
      match ty with
      | .slice _ => .ok (.slice w.heap.size vs.length vs.length) { w with heap := w.heap.push (.array vs) }
      | _ => .ok (.array vs) w
  | .blocke _ stmts e =>
    match execBlockG fuel F ρ w stmts with
    | .fail f w => .fail f w
    | .ok (ρ', .normal) w =>
      match e with
      | some e => evalG fuel F ρ' w e
      | none => .ok .unit w
    | .ok (_, .ret v) w => .ok v w
    | .ok (_, .brk) w => .fail (.stuck "go: break out of a block expression") w

def evalListG (fuel : Nat) (F : GFile) (ρ : GEnv) (w : GWorld) (es : List GExpr) : GRes (List GVal) :=
  match fuel with
  | 0 => .fail .fuel w
  | fuel + 1 =>
  match es with
  | [] => .ok [] w
  | e :: rest =>
    match evalG fuel F ρ w e with
    | .fail f w => .fail f w
    | .ok v w =>
      match evalListG fuel F ρ w rest with
      | .fail f w => .fail f w
      | .ok vs w => .ok (v :: vs) w

def evalFieldsG (fuel : Nat) (F : GFile) (ρ : GEnv) (w : GWorld) (fs : List GField) :
    GRes (List (String × GVal)) :=
  match fuel with
  | 0 => .fail .fuel w
  | fuel + 1 =>
  match fs with
  | [] => .ok [] w
  | .mk n e :: rest =>
    match evalG fuel F ρ w e with
    | .fail f w => .fail f w
    | .ok v w =>
      match evalFieldsG fuel F ρ w rest with
      | .fail f w => .fail f w
      | .ok vs w => .ok ((n, v) :: vs) w

def callG (fuel : Nat) (F : GFile) (w : GWorld) (f : GVal) (args : List GVal) : GRes GVal :=
  match fuel with
  | 0 => .fail .fuel w
  | fuel + 1 =>
  match f with
  | .func name =>
    match F.findFunc name with
    | some fn =>
      -- Go checks the number of arguments statically; the untyped semantics has no rule for a call
      -- with another number of arguments than parameters
      if fn.params.length != args.length then .fail (.stuck "go: wrong number of arguments") w else
      let ρ : GEnv := (fn.params.zip args).map fun ((x, _), v) => (x, v)
      match execBlockG fuel F ρ w fn.body with
      | .fail f w => .fail f w
      | .ok (_, .ret v) w => .ok v w
      | .ok (_, _) w => .ok .void w
    | none =>
      match name, args with
      | "fmt.Sprintf", .str fmt :: rest => .ok (.str (sprintf fmt.toList rest "")) w
      | "strings.ReplaceAll", [.str s, .str old, .str new] =>
        if old.isEmpty then .fail (.stuck "go: strings.ReplaceAll with an empty pattern is not modelled") w
        else .ok (.str (s.replace old new)) w
      | "fmt.Print", [.str s] => .ok .void { w with out := w.out ++ s }
      | "fmt.Println", [.str s] => .ok .void { w with out := w.out ++ s ++ "\n" }
      | "println", _ => .ok .void w          -- builtin println writes to stderr
      | "panic", [.str s] => .fail (.panic (if s == "" then "missing" else s)) w
      | "len", [.str s] => .ok (.int 64 true s.utf8ByteSize) w
      | "len", [.slice _ len _] => .ok (.int 64 true len) w
      | "len", [.array vs] => .ok (.int 64 true vs.length) w
      | "len", [.nilv] => .ok (.int 64 true 0) w
      | "append", [.slice loc len cap, v] =>
        match w.heap[loc]? with
        | some (.array vs) =>
          if len < cap then
            -- room left: the element is written into the shared backing array
            .ok (.slice loc (len + 1) cap) { w with heap := w.heap.set! loc (.array (vs.set len v)) }
          else
            let newCap := if w.capPolicy == 0 then len + 1 else 2 * len + w.capPolicy
            let fresh := (vs.take len) ++ [v] ++ List.replicate (newCap - len - 1) GVal.unit
            .ok (.slice w.heap.size (len + 1) newCap) { w with heap := w.heap.push (.array fresh) }
        | _ => .fail (.stuck "go: slice without backing array") w
      | "append", [.nilv, v] =>
        let newCap := if w.capPolicy == 0 then 1 else w.capPolicy
        .ok (.slice w.heap.size 1 newCap)
          { w with heap := w.heap.push (.array (v :: List.replicate (newCap - 1) GVal.unit)) }
      | n, [v] =>
        match isIntTy n with
        | some (b, s) =>
          match convert (.int b s) v with
          | .ok r => .ok r w
          | .error f => .fail f w
        | none =>
          if n == "string" then
            match convert .string v with
            | .ok r => .ok r w
            | .error f => .fail f w
          else if n == "float32" || n == "float64" then
            match convert (.float (if n == "float32" then 32 else 64)) v with
            | .ok r => .ok r w
            | .error f => .fail f w
          else .ok .unit { w with externs := w.externs ++ [n] }
      | n, _ => .ok .unit { w with externs := w.externs ++ [n] }
  | .nilv => .fail (.panic "nil function call") w
  | _ => .fail (.stuck "go: call of a non-function value") w

/-- statements of one block; declarations made inside are dropped at the end, updates to outer
    variables are kept -/
def execBlockG (fuel : Nat) (F : GFile) (ρ : GEnv) (w : GWorld) (ss : List GStmt) :
    GRes (GEnv × Sig) :=
  match fuel with
  | 0 => .fail .fuel w
  | fuel + 1 =>
  match ss with
  | [] => .ok (ρ, .normal) w
  | s :: rest =>
    match execG fuel F ρ w s with
    | .fail f w => .fail f w
    | .ok (ρ', .normal) w => execBlockG fuel F ρ' w rest
    | .ok (ρ', sig) w => .ok (ρ', sig) w

/-- run a nested block and pop its declarations -/
def nestedG (fuel : Nat) (F : GFile) (ρ : GEnv) (w : GWorld) (ss : List GStmt) : GRes (GEnv × Sig) :=
  match fuel with
  | 0 => .fail .fuel w
  | fuel + 1 =>
  match execBlockG fuel F ρ w ss with
  | .fail f w => .fail f w
  | .ok (ρ', sig) w => .ok (ρ'.drop (ρ'.length - ρ.length), sig) w

def execG (fuel : Nat) (F : GFile) (ρ : GEnv) (w : GWorld) (s : GStmt) : GRes (GEnv × Sig) :=
  match fuel with
  | 0 => .fail .fuel w
  | fuel + 1 =>
  match s with
  | .expr e =>
    match evalG fuel F ρ w e with
    | .fail f w => .fail f w
    | .ok _ w => .ok (ρ, .normal) w
  | .go call =>
    match call with
    | .call _ f args =>
      match evalG fuel F ρ w f with
      | .fail f w => .fail f w
      | .ok fv w =>
        match evalListG fuel F ρ w args with
        | .fail f w => .fail f w
        | .ok vs w =>
          if w.eager then
            match callG fuel F w fv vs with
            | .fail f w => .fail f w
            | .ok _ w => .ok (ρ, .normal) w
          else .ok (ρ, .normal) { w with spawned := w.spawned ++ [(fv, vs)] }
    | _ => .fail (.stuck "go: `go` needs a call") w
  | .varDecl x ty v =>
    if absurdTy ty then .fail (.stuck "go: variable of an array type longer than the address space") w else
    match v with
    | none => .ok ((x, zero F ty) :: ρ, .normal) w
    | some e =>
      match evalG fuel F ρ w e with
      | .fail f w => .fail f w
      | .ok v w => .ok ((x, v) :: ρ, .normal) w
  | .assign x e =>
    match evalG fuel F ρ w e with
    | .fail f w => .fail f w
    | .ok v w => .ok (if x == "_" then ρ else updateG ρ x v, .normal) w
  | .fieldAssign target e =>
    match target with
    | .field f _ obj =>
      match evalG fuel F ρ w obj with
      | .fail f w => .fail f w
      | .ok ov w =>
        match evalG fuel F ρ w e with
        | .fail f w => .fail f w
        | .ok v w =>
          match ov, obj with
          | .ptr l, _ =>
            match w.heap[l]? with
            | some (.struct n fs) =>
              .ok (ρ, .normal) { w with heap := w.heap.set! l (.struct n (setField fs f v)) }
            | _ => .fail (.stuck "go: field assignment through a non-struct pointer") w
          | .struct n fs, .var x _ => .ok (updateG ρ x (.struct n (setField fs f v)), .normal) w
          | .nilv, _ => .fail (.panic "nil pointer dereference") w
          | _, _ => .fail (.stuck "go: unsupported field assignment target") w
    | _ => .fail (.stuck "go: field assignment to a non-field") w
  | .ptrAssign p e =>
    match evalG fuel F ρ w p with
    | .fail f w => .fail f w
    | .ok (.ptr l) w =>
      match evalG fuel F ρ w e with
      | .fail f w => .fail f w
      | .ok v w => .ok (ρ, .normal) { w with heap := w.heap.set! l v }
    | .ok .nilv w => .fail (.panic "nil pointer dereference") w
    | .ok _ w => .fail (.stuck "go: pointer assignment to a non-pointer") w
  | .indexAssign arr idx e =>
    match arr with
    | .var x _ =>
      match lookupG ρ x, evalG fuel F ρ w idx with
      | _, .fail f w => .fail f w
      | some (.array vs), .ok (.int _ _ i) w =>
        match evalG fuel F ρ w e with
        | .fail f w => .fail f w
        | .ok v w =>
          if i < 0 || i.toNat ≥ vs.length then .fail (.panic "index out of range") w
          else .ok (updateG ρ x (.array (vs.set i.toNat v)), .normal) w
      | _, .ok _ w => .fail (.stuck "go: unsupported index assignment") w
    | _ => .fail (.stuck "go: index assignment to a non-variable") w
  | .ret e =>
    match e with
    | none => .ok (ρ, .ret .void) w
    | some e =>
      match evalG fuel F ρ w e with
      | .fail f w => .fail f w
      | .ok v w => .ok (ρ, .ret v) w
  | .ite c t e =>
    match evalG fuel F ρ w c with
    | .fail f w => .fail f w
    | .ok (.bool true) w => nestedG fuel F ρ w t
    | .ok (.bool false) w =>
      match e with
      | some e => nestedG fuel F ρ w e
      | none => .ok (ρ, .normal) w
    | .ok _ w => .fail (.stuck "go: if on a non-boolean") w
  | .loop body =>
    match nestedG fuel F ρ w body with
    | .fail f w => .fail f w
    | .ok (ρ', .normal) w => execG fuel F ρ' w (.loop body)
    | .ok (ρ', .brk) w => .ok (ρ', .normal) w
    | .ok (ρ', sig) w => .ok (ρ', sig) w
  | .brk => .ok (ρ, .brk) w
  | .switch e cases dflt =>
    match evalG fuel F ρ w e with
    | .fail f w => .fail f w
    | .ok v w => switchG fuel F ρ w v cases dflt
  | .tswitch bind e cases dflt =>
    match evalG fuel F ρ w e with
    | .fail f w => .fail f w
    | .ok v w =>
      let ρb := match bind with
        | some b => if b == "_" then ρ else (b, v) :: ρ
        | none => ρ
      match tswitchG fuel F ρb w v cases dflt with
      | .fail f w => .fail f w
      | .ok (ρ', sig) w => .ok (ρ'.drop (ρ'.length - ρ.length), sig) w

def switchG (fuel : Nat) (F : GFile) (ρ : GEnv) (w : GWorld) (v : GVal) (cases : List GCase)
    (dflt : Option (List GStmt)) : GRes (GEnv × Sig) :=
  match fuel with
  | 0 => .fail .fuel w
  | fuel + 1 =>
  match cases with
  | [] =>
    match dflt with
    | some d => nestedG fuel F ρ w d
    | none => .ok (ρ, .normal) w
  | .mk ce body :: rest =>
    match evalG fuel F ρ w ce with
    | .fail f w => .fail f w
    | .ok cv w =>
      if (gvalEq cv v).getD false then nestedG fuel F ρ w body
      else switchG fuel F ρ w v rest dflt

def tswitchG (fuel : Nat) (F : GFile) (ρ : GEnv) (w : GWorld) (v : GVal) (cases : List GTCase)
    (dflt : Option (List GStmt)) : GRes (GEnv × Sig) :=
  match fuel with
  | 0 => .fail .fuel w
  | fuel + 1 =>
  match cases with
  | [] =>
    match dflt with
    | some d => nestedG fuel F ρ w d
    | none => .ok (ρ, .normal) w
  | .mk ty body :: rest =>
    let hit := match ty, v with
      | .name n, .struct m _ => n == m
      | .struct n _, .struct m _ => n == m
      | _, _ => false
    if hit then nestedG fuel F ρ w body else tswitchG fuel F ρ w v rest dflt
end

def runGo (fuel : Nat) (F : GFile) (entry : String := "main") (eager : Bool := true)
    (capPolicy : Nat := 0) : Goml.Sem.Outcome :=
  match callG fuel F { eager := eager, capPolicy := capPolicy } (.func entry) [] with
  | .ok _ w => { out := w.out, status := "ok", externs := w.externs }
  | .fail f w => { out := w.out, status := Goml.Sem.failStr f, externs := w.externs }

end Goml.Go
