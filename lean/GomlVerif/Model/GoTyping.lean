import GomlVerif.Model.Go
import GomlVerif.Model.GoCheck
/-!
The **typing rules** of `Go.check` (`Model/GoCheck.lean`) once more, as total structurally recursive
functions that proofs can unfold.  `Go.check` itself is written with `partial def`s (opaque to the
kernel), and it interleaves typing with scope bookkeeping (declared / used / shadowing) that
`Dce.scopeErrs` already covers in theorem form (T2, scope half).  Here only the typing side:

* `tyOfT c s e : R GTy` — the type `Go.check.tyOf` assigns (`ok`), a typing error (`bad`), or
  `unk`: a form this mirror does not cover (conversions spelled as calls, `len`, `append`, `extern`
  items, block expressions) or a name that is not in scope (a *scope* error: not this checker's
  business);
* `stmtOKT` / `blockOKT` — statements, threading the scope (name ↦ declared type, innermost first);
* `fnOKT c g` — one function: parameters in scope, body well typed, ends in a `return`.

Tie (every run, `gomlmodel gocomp`): for every function of every real emitted file on which
`fnOKT` answers `ok` / `bad`, `Go.check` reports no / some error with a typing code at that function
(`typingCodes`).  The theorem `compile_wellformed_typed_partial` (`Props/GoCompile.lean`) is about `fnOKT`.
-/
namespace Goml.GoTyping
open Goml.Go

/-- three-valued result: well typed / a typing error / not covered here -/
inductive R (α : Type) where
  | ok (a : α)
  | bad
  | unk
  deriving Inhabited

def R.bind {α β : Type} (r : R α) (f : α → R β) : R β :=
  match r with
  | .ok a => f a
  | .bad => .bad
  | .unk => .unk

/-- `bad` wins over `unk` (an error anywhere is an error) when two checks are combined -/
def R.both {α β : Type} (a : R α) (b : R β) : R Unit :=
  match a, b with
  | .bad, _ => .bad
  | _, .bad => .bad
  | .unk, _ => .unk
  | _, .unk => .unk
  | .ok _, .ok _ => .ok ()

def R.guard (b : Bool) : R Unit := if b then .ok () else .bad

mutual
/-- `Go.check.norm`: a struct type is referred to by its name -/
def normT : GTy → GTy
  | .struct n _ => .name n
  | .ptr e => .ptr (normT e)
  | .func ps r => .func (normTs ps) (normT r)
  | .array n e => .array n (normT e)
  | .slice e => .slice (normT e)
  | t => t
def normTs : List GTy → List GTy
  | [] => []
  | t :: ts => normT t :: normTs ts
end

mutual
/-- structural equality of Go types (the derived `BEq` of `GTy`, written out) -/
def tyBeqG : GTy → GTy → Bool
  | .void, .void => true
  | .unit, .unit => true
  | .bool, .bool => true
  | .int b s, .int b' s' => b == b' && s == s'
  | .float b, .float b' => b == b'
  | .string, .string => true
  | .struct n fs, .struct n' fs' => n == n' && fieldsBeqG fs fs'
  | .ptr e, .ptr e' => tyBeqG e e'
  | .func ps r, .func ps' r' => tysBeqG ps ps' && tyBeqG r r'
  | .name n, .name n' => n == n'
  | .array l e, .array l' e' => l == l' && tyBeqG e e'
  | .slice e, .slice e' => tyBeqG e e'
  | _, _ => false
def tysBeqG : List GTy → List GTy → Bool
  | [], [] => true
  | a :: as, b :: bs => tyBeqG a b && tysBeqG as bs
  | _, _ => false
def fieldsBeqG : List (String × GTy) → List (String × GTy) → Bool
  | [], [] => true
  | (f, a) :: as, (g, b) :: bs => f == g && tyBeqG a b && fieldsBeqG as bs
  | _, _ => false
end

/-- `Go.check.tyEq` -/
def tyEqT (a b : GTy) : Bool := tyBeqG (normT a) (normT b)

structure TCtx where
  /-- top-level functions: parameter types and result (`void` when there is none) -/
  funcs : List (String × List GTy × GTy)
  structs : List (String × List (String × GTy) × List String)
  ifaces : List (String × List String)
  deriving Inhabited

/-- `Go.check.mkCtx` -/
def mkTCtx (f : GFile) : TCtx :=
  { funcs := f.funcs.map fun g => (g.name, g.params.map (·.2), g.ret.getD .void),
    structs := f.items.filterMap fun
      | .structDef n fs ms => some (n, fs, ms.map (·.name))
      | _ => none,
    ifaces := f.items.filterMap fun
      | .interface n ms => some (n, ms.map (·.1))
      | _ => none }

def TCtx.findFunc (c : TCtx) (x : String) : Option (List GTy × GTy) := (c.funcs.find? (·.1 == x)).map (·.2)
def TCtx.findStruct (c : TCtx) (n : String) : Option (List (String × GTy) × List String) :=
  (c.structs.find? (·.1 == n)).map (·.2)

/-- `Ctx.isIface` -/
def isIfaceT (c : TCtx) (t : GTy) : Option (List String) :=
  match normT t with
  | .name n => if n == "any" then some [] else (c.ifaces.find? (·.1 == n)).map (·.2)
  | _ => none

/-- `Go.check.assignable` -/
def assignableT (c : TCtx) (t v : GTy) : Bool :=
  if tyEqT t v then true else
  match isIfaceT c t with
  | some ms =>
    match normT v with
    | .name n =>
      match c.findStruct n with
      | some (_, methods) => ms.all methods.contains
      | none => ms.isEmpty || (isIfaceT c v).isSome
    | _ => ms.isEmpty
  | none => false

def isNilableT (c : TCtx) (t : GTy) : Bool :=
  match normT t with
  | .ptr _ | .slice _ | .func _ _ => true
  | t => (isIfaceT c t).isSome

/-- `Go.check.comparable`, by fuel on the nesting of struct declarations (`none` = out of fuel) -/
def comparableT (c : TCtx) : Nat → GTy → Option Bool
  | 0, _ => none
  | k + 1, t =>
    match normT t with
    | .bool | .int _ _ | .float _ | .string | .unit | .ptr _ => some true
    | .array _ e => comparableT c k e
    | .name n =>
      match c.findStruct n with
      | some (fs, _) => fs.foldl (fun acc f => match acc, comparableT c k f.2 with
          | some a, some b => some (a && b)
          | _, _ => none) (some true)
      | none => some true
    | _ => some false

/-- innermost first: name ↦ declared type -/
abbrev Scp := List (String × GTy)

def lookupS (s : Scp) (x : String) : Option GTy := (s.find? (·.1 == x)).map (·.2)

/-- the names `Go.check` treats before looking for a function: conversions and untyped builtins -/
def specialCallNames : List String :=
  ["int8", "int16", "int32", "int64", "uint8", "uint16", "uint32", "uint64", "float32", "float64", "string", "len", "append"]

/-- argument types against parameter types -/
def argsAssignable (c : TCtx) : List GTy → List GTy → Bool
  | [], [] => true
  | p :: ps, a :: as => assignableT c p a && argsAssignable c ps as
  | _, _ => false

/-- `Go.check.callOf` for a non-variadic callee, given the callee's and the arguments' types -/
def callOfT (c : TCtx) (tf : R GTy) (targs : R (List GTy)) : R GTy :=
  match tf, targs with
  | .ok tf, .ok targs =>
    match normT tf with
    | .func ps r => if argsAssignable c ps targs then .ok r else .bad
    | _ => .bad
  | a, b => (R.both a b).bind fun _ => .unk

mutual
/-- `Go.check.tyOf` (typing side) -/
def tyOfT (c : TCtx) (s : Scp) : GExpr → R GTy
  | .nil t => .ok t
  | .voidv _ => .ok .void
  | .unitv _ => .ok .unit
  | .bool _ => .ok .bool
  | .str _ => .ok .string
  | .int text t =>
    match text.toInt?, t with
    | some v, .int b sg => if intFits b sg v then .ok t else .bad
    | _, _ => .bad
  | .float _ t => .ok t
  | .var x _ =>
    match lookupS s x with
    | some t => .ok t
    | none =>
      match c.findFunc x with
      | some sg => .ok (.func sg.1 sg.2)
      | none => .unk      -- library function, `extern` item, or not in scope
  | .call _ f args =>
    match f with
    | .var name _ =>
      if (lookupS s name).isNone && (c.findFunc name).isNone then .unk   -- conversion, `len`, `append`, library function
      else callOfT c (tyOfT c s f) (tysOfT c s args)
    | _ => callOfT c (tyOfT c s f) (tysOfT c s args)
  | .un op _ e =>
    (tyOfT c s e).bind fun t =>
      match op with
      | .neg => if isNumeric (normT t) then .ok t else .bad
      | .not => if tyEqT t .bool then .ok .bool else .bad
      | .addr => .ok (.ptr t)
      | .deref => match normT t with | .ptr e => .ok e | _ => .bad
  | .bin op _ l r =>
    match tyOfT c s l, tyOfT c s r with
    | .ok tl, .ok tr =>
      if !tyEqT tl tr then .bad else
      match op with
      | .add => if isNumeric (normT tl) || tyEqT tl .string then .ok tl else .bad
      | .sub | .mul | .div => if isNumeric (normT tl) then .ok tl else .bad
      | .less | .greater | .lessEq | .greaterEq => if isOrdered (normT tl) then .ok .bool else .bad
      | .eq | .notEq =>
        match comparableT c 16 tl with
        | some true => .ok .bool
        | some false => .bad
        | none => .unk
      | .and | .or => if tyEqT tl .bool then .ok .bool else .bad
    | a, b => (R.both a b).bind fun _ => .unk
  | .field f _ obj =>
    (tyOfT c s obj).bind fun t =>
      match normT t with
      | .name n | .ptr (.name n) =>
        match c.findStruct n with
        | some (fs, _) =>
          match fs.find? (·.1 == f) with
          | some (_, ft) => .ok ft
          | none => .bad
        | none => .bad
      | _ => .bad
  | .index _ arr idx =>
    match tyOfT c s arr, tyOfT c s idx with
    | .ok ta, .ok ti =>
      (match normT ti with | .int _ _ => R.ok () | _ => R.bad).bind fun _ =>
        match normT ta with
        | .array _ e | .slice e => .ok e
        | .string => .ok (.int 8 false)
        | _ => .bad
    | a, b => (R.both a b).bind fun _ => .unk
  | .cast _ _ => .unk
  | .slit t fields =>
    match normT t with
    | .name n =>
      match c.findStruct n with
      | some (fs, _) => (fieldsOKT c s fs fields).bind fun _ => .ok t
      | none => .bad
    | _ => .bad
  | .alit t elems =>
    match normT t with
    | .array n el =>
      if n != elems.length && !elems.isEmpty then .bad
      else (tysOfT c s elems).bind fun ts => if ts.all (assignableT c el) then .ok t else .bad
    | .slice el => (tysOfT c s elems).bind fun ts => if ts.all (assignableT c el) then .ok t else .bad
    | _ => .unk
  | .blocke _ _ _ => .unk
/-- the types of an argument list, left to right -/
def tysOfT (c : TCtx) (s : Scp) : List GExpr → R (List GTy)
  | [] => .ok []
  | e :: es =>
    match tyOfT c s e, tysOfT c s es with
    | .ok t, .ok ts => .ok (t :: ts)
    | a, b => (R.both a b).bind fun _ => .unk
/-- the fields of a composite literal against the declared fields -/
def fieldsOKT (c : TCtx) (s : Scp) (fs : List (String × GTy)) : List GField → R Unit
  | [] => .ok ()
  | .mk f e :: rest =>
    let here : R Unit :=
      match tyOfT c s e with
      | .ok te =>
        match fs.find? (·.1 == f) with
        | some (_, ft) => R.guard (assignableT c ft te)
        | none => .bad
      | .bad => .bad
      | .unk => .unk
    R.both here (fieldsOKT c s fs rest)
end
def isNilLit : GExpr → Bool
  | .nil _ => true
  | _ => false

def isCallE : GExpr → Bool
  | .call _ _ _ => true
  | _ => false

mutual
/-- `Go.check.checkStmt` (typing side): the scope after the statement -/
def stmtOKT (c : TCtx) (ret : Option GTy) (s : Scp) : GStmt → R Scp
  | .expr e => if isCallE e then (tyOfT c s e).bind fun _ => .ok s else (tyOfT c s e).bind fun _ => .bad
  | .go call => if isCallE call then (tyOfT c s call).bind fun _ => .ok s else .bad
  | .varDecl x t v =>
    let init : R Unit :=
      match v with
      | some e =>
        (tyOfT c s e).bind fun te =>
          if tyEqT te .void then .bad
          else if isNilLit e then R.guard (isNilableT c t)
          else R.guard (assignableT c t te)
      | none => .ok ()
    let len : R Unit := match normT t with | .array n _ => R.guard (!(n > 100000000)) | _ => .ok ()
    (R.both init len).bind fun _ => .ok ((x, t) :: s)
  | .assign x e =>
    (tyOfT c s e).bind fun te =>
      if x == "_" then .ok s else
      match lookupS s x with
      | some t => if tyEqT te .void then .bad else if assignableT c t te then .ok s else .bad
      | none => .unk
  | .fieldAssign target e =>
    match tyOfT c s target, tyOfT c s e with
    | .ok tt, .ok te => if assignableT c tt te then .ok s else .bad
    | a, b => (R.both a b).bind fun _ => .unk
  | .ptrAssign p e =>
    match tyOfT c s p, tyOfT c s e with
    | .ok tp, .ok te =>
      (match normT tp with
       | .ptr el => if assignableT c el te then .ok s else .bad
       | _ => .bad)
    | a, b => (R.both a b).bind fun _ => .unk
  | .indexAssign arr idx e =>
    match tyOfT c s arr, tyOfT c s idx, tyOfT c s e with
    | .ok ta, .ok _, .ok te =>
      (match normT ta with
       | .array _ el | .slice el => if assignableT c el te then .ok s else .bad
       | _ => .ok s)
    | a, b, d => (R.both (R.both a b) d).bind fun _ => .unk
  | .ret e =>
    match e, ret with
    | none, none => .ok s
    | none, some _ => .bad
    | some e, none => (tyOfT c s e).bind fun _ => .bad
    | some e, some rt => (tyOfT c s e).bind fun te => if assignableT c rt te then .ok s else .bad
  | .ite cnd t e =>
    let cond : R Unit := (tyOfT c s cnd).bind fun tc => R.guard (tyEqT tc .bool)
    let thenB := blockOKT c ret s t
    let elseB : R Unit := match e with | some b => blockOKT c ret s b | none => .ok ()
    (R.both cond (R.both thenB elseB)).bind fun _ => .ok s
  | .loop body => (blockOKT c ret s body).bind fun _ => .ok s
  | .brk => .ok s
  | .switch e cases d =>
    match tyOfT c s e with
    | .ok te =>
      let dflt : R Unit := match d with | some b => blockOKT c ret s b | none => .ok ()
      (R.both (casesOKT c ret s te cases) dflt).bind fun _ => .ok s
    | .bad => .bad
    | .unk => .unk
  | .tswitch bind e cases d =>
    match tyOfT c s e with
    | .ok te =>
      let onIface : R Unit := R.guard (isIfaceT c te).isSome
      let dflt : R Unit := match d with | some b => blockOKT c ret s b | none => .ok ()
      (R.both onIface (R.both (tcasesOKT c ret s bind cases) dflt)).bind fun _ => .ok s
    | .bad => .bad
    | .unk => .unk
/-- a nested block: what it declares goes out of scope at its end -/
def blockOKT (c : TCtx) (ret : Option GTy) (s : Scp) : List GStmt → R Unit
  | [] => .ok ()
  | st :: rest =>
    match stmtOKT c ret s st with
    | .ok s' => blockOKT c ret s' rest
    | .bad => .bad
    | .unk => (blockOKT c ret s rest).bind fun _ => .unk
def casesOKT (c : TCtx) (ret : Option GTy) (s : Scp) (te : GTy) : List GCase → R Unit
  | [] => .ok ()
  | .mk v b :: rest =>
    let lbl : R Unit := (tyOfT c s v).bind fun tv => R.guard (tyEqT te tv)
    R.both (R.both lbl (blockOKT c ret s b)) (casesOKT c ret s te rest)
def tcasesOKT (c : TCtx) (ret : Option GTy) (s : Scp) (bind : Option String) : List GTCase → R Unit
  | [] => .ok ()
  | .mk t b :: rest =>
    let s' : Scp := match bind with | some x => if x == "_" then s else (x, t) :: s | none => s
    R.both (blockOKT c ret s' b) (tcasesOKT c ret s bind rest)
end

/-- does the body end in a `return` (the only terminating form `compile_fn` produces) -/
def endsInRet : List GStmt → Bool
  | [] => false
  | [.ret _] => true
  | _ :: rest => endsInRet rest

/-- one function: `ok` = its body obeys every typing rule of `Go.check` covered here -/
def fnOKT (c : TCtx) (g : GFunc) : R Unit :=
  (blockOKT c g.ret g.params g.body).bind fun _ =>
    match g.ret with
    | some _ => if endsInRet g.body then .ok () else .unk
    | none => .ok ()

/-- the error codes of `Go.check` that are typing errors (the others are scope / naming / import rules) -/
def typingCodes : List String :=
  ["constant-overflows", "int-literal-at-non-integer-type", "malformed-int-literal", "len-of-unsized",
   "append-element-mismatch", "neg-non-numeric", "not-non-bool", "deref-non-pointer", "operand-type-mismatch",
   "add-unsupported", "arith-non-numeric", "order-unsupported", "not-comparable", "logic-non-bool", "no-such-field",
   "field-of-non-struct", "non-integer-index", "index-of-non-indexable", "invalid-conversion", "assign-mismatch",
   "literal-of-undeclared-type", "struct-literal-of-non-struct", "array-literal-length", "too-few-arguments",
   "argument-count", "call-of-non-function", "void-value-used", "nil-to-non-nilable", "non-bool-condition",
   "case-type-mismatch", "type-switch-on-non-interface", "missing-return-value", "unexpected-return-value",
   "expression-statement-not-a-call", "go-needs-call", "array-too-long", "missing-return"]

/-- the scope / naming codes: a function with one of these is not compared (its types are unknown to `tyOf`) -/
def scopeCodes : List String := ["undeclared", "redeclared", "unused-variable", "illegal-identifier", "outside-subset"]

/-- `AGREE-OK` / `AGREE-BAD` / `DISAGREE` / `SKIP` per function of a file: this mirror against `Go.check` -/
def tieFile (f : GFile) : List (String × String) :=
  let errs := Goml.Go.check f
  let c := mkTCtx f
  f.funcs.map fun g =>
    let mine := fnOKT c g
    let theirs := errs.filter (fun e => e.site == g.name)
    let tyErr := theirs.any (fun e => typingCodes.contains e.code)
    let scErr := theirs.any (fun e => scopeCodes.contains e.code)
    (g.name,
      match mine with
      | .unk => "SKIP"
      | .ok _ => if scErr then "SKIP" else if tyErr then "DISAGREE(mirror ok, Go.check: " ++ ((theirs.map (·.code)).headD "") ++ ")" else "AGREE-OK"
      | .bad => if scErr then "SKIP" else if tyErr then "AGREE-BAD" else "DISAGREE(mirror bad, Go.check ok)")

end Goml.GoTyping
