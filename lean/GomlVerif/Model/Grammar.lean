import GomlVerif.Gen.Consts
import GomlVerif.Gen.Grammar
import GomlVerif.Model.Tree
/-!
# The parser's grammar functions (`crates/parser/src/{file,expr,pattern,path,stmt}.rs`)

Every Rust grammar function is one `Fn` whose body (`body : Fn → Stmt`) is a term of a small
statement language with exactly the parser's primitives: `peek`/`nth` (spend fuel, answer `eof`
when the fuel is gone), `at`, `at_any`, `eat`, `expect` (with the recovery set), `advance`,
`error`, `advance_with_error`, `eof`, node markers, and calls. Statements appear in the order of
the Rust calls. What is restructured, and why it is the same program:

* a Rust loop is a tail-recursive `Fn` (`while c { b }` ↦ `L := if c then (b; call L)`; `break` =
  leave without calling `L`, `continue` = call `L`); early `return`s are written as `if/else`;
* `let m = p.open(); …; p.close(m, K)` is `node K (…)`; a kind chosen late is `nodeReg` + `setKind`;
  `f_with_marker(p, m)` closes `m` itself in Rust, here the caller's `node`/`wrap` closes it;
* `lhs.precede(p); …; m.completed(p, K)` is `wrap K (…)` around the item remembered by `markLast`
  (the `MarkerClosed` the Rust passes around); the forward-parent encoding of the event list is
  produced by `flat` from the item tree, so the model's output is compared *event for event*
  (`Open{kind, forward_parent}`, `Close`, `Advance`, `Error(msg)`) with `Parser.events`;
* locals: `depth` of `attribute_body` and `idx` of `impl_has_trait` live in the register `idx`;
  `trailing_expr_seen`, `allow_bounds`, `min_bp`, `always_wrap` and messages are `Fn` parameters;
  `Option<MarkerClosed>` / `bool` results are the register `ret`.

`run n f s` executes `f` with a budget `n` for the depth of calls (loop iterations included);
`oof` records that the budget ran out. `Props/C04.lean` proves it never does for `n ≥ budget`.
Tables (`EXPR_FIRST`, `PATTERN_FIRST`, `TYPE_FIRST`, recovery sets, binding powers, kind numbers,
`Display` names, the list of grammar functions and their loop heads) come from `Gen/Grammar.lean`.
-/
namespace Goml.Grammar
open Goml.Gen.Gram
open Goml.Tree (Ev)

/-! ## output: the item tree and its event list -/

inductive Item where
  | adv                                                        -- `Event::Advance`
  | err (msg : String)                                         -- `Event::Error(msg)`
  | node (kind : Nat) (ch : List Item)                         -- `open … close(kind)`
  | wrap (kind : Nat) (first : Item) (mid rest : List Item)    -- `first … mid … first.precede() … rest … completed(kind)`
deriving Repr, Inhabited

mutual
/-- the events of an item. `fwd = some d`: the item's head `Open` gets a forward parent, the
`Open` that `precede` pushed `d` events after the end of this item -/
def flat : Item → Option Nat → List Ev
  | .adv, _ => [.advance]
  | .err m, _ => [.error m]
  | .node k ch, fwd =>
      let b := flatL ch
      .op k (fwd.map (· + b.length + 2)) :: (b ++ [.close])
  | .wrap k first mid rest, fwd =>
      let m := flatL mid
      let r := flatL rest
      flat first (some m.length) ++ (m ++ (.op k (fwd.map (· + r.length + 2)) :: (r ++ [.close])))
def flatL : List Item → List Ev
  | [] => []
  | i :: is => flat i none ++ flatL is
end

/-! ## parser state -/

structure PS where
  toks : List Nat                 -- kinds of the non-trivia tokens
  pos : Nat := 0                  -- `Input.cursor`, counted in non-trivia tokens
  fuel : Nat := Gen.parserFuel
  oof : Bool := false             -- the model's call budget ran out (never, see `grammar_terminates`)
  out : List Item := []           -- children of the innermost open node
  mark : Nat := 0                 -- `MarkerClosed`: index in `out` of the remembered item
  ret : Bool := false             -- result of the last call (`bool` / `Option::is_some`)
  cur : Nat := T_Eof              -- last answer of `peek`/`nth` kept in a local
  idx : Nat := 0                  -- `idx` of `impl_has_trait`, `depth` of `attribute_body`
  kd : Nat := 0                   -- kind for the pending `close`
  trace : Nat := 0                -- bit set of the grammar functions entered (coverage only)
deriving Repr

def FUEL : Nat := Gen.parserFuel

/-- `Parser::eof` = `Input::eof`: the real end, independent of the fuel -/
def PS.isEof (s : PS) : Bool := s.toks.length ≤ s.pos

/-- the body shared by `peek` (`n = 0`) and `nth` -/
def look (s : PS) (n : Nat) : Nat × PS :=
  if s.fuel = 0 then (T_Eof, s) else (s.toks.getD (s.pos + n) T_Eof, { s with fuel := s.fuel - 1 })

def emit (s : PS) (i : Item) : PS := { s with out := s.out ++ [i] }

/-- `fuel = 256; input.skip(); events.push(Advance)` without the push -/
def bump (s : PS) : PS :=
  { s with fuel := FUEL, pos := if s.pos < s.toks.length then s.pos + 1 else s.pos }

def doAdvance (s : PS) : PS := emit (bump s) .adv

/-- `advance_with_error`: `open; Error(msg); advance; close(ErrorTree)` -/
def doAdvErr (s : PS) (msg : String) : PS := emit (bump s) (.node K_ErrorTree [.err msg, .adv])

/-- `format!("{:?}", s)` for the `Display` strings (no control characters occur in them) -/
def dbgStr (s : String) : String :=
  "\"" ++ String.ofList (s.toList.flatMap fun c => if c = '"' then ['\\', '"'] else if c = '\\' then ['\\', '\\'] else [c]) ++ "\""

def expectMsg (k cur : Nat) : String :=
  "expect " ++ dbgStr (displayNames.getD k "?") ++ ", actual " ++ dbgStr (displayNames.getD cur "?")

/-- `Parser::expect` -/
def expectK (s : PS) (k : Nat) : PS :=
  let (c, s1) := look s 0
  if c = k then doAdvance s1
  else
    let (c2, s2) := look s1 0
    if c2 = T_Eof ∨ expectKeeps.contains c2 then emit s2 (.err (expectMsg k c2))
    else doAdvErr s2 (expectMsg k c2)

/-- `lhs.precede(p) … completed(kind)` around the item at index `j`: the items after it become `mid` -/
def wrapAt (out : List Item) (j kind : Nat) (rest : List Item) : List Item :=
  match out.drop j with
  | first :: mid => out.take j ++ [.wrap kind first mid rest]
  | [] => out ++ [.node kind rest]

/-! ## the grammar as data -/

inductive Fn where
  -- file.rs
  | file | fileImports | fileItems | packageDecl | importDecl | itemWithAttrs
  | attributeList | attributeListLoop | attribute | attributeBody | attributeBodyLoop
  | externDecl | externDeclWithMarker | func | funcWithMarker
  | implBlock | implHasTrait | implHasTraitLoop | implBlockWithMarker | implItems
  | traitDef | traitDefWithMarker | traitMethodList | traitMethodListLoop | traitMethod
  | enumDef | enumDefWithMarker | structDef | structDefWithMarker
  | variantList | variantListLoop | structFieldList | structFieldListLoop | structField | variant
  | typeList | typeListLoop | generic (bounds : Bool) | traitSet | traitSetLoop
  | genericList (bounds : Bool) | genericListLoop (bounds : Bool)
  | paramList | paramListLoop | param
  | typeExpr | typeExprBp (bp : Nat) | typeExprBpLoop (bp : Nat) | typeAtom
  | typeParamList | typeParamListLoop | block | blockLoop (seen : Bool)
  -- expr.rs
  | expectExpr (msg : String) | expectExprBp (bp : Nat) (msg : String)
  | atom | arrayLoop | tupleLoop | goLoop
  | closureExpr | closureParamList | closureParamListLoop | closureParam | closureBody
  | matchArmList | matchArmListLoop | matchArm
  | structLitFieldList | structLitFieldListLoop | structLitField | looksLikeStructLiteral
  | expr | exprBp (bp : Nat) | exprBpLoop (bp : Nat) | argList | argListLoop | arg
  -- pattern.rs
  | pattern | simplePattern | patTupleLoop | patCtorLoop
  | structPatFieldList | structPatFieldListLoop | structPatField
  -- path.rs
  | pathInner (always : Bool) | pathLoop | pathAlways
  -- stmt.rs
  | letStmt | wrapExprStmt
deriving Repr, DecidableEq, Inhabited

inductive Stmt where
  | skip
  | seq (a b : Stmt)
  | adv                                         -- `p.advance()`
  | err (msg : String)                          -- `p.error(msg)`
  | advErr (msg : String)                       -- `p.advance_with_error(msg)`
  | advErrDbg (pre : String)                    -- `p.advance_with_error(&format!("{pre}{:?}", op))`, `op` = `cur`
  | expect (k : Nat)                            -- `p.expect(k)`
  | eat (k : Nat)                               -- `ret = p.eat(k)`
  | ifAt (k : Nat) (t e : Stmt)                 -- `if p.at(k) {t} else {e}`
  | ifAtAny (ks : List Nat) (t e : Stmt)        -- `if p.at_any(ks) {t} else {e}`
  | ifEof (t e : Stmt)                          -- `if p.eof() {t} else {e}`
  | peek                                        -- `cur = p.peek()`
  | nth (i : Nat)                               -- `cur = p.nth(i)`
  | nthIdx                                      -- `cur = p.nth(idx)`
  | ifCur (ks : List Nat) (t e : Stmt)          -- `if matches!(cur, ks) {t} else {e}` (no look)
  | ifRet (t e : Stmt)
  | setRet (b : Bool)
  | setIdx (n : Nat) | incIdx | decIdx
  | ifIdxZero (t e : Stmt)
  | node (kind : Nat) (b : Stmt)                -- `let m = p.open(); b; p.close(m, kind)`
  | nodeReg (b : Stmt)                          -- … `p.close(m, kd)`
  | setKind (k : Nat)
  | markLast                                    -- remember the node just closed (`MarkerClosed`)
  | wrap (kind : Nat) (b : Stmt)                -- `let m = marked.precede(p); b; m.completed(p, kind)`
  | call (f : Fn)
deriving Repr, Inhabited

infixr:60 " ;; " => Stmt.seq

section bodies
open Stmt

/-- `if p.at(a) || p.at(b) {t} else {e}` -/
def ifAtOr (a b : Nat) (t e : Stmt) : Stmt := ifAt a t (ifAt b t e)

/-- `while !p.at(stop) && !p.eof() { b }` as the body of the loop function `self` -/
def whileNotAt (stop : Nat) (self : Fn) (b : Stmt) : Stmt := ifAt stop skip (ifEof skip (b ;; call self))

/-- `while !p.eof() && !p.at(stop) { b }` -/
def whileNotEofAt (stop : Nat) (self : Fn) (b : Stmt) : Stmt := ifEof skip (ifAt stop skip (b ;; call self))

/-- `if p.at(k) { p.advance() } else { p.advance_with_error(msg) }` -/
def advOrErr (k : Nat) (msg : String) : Stmt := ifAt k adv (advErr msg)

/-- a literal arm of `atom` / `simple_pattern` / `type_atom`: `let m = p.open(); p.advance(); p.close(m, kind)` -/
def leafNode (kind : Nat) : Stmt := node kind adv

/-- `match cur { ks₁ => s₁, … , _ => d }` -/
def cases (cs : List (List Nat × Stmt)) (d : Stmt) : Stmt := cs.foldr (fun c acc => ifCur c.1 c.2 acc) d

def msgPrefixOperand := "expected an operand for prefix operator"
def msgBinaryRhs := "expected a right-hand side for binary operator"
def msgArray := "expected an expression in array literal"

/-- branch bodies of an `if`/`while` part: block, expression or error -/
def blockOrExpr (msg : String) : Stmt :=
  ifAt T_LBrace (call .block) (ifAtAny exprFirst (call (.expectExpr msg)) (advErr msg))

def condExpr (msg : String) : Stmt := ifAtAny exprFirst (call (.expectExpr msg)) (advErr msg)

def externFnTail : Stmt :=
  advOrErr T_Ident "expected a function name" ;;
  ifAt T_LParen (call .paramList) (advErr "expected parameter list") ;;
  eat T_Arrow ;; ifRet (call .typeExpr) skip

def typeLeaves : List (List Nat × Stmt) :=
  [([T_UnitKeyword], leafNode K_TYPE_UNIT), ([T_BoolKeyword], leafNode K_TYPE_BOOL),
   ([T_Int8Keyword], leafNode K_TYPE_INT8), ([T_Int16Keyword], leafNode K_TYPE_INT16),
   ([T_Int32Keyword], leafNode K_TYPE_INT32), ([T_Int64Keyword], leafNode K_TYPE_INT64),
   ([T_Uint8Keyword], leafNode K_TYPE_UINT8), ([T_Uint16Keyword], leafNode K_TYPE_UINT16),
   ([T_Uint32Keyword], leafNode K_TYPE_UINT32), ([T_Uint64Keyword], leafNode K_TYPE_UINT64),
   ([T_Float32Keyword], leafNode K_TYPE_FLOAT32), ([T_Float64Keyword], leafNode K_TYPE_FLOAT64),
   ([T_StringKeyword], leafNode K_TYPE_STRING)]

def typeArray : Stmt :=
  node K_TYPE_ARRAY (
    expect T_LBracket ;;
    ifAtAny typeFirst (call (.typeExprBp 0) ;; ifRet skip (err "expected array element type"))
      (advErr "expected array element type") ;;
    ifAt T_Semi (expect T_Semi) (advErr "expected ';' after array element type") ;;
    advOrErr T_Int "expected array length" ;;
    ifAt T_RBracket (expect T_RBracket) (advErr "expected closing ']' for array type"))

def exprLeaves : List (List Nat × Stmt) :=
  [([T_Int], leafNode K_EXPR_INT), ([T_Int8Lit], leafNode K_EXPR_INT8), ([T_Int16Lit], leafNode K_EXPR_INT16),
   ([T_Int32Lit], leafNode K_EXPR_INT32), ([T_Int64Lit], leafNode K_EXPR_INT64),
   ([T_UInt8Lit], leafNode K_EXPR_UINT8), ([T_UInt16Lit], leafNode K_EXPR_UINT16),
   ([T_UInt32Lit], leafNode K_EXPR_UINT32), ([T_UInt64Lit], leafNode K_EXPR_UINT64),
   ([T_Float], leafNode K_EXPR_FLOAT), ([T_Float32Lit], leafNode K_EXPR_FLOAT32),
   ([T_Float64Lit], leafNode K_EXPR_FLOAT64)]

def atomArray : Stmt :=
  node K_EXPR_ARRAY_LITERAL (
    expect T_LBracket ;;
    ifAt T_RBracket skip (ifEof skip (call (.expectExpr msgArray) ;; ifRet (call .arrayLoop) skip)) ;;
    expect T_RBracket)

def atomIdent : Stmt :=
  nodeReg (
    call .pathAlways ;; call .looksLikeStructLiteral ;;
    ifRet (call .structLitFieldList ;; setKind K_EXPR_STRUCT_LITERAL) (setKind K_EXPR_IDENT))

def atomParen : Stmt :=
  nodeReg (
    expect T_LParen ;;
    ifAt T_RParen (expect T_RParen ;; setKind K_EXPR_UNIT) (
      call (.expectExpr "expected an expression in paren or tuple literal") ;;
      ifAt T_Comma (call .tupleLoop ;; expect T_RParen ;; setKind K_EXPR_TUPLE)
        (expect T_RParen ;; setKind K_EXPR_PAREN)))

def atomIf : Stmt :=
  node K_EXPR_IF (
    expect T_IfKeyword ;;
    node K_EXPR_IF_COND (condExpr "expected an expression after `if`") ;;
    node K_EXPR_IF_THEN (blockOrExpr "expected a then-branch expression for `if`") ;;
    ifAt T_ElseKeyword
      (expect T_ElseKeyword ;; node K_EXPR_IF_ELSE (blockOrExpr "expected an else-branch expression for `if`"))
      (advErr "expected `else` in `if` expression"))

def atomMatch : Stmt :=
  node K_EXPR_MATCH (
    expect T_MatchKeyword ;; call (.expectExpr "expected a scrutinee expression for `match`") ;;
    ifAt T_LBrace (call .matchArmList) skip)

def atomWhile : Stmt :=
  node K_EXPR_WHILE (
    expect T_WhileKeyword ;;
    node K_EXPR_WHILE_COND (condExpr "expected an expression after `while`") ;;
    node K_EXPR_WHILE_BODY (blockOrExpr "expected a body expression for `while`"))

def atomGo : Stmt :=
  node K_EXPR_GO (
    expect T_GoKeyword ;; call (.expectExpr "expected an expression after `go`") ;;
    ifRet skip (call .goLoop))

def atomCases : List (List Nat × Stmt) :=
  exprLeaves ++
  [([T_LBracket], atomArray), ([T_Str], leafNode K_EXPR_STR), ([T_MultilineStr], leafNode K_EXPR_MULTILINE_STR),
   ([T_TrueKeyword, T_FalseKeyword], leafNode K_EXPR_BOOL), ([T_Ident, T_ColonColon], atomIdent),
   ([T_LParen], atomParen), ([T_IfKeyword], atomIf), ([T_MatchKeyword], atomMatch),
   ([T_WhileKeyword], atomWhile), ([T_GoKeyword], atomGo), ([T_Pipe, T_OrOr], call .closureExpr)]

def patLeaves : List (List Nat × Stmt) :=
  [([T_TrueKeyword, T_FalseKeyword], leafNode K_PATTERN_BOOL), ([T_Int], leafNode K_PATTERN_INT),
   ([T_Int8Lit], leafNode K_PATTERN_INT8), ([T_Int16Lit], leafNode K_PATTERN_INT16),
   ([T_Int32Lit], leafNode K_PATTERN_INT32), ([T_Int64Lit], leafNode K_PATTERN_INT64),
   ([T_UInt8Lit], leafNode K_PATTERN_UINT8), ([T_UInt16Lit], leafNode K_PATTERN_UINT16),
   ([T_UInt32Lit], leafNode K_PATTERN_UINT32), ([T_UInt64Lit], leafNode K_PATTERN_UINT64),
   ([T_Str], leafNode K_PATTERN_STRING), ([T_WildcardKeyword], leafNode K_PATTERN_WILDCARD)]

def patTuple : Stmt :=
  nodeReg (
    adv ;;
    ifAt T_RParen (expect T_RParen ;; setKind K_PATTERN_UNIT)
      (call .patTupleLoop ;; expect T_RParen ;; setKind K_PATTERN_TUPLE))

def patConstr : Stmt :=
  node K_PATTERN_CONSTR (
    call .pathAlways ;;
    ifAt T_LParen (expect T_LParen ;; call .patCtorLoop ;; expect T_RParen)
      (ifAt T_LBrace (call .structPatFieldList) skip))

def patIdent : Stmt :=
  ifAt T_Ident
    (nth 1 ;; ifCur [T_ColonColon, T_LParen, T_LBrace] patConstr (node K_PATTERN_VARIABLE (expect T_Ident)))
    patConstr

/-- the part of `parse_path_inner` after the marker decision -/
def pathBody (hasNs : Bool) : Stmt :=
  (if hasNs then expect T_ColonColon else skip) ;;
  ifAt T_Ident (expect T_Ident ;; call .pathLoop) (advErr "expected an identifier in path")

/-- one arm of the operator dispatch in the loops of `expr_bp` / `type_expr_bp` -/
def opArm (op l minBp : Nat) (act : Stmt) (self : Fn) (rest : Stmt) : Stmt :=
  ifCur [op] (if l < minBp then skip else (act ;; call self)) rest

def body : Fn → Stmt
  -- ---------------------------------------------------------------- file.rs
  | .file => node K_FILE (ifAt T_PackageKeyword (call .packageDecl) skip ;; call .fileImports ;; call .fileItems)
  | .fileImports => ifAt T_ImportKeyword (call .importDecl ;; call .fileImports) skip
  | .fileItems =>
      ifEof skip (
        ifAt T_Pound (call .attributeList ;; call .itemWithAttrs) (
        ifAt T_PackageKeyword (advErr "package declaration must appear at the top of the file") (
        ifAt T_ImportKeyword (advErr "import declaration must appear at the top of the file") (
        ifAt T_ExternKeyword (call .externDecl) (
        ifAt T_FnKeyword (call .func) (
        ifAt T_EnumKeyword (call .enumDef) (
        ifAt T_StructKeyword (call .structDef) (
        ifAt T_TraitKeyword (call .traitDef) (
        ifAt T_ImplKeyword (call .implBlock) (
        ifAtAny exprFirst (call .expr ;; ifRet skip (advErr "expected an expression"))
          (advErr "expected a function")))))))))) ;;
        call .fileItems)
  | .packageDecl => node K_PACKAGE (expect T_PackageKeyword ;; advOrErr T_Ident "expected a package name")
  | .importDecl => node K_IMPORT (expect T_ImportKeyword ;; advOrErr T_Ident "expected an import name")
  | .itemWithAttrs =>
      ifAt T_ExternKeyword (wrap K_EXTERN (call .externDeclWithMarker)) (
      ifAt T_FnKeyword (wrap K_FN (call .funcWithMarker)) (
      ifAt T_EnumKeyword (wrap K_ENUM (call .enumDefWithMarker)) (
      ifAt T_StructKeyword (wrap K_STRUCT (call .structDefWithMarker)) (
      ifAt T_TraitKeyword (wrap K_TRAIT (call .traitDefWithMarker)) (
      ifAt T_ImplKeyword (wrap K_IMPL (call .implBlockWithMarker)) (
      wrap K_ErrorTree (err "expected a top-level item after attributes" ;; ifEof skip adv)))))))
  | .attributeList => node K_ATTRIBUTE_LIST (call .attributeListLoop) ;; markLast
  | .attributeListLoop => ifAt T_Pound (call .attribute ;; call .attributeListLoop) skip
  | .attribute =>
      node K_ATTRIBUTE (
        expect T_Pound ;; eat T_Bang ;; eat T_LBracket ;;
        ifRet (call .attributeBody) (err "expected '[' after '#'"))
  | .attributeBody => setIdx 1 ;; call .attributeBodyLoop
  | .attributeBodyLoop =>
      ifIdxZero skip (ifEof (err "unterminated attribute") (
        ifAt T_LBracket (incIdx ;; adv) (ifAt T_RBracket (decIdx ;; adv) adv) ;;
        call .attributeBodyLoop))
  | .externDecl => node K_EXTERN (call .externDeclWithMarker)
  | .externDeclWithMarker =>
      expect T_ExternKeyword ;;
      ifAt T_TypeKeyword (expect T_TypeKeyword ;; advOrErr T_Ident "expected a type name") (
      ifAt T_FnKeyword (expect T_FnKeyword ;; externFnTail) (
        advOrErr T_Str "expected a language string" ;;
        advOrErr T_Str "expected a package string" ;;
        ifAt T_Str (adv ;; ifAt T_TypeKeyword skip (ifAt T_Ident skip
          (advErr "expected a function or type declaration after Go symbol"))) skip ;;
        ifAt T_TypeKeyword (expect T_TypeKeyword ;; advOrErr T_Ident "expected a type name") externFnTail))
  | .func => node K_FN (call .funcWithMarker)
  | .funcWithMarker =>
      expect T_FnKeyword ;; expect T_Ident ;;
      ifAt T_LBracket (call (.genericList true)) skip ;;
      ifAt T_LParen (call .paramList) skip ;;
      eat T_Arrow ;; ifRet (call .typeExpr) skip ;;
      ifAt T_LBrace (call .block) skip
  | .implBlock => node K_IMPL (call .implBlockWithMarker)
  | .implHasTrait =>
      setIdx 0 ;; nthIdx ;; ifCur [T_ColonColon] (incIdx ;; nthIdx) skip ;;
      ifCur [T_Ident] (incIdx ;; call .implHasTraitLoop) (setRet false)
  | .implHasTraitLoop =>
      nthIdx ;;
      ifCur [T_ColonColon]
        (incIdx ;; nthIdx ;; ifCur [T_Ident] (incIdx ;; call .implHasTraitLoop) (setRet false))
        (nthIdx ;; ifCur [T_ForKeyword] (setRet true) (setRet false))
  | .implBlockWithMarker =>
      expect T_ImplKeyword ;;
      ifAt T_LBracket (call (.genericList false)) skip ;;
      call .implHasTrait ;;
      ifRet (call .pathAlways ;; expect T_ForKeyword ;; call .typeExpr) (call .typeExpr) ;;
      ifAt T_LBrace (adv ;; call .implItems ;; expect T_RBrace) skip
  | .implItems => whileNotAt T_RBrace .implItems (ifAt T_FnKeyword (call .func) (advErr "expected a function"))
  | .traitDef => node K_TRAIT (call .traitDefWithMarker)
  | .traitDefWithMarker =>
      expect T_TraitKeyword ;; expect T_Ident ;;
      ifAt T_LBracket (call (.genericList false)) skip ;;
      ifAt T_LBrace (call .traitMethodList) skip
  | .traitMethodList =>
      expect T_LBrace ;; node K_TRAIT_METHOD_SIG_LIST (call .traitMethodListLoop ;; expect T_RBrace)
  | .traitMethodListLoop =>
      whileNotAt T_RBrace .traitMethodListLoop
        (ifAt T_FnKeyword (call .traitMethod ;; eat T_Semi) (advErr "expected a method"))
  | .traitMethod =>
      node K_TRAIT_METHOD_SIG (
        expect T_FnKeyword ;; expect T_Ident ;;
        ifAt T_LParen (call .typeList) skip ;;
        eat T_Arrow ;; ifRet (call .typeExpr) skip)
  | .enumDef => node K_ENUM (call .enumDefWithMarker)
  | .enumDefWithMarker =>
      expect T_EnumKeyword ;; expect T_Ident ;;
      ifAt T_LBracket (call (.genericList false)) skip ;;
      ifAt T_LBrace (call .variantList) skip
  | .structDef => node K_STRUCT (call .structDefWithMarker)
  | .structDefWithMarker =>
      expect T_StructKeyword ;; expect T_Ident ;;
      ifAt T_LBracket (call (.genericList false)) skip ;;
      ifAt T_LBrace (call .structFieldList) skip
  | .variantList => expect T_LBrace ;; node K_VARIANT_LIST (call .variantListLoop ;; expect T_RBrace)
  | .variantListLoop =>
      whileNotAt T_RBrace .variantListLoop (ifAt T_Ident (call .variant ;; eat T_Comma) (advErr "expected a variant"))
  | .structFieldList => expect T_LBrace ;; node K_STRUCT_FIELD_LIST (call .structFieldListLoop ;; expect T_RBrace)
  | .structFieldListLoop =>
      whileNotAt T_RBrace .structFieldListLoop (ifAt T_Ident (call .structField ;; eat T_Comma) (advErr "expected a field"))
  | .structField => node K_STRUCT_FIELD (expect T_Ident ;; expect T_Colon ;; call .typeExpr)
  | .variant => node K_VARIANT (expect T_Ident ;; ifAt T_LParen (call .typeList) skip)
  | .typeList => node K_TYPE_LIST (expect T_LParen ;; call .typeListLoop ;; expect T_RParen)
  | .typeListLoop =>
      whileNotAt T_RParen .typeListLoop (ifAtAny typeFirst (call .typeExpr ;; eat T_Comma) (advErr "expected a type"))
  | .generic b =>
      node K_GENERIC (
        expect T_Ident ;;
        ifAt T_LBracket (call (.genericList false)) skip ;;
        (if b then (eat T_Colon ;; ifRet (call .traitSet) skip) else skip))
  | .traitSet =>
      node K_TRAIT_SET (
        ifAtOr T_Ident T_ColonColon (call .pathAlways ;; call .traitSetLoop) (advErr "expected a trait name"))
  | .traitSetLoop =>
      eat T_Plus ;;
      ifRet (ifAtOr T_Ident T_ColonColon (call .pathAlways ;; call .traitSetLoop)
        (advErr "expected a trait name after '+'")) skip
  | .genericList b => node K_GENERIC_LIST (expect T_LBracket ;; call (.genericListLoop b) ;; expect T_RBracket)
  | .genericListLoop b =>
      whileNotAt T_RBracket (.genericListLoop b)
        (ifAt T_Ident (call (.generic b) ;; eat T_Comma) (advErr "expected a generic"))
  | .paramList => node K_PARAM_LIST (expect T_LParen ;; call .paramListLoop ;; expect T_RParen)
  | .paramListLoop =>
      ifAt T_RParen skip (ifEof skip (
        ifAt T_Ident (call .param ;; call .paramListLoop)
          (ifAtAny paramListRecovery skip (advErr "expected a parameter" ;; call .paramListLoop))))
  | .param =>
      node K_PARAM (
        expect T_Ident ;; expect T_Colon ;; call .typeExpr ;;
        ifAt T_RParen skip (expect T_Comma))
  | .typeExpr => call (.typeExprBp 0) ;; ifRet skip (ifEof skip (advErr "expected a type"))
  | .typeExprBp bp => call .typeAtom ;; ifRet (call (.typeExprBpLoop bp) ;; setRet true) (setRet false)
  | .typeExprBpLoop bp =>
      ifEof skip (
        peek ;;
        typeInfixBp.foldr (fun o acc =>
          opArm o.1 o.2.1 bp
            (wrap K_TYPE_FUNC (expect T_Arrow ;; call (.typeExprBp o.2.2) ;; ifRet skip (err "expected a return type")))
            (.typeExprBpLoop bp) acc) skip)
  | .typeAtom =>
      peek ;;
      cases (typeLeaves.map fun c => (c.1, c.2 ;; markLast ;; setRet true)) (
        ifCur [T_LParen] (node K_TYPE_TUPLE (call .typeList) ;; markLast ;; setRet true) (
        ifCur [T_LBracket] (typeArray ;; markLast ;; setRet true) (
        ifCur [T_Ident, T_ColonColon]
          (node K_TYPE_TAPP (call .pathAlways ;; ifAt T_LBracket (call .typeParamList) skip) ;; markLast ;; setRet true) (
        ifCur [T_DynKeyword]
          (node K_TYPE_DYN (expect T_DynKeyword ;;
            ifAtOr T_Ident T_ColonColon (call .pathAlways) (advErr "expected a trait name after dyn")) ;; markLast ;; setRet true)
          (setRet false)))))
  | .typeParamList => node K_TYPE_PARAM_LIST (expect T_LBracket ;; call .typeParamListLoop ;; expect T_RBracket)
  | .typeParamListLoop =>
      whileNotAt T_RBracket .typeParamListLoop (ifAtAny typeFirst (call .typeExpr ;; eat T_Comma) (advErr "expected a type"))
  | .block => node K_BLOCK (expect T_LBrace ;; call (.blockLoop false) ;; expect T_RBrace)
  | .blockLoop seen =>
      ifEof skip (ifAt T_RBrace skip (
        if seen then advErr "expected `}` after block expression"
        else
          ifAt T_LetKeyword (call .letStmt ;; call (.blockLoop false)) (
          ifAtAny exprFirst
            (call .expr ;;
             ifRet (eat T_Semi ;; ifRet (call .wrapExprStmt ;; call (.blockLoop false)) (call (.blockLoop true))) skip)
            (eat T_Semi ;;
             ifRet (call (.blockLoop false))
               (advErr "expected a statement or expression" ;; call (.blockLoop false))))))
  -- ---------------------------------------------------------------- expr.rs
  | .expectExpr msg => call .expr ;; ifRet (setRet true) (ifEof skip (advErr msg) ;; setRet false)
  | .expectExprBp bp msg => call (.exprBp bp) ;; ifRet (setRet true) (ifEof skip (advErr msg) ;; setRet false)
  | .atom => peek ;; cases (atomCases.map fun c => (c.1, c.2 ;; markLast ;; setRet true)) (setRet false)
  | .arrayLoop =>
      ifAt T_Comma (expect T_Comma ;; ifAt T_RBracket skip (call (.expectExpr msgArray) ;; ifRet (call .arrayLoop) skip)) skip
  | .tupleLoop =>
      ifAt T_Comma (expect T_Comma ;;
        ifAtAny exprFirst (call (.expectExpr "expected an expression in tuple literal")) skip ;; call .tupleLoop) skip
  | .goLoop => ifEof skip (ifAt T_Semi skip (ifAt T_RBrace skip (adv ;; call .goLoop)))
  | .closureExpr => node K_EXPR_CLOSURE (call .closureParamList ;; call .closureBody)
  | .closureParamList =>
      node K_CLOSURE_PARAM_LIST (
        ifAt T_OrOr (expect T_OrOr) (expect T_Pipe ;; call .closureParamListLoop ;; expect T_Pipe))
  | .closureParamListLoop =>
      ifAt T_Pipe skip (ifEof skip (
        call .closureParam ;;
        ifAt T_Comma (expect T_Comma ;; call .closureParamListLoop)
          (ifAt T_Pipe skip (advErr "expected `,` or `|` after closure parameter" ;; call .closureParamListLoop))))
  | .closureParam =>
      node K_CLOSURE_PARAM (
        ifAt T_Ident (expect T_Ident ;; ifAt T_Colon (expect T_Colon ;; call .typeExpr) skip)
          (ifAt T_Pipe skip (ifEof skip (advErr "expected an identifier in closure parameter"))))
  | .closureBody => node K_EXPR_CLOSURE_BODY (blockOrExpr "expected a closure body")
  | .matchArmList => node K_MATCH_ARM_LIST (expect T_LBrace ;; call .matchArmListLoop ;; expect T_RBrace)
  | .matchArmListLoop => whileNotEofAt T_RBrace .matchArmListLoop (call .matchArm ;; eat T_Comma)
  | .matchArm =>
      node K_MATCH_ARM (
        call .pattern ;; expect T_FatArrow ;;
        ifAt T_LBrace (call .block) (call (.expectExpr "expected an expression in match arm")))
  | .structLitFieldList =>
      node K_STRUCT_LITERAL_FIELD_LIST (expect T_LBrace ;; call .structLitFieldListLoop ;; expect T_RBrace)
  | .structLitFieldListLoop =>
      whileNotEofAt T_RBrace .structLitFieldListLoop
        (ifAt T_Ident (call .structLitField ;; eat T_Comma) (advErr "expected a struct field"))
  | .structLitField =>
      node K_STRUCT_LITERAL_FIELD (
        expect T_Ident ;; eat T_Colon ;;
        ifRet (condExpr "expected an expression") skip)
  | .looksLikeStructLiteral =>
      ifAt T_LBrace
        (nth 1 ;; ifCur [T_RBrace] (setRet true)
          (ifCur [T_Ident] (nth 2 ;; ifCur [T_Colon, T_Comma] (setRet true) (setRet false)) (setRet false)))
        (setRet false)
  | .expr => call (.exprBp 0)
  | .exprBp bp =>
      peek ;;
      prefixBp.foldr (fun o acc =>
        ifCur [o.1]
          (node K_EXPR_PREFIX (adv ;; call (.expectExprBp o.2 msgPrefixOperand)) ;; markLast ;;
           call (.exprBpLoop bp) ;; setRet true) acc)
        (call .atom ;; ifRet (call (.exprBpLoop bp) ;; setRet true) (setRet false))
  | .exprBpLoop bp =>
      ifEof skip (
        peek ;;
        postfixBp.foldr (fun o acc =>
          opArm o.1 o.2 bp
            (ifAt T_LParen (wrap K_EXPR_CALL (call .argList)) (peek ;; advErrDbg "unexpected postfix operator "))
            (.exprBpLoop bp) acc)
        (infixBp.foldr (fun o acc =>
          opArm o.1 o.2.1 bp
            (wrap K_EXPR_BINARY (adv ;; call (.expectExprBp o.2.2 msgBinaryRhs)))
            (.exprBpLoop bp) acc) skip))
  | .argList => node K_ARG_LIST (expect T_LParen ;; call .argListLoop ;; expect T_RParen)
  | .argListLoop => ifAt T_RParen skip (ifEof skip (ifAtAny exprFirst (call .arg ;; call .argListLoop) skip))
  | .arg =>
      node K_ARG (
        call .expr ;; ifRet skip (advErr "expected an expression") ;;
        ifAt T_RParen skip (expect T_Comma))
  -- ---------------------------------------------------------------- pattern.rs
  | .pattern => call .simplePattern
  | .simplePattern =>
      peek ;;
      ifCur patternFirst
        (cases patLeaves (ifCur [T_LParen] patTuple patIdent) ;; setRet true)
        (node K_ErrorTree (err "expected a pattern") ;; setRet false)
  | .patTupleLoop => ifAtAny patternFirst (call .pattern ;; eat T_Comma ;; call .patTupleLoop) skip
  | .patCtorLoop => ifAtAny patternFirst (call .pattern ;; eat T_Comma ;; call .patCtorLoop) skip
  | .structPatFieldList =>
      node K_STRUCT_PATTERN_FIELD_LIST (expect T_LBrace ;; call .structPatFieldListLoop ;; expect T_RBrace)
  | .structPatFieldListLoop =>
      whileNotEofAt T_RBrace .structPatFieldListLoop
        (ifAt T_Ident (call .structPatField ;; eat T_Comma) (advErr "expected a struct pattern field"))
  | .structPatField =>
      node K_STRUCT_PATTERN_FIELD (
        expect T_Ident ;;
        ifAt T_Colon (expect T_Colon ;; ifAtAny patternFirst (call .pattern) (advErr "expected a pattern")) skip)
  -- ---------------------------------------------------------------- path.rs
  | .pathInner true => peek ;; ifCur [T_ColonColon] (node K_PATH (pathBody true)) (node K_PATH (pathBody false))
  | .pathInner false =>
      peek ;;
      ifCur [T_ColonColon] (node K_PATH (pathBody true))
        (ifCur [T_Ident] (nth 1 ;; ifCur [T_ColonColon] (node K_PATH (pathBody false)) (pathBody false)) (pathBody false))
  | .pathLoop =>
      ifAt T_ColonColon (expect T_ColonColon ;;
        ifAt T_Ident (expect T_Ident ;; call .pathLoop) (advErr "expected an identifier after '::'")) skip
  | .pathAlways => call (.pathInner true)
  -- ---------------------------------------------------------------- stmt.rs
  | .letStmt =>
      ifAt T_LetKeyword
        (node K_STMT_LET (
          expect T_LetKeyword ;;
          call .pattern ;; ifRet skip (advErr "expected a pattern in let statement") ;;
          ifAt T_Colon (expect T_Colon ;; call .typeExpr) skip ;;
          expect T_Eq ;;
          call .expr ;; ifRet skip (advErr "let statement expected an expression") ;;
          expect T_Semi) ;; setRet true)
        (setRet false)
  | .wrapExprStmt => wrap K_STMT_EXPR skip

end bodies

/-! ## execution -/

def Fn.id : Fn → Nat := fun f => (Fn.ctorIdx f)

/-- one statement; `callF` runs a grammar function -/
def execS (callF : Fn → PS → PS) : Stmt → PS → PS
  | .skip, s => s
  | .seq a b, s => execS callF b (execS callF a s)
  | .adv, s => doAdvance s
  | .err m, s => emit s (.err m)
  | .advErr m, s => doAdvErr s m
  | .advErrDbg pre, s => doAdvErr s (pre ++ debugNames.getD s.cur "?")
  | .expect k, s => expectK s k
  | .eat k, s => let (c, s1) := look s 0; if c = k then { doAdvance s1 with ret := true } else { s1 with ret := false }
  | .ifAt k t e, s => let (c, s1) := look s 0; if c = k then execS callF t s1 else execS callF e s1
  | .ifAtAny ks t e, s => let (c, s1) := look s 0; if ks.contains c then execS callF t s1 else execS callF e s1
  | .ifEof t e, s => if s.isEof then execS callF t s else execS callF e s
  | .peek, s => let (c, s1) := look s 0; { s1 with cur := c }
  | .nth i, s => let (c, s1) := look s i; { s1 with cur := c }
  | .nthIdx, s => let (c, s1) := look s s.idx; { s1 with cur := c }
  | .ifCur ks t e, s => if ks.contains s.cur then execS callF t s else execS callF e s
  | .ifRet t e, s => if s.ret then execS callF t s else execS callF e s
  | .setRet b, s => { s with ret := b }
  | .setIdx n, s => { s with idx := n }
  | .incIdx, s => { s with idx := s.idx + 1 }
  | .decIdx, s => { s with idx := s.idx - 1 }
  | .ifIdxZero t e, s => if s.idx = 0 then execS callF t s else execS callF e s
  | .node k b, s => let s1 := execS callF b { s with out := [] }; { s1 with out := s.out ++ [.node k s1.out] }
  | .nodeReg b, s => let s1 := execS callF b { s with out := [] }; { s1 with out := s.out ++ [.node s1.kd s1.out] }
  | .setKind k, s => { s with kd := k }
  | .markLast, s => { s with mark := s.out.length - 1 }
  | .wrap k b, s => let s1 := execS callF b { s with out := [] }; { s1 with out := wrapAt s.out s.mark k s1.out, mark := s.mark }
  | .call f, s => if s.oof then s else callF f s

/-- run grammar function `f` with call budget `n` -/
def run : Nat → Fn → PS → PS
  | 0, _, s => { s with oof := true }
  | n + 1, f, s => execS (run n) (body f) { s with trace := s.trace ||| (1 <<< f.id) }

/-- number of ranks (`rank f < ranks`) used by the termination argument -/
def ranks : Nat := 40

/-- the call budget `grammar_terminates` proves sufficient: linear in the number of tokens -/
def budget (ntoks : Nat) : Nat := ranks * ((ntoks + 1) * (FUEL + 1)) + ranks + 1

def initPS (toks : List Nat) : PS := { toks := toks }

/-- `Parser::new(tokens).parse()`: the item tree of `file` -/
def parseItems (toks : List Nat) : PS := run (budget toks.length) .file (initPS toks)

/-- the model of `Parser.events` after `file::file` -/
def parseEvents (toks : List Nat) : List Ev := flatL (parseItems toks).out

/-! ## the modelled functions, in the order of `Gen.Gram.grammarFns` -/

/-- Rust function ↦ its `Fn` (none: a table read from the source, see `Gen/Grammar.lean`) and the
`Fn`s of its loops in source order -/
def fnTable : List (String × Option Fn × List Fn) := [
  ("file", some .file, [.fileImports, .fileItems]),
  ("package_decl", some .packageDecl, []), ("import_decl", some .importDecl, []),
  ("item_with_attrs", some .itemWithAttrs, []),
  ("attribute_list", some .attributeList, [.attributeListLoop]),
  ("attribute", some .attribute, []), ("attribute_body", some .attributeBody, [.attributeBodyLoop]),
  ("extern_decl", some .externDecl, []), ("extern_decl_with_marker", some .externDeclWithMarker, []),
  ("func", some .func, []), ("func_with_marker", some .funcWithMarker, []),
  ("impl_block", some .implBlock, []), ("impl_has_trait", some .implHasTrait, [.implHasTraitLoop]),
  ("impl_block_with_marker", some .implBlockWithMarker, [.implItems]),
  ("trait_def", some .traitDef, []), ("trait_def_with_marker", some .traitDefWithMarker, []),
  ("trait_method_list", some .traitMethodList, [.traitMethodListLoop]), ("trait_method", some .traitMethod, []),
  ("enum_def", some .enumDef, []), ("enum_def_with_marker", some .enumDefWithMarker, []),
  ("struct_def", some .structDef, []), ("struct_def_with_marker", some .structDefWithMarker, []),
  ("variant_list", some .variantList, [.variantListLoop]),
  ("struct_field_list", some .structFieldList, [.structFieldListLoop]),
  ("struct_field", some .structField, []), ("variant", some .variant, []),
  ("type_list", some .typeList, [.typeListLoop]),
  ("generic", some (.generic true), []), ("trait_set", some .traitSet, [.traitSetLoop]),
  ("generic_list", some (.genericList true), [.genericListLoop true]),
  ("param_list", some .paramList, [.paramListLoop]), ("param", some .param, []),
  ("type_expr", some .typeExpr, []), ("type_expr_bp", some (.typeExprBp 0), [.typeExprBpLoop 0]),
  ("type_infix_binding_power", none, []), ("type_atom", some .typeAtom, []),
  ("type_param_list", some .typeParamList, [.typeParamListLoop]),
  ("block", some .block, [.blockLoop false]),
  ("expect_expr_with_message", some (.expectExpr ""), []), ("expect_expr_bp_with_message", some (.expectExprBp 0 ""), []),
  ("atom", some .atom, [.arrayLoop, .tupleLoop, .goLoop]),
  ("closure_expr", some .closureExpr, []), ("closure_param_list", some .closureParamList, [.closureParamListLoop]),
  ("closure_param", some .closureParam, []), ("closure_body", some .closureBody, []),
  ("match_arm_list", some .matchArmList, [.matchArmListLoop]), ("match_arm", some .matchArm, []),
  ("struct_literal_field_list", some .structLitFieldList, [.structLitFieldListLoop]),
  ("struct_literal_field", some .structLitField, []),
  ("looks_like_struct_literal", some .looksLikeStructLiteral, []),
  ("postfix_binding_power", none, []), ("prefix_binding_power", none, []), ("infix_binding_power", none, []),
  ("expr", some .expr, []), ("expr_bp", some (.exprBp 0), [.exprBpLoop 0]),
  ("arg_list", some .argList, [.argListLoop]), ("arg", some .arg, []),
  ("pattern", some .pattern, []), ("simple_pattern", some .simplePattern, [.patTupleLoop, .patCtorLoop]),
  ("struct_pattern_field_list", some .structPatFieldList, [.structPatFieldListLoop]),
  ("struct_pattern_field", some .structPatField, []),
  ("parse_path_inner", some (.pathInner true), [.pathLoop]),
  ("parse_path", none, []), ("parse_path_always", some .pathAlways, []),
  ("let_stmt", some .letStmt, []), ("wrap_expr_stmt", some .wrapExprStmt, [])]

/-- constructor indices of the loop heads (for the coverage report) -/
def loopIds : List Nat := (fnTable.flatMap fun r => r.2.2).map Fn.id

end Goml.Grammar
