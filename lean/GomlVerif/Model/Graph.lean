import GomlVerif.Gen.PackageIds
/-
C13 / C16 / C04 — package discovery, dependency order, package ids, concatenation order.

Mirrors
  `pipeline/packages.rs`  load_package (outcome classes), discover_packages_with_layout,
                          topo_sort_packages, visit_package
  `pipeline/pipeline.rs`  typecheck_packages: package ids (sorted names, `Gen/PackageIds`),
                          type-check order (= topological order), concatenation of the packages'
                          toplevels and cores (= discovery order)

Two conventions of the model (validated by the correspondence run, `gv c13`):
  * `temp`/`perm` of the Rust are `HashSet` mirrors of `stack`/`order` (inserted and removed at the
    same program points); the model keeps the two lists and asks membership of them.  `loaded` is
    the same mirror of `discovery_order`.
  * the work list of discovery is a `Vec` used as a stack (`pop` takes the last element); the model
    keeps it top-first, so `queue.extend(xs)` is `xs.reverse ++ queue`.

The order in which a *set* of package names is iterated is a parameter (`iter`): for a
`HashSet<String>` it is an arbitrary enumeration that changes with the `RandomState`; for a
`BTreeSet<String>` (the code after the C13 fix) it is `sorted`.  Import-free.
-/
namespace Goml.Graph

abbrev Pkg := String

/-! ## ascending order without duplicates
`Vec<String>::sort()` of a duplicate-free vector and the iteration order of a `BTreeSet<String>`:
ascending by `String`'s `Ord` (bytewise = by code point = Lean's `String.lt`). -/

def insertSet (a : Pkg) : List Pkg → List Pkg
  | [] => [a]
  | b :: bs => if a < b then a :: b :: bs else if a = b then b :: bs else b :: insertSet a bs

def sorted : List Pkg → List Pkg
  | [] => []
  | a :: as => insertSet a (sorted as)

/-! ## what `load_package` makes of a directory -/

inductive Load where
  /-- `read_dir` fails (no such directory) -/
  | unreadable
  /-- the directory holds no `.gom` file -/
  | noFiles
  /-- a file does not parse / lower -/
  | parse
  /-- two files of the directory declare different packages -/
  | fileMismatch
  /-- all files declare `declared`; `imports` lists the names imported by any of them -/
  | unit (declared : Pkg) (imports : List Pkg)
  deriving Repr, DecidableEq, Inhabited

/-- directory name ↦ outcome of `load_package` on it; the entry directory is filed under the root
    package name; an absent key is a directory that does not exist -/
abbrev Disk := List (Pkg × Load)

def Disk.load (d : Disk) (p : Pkg) : Load :=
  match d.lookup p with
  | some l => l
  | none => .unreadable

def Disk.importsOf (d : Disk) (p : Pkg) : List Pkg :=
  match d.load p with
  | .unit _ imps => imps
  | _ => []

inductive Err where
  /-- `failed to read package directory` / `has no .gom files` / parser diagnostics / `package mismatch in` -/
  | load (dir : Pkg) (why : Load)
  /-- `root directory … must declare package Main, found …` -/
  | rootNotMain (found : Pkg)
  /-- `package directory … declares package …, expected …` -/
  | declMismatch (dir found : Pkg)
  /-- `package dependency cycle detected: a -> … -> a` -/
  | cycle (path : List Pkg)
  /-- `package p imports missing package d` -/
  | missing (p dep : Pkg)
  /-- `package p not found during dependency walk` -/
  | notFound (p : Pkg)
  /-- model only: recursion budget exhausted (shown impossible: `Props/C13`, `Lemmas/Topo`) -/
  | fuel
  deriving Repr, DecidableEq, Inhabited

/-! ## discovery (`discover_packages_with_layout`) -/

/-- the `while let Some(package_name) = queue.pop()` loop; `iter p` is the order in which the
    import set of the loaded package `p` is iterated -/
def discoverLoop (disk : Disk) (iter : Pkg → List Pkg) :
    Nat → List Pkg → List Pkg → Except Err (List Pkg)
  | _, [], order => .ok order
  | 0, _ :: _, _ => .error .fuel
  | fuel + 1, p :: rest, order =>
    if p ∈ order then discoverLoop disk iter fuel rest order
    else
      match disk.load p with
      | .unit decl _ =>
        if decl = p then discoverLoop disk iter fuel ((iter p).reverse ++ rest) (order ++ [p])
        else .error (.declMismatch p decl)
      | why => .error (.load p why)

/-- enough for every `pop`: each loaded package pushes its imports once -/
def discoverFuel (disk : Disk) : Nat :=
  (disk.map fun e => match e.2 with | .unit _ imps => imps.length | _ => 0).sum + 1

/-- `discovery_order` -/
def discover (disk : Disk) (iter : Pkg → List Pkg) : Except Err (List Pkg) :=
  match disk.load rootName with
  | .unit decl _ =>
    if decl = rootName then
      discoverLoop disk iter (discoverFuel disk) (iter rootName).reverse [rootName]
    else .error (.rootNotMain decl)
  | why => .error (.load rootName why)

/-! ## dependency order (`topo_sort_packages`, `visit_package`) -/

/-- `PackageGraph.packages`: `names` enumerates the keys of the `HashMap`, `imports p` enumerates
    the import set of `p` -/
structure Graph where
  names : List Pkg
  imports : Pkg → List Pkg

structure St where
  /-- `stack` (and `temp`) -/
  stack : List Pkg
  /-- `order` (and `perm`) -/
  order : List Pkg
  deriving Repr, DecidableEq, Inhabited

/-- `for dep in deps { if !contains_key(dep) {missing}; visit_package(dep)?; }` -/
def visitDeps (has : Pkg → Bool) (recur : Pkg → St → Except Err St) (n : Pkg) :
    List Pkg → St → Except Err St
  | [], s => .ok s
  | d :: ds, s =>
    if has d then
      match recur d s with
      | .ok s' => visitDeps has recur n ds s'
      | .error e => .error e
    else .error (.missing n d)

/-- `visit_package`; `deps n` is the sorted import list of `n` -/
def visit (has : Pkg → Bool) (deps : Pkg → List Pkg) : Nat → Pkg → St → Except Err St
  | 0, _, _ => .error .fuel
  | fuel + 1, n, s =>
    if n ∈ s.order then .ok s
    else if n ∈ s.stack then .error (.cycle (s.stack.dropWhile (· != n) ++ [n]))
    else if has n then
      match visitDeps has (visit has deps fuel) n (deps n) { s with stack := s.stack ++ [n] } with
      | .ok s' => .ok { stack := s'.stack.dropLast, order := s'.order ++ [n] }
      | .error e => .error e
    else .error (.notFound n)

/-- `for name in names { if perm.contains(name) {continue}; visit_package(name)?; }` -/
def topoLoop (has : Pkg → Bool) (deps : Pkg → List Pkg) (fuel : Nat) : List Pkg → St → Except Err St
  | [], s => .ok s
  | n :: ns, s =>
    if n ∈ s.order then topoLoop has deps fuel ns s
    else
      match visit has deps fuel n s with
      | .ok s' => topoLoop has deps fuel ns s'
      | .error e => .error e

def Graph.has (g : Graph) (n : Pkg) : Bool := g.names.contains n
def Graph.deps (g : Graph) (n : Pkg) : List Pkg := sorted (g.imports n)

def topoSort (g : Graph) : Except Err (List Pkg) :=
  match topoLoop g.has g.deps ((sorted g.names).length + 1) (sorted g.names) ⟨[], []⟩ with
  | .ok s => .ok s.order
  | .error e => .error e

/-! ## package ids (`typecheck_packages`) -/

def number (start : Nat) : List Pkg → List (Pkg × Nat)
  | [] => []
  | n :: ns => (n, start) :: number (start + 1) ns

/-- `Builtin`→0, `Main`→1, every other package in ascending name order from 2 -/
def assignIds (names : List Pkg) : List (Pkg × Nat) :=
  [(builtinName, builtinId), (mainName, mainId)] ++
    number firstFreeId ((sorted names).filter fun n => n != builtinName && n != mainName)

/-! ## the whole front of `typecheck_packages` / `compile` -/

structure Plan where
  ids : List (Pkg × Nat)
  /-- packages are type-checked, and their diagnostics appended, in this order -/
  checkOrder : List Pkg
  /-- `full_tast`, `all_files` and the per-package cores are concatenated in this order
      (`graph.discovery_order`); the gensym counter runs through the packages in this order -/
  linkOrder : List Pkg
  deriving Repr, DecidableEq, Inhabited

/-- `keys` is the enumeration of `graph.packages.keys()` -/
def plan (disk : Disk) (iter : Pkg → List Pkg) (keys : List Pkg → List Pkg) : Except Err Plan :=
  match discover disk iter with
  | .error e => .error e
  | .ok order =>
    let g : Graph := { names := keys order, imports := iter }
    match topoSort g with
    | .error e => .error e
    | .ok topo => .ok { ids := assignIds g.names, checkOrder := topo, linkOrder := order }

/-- concatenation of per-package item lists (`toplevels.extend(…)`) -/
def concat {α : Type} (items : Pkg → List α) (order : List Pkg) : List α :=
  order.flatMap items

/-- the code before the C13 fix: `imports: HashSet<String>` iterated as it comes -/
def hashIter (enum : Pkg → List Pkg) : Pkg → List Pkg := enum
/-- the code after the fix: `imports: BTreeSet<String>`; `enum p` is the sequence of insertions -/
def btreeIter (enum : Pkg → List Pkg) : Pkg → List Pkg := fun p => sorted (enum p)

end Goml.Graph
