import GomlVerif.Model.Solve
/-!
Model of the typer's CONSTRAINT GENERATION, `crates/compiler/src/typer/check.rs`
(`infer_expr`, `check_expr`, `infer_res_expr`, `infer_tuple_expr`, `infer_closure_expr`, `check_closure_expr`,
`infer_let_expr` / `check_let_expr`, `infer_block_expr(s)` / `check_block_expr(s)`, `infer_match_expr`,
`infer_if_expr`, `infer_while_expr`, `type_call_args`, `infer_call_expr`, `infer_unary_expr`,
`infer_binary_expr`, `infer_proj_expr`, `infer_field_expr`, `check_pat*`), of the local environment
`typer/localenv.rs` (the scope stack), and of `toplevel.rs::typecheck_fn` (`inferFn`), on top of the
models of the unifier and of `solve` (`Model/Unify.lean`, `Model/Solve.lean`).

The model threads exactly what the Rust threads: the union-find `Store` (fresh keys in the same order),
the constraint queue (same constraints, same order), the diagnostics (one class per message), the table
`results.record_expr_ty` (`recs`, last write wins), and it returns the elaborated tree (`TExpr`, the
shape of `tast::Expr`) with the type the Rust puts on every node, BEFORE substitution.

Input is the HIR of a function body for the fragment: literals, name references (local / top-level
function / builtin / unresolved), tuples, closures, `let` (with or without annotation; variable,
wildcard, literal and tuple patterns), blocks, `if`, `while`, `match`, calls (callee a local, a
top-level function — generic ones are instantiated with fresh keys in `inst_ty`'s traversal order —,
an unresolved name, any other expression), unary / binary operators, tuple projection, field access.
Outside the fragment (reported with the diagnostic `outOfFragment`, which the Rust never produces,
so the tie cannot be fooled): `dyn` expected types (`coerce_to_expected_dyn`), method calls.

`none` = the Rust would PANIC (an out-of-range `Vec` index, `len - 1` on an empty vector): `Vec`
indexing is `List.get?` here.  `Props/Infer.lean::infer_total` proves `none` is never returned.
-/
namespace Goml.Infer
open Goml Goml.Unify

/-- the diagnostics constraint generation pushes (class per message of check.rs / localenv.rs) -/
inductive IDiag where
  | varNotFound | fnNotFound | builtinAsValue | unresolvedName | unresolvedCallee
  | tupleIndex | projNonTuple | popBase | outOfFragment
  | typeNotFound | methodArity | methodNotCallable | methodNotFound
  | ctorNotFound | ctorArity | ctorAmbiguous
  deriving Repr, DecidableEq, Inhabited

def IDiag.name : IDiag → String
  | .varNotFound => "var-not-found" | .fnNotFound => "fn-not-found" | .builtinAsValue => "builtin-as-value"
  | .unresolvedName => "unresolved-name" | .unresolvedCallee => "unresolved-callee"
  | .tupleIndex => "tuple-index" | .projNonTuple => "proj-non-tuple" | .popBase => "pop-base"
  | .outOfFragment => "out-of-fragment"
  | .typeNotFound => "type-not-found" | .methodArity => "method-arity" | .methodNotCallable => "method-not-callable"
  | .methodNotFound => "method-not-found"
  | .ctorNotFound => "ctor-not-found" | .ctorArity => "ctor-arity" | .ctorAmbiguous => "ctor-ambiguous"

/-- `hir::NameRef` -/
inductive NameRes where
  | loc (x : Nat)
  | defn (hint : String)
  | builtin (hint : String)
  /-- `Unresolved(path)`: `some n` when the path has exactly one segment -/
  | unres (single : Option String)
  deriving Repr, Inhabited

/-- `hir::Pat` (fragment) -/
inductive IPat where
  | var (x : Nat) | wild | unit | bool | int | str
  /-- `PInt8 … PUInt64`: an integer literal pattern with a suffix (`check_pat_typed_int`) -/
  | tint (lit : Ty)
  /-- `PConstr`: `info` as for `IExpr.constr` -/
  | constr (info : Option (Option (Ty × Nat))) (args : List IPat)
  | tuple (ps : List IPat)
  deriving Repr, Inhabited

mutual
/-- `hir::Expr` (fragment); `i` is the `ExprId` -/
inductive IExpr where
  | lit (i : Nat) (ty : Ty)
  | name (i : Nat) (r : NameRes)
  | tuple (i : Nat) (items : List IExpr)
  | closure (i : Nat) (params : List (Nat × Option Ty)) (body : IExpr)
  | letE (i : Nat) (p : IPat) (ann : Option Ty) (v : IExpr)
  | block (i : Nat) (es : List IExpr)
  | ite (i : Nat) (c t e : IExpr)
  | while (i : Nat) (c b : IExpr)
  | call (i : Nat) (f : IExpr) (args : List IExpr)
  | un (i : Nat) (op : UnOp) (e : IExpr)
  | bin (i : Nat) (op : BinOp) (l r : IExpr)
  | proj (i : Nat) (e : IExpr) (idx : Nat)
  | field (i : Nat) (e : IExpr) (f : String)
  | matchE (i : Nat) (scrut : IExpr) (arms : List IArm)
  /-- `recv.m(args)`: a call whose callee is `EField { expr: recv, field: m }` (`fi` = the callee's `ExprId`) -/
  | mcall (i fi : Nat) (recv : IExpr) (m : String) (args : List IExpr)
  /-- `T::m(args)`: a call whose callee is `EStaticMember` with the two-segment path `T::m`, `T` not a trait -/
  | scall (i fi : Nat) (tyName m : String) (args : List IExpr)
  /-- `[e, …]` -/
  | array (i : Nat) (items : List IExpr)
  /-- `EConstr`: `info` = what `lookup_constructor_with_namespace` and the enum / struct table say about the written
  path — `some (some (constructor type, declared arity))`, `some none` = not found, `none` = ambiguous (name resolution) -/
  | constr (i : Nat) (info : Option (Option (Ty × Nat))) (args : List IExpr)
  /-- `EStructLiteral` with every field of the struct written exactly once: `idxs` = the position of each written
  field in the struct definition (the fields are CHECKED in the written order, the tree holds them in the declared order) -/
  | slit (i : Nat) (info : Option (Ty × Nat)) (idxs : List Nat) (args : List IExpr)
inductive IArm where
  | mk (p : IPat) (body : IExpr)
end

instance : Inhabited IExpr := ⟨.lit 0 .unit⟩

/-- `tast::Pat` with the type the Rust puts on it; `lit k ty`: a literal pattern whose own type is `k` -/
inductive TPat where
  | var (x : Nat) (ty : Ty)
  | wild (ty : Ty)
  | lit (k : Ty) (ty : Ty)
  | tuple (ps : List TPat) (ty : Ty)
  | constr (ps : List TPat) (ty : Ty)
  deriving Inhabited

def TPat.ty : TPat → Ty
  | .var _ t => t | .wild t => t | .lit _ t => t | .tuple _ t => t | .constr _ t => t

mutual
/-- `tast::Expr` as `check.rs` returns it (types before substitution).  `letE` also keeps the type the
pattern was checked against (the annotation, or the type of the value). -/
inductive TExpr where
  | lvar (x : Nat) (ty : Ty)
  | gvar (name : String) (ty : Ty)
  | err (ty : Ty)
  /-- `EInherentMethod { receiver_ty, method_name, ty }` -/
  | mvar (recv : Ty) (name : String) (ty : Ty)
  | prim (ty : Ty)
  | array (items : List TExpr) (ty : Ty)
  /-- `EConstr { constructor, args, ty }`; `cty` = the instantiated constructor type -/
  | constr (cty : Ty) (args : List TExpr) (ty : Ty)
  | tuple (items : List TExpr) (ty : Ty)
  | closure (params : List (Nat × Ty)) (body : TExpr) (ty : Ty)
  | letE (p : TPat) (vty : Ty) (v : TExpr)
  | block (es : List TExpr) (ty : Ty)
  | ite (c t e : TExpr) (ty : Ty)
  | while (c b : TExpr)
  | call (f : TExpr) (args : List TExpr) (ty : Ty)
  | un (op : UnOp) (e : TExpr) (ty : Ty)
  | bin (op : BinOp) (l r : TExpr) (ty : Ty)
  | proj (e : TExpr) (idx : Nat) (ty : Ty)
  | field (e : TExpr) (name : String) (ty : Ty)
  | matchE (scrut : TExpr) (arms : List TArm) (ty : Ty)
inductive TArm where
  | mk (p : TPat) (body : TExpr)
end

instance : Inhabited TExpr := ⟨.prim .unit⟩

/-- `tast::Expr::get_ty` -/
def TExpr.ty : TExpr → Ty
  | .lvar _ t => t | .gvar _ t => t | .err t => t | .mvar _ _ t => t | .prim t => t | .array _ t => t | .constr _ _ t => t
  | .tuple _ t => t | .closure _ _ t => t
  | .letE _ _ _ => .unit | .block _ t => t | .ite _ _ _ t => t | .while _ _ => .unit | .call _ _ t => t
  | .un _ _ t => t | .bin _ _ _ t => t | .proj _ _ t => t | .field _ _ t => t | .matchE _ _ t => t

def tysOf : List TExpr → List Ty
  | [] => []
  | t :: ts => t.ty :: tysOf ts

def ptysOf : List TPat → List Ty
  | [] => []
  | p :: ps => p.ty :: ptysOf ps

/-- `InherentImplKey` -/
inductive ImplKey where
  | exact (t : Ty)
  | constr (n : String)

/-- what the generation reads of the global environment: the types of the top-level functions
(`lookup_function_type_by_hint` / `get_type_of_function`, package `Main`) and the tables `solve` reads -/
structure GEnv where
  funs : List (String × Ty)
  env : Unify.Env
  /-- `trait_env.inherent_impls`: one row per method (key, method name, type of its scheme) -/
  inherent : List (ImplKey × String × Ty) := []
  /-- the names of the enums of the package (the structs are in `env.structs`) -/
  enums : List String := []

/-- `LocalTypeEnv.scopes`, innermost scope FIRST; a scope lists its newest binding first -/
abbrev Scopes := List (List (Nat × Ty))

structure St where
  σ : Store
  cs : List Constraint
  diags : List IDiag
  /-- `results.record_expr_ty` in the order of the calls -/
  recs : List (Nat × Ty)
  /-- GHOST (not part of the Rust state, not compared by the tie): set when generation went through a form that
  `Props/Infer.lean::infer_sound` does not cover yet (method-call forms, array literals) -/
  outside : Bool := false

def St.fresh (s : St) : Ty × St := (.tvar s.σ.n, { s with σ := s.σ.fresh })
def St.push (s : St) (c : Constraint) : St := { s with cs := s.cs ++ [c] }
def St.diag (s : St) (d : IDiag) : St := { s with diags := s.diags ++ [d] }
def St.record (s : St) (i : Nat) (t : Ty) : St := { s with recs := s.recs ++ [(i, t)] }
def St.mark (s : St) : St := { s with outside := true }
/-- `Typer::inst_ty` -/
def St.inst (s : St) (t : Ty) : Ty × St :=
  let r := instTy s.σ [] t
  (r.2.2, { s with σ := r.1 })

/-- `error_expr`: `EVar "<error>"` at a fresh variable -/
def errExpr (s : St) : TExpr × St := (.err s.fresh.1, s.fresh.2)

def lookupScope (x : Nat) : List (Nat × Ty) → Option Ty
  | [] => none
  | (y, t) :: rest => if y = x then some t else lookupScope x rest

/-- `LocalTypeEnv::lookup_var` (the capture bookkeeping does not influence types) -/
def lookupVar (x : Nat) : Scopes → Option Ty
  | [] => none
  | sc :: rest => match lookupScope x sc with
    | some t => some t
    | none => lookupVar x rest

/-- `insert_var`: into the innermost scope, if there is one -/
def insertVar (x : Nat) (t : Ty) : Scopes → Scopes
  | [] => []
  | sc :: rest => ((x, t) :: sc) :: rest

def pushScope (Γ : Scopes) : Scopes := [] :: Γ

/-- `pop_scope`: the base scope is never popped (ICE diagnostic instead) -/
def popScope (Γ : Scopes) (s : St) : Scopes × St :=
  if Γ.length ≤ 1 then (Γ, s.diag .popBase) else (Γ.tail, s)

def isIntegerTy : Ty → Bool
  | .int _ _ => true
  | _ => false

def isNumericTy : Ty → Bool
  | .int _ _ => true
  | .float _ => true
  | _ => false

def isDynTy : Ty → Bool
  | .dyn _ => true
  | _ => false

def isArith : BinOp → Bool
  | .add | .sub | .mul | .div => true
  | _ => false

def isLogic : BinOp → Bool
  | .and | .or => true
  | _ => false

/-! ### patterns — `check_pat` -/

/-- the parameter types / the result type of an instantiated constructor type (a unit variant has its enum type) -/
def ctorParams : Ty → List Ty
  | .func ps _ => ps
  | _ => []
def ctorRet : Ty → Ty
  | .func _ r => r
  | t => t



def freshN : Nat → St → List Ty × St
  | 0, s => ([], s)
  | n + 1, s =>
    let v := s.fresh
    let r := freshN n v.2
    (v.1 :: r.1, r.2)

/-- `check_pat_tuple`: `TTuple { typs } if typs.len() == pats.len() => typs.clone()`, otherwise one fresh
variable per pattern, ALL created before the first pattern is checked -/
def tupleElemTys (n : Nat) (ty : Ty) (s : St) : List Ty × St :=
  match ty with
  | .tuple tys => if tys.length = n then (tys, s) else freshN n s
  | _ => freshN n s

mutual
def checkPat : IPat → Ty → Scopes → St → TPat × Scopes × St
  | .var x, ty, Γ, s => (.var x ty, insertVar x ty Γ, s)
  | .unit, ty, Γ, s => (.lit .unit .unit, Γ, s.push (.eq .unit ty))
  | .bool, ty, Γ, s => (.lit .bool .bool, Γ, s.push (.eq .bool ty))
  | .int, ty, Γ, s =>
    let target := if isIntegerTy ty then ty else .int 32 true
    (.lit target ty, Γ, s.push (.eq target ty))
  | .str, ty, Γ, s => (.lit .string .string, Γ, s.push (.eq .string ty))
  | .tint k, ty, Γ, s => (.lit k k, Γ, s.push (.eq k ty))
  | .wild, ty, Γ, s =>
    let v := s.fresh
    (.wild v.1, Γ, v.2.push (.eq v.1 ty))
  | .constr info args, ty, Γ, s =>
    -- `check_pat_constructor`: a failed lookup / a wrong arity falls back to `check_pat_wild`
    match (match info with
           | some (some (cty, arity)) => if arity = args.length then some cty else none
           | _ => none) with
    | none =>
      let d := match info with
        | none => IDiag.ctorAmbiguous
        | some none => IDiag.ctorNotFound
        | some (some _) => IDiag.ctorArity
      let v := (s.diag d).fresh
      (.wild v.1, Γ, v.2.push (.eq v.1 ty))
    | some cty =>
      let it := s.inst cty
      let r := checkPatZip args (ctorParams it.1) Γ it.2
      (.constr r.1 (ctorRet it.1), r.2.1, r.2.2.push (.eq (ctorRet it.1) ty))
  | .tuple ps, ty, Γ, s =>
    let el := tupleElemTys ps.length ty s
    let r := checkPatZip ps el.1 Γ el.2
    let pty := Ty.tuple (ptysOf r.1)
    (.tuple r.1 pty, r.2.1, r.2.2.push (.eq pty ty))
/-- the patterns against the element types (`zip`) -/
def checkPatZip : List IPat → List Ty → Scopes → St → List TPat × Scopes × St
  | p :: ps, t :: ts, Γ, s =>
    let r := checkPat p t Γ s
    let r' := checkPatZip ps ts r.2.1 r.2.2
    (r.1 :: r'.1, r'.2.1, r'.2.2)
  | _, _, Γ, s => ([], Γ, s)
end


/-! ### expressions — `infer_expr` / `check_expr` -/

abbrev Res := Option (TExpr × Scopes × St)

/-- The end of `infer_expr` (`viaInfer`: `record_expr_result`) followed, in check mode, by the end of
`check_expr`: `coerce_to_expected_dyn` (outside the fragment), `push_constraint(TypeEqual(ty, expected))`,
`record_expr_result`. -/
def finish (i : Nat) (exp : Option Ty) (viaInfer : Bool) (t : TExpr) (Γ : Scopes) (s : St) : Res :=
  let s1 := if viaInfer then s.record i t.ty else s
  match exp with
  | none => some (t, Γ, s1)
  | some x =>
    let s2 := if isDynTy x then s1.diag .outOfFragment else s1
    some (t, Γ, (s2.push (.eq t.ty x)).record i t.ty)

/-- `infer_res_expr` -/
def nameRef (r : NameRes) (G : GEnv) (Γ : Scopes) (s : St) : TExpr × St :=
  match r with
  | .loc x =>
    match lookupVar x Γ with
    | some ty => (.lvar x ty, s)
    | none => errExpr (s.diag .varNotFound)
  | .defn hint =>
    match lookupAssoc hint G.funs with
    | some fty => let r := s.inst fty; (.gvar hint r.1, r.2)
    | none => errExpr (s.diag .fnNotFound)
  | .builtin _ => errExpr (s.diag .builtinAsValue)
  | .unres (some n) =>
    match lookupAssoc n G.funs with
    | some fty => let r := s.inst fty; (.gvar n r.1, r.2)
    | none => errExpr (s.diag .unresolvedName)
  | .unres none => errExpr (s.diag .unresolvedName)

/-- the guard of the `ETuple` arm of `check_expr` -/
def tupleCheckTys (exp : Option Ty) (n : Nat) : Option (List Ty) :=
  match exp with
  | some (.tuple tys) => if tys.length = n then some tys else none
  | _ => none

/-- the guard of `check_closure_expr` -/
def closureCheck (exp : Option Ty) (n : Nat) : Option (List Ty × Ty) :=
  match exp with
  | some (.func eps eret) => if eps.length = n then some (eps, eret) else none
  | _ => none

/-- the guard `if is_numeric_ty(expected)` of the `Neg` / arithmetic arms of `check_expr` -/
def numericExp (exp : Option Ty) : Option Ty :=
  match exp with
  | some x => if isNumericTy x then some x else none
  | none => none

/-- the parameter loop of `infer_closure_expr` -/
def bindParamsInf : List (Nat × Option Ty) → Scopes → St → List (Nat × Ty) × Scopes × St
  | [], Γ, s => ([], Γ, s)
  | (x, ann) :: ps, Γ, s =>
    let v := match ann with
      | some a => (a, s)
      | none => s.fresh
    let r := bindParamsInf ps (insertVar x v.1 Γ) v.2
    ((x, v.1) :: r.1, r.2.1, r.2.2)

/-- the parameter loop of `check_closure_expr` (`zip` with the expected parameter types) -/
def bindParamsChk : List (Nat × Option Ty) → List Ty → Scopes → St → List (Nat × Ty) × Scopes × St
  | (x, ann) :: ps, ep :: eps, Γ, s =>
    let v := match ann with
      | some a => (a, s.push (.eq a ep))
      | none => (ep, s)
    let r := bindParamsChk ps eps (insertVar x v.1 Γ) v.2
    ((x, v.1) :: r.1, r.2.1, r.2.2)
  | _, _, Γ, s => ([], Γ, s)

def sndL : List (Nat × Ty) → List Ty
  | [] => []
  | p :: ps => p.2 :: sndL ps

/-- `tast_exprs.last().map(|e| e.get_ty()).unwrap_or(TUnit)` -/
def lastTy : List TExpr → Ty
  | [] => .unit
  | [t] => t.ty
  | _ :: ts => lastTy ts

inductive Callee where
  | loc (fi : Nat) (x : Nat)
  /-- `Def` / `Builtin` (`unres = false`) or a one-segment `Unresolved` path -/
  | global (fi : Nat) (name : String) (unres : Bool)
  | unresPath
  | method
  | other

def calleeKind : IExpr → Callee
  | .name fi (.loc x) => .loc fi x
  | .name fi (.defn h) => .global fi h false
  | .name fi (.builtin h) => .global fi h false
  | .name fi (.unres (some n)) => .global fi n true
  | .name _ (.unres none) => .unresPath
  | .field _ _ _ => .method
  | _ => .other

/-- the result type of a call of a named function: `ref` and `array_set` are special-cased.
`none` = the Rust indexes `args_tast[0]` out of range (panic). -/
def callRet (name : String) (argTys : List Ty) (s : St) : Option (Ty × St) :=
  if name == "ref" && argTys.length == 1 then
    match argTys.head? with
    | some t => some (.ref t, s)
    | none => some s.fresh
  else if name == "array_set" && argTys.length == 3 then
    match argTys[0]? with
    | some t => some (t, s)
    | none => none
  else some s.fresh

/-- `type_call_args` decides: check against the parameter types? -/
def callParamTys (inst : Ty) (nargs : Nat) : Option (List Ty) :=
  match inst with
  | .func ps _ => if ps.length = nargs && !ps.isEmpty then some ps else none
  | _ => none

/-- `Ty::constr_name` / `util::try_constr_name` -/
def constrName : Ty → Option String
  | .enum n => some n
  | .struct n => some n
  | .app t _ => constrName t
  | .vec _ => some "Vec"
  | .ref _ => some "Ref"
  | _ => none

/-- `TraitEnv::lookup_inherent_method`: the impl of exactly this type first, then the impl of its constructor
(enum / struct / applied nominal type only) -/
def lookupInherent (G : GEnv) (recv : Ty) (m : String) : Option Ty :=
  match G.inherent.find? (fun r => match r.1 with | .exact t => tyEq t recv && r.2.1 == m | .constr _ => false) with
  | some r => some r.2.2
  | none =>
    let c := match recv with
      | .enum n => some n
      | .struct n => some n
      | .app t _ => constrName t
      | _ => none
    match c with
    | some c =>
      (G.inherent.find? (fun r => match r.1 with | .constr n => n == c && r.2.1 == m | .exact _ => false)).map (·.2.2)
    | none => none

/-- `TraitEnv::instantiation_impl_defines` -/
def instImplDefines (G : GEnv) (c : String) (m : String) : Bool :=
  G.inherent.any fun r => match r.1 with
    | .exact (.app t _) => constrName t == some c && r.2.1 == m
    | _ => false

/-- the receiver type `Type::m` starts from: the enum / struct of that name -/
def nominalOf (G : GEnv) (n : String) : Option Ty :=
  if G.enums.contains n then some (.enum n)
  else if G.env.structs.any (fun sd => sd.name == n) then some (.struct n)
  else none

/-- `ordered_args`: the checked fields put at their declared positions -/
def reorder (n : Nat) (idxs : List Nat) (ts : List TExpr) : List TExpr :=
  (List.range n).map fun k => ((idxs.zip ts).find? (fun p => p.1 == k)).elim (TExpr.prim .unit) (·.2)

/-- the written positions are distinct, in range, and there is one per checked field -/
def zipOk (nf : Nat) (idxs : List Nat) (ts : List TExpr) : Bool :=
  decide (((idxs.zip ts).map (·.1)).Nodup) && decide (ts.length ≤ idxs.length) && idxs.all (· < nf)

mutual
def go : IExpr → Option Ty → GEnv → Scopes → St → Res
  | .lit i ty, exp, _, Γ, s => finish i exp true (.prim ty) Γ s
  | .name i r, exp, G, Γ, s =>
    let t := nameRef r G Γ s
    finish i exp true t.1 Γ t.2
  | .tuple i items, exp, G, Γ, s =>
    match tupleCheckTys exp items.length with
    | some tys =>
      match goZip items tys G Γ s with
      | none => none
      | some (ts, Γ', s') => finish i exp false (.tuple ts (.tuple (tysOf ts))) Γ' s'
    | none =>
      match goL items G Γ s with
      | none => none
      | some (ts, Γ', s') => finish i exp true (.tuple ts (.tuple (tysOf ts))) Γ' s'
  | .closure i params body, exp, G, Γ, s =>
    match closureCheck exp params.length with
    | some (eps, eret) =>
      let b := bindParamsChk params eps (pushScope Γ) s
      match go body (some eret) G b.2.1 b.2.2 with
      | none => none
      | some (tb, Γ2, s2) =>
        let p := popScope Γ2 s2
        finish i exp false (.closure b.1 tb (.func (sndL b.1) tb.ty)) p.1 p.2
    | none =>
      let b := bindParamsInf params (pushScope Γ) s
      match go body none G b.2.1 b.2.2 with
      | none => none
      | some (tb, Γ2, s2) =>
        let p := popScope Γ2 s2
        finish i exp exp.isNone (.closure b.1 tb (.func (sndL b.1) tb.ty)) p.1 p.2
  | .letE i p ann v, exp, G, Γ, s =>
    match ann with
    | some a =>
      match go v (some a) G Γ s with
      | none => none
      | some (tv, Γ1, s1) =>
        let r := checkPat p a Γ1 s1
        finish i exp exp.isNone (.letE r.1 a tv) r.2.1 r.2.2
    | none =>
      match go v none G Γ s with
      | none => none
      | some (tv, Γ1, s1) =>
        let r := checkPat p tv.ty Γ1 s1
        finish i exp exp.isNone (.letE r.1 tv.ty tv) r.2.1 r.2.2
  | .block i es, exp, G, Γ, s =>
    if es.isEmpty then finish i exp exp.isNone (.prim .unit) Γ s
    else
      match goBlock es exp G (pushScope Γ) s with
      | none => none
      | some (ts, Γ1, s1) =>
        let p := popScope Γ1 s1
        finish i exp exp.isNone (.block ts (lastTy ts)) p.1 p.2
  | .ite i c t e, exp, G, Γ, s =>
    match exp with
    | some x =>
      match go c (some .bool) G Γ s with
      | none => none
      | some (tc, Γ1, s1) =>
        match go t (some x) G Γ1 s1 with
        | none => none
        | some (tt, Γ2, s2) =>
          match go e (some x) G Γ2 s2 with
          | none => none
          | some (te, Γ3, s3) => finish i exp false (.ite tc tt te x) Γ3 s3
    | none =>
      match go c none G Γ s with
      | none => none
      | some (tc, Γ1, s1) =>
        match go t none G Γ1 (s1.push (.eq tc.ty .bool)) with
        | none => none
        | some (tt, Γ2, s2) =>
          match go e none G Γ2 s2 with
          | none => none
          | some (te, Γ3, s3) =>
            let v := s3.fresh
            finish i exp true (.ite tc tt te v.1) Γ3 ((v.2.push (.eq tt.ty v.1)).push (.eq te.ty v.1))
  | .while i c b, exp, G, Γ, s =>
    match go c none G Γ s with
    | none => none
    | some (tc, Γ1, s1) =>
      match go b none G Γ1 (s1.push (.eq tc.ty .bool)) with
      | none => none
      | some (tb, Γ2, s2) => finish i exp true (.while tc tb) Γ2 (s2.push (.eq tb.ty .unit))
  | .call i f args, exp, G, Γ, s =>
    match calleeKind f with
    | .loc fi x =>
      match goL args G Γ s with
      | none => none
      | some (ts, Γ1, s1) =>
        match lookupVar x Γ1 with
        | some vt =>
          let v := (s1.record fi vt).fresh
          finish i exp true (.call (.lvar x vt) ts v.1) Γ1 (v.2.push (.eq vt (.func (tysOf ts) v.1)))
        | none =>
          let e := errExpr (s1.diag .varNotFound)
          finish i exp true e.1 Γ1 e.2
    | .global fi name unres =>
      match lookupAssoc name G.funs with
      | some fty =>
        let it := s.inst fty
        match (match callParamTys it.1 args.length with
               | some ps => goZip args ps G Γ it.2
               | none => goL args G Γ it.2) with
        | none => none
        | some (ts, Γ1, s1) =>
          match callRet name (tysOf ts) s1 with
          | none => none
          | some (ret, s2) =>
            finish i exp true (.call (.gvar name it.1) ts ret) Γ1
              ((s2.push (.eq it.1 (.func (tysOf ts) ret))).record fi it.1)
      | none =>
        if unres then
          let e := errExpr (s.diag .unresolvedCallee)
          finish i exp true e.1 Γ e.2
        else
          match goL args G Γ s with
          | none => none
          | some (_, Γ1, s1) =>
            let e := errExpr (s1.diag .fnNotFound)
            finish i exp true e.1 Γ1 e.2
    | .unresPath =>
      let e := errExpr (s.diag .unresolvedCallee)
      finish i exp true e.1 Γ e.2
    | .method =>
      let e := errExpr (s.diag .outOfFragment)
      finish i exp true e.1 Γ e.2
    | .other =>
      match goL args G Γ s with
      | none => none
      | some (ts, Γ1, s1) =>
        let v := s1.fresh
        match go f none G Γ1 v.2 with
        | none => none
        | some (tf, Γ2, s2) =>
          finish i exp true (.call tf ts v.1) Γ2 (s2.push (.eq tf.ty (.func (tysOf ts) v.1)))
  | .un i op e, exp, G, Γ, s =>
    match (if op == .neg then numericExp exp else none) with
    | some x =>
      match go e (some x) G Γ s with
      | none => none
      | some (te, Γ1, s1) => finish i exp false (.un op te x) Γ1 s1
    | none =>
      match go e none G Γ s with
      | none => none
      | some (te, Γ1, s1) =>
        match op with
        | .not => finish i exp true (.un op te .bool) Γ1 (s1.push (.eq te.ty .bool))
        | .neg => finish i exp true (.un op te te.ty) Γ1 (s1.push (.eq te.ty te.ty))
  | .bin i op l r, exp, G, Γ, s =>
    match (if isArith op then numericExp exp else none) with
    | some x =>
      match go l (some x) G Γ s with
      | none => none
      | some (tl, Γ1, s1) =>
        match go r (some x) G Γ1 s1 with
        | none => none
        | some (tr, Γ2, s2) => finish i exp false (.bin op tl tr x) Γ2 s2
    | none =>
      match go l none G Γ s with
      | none => none
      | some (tl, Γ1, s1) =>
        match go r none G Γ1 s1 with
        | none => none
        | some (tr, Γ2, s2) =>
          if isArith op then
            let v := s2.fresh
            finish i exp true (.bin op tl tr v.1) Γ2 ((v.2.push (.eq tl.ty v.1)).push (.eq tr.ty v.1))
          else if isLogic op then
            finish i exp true (.bin op tl tr .bool) Γ2 ((s2.push (.eq tl.ty .bool)).push (.eq tr.ty .bool))
          else
            finish i exp true (.bin op tl tr .bool) Γ2 (s2.push (.eq tl.ty tr.ty))
  | .proj i e idx, exp, G, Γ, s =>
    match go e none G Γ s with
    | none => none
    | some (te, Γ1, s1) =>
      match te.ty with
      | .tuple tys =>
        match tys[idx]? with
        | some ft => finish i exp true (.proj te idx ft) Γ1 s1
        | none =>
          let v := (s1.diag .tupleIndex).fresh
          finish i exp true (.proj te idx v.1) Γ1 v.2
      | _ =>
        let v := (s1.diag .projNonTuple).fresh
        finish i exp true (.proj te idx v.1) Γ1 v.2
  | .field i e fld, exp, G, Γ, s =>
    match go e none G Γ s with
    | none => none
    | some (te, Γ1, s1) =>
      let v := s1.fresh
      finish i exp true (.field te fld v.1) Γ1 (v.2.push (.field te.ty fld v.1))
  | .matchE i scrut arms, exp, G, Γ, s =>
    match go scrut none G Γ s with
    | none => none
    | some (tsc, Γ1, s1) =>
      match exp with
      | some x =>
        match goArms arms tsc.ty (some x) .unit G Γ1 s1 with
        | none => none
        | some (tas, Γ2, s2) => finish i exp false (.matchE tsc tas x) Γ2 s2
      | none =>
        let v := s1.fresh
        match goArms arms tsc.ty none v.1 G Γ1 v.2 with
        | none => none
        | some (tas, Γ2, s2) => finish i exp true (.matchE tsc tas v.1) Γ2 s2
  | .constr i info args, exp, G, Γ, s =>
    -- `infer_constructor_expr`
    match info with
    | none => let e := errExpr (s.diag .ctorAmbiguous); finish i exp true e.1 Γ e.2
    | some none => let e := errExpr (s.diag .ctorNotFound); finish i exp true e.1 Γ e.2
    | some (some (cty, arity)) =>
      if arity ≠ args.length then let e := errExpr (s.diag .ctorArity); finish i exp true e.1 Γ e.2
      else
        let it := s.inst cty
        let ps := ctorParams it.1
        let ret := ctorRet it.1
        match (if ps.isEmpty then goL args G Γ it.2 else goZip args ps G Γ it.2) with
        | none => none
        | some (ts, Γ1, s1) =>
          let c := if ts.isEmpty then Constraint.eq it.1 ret else Constraint.eq it.1 (.func (tysOf ts) ret)
          finish i exp true (.constr it.1 ts ret) Γ1 (s1.push c)
  | .slit i info idxs args, exp, G, Γ, s =>
    -- `infer_struct_literal_expr` (no unknown / duplicate / missing field)
    match info with
    | none => let e := errExpr (s.diag .ctorNotFound); finish i exp true e.1 Γ e.2
    | some (cty, nf) =>
      let it := s.inst cty
      match goIdx args idxs (ctorParams it.1) G Γ it.2 with
      | none => none
      | some (ts, Γ1, s1) =>
        let ordered := reorder nf idxs ts
        let c := if ordered.isEmpty then Constraint.eq it.1 (ctorRet it.1) else Constraint.eq it.1 (.func (tysOf ordered) (ctorRet it.1))
        -- ghost: the written fields are exactly the declared ones (what the harness guarantees); otherwise outside `infer_sound`
        finish i exp true (.constr it.1 ordered (ctorRet it.1)) Γ1 ((if zipOk nf idxs ts then s1 else s1.mark).push c)
  | .array i items, exp, G, Γ, s =>
    -- `infer_array_expr`: the element variable first, every item inferred and equated with it
    let v := s.fresh
    match goArr items v.1 G Γ v.2 with
    | none => none
    | some (ts, Γ1, s1) => finish i exp true (.array ts (.array items.length v.1)) Γ1 s1
  | .mcall i fi recv m args, exp, G, Γ, s =>
    -- the `EField` arm of `infer_call_expr`
    match go recv none G Γ s.mark with
    | none => none
    | some (tr, Γ1, s1) =>
      match lookupInherent G tr.ty m with
      | some mty =>
        match goL args G Γ1 s1 with
        | none => none
        | some (ts, Γ2, s2) =>
          let it := s2.inst mty
          let v := it.2.fresh
          finish i exp true (.call (.mvar tr.ty m it.1) (tr :: ts) v.1) Γ2
            ((v.2.push (.eq it.1 (.func (tr.ty :: tysOf ts) v.1))).record fi it.1)
      | none =>
        match tr.ty with
        | .param _ =>
          let e := errExpr (s1.diag .outOfFragment)
          finish i exp true e.1 Γ1 e.2
        | _ =>
          let e := errExpr (s1.diag .methodNotFound)
          finish i exp true e.1 Γ1 e.2
  | .scall i fi tyName m args, exp, G, Γ, s =>
    -- the inherent part of `infer_static_member_call_expr`
    match nominalOf G tyName with
    | none =>
      let e := errExpr (s.mark.diag .typeNotFound)
      finish i exp true e.1 Γ e.2
    | some recv0 =>
      if !args.isEmpty && instImplDefines G tyName m then
        -- an impl of a single instantiation defines `m`: the receiver is inferred FIRST and decides which impl is meant
        match goHead args G Γ s.mark with
        | none => none
        | some (t0s, Γ1, s1) =>
          let t0ty := (tysOf t0s).headD .unit
          let look := match (if constrName t0ty == some tyName then lookupInherent G t0ty m else none) with
            | some mty => some (t0ty, mty)
            | none => (lookupInherent G recv0 m).map fun mty => (recv0, mty)
          match look with
          | none => let e := errExpr (s1.diag .methodNotFound); finish i exp true e.1 Γ1 e.2
          | some (rty, mty) =>
            let it := s1.inst mty
            match it.1 with
            | .func ps ret =>
              if ps.length ≠ args.length then let e := errExpr (it.2.diag .methodArity); finish i exp true e.1 Γ1 e.2
              else
                -- the receiver is tied to the first parameter, the other arguments are CHECKED against theirs
                match goZipTail args ps G Γ1 (it.2.push (.eq t0ty (ps.headD .unit))) with
                | none => none
                | some (ts, Γ2, s2) =>
                  finish i exp true (.call (.mvar rty m it.1) (t0s ++ ts) ret) Γ2 (s2.record fi it.1)
            | _ => let e := errExpr (it.2.diag .methodNotCallable); finish i exp true e.1 Γ1 e.2
      else
        match lookupInherent G recv0 m with
        | none => let e := errExpr (s.mark.diag .methodNotFound); finish i exp true e.1 Γ e.2
        | some mty =>
          let it := s.mark.inst mty
          match it.1 with
          | .func ps ret =>
            if ps.length ≠ args.length then let e := errExpr (it.2.diag .methodArity); finish i exp true e.1 Γ e.2
            else
              match goZip args ps G Γ it.2 with
              | none => none
              | some (ts, Γ2, s2) => finish i exp true (.call (.mvar recv0 m it.1) ts ret) Γ2 (s2.record fi it.1)
          | _ => let e := errExpr (it.2.diag .methodNotCallable); finish i exp true e.1 Γ e.2
/-- the first expression only, inferred -/
def goHead : List IExpr → GEnv → Scopes → St → Option (List TExpr × Scopes × St)
  | [], _, Γ, s => some ([], Γ, s)
  | e :: _, G, Γ, s =>
    match go e none G Γ s with
    | none => none
    | some (t, Γ1, s1) => some ([t], Γ1, s1)
/-- all but the first expression, checked against all but the first type -/
def goZipTail : List IExpr → List Ty → GEnv → Scopes → St → Option (List TExpr × Scopes × St)
  | _ :: es, _ :: xs, G, Γ, s => goZip es xs G Γ s
  | _, _, _, Γ, s => some ([], Γ, s)
/-- the written fields of a struct literal: each checked against the parameter type of ITS position (inferred when the
constructor type has no such parameter) -/
def goIdx : List IExpr → List Nat → List Ty → GEnv → Scopes → St → Option (List TExpr × Scopes × St)
  | e :: es, k :: ks, ps, G, Γ, s =>
    match go e ps[k]? G Γ s with
    | none => none
    | some (t, Γ1, s1) =>
      match goIdx es ks ps G Γ1 s1 with
      | none => none
      | some (ts, Γ2, s2) => some (t :: ts, Γ2, s2)
  | _, _, _, _, Γ, s => some ([], Γ, s)
/-- the items of an array literal: each inferred, then equated with the element variable -/
def goArr : List IExpr → Ty → GEnv → Scopes → St → Option (List TExpr × Scopes × St)
  | [], _, _, Γ, s => some ([], Γ, s)
  | e :: es, el, G, Γ, s =>
    match go e none G Γ s with
    | none => none
    | some (t, Γ1, s1) =>
      match goArr es el G Γ1 (s1.push (.eq t.ty el)) with
      | none => none
      | some (ts, Γ2, s2) => some (t :: ts, Γ2, s2)
/-- every expression inferred, left to right -/
def goL : List IExpr → GEnv → Scopes → St → Option (List TExpr × Scopes × St)
  | [], _, Γ, s => some ([], Γ, s)
  | e :: es, G, Γ, s =>
    match go e none G Γ s with
    | none => none
    | some (t, Γ1, s1) =>
      match goL es G Γ1 s1 with
      | none => none
      | some (ts, Γ2, s2) => some (t :: ts, Γ2, s2)
/-- every expression checked against its expected type (`zip`: the shorter list decides) -/
def goZip : List IExpr → List Ty → GEnv → Scopes → St → Option (List TExpr × Scopes × St)
  | e :: es, x :: xs, G, Γ, s =>
    match go e (some x) G Γ s with
    | none => none
    | some (t, Γ1, s1) =>
      match goZip es xs G Γ1 s1 with
      | none => none
      | some (ts, Γ2, s2) => some (t :: ts, Γ2, s2)
  | _, _, _, Γ, s => some ([], Γ, s)
/-- `infer_block_exprs` (`exp = none`) / `check_block_exprs`: only the LAST expression is checked -/
def goBlock : List IExpr → Option Ty → GEnv → Scopes → St → Option (List TExpr × Scopes × St)
  | [], _, _, Γ, s => some ([], Γ, s)
  | e :: es, exp, G, Γ, s =>
    match go e (if es.isEmpty then exp else none) G Γ s with
    | none => none
    | some (t, Γ1, s1) =>
      match goBlock es exp G Γ1 s1 with
      | none => none
      | some (ts, Γ2, s2) => some (t :: ts, Γ2, s2)
/-- the arm loop of `infer_match_expr` (`exp = none`, arm type `armTy`) / of the `EMatch` arm of `check_expr` -/
def goArms : List IArm → Ty → Option Ty → Ty → GEnv → Scopes → St → Option (List TArm × Scopes × St)
  | [], _, _, _, _, Γ, s => some ([], Γ, s)
  | .mk p body :: arms, sty, exp, armTy, G, Γ, s =>
    let r := checkPat p sty (pushScope Γ) s
    match go body exp G r.2.1 r.2.2 with
    | none => none
    | some (tb, Γ1, s1) =>
      let q := popScope Γ1 s1
      let s2 := match exp with
        | some _ => q.2
        | none => q.2.push (.eq tb.ty armTy)
      match goArms arms sty exp armTy G q.1 s2 with
      | none => none
      | some (tas, Γ2, s3) => some (.mk r.1 tb :: tas, Γ2, s3)
end

/-! ### a whole function — `typecheck_fn` -/

def insertParams : List (Nat × Ty) → Scopes → Scopes
  | [], Γ => Γ
  | (x, t) :: ps, Γ => insertParams ps (insertVar x t Γ)

/-- `typecheck_fn` up to, not including, `solve`: `LocalTypeEnv::new()`, `push_scope`, the parameters,
`check_expr(body, ret)`, `pop_scope` -/
def genFn (G : GEnv) (params : List (Nat × Ty)) (ret : Ty) (body : IExpr) (σ0 : Store) : Option (TExpr × St) :=
  match go body (some ret) G (insertParams params (pushScope [[]])) { σ := σ0, cs := [], diags := [], recs := [] } with
  | none => none
  | some (t, Γ1, s1) => some (t, (popScope Γ1 s1).2)

/-- `Typer::subst_ty_silent` (what `finalize_types` applies to every recorded type): a variable WITH a
value is replaced by the substituted value, one without is left as it is (not its root) -/
def substF : Nat → Store → Ty → Option Ty
  | 0, _, _ => none
  | f + 1, σ, t =>
    match t with
    | .tvar v =>
      match σ.probe v with
      | some u => substF f σ u
      | none => some (.tvar v)
    | .tuple ts => (mapO (substF f σ) ts).map Ty.tuple
    | .app t args =>
      match substF f σ t with
      | none => none
      | some t' => (mapO (substF f σ) args).map (Ty.app t')
    | .array n e => (substF f σ e).map (Ty.array n)
    | .vec e => (substF f σ e).map Ty.vec
    | .ref e => (substF f σ e).map Ty.ref
    | .func ps r =>
      match mapO (substF f σ) ps with
      | none => none
      | some ps' => (substF f σ r).map (Ty.func ps')
    | t => some t

/-- the diagnostics of a function: those of generation, then those of `solve` -/
inductive FDiag where
  | gen (d : IDiag)
  | solve (d : SDiag)
  deriving Repr, DecidableEq, Inhabited

def FDiag.name : FDiag → String
  | .gen d => d.name
  | .solve d => d.name

structure FnResult where
  /-- the elaborated body, types before substitution -/
  tree : TExpr
  /-- the state after generation (queue, fresh keys, generation diagnostics, recorded types) -/
  gen : St
  /-- the store `solve` leaves -/
  σ : Store
  diags : List FDiag
  rest : List Constraint

inductive FnOutcome where
  | ok (r : FnResult)
  /-- the Rust would panic during generation -/
  | stuck
  | noFuel
  | noRounds

/-- `typecheck_fn`: generation, then `solve` -/
def inferFn (G : GEnv) (fuel : Nat) (params : List (Nat × Ty)) (ret : Ty) (body : IExpr) (σ0 : Store) : FnOutcome :=
  match genFn G params ret body σ0 with
  | none => .stuck
  | some (t, s) =>
    match solve G.env fuel s.σ s.cs with
    | .noFuel => .noFuel
    | .noRounds => .noRounds
    | .done σ' sd rest =>
      .ok { tree := t, gen := s, σ := σ', diags := s.diags.map .gen ++ sd.map .solve, rest := rest }

end Goml.Infer
