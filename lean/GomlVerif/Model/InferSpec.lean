import GomlVerif.Model.Infer
import GomlVerif.Model.C03presMatch
/-!
The DECLARATIVE reading of an elaborated function body (`Infer.TExpr`, the shape of `tast::Expr`):
`obls t` lists, node by node, what must hold for the tree to be well typed —
* `rel l r`  : the two types agree (condition of `if` / `while` is `bool`, branches and arms have the type of
  the node, a callee has the function type built from the arguments and the result of the call, operands of
  an operator, a `let` value and its annotation, a literal pattern and its scrutinee …);
* `same l r` : the annotation on the node IS the type built from its children (tuple, closure, block, `!`, `&&`, `<`);
* `bound x ty` : a use / binder of local `x` carries the type of `x`'s binder;
* `inst f ty` : a reference to top-level function `f` carries an instance of `f`'s signature;
* `projOk tup i ty` : `e.i` has the type of the `i`-th component of the tuple type of `e`;
* `fld`, `bad` : a field access (its meaning is a struct-table lookup, not stated here) / an error node.
`Wt R B funs t` = every obligation holds, types compared with `R`.  The same list is evaluated by the
driver on the REAL final types (`checkB`, Stage-3 oracle) and, against the constraint queue, as the
certificate `justB` that `Props/Infer.lean::infer_sound_partial` needs.
-/
namespace Goml.Infer
open Goml Goml.Unify

inductive Obl where
  | rel (l r : Ty)
  | same (l r : Ty)
  | bound (x : Nat) (ty : Ty)
  | inst (name : String) (ty : Ty)
  | projOk (tup : Ty) (idx : Nat) (ty : Ty)
  | fld (e : Ty) (f : String) (r : Ty)
  | bad

mutual
/-- a pattern on its own: binders, literal kinds, tuple shape -/
def pself : TPat → List Obl
  | .var x ty => [.bound x ty]
  | .wild _ => []
  | .lit k ty => [.rel k ty]
  | .tuple ps ty => .same ty (.tuple (ptysOf ps)) :: pselfL ps
  -- a constructor pattern: its sub-patterns (their tie to the constructor's parameter types is not stated yet)
  | .constr ps _ => pselfL ps
def pselfL : List TPat → List Obl
  | [] => []
  | p :: ps => pself p ++ pselfL ps
end

/-- a pattern against the type of what it matches -/
def plink : TPat → Ty → Obl
  | .var _ ty, vty => .same ty vty
  | .wild ty, vty => .rel ty vty
  | .lit k _, vty => .rel k vty
  | .tuple _ ty, vty => .rel ty vty
  | .constr _ ty, vty => .rel ty vty

def pobls (p : TPat) (vty : Ty) : List Obl := pself p ++ [plink p vty]

def boundsOf : List (Nat × Ty) → List Obl
  | [] => []
  | (x, t) :: ps => .bound x t :: boundsOf ps

/-- every item of an array literal has the element type -/
def relAll : List TExpr → Ty → List Obl
  | [], _ => []
  | t :: ts, el => .rel t.ty el :: relAll ts el

/-- an array literal: its type is an array type and every item has the element type (the length is not stated) -/
def arrObls (items : List TExpr) : Ty → List Obl
  | .array _ el => relAll items el
  | _ => [.bad]

def binObls (op : BinOp) (l r ty : Ty) : List Obl :=
  if isArith op then [.rel l ty, .rel r ty]
  else if isLogic op then [.rel l .bool, .rel r .bool, .same ty .bool]
  else [.rel l r, .same ty .bool]

mutual
def obls : TExpr → List Obl
  | .lvar x ty => [.bound x ty]
  | .gvar n ty => [.inst n ty]
  | .err _ => [.bad]
  -- method callees: modelled and tied, not yet given a declarative rule (counted as not covered)
  | .mvar _ _ _ => [.bad]
  | .array items ty => oblsL items ++ arrObls items ty
  -- a constructor application: its instantiated type agrees with `(argument types) -> type of the node`
  | .constr cty args ty => oblsL args ++ [if args.isEmpty then .rel cty ty else .rel cty (.func (tysOf args) ty)]
  | .prim _ => []
  | .tuple items ty => oblsL items ++ [.same ty (.tuple (tysOf items))]
  | .closure ps body ty => boundsOf ps ++ obls body ++ [.same ty (.func (sndL ps) body.ty)]
  | .letE p vty v => obls v ++ [.rel v.ty vty] ++ pobls p vty
  | .block es ty => oblsL es ++ [.same ty (lastTy es)]
  | .ite c t e ty => obls c ++ obls t ++ obls e ++ [.rel c.ty .bool, .rel t.ty ty, .rel e.ty ty]
  | .while c b => obls c ++ obls b ++ [.rel c.ty .bool, .rel b.ty .unit]
  | .call f args ty => obls f ++ oblsL args ++ [.rel f.ty (.func (tysOf args) ty)]
  | .un op e ty =>
    obls e ++ (match op with
      | .not => [.rel e.ty .bool, .same ty .bool]
      | .neg => [.rel e.ty ty])
  | .bin op l r ty => obls l ++ obls r ++ binObls op l.ty r.ty ty
  | .proj e idx ty => obls e ++ [.projOk e.ty idx ty]
  | .field e f ty => obls e ++ [.fld e.ty f ty]
  | .matchE scrut arms ty => obls scrut ++ oblsA arms scrut.ty ty
def oblsL : List TExpr → List Obl
  | [] => []
  | t :: ts => obls t ++ oblsL ts
def oblsA : List TArm → Ty → Ty → List Obl
  | [], _, _ => []
  | .mk p body :: arms, sty, ty => pobls p sty ++ obls body ++ [.rel body.ty ty] ++ oblsA arms sty ty
end

/-- `ty` is what `inst_ty` returns for the scheme on some store: the scheme with its type parameters
replaced by variables -/
def IsInst (sch ty : Ty) : Prop := ∃ σ : Store, ty = (instTy σ [] sch).2.2

def Holds (R : Ty → Ty → Prop) (B : Nat → Option Ty) (funs : List (String × Ty)) : Obl → Prop
  | .rel l r => R l r
  | .same l r => l = r
  | .bound x ty => B x = some ty
  | .inst n ty => ∃ sch, lookupAssoc n funs = some sch ∧ IsInst sch ty
  | .projOk tup idx ty => ∃ tys, tup = .tuple tys ∧ tys[idx]? = some ty
  | .fld _ _ _ => False
  | .bad => False

/-- the elaborated tree is well typed: types compared with `R`, binders given by `B` -/
def Wt (R : Ty → Ty → Prop) (B : Nat → Option Ty) (funs : List (String × Ty)) (t : TExpr) : Prop :=
  ∀ o, o ∈ obls t → Holds R B funs o

/-- `Holds` with a meaning `F` for field accesses -/
def HoldsF (R : Ty → Ty → Prop) (F : Ty → String → Ty → Prop) (B : Nat → Option Ty) (funs : List (String × Ty)) : Obl → Prop
  | .fld e f r => F e f r
  | o => Holds R B funs o

/-- well typed, field accesses judged by `F` -/
def WtF (R : Ty → Ty → Prop) (F : Ty → String → Ty → Prop) (B : Nat → Option Ty) (funs : List (String × Ty)) (t : TExpr) : Prop :=
  ∀ o, o ∈ obls t → HoldsF R F B funs o

/-! ### executable versions -/

mutual
def minTVar : Ty → Option Nat
  | .tvar n => some n
  | .tuple ts => minTVarL ts
  | .app t args => optMin (minTVar t) (minTVarL args)
  | .array _ e => minTVar e
  | .vec e => minTVar e
  | .ref e => minTVar e
  | .func ps r => optMin (minTVarL ps) (minTVar r)
  | _ => none
def minTVarL : List Ty → Option Nat
  | [] => none
  | t :: ts => optMin (minTVar t) (minTVarL ts)
def optMin : Option Nat → Option Nat → Option Nat
  | none, b => b
  | a, none => a
  | some a, some b => some (min a b)
end

/-- the store on which `inst_ty` would return `ty`, if any: its next key is the smallest variable of `ty` -/
def instStore (ty : Ty) : Store := { Store.empty with n := (minTVar ty).getD 0 }

def isEqC (l r : Ty) : Constraint → Bool
  | .eq a b => Match.tyEqB a l && Match.tyEqB b r
  | _ => false

/-- an obligation is discharged by `r` (how two types are compared), the binder table and the signatures -/
def checkB (r : Ty → Ty → Bool) (bs : List (Nat × Ty)) (funs : List (String × Ty)) : Obl → Bool
  | .rel a b => r a b
  | .same a b => Match.tyEqB a b
  | .bound x ty => match lookupScope x bs with
    | some t => Match.tyEqB t ty
    | none => false
  | .inst n ty => match lookupAssoc n funs with
    | some sch => Match.tyEqB ty (instTy (instStore ty) [] sch).2.2
    | none => false
  | .projOk tup idx ty => match tup with
    | .tuple tys => match tys[idx]? with
      | some t => Match.tyEqB t ty
      | none => false
    | _ => false
  | .fld _ _ _ => false
  | .bad => false

/-- the CERTIFICATE: every obligation of the tree is discharged by the queue (`rel l r`: the two types are
identical or `TypeEqual(l, r)` was queued) -/
def justB (cs : List Constraint) (bs : List (Nat × Ty)) (funs : List (String × Ty)) (os : List Obl) : Bool :=
  os.all (checkB (fun a b => Match.tyEqB a b || cs.any (isEqC a b)) bs funs)

mutual
def binders : TExpr → List (Nat × Ty)
  | .tuple items _ => bindersL items
  | .array items _ => bindersL items
  | .constr _ args _ => bindersL args
  | .closure ps body _ => ps ++ binders body
  | .letE p _ v => binders v ++ pbinders p
  | .block es _ => bindersL es
  | .ite c t e _ => binders c ++ binders t ++ binders e
  | .while c b => binders c ++ binders b
  | .call f args _ => binders f ++ bindersL args
  | .un _ e _ => binders e
  | .bin _ l r _ => binders l ++ binders r
  | .proj e _ _ => binders e
  | .field e _ _ => binders e
  | .matchE s arms _ => binders s ++ bindersA arms
  | _ => []
def bindersL : List TExpr → List (Nat × Ty)
  | [] => []
  | t :: ts => binders t ++ bindersL ts
def bindersA : List TArm → List (Nat × Ty)
  | [] => []
  | .mk p b :: arms => pbinders p ++ binders b ++ bindersA arms
def pbinders : TPat → List (Nat × Ty)
  | .var x ty => [(x, ty)]
  | .tuple ps _ => pbindersL ps
  | .constr ps _ => pbindersL ps
  | _ => []
def pbindersL : List TPat → List (Nat × Ty)
  | [] => []
  | p :: ps => pbinders p ++ pbindersL ps
end

end Goml.Infer
