import GomlVerif.Model.Grammar
/-! Model of `crates/parser/src/input.rs`: the parser's cursor over ALL tokens (trivia included) and the operations
the grammar functions see through `Parser::peek/nth/eof/advance`. State = the kinds of `tokens[cursor..]`. -/
namespace Goml.InputView
open Goml.Lex (isTrivia)
open Goml.Gen.Gram

/-- `eat_trivia`: `while self.at_trivia() { cursor += 1 }` -/
def eatTrivia : List Nat → List Nat
  | [] => []
  | k :: ks => if isTrivia k then eatTrivia ks else k :: ks

/-- `peek`: `eat_trivia(); peek_raw_kind()` — the answer and the new suffix -/
def peek (rest : List Nat) : Nat × List Nat := ((eatTrivia rest).headD T_Eof, eatTrivia rest)

/-- `eof`: `eat_trivia(); cursor == tokens.len()` -/
def eof (rest : List Nat) : Bool × List Nat := ((eatTrivia rest).isEmpty, eatTrivia rest)

/-- `skip`: `if !self.eof() { cursor += 1 }` -/
def skip (rest : List Nat) : List Nat := (eatTrivia rest).tail

/-- `nth(n)`: the loop over `tokens[cursor..]` that counts non-trivia tokens (it does not move the cursor) -/
def nth : List Nat → Nat → Nat
  | [], _ => T_Eof
  | k :: ks, n => if isTrivia k then nth ks n else match n with
      | 0 => k
      | n + 1 => nth ks n

/-- the non-trivia view the grammar functions (and `Model/Grammar.lean`) work on -/
def view (rest : List Nat) : List Nat := rest.filter fun k => !isTrivia k

end Goml.InputView
