import GomlVerif.Gen.Tokens
/-! Model of `crates/lexer/src/lib.rs`.

* `longestMatch rules s` — what the logos automaton generated from the `#[token]` /
  `#[regex]` attributes does at one position: among all rules matching a non-empty
  prefix of `s` the longest wins, at equal length the higher priority
  (`#[token]`: 2·bytes, `#[regex]`: explicit `priority = n` or `Mir::priority`); a rule
  with a callback then runs it (`lex_multiline_str` is the only one).
* `lexMultilineStr` — the hand-written scanner, transcribed loop by loop over the
  UTF-8 *bytes* of the remainder; it returns a byte count that `Lexer::bump` adds to
  the token end. `bump` asserts the new end is a char boundary; the model keeps that
  as the outcome `badBump` (theorem `multiline_boundaries`: it never happens).
* `lexAll errLen s` — the token loop of `lexer::lex`. Where no rule matches logos
  yields an error whose end is decided by its generated automaton; that length is the
  parameter `errLen input pos` (in scalars). If it were `0` the loop would not advance;
  the model then stops (`stuck`), so every theorem needs `0 < errLen`.

Text is `List Char` (Unicode scalars); byte offsets are derived with `utf8Len`. -/
namespace Goml.Lex

structure Tok where
  kind : Nat
  text : List Char
deriving Repr, DecidableEq, Inhabited

/-! ### UTF-8 (arithmetic form; the driver cross-checks it against `String.toUTF8`) -/

def utf8Len (c : Char) : Nat :=
  let v := c.toNat
  if v < 0x80 then 1 else if v < 0x800 then 2 else if v < 0x10000 then 3 else 4

def utf8 (c : Char) : List Nat :=
  let v := c.toNat
  if v < 0x80 then [v]
  else if v < 0x800 then [192 + v / 64, 128 + v % 64]
  else if v < 0x10000 then [224 + v / 4096, 128 + v / 64 % 64, 128 + v % 64]
  else [240 + v / 262144, 128 + v / 4096 % 64, 128 + v / 64 % 64, 128 + v % 64]

def utf8s : List Char → List Nat
  | [] => []
  | c :: cs => utf8 c ++ utf8s cs

def byteLen : List Char → Nat
  | [] => 0
  | c :: cs => utf8Len c + byteLen cs

/-- number of scalars whose encoding occupies exactly the first `n` bytes of `cs`;
`none` when byte offset `n` is inside a scalar or past the end (`is_char_boundary` fails) -/
def charsOfBytes : List Char → Nat → Option Nat
  | _, 0 => some 0
  | [], _ + 1 => none
  | c :: cs, n + 1 =>
      if utf8Len c ≤ n + 1 then (charsOfBytes cs (n + 1 - utf8Len c)).map (· + 1) else none

/-! ### `lex_multiline_str` -/

/-- `while i < bytes.len() && p(bytes[i]) { i += 1 }` -/
def scanWhile (p : Nat → Bool) (b : List Nat) (i : Nat) : Nat :=
  if h : i < b.length then
    if p b[i] then scanWhile p b (i + 1) else i
  else i
termination_by b.length - i

theorem le_scanWhile (p : Nat → Bool) (b : List Nat) (i : Nat) : i ≤ scanWhile p b i := by
  fun_induction scanWhile p b i <;> omega

/-- the `loop { … }` of `lex_multiline_str`; `consumed` and `lines` are its two mutable
variables, the result is the final `consumed` (or `None`) -/
def mlLoop (b : List Nat) (consumed lines : Nat) : Option Nat :=
  let lineStart := consumed
  if lineStart ≥ b.length then
    -- `break`; then `if lines < 2 { return None }`
    if lines < 2 then none else some consumed
  else
    let idx := scanWhile (fun c => c == 32 || c == 9) b lineStart
    if idx + 1 ≥ b.length || b.getD idx 0 != 92 || b.getD (idx + 1) 0 != 92 then
      -- previous line was the last one; trim the newline that brought us here
      if lines ≥ 2 then some (lineStart - 1) else none
    else
      let idx2 := scanWhile (fun c => c != 10) b (idx + 2)
      let lines := lines + 1
      if idx2 ≥ b.length then
        if lines < 2 then none else some idx2
      else
        mlLoop b (idx2 + 1) lines
termination_by b.length - consumed
decreasing_by
  have h1 := le_scanWhile (fun c => c == 32 || c == 9) b consumed
  have h2 := le_scanWhile (fun c => c != 10) b (scanWhile (fun c => c == 32 || c == 9) b consumed + 2)
  omega

/-- `lex_multiline_str` on `lex.remainder().as_bytes()`: `Some(n)` means `lex.bump(n)` -/
def lexMultilineStr (b : List Nat) : Option Nat :=
  let consumed := scanWhile (fun c => c != 10) b 0
  if consumed ≥ b.length then none
  else mlLoop b (consumed + 1) 1

/-! ### one token -/

structure Rules where
  literals : List (Nat × List Char)
  regexes : List RegexRule
  errorKind : Nat

structure Cand where
  kind : Nat
  len : Nat
  prio : Nat
  callback : Bool
deriving Repr, Inhabited

def isPrefix : List Char → List Char → Bool
  | [], _ => true
  | _ :: _, [] => false
  | a :: as, b :: bs => a == b && isPrefix as bs

def litCands (s : List Char) : List (Nat × List Char) → List Cand
  | [] => []
  | (k, lit) :: rest =>
      if lit ≠ [] ∧ isPrefix lit s then
        { kind := k, len := lit.length, prio := 2 * byteLen lit, callback := false } :: litCands s rest
      else litCands s rest

def reCands (s : List Char) : List RegexRule → List Cand
  | [] => []
  | r :: rest =>
      match r.re.longest s with
      | some (n + 1) =>
          { kind := r.kind, len := n + 1, prio := r.prio.getD r.re.priority,
            callback := r.callback.isSome } :: reCands s rest
      | _ => reCands s rest

/-- longer wins; at equal length the higher priority; otherwise the earlier rule stays -/
def Cand.beats (a b : Cand) : Bool := a.len > b.len || (a.len == b.len && a.prio > b.prio)

def pickBest : Option Cand → List Cand → Option Cand
  | best, [] => best
  | none, c :: cs => pickBest (some c) cs
  | some b, c :: cs => pickBest (some (if c.beats b then c else b)) cs

inductive Step where
  | tok (kind len : Nat)      -- a token of `len` scalars
  | noMatch                   -- logos yields `Err(())`, `Lexer::next` maps it to `TokenKind::Error`
  | badBump (bytes : Nat)     -- `Lexer::bump` would panic ("Invalid Lexer bump")
deriving Repr, DecidableEq

def longestMatch (rules : Rules) (s : List Char) : Step :=
  match pickBest none (litCands s rules.literals ++ reCands s rules.regexes) with
  | none => .noMatch
  | some c =>
      if c.callback then
        let rest := s.drop c.len
        match lexMultilineStr (utf8s rest) with
        | none => .noMatch
        | some nb =>
            match charsOfBytes rest nb with
            | some k => .tok c.kind (c.len + k)
            | none => .badBump nb
      else .tok c.kind c.len

/-! ### the token loop -/

inductive LexResult where
  | ok (toks : List Tok)
  | stuck (toks : List Tok) (pos : Nat)       -- an error token of length 0: no progress
  | panic (toks : List Tok) (pos : Nat)       -- invalid bump
deriving Repr, DecidableEq

def LexResult.cons (t : Tok) : LexResult → LexResult
  | .ok ts => .ok (t :: ts)
  | .stuck ts p => .stuck (t :: ts) p
  | .panic ts p => .panic (t :: ts) p

/-- `fuel` bounds the number of tokens; `rest.length + 1` is always enough -/
def lexLoop (rules : Rules) (errLen : Nat → Nat) : Nat → Nat → List Char → LexResult
  | _, _, [] => .ok []
  | 0, pos, _ :: _ => .stuck [] pos
  | fuel + 1, pos, rest@(_ :: _) =>
      match longestMatch rules rest with
      | .tok k n =>
          if n = 0 then .stuck [] pos
          else (lexLoop rules errLen fuel (pos + n) (rest.drop n)).cons ⟨k, rest.take n⟩
      | .noMatch =>
          let n := errLen pos
          if n = 0 then .stuck [] pos
          else (lexLoop rules errLen fuel (pos + n) (rest.drop n)).cons ⟨rules.errorKind, rest.take n⟩
      | .badBump _ => .panic [] pos

/-- `lexer::lex input`: the loop starts at offset `Gen.Tokens.lexStartOffset = 0` of the text it is *given*
and consumes all of it — the lexer never drops, skips or rewrites a prefix/suffix of the caller's text (no BOM
stripping, no shebang skipping, no newline normalisation). The extractor asserts that `Lexer::new` passes
`input` itself to logos and that spans are reported unshifted; `lex_tiles`/`lex_ranges_tile` are therefore
statements about the caller's text and ranges `ranges 0 ts` are offsets into it. -/
def lexAll (rules : Rules) (errLen : List Char → Nat → Nat) (s : List Char) : LexResult :=
  lexLoop rules (errLen s) (s.length + 1) Goml.Gen.Tokens.lexStartOffset s

/-- the rules of the real lexer (regenerated from `lexer/src/lib.rs`) -/
def genRules : Rules where
  literals := Goml.Gen.Tokens.literals.map fun (k, l) => (k, l.toList)
  regexes := Goml.Gen.Tokens.regexes
  errorKind := Goml.Gen.Tokens.errorKind

def isTrivia (k : Nat) : Bool := Goml.Gen.Tokens.triviaKinds.contains k

/-- byte ranges of consecutive tokens starting at byte offset `off` -/
def ranges : Nat → List Tok → List (Nat × Nat)
  | _, [] => []
  | off, t :: ts => (off, off + byteLen t.text) :: ranges (off + byteLen t.text) ts

/-- consecutive ranges: each starts where the previous ended, is non-empty, the last ends at `b` -/
def Tiles : Nat → List (Nat × Nat) → Nat → Prop
  | a, [], b => a = b
  | a, (x, y) :: rs, b => x = a ∧ x < y ∧ Tiles y rs b

end Goml.Lex
