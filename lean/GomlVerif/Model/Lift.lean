import GomlVerif.Model.Syntax
import GomlVerif.Gen.LiftConsts
/-
Model of `crates/compiler/src/lift.rs` (lambda lifting, Mono → Lift) over the unified
expression language.  Mirrors what the Rust does now:

* `Scope` is a stack of insertion-ordered layers (`Scope`/`ScopeEntry`, lift.rs:316-355);
* `transformExpr` (lift.rs:424-695) threads the pass state (`State`: struct counter, list of
  new functions, closure types, context-name stack, and the parts of `GlobalLiftEnv` the pass
  reads or writes) exactly in the Rust's traversal order and returns, beside the lifted
  expression, the type `LiftExpr::get_ty()` would report for it (the dump does not carry the
  type stored on `if`/`let`/`while`/`go`/literal nodes; the harness checks on every real Mono
  tree that it is recoverable from the children, see `harness/src/c08.rs::types_recoverable`);
* `finishClosure` is the second half of `transform_closure` (lift.rs:750-853): captures by
  `collectCaptured` in first-occurrence order, env struct `closure_env_<ctx>_<n>`, fields
  `<sanitised name>_<index>`, apply function `inherent#S#S#apply` with the env as first
  parameter and one `let x = env.<i>` per captured variable around the lifted body;
* `liftFile` is `lambda_lift` (lift.rs:357-422).

Import-free (compiled into `gomlmodel`).
-/
namespace Goml.Lift
open Goml

/-! ## names -/

/-- `str.split(sep)` on characters -/
def splitOnChar (sep : Char) : List Char → List (List Char)
  | [] => [[]]
  | c :: cs =>
    match splitOnChar sep cs with
    | [] => [[]]   -- unreachable: the result is never empty
    | w :: ws => if c == sep then [] :: w :: ws else (c :: w) :: ws

/-- `sanitize_env_name` (lift.rs:953-971) -/
def sanitizeEnvName (name : String) : Option String :=
  let primary := name.toList.takeWhile (· != '/')
  let mapped := primary.map (fun ch => if ch.isAlphanum then ch else '_')
  let parts := (splitOnChar '_' mapped).filter (fun p => !p.isEmpty)
  let joined := "_".intercalate (parts.map String.ofList)
  if joined.isEmpty then none
  else match joined.toList with
    | c :: _ => if c.isDigit then some ("_" ++ joined) else some joined
    | [] => none

/-- `make_field_name` (lift.rs:973-976) -/
def makeFieldName (name : String) (index : Nat) : String :=
  (sanitizeEnvName name).getD Consts.fieldFallback ++ "_" ++ toString index

/-- `inherent_method_fn_name(&TStruct{name}, "apply")` (names.rs:23-34) -/
def applyFnName (structName : String) : String :=
  Consts.inherentPrefix ++ Consts.inherentSep ++ structName ++ Consts.inherentSep ++ structName
    ++ Consts.inherentSep ++ Consts.applyMethod

/-- `State::fresh_struct_name` without the counter update -/
def structNameFor (hint : Option String) (n : Nat) : String :=
  match hint with
  | some h => Consts.closureEnvPrefix ++ h ++ "_" ++ toString n
  | none => Consts.closureEnvPrefix ++ toString n

/-! ## scope -/

structure ScopeEntry where
  ty : Ty
  closureStruct : Option String
  deriving Inhabited

/-- one `IndexMap` layer: insertion order, `insert` on an existing key overwrites in place -/
abbrev Layer := List (String × ScopeEntry)

def layerInsert (l : Layer) (k : String) (e : ScopeEntry) : Layer :=
  if l.any (·.1 == k) then l.map (fun p => if p.1 == k then (k, e) else p) else l ++ [(k, e)]

def layerGet (l : Layer) (k : String) : Option ScopeEntry :=
  match l.find? (·.1 == k) with
  | some p => some p.2
  | none => none

/-- innermost layer first -/
structure Scope where
  layers : List Layer
  deriving Inhabited

def Scope.new : Scope := ⟨[[]]⟩
def Scope.pushLayer (s : Scope) : Scope := ⟨[] :: s.layers⟩
def Scope.popLayer (s : Scope) : Scope := ⟨s.layers.tail⟩
def Scope.insert (s : Scope) (k : String) (e : ScopeEntry) : Scope :=
  match s.layers with
  | [] => s
  | l :: rest => ⟨layerInsert l k e :: rest⟩
def Scope.get (s : Scope) (k : String) : Option ScopeEntry :=
  s.layers.findSome? (layerGet · k)
def Scope.has (s : Scope) (k : String) : Bool := (s.get k).isSome

/-! ## pass state -/

/-- `IndexMap::insert`: overwrite in place or append -/
def assocInsert {β : Type} (m : List (String × β)) (k : String) (v : β) : List (String × β) :=
  if m.any (·.1 == k) then m.map (fun p => if p.1 == k then (k, v) else p) else m ++ [(k, v)]

def assocGet {β : Type} (m : List (String × β)) (k : String) : Option β :=
  match m.find? (·.1 == k) with
  | some p => some p.2
  | none => none

structure State where
  nextId : Nat := 0
  /-- next number of the pipeline-wide `Gensym` -/
  gensym : Nat := 0
  /-- `new_functions`, in push order -/
  newFns : List Fn := []
  /-- `closure_types`: env struct ↦ apply function -/
  closureTypes : List (String × String) := []
  /-- `context_stack`, top first -/
  ctx : List String := []
  /-- `liftenv.lifted_structs` -/
  liftedStructs : List StructDef := []
  /-- what `monoenv.get_struct`/`struct_def_mut` see (`mono_structs` shadowing `genv`), mutable -/
  structs : List StructDef := []
  /-- what `monoenv.get_enum` sees (non-generic) -/
  enums : List EnumDef := []
  /-- `monoenv.mono_funcs` -/
  monoFuncs : List (String × Ty) := []
  /-- `liftenv.lifted_funcs` -/
  liftedFuncs : List (String × Ty) := []
  deriving Inhabited

def State.closureStructForTy (st : State) : Ty → Option String
  | .struct n => if st.closureTypes.any (·.1 == n) then some n else none
  | _ => none

mutual
/-- `State::ty_contains_closure` (lift.rs:281-295) -/
def tyContainsClosure (cts : List (String × String)) : Ty → Bool
  | .struct n => cts.any (·.1 == n)
  | .tuple ts => tyListContainsClosure cts ts
  | .array _ e => tyContainsClosure cts e
  | .func ps r => tyListContainsClosure cts ps || tyContainsClosure cts r
  | .app t args => tyContainsClosure cts t || tyListContainsClosure cts args
  | _ => false
def tyListContainsClosure (cts : List (String × String)) : List Ty → Bool
  | [] => false
  | t :: ts => tyContainsClosure cts t || tyListContainsClosure cts ts
end

def State.applyFnForStruct (st : State) (n : String) : Option String := assocGet st.closureTypes n

def State.getFunc (st : State) (n : String) : Option Ty :=
  match assocGet st.liftedFuncs n with
  | some t => some t
  | none => assocGet st.monoFuncs n

def State.insertFunc (st : State) (n : String) (t : Ty) : State :=
  { st with liftedFuncs := assocInsert st.liftedFuncs n t }

def State.getStruct (st : State) (n : String) : Option StructDef :=
  match st.liftedStructs.find? (·.name == n) with
  | some d => some d
  | none => st.structs.find? (·.name == n)

def setField (d : StructDef) (i : Nat) (t : Ty) : StructDef :=
  match d.fields[i]? with
  | some (f, _) => { d with fields := d.fields.set i (f, t) }
  | none => d     -- the Rust would panic on the index; never reached on well-typed Mono

/-- the loop of lift.rs:465-474: overwrite the declared type of every struct field that receives
    a closure environment -/
def updateFields (d : StructDef) : Nat → List (Option String) → StructDef
  | _, [] => d
  | i, none :: rest => updateFields d (i + 1) rest
  | i, some sn :: rest => updateFields (setField d i (.struct sn)) (i + 1) rest

def updateFirst (n : String) (cfs : List (Option String)) : List StructDef → List StructDef
  | [] => []
  | d :: ds => if d.name == n then updateFields d 0 cfs :: ds else d :: updateFirst n cfs ds

def State.updateStruct (st : State) (n : String) (cfs : List (Option String)) : State :=
  if st.liftedStructs.any (·.name == n) then
    { st with liftedStructs := st.liftedStructs.map (fun d => if d.name == n then updateFields d 0 cfs else d) }
  else
    -- only the first definition of that name is visible to `get_mut`
    { st with structs := updateFirst n cfs st.structs }

def State.enumFieldTy (st : State) (tyName variant : String) (i : Nat) : Option Ty :=
  match st.enums.find? (·.name == tyName) with
  | some d =>
    match d.variants.find? (·.1 == variant) with
    | some (_, fs) => fs[i]?
    | none => none
  | none => none

def State.structFieldTy (st : State) (tyName : String) (i : Nat) : Option Ty :=
  match st.getStruct tyName with
  | some d => match d.fields[i]? with
    | some (_, t) => some t
    | none => none
  | none => none

mutual
/-- structural equality of types (`Ty: PartialEq`); the derived `BEq Ty` is not reducible by the
    kernel, and the non-vacuity examples evaluate the model there -/
def tyBeq : Ty → Ty → Bool
  | .unit, .unit => true
  | .bool, .bool => true
  | .int b s, .int b' s' => b == b' && s == s'
  | .float b, .float b' => b == b'
  | .string, .string => true
  | .tuple ts, .tuple ts' => tyListBeq ts ts'
  | .enum n, .enum n' => n == n'
  | .struct n, .struct n' => n == n'
  | .dyn n, .dyn n' => n == n'
  | .app t args, .app t' args' => tyBeq t t' && tyListBeq args args'
  | .array l e, .array l' e' => l == l' && tyBeq e e'
  | .vec e, .vec e' => tyBeq e e'
  | .ref e, .ref e' => tyBeq e e'
  | .param n, .param n' => n == n'
  | .func ps r, .func ps' r' => tyListBeq ps ps' && tyBeq r r'
  | .tvar n, .tvar n' => n == n'
  | _, _ => false
def tyListBeq : List Ty → List Ty → Bool
  | [], [] => true
  | t :: ts, t' :: ts' => tyBeq t t' && tyListBeq ts ts'
  | _, _ => false
end

def primTy : Prim → Ty
  | .unit => .unit
  | .bool _ => .bool
  | .int b s _ => .int b s
  | .float b _ => .float b
  | .str _ => .string

/-! ## captured variables -/

mutual
/-- `collect_captured` (lift.rs:855-951) on a lifted body: names in first-occurrence order with
    the scope entry's type; `bound` grows under `let`. -/
def collectCaptured (sc : Scope) (bound : List String) (acc : List (String × Ty)) : Expr → List (String × Ty)
  | .var x _ =>
    if bound.contains x then acc
    else match sc.get x with
      | some entry => if acc.any (·.1 == x) then acc else acc ++ [(x, entry.ty)]
      | none => acc
  | .prim _ => acc
  | .tag _ _ => acc
  | .constr _ _ args => collectCapturedList sc bound acc args
  | .tuple _ items => collectCapturedList sc bound acc items
  | .array _ items => collectCapturedList sc bound acc items
  | .closure _ ps body => collectCaptured sc (bound ++ ps.map (·.1)) acc body   -- not a Lift node (never reached)
  | .letE x v body => collectCaptured sc (bound ++ [x]) (collectCaptured sc bound acc v) body
  | .matchE _ scrut arms dflt =>
    let acc := collectCapturedArms sc bound (collectCaptured sc bound acc scrut) arms
    match dflt with
    | some d => collectCaptured sc bound acc d
    | none => acc
  | .ite c t e => collectCaptured sc bound (collectCaptured sc bound (collectCaptured sc bound acc c) t) e
  | .while c b => collectCaptured sc bound (collectCaptured sc bound acc c) b
  | .go e => collectCaptured sc bound acc e
  | .cget _ _ _ e => collectCaptured sc bound acc e
  | .un _ _ e => collectCaptured sc bound acc e
  | .bin _ _ l r => collectCaptured sc bound (collectCaptured sc bound acc l) r
  | .call _ f args => collectCapturedList sc bound (collectCaptured sc bound acc f) args
  | .toDyn _ _ _ e => collectCaptured sc bound acc e
  | .dynCall _ _ _ recv args => collectCapturedList sc bound (collectCaptured sc bound acc recv) args
  | .traitCall _ _ _ recv args => collectCapturedList sc bound (collectCaptured sc bound acc recv) args  -- not a Lift node
  | .proj _ _ e => collectCaptured sc bound acc e
def collectCapturedList (sc : Scope) (bound : List String) (acc : List (String × Ty)) : List Expr → List (String × Ty)
  | [] => acc
  | e :: es => collectCapturedList sc bound (collectCaptured sc bound acc e) es
def collectCapturedArms (sc : Scope) (bound : List String) (acc : List (String × Ty)) : List Arm → List (String × Ty)
  | [] => acc
  | .mk lhs body :: rest =>
    collectCapturedArms sc bound (collectCaptured sc bound (collectCaptured sc bound acc lhs) body) rest
end

/-! ## transform_closure, second half -/

/-- `let x_i = env.<i>` for every captured variable around the lifted body (`.rev()` loop,
    lift.rs:789-808): the first captured variable is the outermost binding -/
def rebind (structName envParam : String) (envTy : Ty) (body : Expr) : Nat → List (String × Ty) → Expr
  | _, [] => body
  | i, (x, t) :: rest =>
    .letE x (.cget (.struct structName) i t (.var envParam envTy)) (rebind structName envParam envTy body (i + 1) rest)

def fieldsOf : Nat → List (String × Ty) → List (String × Ty)
  | _, [] => []
  | i, (x, t) :: rest => (makeFieldName x i, t) :: fieldsOf (i + 1) rest

def funcParts : Ty → List Ty × Ty
  | .func ps r => (ps, r)
  | other => ([], other)    -- the Rust panics ("expected function type for closure")

/-- `zip` of closure parameters with the parameter types of the closure's function type -/
def loweredParams : List (String × Ty) → List Ty → List (String × Ty)
  | (x, _) :: ps, t :: ts => (x, t) :: loweredParams ps ts
  | _, _ => []

/-- the hint used for the struct name and pushed as context while the body is transformed -/
def closureHint (st : State) (nameHint : Option String) : Option String :=
  match nameHint.bind sanitizeEnvName with
  | some h => some h
  | none => match st.ctx with
    | c :: _ => sanitizeEnvName c
    | [] => none

/-- everything `transform_closure` does after the body has been transformed -/
def finishClosure (st : State) (sc : Scope) (params : List (String × Ty)) (ty : Ty)
    (hint : Option String) (body : Expr) : Expr × Ty × State :=
  let (paramTys, retTy) := funcParts ty
  let lowered := loweredParams params paramTys
  let captured := collectCaptured sc (lowered.map (·.1)) [] body
  let structName := structNameFor hint st.nextId
  let envTy := Ty.struct structName
  let applyName := applyFnName structName
  let envParam := Consts.envParamPrefix ++ toString st.gensym
  let fnParams := (envParam, envTy) :: lowered
  let fnBody := rebind structName envParam envTy body 0 captured
  let applyTy := Ty.func (fnParams.map (·.2)) retTy
  let st : State :=
    { st with
      nextId := st.nextId + 1
      gensym := st.gensym + 1
      liftedStructs :=
        -- `IndexMap::insert` keyed by name
        (if st.liftedStructs.any (·.name == structName) then
           st.liftedStructs.map (fun d => if d.name == structName then ⟨structName, [], fieldsOf 0 captured⟩ else d)
         else st.liftedStructs ++ [⟨structName, [], fieldsOf 0 captured⟩])
      closureTypes := assocInsert st.closureTypes structName applyName
      newFns := st.newFns ++ [{ name := applyName, generics := [], params := fnParams, ret := retTy, body := fnBody }]
      liftedFuncs := assocInsert st.liftedFuncs applyName applyTy }
  (.constr (.struct structName) envTy (captured.map (fun p => .var p.1 p.2)), envTy, st)

/-- scope with the closure parameters in a fresh layer (lift.rs:723-734) -/
def closureScope (st : State) (sc : Scope) (params : List (String × Ty)) (ty : Ty) : Scope :=
  (loweredParams params (funcParts ty).1).foldl
    (fun s p => s.insert p.1 { ty := p.2, closureStruct := st.closureStructForTy p.2 }) sc.pushLayer

/-! ## transform_expr -/

/-- the type a Mono node reports (`MonoExpr::get_ty()`): stored on the node, or — for the node
    kinds whose stored type the dump omits — the type of the child that determines it -/
def monoTy : Expr → Ty
  | .var _ ty => ty
  | .prim p => primTy p
  | .tag _ ty => ty
  | .constr _ ty _ => ty
  | .tuple ty _ => ty
  | .array ty _ => ty
  | .closure ty _ _ => ty
  | .letE _ _ body => monoTy body
  | .matchE ty _ _ _ => ty
  | .ite _ t _ => monoTy t
  | .while _ _ => .unit
  | .go _ => .unit
  | .cget _ _ ty _ => ty
  | .un _ ty _ => ty
  | .bin _ ty _ _ => ty
  | .call ty _ _ => ty
  | .toDyn _ _ ty _ => ty
  | .dynCall _ _ ty _ _ => ty
  | .traitCall _ _ ty _ _ => ty
  | .proj _ ty _ => ty

mutual
/-- `transform_expr` (lift.rs:424-695); the `Ty` is `get_ty()` of the result -/
def transformExpr (st : State) (sc : Scope) : Expr → Expr × Ty × State
  | .var x ty =>
    match sc.get x with
    | some entry =>
      match entry.closureStruct with
      | some sn => (.var x (.struct sn), .struct sn, st)
      | none => (.var x entry.ty, entry.ty, st)
    | none =>
      match st.getFunc x with
      | some fty => (.var x fty, fty, st)
      | none => (.var x ty, ty, st)
  | .prim p => (.prim p, primTy p, st)
  | .tag i ty => (.tag i ty, ty, st)     -- not a Mono node
  | .constr c ty args =>
    let (args', tys, st) := transformList st sc args
    let st := match c with
      | .struct tyName => st.updateStruct tyName (tys.map st.closureStructForTy)
      | .enum _ _ _ => st
    (.constr c ty args', ty, st)
  | .tuple _ items =>
    let (items', tys, st) := transformList st sc items
    (.tuple (.tuple tys) items', .tuple tys, st)
  | .array ty items =>
    let (items', _, st) := transformList st sc items
    (.array ty items', ty, st)
  | .closure ty params body =>
    let hint := closureHint st none
    let sc' := closureScope st sc params ty
    let (body', _, st1) := transformExpr (match hint with | some h => { st with ctx := h :: st.ctx } | none => st) sc' body
    finishClosure { st1 with ctx := st.ctx } sc params ty hint body'
  | .letE x (.closure cty params cbody) body =>
    let hint := closureHint st (some x)
    let sc' := closureScope st sc params cty
    let (cbody', _, st1) := transformExpr (match hint with | some h => { st with ctx := h :: st.ctx } | none => st) sc' cbody
    let (v', vty, st2) := finishClosure { st1 with ctx := st.ctx } sc params cty hint cbody'
    let scB := sc.pushLayer.insert x { ty := vty, closureStruct := st2.closureStructForTy vty }
    let (body', bty, st3) := transformExpr st2 scB body
    (.letE x v' body', bty, st3)
  | .letE x v body =>
    let (v', vty, st1) := transformExpr st sc v
    let scB := sc.pushLayer.insert x { ty := vty, closureStruct := st1.closureStructForTy vty }
    let (body', bty, st2) := transformExpr st1 scB body
    (.letE x v' body', bty, st2)
  | .matchE ty scrut arms dflt =>
    let (scrut', _, st) := transformExpr st sc scrut
    let (arms', st) := transformArms st sc arms
    match dflt with
    | some d =>
      let (d', _, st) := transformExpr st sc d
      (.matchE ty scrut' arms' (some d'), ty, st)
    | none => (.matchE ty scrut' arms' none, ty, st)
  | .ite c t e =>
    let (c', _, st) := transformExpr st sc c
    let (t', _, st) := transformExpr st sc t
    let (e', _, st) := transformExpr st sc e
    -- `EIf.ty` is carried over from Mono, where it is the type of the branches
    (.ite c' t' e', monoTy t, st)
  | .while c b =>
    let (c', _, st) := transformExpr st sc c
    let (b', _, st) := transformExpr st sc b
    (.while c' b', .unit, st)
  | .go e =>
    let (e', _, st) := transformExpr st sc e
    (.go e', .unit, st)
  | .cget c idx ty e =>
    let (e', _, st) := transformExpr st sc e
    let rty := match c with
      | .struct tyName => (st.structFieldTy tyName idx).getD ty
      | .enum tyName variant _ => (st.enumFieldTy tyName variant idx).getD ty
    (.cget c idx rty e', rty, st)
  | .un op ty e =>
    let (e', _, st) := transformExpr st sc e
    (.un op ty e', ty, st)
  | .bin op ty l r =>
    let (l', _, st) := transformExpr st sc l
    let (r', _, st) := transformExpr st sc r
    (.bin op ty l' r', ty, st)
  | .call ty f args =>
    let (f', fty, st) := transformExpr st sc f
    let (args', _, st) := transformList st sc args
    let direct : Expr × Ty × State :=
      let cty := match fty with
        | .func _ r => if tyContainsClosure st.closureTypes r then r else ty
        | _ => ty
      (.call cty f' args', cty, st)
    match f' with
    | .var name _ =>
      match sc.get name with
      | some entry =>
        match (match entry.closureStruct with
               | some sn => some sn
               | none => st.closureStructForTy entry.ty) with
        | some sn =>
          match st.applyFnForStruct sn with
          | some applyFn =>
            (.call ty (.var applyFn entry.ty) (.var name (.struct sn) :: args'), ty, st)
          | none => direct
        | none => direct
      | none => direct
    | _ => direct
  | .toDyn tr forTy ty e =>
    let (e', _, st) := transformExpr st sc e
    (.toDyn tr forTy ty e', ty, st)
  | .dynCall tr m ty recv args =>
    let (recv', _, st) := transformExpr st sc recv
    let (args', _, st) := transformList st sc args
    (.dynCall tr m ty recv' args', ty, st)
  | .traitCall tr m ty recv args =>      -- not a Mono node; treated like a dyn call
    let (recv', _, st) := transformExpr st sc recv
    let (args', _, st) := transformList st sc args
    (.traitCall tr m ty recv' args', ty, st)
  | .proj idx ty e =>
    let (e', ety, st) := transformExpr st sc e
    let pty := match ety with
      | .tuple ts => (ts[idx]?).getD ty
      | _ => ty
    (.proj idx pty e', pty, st)
def transformList (st : State) (sc : Scope) : List Expr → List Expr × List Ty × State
  | [] => ([], [], st)
  | e :: es =>
    let (e', t, st) := transformExpr st sc e
    let (es', ts, st) := transformList st sc es
    (e' :: es', t :: ts, st)
def transformArms (st : State) (sc : Scope) : List Arm → List Arm × State
  | [] => ([], st)
  | .mk lhs body :: rest =>
    let (lhs', _, st) := transformExpr st sc lhs
    let (body', _, st) := transformExpr st sc body
    let (rest', st) := transformArms st sc rest
    (.mk lhs' body' :: rest', st)
end

/-! ## lambda_lift -/

/-- one top-level function (loop body of lift.rs:366-409) -/
def liftFn (st : State) (f : Fn) : Fn × State :=
  let sc := f.params.foldl
    (fun s p => s.insert p.1 { ty := p.2, closureStruct := st.closureStructForTy p.2 }) Scope.new.pushLayer
  let fnCtx := sanitizeEnvName f.name
  let saved := st.ctx
  let (body, bty, st) := transformExpr (match fnCtx with | some c => { st with ctx := c :: st.ctx } | none => st) sc f.body
  let st := { st with ctx := saved }
  let ret := if !tyBeq bty f.ret && tyContainsClosure st.closureTypes bty then bty else f.ret
  let st := st.insertFunc f.name (.func (f.params.map (·.2)) ret)
  ({ name := f.name, generics := f.generics, params := f.params, ret := ret, body := body }, st)

def liftFns (st : State) : List Fn → List Fn × State
  | [] => ([], st)
  | f :: fs =>
    let (f', st) := liftFn st f
    let (fs', st) := liftFns st fs
    (f' :: fs', st)

structure Env where
  gensym : Nat := 0
  funcs : List (String × Ty) := []
  structs : List StructDef := []
  enums : List EnumDef := []
  deriving Inhabited

def initState (env : Env) : State :=
  { gensym := env.gensym, monoFuncs := env.funcs, structs := env.structs, enums := env.enums }

/-- `lambda_lift`: the lifted user functions followed by the apply functions in creation order -/
def liftFile (env : Env) (fns : List Fn) : List Fn × State :=
  let (fs, st) := liftFns (initState env) fns
  (fs ++ st.newFns, st)

/-- the lifted program: functions of `liftFile`; struct declarations are the closure environments
    followed by the user structs after field rewriting; enums and dispatch table unchanged -/
def liftProg (env : Env) (p : Prog) : Prog :=
  let r := liftFile env p.fns
  { p with fns := r.1, structs := r.2.liftedStructs ++ r.2.structs }

end Goml.Lift
