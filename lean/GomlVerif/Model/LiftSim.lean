import GomlVerif.Model.Lift
import GomlVerif.Model.Sem
/-
`DirectFlow`: a decidable structural check of a Mono program against its lifted form.

`simE P P' Γ S T e e'` walks the source expression `e` and the lifted expression `e'` together and
accepts when `e'` is `e` with

* every closure `|ps| body` replaced by the construction of an environment struct
  `S{y₁,…,yₖ}` of variables in scope, such that `P'` has the apply function
  `inherent#S#S#apply(env, ps) = let y₁ = env.0 in … let yₖ = env.(k-1) in body'` and `body'` is
  in turn the accepted lifting of `body` with exactly `ps`, `y₁…yₖ` and `env` in scope (so no
  variable of the defining scope that the body uses is missing from the environment);
* every call `x(args)` either kept, or rewritten into `inherent#S#S#apply(x, args')` where the
  validator itself has established that `x` can only hold an environment struct of type `S`:
  `x` was bound by `let` to a closure, to another such variable, to a tuple component or to the
  result of a function whose body provably returns such a value, or `x` was captured from a
  scope where this was known — the flows `lift.rs` rewrites (tracked as a `Shape` per variable);
* everything else unchanged up to type annotations (which `Sem` never reads).

`S`/`T` are the names bound in the source/target environment.  `Props/C08.lean` proves that an
accepted pair is a simulation under `Sem` (`lift_preserves_partial`).  Import-free.
-/
namespace Goml.Lift
open Goml

/-- what is statically known about the value a lifted expression evaluates to -/
inductive Shape where
  | any
  | clo (n : String)
  | tup (ss : List Shape)
  deriving Inhabited, Repr

mutual
/-- `shapeLe a b`: every value of shape `a` has shape `b` -/
def shapeLe : Shape → Shape → Bool
  | _, .any => true
  | .clo n, .clo m => n == m
  | .tup ss, .tup ts => shapeLeList ss ts
  | _, _ => false
def shapeLeList : List Shape → List Shape → Bool
  | [], [] => true
  | a :: as, b :: bs => shapeLe a b && shapeLeList as bs
  | _, _ => false
end

abbrev SEnv := List (String × Shape)

def SEnv.get (Γ : SEnv) (x : String) : Shape :=
  match Γ.find? (·.1 == x) with
  | some p => p.2
  | none => .any

def Shape.proj : Shape → Nat → Shape
  | .tup ss, i => ss.getD i .any
  | _, _ => .any

def Shape.isAny : Shape → Bool
  | .any => true
  | _ => false

mutual
/-- the shape a declared (lifted) type promises; only closure environments (struct types that
    have an apply function in the lifted program) and tuples of them carry a promise -/
def claim (P' : Prog) : Ty → Shape
  | .struct n => if (P'.findFn (applyFnName n)).isSome then .clo n else .any
  | .tuple ts =>
    let ss := claimList P' ts
    if ss.all Shape.isAny then .any else .tup ss
  | _ => .any
def claimList (P' : Prog) : List Ty → List Shape
  | [] => []
  | t :: ts => claim P' t :: claimList P' ts
end

/-- what the declared type of field `i` of struct `n` in the lifted program promises -/
def fieldShape (P' : Prog) (n : String) (i : Nat) : Shape :=
  match P'.structs.find? (·.name == n) with
  | some d =>
    match d.fields[i]? with
    | some (_, t) => claim P' t
    | none => .any
  | none => .any

/-- the arguments of a struct construction keep the promises of the declared field types -/
def fieldsOk (P' : Prog) (n : String) : Nat → List Shape → Bool
  | _, [] => true
  | i, s :: ss => shapeLe s (fieldShape P' n i) && fieldsOk P' n (i + 1) ss

/-- a field of a value known to be a struct `n` has the shape its declared type promises -/
def cgetShape (P' : Prog) (c : Ctor) (i : Nat) (s : Shape) : Shape :=
  match c, s with
  | .struct n, .clo m => if n == m then fieldShape P' n i else .any
  | _, _ => .any

/-- a name that is not a local variable denotes the same thing in both programs: a function of
    the source program (its lifted counterpart is checked by `progOk`), or a builtin/extern in both -/
def globalOk (P P' : Prog) (x : String) : Bool :=
  (P.findFn x).isSome || (P'.findFn x).isNone

/-- the promise carried by the declared return type of a called global function -/
def callShape (P P' : Prog) (T : List String) (f' : Expr) : Shape :=
  match f' with
  | .var g _ =>
    if T.contains g then .any else
      match P.findFn g, P'.findFn g with
      | some _, some fn' => claim P' fn'.ret
      | _, _ => .any
  | _ => .any

def primEq : Prim → Prim → Bool
  | .unit, .unit => true
  | .bool a, .bool b => a == b
  | .int b s v, .int b' s' v' => b == b' && s == s' && v == v'
  | .float b r, .float b' r' => b == b' && r == r'
  | .str a, .str b => a == b
  | _, _ => false

/-- what `Sem.armMatches` looks at in an arm head -/
inductive Head where
  | ctor (i : Nat)
  | lit (p : Prim)
  | never

def armHead : Expr → Head
  | .constr (.enum _ _ i) _ _ => .ctor i
  | .tag i _ => .ctor i
  | .prim p => .lit p
  | _ => .never

def headEq : Head → Head → Bool
  | .ctor i, .ctor j => i == j
  | .lit p, .lit q => primEq p q
  | .never, .never => true
  | _, _ => false

def varName? : Expr → Option String
  | .var y _ => some y
  | _ => none

def varNames? : List Expr → Option (List String)
  | [] => some []
  | e :: es =>
    match varName? e, varNames? es with
    | some y, some ys => some (y :: ys)
    | _, _ => none

/-- strip `let y₁ = env.0 in … let yₖ = env.(k-1) in body` -/
def unrebind (n envp : String) : Nat → List String → Expr → Option Expr
  | _, [], e => some e
  | i, y :: ys, .letE y' (.cget (.struct n') i' _ (.var e' _)) rest =>
    if y == y' && n == n' && i == i' && envp == e' then unrebind n envp (i + 1) ys rest else none
  | _, _ :: _, _ => none

/-- the apply function of env struct `n` in `P'`, split into env parameter, parameters, body -/
def applyParts (P' : Prog) (n : String) (ys : List String) : Option (String × List String × Expr) :=
  match P'.findFn (applyFnName n) with
  | some fn =>
    match fn.params.map (·.1) with
    | envp :: ps =>
      match unrebind n envp 0 ys fn.body with
      | some body' => some (envp, ps, body')
      | none => none
    | [] => none
  | none => none

mutual
def simE (P P' : Prog) (Γ : SEnv) (S T : List String) : Expr → Expr → Option Shape
  | .var x _, e' =>
    match e' with
    | .var y _ =>
      if x == y then
        if S.contains x then (if T.contains x then some (Γ.get x) else none)
        else (if !T.contains x && globalOk P P' x then some .any else none)
      else none
    | _ => none
  | .prim p, e' =>
    match e' with
    | .prim q => if primEq p q then some .any else none
    | _ => none
  | .tag i ty, e' =>
    match e' with
    | .tag j ty' => if i == j && Sem.tagTyName ty == Sem.tagTyName ty' then some .any else none
    | _ => none
  | .constr c _ args, e' =>
    match e' with
    | .constr c' _ args' =>
      if decide (c = c') then
        match simList P P' Γ S T args args' with
        | some ss =>
          match c' with
          | .struct n => if fieldsOk P' n 0 ss then some (.clo n) else none
          | .enum _ _ _ => some .any
        | none => none
      else none
    | _ => none
  | .tuple _ items, e' =>
    match e' with
    | .tuple _ items' =>
      match simList P P' Γ S T items items' with
      | some ss => some (.tup ss)
      | none => none
    | _ => none
  | .array _ items, e' =>
    match e' with
    | .array _ items' =>
      match simList P P' Γ S T items items' with
      | some _ => some .any
      | none => none
    | _ => none
  | .closure _ ps body, e' =>
    match e' with
    | .constr (.struct n) _ args' =>
      match varNames? args' with
      | some ys =>
        match applyParts P' n ys with
        | some (envp, ps', body') =>
          if ps' == ps.map (·.1)
              && ys.all (fun y => S.contains y && T.contains y && !ps'.contains y && y != envp)
              && ps'.all (fun p => !S.contains p && p != envp && globalOk P P' p)
              && !S.contains envp && fieldsOk P' n 0 (ys.map Γ.get) then
            match simE P P' (ys.map (fun y => (y, Γ.get y))) (ps' ++ S) (ys ++ ps' ++ [envp]) body body' with
            | some _ => some (.clo n)
            | none => none
          else none
        | none => none
      | none => none
    | _ => none
  | .letE x v b, e' =>
    match e' with
    | .letE x' v' b' =>
      if x == x' then
        match simE P P' Γ S T v v' with
        | some s => simE P P' ((x, s) :: Γ) (x :: S) (x :: T) b b'
        | none => none
      else none
    | _ => none
  | .matchE _ scrut arms dflt, e' =>
    match e' with
    | .matchE _ scrut' arms' dflt' =>
      match simE P P' Γ S T scrut scrut' with
      | some _ =>
        if simArms P P' Γ S T arms arms' && simOpt P P' Γ S T dflt dflt' then some .any else none
      | none => none
    | _ => none
  | .ite c t e, e' =>
    match e' with
    | .ite c' t' e2' =>
      match simE P P' Γ S T c c', simE P P' Γ S T t t', simE P P' Γ S T e e2' with
      | some _, some _, some _ => some .any
      | _, _, _ => none
    | _ => none
  | .while c b, e' =>
    match e' with
    | .while c' b' =>
      match simE P P' Γ S T c c', simE P P' Γ S T b b' with
      | some _, some _ => some .any
      | _, _ => none
    | _ => none
  | .go e, e' =>
    match e' with
    | .go e2' =>
      match simE P P' Γ S T e e2' with
      | some _ => some .any
      | none => none
    | _ => none
  | .cget c i _ e, e' =>
    match e' with
    | .cget c' i' _ e2' =>
      if decide (c = c') && i == i' then
        match simE P P' Γ S T e e2' with
        | some s =>
          some (cgetShape P' c' i s)
        | none => none
      else none
    | _ => none
  | .un op _ e, e' =>
    match e' with
    | .un op' _ e2' =>
      if decide (op = op') then
        match simE P P' Γ S T e e2' with
        | some _ => some .any
        | none => none
      else none
    | _ => none
  | .bin op _ l r, e' =>
    match e' with
    | .bin op' _ l' r' =>
      if decide (op = op') then
        match simE P P' Γ S T l l', simE P P' Γ S T r r' with
        | some _, some _ => some .any
        | _, _ => none
      else none
    | _ => none
  | .call _ f args, e' =>
    match e' with
    | .call _ f' args' =>
      match f, f', args' with
      | .var x _, .var g _, .var x' _ :: rest =>
        if x == g then
          -- an ordinary call of a variable / global function
          match simE P P' Γ S T f f', simList P P' Γ S T args args' with
          | some _, some _ => some (callShape P P' T f')
          | _, _ => none
        else
          -- `x(args)` rewritten into `inherent#n#n#apply(x, args')`
          match Γ.get x with
          | .clo n =>
            if g == applyFnName n && x == x' && S.contains x && T.contains x
                && !S.contains g && !T.contains g then
              match simList P P' Γ S T args rest with
              | some _ => some .any
              | none => none
            else none
          | _ => none
      | _, _, _ =>
        match simE P P' Γ S T f f', simList P P' Γ S T args args' with
        | some _, some _ => some (callShape P P' T f')
        | _, _ => none
    | _ => none
  | .toDyn tr forTy _ e, e' =>
    match e' with
    | .toDyn tr' forTy' _ e2' =>
      if tr == tr' && Sem.tyKey forTy == Sem.tyKey forTy' then
        match simE P P' Γ S T e e2' with
        | some _ => some .any
        | none => none
      else none
    | _ => none
  | .dynCall tr m _ recv args, e' =>
    match e' with
    | .dynCall tr' m' _ recv' args' =>
      if tr == tr' && m == m' then
        match simE P P' Γ S T recv recv', simList P P' Γ S T args args' with
        | some _, some _ => some .any
        | _, _ => none
      else none
    | _ => none
  | .traitCall _ _ _ _ _, _ => none     -- not a Mono node
  | .proj i _ e, e' =>
    match e' with
    | .proj i' _ e2' =>
      if i == i' then
        match simE P P' Γ S T e e2' with
        | some s => some (s.proj i)
        | none => none
      else none
    | _ => none
termination_by structural e _ => e
def simList (P P' : Prog) (Γ : SEnv) (S T : List String) : List Expr → List Expr → Option (List Shape)
  | [], es' => match es' with | [] => some [] | _ :: _ => none
  | e :: es, es' =>
    match es' with
    | e' :: rest' =>
      match simE P P' Γ S T e e', simList P P' Γ S T es rest' with
      | some s, some ss => some (s :: ss)
      | _, _ => none
    | [] => none
termination_by structural es _ => es
def simOpt (P P' : Prog) (Γ : SEnv) (S T : List String) : Option Expr → Option Expr → Bool
  | none, d' => match d' with | none => true | some _ => false
  | some d, d' =>
    match d' with
    | some d' => (simE P P' Γ S T d d').isSome
    | none => false
termination_by structural d _ => d
def simArms (P P' : Prog) (Γ : SEnv) (S T : List String) : List Arm → List Arm → Bool
  | [], as' => match as' with | [] => true | _ :: _ => false
  | .mk lhs body :: rest, as' =>
    match as' with
    | .mk lhs' body' :: rest' =>
      headEq (armHead lhs) (armHead lhs') && (simE P P' Γ S T body body').isSome && simArms P P' Γ S T rest rest'
    | [] => false
termination_by structural as _ => as
end

/-- a source function and its lifted counterpart -/
def fnOk (P P' : Prog) (f f' : Fn) : Bool :=
  let ps := f.params.map (·.1)
  ps == f'.params.map (·.1) && ps.all (globalOk P P') &&
    match simE P P' [] ps ps f.body f'.body with
    | some s => shapeLe s (claim P' f'.ret)
    | none => false

/-- every function of `P` has an accepted counterpart of the same name in `P'`; the dispatch
    table is unchanged and names only functions that denote the same thing on both sides -/
def progOk (P P' : Prog) : Bool :=
  P.fns.all (fun f =>
    match P.findFn f.name, P'.findFn f.name with
    | some f0, some f' => fnOk P P' f0 f'
    | _, _ => false)
  && decide (P.impls = P'.impls)
  && P.impls.all (fun i => globalOk P P' i.2.2.2)
  && globalOk P P' "main"

/-- `DirectFlow`: the program's lifting (as the model of `lift.rs` computes it) is accepted by the
    structural check above — every closure has its environment struct and apply function with all
    the variables it uses, and every call that was rewritten into an apply call goes through a
    variable whose closure type the check itself can establish (let-bound, aliased, captured,
    projected from a tuple, read from a struct field, returned by a function). -/
def DirectFlow (env : Env) (p : Prog) : Bool := progOk p (liftProg env p)

/-- which function failed (for reports) -/
def firstRejected (P P' : Prog) : Option String :=
  match P.fns.find? (fun f =>
    match P.findFn f.name, P'.findFn f.name with
    | some f0, some f' => !fnOk P P' f0 f'
    | _, _ => true) with
  | some f => some f.name
  | none =>
    if decide (P.impls = P'.impls) && P.impls.all (fun i => globalOk P P' i.2.2.2) && globalOk P P' "main" then none
    else some "<impls>"

end Goml.Lift
