/-
C15 — model of the separate-compilation artefact protocol
(`artifact.rs`: InterfaceUnit / CoreUnit / compute_hash / validate_hash / validate;
 `pipeline/separate.rs`: load_interface_from_paths, check_package, build_package, read_core,
 link_cores).  The hash function `H` is a parameter; theorems assume it injective.
-/
namespace Goml.Link

abbrev Hash := Nat
abbrev Pkg := String

def FORMAT_VERSION : Nat := 1
def COMPILER_ABI : Nat := 1

/-- the fields `compute_hash` serialises (`InterfaceHashView`); `content` abstracts
    `exports` + `hir_interface` -/
structure View where
  version : Nat
  abi : Nat
  pkg : Pkg
  content : Nat
  deps : List (Pkg × Hash)
  deriving DecidableEq, Repr, Inhabited

structure Iface where
  view : View
  hash : Hash
  /-- ghost: altered after it was written -/
  tainted : Bool := false
  deriving Repr, Inhabited

structure Core where
  version : Nat
  abi : Nat
  pkg : Pkg
  iface : Iface
  /-- abstracts `core_ir` -/
  body : Nat
  deps : List (Pkg × Hash)
  /-- ghost: the interface views this package was type-checked against -/
  seen : List (Pkg × View)
  tainted : Bool := false
  deriving Repr, Inhabited

structure Src where
  iface : Nat
  body : Nat
  deriving Repr, Inhabited

structure St where
  imports : Pkg → List Pkg
  src : Pkg → Src
  ifaceFile : Pkg → Option Iface
  coreFile : Pkg → Option Core

inductive Err where
  | missingInterface (p : Pkg)
  | badInterface (p : Pkg)
  | missingCore (p : Pkg)
  | invalidCore (p : Pkg)
  | duplicate (p : Pkg)
  | noMain
  | noInputs
  | missingDep (p d : Pkg)
  | stale (p d : Pkg)
  deriving Repr, DecidableEq

section
variable (H : View → Hash)

def validHash (i : Iface) : Bool := i.hash == H i.view

/-- `CoreUnit::validate` -/
def validate (c : Core) : Bool :=
  c.version == FORMAT_VERSION && c.abi == COMPILER_ABI && c.pkg == c.iface.view.pkg
    && validHash H c.iface && c.deps == c.iface.view.deps

/-- `load_interface_from_paths` (exists, declares the package, written by this format version and ABI, hash matches) -/
def loadIface (s : St) (d : Pkg) : Except Err Iface :=
  match s.ifaceFile d with
  | none => .error (.missingInterface d)
  | some u =>
    if u.view.pkg != d then .error (.badInterface d)
    else if u.view.version != FORMAT_VERSION || u.view.abi != COMPILER_ABI then .error (.badInterface d)
    else if !validHash H u then .error (.badInterface d)
    else .ok u

def loadDeps (s : St) : List Pkg → Except Err (List (Pkg × Iface))
  | [] => .ok []
  | d :: ds =>
    match loadIface H s d with
    | .error e => .error e
    | .ok u =>
      match loadDeps s ds with
      | .error e => .error e
      | .ok us => .ok ((d, u) :: us)

/-- `InterfaceUnit::new` -/
def mkIface (p : Pkg) (content : Nat) (loaded : List (Pkg × Iface)) : Iface :=
  let v : View := { version := FORMAT_VERSION, abi := COMPILER_ABI, pkg := p, content := content,
                    deps := loaded.map fun (d, u) => (d, u.hash) }
  { view := v, hash := H v }

def setIface (s : St) (p : Pkg) (i : Iface) : St :=
  { s with ifaceFile := fun q => if q = p then some i else s.ifaceFile q }

def setCore (s : St) (p : Pkg) (c : Core) : St :=
  { s with coreFile := fun q => if q = p then some c else s.coreFile q }

/-- `check_package` + the CLI writing `<p>.interface` -/
def check (s : St) (p : Pkg) : Except Err St :=
  match loadDeps H s (s.imports p) with
  | .error e => .error e
  | .ok loaded => .ok (setIface s p (mkIface H p (s.src p).iface loaded))

/-- `build_package` + the CLI writing `<p>.interface` and `<p>.core` -/
def build (s : St) (p : Pkg) : Except Err St :=
  match loadDeps H s (s.imports p) with
  | .error e => .error e
  | .ok loaded =>
    let i := mkIface H p (s.src p).iface loaded
    let c : Core := { version := FORMAT_VERSION, abi := COMPILER_ABI, pkg := p, iface := i,
                      body := (s.src p).body, deps := i.view.deps,
                      seen := loaded.map fun (d, u) => (d, u.view) }
    .ok (setCore (setIface s p i) p c)

/-- `read_core` for every input of `link` -/
def readCores (s : St) : List Pkg → Except Err (List Core)
  | [] => .ok []
  | p :: ps =>
    match s.coreFile p with
    | none => .error (.missingCore p)
    | some c =>
      if !validate H c then .error (.invalidCore p)
      else match readCores s ps with
        | .error e => .error e
        | .ok cs => .ok (c :: cs)

def findCore (cs : List Core) (p : Pkg) : Option Core := cs.find? (fun c => c.pkg == p)

def checkDeps (cs : List Core) (p : Pkg) : List (Pkg × Hash) → Except Err Unit
  | [] => .ok ()
  | (d, h) :: rest =>
    match findCore cs d with
    | none => .error (.missingDep p d)
    | some cd => if cd.iface.hash != h then .error (.stale p d) else checkDeps cs p rest

def checkAll (cs : List Core) : List Core → Except Err Unit
  | [] => .ok ()
  | c :: rest =>
    match checkDeps cs c.pkg c.deps with
    | .error e => .error e
    | .ok () => checkAll cs rest

/-- `link_cores` checks packages in name order (`checked.sort_by(|a, b| a.0.cmp(b.0))`), so the
    first inconsistency reported does not depend on the order of the inputs -/
def insCore (c : Core) : List Core → List Core
  | [] => [c]
  | d :: ds => if c.pkg < d.pkg then c :: d :: ds else d :: insCore c ds

def sortCores : List Core → List Core
  | [] => []
  | c :: cs => insCore c (sortCores cs)

def dupFree : List Core → List Pkg → Except Err Unit
  | [], _ => .ok ()
  | c :: rest, seen => if seen.contains c.pkg then .error (.duplicate c.pkg) else dupFree rest (c.pkg :: seen)

/-- the acceptance part of `link_cores` (everything before code generation) -/
def linkCores (cs : List Core) : Except Err Unit :=
  if cs.isEmpty then .error .noInputs else
  match dupFree cs [] with
  | .error e => .error e
  | .ok () =>
    if (findCore cs "Main").isNone then .error .noMain
    else checkAll cs (sortCores cs)

def link (s : St) (ps : List Pkg) : Except Err (List Core) :=
  match readCores H s ps with
  | .error e => .error e
  | .ok cs => match linkCores cs with
    | .error e => .error e
    | .ok () => .ok cs

/-! ### edits and single-field corruption -/

inductive Field where
  | version | abi | pkg | content | deps | hash | coreVersion | coreAbi | corePkg | coreDeps | coreBody
  deriving DecidableEq, Repr

/-- a different value in exactly one field -/
structure Corruption where
  field : Field
  nat : Nat := 0
  str : Pkg := ""
  deps : List (Pkg × Hash) := []

def corruptIface (i : Iface) (k : Corruption) : Iface :=
  match k.field with
  | .version => { i with view := { i.view with version := k.nat }, tainted := true }
  | .abi => { i with view := { i.view with abi := k.nat }, tainted := true }
  | .pkg => { i with view := { i.view with pkg := k.str }, tainted := true }
  | .content => { i with view := { i.view with content := k.nat }, tainted := true }
  | .deps => { i with view := { i.view with deps := k.deps }, tainted := true }
  | .hash => { i with hash := k.nat, tainted := true }
  | _ => i

def corruptCore (c : Core) (k : Corruption) : Core :=
  match k.field with
  | .coreVersion => { c with version := k.nat, tainted := true }
  | .coreAbi => { c with abi := k.nat, tainted := true }
  | .corePkg => { c with pkg := k.str, tainted := true }
  | .coreDeps => { c with deps := k.deps, tainted := true }
  | .coreBody => { c with body := k.nat, tainted := true }
  | _ => { c with iface := corruptIface c.iface k, tainted := true }

/-- does the corruption really change the field it names -/
def changesIface (i : Iface) (k : Corruption) : Bool :=
  match k.field with
  | .version => k.nat != i.view.version
  | .abi => k.nat != i.view.abi
  | .pkg => k.str != i.view.pkg
  | .content => k.nat != i.view.content
  | .deps => k.deps != i.view.deps
  | .hash => k.nat != i.hash
  | _ => false

def changesCore (c : Core) (k : Corruption) : Bool :=
  match k.field with
  | .coreVersion => k.nat != c.version
  | .coreAbi => k.nat != c.abi
  | .corePkg => k.str != c.pkg
  | .coreDeps => k.deps != c.deps
  | .coreBody => k.nat != c.body
  | _ => changesIface c.iface k

inductive Op where
  | editBody (p : Pkg) (v : Nat)
  | editIface (p : Pkg) (v : Nat)
  | check (p : Pkg)
  | build (p : Pkg)
  | link (ps : List Pkg)
  | corruptIfaceFile (p : Pkg) (k : Corruption)
  | corruptCoreFile (p : Pkg) (k : Corruption)
  /-- an interface file produced by another format version / ABI, internally consistent -/
  | foreignIface (p : Pkg) (version abi : Nat)

/-- one step; failing operations leave the store unchanged (the CLI writes nothing on error).
    An artefact is corrupted at most once (single-field corruptions). -/
def step (s : St) : Op → St
  | .editBody p v => { s with src := fun q => if q = p then { s.src p with body := v } else s.src q }
  | .editIface p v => { s with src := fun q => if q = p then { s.src p with iface := v } else s.src q }
  | .check p => match check H s p with | .ok s' => s' | .error _ => s
  | .build p => match build H s p with | .ok s' => s' | .error _ => s
  | .link _ => s
  | .corruptIfaceFile p k =>
    match s.ifaceFile p with
    | some i => if i.tainted then s else setIface s p (corruptIface i k)
    | none => s
  | .corruptCoreFile p k =>
    match s.coreFile p with
    | some c => if c.tainted then s else setCore s p (corruptCore c k)
    | none => s
  | .foreignIface p ver abi =>
    let v : View := { version := ver, abi := abi, pkg := p, content := (s.src p).iface, deps := [] }
    setIface s p { view := v, hash := H v }

def run (s : St) (ops : List Op) : St := ops.foldl (step H) s

end

def init (imports : Pkg → List Pkg) : St :=
  { imports := imports, src := fun _ => { iface := 0, body := 0 },
    ifaceFile := fun _ => none, coreFile := fun _ => none }

end Goml.Link
