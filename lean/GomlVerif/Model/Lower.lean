import GomlVerif.Model.SrcSyntax
import GomlVerif.Model.StrLit
/-!
# CST → AST lowering (`crates/ast/src/lower.rs`, accessors of `crates/cst/src/nodes.rs`)

`Cst` is the rowan tree as it is: a node has a kind and children, a token has a kind and its text
(every token, trivia included).  The accessors of `nodes.rs` are three functions: `child` (the first
child NODE whose kind `cast`s to the wanted class — `support::child`), `childrenK` (all of them, in
order — `support::children`) and `tokenK` (the first child TOKEN of a kind — `support::token`).

One Lean function per Rust function.  `lower.rs` threads one mutable `LowerCtx`; here it is the
state `St` of the monad `M` (`locals` = `LowerCtx::locals`, `diags` = the messages pushed, in order).
A Rust `Option` result is the `Option` of `M`: `none` is `return None` / `?`; `opt m` observes it
(`flat_map`, `and_then … match`).  `withLocals xs m` is
`let outer = ctx.locals.len(); ctx.locals.extend(xs); m; ctx.locals.truncate(outer)`.
`constructor_names` never changes after `LowerCtx::new`: it is the parameter `C`.

`St.stuck` is set where the Rust would panic (`expect("paths must contain at least one segment")`);
`St.starved` is set when the fuel of the model ran out (never, with `fuelFor`; see `Props/Lower.lean`).
Recursion is on fuel: every function of the mutual block spends one unit per call.

Not modelled: source ranges of diagnostics and syntax pointers (`astptr`); the decimal-to-binary
conversion of float literals (`str::parse::<f64>`: the harness annotates float tokens with its result).
-/
namespace Goml.Lower
open Goml.Src

/-! ## the tree -/

inductive Cst where
  | node (kind : String) (children : List Cst)
  /-- `fl`: for `Float` / `Float32Lit` / `Float64Lit` tokens what `parse::<f64>` of the digits says:
      `some (debug text, bits)`, `none` = parse error (or not a float token) -/
  | tok (kind : String) (text : String) (fl : Option (String × Nat))
  deriving Repr, Inhabited

def Cst.kind : Cst → String
  | .node k _ => k
  | .tok k _ _ => k

def Cst.isNode : Cst → Bool
  | .node _ _ => true
  | .tok _ _ _ => false

def Cst.kids : Cst → List Cst
  | .node _ cs => cs
  | .tok _ _ _ => []

def Cst.tokText : Cst → String
  | .node _ _ => ""
  | .tok _ t _ => t

mutual
/-- `syntax.text().to_string()`: the text of every token below, in order -/
def Cst.text : Cst → String
  | .node _ cs => Cst.textList cs
  | .tok _ t _ => t
def Cst.textList : List Cst → String
  | [] => ""
  | c :: cs => c.text ++ Cst.textList cs
end

mutual
def Cst.size : Cst → Nat
  | .node _ cs => 1 + Cst.sizeList cs
  | .tok _ _ _ => 1
def Cst.sizeList : List Cst → Nat
  | [] => 0
  | c :: cs => c.size + Cst.sizeList cs
end

/-- fuel that suffices for `lowerFile` (two units per level of nesting at most) -/
def fuelFor (c : Cst) : Nat := 2 * c.size + 10

/-! ## accessors (`support.rs`) -/

/-- `parent.children()`: child NODES only -/
def nodesOf (c : Cst) : List Cst := c.kids.filter Cst.isNode

/-- `support::child::<N>`: `children().find_map(N::cast)` -/
def child (ks : List String) (c : Cst) : Option Cst := (nodesOf c).find? (fun x => ks.contains x.kind)

/-- `support::children::<N>` -/
def childrenK (ks : List String) (c : Cst) : List Cst := (nodesOf c).filter (fun x => ks.contains x.kind)

/-- `support::token(parent, kind)` -/
def tokenK (k : String) (c : Cst) : Option Cst := c.kids.find? (fun x => !x.isNode && x.kind == k)

/-- all child tokens of a kind, in order (`ident_tokens`, the `Str` tokens of an `Extern`) -/
def tokensK (k : String) (c : Cst) : List Cst := c.kids.filter (fun x => !x.isNode && x.kind == k)

/-- first child token whose kind is one of `ks` (`BinaryExpr::op`, `PrefixExpr::op`) -/
def tokenAny (ks : List String) (c : Cst) : Option Cst := c.kids.find? (fun x => !x.isNode && ks.contains x.kind)

/-! ### `cast` tables of `nodes.rs` (what `N::cast` accepts) -/

def exprKinds : List String :=
  ["EXPR_UNIT", "EXPR_BOOL", "EXPR_INT", "EXPR_INT8", "EXPR_INT16", "EXPR_INT32", "EXPR_INT64",
   "EXPR_UINT8", "EXPR_UINT16", "EXPR_UINT32", "EXPR_UINT64", "EXPR_FLOAT", "EXPR_FLOAT32", "EXPR_FLOAT64",
   "EXPR_STR", "EXPR_MULTILINE_STR", "EXPR_CALL", "EXPR_STRUCT_LITERAL", "EXPR_MATCH", "EXPR_IF", "EXPR_WHILE",
   "EXPR_IDENT", "EXPR_TUPLE", "EXPR_PAREN", "EXPR_BINARY", "EXPR_PREFIX", "EXPR_ARRAY_LITERAL", "EXPR_CLOSURE",
   "EXPR_GO"]

def patKinds : List String :=
  ["PATTERN_VARIABLE", "PATTERN_UNIT", "PATTERN_BOOL", "PATTERN_STRING", "PATTERN_INT", "PATTERN_INT8",
   "PATTERN_INT16", "PATTERN_INT32", "PATTERN_INT64", "PATTERN_UINT8", "PATTERN_UINT16", "PATTERN_UINT32",
   "PATTERN_UINT64", "PATTERN_CONSTR", "PATTERN_TUPLE", "PATTERN_WILDCARD"]

def typeKinds : List String :=
  ["TYPE_UNIT", "TYPE_BOOL", "TYPE_INT8", "TYPE_INT16", "TYPE_INT32", "TYPE_INT64", "TYPE_UINT8", "TYPE_UINT16",
   "TYPE_UINT32", "TYPE_UINT64", "TYPE_FLOAT32", "TYPE_FLOAT64", "TYPE_STRING", "TYPE_TUPLE", "TYPE_TAPP",
   "TYPE_DYN", "TYPE_ARRAY", "TYPE_FUNC"]

def itemKinds : List String := ["ENUM", "STRUCT", "TRAIT", "IMPL", "FN", "EXTERN"]
def stmtKinds : List String := ["STMT_LET", "STMT_EXPR"]

def binaryOpKinds : List String :=
  ["Plus", "Minus", "Star", "Slash", "AndAnd", "OrOr", "Less", "Greater", "LessEq", "GreaterEq", "EqEq", "NotEq", "Dot"]
def prefixOpKinds : List String := ["Minus", "Bang"]

/-! ## the state -/

structure St where
  locals : List String := []
  diags : List String := []
  /-- the Rust would have panicked -/
  stuck : Bool := false
  /-- the model ran out of fuel -/
  starved : Bool := false
  deriving Repr, Inhabited

abbrev M (α : Type) := St → Option α × St

@[inline] def M.pure {α} (a : α) : M α := fun s => (some a, s)
@[inline] def M.bind {α β} (m : M α) (f : α → M β) : M β := fun s =>
  match m s with
  | (some a, s') => f a s'
  | (none, s') => (none, s')
instance : Monad M where
  pure := M.pure
  bind := M.bind

/-- `return None` -/
def fail {α} : M α := fun s => (none, s)
/-- `ctx.push_error(..)` -/
def note (msg : String) : M Unit := fun s => (some (), { s with diags := s.diags ++ [msg] })
/-- `ctx.push_error(..); return None` -/
def err {α} (msg : String) : M α := fun s => (none, { s with diags := s.diags ++ [msg] })
/-- a Rust panic -/
def stuckHere {α} : M α := fun s => (none, { s with stuck := true })
def starve {α} : M α := fun s => (none, { s with starved := true })
/-- `x?` on a value that needs no context -/
def ofOpt {α} : Option α → M α
  | some a => M.pure a
  | none => fail
/-- observe the `Option` (`flat_map`, `and_then`, `match`) -/
def opt {α} (m : M α) : M (Option α) := fun s => let r := m s; (some r.1, r.2)
def getLocals : M (List String) := fun s => (some s.locals, s)
/-- `ctx.locals.push` / `extend` -/
def pushLocals (xs : List String) : M Unit := fun s => (some (), { s with locals := s.locals ++ xs })
/-- `let outer = ctx.locals.len(); ctx.locals.extend(xs); m; ctx.locals.truncate(outer)` -/
def withLocals {α} (xs : List String) (m : M α) : M α := fun s =>
  let r := m { s with locals := s.locals ++ xs }
  (r.1, { r.2 with locals := r.2.locals.take s.locals.length })

/-- `iter.flat_map(|x| f(x)).collect()`: every element in order, the `None`s dropped -/
def mapSkip {α β} (f : α → M β) : List α → M (List β)
  | [] => M.pure []
  | x :: xs => fun s =>
    let r := f x s
    match mapSkip f xs r.2 with
    | (some ys, s') => (some (match r.1 with | some y => y :: ys | none => ys), s')
    | (none, s') => (none, s')

/-- a `for` loop with `return None` inside: stops at the first `None` -/
def mapAll {α β} (f : α → M β) : List α → M (List β)
  | [] => M.pure []
  | x :: xs => M.bind (f x) fun y => M.bind (mapAll f xs) fun ys => M.pure (y :: ys)

/-! ## small pure pieces -/

def identTexts (path : Cst) : List String := (tokensK "Ident" path).map Cst.tokText

/-- `LowerCtx::is_constructor` -/
def isCtor (C : List String) (x : String) : Bool := C.contains x

/-- `LowerCtx::is_constructor_path(path, last)` -/
def isCtorPath (C locals : List String) (path : List String) (last : String) : Bool :=
  isCtor C last && !(path.length == 1 && locals.contains last)

mutual
/-- `LowerCtx::bind_pat`: the names a pattern pushes, in order -/
def patVars : Pat → List String
  | .var x => [x]
  | .constr _ args => patVarsList args
  | .struct _ fields => patVarsFields fields
  | .tuple ps => patVarsList ps
  | .wild => []
  | .lit _ => []
def patVarsList : List Pat → List String
  | [] => []
  | p :: ps => patVars p ++ patVarsList ps
def patVarsFields : List FieldPat → List String
  | [] => []
  | .mk _ p :: fs => patVars p ++ patVarsFields fs
end

/-- `text.strip_suffix(suf).unwrap_or(&text)` -/
def stripSuffix (suf text : String) : String :=
  let s := text.toList
  let u := suf.toList
  if u.isSuffixOf s then String.ofList (s.take (s.length - u.length)) else text

/-- `raw.strip_prefix('"').and_then(|s| s.strip_suffix('"'))` -/
def stripQuotes (raw : String) : Option (List Char) :=
  match raw.toList with
  | '"' :: rest =>
    match rest.reverse with
    | '"' :: body => some body.reverse
    | _ => none
  | _ => none

def digitVal (c : Char) : Option Nat :=
  if '0' ≤ c ∧ c ≤ '9' then some (c.toNat - '0'.toNat) else none

/-- `text.parse::<usize>()` (64-bit): optional `+`, then decimal digits, no overflow -/
def parseUsize (text : String) : Option Nat :=
  let cs := match text.toList with
    | '+' :: r => r
    | r => r
  match cs with
  | [] => none
  | _ =>
    match cs.foldl (fun acc c => match acc, digitVal c with
        | some a, some d => some (a * 10 + d)
        | _, _ => none) (some 0) with
    | some v => if v < 2 ^ 64 then some v else none
    | none => none

/-- a postfix operation still to be attached (`enum Trailing`) -/
inductive Trailing where
  | call (args : List Expr)
  | field (x : String)
  | proj (i : Nat)
  deriving Inhabited

def applyPost (e : Expr) : Trailing → Expr
  | .call args => .call e args
  | .field x => .field e x
  | .proj i => .proj e i

/-- `apply_trailing_args`: innermost first -/
def applyTrailing (e : Expr) : List Trailing → Expr
  | [] => e
  | t :: ts => applyTrailing (applyPost e t) ts

def isDotOp (c : Cst) : Bool :=
  match tokenAny binaryOpKinds c with
  | some t => t.kind == "Dot"
  | none => false

mutual
/-- `receiver_starts_with_prefix` -/
def recvPrefix : Cst → Bool
  | .node k cs =>
    if k == "EXPR_PREFIX" then true
    else if k == "EXPR_CALL" then recvPrefixFirst cs
    else if k == "EXPR_BINARY" && isDotOp (.node k cs) then recvPrefixFirst cs
    else false
  | .tok _ _ _ => false
/-- … of the first child that is an expression -/
def recvPrefixFirst : List Cst → Bool
  | [] => false
  | c :: cs => if c.isNode && exprKinds.contains c.kind then recvPrefix c else recvPrefixFirst cs
end

/-! ### attributes -/

def isWs (c : Char) : Bool := c == ' ' || c == '\t' || c == '\n' || c == '\r' || c.toNat == 11 || c.toNat == 12

def trimL (cs : List Char) : List Char := ((cs.dropWhile isWs).reverse.dropWhile isWs).reverse

/-- the text after the last `::` (`path.split("::").last()`) -/
def lastSegment : List Char → List Char → List Char
  | [], acc => acc.reverse
  | ':' :: ':' :: rest, _ => lastSegment rest []
  | c :: rest, acc => lastSegment rest (c :: acc)

/-- `attribute_path` -/
def attributePath (text : String) : Option (List Char) :=
  match trimL text.toList with
  | '#' :: '[' :: rest =>
    match rest.reverse with
    | ']' :: inner =>
      let inner := trimL inner.reverse
      let namePart := trimL (inner.takeWhile (· != '('))
      if namePart.isEmpty then none else some namePart
    | _ => none
  | _ => none

/-- `find_attribute(attrs, target).is_some()` -/
def hasAttribute (attrs : List String) (target : String) : Bool :=
  attrs.any fun t => match attributePath t with
    | some p => lastSegment p [] == target.toList
    | none => false

mutual
/-- the text of the tokens of a node except its comment tokens -/
def Cst.codeText : Cst → String
  | .node _ cs => Cst.codeTextList cs
  | .tok k t _ => if k == "Comment" then "" else t
def Cst.codeTextList : List Cst → String
  | [] => ""
  | c :: cs => c.codeText ++ Cst.codeTextList cs
end

/-- `lower_attributes`: the attribute's node also holds the trivia that follow its closing bracket; the text kept is
    that of the node's tokens without the comment tokens (since fix 60989c4; before: the node's whole text) -/
def lowerAttributes (node : Cst) : List String :=
  match child ["ATTRIBUTE_LIST"] node with
  | some l => (childrenK ["ATTRIBUTE"] l).map Cst.codeText
  | none => []

/-! ### literals: one row per node kind -/

/-- (node kind, token kind, suffix, Rust type name in the messages, suffix of the AST node) -/
def intKinds : List (String × String × String × String × Option (Nat × Bool)) :=
  [("INT", "Int", "", "Int", none),
   ("INT8", "Int8Lit", "i8", "Int8", some (8, true)), ("INT16", "Int16Lit", "i16", "Int16", some (16, true)),
   ("INT32", "Int32Lit", "i32", "Int32", some (32, true)), ("INT64", "Int64Lit", "i64", "Int64", some (64, true)),
   ("UINT8", "UInt8Lit", "u8", "UInt8", some (8, false)), ("UINT16", "UInt16Lit", "u16", "UInt16", some (16, false)),
   ("UINT32", "UInt32Lit", "u32", "UInt32", some (32, false)), ("UINT64", "UInt64Lit", "u64", "UInt64", some (64, false))]

def intKindOf (pre k : String) : Option (String × String × String × Option (Nat × Bool)) :=
  match intKinds.find? (fun r => pre ++ r.1 == k) with
  | some r => some r.2
  | none => none

/-- `lower_path` -/
def lowerPath (path : Cst) : M (List String) :=
  match identTexts path with
  | [] => err "Paths must contain at least one identifier"
  | segs => M.pure segs

/-- `lower_constructor_path_from_ident_expr` -/
def lowerCtorPathFromIdentExpr (e : Cst) : M (List String) :=
  match child ["PATH"] e with
  | some p => lowerPath p
  | none => err "Missing identifier in expression"

/-- `lower_constructor_path_from_constr_pat` -/
def lowerCtorPathFromConstrPat (p : Cst) : M (List String) :=
  match child ["PATH"] p with
  | some q => lowerPath q
  | none => err "Missing constructor name in pattern"

/-- `constructor.last_ident().cloned().expect("paths must contain at least one segment")` -/
def lastIdent (p : List String) : M String :=
  match p.getLast? with
  | some l => M.pure l
  | none => stuckHere

/-- `if !trailing_args.is_empty() { push_error("Cannot apply arguments to …"); return None }` -/
def noTrailing (tr : List Trailing) (what : String) : M Unit :=
  if tr.isEmpty then M.pure () else err s!"Cannot apply arguments to {what}"

/-- the right operand of `.` (`Trailing::Proj` / `Trailing::Field`) -/
def dotAccess (rhs : Cst) : M Trailing :=
  if rhs.kind == "EXPR_INT" then
    match tokenK "Int" rhs with
    | none => err "Tuple projection missing index"
    | some t =>
      match parseUsize t.tokText with
      | some i => M.pure (.proj i)
      | none => err s!"Invalid tuple index: {t.tokText}"
  else if rhs.kind == "EXPR_IDENT" then
    match (child ["PATH"] rhs).bind (fun p => (identTexts p).getLast?) with
    | some x => M.pure (.field x)
    | none => err "Field access missing name"
  else err "Unsupported field access expression"

def binOpOf : String → Option BinOp
  | "Plus" => some .add | "Minus" => some .sub | "Star" => some .mul | "Slash" => some .div
  | "AndAnd" => some .and | "OrOr" => some .or | "Less" => some .less | "Greater" => some .greater
  | "LessEq" => some .lessEq | "GreaterEq" => some .greaterEq | "EqEq" => some .eq | "NotEq" => some .notEq
  | _ => none

def boolOf (text : String) : Option Bool :=
  if text == "true" then some true else if text == "false" then some false else none

/-! ## types (`lower_ty`) -/

def primTy : String → Option TyE
  | "TYPE_UNIT" => some .unit | "TYPE_BOOL" => some .bool | "TYPE_STRING" => some .string
  | "TYPE_INT8" => some (.int 8 true) | "TYPE_INT16" => some (.int 16 true)
  | "TYPE_INT32" => some (.int 32 true) | "TYPE_INT64" => some (.int 64 true)
  | "TYPE_UINT8" => some (.int 8 false) | "TYPE_UINT16" => some (.int 16 false)
  | "TYPE_UINT32" => some (.int 32 false) | "TYPE_UINT64" => some (.int 64 false)
  | "TYPE_FLOAT32" => some (.float 32) | "TYPE_FLOAT64" => some (.float 64)
  | _ => none

def lowerTy : Nat → Cst → M TyE
  | 0, _ => starve
  | n + 1, node =>
    match primTy node.kind with
    | some t => M.pure t
    | none =>
      match node.kind with
      | "TYPE_TUPLE" => do
        let tl ← ofOpt (child ["TYPE_LIST"] node)
        let ts ← mapSkip (lowerTy n) (childrenK typeKinds tl)
        pure (.tuple ts)
      | "TYPE_TAPP" => do
        let pn ← ofOpt (child ["PATH"] node)
        let path ← lowerPath pn
        let args ← match child ["TYPE_PARAM_LIST"] node with
          | some l => mapSkip (lowerTy n) (childrenK typeKinds l)
          | none => pure []
        if args.isEmpty then pure (.con path) else pure (.app (.con path) args)
      | "TYPE_DYN" => do
        let pn ← ofOpt (child ["PATH"] node)
        let path ← lowerPath pn
        pure (.dyn path)
      | "TYPE_ARRAY" =>
        match tokenK "Int" node with
        | none => err "Array type missing length"
        | some t =>
          match parseUsize t.tokText with
          | none => err s!"Invalid array length: {t.tokText}"
          | some len => do
            let e ← opt (do let tn ← ofOpt (child typeKinds node); lowerTy n tn)
            match e with
            | some elem => pure (.array len elem)
            | none => err "Array type missing element type"
      | "TYPE_FUNC" =>
        match childrenK typeKinds node with
        | [] => err "Function type missing parameter type"
        | [_] => err "Function type missing return type"
        | p :: r :: _ => do
          let pt ← lowerTy n p
          let rt ← lowerTy n r
          match pt with
          | .tuple ts => pure (.func ts rt)
          | other => pure (.func [other] rt)
      | _ => fail

/-- `lower_param` -/
def lowerParam (n : Nat) (node : Cst) : M (String × TyE) :=
  match tokenK "Ident" node with
  | none => err "Param has no name"
  | some t => do
    let ty ← opt (do let tn ← ofOpt (child typeKinds node); lowerTy n tn)
    match ty with
    | some ty => pure (t.tokText, ty)
    | none => err s!"Param {t.tokText} has no type"

/-- `lower_closure_param` -/
def lowerClosureParam (n : Nat) (node : Cst) : M (String × Option TyE) :=
  match tokenK "Ident" node with
  | none => err "Closure parameter missing name"
  | some t =>
    match child typeKinds node with
    | some tn => do let ty ← lowerTy n tn; pure (t.tokText, some ty)
    | none => pure (t.tokText, none)

/-! ## patterns (`lower_pat`) -/

def lowerStrBody (what : String) (t : Cst) : M (List Char) :=
  match stripQuotes t.tokText with
  | none => err s!"{what} has no value"
  | some body => pure body

def lowerPat (C : List String) : Nat → Cst → M Pat
  | 0, _ => starve
  | n + 1, node =>
    match intKindOf "PATTERN_" node.kind with
    | some (tk, suf, _, sfx) => do
      let t ← ofOpt (tokenK tk node)
      pure (.lit (.int sfx (stripSuffix suf t.tokText)))
    | none =>
      match node.kind with
      | "PATTERN_VARIABLE" =>
        match tokenK "Ident" node with
        | none => err "Variable pattern has no name"
        | some t => if isCtor C t.tokText then pure (.constr [t.tokText] []) else pure (.var t.tokText)
      | "PATTERN_UNIT" => pure (.lit .unit)
      | "PATTERN_BOOL" => do
        let t ← ofOpt ((tokenK "TrueKeyword" node).orElse fun _ => tokenK "FalseKeyword" node)
        match boolOf t.tokText with
        | some b => pure (.lit (.bool b))
        | none => err s!"Invalid boolean pattern: {t.tokText}"
      | "PATTERN_STRING" =>
        match tokenK "Str" node with
        | none => err "StringPat has no value"
        | some t => do
          let body ← lowerStrBody "StringPat" t
          match StrLit.lowerStr body with
          | some v => pure (.lit (.str (String.ofList v)))
          | none => err "Invalid unicode escape in string literal"
      | "PATTERN_CONSTR" =>
        match child ["STRUCT_PATTERN_FIELD_LIST"] node with
        | some fl => do
          let pn ← ofOpt (child ["PATH"] node)
          let name ← lowerPath pn
          let fields ← mapAll (fun f =>
            match tokenK "Ident" f with
            | none => err "Struct pattern field missing name"
            | some ft =>
              match child patKinds f with
              | some p => do let q ← lowerPat C n p; pure (FieldPat.mk ft.tokText q)
              | none =>
                if (tokenK "Colon" f).isSome then err "Struct pattern field missing pattern"
                else pure (FieldPat.mk ft.tokText (.var ft.tokText))) (childrenK ["STRUCT_PATTERN_FIELD"] fl)
          pure (.struct name fields)
        | none => do
          let ctor ← lowerCtorPathFromConstrPat node
          let ps ← mapSkip (lowerPat C n) (childrenK patKinds node)
          pure (.constr ctor ps)
      | "PATTERN_TUPLE" => do
        let ps ← mapSkip (lowerPat C n) (childrenK patKinds node)
        pure (.tuple ps)
      | "PATTERN_WILDCARD" => pure .wild
      | _ => fail

/-! ## expressions, blocks, statements, arms -/

mutual
/-- `lower_expr_with_args(ctx, node, trailing_args)` -/
def lowerExprW (C : List String) : Nat → Cst → List Trailing → M Expr
  | 0, _, _ => starve
  | n + 1, node, tr =>
    match intKindOf "EXPR_" node.kind with
    | some (tk, suf, rust, sfx) =>
      match tokenK tk node with
      | none => err s!"{rust}Expr has no value"
      | some t => do
        noTrailing tr "integer literal"
        pure (.lit (.int sfx (stripSuffix suf t.tokText)))
    | none =>
      match node.kind with
      | "EXPR_UNIT" => do
        noTrailing tr "unit expression"
        pure (.lit .unit)
      | "EXPR_BOOL" =>
        match (tokenK "TrueKeyword" node).orElse fun _ => tokenK "FalseKeyword" node with
        | none => err "BoolExpr has no value"
        | some t =>
          match boolOf t.tokText with
          | none => err s!"Invalid boolean literal: {t.tokText}"
          | some b => do
            noTrailing tr "bool literal"
            pure (.lit (.bool b))
      | "EXPR_FLOAT" =>
        match tokenK "Float" node with
        | none => err "FloatExpr has no value"
        | some (.tok _ text fl) =>
          match fl with
          | none => err s!"Invalid float literal: {text}"
          | some (dbg, bits) => do
            noTrailing tr "float literal"
            pure (.lit (.float none dbg (UInt64.ofNat bits)))
        | some _ => fail
      | "EXPR_FLOAT32" =>
        match tokenK "Float32Lit" node with
        | none => err "Float32Expr has no value"
        | some t => do
          noTrailing tr "float literal"
          pure (.lit (.float (some 32) (stripSuffix "f32" t.tokText) (UInt64.ofNat (match t with | .tok _ _ (some (_, b)) => b | _ => 0))))
      | "EXPR_FLOAT64" =>
        match tokenK "Float64Lit" node with
        | none => err "Float64Expr has no value"
        | some t => do
          noTrailing tr "float literal"
          pure (.lit (.float (some 64) (stripSuffix "f64" t.tokText) (UInt64.ofNat (match t with | .tok _ _ (some (_, b)) => b | _ => 0))))
      | "EXPR_STR" =>
        match tokenK "Str" node with
        | none => err "StrExpr has no value"
        | some t => do
          let body ← lowerStrBody "StrExpr" t
          noTrailing tr "string literal"
          match StrLit.lowerStr body with
          | some v => pure (.lit (.str (String.ofList v)))
          | none => err "Invalid unicode escape in string literal"
      | "EXPR_MULTILINE_STR" =>
        match tokenK "MultilineStr" node with
        | none => err "MultilineStrExpr has no value"
        | some t => do
          noTrailing tr "string literal"
          match StrLit.lowerMultiline t.tokText.toList with
          | some v => pure (.lit (.str (String.ofList v)))
          | none => err "Invalid multiline string content"
      | "EXPR_CALL" => do
        let args ← match child ["ARG_LIST"] node with
          | some al => mapSkip (lowerArg C n) (childrenK ["ARG"] al)
          | none => pure []
        match child exprKinds node with
        | none => err "CallExpr has no function name"
        | some callee =>
          if callee.kind == "EXPR_IDENT" then do
            let p ← lowerCtorPathFromIdentExpr callee
            let last ← lastIdent p
            let ls ← getLocals
            if isCtorPath C ls p last then pure (applyTrailing (.constr p args) tr)
            else pure (applyTrailing (.call (.path p) args) tr)
          else
            let isPostfix := callee.kind == "EXPR_CALL" || callee.kind == "EXPR_CLOSURE"
              || (callee.kind == "EXPR_BINARY" && isDotOp callee)
            if isPostfix && !recvPrefix callee then do
              let f ← lowerExprW C n callee []
              pure (applyTrailing (.call f args) tr)
            else
              -- hand the call down; it is applied where the chain really starts
              lowerExprW C n callee (.call args :: tr)
      | "EXPR_MATCH" => do
        noTrailing tr "match expression"
        match child exprKinds node with
        | none => err "MatchExpr has no expr"
        | some sc => do
          let e ← lowerExprW C n sc []
          match child ["MATCH_ARM_LIST"] node with
          | none => err "MatchExpr has no arms"
          | some al => do
            let arms ← mapSkip (lowerArm C n) (childrenK ["MATCH_ARM"] al)
            pure (.matchE e arms)
      | "EXPR_GO" => do
        noTrailing tr "go expression"
        match child exprKinds node with
        | none => err "go statement missing expression"
        | some inner => do
          let e ← lowerExprW C n inner []
          pure (.go e)
      | "EXPR_IF" => do
        noTrailing tr "if expression"
        let cond ← opt (do
          let cn ← ofOpt (child ["EXPR_IF_COND"] node)
          let ce ← ofOpt (child exprKinds cn)
          lowerExprW C n ce [])
        match cond with
        | none => err "If expression missing condition"
        | some c => do
          let t ← match child ["EXPR_IF_THEN"] node with
            | some br => lowerBranch C n br "If expression then-branch missing body"
            | none => err "If expression missing then branch"
          let e ← match child ["EXPR_IF_ELSE"] node with
            | some br => lowerBranch C n br "If expression else-branch missing body"
            | none => err "If expression missing else branch"
          pure (.ite c t e)
      | "EXPR_WHILE" => do
        noTrailing tr "while expression"
        let cond ← opt (do
          let cn ← ofOpt (child ["EXPR_WHILE_COND"] node)
          let ce ← ofOpt (child exprKinds cn)
          lowerExprW C n ce [])
        match cond with
        | none => err "While expression missing condition"
        | some c => do
          let b ← match child ["EXPR_WHILE_BODY"] node with
            | some br => lowerBranch C n br "While expression body missing expression"
            | none => err "While expression missing body"
          pure (.while c b)
      | "EXPR_STRUCT_LITERAL" => do
        noTrailing tr "struct literal"
        let pn ← ofOpt (child ["PATH"] node)
        let name ← lowerPath pn
        let fields ← match child ["STRUCT_LITERAL_FIELD_LIST"] node with
          | some fl => mapSkip (lowerFieldInit C n) (childrenK ["STRUCT_LITERAL_FIELD"] fl)
          | none => pure []
        pure (.structLit name fields)
      | "EXPR_ARRAY_LITERAL" => do
        noTrailing tr "array literal"
        let items ← mapSkip (fun e => lowerExprW C n e []) (childrenK exprKinds node)
        pure (.array items)
      | "EXPR_IDENT" => do
        let p ← lowerCtorPathFromIdentExpr node
        let last ← lastIdent p
        let ls ← getLocals
        if isCtorPath C ls p last then
          -- `!Some(x)`: the constructor's argument list arrives as a pending call
          match tr with
          | .call args :: rest => pure (applyTrailing (.constr p args) rest)
          | _ => pure (applyTrailing (.constr p []) tr)
        else pure (applyTrailing (.path p) tr)
      | "EXPR_TUPLE" => do
        noTrailing tr "tuple literal"
        let items ← mapSkip (fun e => lowerExprW C n e []) (childrenK exprKinds node)
        pure (.tuple items)
      | "EXPR_PAREN" => do
        -- parentheses end the re-association: pending operations apply to the whole expression
        let inner ← ofOpt (child exprKinds node)
        let e ← lowerExprW C n inner []
        pure (applyTrailing e tr)
      | "EXPR_PREFIX" => do
        -- postfix operations bind tighter than the prefix operator: they go to the operand
        let e ← opt (do let x ← ofOpt (child exprKinds node); lowerExprW C n x tr)
        match e with
        | none => err "Prefix expression missing operand"
        | some e =>
          match tokenAny prefixOpKinds node with
          | none => err "Prefix expression missing operator"
          | some t => if t.kind == "Minus" then pure (.un .neg e) else pure (.un .not e)
      | "EXPR_BINARY" =>
        match childrenK exprKinds node with
        | [] => err "Binary expression missing lhs"
        | [_] => err "Binary expression missing rhs"
        | lhsC :: rhsC :: _ =>
          match tokenAny binaryOpKinds node with
          | none => err "Binary expression missing operator"
          | some opT =>
            if opT.kind == "Dot" then
              -- `-g(x).h` is parsed as `(-g(x)).h`: hand `.h` down to the operand of the prefix
              if recvPrefix lhsC then do
                let access ← dotAccess rhsC
                lowerExprW C n lhsC (access :: tr)
              else do
                let lhs ← lowerExprW C n lhsC []
                let access ← dotAccess rhsC
                pure (applyTrailing lhs (access :: tr))
            else do
              let lhs ← lowerExprW C n lhsC []
              match binOpOf opT.kind with
              | some op => do
                let rhs ← lowerExprW C n rhsC tr
                pure (.bin op lhs rhs)
              | none => err "Unsupported binary operator"
      | "EXPR_CLOSURE" => do
        noTrailing tr "closure expression"
        let params ← match child ["CLOSURE_PARAM_LIST"] node with
          | some l => mapSkip (lowerClosureParam n) (childrenK ["CLOSURE_PARAM"] l)
          | none => do note "Closure missing parameter list"; pure []
        match child ["EXPR_CLOSURE_BODY"] node with
        | none => err "Closure missing body"
        | some bn => do
          let body ← withLocals (params.map (·.1)) (lowerBranch C n bn "Closure body missing expr")
          pure (.closure params body)
      | _ => fail
/-- `if let Some(block) = b.block() { lower_block } else if let Some(expr) = b.expr() { lower_expr } else { error }`
    (then / else branch, `while` body, closure body) -/
def lowerBranch (C : List String) : Nat → Cst → String → M Expr
  | 0, _, _ => starve
  | n + 1, br, msg =>
    match child ["BLOCK"] br with
    | some b => lowerBlock C n b
    | none =>
      match child exprKinds br with
      | some e => lowerExprW C n e []
      | none => err msg
/-- one field of a struct literal (the closure inside `flat_map`) -/
def lowerFieldInit (C : List String) : Nat → Cst → M FieldInit
  | 0, _ => starve
  | n + 1, f => do
    let ft ← ofOpt (tokenK "Ident" f)
    let e ← opt (do let x ← ofOpt (child exprKinds f); lowerExprW C n x [])
    pure (.mk ft.tokText (e.getD (.path [ft.tokText])))
/-- `lower_arg` -/
def lowerArg (C : List String) : Nat → Cst → M Expr
  | 0, _ => starve
  | n + 1, node =>
    match child exprKinds node with
    | some e => lowerExprW C n e []
    | none => err "Arg has no expr"
/-- `lower_arm` -/
def lowerArm (C : List String) : Nat → Cst → M Arm
  | 0, _ => starve
  | n + 1, node => do
    let pn ← ofOpt (child patKinds node)
    let pat ← lowerPat C n pn
    let body ← withLocals (patVars pat) (opt (match child exprKinds node with
      | some e => lowerExprW C n e []
      | none =>
        match child ["BLOCK"] node with
        | some b => lowerBlock C n b
        | none => err "Match arm has no body"))
    let body ← ofOpt body
    pure (.mk pat body)
/-- `lower_stmt`; a `let` pushes the names of its pattern AFTER its value has been lowered -/
def lowerStmt (C : List String) : Nat → Cst → M Expr
  | 0, _ => starve
  | n + 1, st =>
    if st.kind == "STMT_LET" then
      match child patKinds st with
      | none => err "Let statement missing pattern"
      | some pn => do
        let pat ← lowerPat C n pn
        match child exprKinds st with
        | none => err "Let statement missing value"
        | some vn => do
          let ann ← opt (do let tn ← ofOpt (child typeKinds st); lowerTy n tn)
          let v ← lowerExprW C n vn []
          pushLocals (patVars pat)
          pure (.letE pat ann v)
    else
      match child exprKinds st with
      | none => err "Expression statement missing expression"
      | some e => lowerExprW C n e []
/-- the `for stmt in node.stmts()` loop of `lower_block` -/
def lowerStmts (C : List String) : Nat → List Cst → M (List Expr)
  | 0, _ => starve
  | _ + 1, [] => pure []
  | n + 1, st :: rest => do
    let e ← opt (lowerStmt C n st)
    let es ← lowerStmts C n rest
    pure (match e with | some e => e :: es | none => es)
/-- `lower_block` -/
def lowerBlock (C : List String) : Nat → Cst → M Expr
  | 0, _ => starve
  | n + 1, node =>
    withLocals [] (do
      let es ← lowerStmts C n (childrenK stmtKinds node)
      match child exprKinds node with
      | some t => do
        let e ← opt (lowerExprW C n t [])
        pure (.block (es ++ e.toList))
      | none => pure (.block (es ++ [.lit .unit])))
end

/-- `lower_expr` -/
def lowerExpr (C : List String) (n : Nat) (node : Cst) : M Expr := lowerExprW C n node []

/-! ## items -/

/-- `generic_list().map(|l| l.generics().flat_map(|g| g.uident()))` -/
def lowerGenericNames (node : Cst) : List String :=
  match child ["GENERIC_LIST"] node with
  | some l => (childrenK ["GENERIC"] l).filterMap fun g => (tokenK "Ident" g).map Cst.tokText
  | none => []

/-- `lower_variant` -/
def lowerVariant (n : Nat) (node : Cst) : M (String × List TyE) :=
  match tokenK "Ident" node with
  | none => err "Variant has no name"
  | some t => do
    let ts ← match child ["TYPE_LIST"] node with
      | some l => mapSkip (lowerTy n) (childrenK typeKinds l)
      | none => pure []
    pure (t.tokText, ts)

/-- `lower_enum` -/
def lowerEnum (n : Nat) (node : Cst) : M EnumDef :=
  let attrs := lowerAttributes node
  match tokenK "Ident" node with
  | none => err "Enum has no name"
  | some t => do
    let variants ← match child ["VARIANT_LIST"] node with
      | some l => mapSkip (lowerVariant n) (childrenK ["VARIANT"] l)
      | none => do note s!"Enum {t.tokText} has no variants"; pure []
    pure { name := t.tokText, generics := lowerGenericNames node, variants := variants, attrs := attrs }

/-- `lower_struct_field` -/
def lowerStructField (n : Nat) (node : Cst) : M (String × TyE) := do
  let t ← ofOpt (tokenK "Ident" node)
  let tn ← ofOpt (child typeKinds node)
  let ty ← lowerTy n tn
  pure (t.tokText, ty)

/-- `lower_struct` -/
def lowerStruct (n : Nat) (node : Cst) : M StructDef := do
  let attrs := lowerAttributes node
  let t ← ofOpt (tokenK "Ident" node)
  let fields ← match child ["STRUCT_FIELD_LIST"] node with
    | some l => mapSkip (lowerStructField n) (childrenK ["STRUCT_FIELD"] l)
    | none => pure []
  pure { name := t.tokText, generics := lowerGenericNames node, fields := fields, attrs := attrs }

/-- `lower_trait_method` -/
def lowerTraitMethod (n : Nat) (node : Cst) : M (String × List TyE × TyE) :=
  match tokenK "Ident" node with
  | none => err "TraitMethod has no name"
  | some t => do
    let params ← match child ["TYPE_LIST"] node with
      | some l => mapSkip (lowerTy n) (childrenK typeKinds l)
      | none => do note s!"TraitMethod {t.tokText} has no params"; pure []
    match child typeKinds node with
    | none => pure (t.tokText, params, .unit)
    | some rn => do
      let r ← opt (lowerTy n rn)
      match r with
      | some ty => pure (t.tokText, params, ty)
      | none => err s!"TraitMethod {t.tokText} has no return type"

/-- `lower_trait` -/
def lowerTrait (n : Nat) (node : Cst) : M TraitDef :=
  let attrs := lowerAttributes node
  match tokenK "Ident" node with
  | none => err "Trait has no name"
  | some t => do
    let sigs ← match child ["TRAIT_METHOD_SIG_LIST"] node with
      | some l => mapSkip (lowerTraitMethod n) (childrenK ["TRAIT_METHOD_SIG"] l)
      | none => do note s!"Trait {t.tokText} has no methods"; pure []
    pure { name := t.tokText, sigs := sigs, attrs := attrs }

/-- the generics loop of `lower_fn`: names and, for a generic with a trait set, its bounds -/
def lowerFnGenerics : List Cst → M (List String × List (String × List (List String)))
  | [] => M.pure ([], [])
  | g :: gs =>
    match tokenK "Ident" g with
    | none => lowerFnGenerics gs
    | some t => do
      let b ← match child ["TRAIT_SET"] g with
        | some ts => do
          let traits ← mapSkip lowerPath (childrenK ["PATH"] ts)
          pure [(t.tokText, traits)]
        | none => pure []
      let (names, bounds) ← lowerFnGenerics gs
      pure (t.tokText :: names, b ++ bounds)

/-- `lower_fn` -/
def lowerFn (C : List String) (n : Nat) (node : Cst) : M FnDef :=
  let attrs := lowerAttributes node
  match tokenK "Ident" node with
  | none => err "Fn has no name"
  | some t => do
    let (generics, bounds) ← match child ["GENERIC_LIST"] node with
      | some l => lowerFnGenerics (childrenK ["GENERIC"] l)
      | none => pure ([], [])
    match child ["PARAM_LIST"] node with
    | none => err s!"Fn {t.tokText} has no params"
    | some pl => do
      let params ← mapSkip (lowerParam n) (childrenK ["PARAM"] pl)
      let ret ← opt (do let tn ← ofOpt (child typeKinds node); lowerTy n tn)
      let body ← withLocals (params.map (·.1)) (opt (do
        let b ← ofOpt (child ["BLOCK"] node)
        lowerBlock C n b))
      match body with
      | some body => pure { name := t.tokText, generics := generics, bounds := bounds, params := params, ret := ret,
                            body := body, attrs := attrs }
      | none => err s!"Fn {t.tokText} has no body"

/-- `lower_impl_block` -/
def lowerImpl (C : List String) (n : Nat) (node : Cst) : M ImplDef := do
  let attrs := lowerAttributes node
  let generics := lowerGenericNames node
  let traitName ← opt (do let p ← ofOpt (child ["PATH"] node); lowerPath p)
  let forTy ← opt (do let tn ← ofOpt (child typeKinds node); lowerTy n tn)
  match forTy with
  | none => err "Impl block is missing a target type"
  | some ty => do
    let methods ← mapSkip (lowerFn C n) (childrenK ["FN"] node)
    pure { generics := generics, traitName := traitName, forTy := ty, methods := methods, attrs := attrs }

def strTokenBody (t : Option Cst) : Option String :=
  match t with
  | some t => (stripQuotes t.tokText).map String.ofList
  | none => none

def externParams (n : Nat) (node : Cst) : M (List (String × TyE)) :=
  match child ["PARAM_LIST"] node with
  | some l => mapSkip (lowerParam n) (childrenK ["PARAM"] l)
  | none => M.pure []

/-- `lower_extern` -/
def lowerExtern (n : Nat) (node : Cst) : M Item :=
  let attrs := lowerAttributes node
  let strs := tokensK "Str" node
  let hasType := (tokenK "TypeKeyword" node).isSome
  if hasAttribute attrs "builtin" then
    if hasType then err "Builtin extern declarations cannot declare types"
    else do
      if strs.head?.isSome then note "Builtin extern declarations should not specify a language string"
      match tokenK "Ident" node with
      | none => err "Extern builtin declaration is missing function name"
      | some t => do
        let params ← externParams n node
        let ret ← opt (do let tn ← ofOpt (child typeKinds node); lowerTy n tn)
        pure (.extern { kind := "builtin", name := t.tokText, arity := params.length, params := params, ret := ret, attrs := attrs })
  else if hasType && strs.head?.isNone then
    match tokenK "Ident" node with
    | none => err "Extern type declaration is missing type name"
    | some t => M.pure (.externType t.tokText)
  else
    match strTokenBody strs.head? with
    | none => err "Extern declaration is missing language string; builtin externs should use `#[builtin] extern fn`."
    | some lang =>
      if lang != "go" then err s!"Unsupported extern language: {lang}"
      else
        match strTokenBody strs[1]? with
        | none => err "Extern declaration is missing package string"
        | some pkg =>
          if hasType then
            match tokenK "Ident" node with
            | none => err "Extern type declaration is missing type name"
            | some t => M.pure (.externType t.tokText)
          else
            let symOverride := strTokenBody strs[2]?
            match tokenK "Ident" node with
            | none => err "Extern declaration is missing function name"
            | some t => do
              let params ← externParams n node
              let ret ← opt (do let tn ← ofOpt (child typeKinds node); lowerTy n tn)
              pure (.extern { kind := "go", name := t.tokText, goPackage := pkg, goSymbol := symOverride.getD t.tokText,
                              arity := params.length, params := params, ret := ret,
                              explicitSymbol := symOverride.isSome, attrs := attrs })

/-- `lower_item` -/
def lowerItem (C : List String) (n : Nat) (node : Cst) : M Item :=
  match node.kind with
  | "ENUM" => do let d ← lowerEnum n node; pure (.enum d)
  | "STRUCT" => do let d ← lowerStruct n node; pure (.struct d)
  | "TRAIT" => do let d ← lowerTrait n node; pure (.trait d)
  | "IMPL" => do let d ← lowerImpl C n node; pure (.impl d)
  | "FN" => do let d ← lowerFn C n node; pure (.fn d)
  | "EXTERN" => lowerExtern n node
  | _ => fail

/-- `collect_constructor_names`: variants of the file's enums, names of its structs (a set in the Rust;
    only membership is ever asked) -/
def collectConstructorNames (file : Cst) : List String :=
  (childrenK itemKinds file).flatMap fun it =>
    if it.kind == "ENUM" then
      match child ["VARIANT_LIST"] it with
      | some l => (childrenK ["VARIANT"] l).filterMap fun v => (tokenK "Ident" v).map Cst.tokText
      | none => []
    else if it.kind == "STRUCT" then
      ((tokenK "Ident" it).map Cst.tokText).toList
    else []

structure Result where
  /-- `None` when any diagnostic was pushed -/
  ast : Option File
  /-- what was built, whether or not diagnostics were pushed (the Rust drops it when there are any) -/
  built : File
  st : St

/-- `lower(node: cst::File) -> LowerResult` -/
def lowerFileWith (fuel : Nat) (file : Cst) : Result :=
  let C := collectConstructorNames file
  let package := match (child ["PACKAGE"] file).bind (tokenK "Ident") with
    | some t => t.tokText
    | none => "Main"
  let imports := (childrenK ["IMPORT"] file).filterMap fun d => (tokenK "Ident" d).map Cst.tokText
  let r := mapSkip (lowerItem C fuel) (childrenK itemKinds file) {}
  let f : File := { package := package, imports := imports, items := r.1.getD [] }
  { ast := if r.2.diags.isEmpty then some f else none, built := f, st := r.2 }

def lowerFile (file : Cst) : Result := lowerFileWith (fuelFor file) file

end Goml.Lower
