import GomlVerif.Model.Lower
import GomlVerif.Model.Resolve
/-!
# From the lowered AST to the scope tree of `Model/Resolve.lean`

`scopeOf` is the Lean counterpart of what `harness/src/c05.rs` does to the real `ast::File`: a one-segment
`EPath` is a `var` use, a one-segment `EConstr` is a `con` (lowering said "constructor"), blocks / arms / closures
keep their binders, every other form is a `node` over its children.  One exemption: the value of a struct-literal
field written in shorthand (`S { x }` = field `x` := `EPath [x]`) is not classified by `lower.rs` at all (it is
an `EPath` whatever `x` is spelled like), so it is not a classified use here either.

`classOk*` is the two-sided reading of the classification on the scope tree, against the DECLARATIVE scope `Γ`
(extended exactly as `Resolve.scoped*` / `conOk*` extend it): a `con x` is legitimate (`x` is a constructor of
the file and no enclosing local binder is spelled `x`) and, vice versa, a `var x` is not a visible constructor. -/
namespace Goml.Lower
open Goml.Src

mutual
def scopePat : Pat → Resolve.Pat
  | .var x => .var x 0
  | .wild => .other []
  | .lit _ => .other []
  | .constr _ args => .other (scopePats args)
  | .struct _ fields => .other (scopeFieldPats fields)
  | .tuple ps => .other (scopePats ps)
def scopePats : List Pat → List Resolve.Pat
  | [] => []
  | p :: ps => scopePat p :: scopePats ps
def scopeFieldPats : List FieldPat → List Resolve.Pat
  | [] => []
  | .mk _ p :: fs => scopePat p :: scopeFieldPats fs
end

def isLetE : Expr → Bool
  | .letE _ _ _ => true
  | _ => false

/-- `S { x }`: field `x` whose value is the bare path `x` -/
def isShorthand (f : String) : Expr → Bool
  | .path [x] => x == f
  | _ => false

mutual
def scopeOf : Expr → Resolve.Expr
  | .path p => match p with
    | [x] => .var x 0
    | _ => .node []
  | .lit _ => .node []
  | .constr p args => match p with
    | [x] => .con x 0 (scopeList args)
    | _ => .node (scopeList args)
  | .structLit _ fs => .node (scopeFields fs)
  | .tuple es => .node (scopeList es)
  | .array es => .node (scopeList es)
  | .letE _ _ v => .node [scopeOf v]
  | .closure ps b => .closure (ps.map fun q => (q.1, 0)) (scopeOf b)
  | .matchE s arms => .matchE (scopeOf s) (scopeArms arms)
  | .ite c t e => .node [scopeOf c, scopeOf t, scopeOf e]
  | .while c b => .node [scopeOf c, scopeOf b]
  | .go e => .node [scopeOf e]
  | .call f args => .node (scopeOf f :: scopeList args)
  | .un _ e => .node [scopeOf e]
  | .bin _ l r => .node [scopeOf l, scopeOf r]
  | .proj e _ => .node [scopeOf e]
  | .field e _ => .node [scopeOf e]
  | .block es => .block (scopeItems es)
def scopeList : List Expr → List Resolve.Expr
  | [] => []
  | e :: es => scopeOf e :: scopeList es
def scopeFields : List FieldInit → List Resolve.Expr
  | [] => []
  | .mk f e :: fs => (if isShorthand f e then .node [] else scopeOf e) :: scopeFields fs
def scopeArms : List Arm → List Resolve.Arm
  | [] => []
  | .mk p b :: as => .mk (scopePat p) (scopeOf b) :: scopeArms as
/-- a `let` statement extends the scope of the rest of its block -/
def scopeItems : List Expr → List Resolve.Item
  | [] => []
  | e :: rest => (match e with
      | .letE p _ v => Resolve.Item.letI (scopePat p) (scopeOf v)
      | other => Resolve.Item.exprI (scopeOf other)) :: scopeItems rest
end

mutual
/-- lowering's verdict agrees with the declarative scope, both ways -/
def classOkExpr (C Γ : List String) : Resolve.Expr → Bool
  | .var x _ => Γ.contains x || !C.contains x
  | .con x _ args => !Γ.contains x && C.contains x && classOkList C Γ args
  | .node es => classOkList C Γ es
  | .block items => classOkItems C Γ items
  | .matchE scrut arms => classOkExpr C Γ scrut && classOkArms C Γ arms
  | .closure ps body => classOkExpr C (Γ ++ ps.map (·.1)) body
def classOkList (C Γ : List String) : List Resolve.Expr → Bool
  | [] => true
  | e :: es => classOkExpr C Γ e && classOkList C Γ es
def classOkItems (C Γ : List String) : List Resolve.Item → Bool
  | [] => true
  | .letI p v :: rest => classOkExpr C Γ v && classOkItems C (Γ ++ Resolve.patNames p) rest
  | .exprI e :: rest => classOkExpr C Γ e && classOkItems C Γ rest
def classOkArms (C Γ : List String) : List Resolve.Arm → Bool
  | [] => true
  | .mk p body :: rest => classOkExpr C (Γ ++ Resolve.patNames p) body && classOkArms C Γ rest
end

end Goml.Lower
