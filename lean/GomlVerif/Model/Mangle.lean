import GomlVerif.Gen.GoKeywords
import GomlVerif.Gen.TyNames
import GomlVerif.Gen.Runtime
/-!
Model of every place where goml builds a Go identifier (C19) and of the three method
naming sites (C17).  Transcribed from

* `go/mangle.rs`      `go_ident`, `is_valid_go_ident`, `is_go_keyword`, `encode_ty`
* `go/goast.rs`       `go_type_name_for`, `ref_struct_name`, `dyn_struct_name`
* `names.rs`          `ty_compact`, `trait_impl_fn_name`, `inherent_method_fn_name`, `inherent_base`
* `pprint/tast_pprint.rs` `Ty::to_doc` (what `ty_compact` filters)
* `mono.rs`           `spec_name_for`, `TypeMono::ensure_instance` (instance type name)
* `lift.rs`           `fresh_struct_name`, `sanitize_env_name`, `make_field_name`, apply name
* `go/compile.rs`     `variant_struct_name`, `dyn_*_go_name`, entry renaming in `compile_fn`
* `go/runtime.rs`     `array_helper_fn_name`, `ref_helper_fn_name`
* `hir.rs`            `local_ident_name`; `anf.rs` `anf_renamer` (`/` → `__`); `env.rs` `Gensym`

Names are `List Char` (Rust `String`s are sequences of `char`s; every operation used here is
per-`char`).  Tables (keywords, escape cases, primitive spellings, runtime names, gensym
prefixes) come from `Gen/*`, regenerated from the Rust text on every run.  Import-free apart
from the generated tables, so that the `gomlmodel` executable links.
-/
namespace Goml.Mangle
open Goml.Gen

abbrev Name := List Char

/-! ### character classes (`u8::is_ascii_*`, `char::is_ascii_*`, `char::is_whitespace`) -/

def isAsciiLower (c : Char) : Bool := decide (97 ≤ c.toNat) && decide (c.toNat ≤ 122)
def isAsciiUpper (c : Char) : Bool := decide (65 ≤ c.toNat) && decide (c.toNat ≤ 90)
def isAsciiAlpha (c : Char) : Bool := isAsciiLower c || isAsciiUpper c
def isAsciiDigit (c : Char) : Bool := decide (48 ≤ c.toNat) && decide (c.toNat ≤ 57)
def isAsciiAlnum (c : Char) : Bool := isAsciiAlpha c || isAsciiDigit c
/-- first byte test of `is_valid_go_ident` -/
def isIdentStart (c : Char) : Bool := isAsciiAlpha c || c == '_'
/-- remaining bytes test of `is_valid_go_ident` -/
def isIdentChar (c : Char) : Bool := isAsciiAlnum c || c == '_'

/-- Unicode `White_Space` (what Rust's `char::is_whitespace` tests) -/
def isWhitespace (c : Char) : Bool :=
  let n := c.toNat
  (decide (9 ≤ n) && decide (n ≤ 13)) || n == 32 || n == 0x85 || n == 0xA0 || n == 0x1680 ||
  (decide (0x2000 ≤ n) && decide (n ≤ 0x200A)) || n == 0x2028 || n == 0x2029 || n == 0x202F ||
  n == 0x205F || n == 0x3000

def toAsciiLower (c : Char) : Char := if isAsciiUpper c then Char.ofNat (c.toNat + 32) else c

/-- `[x, y, z].join(sep)` -/
def join (sep : Name) : List Name → Name
  | [] => []
  | [x] => x
  | x :: y :: rest => x ++ sep ++ join sep (y :: rest)

/-- decimal rendering of a `usize`/`u32`/`i32 ≥ 0` (`format!("{}", n)`) -/
def digits (n : Nat) : Name := Nat.toDigits 10 n

/-! ### `go_ident` -/

/-- `is_valid_go_ident` -/
def isValidGoIdent : Name → Bool
  | [] => false
  | c :: rest => isIdentStart c && rest.all isIdentChar

def keywordNames : List Name := goKeywords

/-- `is_go_keyword` -/
def isGoKeyword (n : Name) : Bool := keywordNames.contains n

def hexChars : List Char := ['0', '1', '2', '3', '4', '5', '6', '7', '8', '9', 'a', 'b', 'c', 'd', 'e', 'f']
def hexDigit (n : Nat) : Char := hexChars.getD (n % 16) '0'
/-- `{:02x}` of one byte -/
def hex2 (b : Nat) : Name := [hexDigit (b / 16), hexDigit b]
def utf8 (c : Char) : List Nat := (String.utf8EncodeChar c).map UInt8.toNat

/-- one iteration of the escaping loop of `go_ident` -/
def escChar (c : Char) : Name :=
  if isAsciiAlnum c then [c]
  else if escToUnderscore.contains c then ['_']
  else escHexOpen ++ (utf8 c).flatMap hex2 ++ [escHexClose]

def escape (n : Name) : Name := escPrefix ++ n.flatMap escChar

/-- `go::mangle::go_ident` -/
def goIdent (n : Name) : Name :=
  if isValidGoIdent n && !isGoKeyword n then n else escape n

/-! ### types -/

/-- mirrors `tast::Ty`; the thirteen payload-free constructors are `prim p` -/
inductive Ty where
  | tvar (n : Nat)
  | prim (p : Prim)
  | ttuple (ts : List Ty)
  | tenum (name : Name)
  | tstruct (name : Name)
  | tdyn (tr : Name)
  | tapp (t : Ty) (args : List Ty)
  | tarray (len : Nat) (elem : Ty)
  | tvec (elem : Ty)
  | tref (elem : Ty)
  | tparam (name : Name)
  | tfunc (params : List Ty) (ret : Ty)
  deriving Repr, Inhabited

/-- `Ty::get_constr_name_unsafe`; `none` where the Rust panics -/
def constrName : Ty → Option Name
  | .tenum n => some n
  | .tstruct n => some n
  | .tapp t _ => constrName t
  | .tvec _ => some ['V', 'e', 'c']
  | .tref _ => some ['R', 'e', 'f']
  | _ => none

/-- placeholder where the Rust would have panicked (`encodeOk`/`goTypeNameOk`/`inherentOk` exclude these inputs) -/
def panicMark : Name := ['<', 'p', 'a', 'n', 'i', 'c', '>']

mutual
/-- inputs on which `encode_ty` does not panic: every `TApp` it visits has a constructor head
(the head itself is only asked for its name, its own arguments are not visited) -/
def encodeOk : Ty → Bool
  | .ttuple ts => encodeOks ts
  | .tapp t args => (constrName t).isSome && encodeOks args
  | .tarray _ e => encodeOk e
  | .tvec e => encodeOk e
  | .tref e => encodeOk e
  | .tfunc ps r => encodeOks ps && encodeOk r
  | _ => true
def encodeOks : List Ty → Bool
  | [] => true
  | t :: ts => encodeOk t && encodeOks ts
end

mutual
/-- `go::mangle::encode_ty` -/
def encodeTy : Ty → Name
  | .tvar _ => ['V', 'a', 'r']
  | .prim p => encodeTyPrim p
  | .tparam n => ['T', 'P', 'a', 'r', 'a', 'm', '_'] ++ n
  | .ttuple ts => ['T', 'u', 'p', 'l', 'e', '_'] ++ join ['_'] (encodeTys ts)
  | .tenum n => n
  | .tstruct n => n
  | .tdyn tr => ['D', 'y', 'n', '_'] ++ tr
  | .tapp t args =>
    let base := (constrName t).getD panicMark
    match args with
    | [] => base
    | _ => base ++ ['_'] ++ join ['_'] (encodeTys args)
  | .tarray len e => ['A', 'r', 'r', 'a', 'y', '_'] ++ digits len ++ ['_'] ++ encodeTy e
  | .tvec e => ['V', 'e', 'c', '_'] ++ encodeTy e
  | .tref e => ['R', 'e', 'f', '_'] ++ encodeTy e
  | .tfunc ps r => ['F', 'n', '_'] ++ join ['_'] (encodeTys ps) ++ ['_', 't', 'o', '_'] ++ encodeTy r
def encodeTys : List Ty → List Name
  | [] => []
  | t :: ts => encodeTy t :: encodeTys ts
end

mutual
/-- `Ty::to_doc` rendered (`to_pretty`; the document contains no breakable space) -/
def tyPretty : Ty → Name
  | .tvar n => ['T', 'y', 'p', 'e', 'V', 'a', 'r', '('] ++ digits n ++ [')']
  | .prim p => toDocPrim p
  | .ttuple ts => ['('] ++ join [',', ' '] (tyPrettys ts) ++ [')']
  | .tenum n => n
  | .tstruct n => n
  | .tdyn tr => ['d', 'y', 'n', ' '] ++ tr
  | .tapp t args =>
    match args with
    | [] => tyPretty t
    | _ => tyPretty t ++ ['['] ++ join [',', ' '] (tyPrettys args) ++ [']']
  | .tarray len e => ['['] ++ tyPretty e ++ [';', ' '] ++ digits len ++ [']']
  | .tvec e => ['V', 'e', 'c', '['] ++ tyPretty e ++ [']']
  | .tref e => ['R', 'e', 'f', '['] ++ tyPretty e ++ [']']
  | .tfunc ps r => ['('] ++ join [',', ' '] (tyPrettys ps) ++ [')', ' ', '-', '>', ' '] ++ tyPretty r
  | .tparam n => n
def tyPrettys : List Ty → List Name
  | [] => []
  | t :: ts => tyPretty t :: tyPrettys ts
end

/-- `names::ty_compact` -/
def tyCompact (t : Ty) : Name := (tyPretty t).filter (fun c => !isWhitespace c)

/-- `goast::ref_struct_name` -/
def refStructName (elem : Ty) : Name :=
  ['r', 'e', 'f', '_'] ++ (goIdent (encodeTy elem)).map toAsciiLower ++ ['_', 'x']

/-- `goast::dyn_struct_name` = `compile::dyn_struct_go_name` -/
def dynStructName (tr : Name) : Name := goIdent (['d', 'y', 'n', '_', '_'] ++ tr)

def replaceChars (set : List Char) (n : Name) : Name := n.map (fun c => if set.contains c then '_' else c)

mutual
/-- `goast::go_type_name_for` -/
def goTypeNameFor : Ty → Name
  | .prim p => goTypeNamePrim p
  | .tenum n => goIdent n
  | .tstruct n => goIdent n
  | .tdyn tr => dynStructName tr
  | .tapp t _ => goTypeNameFor t
  | .ttuple ts => ['T', 'u', 'p', 'l', 'e'] ++ digits ts.length ++ goTypeNameComps ts
  | .tarray len e => ['A', 'r', 'r', 'a', 'y'] ++ digits len ++ ['_'] ++ replaceChars typeNameReplaced (goTypeNameFor e)
  | .tvec e => ['V', 'e', 'c', '_'] ++ replaceChars typeNameReplaced (goTypeNameFor e)
  | .tref e => ['P', 't', 'r', '_'] ++ replaceChars typeNameReplacedRef (refStructName e)
  | .tfunc ps r =>
    ['T', 'F', 'u', 'n', 'c'] ++ (match ps with
      | [] => ['_', 'u', 'n', 'i', 't']
      | _ => goTypeNameParams ps) ++ ['_'] ++ goTypeNameFor r
  | .tvar n => ['T', 'V', 'a', 'r', '('] ++ digits n ++ [')']
  | .tparam n => ['T', 'P', 'a', 'r', 'a', 'm', '('] ++ n ++ [')']
/-- tuple components: `_` + name with the bracket characters replaced -/
def goTypeNameComps : List Ty → Name
  | [] => []
  | t :: ts => ['_'] ++ replaceChars typeNameReplaced (goTypeNameFor t) ++ goTypeNameComps ts
/-- function parameters: `_` + name (no replacement) -/
def goTypeNameParams : List Ty → Name
  | [] => []
  | t :: ts => ['_'] ++ goTypeNameFor t ++ goTypeNameParams ts
end

mutual
/-- inputs on which `go_type_name_for` does not panic (only `Ref` elements reach `encode_ty`) -/
def goTypeNameOk : Ty → Bool
  | .tapp t _ => goTypeNameOk t
  | .ttuple ts => goTypeNameOks ts
  | .tarray _ e => goTypeNameOk e
  | .tvec e => goTypeNameOk e
  | .tref e => encodeOk e
  | .tfunc ps r => goTypeNameOks ps && goTypeNameOk r
  | _ => true
def goTypeNameOks : List Ty → Bool
  | [] => true
  | t :: ts => goTypeNameOk t && goTypeNameOks ts
end

/-- inputs on which `inherent_method_fn_name` does not panic -/
def inherentOk : Ty → Bool
  | .tapp t _ => (constrName t).isSome
  | _ => true

/-! ### method and instance names -/

/-- `names::trait_impl_fn_name` -/
def traitImplFnName (tr : Name) (forTy : Ty) (m : Name) : Name :=
  ['t', 'r', 'a', 'i', 't', '_', 'i', 'm', 'p', 'l', '#'] ++ tr ++ ['#'] ++ tyCompact forTy ++ ['#'] ++ m

def isPrimitive : Ty → Bool
  | .prim _ => true
  | _ => false

/-- `names::inherent_base` -/
def inherentBase : Ty → Name
  | .prim p => inherentBasePrim p
  | .tenum n => n
  | .tstruct n => n
  | .tapp t a => (constrName (.tapp t a)).getD panicMark
  | .tvec _ => ['V', 'e', 'c']
  | .tref _ => ['R', 'e', 'f']
  | other => tyCompact other

/-- `names::inherent_method_fn_name` -/
def inherentMethodFnName (recv : Ty) (m : Name) : Name :=
  if isPrimitive recv then inherentBase recv ++ ['_'] ++ m
  else ['i', 'n', 'h', 'e', 'r', 'e', 'n', 't', '#'] ++ inherentBase recv ++ ['#'] ++ tyCompact recv ++ ['#'] ++ m

/-- lexicographic order on code points (= Rust's `String::cmp`, byte order of UTF-8) -/
def nameLe : Name → Name → Bool
  | [], _ => true
  | _ :: _, [] => false
  | a :: as, b :: bs => if a.toNat < b.toNat then true else if b.toNat < a.toNat then false else nameLe as bs

def insertByKey (p : Name × Ty) : List (Name × Ty) → List (Name × Ty)
  | [] => [p]
  | q :: qs => if nameLe p.1 q.1 then p :: q :: qs else q :: insertByKey p qs

def sortByKey : List (Name × Ty) → List (Name × Ty)
  | [] => []
  | p :: ps => insertByKey p (sortByKey ps)

/-- `mono::spec_name_for` (the substitution as a list of distinct keys) -/
def specNameFor (orig : Name) (subst : List (Name × Ty)) : Name :=
  match subst with
  | [] => orig
  | _ => orig ++ ['_', '_'] ++ join ['_', '_'] ((sortByKey subst).map fun (k, v) => k ++ ['_'] ++ tyCompact v)

/-- `TypeMono::ensure_instance`: name of the monomorphic copy of a generic enum/struct -/
def monoTypeName (name : Name) (args : List Ty) : Name :=
  match args with
  | [] => name
  | _ => name ++ ['_', '_'] ++ join ['_', '_'] (args.map tyCompact)

/-! ### closures (`lift.rs`) -/

def splitOn (sep : Char) : Name → List Name
  | [] => [[]]
  | c :: cs =>
    match splitOn sep cs with
    | [] => [[]]   -- unreachable
    | p :: ps => if c == sep then [] :: p :: ps else (c :: p) :: ps

/-- `sanitize_env_name` -/
def sanitizeEnvName (name : Name) : Option Name :=
  let primary := (splitOn '/' name).headD []
  let mapped := primary.map fun c => if isAsciiAlnum c then c else '_'
  let joined := join ['_'] ((splitOn '_' mapped).filter (fun p => !p.isEmpty))
  match joined with
  | [] => none
  | c :: _ => if isAsciiDigit c then some ('_' :: joined) else some joined

/-- `State::fresh_struct_name` -/
def closureEnvName (hint : Option Name) (id : Nat) : Name :=
  match hint with
  | some h => closureEnvPrefix ++ h ++ ['_'] ++ digits id
  | none => closureEnvPrefix ++ digits id

/-- `make_field_name` -/
def closureFieldName (name : Name) (index : Nat) : Name :=
  ((sanitizeEnvName name).getD ['f', 'i', 'e', 'l', 'd']) ++ ['_'] ++ digits index

/-- name of the lifted function of a closure whose environment struct is `env` -/
def closureApplyName (env : Name) : Name := inherentMethodFnName (.tstruct env) closureApplyMethod

/-! ### Go backend (`go/compile.rs`, `go/runtime.rs`) -/

/-- `variant_struct_name`; `enums` = every enum of the environment with its variant names,
`structs` = every struct name.  The bare variant name is used only when no other enum has a
variant of that name and no enum or struct type is spelled like it. -/
def variantStructName (enums : List (Name × List Name)) (structs : List Name) (enumName variant : Name) : Name :=
  if (enums.filter fun e => e.2.contains variant).length > 1 || enums.any (fun e => e.1 == variant) ||
      structs.contains variant then
    goIdent enumName ++ ['_'] ++ goIdent variant
  else goIdent variant

def dynVtableStructName (tr : Name) : Name := goIdent (['d', 'y', 'n', '_', '_'] ++ tr ++ ['_', 'v', 't', 'a', 'b', 'l', 'e'])
def dynVtableCtorName (tr : Name) (forTy : Ty) : Name :=
  goIdent (['d', 'y', 'n', '_', '_'] ++ tr ++ ['_', '_', 'v', 't', 'a', 'b', 'l', 'e', '_', '_'] ++ encodeTy forTy)
def dynWrapName (tr : Name) (forTy : Ty) (m : Name) : Name :=
  goIdent (['d', 'y', 'n', '_', '_'] ++ tr ++ ['_', '_', 'w', 'r', 'a', 'p', '_', '_'] ++ encodeTy forTy ++ ['_', '_'] ++ m)
/-- `format!("is{}", go_ident(enum))` -/
def enumMarkerMethod (enumName : Name) : Name := ['i', 's'] ++ goIdent enumName

/-- `array_helper_fn_name` / `ref_helper_fn_name` (same body) -/
def helperFnName (pfx : Name) (t : Ty) : Name := pfx ++ ['_', '_'] ++ goIdent (encodeTy t)

/-- `str::ends_with` -/
def endsWith (n suffix : Name) : Bool := suffix.reverse.isPrefixOf n.reverse

/-- the name `compile_fn` gives a top-level function -/
def compileFnName (name : Name) : Name :=
  if name == entrySrc || endsWith name ([':', ':'] ++ entrySrc) then entryGo else goIdent name

/-! ### locals and temporaries -/

/-- `hir::…::local_ident_name` -/
def localName (hint : Name) (idx : Nat) : Name := hint ++ ['/'] ++ digits idx

/-- `anf_renamer`: `name.replace("/", "__")` -/
def renameLocal (n : Name) : Name := n.flatMap fun c => if c == '/' then ['_', '_'] else [c]

/-- `Gensym::gensym` -/
def gensymName (pfx : Name) (n : Nat) : Name := pfx ++ digits n

def gensymPrefixNames : List Name := gensymPrefixes

/-- the Go identifier of a source local -/
def goLocal (hint : Name) (idx : Nat) : Name := goIdent (renameLocal (localName hint idx))
/-- the Go identifier of a compiler temporary -/
def goTemp (pfx : Name) (n : Nat) : Name := goIdent (gensymName pfx n)

/-! ### method dispatch: the naming sites of a trait / inherent method (C17) -/

def lookupSubst (σ : List (Name × Ty)) (k : Name) : Option Ty :=
  match σ with
  | [] => none
  | (k', v) :: rest => if k' == k then some v else lookupSubst rest k

mutual
/-- `mono::subst_ty` -/
def substTy (σ : List (Name × Ty)) : Ty → Ty
  | .tparam n => (lookupSubst σ n).getD (.tparam n)
  | .ttuple ts => .ttuple (substTys σ ts)
  | .tapp t args => .tapp (substTy σ t) (substTys σ args)
  | .tarray len e => .tarray len (substTy σ e)
  | .tvec e => .tvec (substTy σ e)
  | .tref e => .tref (substTy σ e)
  | .tfunc ps r => .tfunc (substTys σ ps) (substTy σ r)
  | t => t
def substTys (σ : List (Name × Ty)) : List Ty → List Ty
  | [] => []
  | t :: ts => substTy σ t :: substTys σ ts
end

mutual
/-- `mono::has_tparam` / `compile_match::has_tparam` -/
def hasTParam : Ty → Bool
  | .tparam _ => true
  | .ttuple ts => hasTParams ts
  | .tapp t args => hasTParam t || hasTParams args
  | .tarray _ e => hasTParam e
  | .tvec e => hasTParam e
  | .tref e => hasTParam e
  | .tfunc ps r => hasTParams ps || hasTParam r
  | _ => false
def hasTParams : List Ty → Bool
  | [] => false
  | t :: ts => hasTParam t || hasTParams ts
end

mutual
/-- `TypeMono::collapse_type_apps` (phase 2 of mono): applications of generic enums/structs become
the instance's own nominal type.  `en`/`st` say which constructor names are generic enums/structs.
`dyn`, primitives, parameters are returned unchanged. -/
def collapseTy (en st : Name → Bool) : Ty → Ty
  | .tapp base args =>
    match args with
    | [] => .tapp (collapseTy en st base) []
    | _ =>
      let bn := (constrName base).getD panicMark
      if en bn then .tenum (monoTypeName bn args)
      else if st bn then .tstruct (monoTypeName bn args)
      else .tapp (collapseTy en st base) (collapseTys en st args)
  | .ttuple ts => .ttuple (collapseTys en st ts)
  | .tfunc ps r => .tfunc (collapseTys en st ps) (collapseTy en st r)
  | .tarray len e => .tarray len (collapseTy en st e)
  | .tref e => .tref (collapseTy en st e)
  | .tvec e => .tvec (collapseTy en st e)
  | t => t
def collapseTys (en st : Name → Bool) : List Ty → List Ty
  | [] => []
  | t :: ts => collapseTy en st t :: collapseTys en st ts
end

mutual
/-- no type application anywhere (what every non-generic receiver type satisfies) -/
def appFree : Ty → Bool
  | .tapp _ _ => false
  | .ttuple ts => appFrees ts
  | .tarray _ e => appFree e
  | .tvec e => appFree e
  | .tref e => appFree e
  | .tfunc ps r => appFrees ps && appFree r
  | _ => true
def appFrees : List Ty → Bool
  | [] => true
  | t :: ts => appFree t && appFrees ts
end

/-- site 0, `compile_match::compile_file`: the Core function an `impl Tr for T { fn m }` becomes -/
def implDefName (tr : Name) (forTy : Ty) (m : Name) : Name := traitImplFnName tr forTy m

/-- what `compile_match.rs:1617-1642` emits for `Tr::m(recv, …)` -/
inductive CallTarget where
  | direct (fn : Name)
  | traitCall (tr m : Name)
  deriving Repr

/-- site 1 (static): a receiver type without type parameters is named on the spot -/
def coreCallTarget (tr : Name) (recvTy : Ty) (m : Name) : CallTarget :=
  if hasTParam recvTy then .traitCall tr m else .direct (traitImplFnName tr recvTy m)

/-- site 2 (bounded generic), `mono.rs:775-808`: an `ETraitCall` is named after the receiver type
under the instance's substitution; a direct call keeps its name -/
def monoCallee (σ : List (Name × Ty)) (tr : Name) (recvTy : Ty) (m : Name) : Name :=
  match coreCallTarget tr recvTy m with
  | .direct f => f
  | .traitCall tr' m' => traitImplFnName tr' (substTy σ recvTy) m'

/-- site 3 (dyn), `go/compile.rs:909-916`: the wrapper stored in the vtable calls
`go_ident(trait_impl_fn_name(Tr, for_ty, m))`, where `for_ty` is the `EToDyn` type *after* phase 2
of mono (`collapseTy`) -/
def dynWrapperCallee (en st : Name → Bool) (tr : Name) (forTy : Ty) (m : Name) : Name :=
  goIdent (traitImplFnName tr (collapseTy en st forTy) m)

/-- `names::parse_inherent_method_fn_name` -/
def parseInherent (name : Name) : Option (Name × Name) :=
  match splitOn '#' name with
  | [tag, base, _ty, m] => if tag == ['i', 'n', 'h', 'e', 'r', 'e', 'n', 't'] then some (base, m) else none
  | _ => none

mutual
/-- `typer::check::is_concrete_dyn_target` -/
def isConcreteDynTarget : Ty → Bool
  | .tvar _ => false
  | .tparam _ => false
  | .ttuple ts => isConcreteDynTargets ts
  | .tapp t args => isConcreteDynTarget t && isConcreteDynTargets args
  | .tarray _ e => isConcreteDynTarget e
  | .tvec e => isConcreteDynTarget e
  | .tref e => isConcreteDynTarget e
  | .tfunc ps r => isConcreteDynTargets ps && isConcreteDynTarget r
  | _ => true
def isConcreteDynTargets : List Ty → Bool
  | [] => true
  | t :: ts => isConcreteDynTarget t && isConcreteDynTargets ts
end

/-- outcome of `Typer::coerce_to_expected_dyn` -/
inductive Coerce where
  | unchanged
  | unknownTrait
  | notConcrete
  | noImpl
  | toDyn (tr : Name) (forTy : Ty)
  deriving Repr

/-- decision structure of `coerce_to_expected_dyn` (typer/check.rs:430-496): `resolve` is
`resolve_trait_name`, `concrete` is `is_concrete_dyn_target`, `visible` is `has_visible_trait_impl` -/
def coerceToExpectedDyn (resolve : Name → Option Name) (concrete : Ty → Bool) (visible : Name → Ty → Bool)
    (exprTy expected : Ty) : Coerce :=
  match expected with
  | .tdyn tr =>
    match exprTy with
    | .tdyn _ => .unchanged
    | _ =>
      match resolve tr with
      | none => .unknownTrait
      | some r => if !concrete exprTy then .notConcrete else if !visible r exprTy then .noImpl else .toDyn r exprTy
  | _ => .unchanged

/-- `has_visible_trait_impl`: the key is looked up in the current package and in every dependency -/
def hasVisibleTraitImpl {K} (hasKey : K → Bool) (current : K) (deps : List K) : Bool := hasKey current || deps.any hasKey

/-- which path `Typer::infer_static_member_call_expr` (typer/check.rs) takes for `Tr::m(recv, …)` -/
inductive MemberCallPath where
  /-- `EDynTraitMethod`: the slot `m` of the receiver's own vtable -/
  | dynCall (tr m : Name)
  /-- an `Overloaded` constraint: `impl tr for recvTy` is looked up, the call is named at the static site -/
  | overloaded (tr : Name) (recvTy : Ty) (m : Name)
  deriving Repr

/-- the guard of the dynamic path: the receiver is a trait object **of the trait named in the call**.
A `dyn A` receiver under `B::m(..)` (A ≠ B) is an ordinary receiver type that needs `impl B for dyn A`. -/
def staticMemberCallPath (tr : Name) (recvTy : Ty) (m : Name) : MemberCallPath :=
  match recvTy with
  | .tdyn a => if a == tr then .dynCall tr m else .overloaded tr recvTy m
  | _ => .overloaded tr recvTy m

/-- `compile_cexpr_effect` (go/compile.rs): does an ANF complex expression compiled for its effect
emit a Go statement?  Calls — direct and through a vtable — do; value forms do not.  (`EMatch`,
`EIf`, `EWhile` never reach this function: the statement lowering handles them before.) -/
inductive CExprKind where
  | imm | constr | tuple | array | constrGet | unary | binary | toDyn | proj
  | call | dynCall | goStmt
  deriving Repr, DecidableEq

def effectEmitsStatement : CExprKind → Bool
  | .call => true
  | .dynCall => true
  | .goStmt => true
  | _ => false

/-! ### inherent method lookup with overlapping impls (`env.rs::TraitEnv::lookup_inherent_method`,
`typer/check.rs`: callee `EField` = dot form, `infer_static_member_call_expr` = path form) -/

/-- the inherent impl table: `InherentImplKey::Exact(ty)` rows (impls of one concrete type, among
them impls of single instantiations `impl Cell[int32]`) and `InherentImplKey::Constr(base)` rows
(generic impls `impl[T] Cell[T]`), each with its method names.  Types are compared by their
compact text, which is also what names the compiled function. -/
structure InhEnv where
  exact : List (Ty × List Name)
  constr : List (Name × List Name)

/-- which impl block provides the method -/
inductive InhFound where
  | exact (tyText : Name)
  | constr (base : Name)
  deriving Repr, DecidableEq

/-- `lookup_inherent_method`: the impl of exactly the receiver type first, the generic impl of its
constructor as the fallback -/
def lookupInherentMethod (E : InhEnv) (recv : Ty) (m : Name) : Option InhFound :=
  if E.exact.any (fun r => tyCompact r.1 == tyCompact recv && r.2.contains m) then some (.exact (tyCompact recv))
  else match constrName recv with
    | some b => if E.constr.any (fun r => r.1 == b && r.2.contains m) then some (.constr b) else none
    | none => none

def isApp : Ty → Bool
  | .tapp _ _ => true
  | _ => false

/-- `TraitEnv::instantiation_impl_defines` -/
def instantiationImplDefines (E : InhEnv) (base m : Name) : Bool :=
  E.exact.any fun r => isApp r.1 && constrName r.1 == some base && r.2.contains m

/-- dot form `x.m(..)`: looked up under the receiver's type -/
def dotFormLookup (E : InhEnv) (recvTy : Ty) (m : Name) : Option InhFound := lookupInherentMethod E recvTy m

/-- path form `Base::m(x, ..)`: under the bare constructor type, unless an impl of a single
instantiation of `Base` defines `m` and the first argument is a `Base[..]`: then under that
argument's type (the behaviour since fix db8e8d9; before, always the bare lookup) -/
def pathFormLookup (E : InhEnv) (base : Name) (firstArgTy : Option Ty) (m : Name) : Option InhFound :=
  let bare := lookupInherentMethod E (.tstruct base) m
  if instantiationImplDefines E base m then
    match firstArgTy with
    | some t =>
      if constrName t == some base then
        match lookupInherentMethod E t m with
        | some f => some f
        | none => bare
      else bare
    | none => bare
  else bare

end Goml.Mangle
